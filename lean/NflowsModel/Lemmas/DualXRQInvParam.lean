import NflowsModel.Lemmas.DualXSpline2
/-!
# Lemmas/DualXRQInvParam — the EXECUTED rational-quadratic spline, INVERSE direction, on dual numbers, ARBITRARY tangent direction (C16)

The input `y` AND the unnormalised widths / heights / derivatives may all carry tangents (a joint direction).

* `rqSpline_dual_inv_param_exec`: the dual inverse program's control flow (domain test, y-bin search, discriminant assertion)
  sees only value components: it selects the y-bin the real program selects at the value components and evaluates that bin's
  root / output / log-det terms on the gathered DUAL knots.
* `rqSpline_dual_inv_param_core`: along ANY differentiable curve of parameters and input (list-level `CurveL` hypotheses), for
  `y` strictly inside a y-bin the dual run returns `((inv, v'), (invLd, l'))` with `v'`, `l'` the derivatives of the real
  inverse program's two outputs ALONG THE CURVE (y-bin index locally constant along the curve by continuity of the y-knots;
  the discriminant is positive strictly inside a bin: `rq_inv_interior`).
* `rqSpline_dual_inv_param_curve`: the pipeline hypotheses discharged (`DualXParam.knots_dualL`, `derivs_dualL`).
* `rqSpline_dual_inv_param` (headline): the straight line `s ↦ (params + s·dir, y + s·y')` at `s = 0`.
-/
set_option linter.unusedSimpArgs false
open NF DualSound Filter Topology

namespace DualX
noncomputable section
open RQWhole RQInverseWhole

variable {e : Float → ℝ} {c : RQCfg}

theorem getD_fst (l : List (ℝ × ℝ)) (k : ℕ) : (l.getD k (0, 0)).1 = (l.map Prod.fst).getD k 0 := by
  simp only [List.getD_eq_getElem?_getD, List.getElem?_map]
  cases l[k]? <;> rfl

/-- value components of the gathered dual environment of bin `k` = the real environment of bin `k` at the value components -/
theorem envP_fst (dW dH dD : List (ℝ × ℝ))
    (hv : RQValid e c (dW.map Prod.fst) (dH.map Prod.fst) (dD.map Prod.fst)) (k : ℕ) (hk : k < dW.length) (z : ℝ × ℝ) :
    envOf ((envP e c dW dH dD k z).map Prod.fst) 0
      = env e c (dW.map Prod.fst) (dH.map Prod.fst) (dD.map Prod.fst) k z.1 := by
  obtain ⟨hW1, hW2⟩ := knW_fst (e := e) (c := c) dW
  obtain ⟨hH1, hH2⟩ := knH_fst (e := e) (c := c) dH
  have hD := dvD_fst (e := e) (c := c) dD
  have hK : (dW.map Prod.fst).length = dW.length := List.length_map _
  have hcwlen := (cw_facts hv).1
  have hchlen := (ch_facts hv).1
  rw [hK] at hcwlen hchlen
  have e2 : ((knW e c dW).2.getD k (0, 0)).1 = xs e c (dW.map Prod.fst) (k+1) - xs e c (dW.map Prod.fst) k := by
    rw [getD_fst, hW2, diffsG_getD e _ k (by rw [hcwlen]; omega)]; rfl
  have e4 : ((knH e c dH).2.getD k (0, 0)).1 = ys e c (dH.map Prod.fst) (k+1) - ys e c (dH.map Prod.fst) k := by
    rw [getD_fst, hH2, diffsG_getD e _ k (by rw [hchlen]; omega)]; rfl
  have e1 : ((knW e c dW).1.getD k (0, 0)).1 = xs e c (dW.map Prod.fst) k := by rw [getD_fst, hW1]; rfl
  have e3 : ((knH e c dH).1.getD k (0, 0)).1 = ys e c (dH.map Prod.fst) k := by rw [getD_fst, hH1]; rfl
  have e5 : ((dvD e c dD).getD k (0, 0)).1 = ds e c (dD.map Prod.fst) k := by rw [getD_fst, hD]; rfl
  have e6 : ((dvD e c dD).getD (k+1) (0, 0)).1 = ds e c (dD.map Prod.fst) (k+1) := by rw [getD_fst, hD]; rfl
  unfold envP
  simp only [List.map_cons, List.map_nil, e1, e2, e3, e4, e5, e6]
  rfl

/-- the value component of a dual `Expr` evaluation on the gathered dual environment is the real evaluation -/
theorem evalX_envP_fst (dW dH dD : List (ℝ × ℝ))
    (hv : RQValid e c (dW.map Prod.fst) (dH.map Prod.fst) (dD.map Prod.fst)) (k : ℕ) (hk : k < dW.length) (z : ℝ × ℝ)
    (E : Expr) :
    (evalX (dualX (NF.realX e)) (envP e c dW dH dD k z) E).1
      = evalR (env e c (dW.map Prod.fst) (dH.map Prod.fst) (dD.map Prod.fst) k z.1) E := by
  rw [(fst_hom e).evalX, evalX_eq_evalR, envP_fst dW dH dD hv k hk]

/-- **the dual inverse program selects the y-bin the real program selects at the value components, passes the discriminant
    assertion, and evaluates that bin's terms on the gathered dual knots** — every tangent (input and parameters) arbitrary -/
theorem rqSpline_dual_inv_param_exec (dW dH dD : List (ℝ × ℝ))
    (hv : RQValid e c (dW.map Prod.fst) (dH.map Prod.fst) (dD.map Prod.fst)) (dy : ℝ × ℝ)
    (hy0 : e c.box.bottom ≤ dy.1) (hy1 : dy.1 ≤ e c.box.top) :
    rqSpline (dualX (NF.realX e)) c dW dH dD true dy
      = .ok ((dualX (NF.realX e)).add
               ((dualX (NF.realX e)).mul
                 (evalX (dualX (NF.realX e)) (envP e c dW dH dD (idxI e c (dH.map Prod.fst) dy.1) dy) rqRootE)
                 ((knW e c dW).2.getD (idxI e c (dH.map Prod.fst) dy.1) (0, 0)))
               ((knW e c dW).1.getD (idxI e c (dH.map Prod.fst) dy.1) (0, 0)),
             (dualX (NF.realX e)).neg (evalX (dualX (NF.realX e)) (envP e c dW dH dD (idxI e c (dH.map Prod.fst) dy.1)
               (evalX (dualX (NF.realX e)) (envP e c dW dH dD (idxI e c (dH.map Prod.fst) dy.1) dy) rqRootE))
               rqLdThetaE)) := by
  obtain ⟨hspec, hsearch⟩ := RQInverseWhole.search_spec hv
  have hy0' : ys e c (dH.map Prod.fst) 0 ≤ dy.1 := by rw [ys_zero hv]; exact hy0
  have hy1' : dy.1 ≤ ys e c (dH.map Prod.fst) (dW.map Prod.fst).length := by rw [ys_last hv]; exact hy1
  obtain ⟨hiK, _, _⟩ := hspec dy.1 hy0' hy1'
  have hdisc := disc_nonneg hv dy.1 hy0 hy1
  set i := idxI e c (dH.map Prod.fst) dy.1 with hi
  have hK : (dW.map Prod.fst).length = dW.length := List.length_map _
  rw [hK] at hiK
  have hcwlen := (cw_facts hv).1
  have hchlen := (ch_facts hv).1
  rw [hK] at hcwlen hchlen
  have hgW : ¬ (c.minW * dW.length.toFloat > 1.0) := by have := hv.hgW; rwa [hK] at this
  have hgH : ¬ (c.minH * dW.length.toFloat > 1.0) := by have := hv.hgH; rwa [hK] at this
  have hg1 : ((dualX (NF.realX e)).lt dy ((dualX (NF.realX e)).ofFloat c.box.bottom)
      || (dualX (NF.realX e)).lt ((dualX (NF.realX e)).ofFloat c.box.top) dy) = false := by
    simp only [d_lt, d_ofFloat, Bool.or_eq_false_iff, decide_eq_false_iff_not, not_lt]
    exact ⟨hy0, hy1⟩
  obtain ⟨hW1, hW2⟩ := knW_fst (e := e) (c := c) dW
  obtain ⟨hH1, hH2⟩ := knH_fst (e := e) (c := c) dH
  have hD := dvD_fst (e := e) (c := c) dD
  have hl1 : (knW e c dW).1.length = dW.length + 1 := by rw [← List.length_map (f := Prod.fst), hW1, hcwlen]
  have hl2 : (knW e c dW).2.length = dW.length := by
    rw [← List.length_map (f := Prod.fst), hW2, SplineTotal.diffsG_length, hcwlen]; omega
  have hl3 : (knH e c dH).1.length = dW.length + 1 := by rw [← List.length_map (f := Prod.fst), hH1, hchlen]
  have hl4 : (knH e c dH).2.length = dW.length := by
    rw [← List.length_map (f := Prod.fst), hH2, SplineTotal.diffsG_length, hchlen]; omega
  have hl5 : (dvD e c dD).length = dW.length + 1 := by
    have hd := hv.hlend
    simp only [List.length_map] at hd
    unfold dvD; rw [List.length_map, hd]
  have hs : searchsortedG (dualX (NF.realX e)) c.eps (knH e c dH).1 dy = ((i : ℕ) : Int) := by
    rw [(fst_hom e).searchsortedG, hH1]
    exact hsearch dy.1 hy0 hy1
  have hi1 : ((i : Int) + 1) = ((i + 1 : ℕ) : Int) := by push_cast; rfl
  have hge : (dualX (NF.realX e)).ge (evalX (dualX (NF.realX e)) (envP e c dW dH dD i dy) rqDiscE)
      (dualX (NF.realX e)).zero = true := by
    simp only [XOps.ge, d_le, d_zero, decide_eq_true_eq]
    rw [evalX_envP_fst dW dH dD hv i hiK]
    exact hdisc
  unfold envP at hge ⊢
  unfold rqSpline
  simp only [if_true, Bool.false_eq_true, if_false, hg1, hgW, hgH]
  rw [show rqKnots (dualX (NF.realX e)) c.box.left c.box.right (flooredSoftmax (dualX (NF.realX e)) c.minW dW)
      = knW e c dW from rfl,
    show rqKnots (dualX (NF.realX e)) c.box.bottom c.box.top (flooredSoftmax (dualX (NF.realX e)) c.minH dH)
      = knH e c dH from rfl,
    show dD.map (fun u => (dualX (NF.realX e)).add ((dualX (NF.realX e)).ofFloat c.minD)
      ((dualX (NF.realX e)).softplusB ((dualX (NF.realX e)).ofFloat c.beta) u)) = dvD e c dD from rfl]
  rcases hK1 : knW e c dW with ⟨Dcw, Dwid⟩
  rcases hK2 : knH e c dH with ⟨Dch, Dhei⟩
  rw [hK1] at hl1 hl2 hge
  rw [hK2] at hl3 hl4 hs hge
  simp only at hl1 hl2 hl3 hl4 hs hge
  simp only [hs]
  rw [SplineTotal.getI_ok Dcw i (by omega), SplineTotal.getI_ok Dwid i (by omega),
    SplineTotal.getI_ok Dch i (by omega), SplineTotal.getI_ok Dhei i (by omega),
    hi1, SplineTotal.getI_ok (dvD e c dD) i (by omega), SplineTotal.getI_ok (dvD e c dD) (i + 1) (by omega)]
  simp only [List.getElem_eq_getD ((0:ℝ), (0:ℝ))]
  show (if (!(dualX (NF.realX e)).ge (evalX (dualX (NF.realX e)) [dy, Dcw.getD i (0, 0), Dwid.getD i (0, 0),
      Dch.getD i (0, 0), Dhei.getD i (0, 0), (dvD e c dD).getD i (0, 0), (dvD e c dD).getD (i + 1) (0, 0)] rqDiscE)
      (dualX (NF.realX e)).zero) = true then _ else _) = _
  rw [hge]
  rfl

/-- the curve of bin environments with ANY dual curve `g` in slot 0 and the dual knot pipeline in the other slots, entry by
    entry (the `CurveL` hypotheses say the dual knots are (value, derivative) pairs of the real knots along the curve) -/
theorem envP_isDual (FW FH FD : ℝ → List ℝ) (t : ℝ) (dW dH dD : List (ℝ × ℝ))
    (hv : RQValid e c (FW t) (FH t) (FD t))
    (hW : CurveL FW t dW) (hH : CurveL FH t dH) (hD : CurveL FD t dD)
    (hKW1 : CurveL (fun s => cw e c (FW s)) t (knW e c dW).1)
    (hKW2 : CurveL (fun s => diffsG (NF.realX e) (cw e c (FW s))) t (knW e c dW).2)
    (hKH1 : CurveL (fun s => ch e c (FH s)) t (knH e c dH).1)
    (hKH2 : CurveL (fun s => diffsG (NF.realX e) (ch e c (FH s))) t (knH e c dH).2)
    (hDV : CurveL (fun s => dv e c (FD s)) t (dvD e c dD))
    (k : ℕ) (hk : k < (FW t).length) {g : ℝ → ℝ} {z : ℝ × ℝ} (hz : IsDual g t z) (i : ℕ) :
    IsDual (fun s => env e c (FW s) (FH s) (FD s) k (g s) i) t (envOf (envP e c dW dH dD k z) (0, 0) i) := by
  have hvs : ∀ s, RQValid e c (FW s) (FH s) (FD s) := fun s =>
    DualX.RQValid.of_length hv (by rw [hW.1 s, hW.1 t]) (by rw [hH.1 s, hH.1 t]) (by rw [hD.1 s, hD.1 t])
  have hKs : ∀ s, (FW s).length = (FW t).length := fun s => by rw [hW.1 s, hW.1 t]
  have hcwl : ∀ s, (cw e c (FW s)).length = (FW t).length + 1 := fun s => by rw [(cw_facts (hvs s)).1, hKs s]
  have hchl : ∀ s, (ch e c (FH s)).length = (FW t).length + 1 := fun s => by rw [(ch_facts (hvs s)).1, hKs s]
  have hL1 : (knW e c dW).1.length = (FW t).length + 1 := by rw [← hKW1.1 t]; exact hcwl t
  have hL2 : (knW e c dW).2.length = (FW t).length := by
    rw [← hKW2.1 t, SplineTotal.diffsG_length, hcwl t]; omega
  have hL3 : (knH e c dH).1.length = (FW t).length + 1 := by rw [← hKH1.1 t]; exact hchl t
  have hL4 : (knH e c dH).2.length = (FW t).length := by
    rw [← hKH2.1 t, SplineTotal.diffsG_length, hchl t]; omega
  have hL5 : (dvD e c dD).length = (FW t).length + 1 := by
    rw [← hDV.1 t]; simp [dv, hv.hlend]
  rcases i with _|_|_|_|_|_|_|i
  · exact hz
  · exact hKW1.2 k (by omega)
  · exact (hKW2.2 k (by omega)).congr_fun (fun s => diffsG_getD e (cw e c (FW s)) k (by rw [hcwl s]; omega))
  · exact hKH1.2 k (by omega)
  · exact (hKH2.2 k (by omega)).congr_fun (fun s => diffsG_getD e (ch e c (FH s)) k (by rw [hchl s]; omega))
  · exact hDV.2 k (by omega)
  · exact hDV.2 (k + 1) (by omega)
  · exact IsDual.const 0 t

/-- **soundness of the dual INVERSE run in an arbitrary joint direction, given soundness of the dual knot pipeline**: along any
    curve `s ↦ (FW s, FH s, FD s, FY s)` of parameters and input, if the dual knots are entry-wise (value, derivative) pairs
    of the real knots along the curve, then for `FY t` strictly inside y-bin `k` the dual run returns the real outputs with
    tangents the derivatives of `s ↦ inv (params s) (FY s)` and `s ↦ invLd (params s) (FY s)` at `t` -/
theorem rqSpline_dual_inv_param_core (FW FH FD : ℝ → List ℝ) (FY : ℝ → ℝ) (t : ℝ) (dW dH dD : List (ℝ × ℝ)) (dy : ℝ × ℝ)
    (hv : RQValid e c (FW t) (FH t) (FD t))
    (hW : CurveL FW t dW) (hH : CurveL FH t dH) (hD : CurveL FD t dD) (hY : IsDual FY t dy)
    (hKW1 : CurveL (fun s => cw e c (FW s)) t (knW e c dW).1)
    (hKW2 : CurveL (fun s => diffsG (NF.realX e) (cw e c (FW s))) t (knW e c dW).2)
    (hKH1 : CurveL (fun s => ch e c (FH s)) t (knH e c dH).1)
    (hKH2 : CurveL (fun s => diffsG (NF.realX e) (ch e c (FH s))) t (knH e c dH).2)
    (hDV : CurveL (fun s => dv e c (FD s)) t (dvD e c dD))
    (k : ℕ) (hk : k < (FW t).length) (h0 : ys e c (FH t) k < FY t) (h1 : FY t < ys e c (FH t) (k+1)) :
    ∃ v' l' : ℝ, rqSpline (dualX (NF.realX e)) c dW dH dD true dy
        = .ok ((inv e c (FW t) (FH t) (FD t) (FY t), v'), (invLd e c (FW t) (FH t) (FD t) (FY t), l')) ∧
      HasDerivAt (fun s => inv e c (FW s) (FH s) (FD s) (FY s)) v' t ∧
      HasDerivAt (fun s => invLd e c (FW s) (FH s) (FD s) (FY s)) l' t := by
  have eW := hW.map_fst
  have eH := hH.map_fst
  have eD := hD.map_fst
  have hv' : RQValid e c (dW.map Prod.fst) (dH.map Prod.fst) (dD.map Prod.fst) := by rw [eW, eH, eD]; exact hv
  obtain ⟨hy0, hy1, hik⟩ := idxI_of_open_bin hv k hk (FY t) h0 h1
  have hdy : dy.1 = FY t := hY.1
  have hexec := rqSpline_dual_inv_param_exec dW dH dD hv' dy (by rw [hdy]; exact hy0) (by rw [hdy]; exact hy1)
  rw [eH, hdy, hik] at hexec
  have hvs : ∀ s, RQValid e c (FW s) (FH s) (FD s) := fun s =>
    DualX.RQValid.of_length hv (by rw [hW.1 s, hW.1 t]) (by rw [hH.1 s, hH.1 t]) (by rw [hD.1 s, hD.1 t])
  have hKs : ∀ s, (FW s).length = (FW t).length := fun s => by rw [hW.1 s, hW.1 t]
  have hcwl : ∀ s, (cw e c (FW s)).length = (FW t).length + 1 := fun s => by rw [(cw_facts (hvs s)).1, hKs s]
  have hchl : ∀ s, (ch e c (FH s)).length = (FW t).length + 1 := fun s => by rw [(ch_facts (hvs s)).1, hKs s]
  have hL1 : (knW e c dW).1.length = (FW t).length + 1 := by rw [← hKW1.1 t]; exact hcwl t
  have hL2 : (knW e c dW).2.length = (FW t).length := by
    rw [← hKW2.1 t, SplineTotal.diffsG_length, hcwl t]; omega
  have hL3 : (knH e c dH).1.length = (FW t).length + 1 := by rw [← hKH1.1 t]; exact hchl t
  have hEnv := fun {g : ℝ → ℝ} {z : ℝ × ℝ} (hz : IsDual g t z) (i : ℕ) =>
    envP_isDual FW FH FD t dW dH dD hv hW hH hD hKW1 hKW2 hKH1 hKH2 hDV k hk hz i
  have hw : 0 < xs e c (FW t) (k+1) - xs e c (FW t) k := sub_pos.mpr (xs_strict hv k hk)
  have hh : 0 < ys e c (FH t) (k+1) - ys e c (FH t) k := sub_pos.mpr (ys_strict hv k hk)
  have hd0 := ds_pos hv k (by omega)
  have hd1 := ds_pos hv (k+1) (by omega)
  -- the root along the curve
  have hroot : IsDual (fun s => binRoot e c (FW s) (FH s) (FD s) k (FY s)) t
      (evalX (dualX (NF.realX e)) (envP e c dW dH dD k dy) rqRootE) := by
    rw [evalX_dual]
    exact evalD_curve _ _ t (hEnv hY) rqRootE (rqRoot_interior_smooth hw hh h0 (by linarith))
  obtain ⟨_, hr0, hr1, _⟩ := bin_facts hv k hk (FY t) h0.le h1.le
  -- the output
  have hXk : IsDual (fun s => xs e c (FW s) k) t ((knW e c dW).1.getD k (0, 0)) := hKW1.2 k (by omega)
  have hWk : IsDual (fun s => xs e c (FW s) (k+1) - xs e c (FW s) k) t ((knW e c dW).2.getD k (0, 0)) :=
    (hKW2.2 k (by omega)).congr_fun (fun s => diffsG_getD e (cw e c (FW s)) k (by rw [hcwl s]; omega))
  have hO : IsDual (fun s => binInv e c (FW s) (FH s) (FD s) k (FY s)) t
      ((dualX (NF.realX e)).add
        ((dualX (NF.realX e)).mul (evalX (dualX (NF.realX e)) (envP e c dW dH dD k dy) rqRootE)
          ((knW e c dW).2.getD k (0, 0))) ((knW e c dW).1.getD k (0, 0))) :=
    IsDual.add e (IsDual.mul e hroot hWk) hXk
  -- the log-abs-det: the log-det term evaluated AT the dual root
  have hLd : IsDual (fun s => binInvLd e c (FW s) (FH s) (FD s) k (FY s)) t
      ((dualX (NF.realX e)).neg (evalX (dualX (NF.realX e)) (envP e c dW dH dD k
        (evalX (dualX (NF.realX e)) (envP e c dW dH dD k dy) rqRootE)) rqLdThetaE)) := by
    refine IsDual.neg e ?_
    rw [evalX_dual]
    exact evalD_curve _ _ t (hEnv hroot) rqLdThetaE (rqLdTheta_smooth hw hh hd0 hd1 hr0 hr1)
  -- the y-bin index is locally constant along the curve
  have hcY := hY.2.continuousAt
  have hc0 : ContinuousAt (fun s => ys e c (FH s) k) t := (hKH1.2 k (by omega)).2.continuousAt
  have hc1 : ContinuousAt (fun s => ys e c (FH s) (k+1)) t := (hKH1.2 (k+1) (by omega)).2.continuousAt
  have hev : ∀ᶠ s in 𝓝 t, inv e c (FW s) (FH s) (FD s) (FY s) = binInv e c (FW s) (FH s) (FD s) k (FY s) ∧
      invLd e c (FW s) (FH s) (FD s) (FY s) = binInvLd e c (FW s) (FH s) (FD s) k (FY s) := by
    filter_upwards [hc0.eventually_lt hcY h0, hcY.eventually_lt hc1 h1] with s hs0 hs1
    obtain ⟨hz0, hz1, hzk⟩ := idxI_of_open_bin (hvs s) k (by rw [hKs s]; exact hk) (FY s) hs0 hs1
    rw [inv_eq (hvs s) _ hz0 hz1, invLd_eq (hvs s) _ hz0 hz1, hzk]
    exact ⟨rfl, rfl⟩
  have hO' := hO.congr (hev.mono fun s hs => hs.1.symm)
  have hLd' := hLd.congr (hev.mono fun s hs => hs.2.symm)
  refine ⟨_, _, ?_, hO'.2, hLd'.2⟩
  rw [hexec]
  congr 1
  exact Prod.ext (Prod.ext hO'.1 rfl) (Prod.ext hLd'.1 rfl)

/-- the same with the pipeline hypotheses discharged: ANY differentiable curve of parameters and input -/
theorem rqSpline_dual_inv_param_curve (FW FH FD : ℝ → List ℝ) (FY : ℝ → ℝ) (t : ℝ) (dW dH dD : List (ℝ × ℝ)) (dy : ℝ × ℝ)
    (hv : RQValid e c (FW t) (FH t) (FD t))
    (hW : DualXParam.IsDualL FW t dW) (hH : DualXParam.IsDualL FH t dH) (hD : DualXParam.IsDualL FD t dD)
    (hY : IsDual FY t dy) (hthr : ∀ k < (FD t).length, e c.beta * (FD t).getD k 0 ≠ 20)
    (k : ℕ) (hk : k < (FW t).length) (h0 : ys e c (FH t) k < FY t) (h1 : FY t < ys e c (FH t) (k+1)) :
    ∃ v' l' : ℝ, rqSpline (dualX (NF.realX e)) c dW dH dD true dy
        = .ok ((inv e c (FW t) (FH t) (FD t) (FY t), v'), (invLd e c (FW t) (FH t) (FD t) (FY t), l')) ∧
      HasDerivAt (fun s => inv e c (FW s) (FH s) (FD s) (FY s)) v' t ∧
      HasDerivAt (fun s => invLd e c (FW s) (FH s) (FD s) (FY s)) l' t := by
  have hneW : dW ≠ [] := by
    intro hn
    have := hW.1 t
    rw [hn] at this
    exact hv.hK (List.length_eq_zero_iff.mp this)
  have hneH : dH ≠ [] := by
    intro hn
    have := hH.1 t
    rw [hn, hv.hlenh] at this
    exact hv.hK (List.length_eq_zero_iff.mp this)
  have hKW := DualXParam.knots_dualL e c.minW c.box.left c.box.right hW hneW
  have hKH := DualXParam.knots_dualL e c.minH c.box.bottom c.box.top hH hneH
  have hDV := DualXParam.derivs_dualL e c.minD c.beta hD hv.hbeta (by
    intro j hj
    have hval : (dD.getD j 0).1 = (FD t).getD j 0 := (hD.getD j hj).1
    rw [hval]
    exact hthr j (by rw [hD.1 t]; exact hj))
  exact rqSpline_dual_inv_param_core FW FH FD FY t dW dH dD dy hv (CurveL.of_isDualL hW) (CurveL.of_isDualL hH)
    (CurveL.of_isDualL hD) hY (CurveL.of_isDualL hKW.1) (CurveL.of_isDualL hKW.2) (CurveL.of_isDualL hKH.1)
    (CurveL.of_isDualL hKH.2) (CurveL.of_isDualL hDV) k hk h0 h1

variable {uw uh ud : List ℝ}

/-- **PARAMETER (and input) direction, executed RQ INVERSE program**: run on the dual input `(y, y')` with the unnormalised
    widths / heights / derivatives carrying the tangent lists `uw' uh' ud'` (any direction), for `y` strictly inside y-bin `k`
    the dual program returns `((inv y, v'), (invLd y, l'))` where `v'`, `l'` are the derivatives at `s = 0` of the REAL
    executed inverse program's two outputs along the line `s ↦ (uw + s·uw', uh + s·uh', ud + s·ud', y + s·y')`.
    Side condition: no derivative parameter sits on the softplus threshold `β·u = 20` (a jump of the executed softplus). -/
theorem rqSpline_dual_inv_param (hv : RQValid e c uw uh ud) (uw' uh' ud' : List ℝ)
    (hlw : uw.length = uw'.length) (hlh : uh.length = uh'.length) (hld : ud.length = ud'.length)
    (hthr : ∀ k < ud.length, e c.beta * ud.getD k 0 ≠ 20)
    (k : ℕ) (hk : k < uw.length) (y y' : ℝ) (h0 : ys e c uh k < y) (h1 : y < ys e c uh (k+1)) :
    ∃ v' l' : ℝ, rqSpline (dualX (NF.realX e)) c (List.zip uw uw') (List.zip uh uh') (List.zip ud ud') true (y, y')
        = .ok ((inv e c uw uh ud y, v'), (invLd e c uw uh ud y, l')) ∧
      HasDerivAt (fun s => inv e c (DualXParam.lineL uw uw' s) (DualXParam.lineL uh uh' s) (DualXParam.lineL ud ud' s)
        (y + s * y')) v' 0 ∧
      HasDerivAt (fun s => invLd e c (DualXParam.lineL uw uw' s) (DualXParam.lineL uh uh' s) (DualXParam.lineL ud ud' s)
        (y + s * y')) l' 0 := by
  have hW := DualXParam.IsDualL.line uw uw' hlw
  have hH := DualXParam.IsDualL.line uh uh' hlh
  have hD := DualXParam.IsDualL.line ud ud' hld
  have zW : DualXParam.lineL uw uw' 0 = uw := DualXParam.lineL_zero uw uw' hlw.le
  have zH : DualXParam.lineL uh uh' 0 = uh := DualXParam.lineL_zero uh uh' hlh.le
  have zD : DualXParam.lineL ud ud' 0 = ud := DualXParam.lineL_zero ud ud' hld.le
  have hY : IsDual (fun s : ℝ => y + s * y') 0 (y, y') := by
    refine ⟨by simp, ?_⟩
    simpa using ((hasDerivAt_id (0:ℝ)).mul_const y').const_add y
  have hy0 : y + 0 * y' = y := by ring
  have := rqSpline_dual_inv_param_curve (e := e) (c := c) (DualXParam.lineL uw uw') (DualXParam.lineL uh uh')
    (DualXParam.lineL ud ud') (fun s => y + s * y') 0 (List.zip uw uw') (List.zip uh uh') (List.zip ud ud') (y, y')
    (by rw [zW, zH, zD]; exact hv) hW hH hD hY (by rw [zD]; exact hthr) k (by rw [zW]; exact hk)
    (by rw [zH, hy0]; exact h0) (by rw [zH, hy0]; exact h1)
  rw [zW, zH, zD, hy0] at this
  exact this

/-- the pure parameter direction (`y' = 0`): the gradient of the two inverse outputs w.r.t. the unnormalised parameters at
    fixed `y` -/
theorem rqSpline_dual_inv_param_fixed_y (hv : RQValid e c uw uh ud) (uw' uh' ud' : List ℝ)
    (hlw : uw.length = uw'.length) (hlh : uh.length = uh'.length) (hld : ud.length = ud'.length)
    (hthr : ∀ k < ud.length, e c.beta * ud.getD k 0 ≠ 20)
    (k : ℕ) (hk : k < uw.length) (y : ℝ) (h0 : ys e c uh k < y) (h1 : y < ys e c uh (k+1)) :
    ∃ v' l' : ℝ, rqSpline (dualX (NF.realX e)) c (List.zip uw uw') (List.zip uh uh') (List.zip ud ud') true (y, 0)
        = .ok ((inv e c uw uh ud y, v'), (invLd e c uw uh ud y, l')) ∧
      HasDerivAt (fun s => inv e c (DualXParam.lineL uw uw' s) (DualXParam.lineL uh uh' s) (DualXParam.lineL ud ud' s) y) v' 0 ∧
      HasDerivAt (fun s => invLd e c (DualXParam.lineL uw uw' s) (DualXParam.lineL uh uh' s) (DualXParam.lineL ud ud' s) y) l' 0 := by
  obtain ⟨v', l', h, hv', hl'⟩ := rqSpline_dual_inv_param hv uw' uh' ud' hlw hlh hld hthr k hk y 0 h0 h1
  refine ⟨v', l', h, ?_, ?_⟩
  · simpa using hv'
  · simpa using hl'

private theorem bz3 : ((0.0:Float) == 0.0) = true := by decide +kernel
private theorem bo3 : ((1.0:Float) == 0.0) = false := by decide +kernel

/-- non-vacuity on the concrete accepted configuration of `RQWhole.valid_example` (one bin on the unit box), EVERY direction
    `([a], [b], [p, q], y')` -/
theorem rqSpline_dual_inv_param_example (a b p q y y' : ℝ) (h0 : 0 < y) (h1 : y < 1) :
    ∃ v' l' : ℝ, rqSpline (dualX (NF.realX eNV)) cNV [(0, a)] [(0, b)] [(0, p), (0, q)] true (y, y')
        = .ok ((inv eNV cNV [0] [0] [0, 0] y, v'), (invLd eNV cNV [0] [0] [0, 0] y, l')) ∧
      HasDerivAt (fun s => inv eNV cNV [0 + s * a] [0 + s * b] [0 + s * p, 0 + s * q] (y + s * y')) v' 0 ∧
      HasDerivAt (fun s => invLd eNV cNV [0 + s * a] [0 + s * b] [0 + s * p, 0 + s * q] (y + s * y')) l' 0 := by
  have hv := valid_example
  have hy0 : ys eNV cNV [0] 0 = 0 := by
    rw [ys_zero hv]; simp [eNV, cNV, bz3]
  have hy1 : ys eNV cNV [0] (0+1) = 1 := by
    have := ys_last hv
    simp only [List.length_singleton] at this
    rw [this]; simp [eNV, cNV, bo3]
  have hthr : ∀ k < ([0, 0] : List ℝ).length, eNV cNV.beta * ([0, 0] : List ℝ).getD k 0 ≠ 20 := by
    intro k hk
    have : ([0, 0] : List ℝ).getD k 0 = 0 := by
      rcases k with _|_|k
      · rfl
      · rfl
      · simp at hk
    rw [this]; norm_num
  exact rqSpline_dual_inv_param hv [a] [b] [p, q] rfl rfl rfl hthr 0 (by simp) y y' (by rw [hy0]; exact h0) (by rw [hy1]; exact h1)

end
end DualX
