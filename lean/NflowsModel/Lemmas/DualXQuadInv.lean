import NflowsModel.Lemmas.DualXQuad
import NflowsModel.Lemmas.QuadInverseWhole
/-!
# Lemmas/DualXQuadInv — the EXECUTED piecewise-quadratic spline, INVERSE direction, run on dual numbers (C16)

* `rad_pos`: on the whole closed cdf-bin the radicand `b² − 4ac` of the executed root term is strictly POSITIVE (it is linear
  in `s`, `(hl w)²` at the left cdf knot and `(hr w)²` at the right one), so `sqrt` is differentiable there;
* `quadInvAlpha_smooth`: the smoothness side conditions of the executed root term `quadInvAlphaE`;
* `quadRestI_dual_exec`: the dual second stage of the inverse program (area, floored heights, trapezium areas, cumsums,
  pinned knots, search over the cdf knots, five gathers) on zero-tangent parameters selects the same cdf-bin as the real
  program and evaluates that bin's terms on `[y', ι loc, ι w, ι lcdf, ι hl, ι hr]`;
* `binI_dual`: per-bin soundness (root term via `DualXQuad.evalD_curve`; the clamp is not at a tie strictly inside a bin —
  derived from `QuadInverseWhole.GI_open_bin`, not assumed; the log argument is a convex combination of positive heights);
* `quadSpline_dual_inv` (bounded shape) and `quadSpline_dual_inv_T` (tails shape):
  `quadSpline (dualX (NF.realX e)) c (uw.map ι) (uh.map ι) true (y, 1)` returns `((inv y, exp (invLd y)), (invLd y, l'))`
  for `y` strictly inside a cdf-bin, where `inv`, `invLd` are the outputs of the real inverse program
  (`QuadInverseWhole.inv`, `QuadInverseWhole.invLd`), `exp (invLd y)` IS the derivative of `inv` at `y` and `l'` the
  derivative of `invLd`;
* `quadSpline_dualRes_inv`, `quadSpline_dualRes_inv_T`: the same in the `DualRes` form, without the hypothesis on the reading
  of the `Float` constant `boxLog`.
-/
open NF DualSound DualX Filter Topology

namespace DualXQuadInv

/-! ### interior facts of the executed stable root -/

/-- the radicand `(hl w)² − 4·(½(hr − hl)w)·(b − s)` is strictly positive on the closed cdf-bin `[b, b + ½(hl+hr)w]` -/
theorem rad_pos {hl hr w b s : ℝ} (hl0 : 0 < hl) (hr0 : 0 < hr) (hw : 0 < w) (h0 : b ≤ s)
    (h1 : s ≤ b + (hl + hr) / 2 * w) :
    0 < (hl * w) ^ 2 - 4 * ((1/2 : ℝ) * (hr - hl) * w) * (b - s) := by
  have hD : 0 < (hl + hr) / 2 * w := mul_pos (by linarith) hw
  have hA : 0 < (hl * w) ^ 2 := by positivity
  have hB : 0 < (hr * w) ^ 2 := by positivity
  have key : ((hl * w) ^ 2 - 4 * ((1/2 : ℝ) * (hr - hl) * w) * (b - s)) * ((hl + hr) / 2 * w)
      = (hl * w) ^ 2 * ((hl + hr) / 2 * w - (s - b)) + (hr * w) ^ 2 * (s - b) := by ring
  have hpos : 0 < (hl * w) ^ 2 * ((hl + hr) / 2 * w - (s - b)) + (hr * w) ^ 2 * (s - b) := by
    rcases le_total (s - b) ((hl + hr) / 2 * w / 2) with h | h
    · have h2 : 0 < (hl * w) ^ 2 * ((hl + hr) / 2 * w - (s - b)) := mul_pos hA (by linarith)
      have h3 : 0 ≤ (hr * w) ^ 2 * (s - b) := mul_nonneg hB.le (by linarith)
      linarith
    · have h2 : 0 ≤ (hl * w) ^ 2 * ((hl + hr) / 2 * w - (s - b)) := mul_nonneg hA.le (by linarith)
      have h3 : 0 < (hr * w) ^ 2 * (s - b) := mul_pos hB (by linarith)
      linarith
  refine lt_of_mul_lt_mul_right ?_ hD.le
  rw [zero_mul, key]
  exact hpos

/-- smoothness side conditions of the executed root term: radicand `≠ 0` (for `sqrt`), denominator `≠ 0` (for `/`) -/
theorem quadInvAlpha_smooth {s l w b hl hr : ℝ}
    (hrad : (hl * w) ^ 2 - 4 * ((1/2 : ℝ) * (hr - hl) * w) * (b - s) ≠ 0)
    (hden : -(hl * w) - Real.sqrt ((hl * w) ^ 2 - 4 * ((1/2 : ℝ) * (hr - hl) * w) * (b - s)) ≠ 0) :
    Smooth (Bridge.qEnv s l w b hl hr) quadInvAlphaE := by
  have hR : hl * w * (hl * w) - (4:ℝ) * ((1:ℝ) / 2 * (hr - hl) * w) * (b - s)
      = (hl * w) ^ 2 - 4 * ((1/2 : ℝ) * (hr - hl) * w) * (b - s) := by ring
  simp only [quadInvAlphaE, NF.v, Expr.sub_def, Expr.mul_def, Expr.div_def, Expr.ofNat_def, Smooth, evalR_var,
    evalR_sub, evalR_mul, evalR_neg, evalR_sqrt, evalR_lit, true_and, and_true]
  simp only [Bridge.qEnv, envOf, List.getD_cons_zero, List.getD_cons_succ]
  norm_num
  rw [hR]
  exact ⟨hrad, hden⟩

noncomputable section
variable (e : Float → ℝ)

open QuadWhole QuadInverseWhole DualXQuad

/-! ### the second stage `quadRestI` on dual numbers -/

/-- the dual root term of the per-bin environment -/
def alD (env : List (ℝ × ℝ)) : ℝ × ℝ := evalX (dualX (NF.realX e)) env quadInvAlphaE

/-- the two outputs the dual inverse program forms from bin `k` and the dual normalised input `y'` (root term, `·w + loc`,
    clamp, rescale to the box; `−log(α(hr−hl)+hl) − boxLog`) -/
def xD (c : QCfg) (Wd U : List ℝ) (k : ℕ) (y' : ℝ × ℝ) : ℝ × ℝ :=
  (dualX (NF.realX e)).add ((dualX (NF.realX e)).mul
    ((dualX (NF.realX e)).clamp (dualX (NF.realX e)).zero (dualX (NF.realX e)).one
      ((dualX (NF.realX e)).add ((dualX (NF.realX e)).mul (alD e (envD e c Wd U k y')) (ι (wd Wd k))) (ι (lc e Wd k))))
    ((dualX (NF.realX e)).ofFloat (c.box.right - c.box.left))) ((dualX (NF.realX e)).ofFloat c.box.left)
def lDI (c : QCfg) (Wd U : List ℝ) (k : ℕ) (y' : ℝ × ℝ) : ℝ × ℝ :=
  (dualX (NF.realX e)).sub
    ((dualX (NF.realX e)).neg ((dualX (NF.realX e)).log
      ((dualX (NF.realX e)).add ((dualX (NF.realX e)).mul (alD e (envD e c Wd U k y'))
        ((dualX (NF.realX e)).sub (ι (ht e c Wd U (k+1))) (ι (ht e c Wd U k)))) (ι (ht e c Wd U k)))))
    ((dualX (NF.realX e)).ofFloat (boxLog c.box))

variable {e}
variable {c : QCfg} {Wd U : List ℝ}

/-- **the dual second stage of the inverse selects the same cdf-bin and evaluates that bin's terms on dual numbers** -/
theorem quadRestI_dual_exec (hv : CoreValid e c Wd U) (y' : ℝ × ℝ) (ht0 : 0 ≤ y'.1) (ht1 : y'.1 ≤ 1) :
    quadRestI (dualX (NF.realX e)) c (Wd.map ι) (U.map ι) y'
      = .ok (xD e c Wd U (idxB e c Wd U y'.1) y', lDI e c Wd U (idxB e c Wd U y'.1) y') := by
  obtain ⟨_, hsearch⟩ := search_specB hv
  obtain ⟨hiK, _, _, _⟩ := selB hv y'.1 ht0 ht1
  set i := idxB e c Wd U y'.1 with hi
  have hL := lift_hom e
  have hloclen := (locs_facts hv).1
  have hblclen := (blc_facts hv).1
  have hhtslen := hts_length hv
  have h2 : sumG (dualX (NF.realX e)) (List.zipWith (dualX (NF.realX e)).mul
      (pairMeans (dualX (NF.realX e)) (U.map ι)) (Wd.map ι)) = ι (area e Wd U) := by
    rw [← hom_pairMeans hL, ← hom_zipMul hL, ← hL.sumG]; rfl
  have h3 : (U.map ι).map (fun u => (dualX (NF.realX e)).add ((dualX (NF.realX e)).ofFloat c.minH)
      ((dualX (NF.realX e)).mul ((dualX (NF.realX e)).ofFloat (1 - c.minH)) ((dualX (NF.realX e)).div u (ι (area e Wd U)))))
      = (hts e c Wd U).map ι := by
    unfold hts
    rw [List.map_map, List.map_map]
    apply List.map_congr_left
    intro u _
    simp only [Function.comp, hL.add, hL.mul, hL.div, hL.ofFloat]
  have h4 : (dualX (NF.realX e)).zero :: setLast (cumsumG (dualX (NF.realX e)) (List.zipWith (dualX (NF.realX e)).mul
      (pairMeans (dualX (NF.realX e)) ((hts e c Wd U).map ι)) (Wd.map ι))) (dualX (NF.realX e)).one
      = (blc e c Wd U).map ι := by
    unfold blc ars
    rw [List.map_cons, XHom.setLast, hL.cumsumG, hom_zipMul hL, hom_pairMeans hL, hL.zero, hL.one]
  have h1 : (dualX (NF.realX e)).zero :: setLast (cumsumG (dualX (NF.realX e)) (Wd.map ι)) (dualX (NF.realX e)).one
      = (locs e Wd).map ι := by
    unfold locs
    rw [List.map_cons, XHom.setLast, hL.cumsumG, hL.zero, hL.one]
  have hs : searchsortedG (dualX (NF.realX e)) c.eps ((blc e c Wd U).map ι) y' = ((i : ℕ) : Int) := by
    rw [(fst_hom e).searchsortedG, List.map_map, fst_ι, List.map_id]
    exact hsearch y'.1 ht0 ht1
  have hi1 : ((i : Int) + 1) = ((i + 1 : ℕ) : Int) := by push_cast; rfl
  unfold quadRestI
  simp only [h2, h3, h4, h1, hs]
  rw [XHom.getI_ok (φ := ι) _ _ _ (SplineTotal.getI_ok (locs e Wd) i (by omega)),
    XHom.getI_ok (φ := ι) _ _ _ (SplineTotal.getI_ok Wd i hiK),
    XHom.getI_ok (φ := ι) _ _ _ (SplineTotal.getI_ok (blc e c Wd U) i (by omega)),
    XHom.getI_ok (φ := ι) _ _ _ (SplineTotal.getI_ok (hts e c Wd U) i (by omega)),
    hi1, XHom.getI_ok (φ := ι) _ _ _ (SplineTotal.getI_ok (hts e c Wd U) (i + 1) (by omega))]
  simp only [QuadWhole.getElem_eq_getD]
  rfl

/-! ### per-bin soundness, with the `·w + loc` / clamp / rescale and the `−log(…) − boxLog` post-processing -/

theorem ny_mem_box (hb : BoxValid e c) (z : ℝ) (h0 : 0 ≤ ny e c z) (h1 : ny e c z ≤ 1) :
    e c.box.bottom ≤ z ∧ z ≤ e c.box.top := by
  have hD : 0 < e c.box.top - e c.box.bottom := sub_pos.mpr hb.hbt
  unfold ny at h0 h1
  rw [le_div_iff₀ hD] at h0
  rw [div_le_iff₀ hD] at h1
  constructor <;> linarith

/-- a point of the open cdf-bin `k` is in `[0,1]` and the executed search over the cdf knots returns `k` there -/
theorem idxB_open_bin (hv : CoreValid e c Wd U) (k : ℕ) (hk : k < Wd.length) (s : ℝ)
    (h0 : bl e c Wd U k < s) (h1 : s < bl e c Wd U (k+1)) : 0 ≤ s ∧ s ≤ 1 ∧ idxB e c Wd U s = k := by
  have hmono := ExecGlue.knots_mono (bl e c Wd U) Wd.length (bl_strict hv)
  have hs0 : 0 ≤ s := by
    have := hmono 0 k (Nat.zero_le _) hk.le; rw [bl_zero hv] at this; linarith
  have hs1 : s ≤ 1 := by
    have := hmono (k+1) Wd.length hk le_rfl; rw [bl_last hv] at this; linarith
  exact ⟨hs0, hs1, RQInverseWhole.idx_unique (bl e c Wd U) Wd.length (idxB e c Wd U) (bl_strict hv) (search_specB hv).1
    k hk s h0.le (Or.inl h1)⟩

/-- per-bin soundness: for `y` whose normalised image is strictly inside cdf-bin `k`, and ANY dual `y'` of the
    normalisation `ny` at `y`, the two dual outputs are the (value, derivative) pairs of the bin's two inverse closed forms
    composed with `ny` -/
theorem binI_dual (hv : CoreValid e c Wd U) (hb : BoxValid e c) (k : ℕ) (hk : k < Wd.length) (y : ℝ)
    (h0 : bl e c Wd U k < ny e c y) (h1 : ny e c y < bl e c Wd U (k+1)) {y' : ℝ × ℝ} (hy : IsDual (ny e c) y y') :
    IsDual (fun z => binInvN e c Wd U k (ny e c z) * (e c.box.right - e c.box.left) + e c.box.left) y
        (xD e c Wd U k y') ∧
    IsDual (fun z => binInvLdN e c Wd U k (ny e c z) - e (boxLog c.box)) y (lDI e c Wd U k y') := by
  have hw := wd_pos hv k hk
  have hl0 := ht_pos hv k (by omega)
  have hr0 := ht_pos hv (k+1) (by omega)
  have hstep := bl_step hv k hk
  obtain ⟨hs0, hs1, hidx⟩ := idxB_open_bin hv k hk _ h0 h1
  -- the root term
  have hradp : 0 < radN e c Wd U k (ny e c y) := by
    unfold radN
    exact rad_pos hl0 hr0 hw h0.le (by rw [← hstep]; exact h1.le)
  have hdenn : -(ht e c Wd U k * wd Wd k) - Real.sqrt (radN e c Wd U k (ny e c y)) < 0 := by
    have := Real.sqrt_nonneg (radN e c Wd U k (ny e c y))
    have := mul_pos hl0 hw
    linarith
  have hα : IsDual (fun z => alphaN e c Wd U k (ny e c z)) y (alD e (envD e c Wd U k y')) :=
    qEnv_isDual e hy _ _ _ _ _ quadInvAlphaE (quadInvAlpha_smooth hradp.ne' hdenn.ne)
  obtain ⟨_, _, ha0, ha1, _⟩ := bin_factsI hv k hk (ny e c y) h0.le h1.le
  have hαv : (alD e (envD e c Wd U k y')).1 = alphaN e c Wd U k (ny e c y) := hα.1
  -- the output before the clamp
  have hO : IsDual (fun z => binInvN e c Wd U k (ny e c z)) y
      ((dualX (NF.realX e)).add ((dualX (NF.realX e)).mul (alD e (envD e c Wd U k y')) (ι (wd Wd k))) (ι (lc e Wd k))) :=
    (IsDual.add e (IsDual.mul e hα (IsDual.const (wd Wd k) y)) (IsDual.const (lc e Wd k) y)).congr_fun
      (fun s => by simp only [NF.realX_add, NF.realX_mul, binInvN])
  have hOv := hO.1
  -- strictly inside (0,1): the clamp is not at a tie
  obtain ⟨g0, g1⟩ := GI_open_bin hv k hk _ h0 h1
  unfold GI at g0 g1
  rw [hidx] at g0 g1
  have hmono := ExecGlue.knots_mono (lc e Wd) Wd.length (lc_strict hv)
  have hlo : 0 ≤ lc e Wd k := by rw [← lc_zero hv]; exact hmono 0 k (Nat.zero_le _) hk.le
  have hhi : lc e Wd (k+1) ≤ 1 := by rw [← lc_last hv]; exact hmono (k+1) Wd.length hk le_rfl
  have hpos : 0 < binInvN e c Wd U k (ny e c y) := by linarith
  have hlt1 : binInvN e c Wd U k (ny e c y) < 1 := by linarith
  have hcl := IsDual.clamp e (IsDual.zero e y) (IsDual.one e y) hO
    (by rw [d_zero, hOv]; exact ne_of_gt hpos)
    (by rw [d_zero, d_one, hOv, max_eq_left hpos.le]; exact ne_of_lt hlt1)
  have hX1 := IsDual.add e (IsDual.mul e hcl (IsDual.ofFloat e (c.box.right - c.box.left) y)) (IsDual.ofFloat e c.box.left y)
  have hnear : ∀ᶠ z in 𝓝 y, ny e c z ∈ Set.Ioo (bl e c Wd U k) (bl e c Wd U (k+1)) :=
    hy.2.continuousAt.eventually (Ioo_mem_nhds h0 h1)
  -- the log argument: a convex combination of the two positive edge heights
  have hlogpos : 0 < alphaN e c Wd U k (ny e c y) * (ht e c Wd U (k+1) - ht e c Wd U k) + ht e c Wd U k := by
    have h2 : 0 ≤ alphaN e c Wd U k (ny e c y) * ht e c Wd U (k+1) := mul_nonneg ha0 hr0.le
    have h3 : 0 ≤ (1 - alphaN e c Wd U k (ny e c y)) * ht e c Wd U k := mul_nonneg (by linarith) hl0.le
    rcases le_total (alphaN e c Wd U k (ny e c y)) (1/2) with h | h
    · have : 0 < (1 - alphaN e c Wd U k (ny e c y)) * ht e c Wd U k := mul_pos (by linarith) hl0
      nlinarith
    · have : 0 < alphaN e c Wd U k (ny e c y) * ht e c Wd U (k+1) := mul_pos (by linarith) hr0
      nlinarith
  have hArg : IsDual (fun z => alphaN e c Wd U k (ny e c z) * (ht e c Wd U (k+1) - ht e c Wd U k) + ht e c Wd U k) y
      ((dualX (NF.realX e)).add ((dualX (NF.realX e)).mul (alD e (envD e c Wd U k y'))
        ((dualX (NF.realX e)).sub (ι (ht e c Wd U (k+1))) (ι (ht e c Wd U k)))) (ι (ht e c Wd U k))) :=
    (IsDual.add e (IsDual.mul e hα (IsDual.sub e (IsDual.const (ht e c Wd U (k+1)) y) (IsDual.const (ht e c Wd U k) y)))
      (IsDual.const (ht e c Wd U k) y)).congr_fun
      (fun s => by simp only [NF.realX_add, NF.realX_mul, NF.realX_sub])
  have hL1 := IsDual.sub e (IsDual.neg e (IsDual.log e hArg (by rw [hArg.1]; exact hlogpos.ne')))
    (IsDual.ofFloat e (boxLog c.box) y)
  constructor
  · refine hX1.congr ?_
    filter_upwards [hnear] with z hz
    obtain ⟨_, hu0, hu1⟩ := binInv_mem hv k hk _ hz.1.le hz.2.le
    rw [clamp01_id e _ hu0 hu1]
    simp only [NF.realX_add, NF.realX_mul, NF.realX_ofFloat, hb.hdlr]
  · exact hL1.congr_fun (fun s => by
      simp only [NF.realX_sub, NF.realX_neg, NF.realX_log, NF.realX_ofFloat, binInvLdN])

/-- the dual normalised input the inverse program forms from the seeded input `(y, 1)` -/
def nyD (e : Float → ℝ) (c : QCfg) (y : ℝ) : ℝ × ℝ :=
  (dualX (NF.realX e)).div ((dualX (NF.realX e)).sub (y, 1) ((dualX (NF.realX e)).ofFloat c.box.bottom))
    ((dualX (NF.realX e)).ofFloat (c.box.top - c.box.bottom))

theorem nyD_isDual (hb : BoxValid e c) (y : ℝ) : IsDual (ny e c) y (nyD e c y) := by
  have hD : e c.box.top - e c.box.bottom ≠ 0 := (sub_pos.mpr hb.hbt).ne'
  refine (IsDual.div e (IsDual.sub e (IsDual.id y) (IsDual.ofFloat e c.box.bottom y))
    (IsDual.ofFloat e (c.box.top - c.box.bottom) y) ?_).congr_fun (fun s => ?_)
  · rw [d_ofFloat, hb.hdbt]; exact hD
  · simp only [NF.realX_div, NF.realX_sub, NF.realX_ofFloat, hb.hdbt, ny]

/-- **generic whole second stage (inverse)**: any real program `Q` that runs `quadRestI` on `(Wd, U)` after normalising its
    input; the dual second stage on the zero-tangent lifts returns the (value, derivative) pairs of the two outputs of `Q` -/
theorem gen_dualI {Q : ℝ → Except Err (ℝ × ℝ)} (hv : CoreValid e c Wd U) (hb : BoxValid e c) (hQ : RunsRestI e c Wd U Q)
    (k : ℕ) (hk : k < Wd.length) (y : ℝ) (h0 : bl e c Wd U k < ny e c y) (h1 : ny e c y < bl e c Wd U (k+1)) :
    ∃ dx dl : ℝ × ℝ, quadRestI (dualX (NF.realX e)) c (Wd.map ι) (U.map ι) (nyD e c y) = .ok (dx, dl) ∧
      IsDual (fun z => valOf (Q z)) y dx ∧ IsDual (fun z => ldOf (Q z)) y dl := by
  have hy := nyD_isDual hb y
  obtain ⟨hs0, hs1, hidx⟩ := idxB_open_bin hv k hk _ h0 h1
  have hy1 : (nyD e c y).1 = ny e c y := hy.1
  have hexec := quadRestI_dual_exec hv (nyD e c y) (by rw [hy1]; exact hs0) (by rw [hy1]; exact hs1)
  rw [hy1, hidx] at hexec
  obtain ⟨hX, hLd⟩ := binI_dual hv hb k hk y h0 h1 hy
  have hnear : ∀ᶠ z in 𝓝 y, ny e c z ∈ Set.Ioo (bl e c Wd U k) (bl e c Wd U (k+1)) :=
    hy.2.continuousAt.eventually (Ioo_mem_nhds h0 h1)
  refine ⟨_, _, hexec, hX.congr ?_, hLd.congr ?_⟩
  · filter_upwards [hnear] with z hz
    obtain ⟨hz0, hz1, hzk⟩ := idxB_open_bin hv k hk _ hz.1 hz.2
    obtain ⟨hb0, hb1⟩ := ny_mem_box hb z hz0 hz1
    rw [gen_valI hv hb hQ z hb0 hb1]
    unfold GI
    rw [hzk]
  · filter_upwards [hnear] with z hz
    obtain ⟨hz0, hz1, hzk⟩ := idxB_open_bin hv k hk _ hz.1 hz.2
    obtain ⟨hb0, hb1⟩ := ny_mem_box hb z hz0 hz1
    rw [gen_ldI hv hb hQ z hb0 hb1]
    unfold LdI
    rw [hzk]

/-! ### the whole executed program `quadSpline … true` on dual numbers -/

variable {uw uh : List ℝ}

/-- dual side: with zero-tangent parameters the guards pass, the widths / unnormalised heights / padding constant are the
    zero-tangent lifts of the real ones, and the rest is the dual `quadRestI` on the dual normalised input -/
theorem quadSpline_dual_splitI (hgW : ¬ (c.minW * uw.length.toFloat > 1.0))
    (hgH : ¬ (c.minH * uw.length.toFloat > 1.0))
    (hpad : padU (NF.realX e) (Wq e c uw) (Uq e uh) uw.length = .ok U)
    (y : ℝ) (hy0 : e c.box.bottom ≤ y) (hy1 : y ≤ e c.box.top) :
    quadSpline (dualX (NF.realX e)) c (uw.map ι) (uh.map ι) true (y, 1)
      = quadRestI (dualX (NF.realX e)) c ((Wq e c uw).map ι) (U.map ι) (nyD e c y) := by
  have hL := lift_hom e
  have hg : ((dualX (NF.realX e)).lt (y, 1) ((dualX (NF.realX e)).ofFloat c.box.bottom)
      || (dualX (NF.realX e)).lt ((dualX (NF.realX e)).ofFloat c.box.top) (y, 1)) = false := by
    simp only [d_lt, d_ofFloat, Bool.or_eq_false_iff, decide_eq_false_iff_not, not_lt]
    exact ⟨hy0, hy1⟩
  have hW : flooredSoftmax (dualX (NF.realX e)) c.minW (uw.map ι) = (Wq e c uw).map ι :=
    (hL.flooredSoftmax c.minW uw).symm
  have hU : (uh.map ι).map (fun u => (dualX (NF.realX e)).add ((dualX (NF.realX e)).softplus u)
      ((dualX (NF.realX e)).ofFloat 1e-3)) = (Uq e uh).map ι := by
    unfold Uq
    rw [List.map_map, List.map_map]
    apply List.map_congr_left
    intro u _
    simp only [Function.comp, hL.add, hL.softplus, hL.ofFloat]
  rw [quadSpline_splitI (dualX (NF.realX e)) c _ _ (y, 1) hg (by rw [List.length_map]; exact hgW)
    (by rw [List.length_map]; exact hgH), hW, hU, List.length_map, hom_padU hL _ _ _ _ hpad]
  rfl

/-- a point strictly inside a cdf-bin (box coordinates) is in `[bottom, top]` -/
theorem yk_mem_box (hc : CoreValid e c (Wq e c uw) U) (hb : BoxValid e c) (k : ℕ) (hk : k < uw.length) (y : ℝ)
    (h0 : yk e c (Wq e c uw) U k < y) (h1 : y < yk e c (Wq e c uw) U (k+1)) :
    e c.box.bottom ≤ y ∧ y ≤ e c.box.top := by
  have h0' := (ny_bin_iff hb (Wq e c uw) U k y).1.mpr h0
  have h1' := (ny_bin_iff hb (Wq e c uw) U (k+1) y).2.mpr h1
  have hk' : k < (Wq e c uw).length := by rw [Wq_length]; exact hk
  obtain ⟨hs0, hs1, _⟩ := idxB_open_bin hc k hk' _ h0' h1'
  exact ny_mem_box hb y hs0 hs1

/-- core statement for both shapes of `uh` (the shape only enters through what the padding step returns) -/
theorem quadSpline_dual_inv_core (hc : CoreValid e c (Wq e c uw) U) (hb : BoxValid e c)
    (hgW : ¬ (c.minW * uw.length.toFloat > 1.0)) (hgH : ¬ (c.minH * uw.length.toFloat > 1.0))
    (hpad : padU (NF.realX e) (Wq e c uw) (Uq e uh) uw.length = .ok U)
    (hQ : RunsRestI e c (Wq e c uw) U (quadSpline (NF.realX e) c uw uh true))
    (k : ℕ) (hk : k < uw.length) (y : ℝ) (h0 : yk e c (Wq e c uw) U k < y) (h1 : y < yk e c (Wq e c uw) U (k+1)) :
    ∃ dx dl : ℝ × ℝ, quadSpline (dualX (NF.realX e)) c (uw.map ι) (uh.map ι) true (y, 1) = .ok (dx, dl) ∧
      IsDual (inv e c uw uh) y dx ∧ IsDual (invLd e c uw uh) y dl := by
  have h0' := (ny_bin_iff hb (Wq e c uw) U k y).1.mpr h0
  have h1' := (ny_bin_iff hb (Wq e c uw) U (k+1) y).2.mpr h1
  have hk' : k < (Wq e c uw).length := by rw [Wq_length]; exact hk
  obtain ⟨hy0, hy1⟩ := yk_mem_box hc hb k hk y h0 h1
  obtain ⟨dx, dl, hr, hx, hl⟩ := gen_dualI hc hb hQ k hk' y h0' h1'
  exact ⟨dx, dl, by rw [quadSpline_dual_splitI hgW hgH hpad y hy0 hy1, hr], hx, hl⟩

/-- assemble the headline form from the core statement and the `exp (log-det)` derivative theorem of the real program -/
theorem headline_of_core {dx dl : ℝ × ℝ} {y : ℝ} {r : Except Err ((ℝ × ℝ) × (ℝ × ℝ))} (hr : r = .ok (dx, dl))
    (hx : IsDual (inv e c uw uh) y dx) (hl : IsDual (invLd e c uw uh) y dl)
    (hder : HasDerivAt (inv e c uw uh) (Real.exp (invLd e c uw uh y)) y) :
    ∃ l' : ℝ, r = .ok ((inv e c uw uh y, Real.exp (invLd e c uw uh y)), (invLd e c uw uh y, l')) ∧
      HasDerivAt (inv e c uw uh) (Real.exp (invLd e c uw uh y)) y ∧ HasDerivAt (invLd e c uw uh) l' y := by
  refine ⟨dl.2, ?_, hder, hl.2⟩
  rw [hr]
  congr 1
  refine Prod.ext (Prod.ext hx.1 (hx.2.unique hder)) (Prod.ext hl.1 rfl)

/-- **the executed piecewise-quadratic spline on dual numbers, INVERSE direction, bounded shape** (`uh` has `K+1` entries):
    for `y` strictly inside cdf-bin `k` the dual run with zero-tangent parameters and seed `(y, 1)` returns
    `((inv y, exp (invLd y)), (invLd y, l'))`: the real outputs, with tangents the derivatives of the real inverse program's
    two outputs.  (`hbl`: the `Float` constant `boxLog` is read as the real logarithm — needed only to identify the value
    tangent with `exp (invLd y)`; see `quadSpline_dualRes_inv`.) -/
theorem quadSpline_dual_inv (hv : QuadValid e c uw uh)
    (hbl : e (boxLog c.box) = Real.log ((e c.box.top - e c.box.bottom) / (e c.box.right - e c.box.left)))
    (k : ℕ) (hk : k < uw.length) (y : ℝ)
    (h0 : yk e c (Wq e c uw) (Uq e uh) k < y) (h1 : y < yk e c (Wq e c uw) (Uq e uh) (k+1)) :
    ∃ l' : ℝ, quadSpline (dualX (NF.realX e)) c (uw.map ι) (uh.map ι) true (y, 1)
        = .ok ((inv e c uw uh y, Real.exp (invLd e c uw uh y)), (invLd e c uw uh y, l')) ∧
      HasDerivAt (inv e c uw uh) (Real.exp (invLd e c uw uh y)) y ∧ HasDerivAt (invLd e c uw uh) l' y := by
  obtain ⟨dx, dl, hr, hx, hl⟩ :=
    quadSpline_dual_inv_core (core_of_valid hv) hv.hbox hv.hgW hv.hgH (padU_bounded hv) (runsRestI_of_valid hv) k hk y h0 h1
  exact headline_of_core hr hx hl (inv_hasDerivAt_y hv hbl k hk y h0 h1)

/-- **… tails shape** (`uh` has `K-1` entries, `K ≥ 2`: the padding constant is computed by list operations on zero-tangent
    lists and enters both ends of the heights with zero tangent) -/
theorem quadSpline_dual_inv_T (hv : QuadValidT e c uw uh)
    (hbl : e (boxLog c.box) = Real.log ((e c.box.top - e c.box.bottom) / (e c.box.right - e c.box.left)))
    (k : ℕ) (hk : k < uw.length) (y : ℝ)
    (h0 : yk e c (Wq e c uw) (Ut e c uw uh) k < y) (h1 : y < yk e c (Wq e c uw) (Ut e c uw uh) (k+1)) :
    ∃ l' : ℝ, quadSpline (dualX (NF.realX e)) c (uw.map ι) (uh.map ι) true (y, 1)
        = .ok ((inv e c uw uh y, Real.exp (invLd e c uw uh y)), (invLd e c uw uh y, l')) ∧
      HasDerivAt (inv e c uw uh) (Real.exp (invLd e c uw uh y)) y ∧ HasDerivAt (invLd e c uw uh) l' y := by
  obtain ⟨dx, dl, hr, hx, hl⟩ :=
    quadSpline_dual_inv_core (core_of_validT hv) hv.hbox hv.hgW hv.hgH (padU_tails hv) (runsRestI_of_validT hv) k hk y h0 h1
  exact headline_of_core hr hx hl (inv_hasDerivAt_y_T hv hbl k hk y h0 h1)

theorem dualRes_of_core {dx dl : ℝ × ℝ} {y : ℝ} {r : Except Err ((ℝ × ℝ) × (ℝ × ℝ))} (hr : r = .ok (dx, dl))
    (hx : IsDual (inv e c uw uh) y dx) (hl : IsDual (invLd e c uw uh) y dl)
    (hex : ∃ p, quadSpline (NF.realX e) c uw uh true y = .ok p) :
    DualRes (fun s => quadSpline (NF.realX e) c uw uh true s) y r := by
  obtain ⟨p, hp⟩ := hex
  refine ⟨dx, dl, hr, ?_, ?_, ?_⟩
  · have h1 : dx.1 = p.1 := by rw [hx.1]; unfold inv; rw [hp]; rfl
    have h2 : dl.1 = p.2 := by rw [hl.1]; unfold invLd; rw [hp]; rfl
    show quadSpline (NF.realX e) c uw uh true y = _
    rw [hp, h1, h2]
  · refine hx.2.congr_of_eventuallyEq (Eventually.of_forall fun s => ?_)
    exact (valOf_eq_outY _).symm
  · refine hl.2.congr_of_eventuallyEq (Eventually.of_forall fun s => ?_)
    exact (ldOf_eq_outL _).symm

/-- the same WITHOUT the `boxLog` reading hypothesis, in the `DualRes` form of `Lemmas/DualXNonlin.lean`: the dual run is
    sound for the real inverse program at `y` (succeeds, value components = the real outputs, tangent components = the
    derivatives of the two real outputs) -/
theorem quadSpline_dualRes_inv (hv : QuadValid e c uw uh) (k : ℕ) (hk : k < uw.length) (y : ℝ)
    (h0 : yk e c (Wq e c uw) (Uq e uh) k < y) (h1 : y < yk e c (Wq e c uw) (Uq e uh) (k+1)) :
    DualRes (fun s => quadSpline (NF.realX e) c uw uh true s) y
      (quadSpline (dualX (NF.realX e)) c (uw.map ι) (uh.map ι) true (y, 1)) := by
  obtain ⟨dx, dl, hr, hx, hl⟩ :=
    quadSpline_dual_inv_core (core_of_valid hv) hv.hbox hv.hgW hv.hgH (padU_bounded hv) (runsRestI_of_valid hv) k hk y h0 h1
  obtain ⟨hy0, hy1⟩ := yk_mem_box (core_of_valid hv) hv.hbox k hk y h0 h1
  exact dualRes_of_core hr hx hl ⟨_, exec_ok hv y hy0 hy1⟩

/-- … tails shape, `DualRes` form, no `boxLog` reading hypothesis -/
theorem quadSpline_dualRes_inv_T (hv : QuadValidT e c uw uh) (k : ℕ) (hk : k < uw.length) (y : ℝ)
    (h0 : yk e c (Wq e c uw) (Ut e c uw uh) k < y) (h1 : y < yk e c (Wq e c uw) (Ut e c uw uh) (k+1)) :
    DualRes (fun s => quadSpline (NF.realX e) c uw uh true s) y
      (quadSpline (dualX (NF.realX e)) c (uw.map ι) (uh.map ι) true (y, 1)) := by
  obtain ⟨dx, dl, hr, hx, hl⟩ :=
    quadSpline_dual_inv_core (core_of_validT hv) hv.hbox hv.hgW hv.hgH (padU_tails hv) (runsRestI_of_validT hv) k hk y h0 h1
  obtain ⟨hy0, hy1⟩ := yk_mem_box (core_of_validT hv) hv.hbox k hk y h0 h1
  exact dualRes_of_core hr hx hl ⟨_, exec_ok_T hv y hy0 hy1⟩

/-! ### non-vacuity on the concrete accepted configurations of `Lemmas/QuadWhole.lean` -/

private theorem bz : ((0.0:Float) == 0.0) = true := by decide +kernel
private theorem bo : ((1.0:Float) == 0.0) = false := by decide +kernel

theorem yk_example : yk eNV cNV (Wq eNV cNV [0]) (Uq eNV [0, 0]) 0 = 0 ∧
    yk eNV cNV (Wq eNV cNV [0]) (Uq eNV [0, 0]) (0+1) = 1 := by
  have hc := core_of_valid valid_example
  have h0 := bl_zero hc
  have h1 := bl_last hc
  rw [Wq_length] at h1
  simp only [List.length_singleton] at h1
  have hb : eNV cNV.box.bottom = 0 := by simp [eNV, cNV, bz]
  have ht : eNV cNV.box.top = 1 := by simp [eNV, cNV, bo]
  unfold yk
  rw [h0, show (0:ℕ) + 1 = 1 from rfl, h1, hb, ht]
  constructor <;> ring

/-- bounded shape, one bin on the unit box (`QuadWhole.valid_example`): every `y ∈ (0,1)` -/
theorem quadSpline_dual_inv_example (y : ℝ) (h0 : 0 < y) (h1 : y < 1) :
    DualRes (fun s => quadSpline (NF.realX eNV) cNV [0] [0, 0] true s) y
      (quadSpline (dualX (NF.realX eNV)) cNV [ι 0] [ι 0, ι 0] true (y, 1)) := by
  obtain ⟨hy0, hy1⟩ := yk_example
  exact quadSpline_dualRes_inv valid_example 0 (by simp) y (by rw [hy0]; exact h0) (by rw [hy1]; exact h1)

/-- … and the headline form, given that the (kernel-opaque) `Float.log (1.0/1.0)` is `0.0` -/
theorem quadSpline_dual_inv_example' (hlog : (boxLog cNV.box == 0.0) = true) (y : ℝ) (h0 : 0 < y) (h1 : y < 1) :
    ∃ l' : ℝ, quadSpline (dualX (NF.realX eNV)) cNV [ι 0] [ι 0, ι 0] true (y, 1)
        = .ok ((inv eNV cNV [0] [0, 0] y, Real.exp (invLd eNV cNV [0] [0, 0] y)), (invLd eNV cNV [0] [0, 0] y, l')) ∧
      HasDerivAt (inv eNV cNV [0] [0, 0]) (Real.exp (invLd eNV cNV [0] [0, 0] y)) y := by
  obtain ⟨hy0, hy1⟩ := yk_example
  obtain ⟨l', h, hd, -⟩ := quadSpline_dual_inv valid_example (boxLog_example hlog) 0 (by simp) y
    (by rw [hy0]; exact h0) (by rw [hy1]; exact h1)
  exact ⟨l', h, hd⟩

/-- tails shape, two bins (`QuadWhole.valid_example_T`): every `y` strictly inside either cdf-bin, and such `y` exist -/
theorem quadSpline_dual_inv_example_T :
    (∀ k < 2, ∀ y : ℝ, yk eT cNV (Wq eT cNV [0, 0]) (Ut eT cNV [0, 0] [0]) k < y →
        y < yk eT cNV (Wq eT cNV [0, 0]) (Ut eT cNV [0, 0] [0]) (k+1) →
      DualRes (fun s => quadSpline (NF.realX eT) cNV [0, 0] [0] true s) y
        (quadSpline (dualX (NF.realX eT)) cNV [ι 0, ι 0] [ι 0] true (y, 1))) ∧
    ∀ k < 2, yk eT cNV (Wq eT cNV [0, 0]) (Ut eT cNV [0, 0] [0]) k
      < yk eT cNV (Wq eT cNV [0, 0]) (Ut eT cNV [0, 0] [0]) (k+1) := by
  have hv := valid_example_T
  refine ⟨fun k hk y h0 h1 => quadSpline_dualRes_inv_T hv k hk y h0 h1, fun k hk => ?_⟩
  have hc := core_of_validT hv
  have := bl_strict hc k (by rw [Wq_length]; exact hk)
  have hD : 0 < eT cNV.box.top - eT cNV.box.bottom := sub_pos.mpr hv.hbox.hbt
  unfold yk
  nlinarith

end

end DualXQuadInv
