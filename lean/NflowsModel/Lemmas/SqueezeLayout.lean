import NflowsModel.Core.View
import Mathlib.Tactic.Ring
import Mathlib.Tactic.Linarith
/-!
# Lemmas/SqueezeLayout — `SqueezeTransform` as strided views (reshape.py:28-68), for EVERY factor `f`

forward:  `x.view(b, c, h/f, f, w/f, f).permute(0, 1, 3, 5, 2, 4)` then a contiguous view `[b, c·f·f, h/f, w/f]`;
inverse:  `y.view(b, c, f, f, h, w).permute(0, 1, 4, 2, 5, 3)` then a contiguous view `[b, c, h·f, w·f]`.
With image height `Ho·f` and width `Wo·f` (the constructor-accepted sizes) the element read at the permuted index is a
polynomial identity between flat offsets, closed by `ring` with all sizes symbolic.
-/
namespace View
variable {α : Type} [Inhabited α]

/-- forward layout: the permuted 6-D view at `[b, c, fi, fj, i, j]` reads input pixel `(i·f + fi, j·f + fj)` of channel `c` -/
theorem squeeze_forward_layout (X : Array α) (B C Ho Wo f b c fi fj i j : Nat) :
    (((ofArray X [B, C, Ho * f, Wo * f]).reshape [B, C, Ho, f, Wo, f]).permute [0, 1, 3, 5, 2, 4]).get [b, c, fi, fj, i, j]
      = (ofArray X [B, C, Ho * f, Wo * f]).get [b, c, i * f + fi, j * f + fj] := by
  simp only [get, permute, reshape, ofArray, rowMajor, dot, List.map, List.getD, List.foldl]
  congr 1
  simp
  ring

/-- the contiguous output `[B, C·f·f, Ho, Wo]` indexes the permuted view's channel triple `(c, fi, fj)` as `(c·f + fi)·f + fj` -/
theorem squeeze_output_channel (Y : Array α) (B C Ho Wo f b c fi fj i j : Nat) :
    ((ofArray Y [B, C * f * f, Ho, Wo]).reshape [B, C, f, f, Ho, Wo]).get [b, c, fi, fj, i, j]
      = (ofArray Y [B, C * f * f, Ho, Wo]).get [b, (c * f + fi) * f + fj, i, j] := by
  simp only [get, reshape, ofArray, rowMajor, dot, List.foldl]
  congr 1
  simp
  ring

/-- inverse layout: the permuted 6-D view at `[b, c, i, fi, j, fj]` reads squeezed channel `(c·f + fi)·f + fj` at `(i, j)` -/
theorem squeeze_inverse_layout (Y : Array α) (B C Ho Wo f b c fi fj i j : Nat) :
    (((ofArray Y [B, C * f * f, Ho, Wo]).reshape [B, C, f, f, Ho, Wo]).permute [0, 1, 4, 2, 5, 3]).get [b, c, i, fi, j, fj]
      = (ofArray Y [B, C * f * f, Ho, Wo]).get [b, (c * f + fi) * f + fj, i, j] := by
  simp only [get, permute, reshape, ofArray, rowMajor, dot, List.map, List.getD, List.foldl]
  congr 1
  simp
  ring

/-- the contiguous un-squeezed output `[B, C, Ho·f, Wo·f]` indexes the permuted view's `(i, fi)` as `i·f + fi`, `(j, fj)` as `j·f + fj` -/
theorem unsqueeze_output_pixel (X : Array α) (B C Ho Wo f b c fi fj i j : Nat) :
    ((ofArray X [B, C, Ho * f, Wo * f]).reshape [B, C, Ho, f, Wo, f]).get [b, c, i, fi, j, fj]
      = (ofArray X [B, C, Ho * f, Wo * f]).get [b, c, i * f + fi, j * f + fj] := by
  simp only [get, reshape, ofArray, rowMajor, dot, List.foldl]
  congr 1
  simp
  ring

end View
