import NflowsModel.Lemmas.QuadInverseWhole
import NflowsModel.Lemmas.CubicWhole
/-!
# Lemmas/LinWhole — the EXECUTED piecewise-LINEAR spline, both directions, as a whole program over the reals

`linSpline (NF.realX e) box eps up inverse x` is the list program the driver runs at `Float`/`Float32`
(`Core/Spline.lean`, mirror of `nflows/transforms/splines/linear.py`), instantiated at ℝ: domain guard, normalisation of
the input, `softmax`, `cumsum`, last cdf knot pinned to 1, padding with 0, then
* forward: `bin_pos = x'·K`, `floor`, conversion to an integer (`XOps.floorInt`, `⌊·⌋` on ℝ), the repair
  `idx ≥ K ↦ K − 1`, two gathers, `out = clamp 0 1 (cdf_k + (x'K − k)·pdf_k)`, `ld = log pdf_k − np.log(1/K) + boxLog`;
* inverse (after the repair of linear.py): search over the cdf knots, `linspace(0,1,K+1)`, slopes `pdf·K`, three gathers,
  `out = clamp 0 1 ((i+1)/K + (y' − cdf_{i+1})/(pdf_i·K))`, `ld = −log(pdf_i·K) − boxLog`.

For every accepted configuration `LinValid e box eps up` (at least one bin, `left < right`, `bottom < top`, `e` exact on
the two differences the code forms, `0 < e eps`; NO condition on the parameter vector) the file proves, about the program
itself:

* **C17** `exec_eq_bin`, `exec_ok`, `inv_exec_eq_bin`, `inv_exec_ok`: total on the closed domain, with the closed form of
  the selected bin (`val_closed_form`, `ld_closed_form`, `inv_closed_form`); `clamp_inactive`, `clamp_inactive_inv`: both
  clamps are the identity; `outside_domain`: `InputOutsideDomain` outside.  `idxF_spec`: the floor-and-repair index meets
  the same search specification (`ExecGlue.SearchSpec`) on the uniform knots `j/K` that `searchsorted` meets on the
  cdf knots; `idxF_eq_min`: it is `min(⌊x'K⌋, K−1)`.  `bnd_getD`: both branches of ATen's `linspace` are `i/K` over ℝ.
* **C09** `val_strictMonoOn`, `val_endpoints`, `val_mapsTo`, `val_image`, `val_bijOn`, `val_knot`, and the same for the
  inverse (`inv_*`); `knots_facts` (box coordinates, knot ↦ knot both ways).
* **C02** `val_inv`, `inv_val` (knots included, no hypothesis on the `np.log` constants), `invLd_eq_neg_ld`,
  `ld_eq_neg_invLd` (hypothesis `hlogK`: the forward program subtracts the Python-side double `np.log(1/K)` while the
  inverse takes the in-tensor `log(pdf·K)`; they cancel exactly when `e (Float.log (1.0/K)) = Real.log (1/K)`).
* **C01** `val_hasDerivAt`, `val_hasDerivAt_x` (hypotheses `hlogK`, `hbl`), `inv_hasDerivAt`, `inv_hasDerivAt_y` (only
  `hbl`), `exp_ld_bin` (the slope `pdf_k·K·(top−bottom)/(right−left)`), `val_hasDerivWithinAt_left`.
* non-vacuity: `valid_unit_box` (every non-empty parameter vector on the unit box), `logs_example`, `idxF_example`.
-/
open NF DualSound

namespace LinWhole
open QuadWhole (valOf ldOf)
noncomputable section
variable (e : Float → ℝ)

/-- `torch.floor(x).long()` at the reals is the integer floor -/
@[simp] theorem realX_floorInt (a : ℝ) : (NF.realX e).floorInt a = ⌊a⌋ := rfl

/-- the accepted configurations: at least one bin, a non-degenerate box, `e` exact on the two differences the code
    forms, a positive search tolerance -/
structure LinValid (box : Box) (eps : Float) (up : List ℝ) : Prop where
  hK : up ≠ []
  hlr : e box.left < e box.right
  hdlr : e (box.right - box.left) = e box.right - e box.left
  hbt : e box.bottom < e box.top
  hdbt : e (box.top - box.bottom) = e box.top - e box.bottom
  heps : 0 < e eps

/-- the bin masses and the cdf knots exactly as the program computes them -/
def pdf (up : List ℝ) : List ℝ := softmaxG (NF.realX e) up
def cdf (up : List ℝ) : List ℝ :=
  (NF.realX e).zero :: setLast (cumsumG (NF.realX e) (pdf e up)) (NF.realX e).one
def pd (up : List ℝ) (k : ℕ) : ℝ := (pdf e up).getD k 0
def cd (up : List ℝ) (k : ℕ) : ℝ := (cdf e up).getD k 0

variable {e}
variable {box : Box} {eps : Float} {up : List ℝ}

theorem pdf_length (up : List ℝ) : (pdf e up).length = up.length := SplineExec.softmaxG_length e up

theorem pdf_ne (hK : up ≠ []) : pdf e up ≠ [] := by
  intro h
  have := pdf_length (e := e) up
  rw [h] at this
  exact hK (List.length_eq_zero_iff.mp this.symm)

theorem pdf_pos (up : List ℝ) : ∀ p ∈ pdf e up, 0 < p := SplineExec.softmaxG_pos e up
theorem pdf_sum (hK : up ≠ []) : (pdf e up).sum = 1 := SplineExec.softmaxG_sum e up hK

/-- the last cumulative mass is 1, so **pinning the last cdf knot to 1 changes nothing** -/
theorem cdf_eq (hK : up ≠ []) : cdf e up = 0 :: cumsumG (NF.realX e) (pdf e up) := by
  unfold cdf
  have hl := SplineExec.cumsumG_last e (pdf e up) (pdf_ne hK)
  rw [pdf_sum hK] at hl
  rw [NF.realX_zero, NF.realX_one, SplineExec.setLast_of_getLast _ _ hl]

theorem cdf_facts (hK : up ≠ []) :
    (cdf e up).length = up.length + 1 ∧ (cdf e up).head? = some 0 ∧
    (cdf e up).getLast? = some 1 ∧ (cdf e up).Pairwise (· < ·) := by
  have := SplineExec.unitKnots_valid e (pdf e up) (pdf_ne hK) (pdf_pos up) (pdf_sum hK)
  rw [pdf_length] at this
  simpa [cdf] using this

theorem K_pos (hK : up ≠ []) : 0 < up.length := List.length_pos_of_ne_nil hK
theorem K_posR (hK : up ≠ []) : (0:ℝ) < (up.length : ℝ) := by exact_mod_cast K_pos hK

theorem cd_zero (hK : up ≠ []) : cd e up 0 = 0 := QuadWhole.head_getD _ _ (cdf_facts hK).2.1
theorem cd_last (hK : up ≠ []) : cd e up up.length = 1 :=
  QuadWhole.last_getD _ _ _ (cdf_facts hK).1 (cdf_facts hK).2.2.1
theorem cd_strict (hK : up ≠ []) : ∀ k < up.length, cd e up k < cd e up (k+1) := by
  intro k hk
  obtain ⟨hlen, _, _, hp⟩ := cdf_facts (e := e) hK
  exact QuadWhole.pairwise_getD_lt _ hp k (by omega)

theorem pd_pos (up : List ℝ) : ∀ k < up.length, 0 < pd e up k := by
  intro k hk
  unfold pd
  have hk' : k < (pdf e up).length := by rw [pdf_length]; exact hk
  rw [← QuadWhole.getElem_eq_getD _ k hk']
  exact pdf_pos up _ (List.getElem_mem hk')

/-- consecutive cdf knots differ by the mass of the bin -/
theorem cd_step (hK : up ≠ []) : ∀ k < up.length, cd e up (k+1) = cd e up k + pd e up k := by
  intro k hk
  unfold cd pd
  rw [cdf_eq hK]
  exact QuadWhole.zcum_step e _ k (by rw [pdf_length]; exact hk)

theorem cd_mono (hK : up ≠ []) : ∀ j k, j ≤ k → k ≤ up.length → cd e up j ≤ cd e up k :=
  ExecGlue.knots_mono (cd e up) up.length (cd_strict hK)

theorem cd_unit (hK : up ≠ []) (k : ℕ) (hk : k ≤ up.length) : 0 ≤ cd e up k ∧ cd e up k ≤ 1 := by
  constructor
  · rw [← cd_zero (e := e) hK]; exact cd_mono hK 0 k (Nat.zero_le _) hk
  · rw [← cd_last (e := e) hK]; exact cd_mono hK k up.length hk le_rfl

/-! ### the forward bin index: `floor`, integer conversion, the `>= num_bins` repair -/

/-- the index the forward program forms from the normalised input (text of `linSpline`, as an integer) -/
def idxZ (K : ℕ) (t : ℝ) : ℤ := if ⌊t * (K : ℝ)⌋ ≥ Int.ofNat K then Int.ofNat K - 1 else ⌊t * (K : ℝ)⌋
def idxF (K : ℕ) (t : ℝ) : ℕ := (idxZ K t).toNat
/-- the uniform knots of the input axis, normalised coordinates -/
def kn (K : ℕ) (j : ℕ) : ℝ := (j : ℝ) / (K : ℝ)

theorem kn_zero (K : ℕ) : kn K 0 = 0 := by simp [kn]
theorem kn_last {K : ℕ} (hK : 0 < K) : kn K K = 1 := by
  unfold kn; exact div_self (by exact_mod_cast hK.ne')
theorem kn_strict {K : ℕ} (hK : 0 < K) : ∀ k < K, kn K k < kn K (k+1) := by
  intro k _
  unfold kn
  have : (0:ℝ) < K := by exact_mod_cast hK
  exact div_lt_div_of_pos_right (by push_cast; linarith) this

/-- **the floor-and-repair index meets the search specification on the uniform knots `j/K`** -/
theorem idxF_spec {K : ℕ} (hK : 0 < K) :
    ExecGlue.SearchSpec (kn K) K (idxF K) ∧ ∀ t, 0 ≤ t → t ≤ 1 → idxZ K t = ((idxF K t : ℕ) : ℤ) := by
  have hKR : (0:ℝ) < K := by exact_mod_cast hK
  have key : ∀ t, 0 ≤ t → t ≤ 1 → idxZ K t = ((idxF K t : ℕ) : ℤ) ∧ idxF K t < K ∧ kn K (idxF K t) ≤ t ∧
      (t < kn K (idxF K t + 1) ∨ (idxF K t + 1 = K ∧ t = 1)) := by
    intro t ht0 ht1
    have hf0 : 0 ≤ ⌊t * (K : ℝ)⌋ := Int.floor_nonneg.mpr (mul_nonneg ht0 hKR.le)
    by_cases hge : ⌊t * (K : ℝ)⌋ ≥ Int.ofNat K
    · have hz : idxZ K t = (K : ℤ) - 1 := by unfold idxZ; rw [if_pos hge]; rfl
      have hn : idxF K t = K - 1 := by unfold idxF; rw [hz]; omega
      have hKt : (K : ℝ) ≤ t * K := by
        have h1 : ((⌊t * (K : ℝ)⌋ : ℤ) : ℝ) ≤ t * K := Int.floor_le _
        have h2 : ((K : ℤ) : ℝ) ≤ ((⌊t * (K : ℝ)⌋ : ℤ) : ℝ) := by exact_mod_cast hge
        have h3 : ((K : ℤ) : ℝ) = (K : ℝ) := by norm_cast
        linarith
      have ht : t = 1 := by
        apply le_antisymm ht1
        by_contra hlt
        have hlt' : t < 1 := not_le.mp hlt
        nlinarith
      refine ⟨by rw [hz, hn]; omega, by rw [hn]; omega, ?_, Or.inr ⟨by rw [hn]; omega, ht⟩⟩
      rw [hn, ht]
      unfold kn
      rw [div_le_one hKR]
      exact_mod_cast Nat.sub_le K 1
    · have hz : idxZ K t = ⌊t * (K : ℝ)⌋ := by unfold idxZ; rw [if_neg hge]
      have hlt : ⌊t * (K : ℝ)⌋ < (K : ℤ) := by
        have : ¬ ((K : ℤ) ≤ ⌊t * (K : ℝ)⌋) := hge
        omega
      have hn : ((idxF K t : ℕ) : ℤ) = ⌊t * (K : ℝ)⌋ := by unfold idxF; rw [hz]; omega
      have hnR : ((idxF K t : ℕ) : ℝ) = ((⌊t * (K : ℝ)⌋ : ℤ) : ℝ) := by
        rw [← hn]; norm_cast
      refine ⟨by rw [hz, hn], by omega, ?_, Or.inl ?_⟩
      · unfold kn
        rw [div_le_iff₀ hKR, hnR]
        exact Int.floor_le _
      · unfold kn
        rw [lt_div_iff₀ hKR]
        push_cast
        rw [hnR]
        exact Int.lt_floor_add_one _
  constructor
  · intro t ht0 ht1
    rw [kn_zero] at ht0
    rw [kn_last hK] at ht1
    obtain ⟨_, h1, h2, h3⟩ := key t ht0 ht1
    rw [kn_last hK]
    exact ⟨h1, h2, h3⟩
  · intro t ht0 ht1
    exact (key t ht0 ht1).1

/-- the selected bin is `min(⌊t·K⌋, K − 1)` -/
theorem idxF_eq_min {K : ℕ} (hK : 0 < K) (t : ℝ) : idxF K t = min ⌊t * (K : ℝ)⌋₊ (K - 1) := by
  unfold idxF idxZ
  by_cases hge : ⌊t * (K : ℝ)⌋ ≥ Int.ofNat K
  · rw [if_pos hge]
    have h1 : (K : ℤ) ≤ ⌊t * (K : ℝ)⌋ := hge
    have h2 : K ≤ ⌊t * (K : ℝ)⌋₊ := by
      rw [← Int.floor_toNat]; omega
    have h3 : (Int.ofNat K - 1 : ℤ).toNat = K - 1 := by
      have : (Int.ofNat K : ℤ) = (K : ℤ) := rfl
      omega
    rw [h3]; omega
  · rw [if_neg hge]
    have h1 : ¬ ((K : ℤ) ≤ ⌊t * (K : ℝ)⌋) := hge
    rw [Int.floor_toNat]
    have h2 : ⌊t * (K : ℝ)⌋₊ < K := by
      rw [← Int.floor_toNat]; omega
    omega

/-! ### per-bin closed forms of the forward direction (normalised coordinates) and the whole normalised map -/

variable (e)
/-- closed form of bin `k`: `cdf_k + (t·K − k)·pdf_k` (before the clamp) -/
def binF (up : List ℝ) (k : ℕ) (t : ℝ) : ℝ := cd e up k + (t * (up.length : ℝ) - (k : ℝ)) * pd e up k
/-- the log-abs-det of bin `k` in normalised coordinates: `log pdf_k − lK`, `lK` the Python-side constant `np.log(1/K)` -/
def binLdF (up : List ℝ) (k : ℕ) : ℝ :=
  Real.log (pd e up k) - e (Float.log (1.0 / up.length.toFloat))
/-- the whole normalised forward map and log-abs-det -/
def GF (up : List ℝ) (t : ℝ) : ℝ := binF e up (idxF up.length t) t
def LdF (up : List ℝ) (t : ℝ) : ℝ := binLdF e up (idxF up.length t)
variable {e}

theorem binF_left (hK : up ≠ []) (k : ℕ) : binF e up k (kn up.length k) = cd e up k := by
  unfold binF kn
  rw [div_mul_cancel₀ _ (K_posR hK).ne']
  ring

theorem binF_right (hK : up ≠ []) (k : ℕ) (hk : k < up.length) : binF e up k (kn up.length (k+1)) = cd e up (k+1) := by
  unfold binF kn
  rw [div_mul_cancel₀ _ (K_posR hK).ne', cd_step hK k hk]
  push_cast
  ring

theorem bin_join (hK : up ≠ []) (k : ℕ) (hk : k + 1 < up.length) :
    binF e up k (kn up.length (k+1)) = binF e up (k+1) (kn up.length (k+1)) := by
  rw [binF_right hK k (by omega), binF_left hK]

theorem bin_strictMonoOn (hK : up ≠ []) (k : ℕ) (hk : k < up.length) :
    StrictMonoOn (binF e up k) (Set.Icc (kn up.length k) (kn up.length (k+1))) := by
  intro a _ b _ hab
  unfold binF
  have hp := pd_pos (e := e) up k hk
  have hKR := K_posR hK
  nlinarith [mul_pos hp hKR]

/-- on the closed bin the closed form stays between the two cdf knots, hence in `[0,1]`: **the clamp is the identity** -/
theorem binF_mem (hK : up ≠ []) (k : ℕ) (hk : k < up.length) (t : ℝ)
    (h0 : kn up.length k ≤ t) (h1 : t ≤ kn up.length (k+1)) :
    cd e up k ≤ binF e up k t ∧ binF e up k t ≤ cd e up (k+1) ∧ 0 ≤ binF e up k t ∧ binF e up k t ≤ 1 := by
  have hm := (bin_strictMonoOn (e := e) hK k hk).monotoneOn
  have hkk : kn up.length k ≤ kn up.length (k+1) := (kn_strict (K_pos hK) k hk).le
  have a := hm ⟨le_rfl, hkk⟩ ⟨h0, h1⟩ h0
  have b := hm ⟨h0, h1⟩ ⟨hkk, le_rfl⟩ h1
  rw [binF_left hK] at a
  rw [binF_right hK k hk] at b
  have c0 := (cd_unit (e := e) hK k hk.le).1
  have c1 := (cd_unit (e := e) hK (k+1) hk).2
  exact ⟨a, b, by linarith, by linarith⟩

theorem GF_hF (up : List ℝ) : ∀ t, kn up.length 0 ≤ t → t ≤ kn up.length up.length →
    GF e up t = binF e up (idxF up.length t) t := fun _ _ _ => rfl

theorem GF_eqOn_bin (hK : up ≠ []) (k : ℕ) (hk : k < up.length) :
    Set.EqOn (GF e up) (binF e up k) (Set.Icc (kn up.length k) (kn up.length (k+1))) :=
  ExecGlue.eqOn_bin (kn up.length) up.length (binF e up) (GF e up) (idxF up.length)
    (kn_strict (K_pos hK)) (idxF_spec (K_pos hK)).1 (GF_hF up) (bin_join hK) k hk

theorem GF_strictMonoOn (hK : up ≠ []) : StrictMonoOn (GF e up) (Set.Icc 0 1) := by
  have := ExecGlue.strictMonoOn_whole (kn up.length) up.length (binF e up) (GF e up) (idxF up.length)
    (kn_strict (K_pos hK)) (idxF_spec (K_pos hK)).1 (GF_hF up) (bin_join hK) (bin_strictMonoOn hK)
  rwa [kn_zero, kn_last (K_pos hK)] at this

theorem GF_knot (hK : up ≠ []) (j : ℕ) (hj : j ≤ up.length) : GF e up (kn up.length j) = cd e up j := by
  rcases Nat.lt_or_eq_of_le hj with hlt | heq
  · rw [GF_eqOn_bin hK j hlt ⟨le_rfl, (kn_strict (K_pos hK) j hlt).le⟩, binF_left hK]
  · subst heq
    have hk : up.length - 1 < up.length := by have := K_pos hK; omega
    have h1 : up.length - 1 + 1 = up.length := by have := K_pos hK; omega
    rw [ExecGlue.right_value (kn up.length) up.length (binF e up) (GF e up) (idxF up.length) (K_pos hK)
      (kn_strict (K_pos hK)) (idxF_spec (K_pos hK)).1 (GF_hF up) (bin_join hK)]
    have := binF_right (e := e) hK (up.length - 1) hk
    rw [h1] at this
    exact this

theorem GF_endpoints (hK : up ≠ []) : GF e up 0 = 0 ∧ GF e up 1 = 1 := by
  have h0 := GF_knot (e := e) hK 0 (Nat.zero_le _)
  have h1 := GF_knot (e := e) hK up.length le_rfl
  rw [kn_zero, cd_zero hK] at h0
  rw [kn_last (K_pos hK), cd_last hK] at h1
  exact ⟨h0, h1⟩

theorem GF_mapsTo (hK : up ≠ []) : Set.MapsTo (GF e up) (Set.Icc 0 1) (Set.Icc 0 1) := by
  intro t ht
  have hm := (GF_strictMonoOn (e := e) hK).monotoneOn
  obtain ⟨h0, h1⟩ := GF_endpoints (e := e) hK
  have z0 : (0:ℝ) ∈ Set.Icc (0:ℝ) 1 := ⟨le_rfl, zero_le_one⟩
  have z1 : (1:ℝ) ∈ Set.Icc (0:ℝ) 1 := ⟨zero_le_one, le_rfl⟩
  constructor
  · rw [← h0]; exact hm z0 ht ht.1
  · rw [← h1]; exact hm ht z1 ht.2

theorem binF_hasDerivAt (up : List ℝ) (k : ℕ) (t : ℝ) :
    HasDerivAt (binF e up k) ((up.length : ℝ) * pd e up k) t := by
  unfold binF
  have h := (((hasDerivAt_id t).mul_const (up.length : ℝ)).sub_const (k : ℝ)).mul_const (pd e up k)
  have h2 := h.const_add (cd e up k)
  simpa using h2

theorem GF_hasDerivAt (hK : up ≠ []) (k : ℕ) (hk : k < up.length) (t : ℝ)
    (h0 : kn up.length k < t) (h1 : t < kn up.length (k+1)) :
    HasDerivAt (GF e up) ((up.length : ℝ) * pd e up k) t :=
  ExecGlue.hasDerivAt_in_bin (kn up.length) up.length (binF e up) (GF e up) (idxF up.length)
    (kn_strict (K_pos hK)) (idxF_spec (K_pos hK)).1 (GF_hF up) (bin_join hK) k hk t _ h0 h1 (binF_hasDerivAt up k t)

/-! ### the executed forward program -/

variable (e)
def nx (box : Box) (x : ℝ) : ℝ := (x - e box.left) / (e box.right - e box.left)
def ny (box : Box) (y : ℝ) : ℝ := (y - e box.bottom) / (e box.top - e box.bottom)
variable {e}

theorem nx_mem (hv : LinValid e box eps up) (x : ℝ) (hx0 : e box.left ≤ x) (hx1 : x ≤ e box.right) :
    0 ≤ nx e box x ∧ nx e box x ≤ 1 := by
  have hD : 0 < e box.right - e box.left := sub_pos.mpr hv.hlr
  unfold nx
  exact ⟨div_nonneg (by linarith) hD.le, by rw [div_le_one hD]; linarith⟩

theorem ny_mem (hv : LinValid e box eps up) (y : ℝ) (hy0 : e box.bottom ≤ y) (hy1 : y ≤ e box.top) :
    0 ≤ ny e box y ∧ ny e box y ≤ 1 := by
  have hD : 0 < e box.top - e box.bottom := sub_pos.mpr hv.hbt
  unfold ny
  exact ⟨div_nonneg (by linarith) hD.le, by rw [div_le_one hD]; linarith⟩

theorem guardF (x : ℝ) (hx0 : e box.left ≤ x) (hx1 : x ≤ e box.right) :
    ((NF.realX e).lt x ((NF.realX e).ofFloat box.left) || (NF.realX e).lt ((NF.realX e).ofFloat box.right) x) = false := by
  simp only [NF.realX_lt, NF.realX_ofFloat, Bool.or_eq_false_iff, decide_eq_false_iff_not, not_lt]
  exact ⟨hx0, hx1⟩

/-- **C17, totality + closed form (forward)**: for every `x ∈ [left, right]` the executed forward program returns a
    value; it is the closed form of bin `min(⌊x'K⌋, K−1)` (clamp inactive), rescaled to `[bottom, top]` -/
theorem exec_eq_bin (hv : LinValid e box eps up) (x : ℝ) (hx0 : e box.left ≤ x) (hx1 : x ≤ e box.right) :
    linSpline (NF.realX e) box eps up false x
      = .ok (GF e up (nx e box x) * (e box.top - e box.bottom) + e box.bottom,
             LdF e up (nx e box x) + e (boxLog box)) := by
  obtain ⟨ht0, ht1⟩ := nx_mem hv x hx0 hx1
  have hK0 := K_pos hv.hK
  obtain ⟨hspec, hidx⟩ := idxF_spec hK0
  obtain ⟨hiK, hle, hr⟩ := hspec (nx e box x) (by rw [kn_zero]; exact ht0) (by rw [kn_last hK0]; exact ht1)
  set i := idxF up.length (nx e box x) with hi
  have hle1 : nx e box x ≤ kn up.length (i+1) := by
    rcases hr with hr | ⟨hK, hst⟩
    · exact hr.le
    · rw [hK, kn_last hK0]; exact ht1
  obtain ⟨_, _, hu0, hu1⟩ := binF_mem (e := e) hv.hK i hiK _ hle hle1
  have hz : (if ⌊nx e box x * (up.length : ℝ)⌋ ≥ Int.ofNat up.length then Int.ofNat up.length - 1
      else ⌊nx e box x * (up.length : ℝ)⌋) = ((i : ℕ) : ℤ) := hidx _ ht0 ht1
  have h1 : softmaxG (NF.realX e) up = pdf e up := rfl
  have h2 : (NF.realX e).zero :: setLast (cumsumG (NF.realX e) (pdf e up)) (NF.realX e).one = cdf e up := rfl
  have hx' : (NF.realX e).div ((NF.realX e).sub x ((NF.realX e).ofFloat box.left)) ((NF.realX e).ofFloat (box.right - box.left))
      = nx e box x := by
    simp only [NF.realX_div, NF.realX_sub, NF.realX_ofFloat, hv.hdlr]; rfl
  unfold linSpline
  simp only [Bool.false_eq_true, if_false, guardF x hx0 hx1, h1, h2, hx', NF.realX_mul, NF.realX_ofNat, realX_floorInt, hz]
  rw [SplineTotal.getI_ok (pdf e up) i (by rw [pdf_length]; exact hiK),
    SplineTotal.getI_ok (cdf e up) i (by rw [(cdf_facts hv.hK).1]; omega)]
  simp only [QuadWhole.getElem_eq_getD, bind, Except.bind, pure, Except.pure]
  have hout : (NF.realX e).add ((cdf e up).getD i 0)
      ((NF.realX e).sub (nx e box x * (up.length : ℝ)) ((NF.realX e).ofRat (i : ℤ) 1) * (pdf e up).getD i 0)
      = binF e up i (nx e box x) := by
    simp only [NF.realX_add, NF.realX_sub, NF.realX_ofRat]
    unfold binF cd pd
    simp
  rw [hout, QuadWhole.clamp01_id e _ hu0 hu1]
  simp only [NF.realX_add, NF.realX_sub, NF.realX_log, NF.realX_ofFloat, hv.hdbt]
  rfl

/-- the forward clamp is the identity at the selected bin, for every input of the domain -/
theorem clamp_inactive (hv : LinValid e box eps up) (x : ℝ) (hx0 : e box.left ≤ x) (hx1 : x ≤ e box.right) :
    (NF.realX e).clamp (NF.realX e).zero (NF.realX e).one (GF e up (nx e box x)) = GF e up (nx e box x) := by
  obtain ⟨ht0, ht1⟩ := nx_mem hv x hx0 hx1
  obtain ⟨g0, g1⟩ := GF_mapsTo (e := e) hv.hK ⟨ht0, ht1⟩
  exact QuadWhole.clamp01_id e _ g0 g1

variable (e)
/-- what the forward program returns (0 on the error branch, which `exec_eq_bin` shows is not taken in the domain) -/
def val (box : Box) (eps : Float) (up : List ℝ) (x : ℝ) : ℝ := valOf (linSpline (NF.realX e) box eps up false x)
def ld (box : Box) (eps : Float) (up : List ℝ) (x : ℝ) : ℝ := ldOf (linSpline (NF.realX e) box eps up false x)
variable {e}

/-- **C17**: the forward program returns `.ok (val x, ld x)` on the whole of `[left, right]` -/
theorem exec_ok (hv : LinValid e box eps up) (x : ℝ) (hx0 : e box.left ≤ x) (hx1 : x ≤ e box.right) :
    linSpline (NF.realX e) box eps up false x = .ok (val e box eps up x, ld e box eps up x) := by
  unfold val ld; rw [exec_eq_bin hv x hx0 hx1]; rfl

theorem val_eq (hv : LinValid e box eps up) (x : ℝ) (hx0 : e box.left ≤ x) (hx1 : x ≤ e box.right) :
    val e box eps up x = GF e up (nx e box x) * (e box.top - e box.bottom) + e box.bottom := by
  unfold val; rw [exec_eq_bin hv x hx0 hx1]; rfl

theorem ld_eq (hv : LinValid e box eps up) (x : ℝ) (hx0 : e box.left ≤ x) (hx1 : x ≤ e box.right) :
    ld e box eps up x = LdF e up (nx e box x) + e (boxLog box) := by
  unfold ld; rw [exec_eq_bin hv x hx0 hx1]; rfl

/-- the forward value fully spelled out: bin `k = min(⌊x'K⌋, K−1)`, `out = cdf_k + (x'K − k)·pdf_k` -/
theorem val_closed_form (hv : LinValid e box eps up) (x : ℝ) (hx0 : e box.left ≤ x) (hx1 : x ≤ e box.right) :
    val e box eps up x
      = (cd e up (min ⌊nx e box x * (up.length : ℝ)⌋₊ (up.length - 1))
          + (nx e box x * (up.length : ℝ) - ((min ⌊nx e box x * (up.length : ℝ)⌋₊ (up.length - 1) : ℕ) : ℝ))
            * pd e up (min ⌊nx e box x * (up.length : ℝ)⌋₊ (up.length - 1)))
        * (e box.top - e box.bottom) + e box.bottom := by
  rw [val_eq hv x hx0 hx1]
  unfold GF binF
  rw [idxF_eq_min (K_pos hv.hK)]

theorem ld_closed_form (hv : LinValid e box eps up) (x : ℝ) (hx0 : e box.left ≤ x) (hx1 : x ≤ e box.right) :
    ld e box eps up x
      = Real.log (pd e up (min ⌊nx e box x * (up.length : ℝ)⌋₊ (up.length - 1)))
        - e (Float.log (1.0 / up.length.toFloat)) + e (boxLog box) := by
  rw [ld_eq hv x hx0 hx1]
  unfold LdF binLdF
  rw [idxF_eq_min (K_pos hv.hK)]

theorem nx_strictMono (hv : LinValid e box eps up) : StrictMono (nx e box) := by
  intro a b hab
  unfold nx
  exact div_lt_div_of_pos_right (by linarith) (sub_pos.mpr hv.hlr)

/-- **C09**: the executed forward program is strictly increasing on `[left, right]` -/
theorem val_strictMonoOn (hv : LinValid e box eps up) :
    StrictMonoOn (val e box eps up) (Set.Icc (e box.left) (e box.right)) := by
  intro a ha b hb' hab
  rw [val_eq hv a ha.1 ha.2, val_eq hv b hb'.1 hb'.2]
  have hna := nx_mem hv a ha.1 ha.2
  have hnb := nx_mem hv b hb'.1 hb'.2
  have := GF_strictMonoOn (e := e) hv.hK ⟨hna.1, hna.2⟩ ⟨hnb.1, hnb.2⟩ (nx_strictMono hv hab)
  have hD : 0 < e box.top - e box.bottom := sub_pos.mpr hv.hbt
  nlinarith

/-- **C09**: the corners are pinned -/
theorem val_endpoints (hv : LinValid e box eps up) :
    val e box eps up (e box.left) = e box.bottom ∧ val e box eps up (e box.right) = e box.top := by
  have hlr := hv.hlr.le
  have hl : nx e box (e box.left) = 0 := by unfold nx; simp
  have hr : nx e box (e box.right) = 1 := by unfold nx; exact div_self (sub_pos.mpr hv.hlr).ne'
  constructor
  · rw [val_eq hv _ le_rfl hlr, hl, (GF_endpoints hv.hK).1]; ring
  · rw [val_eq hv _ hlr le_rfl, hr, (GF_endpoints hv.hK).2]; ring

theorem val_mapsTo (hv : LinValid e box eps up) :
    Set.MapsTo (val e box eps up) (Set.Icc (e box.left) (e box.right)) (Set.Icc (e box.bottom) (e box.top)) := by
  intro x hx
  have hm := (val_strictMonoOn hv).monotoneOn
  obtain ⟨hl, hr⟩ := val_endpoints hv
  have hlr := hv.hlr.le
  constructor
  · rw [← hl]; exact hm ⟨le_rfl, hlr⟩ hx hx.1
  · rw [← hr]; exact hm hx ⟨hlr, le_rfl⟩ hx.2

/-- the bin selected strictly inside the open bin `(k/K, (k+1)/K)` (and on its left knot) is `k` -/
theorem idxF_in_bin (hK : up ≠ []) (k : ℕ) (hk : k < up.length) (t : ℝ)
    (h0 : kn up.length k ≤ t) (h1 : t < kn up.length (k+1)) : idxF up.length t = k :=
  RQInverseWhole.idx_unique (kn up.length) up.length (idxF up.length) (kn_strict (K_pos hK)) (idxF_spec (K_pos hK)).1
    k hk t h0 (Or.inl h1)

/-- **C01 (forward)**: strictly inside a bin, the derivative of the executed forward program is `exp` of the
    log-abs-det it returns — provided the two Python-side `np.log` constants are read as the real logarithms -/
theorem val_hasDerivAt (hv : LinValid e box eps up)
    (hlogK : e (Float.log (1.0 / up.length.toFloat)) = Real.log (1 / (up.length : ℝ)))
    (hbl : e (boxLog box) = Real.log ((e box.top - e box.bottom) / (e box.right - e box.left)))
    (k : ℕ) (hk : k < up.length) (x : ℝ) (h0 : kn up.length k < nx e box x) (h1 : nx e box x < kn up.length (k+1)) :
    HasDerivAt (val e box eps up) (Real.exp (ld e box eps up x)) x := by
  have hK0 := K_pos hv.hK
  have hKR := K_posR hv.hK
  have hmono := ExecGlue.knots_mono (kn up.length) up.length (kn_strict hK0)
  have hD : 0 < e box.right - e box.left := sub_pos.mpr hv.hlr
  have hT : 0 < e box.top - e box.bottom := sub_pos.mpr hv.hbt
  have hn0 : 0 < nx e box x := by
    have := hmono 0 k (Nat.zero_le _) hk.le; rw [kn_zero] at this; linarith
  have hn1 : nx e box x < 1 := by
    have := hmono (k+1) up.length hk le_rfl; rw [kn_last hK0] at this; linarith
  have hxL : e box.left < x := by
    unfold nx at hn0; rw [lt_div_iff₀ hD] at hn0; linarith
  have hxR : x < e box.right := by
    unfold nx at hn1; rw [div_lt_one hD] at hn1; linarith
  have hp := pd_pos (e := e) up k hk
  rw [ld_eq hv x hxL.le hxR.le, hbl]
  unfold LdF binLdF
  rw [idxF_in_bin hv.hK k hk _ h0.le h1, hlogK]
  have hG := GF_hasDerivAt (e := e) hv.hK k hk (nx e box x) h0 h1
  have hlin : HasDerivAt (nx e box) (1 / (e box.right - e box.left)) x := by
    unfold nx
    simpa using ((hasDerivAt_id x).sub_const (e box.left)).div_const (e box.right - e box.left)
  have hc := ((HasDerivAt.comp x hG hlin).mul_const (e box.top - e box.bottom)).add_const (e box.bottom)
  have hev : val e box eps up =ᶠ[nhds x]
      (fun x => (GF e up ∘ nx e box) x * (e box.top - e box.bottom) + e box.bottom) := by
    have hmem : Set.Ioo (e box.left) (e box.right) ∈ nhds x := Ioo_mem_nhds hxL hxR
    exact Filter.eventuallyEq_of_mem hmem (fun z hz => val_eq hv z hz.1.le hz.2.le)
  refine (hc.congr_of_eventuallyEq hev).congr_deriv ?_
  have hpos : 0 < (e box.top - e box.bottom) / (e box.right - e box.left) := div_pos hT hD
  have hK1 : 0 < 1 / (up.length : ℝ) := by positivity
  rw [Real.exp_add, Real.exp_sub, Real.exp_log hpos, Real.exp_log hp, Real.exp_log hK1]
  field_simp

/-! ### the inverse direction: `linspace`, slopes `pdf·K`, right knots -/

variable (e)
/-- `torch.linspace(0, 1, K+1)` as the program computes it -/
def bnd (K : ℕ) : List ℝ := linspace01 (NF.realX e) K
/-- the slopes the inverse program forms: `pdf * num_bins` -/
def slp (up : List ℝ) : List ℝ := (pdf e up).map (fun p => (NF.realX e).mul p ((NF.realX e).ofNat up.length))
variable {e}

theorem bnd_length (K : ℕ) : (bnd e K).length = K + 1 := by simp [bnd, linspace01]

/-- **both halves of ATen's `linspace` are `i/K` over the reals**: `i·(1/K)` below the middle, `1 − (K−i)·(1/K)` above -/
theorem bnd_getD {K : ℕ} (hK : 0 < K) (j : ℕ) (hj : j ≤ K) : (bnd e K).getD j 0 = kn K j := by
  have hKR : (K : ℝ) ≠ 0 := by exact_mod_cast hK.ne'
  unfold bnd linspace01
  rw [List.getD_eq_getElem?_getD, List.getElem?_map, List.getElem?_range (by omega)]
  simp only [Option.map_some, Option.getD_some]
  unfold kn
  split_ifs
  · simp only [NF.realX_mul, NF.realX_div, NF.realX_one, NF.realX_ofNat]
    field_simp
  · simp only [NF.realX_mul, NF.realX_div, NF.realX_one, NF.realX_ofNat, NF.realX_sub]
    rw [Nat.cast_sub hj]
    field_simp
    ring

theorem slp_length (up : List ℝ) : (slp e up).length = up.length := by
  unfold slp; rw [List.length_map, pdf_length]

/-- **the slopes**: `pdf_i · K`, the quantity the forward pass uses -/
theorem slp_getD (i : ℕ) (hi : i < up.length) : (slp e up).getD i 0 = pd e up i * (up.length : ℝ) := by
  have hi' : i < (pdf e up).length := by rw [pdf_length]; exact hi
  unfold slp pd
  simp [List.getD, hi']

/-! ### search over the cdf knots, per-bin closed forms of the inverse, the whole normalised inverse -/

variable (e)
/-- the bin index the executed search over the cdf knots returns on the normalised input `s` -/
def idxI (eps : Float) (up : List ℝ) (s : ℝ) : ℕ := (searchsortedG (NF.realX e) eps (cdf e up) s).toNat
/-- closed form of bin `k` in the inverse direction: the line anchored at the right knot,
    `(k+1)/K + (s − cdf_{k+1})/slope_k` with `slope_k = pdf_k·K` -/
def binI (up : List ℝ) (k : ℕ) (s : ℝ) : ℝ :=
  kn up.length (k+1) + (s - cd e up (k+1)) / (pd e up k * (up.length : ℝ))
def binLdI (up : List ℝ) (k : ℕ) : ℝ := - Real.log (pd e up k * (up.length : ℝ))
def GI (eps : Float) (up : List ℝ) (s : ℝ) : ℝ := binI e up (idxI e eps up s) s
def LdI (eps : Float) (up : List ℝ) (s : ℝ) : ℝ := binLdI e up (idxI e eps up s)
variable {e}

/-- the executed search over the cdf knots meets the search specification -/
theorem search_specI (hv : LinValid e box eps up) :
    ExecGlue.SearchSpec (cd e up) up.length (idxI e eps up) ∧
    ∀ t, 0 ≤ t → t ≤ 1 → searchsortedG (NF.realX e) eps (cdf e up) t = ((idxI e eps up t : ℕ) : Int) := by
  obtain ⟨hlen, hhead, hlast, hp⟩ := cdf_facts (e := e) hv.hK
  exact CubicWhole.search_spec_list e eps hv.heps (cdf e up) up.length 0 1 (K_pos hv.hK) hlen hhead hlast hp

/-- where the searched cdf-bin sits relative to `s` -/
theorem selI (hv : LinValid e box eps up) (s : ℝ) (hs0 : 0 ≤ s) (hs1 : s ≤ 1) :
    idxI e eps up s < up.length ∧ cd e up (idxI e eps up s) ≤ s ∧ s ≤ cd e up (idxI e eps up s + 1) ∧
    (s < cd e up (idxI e eps up s + 1) ∨ (idxI e eps up s + 1 = up.length ∧ s = 1)) := by
  obtain ⟨hspec, _⟩ := search_specI hv
  obtain ⟨hiK, hle, hr⟩ := hspec s (by rw [cd_zero hv.hK]; exact hs0) (by rw [cd_last hv.hK]; exact hs1)
  rw [cd_last hv.hK] at hr
  refine ⟨hiK, hle, ?_, hr⟩
  rcases hr with hr | ⟨hK, hst⟩
  · exact hr.le
  · rw [hK, cd_last hv.hK]; exact hs1

/-- the inverse closed form is `k/K + (s − cdf_k)/(pdf_k·K)` -/
theorem binI_eq (hK : up ≠ []) (k : ℕ) (hk : k < up.length) (s : ℝ) :
    binI e up k s = kn up.length k + (s - cd e up k) / (pd e up k * (up.length : ℝ)) := by
  have hp := pd_pos (e := e) up k hk
  have hKR := K_posR hK
  unfold binI kn
  rw [cd_step hK k hk]
  push_cast
  field_simp
  ring

/-- the forward closed form of bin `k` undoes the inverse closed form of bin `k` -/
theorem binF_binI (hK : up ≠ []) (k : ℕ) (hk : k < up.length) (s : ℝ) : binF e up k (binI e up k s) = s := by
  have hp := pd_pos (e := e) up k hk
  have hKR := K_posR hK
  rw [binI_eq hK k hk]
  unfold binF kn
  field_simp
  ring

/-- the output of bin `k` lies in the closed input-bin `[k/K, (k+1)/K]`, hence in `[0,1]`: **the clamp is the identity** -/
theorem binI_mem (hK : up ≠ []) (k : ℕ) (hk : k < up.length) (s : ℝ)
    (hs0 : cd e up k ≤ s) (hs1 : s ≤ cd e up (k+1)) :
    binI e up k s ∈ Set.Icc (kn up.length k) (kn up.length (k+1)) ∧ 0 ≤ binI e up k s ∧ binI e up k s ≤ 1 := by
  have hp := pd_pos (e := e) up k hk
  have hKR := K_posR hK
  have hpK : 0 < pd e up k * (up.length : ℝ) := mul_pos hp hKR
  have hmono := ExecGlue.knots_mono (kn up.length) up.length (kn_strict (K_pos hK))
  have hl0 : 0 ≤ kn up.length k := by rw [← kn_zero up.length]; exact hmono 0 k (Nat.zero_le _) hk.le
  have hl1 : kn up.length (k+1) ≤ 1 := by rw [← kn_last (K_pos hK)]; exact hmono (k+1) up.length hk le_rfl
  have h1 : kn up.length k ≤ binI e up k s := by
    rw [binI_eq hK k hk]
    have : 0 ≤ (s - cd e up k) / (pd e up k * (up.length : ℝ)) := div_nonneg (by linarith) hpK.le
    linarith
  have h2 : binI e up k s ≤ kn up.length (k+1) := by
    rw [binI_eq hK k hk]
    have hstep := cd_step (e := e) hK k hk
    have : (s - cd e up k) / (pd e up k * (up.length : ℝ)) ≤ 1 / (up.length : ℝ) := by
      rw [div_le_div_iff₀ hpK hKR]
      nlinarith
    unfold kn
    push_cast
    have h3 : ((k : ℝ) + 1) / (up.length : ℝ) = (k : ℝ) / (up.length : ℝ) + 1 / (up.length : ℝ) := by ring
    rw [h3]
    linarith
  exact ⟨⟨h1, h2⟩, by linarith, by linarith⟩

theorem GI_mem_bin (hv : LinValid e box eps up) (s : ℝ) (hs0 : 0 ≤ s) (hs1 : s ≤ 1) :
    GI e eps up s ∈ Set.Icc (kn up.length (idxI e eps up s)) (kn up.length (idxI e eps up s + 1)) := by
  obtain ⟨hiK, hle, hle1, _⟩ := selI hv s hs0 hs1
  exact (binI_mem hv.hK _ hiK s hle hle1).1

theorem GI_mapsTo (hv : LinValid e box eps up) : Set.MapsTo (GI e eps up) (Set.Icc 0 1) (Set.Icc 0 1) := by
  intro s hs
  obtain ⟨hiK, hle, hle1, _⟩ := selI hv s hs.1 hs.2
  obtain ⟨_, h0, h1⟩ := binI_mem (e := e) hv.hK _ hiK s hle hle1
  exact ⟨h0, h1⟩

/-- forward ∘ inverse = id on `[0,1]`, normalised coordinates, whole functions -/
theorem GF_GI (hv : LinValid e box eps up) (s : ℝ) (hs0 : 0 ≤ s) (hs1 : s ≤ 1) : GF e up (GI e eps up s) = s := by
  obtain ⟨hiK, _, _, _⟩ := selI hv s hs0 hs1
  rw [GF_eqOn_bin hv.hK _ hiK (GI_mem_bin hv s hs0 hs1)]
  exact binF_binI hv.hK _ hiK s

/-- inverse ∘ forward = id on `[0,1]`, normalised coordinates, whole functions -/
theorem GI_GF (hv : LinValid e box eps up) (t : ℝ) (ht0 : 0 ≤ t) (ht1 : t ≤ 1) : GI e eps up (GF e up t) = t := by
  have hm := GF_mapsTo (e := e) hv.hK ⟨ht0, ht1⟩
  have hin := GI_mapsTo hv hm
  exact (GF_strictMonoOn hv.hK).injOn hin ⟨ht0, ht1⟩ (GF_GI hv _ hm.1 hm.2)

/-- **the floor index at the inverse's output is the bin the search selected** — for EVERY `s ∈ [0,1]`, knots and both
    ends included -/
theorem idxF_GI (hv : LinValid e box eps up) (s : ℝ) (hs0 : 0 ≤ s) (hs1 : s ≤ 1) :
    idxF up.length (GI e eps up s) = idxI e eps up s := by
  have hK0 := K_pos hv.hK
  obtain ⟨hiK, hle, hle1, hr⟩ := selI hv s hs0 hs1
  obtain ⟨h0, h1⟩ := GI_mem_bin hv s hs0 hs1
  apply RQInverseWhole.idx_unique (kn up.length) up.length (idxF up.length) (kn_strict hK0) (idxF_spec hK0).1 _ hiK _ h0
  rcases lt_or_eq_of_le h1 with hlt | heq
  · exact Or.inl hlt
  · right
    have hs : s = cd e up (idxI e eps up s + 1) := by
      have := GF_GI hv s hs0 hs1
      rw [heq, GF_knot hv.hK _ hiK] at this
      exact this.symm
    rcases hr with hr | ⟨hK, _⟩
    · linarith
    · exact ⟨hK, by rw [heq, hK]⟩

theorem idxI_GF (hv : LinValid e box eps up) (t : ℝ) (ht0 : 0 ≤ t) (ht1 : t ≤ 1) :
    idxI e eps up (GF e up t) = idxF up.length t := by
  have hm := GF_mapsTo (e := e) hv.hK ⟨ht0, ht1⟩
  rw [← idxF_GI hv _ hm.1 hm.2, GI_GF hv t ht0 ht1]

/-- log-abs-det law in normalised coordinates on the whole of `[0,1]`.  The forward program subtracts the Python-side
    double `np.log(1/K)`, the inverse program takes `log` of the in-tensor slope `pdf·K`: they are negatives of each
    other exactly when the constant is read as the real `log (1/K)` -/
theorem LdI_eq_neg_LdF (hv : LinValid e box eps up)
    (hlogK : e (Float.log (1.0 / up.length.toFloat)) = Real.log (1 / (up.length : ℝ)))
    (s : ℝ) (hs0 : 0 ≤ s) (hs1 : s ≤ 1) : LdI e eps up s = - LdF e up (GI e eps up s) := by
  obtain ⟨hiK, _, _, _⟩ := selI hv s hs0 hs1
  have hp := pd_pos (e := e) up _ hiK
  have hKR := K_posR hv.hK
  unfold LdF LdI binLdI binLdF
  rw [idxF_GI hv s hs0 hs1, hlogK, Real.log_mul hp.ne' hKR.ne', one_div, Real.log_inv]
  ring

/-! ### the executed inverse program -/

theorem guardI (y : ℝ) (hy0 : e box.bottom ≤ y) (hy1 : y ≤ e box.top) :
    ((NF.realX e).lt y ((NF.realX e).ofFloat box.bottom) || (NF.realX e).lt ((NF.realX e).ofFloat box.top) y) = false := by
  simp only [NF.realX_lt, NF.realX_ofFloat, Bool.or_eq_false_iff, decide_eq_false_iff_not, not_lt]
  exact ⟨hy0, hy1⟩

/-- **C17, totality + closed form (inverse)**: for every `y ∈ [bottom, top]` the executed inverse program returns a
    value; it is `(i+1)/K + (y' − cdf_{i+1})/(pdf_i·K)` for the bin `i` the executed search over the cdf knots selected
    (all three gathers in range, clamp inactive), rescaled to `[left, right]`; the log-abs-det is `−log(pdf_i·K) − boxLog` -/
theorem inv_exec_eq_bin (hv : LinValid e box eps up) (y : ℝ) (hy0 : e box.bottom ≤ y) (hy1 : y ≤ e box.top) :
    linSpline (NF.realX e) box eps up true y
      = .ok (GI e eps up (ny e box y) * (e box.right - e box.left) + e box.left,
             LdI e eps up (ny e box y) - e (boxLog box)) := by
  obtain ⟨hs0, hs1⟩ := ny_mem hv y hy0 hy1
  obtain ⟨_, hsearch⟩ := search_specI hv
  obtain ⟨hiK, hle, hle1, _⟩ := selI hv _ hs0 hs1
  set i := idxI e eps up (ny e box y) with hi
  obtain ⟨_, hu0, hu1⟩ := binI_mem (e := e) hv.hK i hiK _ hle hle1
  have h1 : softmaxG (NF.realX e) up = pdf e up := rfl
  have h2 : (NF.realX e).zero :: setLast (cumsumG (NF.realX e) (pdf e up)) (NF.realX e).one = cdf e up := rfl
  have h3 : linspace01 (NF.realX e) up.length = bnd e up.length := rfl
  have h4 : (pdf e up).map (fun p => (NF.realX e).mul p ((NF.realX e).ofNat up.length)) = slp e up := rfl
  have hy' : (NF.realX e).div ((NF.realX e).sub y ((NF.realX e).ofFloat box.bottom)) ((NF.realX e).ofFloat (box.top - box.bottom))
      = ny e box y := by
    simp only [NF.realX_div, NF.realX_sub, NF.realX_ofFloat, hv.hdbt]; rfl
  unfold linSpline
  simp only [if_true, guardI y hy0 hy1, h1, h2, h3, h4, hy', hsearch _ hs0 hs1]
  rw [SplineTotal.getI_ok (slp e up) i (by rw [slp_length]; exact hiK),
    SplineTotal.getI_ok ((cdf e up).drop 1) i (by rw [List.length_drop, (cdf_facts hv.hK).1]; omega),
    SplineTotal.getI_ok ((bnd e up.length).drop 1) i (by rw [List.length_drop, bnd_length]; omega)]
  simp only [QuadWhole.getElem_eq_getD, bind, Except.bind, pure, Except.pure, slp_getD i hiK, CubicWhole.getD_drop1,
    bnd_getD (K_pos hv.hK) (i+1) hiK]
  have hout : (NF.realX e).add (kn up.length (i+1))
        ((NF.realX e).div ((NF.realX e).sub (ny e box y) ((cdf e up).getD (i+1) 0)) (pd e up i * (up.length : ℝ)))
      = binI e up i (ny e box y) := rfl
  rw [hout, QuadWhole.clamp01_id e _ hu0 hu1]
  simp only [NF.realX_add, NF.realX_mul, NF.realX_sub, NF.realX_neg, NF.realX_log, NF.realX_ofFloat, hv.hdlr]
  rfl

/-- the inverse clamp is the identity at the searched bin, for every input of the domain -/
theorem clamp_inactive_inv (hv : LinValid e box eps up) (y : ℝ) (hy0 : e box.bottom ≤ y) (hy1 : y ≤ e box.top) :
    (NF.realX e).clamp (NF.realX e).zero (NF.realX e).one (GI e eps up (ny e box y)) = GI e eps up (ny e box y) := by
  obtain ⟨hs0, hs1⟩ := ny_mem hv y hy0 hy1
  obtain ⟨g0, g1⟩ := GI_mapsTo hv ⟨hs0, hs1⟩
  exact QuadWhole.clamp01_id e _ g0 g1

variable (e)
/-- what the inverse program returns (0 on the error branch, which `inv_exec_eq_bin` shows is not taken in the domain) -/
def inv (box : Box) (eps : Float) (up : List ℝ) (y : ℝ) : ℝ := valOf (linSpline (NF.realX e) box eps up true y)
def invLd (box : Box) (eps : Float) (up : List ℝ) (y : ℝ) : ℝ := ldOf (linSpline (NF.realX e) box eps up true y)
variable {e}

/-- **C17**: the inverse program returns `.ok (inv y, invLd y)` on the whole of `[bottom, top]` -/
theorem inv_exec_ok (hv : LinValid e box eps up) (y : ℝ) (hy0 : e box.bottom ≤ y) (hy1 : y ≤ e box.top) :
    linSpline (NF.realX e) box eps up true y = .ok (inv e box eps up y, invLd e box eps up y) := by
  unfold inv invLd; rw [inv_exec_eq_bin hv y hy0 hy1]; rfl

theorem inv_eq (hv : LinValid e box eps up) (y : ℝ) (hy0 : e box.bottom ≤ y) (hy1 : y ≤ e box.top) :
    inv e box eps up y = GI e eps up (ny e box y) * (e box.right - e box.left) + e box.left := by
  unfold inv; rw [inv_exec_eq_bin hv y hy0 hy1]; rfl

theorem invLd_eq (hv : LinValid e box eps up) (y : ℝ) (hy0 : e box.bottom ≤ y) (hy1 : y ≤ e box.top) :
    invLd e box eps up y = LdI e eps up (ny e box y) - e (boxLog box) := by
  unfold invLd; rw [inv_exec_eq_bin hv y hy0 hy1]; rfl

/-- the inverse value fully spelled out: `i` the searched cdf-bin, `out = i/K + (y' − cdf_i)/(pdf_i·K)` -/
theorem inv_closed_form (hv : LinValid e box eps up) (y : ℝ) (hy0 : e box.bottom ≤ y) (hy1 : y ≤ e box.top) :
    inv e box eps up y
      = ((idxI e eps up (ny e box y) : ℝ) / (up.length : ℝ)
          + (ny e box y - cd e up (idxI e eps up (ny e box y)))
              / (pd e up (idxI e eps up (ny e box y)) * (up.length : ℝ)))
        * (e box.right - e box.left) + e box.left ∧
    invLd e box eps up y = - Real.log (pd e up (idxI e eps up (ny e box y)) * (up.length : ℝ)) - e (boxLog box) := by
  obtain ⟨hs0, hs1⟩ := ny_mem hv y hy0 hy1
  obtain ⟨hiK, _, _, _⟩ := selI hv _ hs0 hs1
  rw [inv_eq hv y hy0 hy1, invLd_eq hv y hy0 hy1]
  unfold GI LdI binLdI
  rw [binI_eq hv.hK _ hiK]
  exact ⟨rfl, rfl⟩

/-- outside the domain both directions raise `InputOutsideDomain` -/
theorem outside_domain (inverse : Bool) (x : ℝ)
    (hx : x < e (if inverse then box.bottom else box.left) ∨ e (if inverse then box.top else box.right) < x) :
    linSpline (NF.realX e) box eps up inverse x = .error .outsideDomain := by
  unfold linSpline
  have : ((NF.realX e).lt x ((NF.realX e).ofFloat (if inverse = true then box.bottom else box.left))
      || (NF.realX e).lt ((NF.realX e).ofFloat (if inverse = true then box.top else box.right)) x) = true := by
    simp only [NF.realX_lt, NF.realX_ofFloat, Bool.or_eq_true, decide_eq_true_eq]
    exact hx
  simp only [this, if_true]
  rfl

theorem inv_mapsTo (hv : LinValid e box eps up) :
    Set.MapsTo (inv e box eps up) (Set.Icc (e box.bottom) (e box.top)) (Set.Icc (e box.left) (e box.right)) := by
  intro y hy
  obtain ⟨h0, h1⟩ := ny_mem hv y hy.1 hy.2
  obtain ⟨g0, g1⟩ := GI_mapsTo hv ⟨h0, h1⟩
  have hD : 0 < e box.right - e box.left := sub_pos.mpr hv.hlr
  rw [inv_eq hv y hy.1 hy.2]
  constructor
  · nlinarith
  · nlinarith

/-- the forward program's normalised input at the inverse program's output is the normalised inverse value -/
theorem nx_inv (hv : LinValid e box eps up) (y : ℝ) (hy0 : e box.bottom ≤ y) (hy1 : y ≤ e box.top) :
    nx e box (inv e box eps up y) = GI e eps up (ny e box y) := by
  have hD : 0 < e box.right - e box.left := sub_pos.mpr hv.hlr
  rw [inv_eq hv y hy0 hy1]
  unfold nx
  rw [add_sub_cancel_right]
  exact mul_div_cancel_right₀ _ hD.ne'

/-- **C02: forward ∘ inverse = id on `[bottom, top]`** (knots included) -/
theorem val_inv (hv : LinValid e box eps up) (y : ℝ) (hy0 : e box.bottom ≤ y) (hy1 : y ≤ e box.top) :
    val e box eps up (inv e box eps up y) = y := by
  obtain ⟨h0, h1⟩ := ny_mem hv y hy0 hy1
  have hm := inv_mapsTo hv ⟨hy0, hy1⟩
  have hT : 0 < e box.top - e box.bottom := sub_pos.mpr hv.hbt
  rw [val_eq hv _ hm.1 hm.2, nx_inv hv y hy0 hy1, GF_GI hv _ h0 h1]
  unfold ny
  field_simp
  ring

/-- **C02: inverse ∘ forward = id on `[left, right]`** (knots included) -/
theorem inv_val (hv : LinValid e box eps up) (x : ℝ) (hx0 : e box.left ≤ x) (hx1 : x ≤ e box.right) :
    inv e box eps up (val e box eps up x) = x := by
  have hm := val_mapsTo hv ⟨hx0, hx1⟩
  have hin := inv_mapsTo hv hm
  exact (val_strictMonoOn hv).injOn hin ⟨hx0, hx1⟩ (val_inv hv _ hm.1 hm.2)

/-- **C02: the inverse log-abs-det is minus the forward log-abs-det at the inverse value**, on the whole closed box
    (knots included).  `boxLog` needs no reading (added by one program, subtracted by the other); the constant
    `np.log(1/K)` of the forward program must be the real `log (1/K)` (the inverse program computes the slope in-tensor) -/
theorem invLd_eq_neg_ld (hv : LinValid e box eps up)
    (hlogK : e (Float.log (1.0 / up.length.toFloat)) = Real.log (1 / (up.length : ℝ)))
    (y : ℝ) (hy0 : e box.bottom ≤ y) (hy1 : y ≤ e box.top) :
    invLd e box eps up y = - ld e box eps up (inv e box eps up y) := by
  obtain ⟨h0, h1⟩ := ny_mem hv y hy0 hy1
  have hm := inv_mapsTo hv ⟨hy0, hy1⟩
  rw [invLd_eq hv y hy0 hy1, ld_eq hv _ hm.1 hm.2, nx_inv hv y hy0 hy1, LdI_eq_neg_LdF hv hlogK _ h0 h1]
  ring

theorem ld_eq_neg_invLd (hv : LinValid e box eps up)
    (hlogK : e (Float.log (1.0 / up.length.toFloat)) = Real.log (1 / (up.length : ℝ)))
    (x : ℝ) (hx0 : e box.left ≤ x) (hx1 : x ≤ e box.right) :
    ld e box eps up x = - invLd e box eps up (val e box eps up x) := by
  have hm := val_mapsTo hv ⟨hx0, hx1⟩
  rw [invLd_eq_neg_ld hv hlogK _ hm.1 hm.2, inv_val hv x hx0 hx1]
  ring

/-- **C09**: the executed inverse program is strictly increasing on `[bottom, top]` -/
theorem inv_strictMonoOn (hv : LinValid e box eps up) :
    StrictMonoOn (inv e box eps up) (Set.Icc (e box.bottom) (e box.top)) := by
  intro a ha b hb' hab
  by_contra hnot
  have hle : inv e box eps up b ≤ inv e box eps up a := not_lt.mp hnot
  have := (val_strictMonoOn hv).monotoneOn (inv_mapsTo hv hb') (inv_mapsTo hv ha) hle
  rw [val_inv hv a ha.1 ha.2, val_inv hv b hb'.1 hb'.2] at this
  linarith

theorem inv_endpoints (hv : LinValid e box eps up) :
    inv e box eps up (e box.bottom) = e box.left ∧ inv e box eps up (e box.top) = e box.right := by
  obtain ⟨hl, hr⟩ := val_endpoints hv
  constructor
  · rw [← hl]; exact inv_val hv _ le_rfl hv.hlr.le
  · rw [← hr]; exact inv_val hv _ hv.hlr.le le_rfl

/-- **C09**: the forward program maps `[left, right]` ONTO `[bottom, top]` -/
theorem val_image (hv : LinValid e box eps up) :
    val e box eps up '' Set.Icc (e box.left) (e box.right) = Set.Icc (e box.bottom) (e box.top) := by
  apply Set.Subset.antisymm
  · rintro _ ⟨x, hx, rfl⟩; exact val_mapsTo hv hx
  · intro y hy
    exact ⟨inv e box eps up y, inv_mapsTo hv hy, val_inv hv y hy.1 hy.2⟩

theorem inv_image (hv : LinValid e box eps up) :
    inv e box eps up '' Set.Icc (e box.bottom) (e box.top) = Set.Icc (e box.left) (e box.right) := by
  apply Set.Subset.antisymm
  · rintro _ ⟨y, hy, rfl⟩; exact inv_mapsTo hv hy
  · intro x hx
    exact ⟨val e box eps up x, val_mapsTo hv hx, inv_val hv x hx.1 hx.2⟩

/-- **C09**: the executed forward program is a strictly increasing bijection of `[left, right]` onto `[bottom, top]` -/
theorem val_bijOn (hv : LinValid e box eps up) :
    Set.BijOn (val e box eps up) (Set.Icc (e box.left) (e box.right)) (Set.Icc (e box.bottom) (e box.top)) :=
  ⟨val_mapsTo hv, (val_strictMonoOn hv).injOn, by rw [Set.SurjOn, val_image hv]⟩

theorem inv_bijOn (hv : LinValid e box eps up) :
    Set.BijOn (inv e box eps up) (Set.Icc (e box.bottom) (e box.top)) (Set.Icc (e box.left) (e box.right)) :=
  ⟨inv_mapsTo hv, (inv_strictMonoOn hv).injOn, by rw [Set.SurjOn, inv_image hv]⟩

/-- the programs send knot to knot: `x_j = left + (j/K)(right − left) ↦ bottom + cdf_j (top − bottom)` -/
theorem val_knot (hv : LinValid e box eps up) (j : ℕ) (hj : j ≤ up.length) :
    val e box eps up (e box.left + kn up.length j * (e box.right - e box.left))
      = e box.bottom + cd e up j * (e box.top - e box.bottom) := by
  have hD : 0 < e box.right - e box.left := sub_pos.mpr hv.hlr
  have hK0 := K_pos hv.hK
  have hmono := ExecGlue.knots_mono (kn up.length) up.length (kn_strict hK0)
  have h0 : 0 ≤ kn up.length j := by rw [← kn_zero up.length]; exact hmono 0 j (Nat.zero_le _) hj
  have h1 : kn up.length j ≤ 1 := by rw [← kn_last hK0]; exact hmono j up.length hj le_rfl
  have hn : nx e box (e box.left + kn up.length j * (e box.right - e box.left)) = kn up.length j := by
    unfold nx
    rw [add_sub_cancel_left]
    exact mul_div_cancel_right₀ _ hD.ne'
  rw [val_eq hv _ (by nlinarith) (by nlinarith), hn, GF_knot hv.hK j hj]
  ring

/-- **C01 (inverse)**: strictly between two consecutive cdf knots the derivative of the executed inverse program is
    `exp` of the log-abs-det it returns (here only `boxLog` must be read as the real logarithm) -/
theorem inv_hasDerivAt (hv : LinValid e box eps up)
    (hbl : e (boxLog box) = Real.log ((e box.top - e box.bottom) / (e box.right - e box.left)))
    (k : ℕ) (hk : k < up.length) (y : ℝ) (h0 : cd e up k < ny e box y) (h1 : ny e box y < cd e up (k+1)) :
    HasDerivAt (inv e box eps up) (Real.exp (invLd e box eps up y)) y := by
  have hK0 := K_pos hv.hK
  have hKR := K_posR hv.hK
  have hmono := cd_mono (e := e) hv.hK
  have hD : 0 < e box.right - e box.left := sub_pos.mpr hv.hlr
  have hT : 0 < e box.top - e box.bottom := sub_pos.mpr hv.hbt
  have hp := pd_pos (e := e) up k hk
  have hpK : 0 < pd e up k * (up.length : ℝ) := mul_pos hp hKR
  have hn0 : 0 < ny e box y := by
    have := hmono 0 k (Nat.zero_le _) hk.le; rw [cd_zero hv.hK] at this; linarith
  have hn1 : ny e box y < 1 := by
    have := hmono (k+1) up.length hk le_rfl; rw [cd_last hv.hK] at this; linarith
  have hy0 : e box.bottom < y := by
    unfold ny at hn0; rw [lt_div_iff₀ hT] at hn0; linarith
  have hy1 : y < e box.top := by
    unfold ny at hn1; rw [div_lt_one hT] at hn1; linarith
  have hidx : ∀ s, cd e up k < s → s < cd e up (k+1) → idxI e eps up s = k := fun s a b =>
    RQInverseWhole.idx_unique (cd e up) up.length (idxI e eps up) (cd_strict hv.hK) (search_specI hv).1 k hk s a.le
      (Or.inl b)
  rw [invLd_eq hv y hy0.le hy1.le, hbl]
  unfold LdI binLdI
  rw [hidx _ h0 h1]
  -- the affine formula of bin `k`, in box coordinates
  have hlin : HasDerivAt (ny e box) (1 / (e box.top - e box.bottom)) y := by
    unfold ny
    simpa using ((hasDerivAt_id y).sub_const (e box.bottom)).div_const (e box.top - e box.bottom)
  have hb : HasDerivAt (binI e up k) (1 / (pd e up k * (up.length : ℝ))) (ny e box y) := by
    unfold binI
    simpa using (((hasDerivAt_id (ny e box y)).sub_const (cd e up (k+1))).div_const
      (pd e up k * (up.length : ℝ))).const_add (kn up.length (k+1))
  have hc := ((HasDerivAt.comp y hb hlin).mul_const (e box.right - e box.left)).add_const (e box.left)
  have hcont : ContinuousAt (ny e box) y := hlin.continuousAt
  have hev : inv e box eps up =ᶠ[nhds y]
      (fun y => (binI e up k ∘ ny e box) y * (e box.right - e box.left) + e box.left) := by
    have hmem1 : Set.Ioo (e box.bottom) (e box.top) ∈ nhds y := Ioo_mem_nhds hy0 hy1
    have hmem2 : ny e box ⁻¹' Set.Ioo (cd e up k) (cd e up (k+1)) ∈ nhds y :=
      hcont.preimage_mem_nhds (Ioo_mem_nhds h0 h1)
    filter_upwards [hmem1, hmem2] with z hz1 hz2
    rw [inv_eq hv z hz1.1.le hz1.2.le]
    unfold GI
    rw [hidx _ hz2.1 hz2.2]
    rfl
  refine (hc.congr_of_eventuallyEq hev).congr_deriv ?_
  have hpos : 0 < (e box.top - e box.bottom) / (e box.right - e box.left) := div_pos hT hD
  rw [Real.exp_sub, Real.exp_neg, Real.exp_log hpos, Real.exp_log hpK]
  field_simp

/-- `exp (invLd y) · exp (ld (inv y)) = 1`: the two derivatives are reciprocal (from the log-abs-det law) -/
theorem exp_invLd_mul (hv : LinValid e box eps up)
    (hlogK : e (Float.log (1.0 / up.length.toFloat)) = Real.log (1 / (up.length : ℝ)))
    (y : ℝ) (hy0 : e box.bottom ≤ y) (hy1 : y ≤ e box.top) :
    Real.exp (invLd e box eps up y) * Real.exp (ld e box eps up (inv e box eps up y)) = 1 := by
  rw [invLd_eq_neg_ld hv hlogK y hy0 hy1, ← Real.exp_add]
  simp

/-! ### box coordinates: the knots `x_j = left + (j/K)(right − left)`, `y_j = bottom + cdf_j (top − bottom)` -/

variable (e)
def xk (box : Box) (K : ℕ) (j : ℕ) : ℝ := e box.left + kn K j * (e box.right - e box.left)
def yk (box : Box) (up : List ℝ) (j : ℕ) : ℝ := e box.bottom + cd e up j * (e box.top - e box.bottom)
variable {e}

theorem nx_bin_iff (hv : LinValid e box eps up) (k : ℕ) (x : ℝ) :
    (kn up.length k < nx e box x ↔ xk e box up.length k < x) ∧ (nx e box x < kn up.length k ↔ x < xk e box up.length k) := by
  have hD : 0 < e box.right - e box.left := sub_pos.mpr hv.hlr
  unfold nx xk
  rw [lt_div_iff₀ hD, div_lt_iff₀ hD]
  constructor <;> constructor <;> intro h <;> linarith

theorem ny_bin_iff (hv : LinValid e box eps up) (k : ℕ) (y : ℝ) :
    (cd e up k < ny e box y ↔ yk e box up k < y) ∧ (ny e box y < cd e up k ↔ y < yk e box up k) := by
  have hD : 0 < e box.top - e box.bottom := sub_pos.mpr hv.hbt
  unfold ny yk
  rw [lt_div_iff₀ hD, div_lt_iff₀ hD]
  constructor <;> constructor <;> intro h <;> linarith

/-- the knots in box coordinates start at the lower corner, end at the upper corner, strictly increase; the forward
    program sends `x_j` to `y_j`, the inverse program sends `y_j` to `x_j` -/
theorem knots_facts (hv : LinValid e box eps up) :
    xk e box up.length 0 = e box.left ∧ xk e box up.length up.length = e box.right ∧
    (∀ k < up.length, xk e box up.length k < xk e box up.length (k+1)) ∧
    yk e box up 0 = e box.bottom ∧ yk e box up up.length = e box.top ∧
    (∀ k < up.length, yk e box up k < yk e box up (k+1)) ∧
    (∀ j ≤ up.length, val e box eps up (xk e box up.length j) = yk e box up j) ∧
    (∀ j ≤ up.length, inv e box eps up (yk e box up j) = xk e box up.length j) := by
  have hD : 0 < e box.right - e box.left := sub_pos.mpr hv.hlr
  have hT : 0 < e box.top - e box.bottom := sub_pos.mpr hv.hbt
  have hK0 := K_pos hv.hK
  have hxs : ∀ k < up.length, xk e box up.length k < xk e box up.length (k+1) := by
    intro k hk
    have := kn_strict hK0 k hk
    unfold xk; nlinarith
  have hxmono := ExecGlue.knots_mono (xk e box up.length) up.length hxs
  have hx0 : xk e box up.length 0 = e box.left := by unfold xk; rw [kn_zero]; ring
  have hxK : xk e box up.length up.length = e box.right := by unfold xk; rw [kn_last hK0]; ring
  have hvk : ∀ j ≤ up.length, val e box eps up (xk e box up.length j) = yk e box up j := fun j hj => val_knot hv j hj
  refine ⟨hx0, hxK, hxs, ?_, ?_, ?_, hvk, ?_⟩
  · unfold yk; rw [cd_zero hv.hK]; ring
  · unfold yk; rw [cd_last hv.hK]; ring
  · intro k hk
    have := cd_strict (e := e) hv.hK k hk
    unfold yk; nlinarith
  · intro j hj
    rw [← hvk j hj]
    refine inv_val hv _ ?_ ?_
    · rw [← hx0]; exact hxmono 0 j (Nat.zero_le _) hj
    · rw [← hxK]; exact hxmono j up.length hj le_rfl

/-- **C01 (forward) in box coordinates**: for `x` strictly between two consecutive knots -/
theorem val_hasDerivAt_x (hv : LinValid e box eps up)
    (hlogK : e (Float.log (1.0 / up.length.toFloat)) = Real.log (1 / (up.length : ℝ)))
    (hbl : e (boxLog box) = Real.log ((e box.top - e box.bottom) / (e box.right - e box.left)))
    (k : ℕ) (hk : k < up.length) (x : ℝ) (h0 : xk e box up.length k < x) (h1 : x < xk e box up.length (k+1)) :
    HasDerivAt (val e box eps up) (Real.exp (ld e box eps up x)) x :=
  val_hasDerivAt hv hlogK hbl k hk x ((nx_bin_iff hv k x).1.mpr h0) ((nx_bin_iff hv (k+1) x).2.mpr h1)

/-- **C01 (inverse) in box coordinates**: for `y` strictly between two consecutive output knots -/
theorem inv_hasDerivAt_y (hv : LinValid e box eps up)
    (hbl : e (boxLog box) = Real.log ((e box.top - e box.bottom) / (e box.right - e box.left)))
    (k : ℕ) (hk : k < up.length) (y : ℝ) (h0 : yk e box up k < y) (h1 : y < yk e box up (k+1)) :
    HasDerivAt (inv e box eps up) (Real.exp (invLd e box eps up y)) y :=
  inv_hasDerivAt hv hbl k hk y ((ny_bin_iff hv k y).1.mpr h0) ((ny_bin_iff hv (k+1) y).2.mpr h1)

/-- the derivative value itself: inside bin `k` the forward slope is `pdf_k · K · (top − bottom)/(right − left)` -/
theorem exp_ld_bin (hv : LinValid e box eps up)
    (hlogK : e (Float.log (1.0 / up.length.toFloat)) = Real.log (1 / (up.length : ℝ)))
    (hbl : e (boxLog box) = Real.log ((e box.top - e box.bottom) / (e box.right - e box.left)))
    (k : ℕ) (hk : k < up.length) (x : ℝ) (h0 : xk e box up.length k ≤ x) (h1 : x < xk e box up.length (k+1)) :
    Real.exp (ld e box eps up x)
      = pd e up k * (up.length : ℝ) * ((e box.top - e box.bottom) / (e box.right - e box.left)) := by
  have hK0 := K_pos hv.hK
  have hKR := K_posR hv.hK
  have hD : 0 < e box.right - e box.left := sub_pos.mpr hv.hlr
  have hT : 0 < e box.top - e box.bottom := sub_pos.mpr hv.hbt
  obtain ⟨hx0, hxK, hxs, _⟩ := knots_facts hv
  have hxmono := ExecGlue.knots_mono (xk e box up.length) up.length hxs
  have hxL : e box.left ≤ x := by rw [← hx0]; exact le_trans (hxmono 0 k (Nat.zero_le _) hk.le) h0
  have hxR : x ≤ e box.right := by rw [← hxK]; exact le_trans h1.le (hxmono (k+1) up.length hk le_rfl)
  have hn0 : kn up.length k ≤ nx e box x := by
    unfold nx; unfold xk at h0; rw [le_div_iff₀ hD]; linarith
  have hn1 : nx e box x < kn up.length (k+1) := (nx_bin_iff hv (k+1) x).2.mpr h1
  have hp := pd_pos (e := e) up k hk
  rw [ld_eq hv x hxL hxR, hbl]
  unfold LdF binLdF
  rw [idxF_in_bin hv.hK k hk _ hn0 hn1, hlogK]
  have hpos : 0 < (e box.top - e box.bottom) / (e box.right - e box.left) := div_pos hT hD
  have hK1 : 0 < 1 / (up.length : ℝ) := by positivity
  rw [Real.exp_add, Real.exp_sub, Real.exp_log hpos, Real.exp_log hp, Real.exp_log hK1]
  field_simp

/-- right derivative of the executed forward program at the LEFT end of the box: the slope of bin 0 -/
theorem val_hasDerivWithinAt_left (hv : LinValid e box eps up) :
    HasDerivWithinAt (val e box eps up)
      (pd e up 0 * (up.length : ℝ) * ((e box.top - e box.bottom) / (e box.right - e box.left)))
      (Set.Ici (e box.left)) (e box.left) := by
  have hK0 := K_pos hv.hK
  have hD : 0 < e box.right - e box.left := sub_pos.mpr hv.hlr
  obtain ⟨hx0, hxK, hxs, _⟩ := knots_facts hv
  have hxmono := ExecGlue.knots_mono (xk e box up.length) up.length hxs
  have hx1 : e box.left < xk e box up.length (0+1) := by rw [← hx0]; exact hxs 0 hK0
  have hx1R : xk e box up.length (0+1) ≤ e box.right := by rw [← hxK]; exact hxmono (0+1) up.length hK0 le_rfl
  have hlin : HasDerivAt (nx e box) (1 / (e box.right - e box.left)) (e box.left) := by
    unfold nx
    simpa using ((hasDerivAt_id (e box.left)).sub_const (e box.left)).div_const (e box.right - e box.left)
  have hb := binF_hasDerivAt (e := e) up 0 (nx e box (e box.left))
  have hc := ((HasDerivAt.comp (e box.left) hb hlin).mul_const (e box.top - e box.bottom)).add_const (e box.bottom)
  have hmem : Set.Icc (e box.left) (xk e box up.length (0+1)) ∈ nhdsWithin (e box.left) (Set.Ici (e box.left)) :=
    Icc_mem_nhdsGE hx1
  have heq : ∀ z ∈ Set.Icc (e box.left) (xk e box up.length (0+1)),
      val e box eps up z = (binF e up 0 ∘ nx e box) z * (e box.top - e box.bottom) + e box.bottom := by
    intro z hz
    rw [val_eq hv z hz.1 (le_trans hz.2 hx1R)]
    have hn0 : kn up.length 0 ≤ nx e box z := by
      rw [kn_zero]; exact (nx_mem hv z hz.1 (le_trans hz.2 hx1R)).1
    have hn1 : nx e box z ≤ kn up.length (0+1) := by
      have h := hz.2
      unfold nx; unfold xk at h; rw [div_le_iff₀ hD]; linarith
    rw [GF_eqOn_bin hv.hK 0 hK0 ⟨hn0, hn1⟩]
    rfl
  have hev : val e box eps up =ᶠ[nhdsWithin (e box.left) (Set.Ici (e box.left))]
      (fun x => (binF e up 0 ∘ nx e box) x * (e box.top - e box.bottom) + e box.bottom) :=
    Filter.eventuallyEq_of_mem hmem heq
  have hfin := hc.hasDerivWithinAt.congr_of_eventuallyEq hev (heq _ ⟨le_rfl, hx1.le⟩)
  exact hfin.congr_deriv (by ring)

/-! ### non-vacuity: the unit box, EVERY non-empty parameter vector, a concrete reading of the doubles -/

private theorem b0 : ((0.0:Float) == 0.0) = true := by decide +kernel
private theorem b1 : ((1.0:Float) == 0.0) = false := by decide +kernel
private theorem b2 : ((1e-6:Float) == 0.0) = false := by decide +kernel
private theorem b4 : (((1.0:Float) - 0.0) == 0.0) = false := by decide +kernel

theorem valid_unit_box (up : List ℝ) (hK : up ≠ []) : LinValid RQWhole.eNV ⟨0.0, 1.0, 0.0, 1.0⟩ 1e-6 up where
  hK := hK
  hlr := by simp [RQWhole.eNV, b0, b1]
  hdlr := by simp [RQWhole.eNV, b0, b1, b4]
  hbt := by simp [RQWhole.eNV, b0, b1]
  hdbt := by simp [RQWhole.eNV, b0, b1, b4]
  heps := by simp [RQWhole.eNV, b2]

theorem valid_example : LinValid RQWhole.eNV ⟨0.0, 1.0, 0.0, 1.0⟩ 1e-6 [0, 1, -1] := valid_unit_box _ (by simp)

/-- the two `np.log` readings `hlogK`, `hbl` hold for `eNV`, one bin and the unit box as soon as the two IEEE facts
    `log(1.0/1.0) == 0.0` and `log((1.0−0.0)/(1.0−0.0)) == 0.0` are granted (`Float.log` is opaque to the kernel, so
    they cannot be decided inside Lean; `#eval` confirms both) -/
theorem logs_example (h1 : (Float.log (1.0 / (1:ℕ).toFloat) == 0.0) = true)
    (h2 : (boxLog ⟨0.0, 1.0, 0.0, 1.0⟩ == 0.0) = true) :
    RQWhole.eNV (Float.log (1.0 / ([(0:ℝ)].length).toFloat)) = Real.log (1 / (([(0:ℝ)].length : ℕ) : ℝ)) ∧
    RQWhole.eNV (boxLog ⟨0.0, 1.0, 0.0, 1.0⟩)
      = Real.log ((RQWhole.eNV 1.0 - RQWhole.eNV 0.0) / (RQWhole.eNV 1.0 - RQWhole.eNV 0.0)) := by
  constructor
  · have : [(0:ℝ)].length = 1 := rfl
    rw [this]
    simp [RQWhole.eNV, h1]
  · simp [RQWhole.eNV, h2, b0, b1]

/-- the floor index is faithful: with two bins the input `3/4` is in bin 1 (a model reading `floor` through a constant
    `toFloat` would select bin 0) -/
theorem idxF_example : idxF 2 (3/4 : ℝ) = 1 := by
  rw [idxF_eq_min (by norm_num)]
  have : ⌊(3/4 : ℝ) * ((2:ℕ) : ℝ)⌋₊ = 1 := by
    rw [Nat.floor_eq_iff (by norm_num)]
    norm_num
  rw [this]
  rfl

end
end LinWhole
