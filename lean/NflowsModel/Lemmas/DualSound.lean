import NflowsModel.Core.Expr
import Mathlib.Analysis.SpecialFunctions.Log.Deriv
import Mathlib.Analysis.SpecialFunctions.Sqrt
import Mathlib.Analysis.SpecialFunctions.ExpDeriv
import Mathlib.Tactic

namespace DualSound


noncomputable section
open Classical in
def realOps : Ops ℝ where
  ofRat n d := (n : ℝ) / (d : ℝ)
  add := (· + ·); sub := (· - ·); mul := (· * ·); div := (· / ·); neg := (- ·)
  exp := Real.exp; log := Real.log; sqrt := Real.sqrt
  lt a b := decide (a < b)

abbrev evalR := evalG realOps
abbrev evalD := evalG (dualOps realOps)

/-- side condition "away from the kinks and inside every open domain" -/
def Smooth (env : Nat → ℝ) : Expr → Prop
  | .var _ => True
  | .lit _ _ => True
  | .add a b => Smooth env a ∧ Smooth env b
  | .sub a b => Smooth env a ∧ Smooth env b
  | .mul a b => Smooth env a ∧ Smooth env b
  | .div a b => Smooth env a ∧ Smooth env b ∧ evalR env b ≠ 0
  | .neg a => Smooth env a
  | .exp a => Smooth env a
  | .log a => Smooth env a ∧ evalR env a ≠ 0
  | .sqrt a => Smooth env a ∧ evalR env a ≠ 0
  | .ifLt a b t e => Smooth env a ∧ Smooth env b ∧ evalR env a ≠ evalR env b ∧
      (evalR env a < evalR env b → Smooth env t) ∧ (¬ evalR env a < evalR env b → Smooth env e)

def line (env dir : Nat → ℝ) (t : ℝ) : Nat → ℝ := fun i => env i + t * dir i

theorem line_zero (env dir : Nat → ℝ) : line env dir 0 = env := by
  funext i; simp [line]

@[simp] theorem evalR_add (env) (a b : Expr) : evalR env (.add a b) = evalR env a + evalR env b := rfl
@[simp] theorem evalR_sub (env) (a b : Expr) : evalR env (.sub a b) = evalR env a - evalR env b := rfl
@[simp] theorem evalR_mul (env) (a b : Expr) : evalR env (.mul a b) = evalR env a * evalR env b := rfl
@[simp] theorem evalR_div (env) (a b : Expr) : evalR env (.div a b) = evalR env a / evalR env b := rfl
@[simp] theorem evalR_neg (env) (a : Expr) : evalR env (.neg a) = - evalR env a := rfl
@[simp] theorem evalR_exp (env) (a : Expr) : evalR env (.exp a) = Real.exp (evalR env a) := rfl
@[simp] theorem evalR_log (env) (a : Expr) : evalR env (.log a) = Real.log (evalR env a) := rfl
@[simp] theorem evalR_sqrt (env) (a : Expr) : evalR env (.sqrt a) = Real.sqrt (evalR env a) := rfl
@[simp] theorem evalR_var (env) (i : Nat) : evalR env (.var i) = env i := rfl
@[simp] theorem evalR_lit (env) (n : Int) (d : Nat) : evalR env (.lit n d) = (n:ℝ)/(d:ℝ) := rfl
theorem realOps_lt (x y : ℝ) : realOps.lt x y = decide (x < y) := rfl
theorem dualOps_lt (x y : ℝ × ℝ) : (dualOps realOps).lt x y = decide (x.1 < y.1) := rfl
theorem evalG_ifLt {α} (o : Ops α) (env) (a b t e : Expr) :
    evalG o env (.ifLt a b t e) = if o.lt (evalG o env a) (evalG o env b) = true then evalG o env t else evalG o env e := rfl
theorem evalR_ifLt (env) (a b t e : Expr) :
    evalR env (.ifLt a b t e) = if evalR env a < evalR env b then evalR env t else evalR env e := by
  unfold evalR; rw [evalG_ifLt, realOps_lt]
  by_cases h : evalG realOps env a < evalG realOps env b
  · rw [if_pos h, if_pos (by simpa using h)]
  · rw [if_neg h, if_neg (by simpa using h)]

@[simp] theorem evalD_add (env) (a b : Expr) : evalD env (.add a b) = ((evalD env a).1 + (evalD env b).1, (evalD env a).2 + (evalD env b).2) := rfl
@[simp] theorem evalD_sub (env) (a b : Expr) : evalD env (.sub a b) = ((evalD env a).1 - (evalD env b).1, (evalD env a).2 - (evalD env b).2) := rfl
@[simp] theorem evalD_mul (env) (a b : Expr) : evalD env (.mul a b) = ((evalD env a).1 * (evalD env b).1, (evalD env a).2 * (evalD env b).1 + (evalD env a).1 * (evalD env b).2) := rfl
@[simp] theorem evalD_div (env) (a b : Expr) : evalD env (.div a b) = ((evalD env a).1 / (evalD env b).1, ((evalD env a).2 * (evalD env b).1 - (evalD env a).1 * (evalD env b).2) / ((evalD env b).1 * (evalD env b).1)) := rfl
@[simp] theorem evalD_neg (env) (a : Expr) : evalD env (.neg a) = (-(evalD env a).1, -(evalD env a).2) := rfl
@[simp] theorem evalD_exp (env) (a : Expr) : evalD env (.exp a) = (Real.exp (evalD env a).1, (evalD env a).2 * Real.exp (evalD env a).1) := rfl
@[simp] theorem evalD_log (env) (a : Expr) : evalD env (.log a) = (Real.log (evalD env a).1, (evalD env a).2 / (evalD env a).1) := rfl
@[simp] theorem evalD_sqrt (env) (a : Expr) : evalD env (.sqrt a) = (Real.sqrt (evalD env a).1, (evalD env a).2 / (((2:ℤ):ℝ)/((1:ℕ):ℝ) * Real.sqrt (evalD env a).1)) := rfl
@[simp] theorem evalD_var (env : Nat → ℝ × ℝ) (i : Nat) : evalD env (.var i) = env i := rfl
@[simp] theorem evalD_lit (env) (n : Int) (d : Nat) : evalD env (.lit n d) = ((n:ℝ)/(d:ℝ), ((0:ℤ):ℝ)/((1:ℕ):ℝ)) := rfl
theorem evalD_ifLt (env) (a b t e : Expr) :
    evalD env (.ifLt a b t e) = if (evalD env a).1 < (evalD env b).1 then evalD env t else evalD env e := by
  unfold evalD; rw [evalG_ifLt, dualOps_lt]
  by_cases h : (evalG (dualOps realOps) env a).1 < (evalG (dualOps realOps) env b).1
  · rw [if_pos h, if_pos (by simpa using h)]
  · rw [if_neg h, if_neg (by simpa using h)]

/-- Soundness of forward-mode AD over `Expr`: value component agrees with `evalR`, tangent component
    is the derivative of `evalR` along the seeded direction. -/
theorem evalDual_sound (env dir : Nat → ℝ) (e : Expr) (hs : Smooth env e) :
    (evalD (fun i => (env i, dir i)) e).1 = evalR env e ∧
    HasDerivAt (fun t => evalR (line env dir t) e) (evalD (fun i => (env i, dir i)) e).2 0 := by
  induction e with
  | var i =>
    refine ⟨rfl, ?_⟩
    simp only [evalR_var, evalD_var, line]
    simpa using ((hasDerivAt_id (0:ℝ)).mul_const (dir i)).const_add (env i)
  | lit n d =>
    refine ⟨rfl, ?_⟩
    simp only [evalR_lit, evalD_lit]
    simpa using hasDerivAt_const (0:ℝ) ((n:ℝ)/(d:ℝ))
  | add a b iha ihb =>
    obtain ⟨ha, hb⟩ := hs
    obtain ⟨va, da⟩ := iha ha; obtain ⟨vb, db⟩ := ihb hb
    simp only [evalR_add, evalD_add]
    exact ⟨by rw [va, vb], da.add db⟩
  | sub a b iha ihb =>
    obtain ⟨ha, hb⟩ := hs
    obtain ⟨va, da⟩ := iha ha; obtain ⟨vb, db⟩ := ihb hb
    simp only [evalR_sub, evalD_sub]
    exact ⟨by rw [va, vb], da.sub db⟩
  | mul a b iha ihb =>
    obtain ⟨ha, hb⟩ := hs
    obtain ⟨va, da⟩ := iha ha; obtain ⟨vb, db⟩ := ihb hb
    simp only [evalR_mul, evalD_mul]
    refine ⟨by rw [va, vb], ?_⟩
    have := da.mul db
    simp only [line_zero] at this
    rw [va, vb]; exact this
  | div a b iha ihb =>
    obtain ⟨ha, hb, hne⟩ := hs
    obtain ⟨va, da⟩ := iha ha; obtain ⟨vb, db⟩ := ihb hb
    simp only [evalR_div, evalD_div]
    refine ⟨by rw [va, vb], ?_⟩
    have := da.div db (by simpa [line_zero] using hne)
    simp only [line_zero] at this
    rw [va, vb]
    exact this.congr_deriv (by rw [sq])
  | neg a iha =>
    obtain ⟨va, da⟩ := iha hs
    simp only [evalR_neg, evalD_neg]
    exact ⟨by rw [va], da.neg⟩
  | exp a iha =>
    obtain ⟨va, da⟩ := iha hs
    simp only [evalR_exp, evalD_exp]
    refine ⟨by rw [va], ?_⟩
    have := da.exp
    simp only [line_zero] at this
    rw [va, mul_comm]; exact this
  | log a iha =>
    obtain ⟨ha, hne⟩ := hs
    obtain ⟨va, da⟩ := iha ha
    simp only [evalR_log, evalD_log]
    refine ⟨by rw [va], ?_⟩
    have := da.log (by simpa [line_zero] using hne)
    simp only [line_zero] at this
    rw [va]; exact this
  | sqrt a iha =>
    obtain ⟨ha, hne⟩ := hs
    obtain ⟨va, da⟩ := iha ha
    simp only [evalR_sqrt, evalD_sqrt]
    refine ⟨by rw [va], ?_⟩
    have := da.sqrt (by simpa [line_zero] using hne)
    simp only [line_zero] at this
    rw [va]
    exact this.congr_deriv (by norm_num)
  | ifLt a b t e iha ihb iht ihe =>
    obtain ⟨ha, hb, hne, hst, hse⟩ := hs
    obtain ⟨va, da⟩ := iha ha; obtain ⟨vb, db⟩ := ihb hb
    rw [evalR_ifLt, evalD_ifLt, va, vb]
    -- the guard is locally constant around t = 0
    have hca : ContinuousAt (fun t => evalR (line env dir t) a) 0 := da.continuousAt
    have hcb : ContinuousAt (fun t => evalR (line env dir t) b) 0 := db.continuousAt
    by_cases hlt : evalR env a < evalR env b
    · obtain ⟨vt, dt⟩ := iht (hst hlt)
      simp only [hlt, if_true]
      refine ⟨vt, dt.congr_of_eventuallyEq ?_⟩
      have h0 : evalR (line env dir 0) a < evalR (line env dir 0) b := by simpa [line_zero] using hlt
      have := (hca.prodMk hcb).eventually (isOpen_lt continuous_fst continuous_snd |>.mem_nhds h0)
      filter_upwards [this] with s hs'
      rw [evalR_ifLt]; simp only [if_pos hs']
    · obtain ⟨ve, de⟩ := ihe (hse hlt)
      simp only [hlt, if_false]
      refine ⟨ve, de.congr_of_eventuallyEq ?_⟩
      have hgt : evalR env b < evalR env a := lt_of_le_of_ne (not_lt.mp hlt) (Ne.symm hne)
      have h0 : evalR (line env dir 0) b < evalR (line env dir 0) a := by simpa [line_zero] using hgt
      have := (hcb.prodMk hca).eventually (isOpen_lt continuous_fst continuous_snd |>.mem_nhds h0)
      filter_upwards [this] with s hs'
      rw [evalR_ifLt]; simp only [if_neg (not_lt.mpr hs'.le)]
end


end DualSound
