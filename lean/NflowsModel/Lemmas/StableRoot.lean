import Mathlib.Analysis.SpecialFunctions.Sqrt
import Mathlib.Tactic

namespace StableRoot


/-- abstract quadratic with q(0) ≤ 0 ≤ q(1): the "stable" root 2c/(-b-√disc) lies in [0,1] and is a root. -/
theorem stable_root {a b c : ℝ} (h0 : c ≤ 0) (h1 : 0 ≤ a + b + c) (hb : c = 0 → 0 < b) :
    let D := Real.sqrt (b^2 - 4*a*c)
    let θ := 2*c / (-b - D)
    0 ≤ b^2 - 4*a*c ∧ 0 < b + D ∧ 0 ≤ θ ∧ θ ≤ 1 ∧ a*θ^2 + b*θ + c = 0 := by
  intro D θ
  have hdisc : 0 ≤ b^2 - 4*a*c := by nlinarith [sq_nonneg (b + 2*c), mul_nonneg (neg_nonneg.mpr h0) h1]
  have hD0 : 0 ≤ D := Real.sqrt_nonneg _
  have hD2 : D^2 = b^2 - 4*a*c := Real.sq_sqrt hdisc
  have ht : 0 < b + D := by
    rcases eq_or_lt_of_le h0 with hc | hc
    · have := hb hc; linarith
    · by_cases ha : 0 < a
      · by_contra hcon
        have hle : D ≤ -b := by linarith
        have : D^2 ≤ b^2 := by nlinarith
        nlinarith
      · have ha' : a ≤ 0 := le_of_not_gt ha
        have : 0 < b := by nlinarith
        linarith
  have hθ : θ = -2*c / (b + D) := by
    simp only [θ]
    rw [show -b - D = -(b + D) by ring, div_neg, neg_mul, neg_div]
  refine ⟨hdisc, ht, ?_, ?_, ?_⟩
  · rw [hθ]; apply div_nonneg <;> linarith
  · rw [hθ, div_le_one ht]
    by_cases hs : 0 ≤ b + 2*c
    · linarith
    · have hs' : b + 2*c < 0 := lt_of_not_ge hs
      have : (b + 2*c)^2 ≤ D^2 := by rw [hD2]; nlinarith [mul_nonneg (neg_nonneg.mpr h0) h1]
      nlinarith [abs_le_of_sq_le_sq' this hD0]
  · rw [hθ]
    have hne : b + D ≠ 0 := ht.ne'
    field_simp
    nlinarith [hD2]


end StableRoot
