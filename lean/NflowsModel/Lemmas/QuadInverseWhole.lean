import NflowsModel.Lemmas.QuadWhole
import NflowsModel.Lemmas.RQInverseWhole
import NflowsModel.Lemmas.StableRoot
import Mathlib.Topology.Order.MonotoneContinuity
import Mathlib.Analysis.Calculus.Deriv.Inverse
/-!
# Lemmas/QuadInverseWhole — the EXECUTED piecewise-quadratic spline, INVERSE direction, as a whole program over the reals

`quadSpline (NF.realX e) c uw uh true y` is the list program the driver runs at `Float`/`Float32`, instantiated at ℝ:
guards, `y' = (y − bottom)/(top − bottom)`, floored softmax, `softplus + 1e-3`, (tails shape: padding of the heights),
trapezium areas, floor of the heights, cumsum, pinned last knots, search over the **cdf knots** `blc`, gathers, the
numerically stable root `α = 2c/(−b − √(b² − 4ac))`, `out = clamp 0 1 (α·w + loc)`, `ld = −log(α(hr − hl) + hl)`,
rescaling to `[left, right]`, `− boxLog`.  The forward program is the subject of `Lemmas/QuadWhole.lean`; everything
here reuses its lists (`Wq`, `Uq`/`Ut`, `hts`, `ars`, `blc`, `locs`) and its `CoreValid` layer, so both shapes of `uh`
(bounded `QuadValid`, tails `QuadValidT`) are two instantiations of the same generic statements.

The program is split as guards → `padU` (the same padding step as the forward program) → `quadRestI`
(`quadSpline_splitI`, any scalar type, by unfolding only).  For every accepted configuration the file proves, about
the program itself:

* **C17** `exec_eq_bin`, `exec_ok` (`_T`): for every `y ∈ [bottom, top]` the program returns a value, the inverse
  closed form of the bin its search selected; `root_welldefined` (`_T`): there the radicand `b² − 4ac` is `≥ 0`, the
  denominator `−b − √…` is `< 0` (non-zero), the root is in `[0,1]` and the final clamp is the identity.  Bins with
  equal edge heights (`hl = hr`, `a = 0`, finding F2) are NOT excluded; `alphaN_flat` gives the value there
  (`(s − lcdf)/(hl·w)`), `example_flat_bin` shows the accepted example configuration is such a bin.
  `outside_domain`: outside `[bottom, top]` the program raises `outsideDomain`.
* **C02** `val_inv`, `inv_val`, `invLd_eq_neg_ld`, `ld_eq_neg_invLd` (`_T`): round trips in both orders against the
  executed forward program `QuadWhole.val`, and the negated log-abs-det on the whole closed box, knots included
  (`idx_inv`: the forward search at `inv y` selects the bin the inverse search selected at `y`).  No hypothesis on
  `boxLog`: the forward adds and the inverse subtracts the same constant `e (boxLog box)`.
* **C09** `inv_strictMonoOn`, `inv_endpoints`, `inv_mapsTo`, `inv_image`, `inv_bijOn`, `inv_knot` (`_T`).
* **C01** `inv_hasDerivAt`, `inv_hasDerivAt_y` (`_T`): strictly between two consecutive cdf knots the derivative of the
  executed inverse is `exp` of the log-abs-det the inverse program returns (here `boxLog` must be read as the real log).
-/
open NF DualSound

namespace QuadInverseWhole
open QuadWhole
noncomputable section
variable (e : Float → ℝ)

/-! ### the inverse program after the (optional) tails padding of the unnormalised heights -/

/-- the text of `quadSpline … true` from `area` on, as a function of the widths, the (padded) unnormalised heights and
    the normalised input `y'` -/
def quadRestI {α : Type} (o : XOps α) (c : QCfg) (widths uhe : List α) (y' : α) : Except Err (α × α) := do
  let area := sumG o (List.zipWith o.mul (pairMeans o uhe) widths)
  let heights := uhe.map (fun u => o.add (o.ofFloat c.minH) (o.mul (o.ofFloat (1 - c.minH)) (o.div u area)))
  let blc := cumsumG o (List.zipWith o.mul (pairMeans o heights) widths)
  let blc := o.zero :: setLast blc o.one
  let locs := o.zero :: setLast (cumsumG o widths) o.one
  let idx := searchsortedG o c.eps blc y'
  let loc ← getI locs idx
  let w ← getI widths idx
  let lcdf ← getI blc idx
  let hl ← getI heights idx
  let hr ← getI heights (idx + 1)
  let env := [y', loc, w, lcdf, hl, hr]
  let bl := o.ofFloat (boxLog c.box)
  let al := evalX o env quadInvAlphaE
  let out := o.clamp o.zero o.one (o.add (o.mul al w) loc)
  let ld := o.neg (o.log (o.add (o.mul al (o.sub hr hl)) hl))
  return (o.add (o.mul out (o.ofFloat (c.box.right - c.box.left))) (o.ofFloat c.box.left), o.sub ld bl)

/-- `quadSpline … true` = guards, then the padding step (the SAME `padU` as the forward program), then `quadRestI`
    on the normalised input (any scalar type, by unfolding only) -/
theorem quadSpline_splitI {α : Type} (o : XOps α) (c : QCfg) (uw uh : List α) (y : α)
    (hg : (o.lt y (o.ofFloat c.box.bottom) || o.lt (o.ofFloat c.box.top) y) = false)
    (hgW : ¬ (c.minW * uw.length.toFloat > 1.0)) (hgH : ¬ (c.minH * uw.length.toFloat > 1.0)) :
    quadSpline o c uw uh true y
      = (padU o (flooredSoftmax o c.minW uw) (uh.map (fun u => o.add (o.softplus u) (o.ofFloat 1e-3))) uw.length) >>= fun U =>
        quadRestI o c (flooredSoftmax o c.minW uw) U
          (o.div (o.sub y (o.ofFloat c.box.bottom)) (o.ofFloat (c.box.top - c.box.bottom))) := by
  unfold quadSpline quadRestI padU cstOf
  simp only [if_true, hg, hgW, hgH, Bool.false_eq_true, if_false]

/-! ### search over the cdf knots `blc`, and the per-bin closed forms of the inverse (normalised coordinates) -/

/-- the bin index the executed search over the cdf knots returns on the normalised input `s` -/
def idxB (c : QCfg) (Wd U : List ℝ) (s : ℝ) : ℕ := (searchsortedG (NF.realX e) c.eps (blc e c Wd U) s).toNat

/-- the executed root term of bin `k` (relative position in the bin) -/
def alphaN (c : QCfg) (Wd U : List ℝ) (k : ℕ) (s : ℝ) : ℝ := evalR (envN e c Wd U k s) quadInvAlphaE
/-- the radicand `b² − 4ac` the executed root term takes the square root of -/
def radN (c : QCfg) (Wd U : List ℝ) (k : ℕ) (s : ℝ) : ℝ :=
  (ht e c Wd U k * wd Wd k) ^ 2 - 4 * ((1/2 : ℝ) * (ht e c Wd U (k+1) - ht e c Wd U k) * wd Wd k) * (bl e c Wd U k - s)
/-- closed forms of bin `k` in the inverse direction, normalised coordinates: output (before the clamp) and log-abs-det -/
def binInvN (c : QCfg) (Wd U : List ℝ) (k : ℕ) (s : ℝ) : ℝ := alphaN e c Wd U k s * wd Wd k + lc e Wd k
def binInvLdN (c : QCfg) (Wd U : List ℝ) (k : ℕ) (s : ℝ) : ℝ :=
  - Real.log (alphaN e c Wd U k s * (ht e c Wd U (k+1) - ht e c Wd U k) + ht e c Wd U k)

variable {e}
variable {c : QCfg} {Wd U : List ℝ}

/-- the executed root term is the stable root `2c / (−b − √(b² − 4ac))`, `a = ½(hr − hl)w`, `b = hl·w`, `c = lcdf − s` -/
theorem alphaN_eq (k : ℕ) (s : ℝ) :
    alphaN e c Wd U k s
      = 2 * (bl e c Wd U k - s) / (-(ht e c Wd U k * wd Wd k) - Real.sqrt (radN e c Wd U k s)) := by
  unfold alphaN envN radN
  rw [Bridge.quadInvAlphaE_eq]

/-- the executed search over the cdf knots meets the search specification -/
theorem search_specB (hv : CoreValid e c Wd U) :
    ExecGlue.SearchSpec (bl e c Wd U) Wd.length (idxB e c Wd U) ∧
    ∀ t, 0 ≤ t → t ≤ 1 → searchsortedG (NF.realX e) c.eps (blc e c Wd U) t = ((idxB e c Wd U t : ℕ) : Int) := by
  obtain ⟨hlen, hhead, hlast, hp⟩ := blc_facts hv
  obtain ⟨init, hsplit⟩ : ∃ init, blc e c Wd U = init ++ [1] := by
    rcases List.getLast?_eq_some_iff.mp hlast with ⟨ys, hys⟩
    exact ⟨ys, hys⟩
  have hinitlen : init.length = Wd.length := by
    have := congrArg List.length hsplit; simp [hlen] at this; omega
  have hK0 : 0 < Wd.length := List.length_pos_of_ne_nil hv.hK
  have hinithead : init.head? = some 0 := by
    cases init with
    | nil => simp at hinitlen; omega
    | cons a t => rw [hsplit] at hhead; simpa using hhead
  have hb : (1:ℝ) < NF.TU.bumpedLast (NF.realX e) c.eps 1 := by
    simp only [NF.TU.bumpedLast, XOps.maxA, NF.realX_add, NF.realX_ofFloat, NF.realX_lt]
    have : (NF.realX e).nextUp (1:ℝ) = 1 := rfl
    rw [this]
    have hnot : ¬ (1 + e c.eps < 1) := by linarith [hv.heps]
    simp only [hnot, decide_false, Bool.false_eq_true, if_false]
    linarith [hv.heps]
  have key : ∀ t, 0 ≤ t → t ≤ 1 →
      ∃ i : ℕ, searchsortedG (NF.realX e) c.eps (blc e c Wd U) t = (i : Int) ∧ i < Wd.length ∧
        bl e c Wd U i ≤ t ∧ (t < bl e c Wd U (i+1) ∨ (i + 1 = Wd.length ∧ t = 1)) := by
    intro t ht0 ht1
    obtain ⟨i, hi, hiK, lo, hi', hlo, hhi, hle, hr⟩ :=
      Properties.C20.searchsorted_spec (NF.realX e) (SplineTotal.realX_ordered' e) c.eps init 1 t
        (by rw [← hsplit]; exact hp) hb 0 hinithead ht0 ht1
    rw [← hsplit] at hi hlo hhi
    rw [hinitlen] at hiK hr
    refine ⟨i, hi, hiK, ?_, ?_⟩
    · have : bl e c Wd U i = lo := by
        unfold bl; rw [List.getD_eq_getElem?_getD, hlo]; rfl
      rw [this]; exact hle
    · have : bl e c Wd U (i+1) = hi' := by
        unfold bl; rw [List.getD_eq_getElem?_getD, hhi]; rfl
      rw [this]; exact hr
  constructor
  · intro t ht0 ht1
    rw [bl_zero hv] at ht0
    rw [bl_last hv] at ht1
    obtain ⟨i, hi, hiK, hle, hr⟩ := key t ht0 ht1
    have hidx : idxB e c Wd U t = i := by unfold idxB; rw [hi]; rfl
    rw [hidx, bl_last hv]
    exact ⟨hiK, hle, hr⟩
  · intro t ht0 ht1
    obtain ⟨i, hi, _⟩ := key t ht0 ht1
    have hidx : idxB e c Wd U t = i := by unfold idxB; rw [hi]; rfl
    rw [hidx, hi]

/-- where the searched cdf-bin sits relative to `s` -/
theorem selB (hv : CoreValid e c Wd U) (s : ℝ) (hs0 : 0 ≤ s) (hs1 : s ≤ 1) :
    idxB e c Wd U s < Wd.length ∧ bl e c Wd U (idxB e c Wd U s) ≤ s ∧ s ≤ bl e c Wd U (idxB e c Wd U s + 1) ∧
    (s < bl e c Wd U (idxB e c Wd U s + 1) ∨ (idxB e c Wd U s + 1 = Wd.length ∧ s = 1)) := by
  obtain ⟨hspec, _⟩ := search_specB hv
  obtain ⟨hiK, hle, hr⟩ := hspec s (by rw [bl_zero hv]; exact hs0) (by rw [bl_last hv]; exact hs1)
  rw [bl_last hv] at hr
  refine ⟨hiK, hle, ?_, hr⟩
  rcases hr with hr | ⟨hK, hst⟩
  · exact hr.le
  · rw [hK, bl_last hv]; exact hs1

/-- **per-bin facts about the executed inverse terms** for `s` in the closed cdf-bin `k`: the radicand is non-negative,
    the denominator `−b − √rad` is strictly negative (in particular non-zero), the root lies in `[0,1]`, and the executed
    forward closed form of bin `k` maps the output back to `s`.  No case split on `hl = hr`: where the two edge heights
    of the bin are equal (`a = 0`, finding F2 for the textbook root `(−b + √rad)/(2a)`), all five statements hold as
    they are — see `alphaN_flat` for the value. -/
theorem bin_factsI (hv : CoreValid e c Wd U) (k : ℕ) (hk : k < Wd.length) (s : ℝ)
    (hs0 : bl e c Wd U k ≤ s) (hs1 : s ≤ bl e c Wd U (k+1)) :
    0 ≤ radN e c Wd U k s ∧
    -(ht e c Wd U k * wd Wd k) - Real.sqrt (radN e c Wd U k s) < 0 ∧
    0 ≤ alphaN e c Wd U k s ∧ alphaN e c Wd U k s ≤ 1 ∧
    binN e c Wd U k (binInvN e c Wd U k s) = s := by
  have hw := wd_pos hv k hk
  have h0 := ht_pos hv k (by omega)
  have h1 := ht_pos hv (k+1) (by omega)
  have hstep := bl_step hv k hk
  have hc : bl e c Wd U k - s ≤ 0 := by linarith
  have hsum : 0 ≤ (1/2 : ℝ) * (ht e c Wd U (k+1) - ht e c Wd U k) * wd Wd k + ht e c Wd U k * wd Wd k
      + (bl e c Wd U k - s) := by
    rw [hstep] at hs1; nlinarith
  have hb : bl e c Wd U k - s = 0 → 0 < ht e c Wd U k * wd Wd k := fun _ => mul_pos h0 hw
  obtain ⟨hrad, hden, ha0, ha1, hroot⟩ := StableRoot.stable_root hc hsum hb
  have hα : alphaN e c Wd U k s = _ := alphaN_eq (e := e) (c := c) (Wd := Wd) (U := U) k s
  unfold radN at hα ⊢
  rw [← hα] at ha0 ha1 hroot
  refine ⟨hrad, by linarith, ha0, ha1, ?_⟩
  rw [binN_eq]
  unfold binInvN
  have : (alphaN e c Wd U k s * wd Wd k + lc e Wd k - lc e Wd k) / wd Wd k = alphaN e c Wd U k s := by
    rw [add_sub_cancel_right]; exact mul_div_cancel_right₀ _ hw.ne'
  rw [this]
  unfold Quad.cdf
  have h5 : (0.5 : ℝ) = 1/2 := by norm_num
  rw [h5]; linarith

/-- **bins with equal edge heights** (`hl = hr`, so `a = 0`): the radicand is `b²`, and the executed stable root is the
    linear solution `(s − lcdf)/(hl·w)` — well defined, no `0/0` (the textbook root `(−b+√rad)/(2a)` the Python code
    used before the repair is `0/0` here: `Quad.inverse_counterexample`, finding F2) -/
theorem alphaN_flat (hv : CoreValid e c Wd U) (k : ℕ) (hk : k < Wd.length) (s : ℝ)
    (hflat : ht e c Wd U k = ht e c Wd U (k+1)) :
    radN e c Wd U k s = (ht e c Wd U k * wd Wd k) ^ 2 ∧
    alphaN e c Wd U k s = (s - bl e c Wd U k) / (ht e c Wd U k * wd Wd k) := by
  have hw := wd_pos hv k hk
  have h0 := ht_pos hv k (by omega)
  have hb : 0 < ht e c Wd U k * wd Wd k := mul_pos h0 hw
  have hr : radN e c Wd U k s = (ht e c Wd U k * wd Wd k) ^ 2 := by
    unfold radN; rw [← hflat]; ring
  refine ⟨hr, ?_⟩
  rw [alphaN_eq, hr, Real.sqrt_sq hb.le]
  field_simp
  ring

/-- the output of bin `k` lies in the closed location-bin `k`, hence in `[0,1]`: **the clamp is the identity** -/
theorem binInv_mem (hv : CoreValid e c Wd U) (k : ℕ) (hk : k < Wd.length) (s : ℝ)
    (hs0 : bl e c Wd U k ≤ s) (hs1 : s ≤ bl e c Wd U (k+1)) :
    binInvN e c Wd U k s ∈ Set.Icc (lc e Wd k) (lc e Wd (k+1)) ∧ 0 ≤ binInvN e c Wd U k s ∧ binInvN e c Wd U k s ≤ 1 := by
  obtain ⟨_, _, ha0, ha1, _⟩ := bin_factsI hv k hk s hs0 hs1
  have hw := wd_pos hv k hk
  have hstep := lc_step hv k hk
  have hmono := ExecGlue.knots_mono (lc e Wd) Wd.length (lc_strict hv)
  have hl0 : 0 ≤ lc e Wd k := by rw [← lc_zero hv]; exact hmono 0 k (Nat.zero_le _) hk.le
  have hl1 : lc e Wd (k+1) ≤ 1 := by rw [← lc_last hv]; exact hmono (k+1) Wd.length hk le_rfl
  have h1 : lc e Wd k ≤ binInvN e c Wd U k s := by unfold binInvN; nlinarith [mul_nonneg ha0 hw.le]
  have h2 : binInvN e c Wd U k s ≤ lc e Wd (k+1) := by
    unfold binInvN; rw [hstep]; nlinarith [mul_le_of_le_one_left hw.le ha1]
  exact ⟨⟨h1, h2⟩, by linarith, by linarith⟩

/-- **the second stage of the inverse program returns the inverse closed form of the searched bin** (no clamp: its
    argument is in `[0,1]`; no error) -/
theorem restI_eq_bin (hv : CoreValid e c Wd U) (hdlr : e (c.box.right - c.box.left) = e c.box.right - e c.box.left)
    (s : ℝ) (hs0 : 0 ≤ s) (hs1 : s ≤ 1) :
    quadRestI (NF.realX e) c Wd U s
      = .ok (binInvN e c Wd U (idxB e c Wd U s) s * (e c.box.right - e c.box.left) + e c.box.left,
             binInvLdN e c Wd U (idxB e c Wd U s) s - e (boxLog c.box)) := by
  obtain ⟨_, hsearch⟩ := search_specB hv
  obtain ⟨hiK, hle, hle1, _⟩ := selB hv s hs0 hs1
  set i := idxB e c Wd U s with hi
  obtain ⟨_, hu0, hu1⟩ := binInv_mem hv i hiK s hle hle1
  have hloclen := (locs_facts hv).1
  have hblclen := (blc_facts hv).1
  have hhtslen := hts_length hv
  have hi1 : ((i : Int) + 1) = ((i + 1 : ℕ) : Int) := by push_cast; rfl
  have h1 : (NF.realX e).zero :: setLast (cumsumG (NF.realX e) Wd) (NF.realX e).one = locs e Wd := rfl
  have h2 : sumG (NF.realX e) (List.zipWith (NF.realX e).mul (pairMeans (NF.realX e) U) Wd) = area e Wd U := rfl
  have h3 : U.map (fun u => (NF.realX e).add ((NF.realX e).ofFloat c.minH)
      ((NF.realX e).mul ((NF.realX e).ofFloat (1 - c.minH)) ((NF.realX e).div u (area e Wd U)))) = hts e c Wd U := rfl
  have h4 : (NF.realX e).zero :: setLast (cumsumG (NF.realX e)
      (List.zipWith (NF.realX e).mul (pairMeans (NF.realX e) (hts e c Wd U)) Wd)) (NF.realX e).one = blc e c Wd U := rfl
  unfold quadRestI
  simp only [h1, h2, h3, h4, hsearch s hs0 hs1]
  rw [SplineTotal.getI_ok (locs e Wd) i (by omega), SplineTotal.getI_ok Wd i hiK,
    SplineTotal.getI_ok (blc e c Wd U) i (by omega), SplineTotal.getI_ok (hts e c Wd U) i (by omega),
    hi1, SplineTotal.getI_ok (hts e c Wd U) (i+1) (by omega)]
  simp only [getElem_eq_getD, evalX_eq_evalR, bind, Except.bind, pure, Except.pure]
  have hal : evalR (envOf [s, (locs e Wd).getD i 0, Wd.getD i 0, (blc e c Wd U).getD i 0, (hts e c Wd U).getD i 0,
      (hts e c Wd U).getD (i+1) 0] 0) quadInvAlphaE = alphaN e c Wd U i s := rfl
  rw [hal]
  have hout : (NF.realX e).add ((NF.realX e).mul (alphaN e c Wd U i s) (Wd.getD i 0)) ((locs e Wd).getD i 0)
      = binInvN e c Wd U i s := rfl
  rw [hout, clamp01_id e _ hu0 hu1]
  simp only [NF.realX_add, NF.realX_mul, NF.realX_sub, NF.realX_neg, NF.realX_log, NF.realX_ofFloat, hdlr]
  rfl


/-! ### the whole normalised inverse `GI : [0,1] → [0,1]` (search a cdf-bin, evaluate its inverse closed form) against
the whole normalised forward cdf `QuadWhole.GN` -/

variable (e)
def GI (c : QCfg) (Wd U : List ℝ) (s : ℝ) : ℝ := binInvN e c Wd U (idxB e c Wd U s) s
def LdI (c : QCfg) (Wd U : List ℝ) (s : ℝ) : ℝ := binInvLdN e c Wd U (idxB e c Wd U s) s
variable {e}

theorem GN_eqOn_bin (hv : CoreValid e c Wd U) (k : ℕ) (hk : k < Wd.length) :
    Set.EqOn (GN e c Wd U) (binN e c Wd U k) (Set.Icc (lc e Wd k) (lc e Wd (k+1))) :=
  ExecGlue.eqOn_bin (lc e Wd) Wd.length (binN e c Wd U) (GN e c Wd U) (idxN e c Wd)
    (lc_strict hv) (QuadWhole.search_spec hv).1 (GN_hF c Wd U) (bin_join hv) k hk

theorem GN_mapsTo (hv : CoreValid e c Wd U) : Set.MapsTo (GN e c Wd U) (Set.Icc 0 1) (Set.Icc 0 1) := by
  intro t ht
  have hm := (GN_strictMonoOn hv).monotoneOn
  obtain ⟨h0, h1⟩ := GN_endpoints hv
  have z0 : (0:ℝ) ∈ Set.Icc (0:ℝ) 1 := ⟨le_rfl, zero_le_one⟩
  have z1 : (1:ℝ) ∈ Set.Icc (0:ℝ) 1 := ⟨zero_le_one, le_rfl⟩
  constructor
  · rw [← h0]; exact hm z0 ht ht.1
  · rw [← h1]; exact hm ht z1 ht.2

/-- the output lies in the closed location-bin with the index of the searched cdf-bin -/
theorem GI_mem_bin (hv : CoreValid e c Wd U) (s : ℝ) (hs0 : 0 ≤ s) (hs1 : s ≤ 1) :
    GI e c Wd U s ∈ Set.Icc (lc e Wd (idxB e c Wd U s)) (lc e Wd (idxB e c Wd U s + 1)) := by
  obtain ⟨hiK, hle, hle1, _⟩ := selB hv s hs0 hs1
  exact (binInv_mem hv _ hiK s hle hle1).1

theorem GI_mapsTo (hv : CoreValid e c Wd U) : Set.MapsTo (GI e c Wd U) (Set.Icc 0 1) (Set.Icc 0 1) := by
  intro s hs
  obtain ⟨hiK, hle, hle1, _⟩ := selB hv s hs.1 hs.2
  obtain ⟨_, h0, h1⟩ := binInv_mem hv _ hiK s hle hle1
  exact ⟨h0, h1⟩

/-- forward ∘ inverse = id on `[0,1]`, normalised coordinates, whole functions -/
theorem GN_GI (hv : CoreValid e c Wd U) (s : ℝ) (hs0 : 0 ≤ s) (hs1 : s ≤ 1) : GN e c Wd U (GI e c Wd U s) = s := by
  obtain ⟨hiK, hle, hle1, _⟩ := selB hv s hs0 hs1
  rw [GN_eqOn_bin hv _ hiK (GI_mem_bin hv s hs0 hs1)]
  exact (bin_factsI hv _ hiK s hle hle1).2.2.2.2

/-- inverse ∘ forward = id on `[0,1]`, normalised coordinates, whole functions -/
theorem GI_GN (hv : CoreValid e c Wd U) (t : ℝ) (ht0 : 0 ≤ t) (ht1 : t ≤ 1) : GI e c Wd U (GN e c Wd U t) = t := by
  have hm := GN_mapsTo hv ⟨ht0, ht1⟩
  have hin := GI_mapsTo hv hm
  exact (GN_strictMonoOn hv).injOn hin ⟨ht0, ht1⟩ (GN_GI hv _ hm.1 hm.2)

/-- the normalised programs send knot to knot -/
theorem GN_knot (hv : CoreValid e c Wd U) (j : ℕ) (hj : j ≤ Wd.length) : GN e c Wd U (lc e Wd j) = bl e c Wd U j := by
  rcases Nat.lt_or_eq_of_le hj with hlt | heq
  · rw [GN_eqOn_bin hv j hlt ⟨le_rfl, (lc_strict hv j hlt).le⟩]
    exact (bin_endpoints hv j hlt).1
  · rw [heq, lc_last hv, bl_last hv]; exact (GN_endpoints hv).2

/-- **the two searches agree**: the bin the forward search (over the location knots) selects at `GI s` is the bin the
    inverse search (over the cdf knots) selected at `s` — for EVERY `s ∈ [0,1]`, knots and both ends included -/
theorem idxN_GI (hv : CoreValid e c Wd U) (s : ℝ) (hs0 : 0 ≤ s) (hs1 : s ≤ 1) :
    idxN e c Wd (GI e c Wd U s) = idxB e c Wd U s := by
  obtain ⟨hiK, hle, hle1, hr⟩ := selB hv s hs0 hs1
  obtain ⟨h0, h1⟩ := GI_mem_bin hv s hs0 hs1
  apply RQInverseWhole.idx_unique (lc e Wd) Wd.length (idxN e c Wd) (lc_strict hv) (QuadWhole.search_spec hv).1 _ hiK _ h0
  rcases lt_or_eq_of_le h1 with hlt | heq
  · exact Or.inl hlt
  · right
    have hs : s = bl e c Wd U (idxB e c Wd U s + 1) := by
      have := GN_GI hv s hs0 hs1
      rw [heq, GN_knot hv _ hiK] at this
      exact this.symm
    rcases hr with hr | ⟨hK, _⟩
    · linarith
    · exact ⟨hK, by rw [heq, hK]⟩

theorem idxB_GN (hv : CoreValid e c Wd U) (t : ℝ) (ht0 : 0 ≤ t) (ht1 : t ≤ 1) :
    idxB e c Wd U (GN e c Wd U t) = idxN e c Wd t := by
  have hm := GN_mapsTo hv ⟨ht0, ht1⟩
  rw [← idxN_GI hv _ hm.1 hm.2, GI_GN hv t ht0 ht1]

/-- log-density law in normalised coordinates, on the whole of `[0,1]` -/
theorem LdI_eq_neg_LdN (hv : CoreValid e c Wd U) (s : ℝ) (hs0 : 0 ≤ s) (hs1 : s ≤ 1) :
    LdI e c Wd U s = - LdN e c Wd U (GI e c Wd U s) := by
  obtain ⟨hiK, _, _, _⟩ := selB hv s hs0 hs1
  have hw := wd_pos hv _ hiK
  unfold LdN
  rw [idxN_GI hv s hs0 hs1, binLdN_eq]
  unfold LdI binInvLdN GI binInvN Quad.pdf
  have : (alphaN e c Wd U (idxB e c Wd U s) s * wd Wd (idxB e c Wd U s) + lc e Wd (idxB e c Wd U s)
      - lc e Wd (idxB e c Wd U s)) / wd Wd (idxB e c Wd U s) = alphaN e c Wd U (idxB e c Wd U s) s := by
    rw [add_sub_cancel_right]; exact mul_div_cancel_right₀ _ hw.ne'
  rw [this]

/-! ### from normalised coordinates to the box: any pair of programs that are `quadRest` / `quadRestI` on the
normalised input -/

variable (e)
/-- the normalised input the inverse program forms -/
def ny (c : QCfg) (y : ℝ) : ℝ := (y - e c.box.bottom) / (e c.box.top - e c.box.bottom)
variable {e}

theorem ny_mem (hb : BoxValid e c) (y : ℝ) (hy0 : e c.box.bottom ≤ y) (hy1 : y ≤ e c.box.top) :
    0 ≤ ny e c y ∧ ny e c y ≤ 1 := by
  have hD : 0 < e c.box.top - e c.box.bottom := sub_pos.mpr hb.hbt
  unfold ny
  exact ⟨div_nonneg (by linarith) hD.le, by rw [div_le_one hD]; linarith⟩

section generic
variable {P Q : ℝ → Except Err (ℝ × ℝ)}

/-- `Q` runs the second stage of the inverse program on widths `Wd`, unnormalised heights `U` and the normalised input -/
def RunsRestI (e : Float → ℝ) (c : QCfg) (Wd U : List ℝ) (Q : ℝ → Except Err (ℝ × ℝ)) : Prop :=
  ∀ y, e c.box.bottom ≤ y → y ≤ e c.box.top → Q y = quadRestI (NF.realX e) c Wd U (ny e c y)

theorem gen_execI (hv : CoreValid e c Wd U) (hb : BoxValid e c) (hQ : RunsRestI e c Wd U Q)
    (y : ℝ) (hy0 : e c.box.bottom ≤ y) (hy1 : y ≤ e c.box.top) :
    Q y = .ok (GI e c Wd U (ny e c y) * (e c.box.right - e c.box.left) + e c.box.left,
               LdI e c Wd U (ny e c y) - e (boxLog c.box)) := by
  obtain ⟨h0, h1⟩ := ny_mem hb y hy0 hy1
  rw [hQ y hy0 hy1, restI_eq_bin hv hb.hdlr _ h0 h1]
  rfl

theorem gen_valI (hv : CoreValid e c Wd U) (hb : BoxValid e c) (hQ : RunsRestI e c Wd U Q)
    (y : ℝ) (hy0 : e c.box.bottom ≤ y) (hy1 : y ≤ e c.box.top) :
    valOf (Q y) = GI e c Wd U (ny e c y) * (e c.box.right - e c.box.left) + e c.box.left := by
  rw [gen_execI hv hb hQ y hy0 hy1]; rfl

theorem gen_ldI (hv : CoreValid e c Wd U) (hb : BoxValid e c) (hQ : RunsRestI e c Wd U Q)
    (y : ℝ) (hy0 : e c.box.bottom ≤ y) (hy1 : y ≤ e c.box.top) :
    ldOf (Q y) = LdI e c Wd U (ny e c y) - e (boxLog c.box) := by
  rw [gen_execI hv hb hQ y hy0 hy1]; rfl

theorem gen_inv_mapsTo (hv : CoreValid e c Wd U) (hb : BoxValid e c) (hQ : RunsRestI e c Wd U Q) :
    Set.MapsTo (fun y => valOf (Q y)) (Set.Icc (e c.box.bottom) (e c.box.top)) (Set.Icc (e c.box.left) (e c.box.right)) := by
  intro y hy
  obtain ⟨h0, h1⟩ := ny_mem hb y hy.1 hy.2
  obtain ⟨g0, g1⟩ := GI_mapsTo hv ⟨h0, h1⟩
  have hD : 0 < e c.box.right - e c.box.left := sub_pos.mpr hb.hlr
  show valOf (Q y) ∈ _
  rw [gen_valI hv hb hQ y hy.1 hy.2]
  constructor
  · nlinarith
  · nlinarith

/-- the forward program's normalised input at the inverse program's output is the normalised inverse value -/
theorem nx_valI (hv : CoreValid e c Wd U) (hb : BoxValid e c) (hQ : RunsRestI e c Wd U Q)
    (y : ℝ) (hy0 : e c.box.bottom ≤ y) (hy1 : y ≤ e c.box.top) :
    nx e c (valOf (Q y)) = GI e c Wd U (ny e c y) := by
  have hD : 0 < e c.box.right - e c.box.left := sub_pos.mpr hb.hlr
  rw [gen_valI hv hb hQ y hy0 hy1]
  unfold nx
  rw [add_sub_cancel_right]
  exact mul_div_cancel_right₀ _ hD.ne'

/-- **forward ∘ inverse = id on `[bottom, top]`** -/
theorem gen_val_inv (hv : CoreValid e c Wd U) (hb : BoxValid e c) (hP : RunsRest e c Wd U P) (hQ : RunsRestI e c Wd U Q)
    (y : ℝ) (hy0 : e c.box.bottom ≤ y) (hy1 : y ≤ e c.box.top) :
    valOf (P (valOf (Q y))) = y := by
  obtain ⟨h0, h1⟩ := ny_mem hb y hy0 hy1
  have hm := gen_inv_mapsTo hv hb hQ ⟨hy0, hy1⟩
  have hT : 0 < e c.box.top - e c.box.bottom := sub_pos.mpr hb.hbt
  rw [gen_val hv hb hP _ hm.1 hm.2, nx_valI hv hb hQ y hy0 hy1, GN_GI hv _ h0 h1]
  unfold ny
  field_simp
  ring

/-- **inverse ∘ forward = id on `[left, right]`** -/
theorem gen_inv_val (hv : CoreValid e c Wd U) (hb : BoxValid e c) (hP : RunsRest e c Wd U P) (hQ : RunsRestI e c Wd U Q)
    (x : ℝ) (hx0 : e c.box.left ≤ x) (hx1 : x ≤ e c.box.right) :
    valOf (Q (valOf (P x))) = x := by
  have hm := gen_mapsTo hv hb hP ⟨hx0, hx1⟩
  have hin := gen_inv_mapsTo hv hb hQ hm
  exact (gen_strictMonoOn hv hb hP).injOn hin ⟨hx0, hx1⟩ (gen_val_inv hv hb hP hQ _ hm.1 hm.2)

/-- **log-abs-det law on the whole closed box**: both programs use the same constant `e (boxLog box)` (added by the
    forward, subtracted by the inverse), so nothing about its value is needed -/
theorem gen_invLd (hv : CoreValid e c Wd U) (hb : BoxValid e c) (hP : RunsRest e c Wd U P) (hQ : RunsRestI e c Wd U Q)
    (y : ℝ) (hy0 : e c.box.bottom ≤ y) (hy1 : y ≤ e c.box.top) :
    ldOf (Q y) = - ldOf (P (valOf (Q y))) := by
  obtain ⟨h0, h1⟩ := ny_mem hb y hy0 hy1
  have hm := gen_inv_mapsTo hv hb hQ ⟨hy0, hy1⟩
  rw [gen_ldI hv hb hQ y hy0 hy1, gen_ld hv hb hP _ hm.1 hm.2, nx_valI hv hb hQ y hy0 hy1, LdI_eq_neg_LdN hv _ h0 h1]
  ring

theorem gen_inv_strictMonoOn (hv : CoreValid e c Wd U) (hb : BoxValid e c) (hP : RunsRest e c Wd U P)
    (hQ : RunsRestI e c Wd U Q) :
    StrictMonoOn (fun y => valOf (Q y)) (Set.Icc (e c.box.bottom) (e c.box.top)) := by
  intro a ha b hb' hab
  by_contra hnot
  have hle : valOf (Q b) ≤ valOf (Q a) := not_lt.mp hnot
  have := (gen_strictMonoOn hv hb hP).monotoneOn (gen_inv_mapsTo hv hb hQ hb') (gen_inv_mapsTo hv hb hQ ha) hle
  simp only [gen_val_inv hv hb hP hQ a ha.1 ha.2, gen_val_inv hv hb hP hQ b hb'.1 hb'.2] at this
  linarith

theorem gen_inv_endpoints (hv : CoreValid e c Wd U) (hb : BoxValid e c) (hP : RunsRest e c Wd U P)
    (hQ : RunsRestI e c Wd U Q) :
    valOf (Q (e c.box.bottom)) = e c.box.left ∧ valOf (Q (e c.box.top)) = e c.box.right := by
  obtain ⟨hl, hr⟩ := gen_endpoints hv hb hP
  constructor
  · rw [← hl]; exact gen_inv_val hv hb hP hQ _ le_rfl hb.hlr.le
  · rw [← hr]; exact gen_inv_val hv hb hP hQ _ hb.hlr.le le_rfl

theorem gen_inv_image (hv : CoreValid e c Wd U) (hb : BoxValid e c) (hP : RunsRest e c Wd U P)
    (hQ : RunsRestI e c Wd U Q) :
    (fun y => valOf (Q y)) '' Set.Icc (e c.box.bottom) (e c.box.top) = Set.Icc (e c.box.left) (e c.box.right) := by
  apply Set.Subset.antisymm
  · rintro _ ⟨y, hy, rfl⟩; exact gen_inv_mapsTo hv hb hQ hy
  · intro x hx
    exact ⟨valOf (P x), gen_mapsTo hv hb hP hx, gen_inv_val hv hb hP hQ x hx.1 hx.2⟩

end generic


/-! ### derivative of the inverse inside the open cdf-bins -/

/-- strictly inside the cdf-bin `k` the normalised inverse lands strictly inside the location-bin `k` -/
theorem GI_open_bin (hv : CoreValid e c Wd U) (k : ℕ) (hk : k < Wd.length) (s : ℝ)
    (h0 : bl e c Wd U k < s) (h1 : s < bl e c Wd U (k+1)) :
    lc e Wd k < GI e c Wd U s ∧ GI e c Wd U s < lc e Wd (k+1) := by
  have hmono := ExecGlue.knots_mono (bl e c Wd U) Wd.length (bl_strict hv)
  have hs0 : 0 ≤ s := by
    have := hmono 0 k (Nat.zero_le _) hk.le; rw [bl_zero hv] at this; linarith
  have hs1 : s ≤ 1 := by
    have := hmono (k+1) Wd.length hk le_rfl; rw [bl_last hv] at this; linarith
  have hidx : idxB e c Wd U s = k :=
    RQInverseWhole.idx_unique (bl e c Wd U) Wd.length (idxB e c Wd U) (bl_strict hv) (search_specB hv).1 k hk s h0.le
      (Or.inl h1)
  obtain ⟨g0, g1⟩ := GI_mem_bin hv s hs0 hs1
  rw [hidx] at g0 g1
  have hG := GN_GI hv s hs0 hs1
  constructor
  · rcases lt_or_eq_of_le g0 with h | h
    · exact h
    · exfalso; rw [← h, GN_knot hv k hk.le] at hG; linarith
  · rcases lt_or_eq_of_le g1 with h | h
    · exact h
    · exfalso; rw [h, GN_knot hv (k+1) hk] at hG; linarith

section genericDeriv
variable {P Q : ℝ → Except Err (ℝ × ℝ)}

theorem gen_inv_continuousAt (hv : CoreValid e c Wd U) (hb : BoxValid e c) (hP : RunsRest e c Wd U P)
    (hQ : RunsRestI e c Wd U Q) (y : ℝ) (hy0 : e c.box.bottom < y) (hy1 : y < e c.box.top) :
    ContinuousAt (fun y => valOf (Q y)) y := by
  have hsm := gen_inv_strictMonoOn hv hb hP hQ
  obtain ⟨hl, hr⟩ := gen_inv_endpoints hv hb hP hQ
  have hbt := hb.hbt.le
  have h0 : e c.box.left < valOf (Q y) := by
    rw [← hl]; exact hsm ⟨le_rfl, hbt⟩ ⟨hy0.le, hy1.le⟩ hy0
  have h1 : valOf (Q y) < e c.box.right := by
    rw [← hr]; exact hsm ⟨hy0.le, hy1.le⟩ ⟨hbt, le_rfl⟩ hy1
  apply continuousAt_of_monotoneOn_of_image_mem_nhds hsm.monotoneOn (Icc_mem_nhds hy0 hy1)
  rw [gen_inv_image hv hb hP hQ]
  exact Icc_mem_nhds h0 h1

theorem gen_inv_hasDerivAt (hv : CoreValid e c Wd U) (hb : BoxValid e c) (hP : RunsRest e c Wd U P)
    (hQ : RunsRestI e c Wd U Q)
    (hbl : e (boxLog c.box) = Real.log ((e c.box.top - e c.box.bottom) / (e c.box.right - e c.box.left)))
    (k : ℕ) (hk : k < Wd.length) (y : ℝ) (h0 : bl e c Wd U k < ny e c y) (h1 : ny e c y < bl e c Wd U (k+1)) :
    HasDerivAt (fun y => valOf (Q y)) (Real.exp (ldOf (Q y))) y := by
  have hmono := ExecGlue.knots_mono (bl e c Wd U) Wd.length (bl_strict hv)
  have hT : 0 < e c.box.top - e c.box.bottom := sub_pos.mpr hb.hbt
  have hn0 : 0 < ny e c y := by
    have := hmono 0 k (Nat.zero_le _) hk.le; rw [bl_zero hv] at this; linarith
  have hn1 : ny e c y < 1 := by
    have := hmono (k+1) Wd.length hk le_rfl; rw [bl_last hv] at this; linarith
  have hy0 : e c.box.bottom < y := by
    unfold ny at hn0; rw [lt_div_iff₀ hT] at hn0; linarith
  have hy1 : y < e c.box.top := by
    unfold ny at hn1; rw [div_lt_one hT] at hn1; linarith
  obtain ⟨g0, g1⟩ := GI_open_bin hv k hk _ h0 h1
  rw [← nx_valI hv hb hQ y hy0.le hy1.le] at g0 g1
  have hf := gen_hasDerivAt hv hb hP hbl k hk (valOf (Q y)) g0 g1
  have hfg : ∀ᶠ z in nhds y, (fun x => valOf (P x)) ((fun y => valOf (Q y)) z) = z :=
    Filter.eventually_of_mem (Icc_mem_nhds hy0 hy1) (fun z hz => gen_val_inv hv hb hP hQ z hz.1 hz.2)
  have := HasDerivAt.of_local_left_inverse (gen_inv_continuousAt hv hb hP hQ y hy0 hy1) hf (Real.exp_pos _).ne' hfg
  rw [gen_invLd hv hb hP hQ y hy0.le hy1.le, Real.exp_neg]
  exact this

end genericDeriv

/-! ### the executed program `quadSpline … true`, bounded case -/

variable (e)
/-- what the inverse program returns (0 on the error branch, which `exec_eq_bin` shows is not taken in the domain) -/
def inv (c : QCfg) (uw uh : List ℝ) (y : ℝ) : ℝ := valOf (quadSpline (NF.realX e) c uw uh true y)
def invLd (c : QCfg) (uw uh : List ℝ) (y : ℝ) : ℝ := ldOf (quadSpline (NF.realX e) c uw uh true y)
variable {e}
variable {uw uh : List ℝ}

theorem guardI (y : ℝ) (hy0 : e c.box.bottom ≤ y) (hy1 : y ≤ e c.box.top) :
    ((NF.realX e).lt y ((NF.realX e).ofFloat c.box.bottom) || (NF.realX e).lt ((NF.realX e).ofFloat c.box.top) y) = false := by
  simp only [NF.realX_lt, NF.realX_ofFloat, Bool.or_eq_false_iff, decide_eq_false_iff_not, not_lt]
  exact ⟨hy0, hy1⟩

theorem runsRestI_of_valid (hv : QuadValid e c uw uh) :
    RunsRestI e c (Wq e c uw) (Uq e uh) (quadSpline (NF.realX e) c uw uh true) := by
  intro y hy0 hy1
  have h1 : flooredSoftmax (NF.realX e) c.minW uw = Wq e c uw := rfl
  have h2 : uh.map (fun u => (NF.realX e).add ((NF.realX e).softplus u) ((NF.realX e).ofFloat 1e-3)) = Uq e uh := rfl
  have hb : ((Uq e uh).length + 1 == uw.length) = false := by
    rw [Uq_length, hv.hlenh]; simp only [beq_eq_false_iff_ne, ne_eq]; omega
  have hpad : padU (NF.realX e) (Wq e c uw) (Uq e uh) uw.length = .ok (Uq e uh) := by
    unfold padU; simp only [hb]; rfl
  rw [quadSpline_splitI (NF.realX e) c uw uh y (guardI y hy0 hy1) hv.hgW hv.hgH, h1, h2, hpad]
  simp only [NF.realX_div, NF.realX_sub, NF.realX_ofFloat, hv.hbox.hdbt]
  rfl

theorem runsRestI_of_validT (hv : QuadValidT e c uw uh) :
    RunsRestI e c (Wq e c uw) (Ut e c uw uh) (quadSpline (NF.realX e) c uw uh true) := by
  intro y hy0 hy1
  have h1 : flooredSoftmax (NF.realX e) c.minW uw = Wq e c uw := rfl
  have h2 : uh.map (fun u => (NF.realX e).add ((NF.realX e).softplus u) ((NF.realX e).ofFloat 1e-3)) = Uq e uh := rfl
  rw [quadSpline_splitI (NF.realX e) c uw uh y (guardI y hy0 hy1) hv.hgW hv.hgH, h1, h2, padU_tails hv]
  simp only [NF.realX_div, NF.realX_sub, NF.realX_ofFloat, hv.hbox.hdbt]
  rfl


/-- root term well defined at the searched bin, for every normalised input of the domain -/
theorem root_facts (hv : CoreValid e c Wd U) (s : ℝ) (hs0 : 0 ≤ s) (hs1 : s ≤ 1) :
    idxB e c Wd U s < Wd.length ∧
    0 ≤ radN e c Wd U (idxB e c Wd U s) s ∧
    -(ht e c Wd U (idxB e c Wd U s) * wd Wd (idxB e c Wd U s)) - Real.sqrt (radN e c Wd U (idxB e c Wd U s) s) < 0 ∧
    0 ≤ alphaN e c Wd U (idxB e c Wd U s) s ∧ alphaN e c Wd U (idxB e c Wd U s) s ≤ 1 ∧
    (NF.realX e).clamp (NF.realX e).zero (NF.realX e).one (binInvN e c Wd U (idxB e c Wd U s) s)
      = binInvN e c Wd U (idxB e c Wd U s) s := by
  obtain ⟨hiK, hle, hle1, _⟩ := selB hv s hs0 hs1
  obtain ⟨hr, hd, ha0, ha1, _⟩ := bin_factsI hv _ hiK s hle hle1
  obtain ⟨_, hu0, hu1⟩ := binInv_mem hv _ hiK s hle hle1
  exact ⟨hiK, hr, hd, ha0, ha1, clamp01_id e _ hu0 hu1⟩

/-! #### bounded shape (`uh` has `K+1` entries, `QuadWhole.QuadValid`) -/

/-- **C17, totality + closed form (inverse, bounded)**: for every `y ∈ [bottom, top]` the executed inverse program
    returns a value, and it is the inverse closed form of the bin the executed search over the cdf knots selected
    (rescaled to the box; log-det minus the box term) -/
theorem exec_eq_bin (hv : QuadValid e c uw uh) (y : ℝ) (hy0 : e c.box.bottom ≤ y) (hy1 : y ≤ e c.box.top) :
    quadSpline (NF.realX e) c uw uh true y
      = .ok (binInvN e c (Wq e c uw) (Uq e uh) (idxB e c (Wq e c uw) (Uq e uh) (ny e c y)) (ny e c y)
                * (e c.box.right - e c.box.left) + e c.box.left,
             binInvLdN e c (Wq e c uw) (Uq e uh) (idxB e c (Wq e c uw) (Uq e uh) (ny e c y)) (ny e c y)
                - e (boxLog c.box)) :=
  gen_execI (core_of_valid hv) hv.hbox (runsRestI_of_valid hv) y hy0 hy1

/-- **C17**: the program returns `.ok (inv y, invLd y)` on the whole domain (no `outsideDomain`, `valueError`, index error) -/
theorem exec_ok (hv : QuadValid e c uw uh) (y : ℝ) (hy0 : e c.box.bottom ≤ y) (hy1 : y ≤ e c.box.top) :
    quadSpline (NF.realX e) c uw uh true y = .ok (inv e c uw uh y, invLd e c uw uh y) := by
  unfold inv invLd; rw [exec_eq_bin hv y hy0 hy1]; rfl

/-- **C17 (the root is well defined on the whole domain, bounded)**: at the bin the search selected the radicand
    `b² − 4ac` is non-negative, the denominator `−b − √(b² − 4ac)` is strictly negative (so non-zero), the root is in
    `[0,1]`, and the final clamp to `[0,1]` is the identity.  Bins with equal edge heights (`a = 0`) are NOT excluded. -/
theorem root_welldefined (hv : QuadValid e c uw uh) (y : ℝ) (hy0 : e c.box.bottom ≤ y) (hy1 : y ≤ e c.box.top) :
    idxB e c (Wq e c uw) (Uq e uh) (ny e c y) < uw.length ∧
    0 ≤ radN e c (Wq e c uw) (Uq e uh) (idxB e c (Wq e c uw) (Uq e uh) (ny e c y)) (ny e c y) ∧
    -(ht e c (Wq e c uw) (Uq e uh) (idxB e c (Wq e c uw) (Uq e uh) (ny e c y))
        * wd (Wq e c uw) (idxB e c (Wq e c uw) (Uq e uh) (ny e c y)))
      - Real.sqrt (radN e c (Wq e c uw) (Uq e uh) (idxB e c (Wq e c uw) (Uq e uh) (ny e c y)) (ny e c y)) < 0 ∧
    0 ≤ alphaN e c (Wq e c uw) (Uq e uh) (idxB e c (Wq e c uw) (Uq e uh) (ny e c y)) (ny e c y) ∧
    alphaN e c (Wq e c uw) (Uq e uh) (idxB e c (Wq e c uw) (Uq e uh) (ny e c y)) (ny e c y) ≤ 1 ∧
    (NF.realX e).clamp (NF.realX e).zero (NF.realX e).one
        (binInvN e c (Wq e c uw) (Uq e uh) (idxB e c (Wq e c uw) (Uq e uh) (ny e c y)) (ny e c y))
      = binInvN e c (Wq e c uw) (Uq e uh) (idxB e c (Wq e c uw) (Uq e uh) (ny e c y)) (ny e c y) := by
  obtain ⟨h0, h1⟩ := ny_mem hv.hbox y hy0 hy1
  have := root_facts (core_of_valid hv) (ny e c y) h0 h1
  rw [Wq_length] at this
  exact this

/-- **C02, forward ∘ inverse = id on `[bottom, top]`, end to end** -/
theorem val_inv (hv : QuadValid e c uw uh) (y : ℝ) (hy0 : e c.box.bottom ≤ y) (hy1 : y ≤ e c.box.top) :
    val e c uw uh (inv e c uw uh y) = y :=
  gen_val_inv (core_of_valid hv) hv.hbox (runsRest_of_valid hv) (runsRestI_of_valid hv) y hy0 hy1

/-- **C02, inverse ∘ forward = id on `[left, right]`, end to end** -/
theorem inv_val (hv : QuadValid e c uw uh) (x : ℝ) (hx0 : e c.box.left ≤ x) (hx1 : x ≤ e c.box.right) :
    inv e c uw uh (val e c uw uh x) = x :=
  gen_inv_val (core_of_valid hv) hv.hbox (runsRest_of_valid hv) (runsRestI_of_valid hv) x hx0 hx1

/-- **C02, log-abs-det law on the whole closed box** (knots included; no hypothesis on `boxLog`) -/
theorem invLd_eq_neg_ld (hv : QuadValid e c uw uh) (y : ℝ) (hy0 : e c.box.bottom ≤ y) (hy1 : y ≤ e c.box.top) :
    invLd e c uw uh y = - ld e c uw uh (inv e c uw uh y) :=
  gen_invLd (core_of_valid hv) hv.hbox (runsRest_of_valid hv) (runsRestI_of_valid hv) y hy0 hy1

theorem inv_mapsTo (hv : QuadValid e c uw uh) :
    Set.MapsTo (inv e c uw uh) (Set.Icc (e c.box.bottom) (e c.box.top)) (Set.Icc (e c.box.left) (e c.box.right)) :=
  gen_inv_mapsTo (core_of_valid hv) hv.hbox (runsRestI_of_valid hv)

/-- the same law read from the forward side -/
theorem ld_eq_neg_invLd (hv : QuadValid e c uw uh) (x : ℝ) (hx0 : e c.box.left ≤ x) (hx1 : x ≤ e c.box.right) :
    ld e c uw uh x = - invLd e c uw uh (val e c uw uh x) := by
  have hm := val_mapsTo hv ⟨hx0, hx1⟩
  rw [invLd_eq_neg_ld hv _ hm.1 hm.2, inv_val hv x hx0 hx1, neg_neg]

/-- **the two searches agree**: the location-bin the forward search selects at `inv y` is the cdf-bin the inverse search
    selected at `y`, for every `y ∈ [bottom, top]` (interior knots and both ends included) -/
theorem idx_inv (hv : QuadValid e c uw uh) (y : ℝ) (hy0 : e c.box.bottom ≤ y) (hy1 : y ≤ e c.box.top) :
    idxN e c (Wq e c uw) (nx e c (inv e c uw uh y)) = idxB e c (Wq e c uw) (Uq e uh) (ny e c y) := by
  obtain ⟨h0, h1⟩ := ny_mem hv.hbox y hy0 hy1
  unfold inv
  rw [nx_valI (core_of_valid hv) hv.hbox (runsRestI_of_valid hv) y hy0 hy1, idxN_GI (core_of_valid hv) _ h0 h1]

/-- **C09 (inverse)**: strictly increasing on `[bottom, top]` -/
theorem inv_strictMonoOn (hv : QuadValid e c uw uh) :
    StrictMonoOn (inv e c uw uh) (Set.Icc (e c.box.bottom) (e c.box.top)) :=
  gen_inv_strictMonoOn (core_of_valid hv) hv.hbox (runsRest_of_valid hv) (runsRestI_of_valid hv)

/-- **C09 (inverse)**: `bottom ↦ left`, `top ↦ right`, exactly -/
theorem inv_endpoints (hv : QuadValid e c uw uh) :
    inv e c uw uh (e c.box.bottom) = e c.box.left ∧ inv e c uw uh (e c.box.top) = e c.box.right :=
  gen_inv_endpoints (core_of_valid hv) hv.hbox (runsRest_of_valid hv) (runsRestI_of_valid hv)

/-- **C09 (inverse)**: the image of `[bottom, top]` is exactly `[left, right]` -/
theorem inv_image (hv : QuadValid e c uw uh) :
    inv e c uw uh '' Set.Icc (e c.box.bottom) (e c.box.top) = Set.Icc (e c.box.left) (e c.box.right) :=
  gen_inv_image (core_of_valid hv) hv.hbox (runsRest_of_valid hv) (runsRestI_of_valid hv)

theorem inv_bijOn (hv : QuadValid e c uw uh) :
    Set.BijOn (inv e c uw uh) (Set.Icc (e c.box.bottom) (e c.box.top)) (Set.Icc (e c.box.left) (e c.box.right)) :=
  ⟨inv_mapsTo hv, (inv_strictMonoOn hv).injOn, by rw [Set.SurjOn, inv_image hv]⟩

/-- **C01 (inverse)**: strictly inside every cdf-bin the derivative of the executed inverse is `exp` of the log-abs-det
    the inverse program returns (`hbl`: the `Float` constant `boxLog` is read as the real logarithm) -/
theorem inv_hasDerivAt (hv : QuadValid e c uw uh)
    (hbl : e (boxLog c.box) = Real.log ((e c.box.top - e c.box.bottom) / (e c.box.right - e c.box.left)))
    (k : ℕ) (hk : k < uw.length) (y : ℝ)
    (h0 : bl e c (Wq e c uw) (Uq e uh) k < ny e c y) (h1 : ny e c y < bl e c (Wq e c uw) (Uq e uh) (k+1)) :
    HasDerivAt (inv e c uw uh) (Real.exp (invLd e c uw uh y)) y :=
  gen_inv_hasDerivAt (core_of_valid hv) hv.hbox (runsRest_of_valid hv) (runsRestI_of_valid hv) hbl k
    (by rw [Wq_length]; exact hk) y h0 h1

/-! #### tails shape (`uh` has `K−1` entries, `QuadWhole.QuadValidT`): same statements on the padded heights `Ut` -/

theorem exec_eq_bin_T (hv : QuadValidT e c uw uh) (y : ℝ) (hy0 : e c.box.bottom ≤ y) (hy1 : y ≤ e c.box.top) :
    quadSpline (NF.realX e) c uw uh true y
      = .ok (binInvN e c (Wq e c uw) (Ut e c uw uh) (idxB e c (Wq e c uw) (Ut e c uw uh) (ny e c y)) (ny e c y)
                * (e c.box.right - e c.box.left) + e c.box.left,
             binInvLdN e c (Wq e c uw) (Ut e c uw uh) (idxB e c (Wq e c uw) (Ut e c uw uh) (ny e c y)) (ny e c y)
                - e (boxLog c.box)) :=
  gen_execI (core_of_validT hv) hv.hbox (runsRestI_of_validT hv) y hy0 hy1

theorem exec_ok_T (hv : QuadValidT e c uw uh) (y : ℝ) (hy0 : e c.box.bottom ≤ y) (hy1 : y ≤ e c.box.top) :
    quadSpline (NF.realX e) c uw uh true y = .ok (inv e c uw uh y, invLd e c uw uh y) := by
  unfold inv invLd; rw [exec_eq_bin_T hv y hy0 hy1]; rfl

theorem root_welldefined_T (hv : QuadValidT e c uw uh) (y : ℝ) (hy0 : e c.box.bottom ≤ y) (hy1 : y ≤ e c.box.top) :
    idxB e c (Wq e c uw) (Ut e c uw uh) (ny e c y) < uw.length ∧
    0 ≤ radN e c (Wq e c uw) (Ut e c uw uh) (idxB e c (Wq e c uw) (Ut e c uw uh) (ny e c y)) (ny e c y) ∧
    -(ht e c (Wq e c uw) (Ut e c uw uh) (idxB e c (Wq e c uw) (Ut e c uw uh) (ny e c y))
        * wd (Wq e c uw) (idxB e c (Wq e c uw) (Ut e c uw uh) (ny e c y)))
      - Real.sqrt (radN e c (Wq e c uw) (Ut e c uw uh) (idxB e c (Wq e c uw) (Ut e c uw uh) (ny e c y)) (ny e c y)) < 0 ∧
    0 ≤ alphaN e c (Wq e c uw) (Ut e c uw uh) (idxB e c (Wq e c uw) (Ut e c uw uh) (ny e c y)) (ny e c y) ∧
    alphaN e c (Wq e c uw) (Ut e c uw uh) (idxB e c (Wq e c uw) (Ut e c uw uh) (ny e c y)) (ny e c y) ≤ 1 ∧
    (NF.realX e).clamp (NF.realX e).zero (NF.realX e).one
        (binInvN e c (Wq e c uw) (Ut e c uw uh) (idxB e c (Wq e c uw) (Ut e c uw uh) (ny e c y)) (ny e c y))
      = binInvN e c (Wq e c uw) (Ut e c uw uh) (idxB e c (Wq e c uw) (Ut e c uw uh) (ny e c y)) (ny e c y) := by
  obtain ⟨h0, h1⟩ := ny_mem hv.hbox y hy0 hy1
  have := root_facts (core_of_validT hv) (ny e c y) h0 h1
  rw [Wq_length] at this
  exact this

theorem val_inv_T (hv : QuadValidT e c uw uh) (y : ℝ) (hy0 : e c.box.bottom ≤ y) (hy1 : y ≤ e c.box.top) :
    val e c uw uh (inv e c uw uh y) = y :=
  gen_val_inv (core_of_validT hv) hv.hbox (runsRest_of_validT hv) (runsRestI_of_validT hv) y hy0 hy1

theorem inv_val_T (hv : QuadValidT e c uw uh) (x : ℝ) (hx0 : e c.box.left ≤ x) (hx1 : x ≤ e c.box.right) :
    inv e c uw uh (val e c uw uh x) = x :=
  gen_inv_val (core_of_validT hv) hv.hbox (runsRest_of_validT hv) (runsRestI_of_validT hv) x hx0 hx1

theorem invLd_eq_neg_ld_T (hv : QuadValidT e c uw uh) (y : ℝ) (hy0 : e c.box.bottom ≤ y) (hy1 : y ≤ e c.box.top) :
    invLd e c uw uh y = - ld e c uw uh (inv e c uw uh y) :=
  gen_invLd (core_of_validT hv) hv.hbox (runsRest_of_validT hv) (runsRestI_of_validT hv) y hy0 hy1

theorem inv_mapsTo_T (hv : QuadValidT e c uw uh) :
    Set.MapsTo (inv e c uw uh) (Set.Icc (e c.box.bottom) (e c.box.top)) (Set.Icc (e c.box.left) (e c.box.right)) :=
  gen_inv_mapsTo (core_of_validT hv) hv.hbox (runsRestI_of_validT hv)

theorem ld_eq_neg_invLd_T (hv : QuadValidT e c uw uh) (x : ℝ) (hx0 : e c.box.left ≤ x) (hx1 : x ≤ e c.box.right) :
    ld e c uw uh x = - invLd e c uw uh (val e c uw uh x) := by
  have hm := val_mapsTo_T hv ⟨hx0, hx1⟩
  rw [invLd_eq_neg_ld_T hv _ hm.1 hm.2, inv_val_T hv x hx0 hx1, neg_neg]

theorem idx_inv_T (hv : QuadValidT e c uw uh) (y : ℝ) (hy0 : e c.box.bottom ≤ y) (hy1 : y ≤ e c.box.top) :
    idxN e c (Wq e c uw) (nx e c (inv e c uw uh y)) = idxB e c (Wq e c uw) (Ut e c uw uh) (ny e c y) := by
  obtain ⟨h0, h1⟩ := ny_mem hv.hbox y hy0 hy1
  unfold inv
  rw [nx_valI (core_of_validT hv) hv.hbox (runsRestI_of_validT hv) y hy0 hy1, idxN_GI (core_of_validT hv) _ h0 h1]

theorem inv_strictMonoOn_T (hv : QuadValidT e c uw uh) :
    StrictMonoOn (inv e c uw uh) (Set.Icc (e c.box.bottom) (e c.box.top)) :=
  gen_inv_strictMonoOn (core_of_validT hv) hv.hbox (runsRest_of_validT hv) (runsRestI_of_validT hv)

theorem inv_endpoints_T (hv : QuadValidT e c uw uh) :
    inv e c uw uh (e c.box.bottom) = e c.box.left ∧ inv e c uw uh (e c.box.top) = e c.box.right :=
  gen_inv_endpoints (core_of_validT hv) hv.hbox (runsRest_of_validT hv) (runsRestI_of_validT hv)

theorem inv_image_T (hv : QuadValidT e c uw uh) :
    inv e c uw uh '' Set.Icc (e c.box.bottom) (e c.box.top) = Set.Icc (e c.box.left) (e c.box.right) :=
  gen_inv_image (core_of_validT hv) hv.hbox (runsRest_of_validT hv) (runsRestI_of_validT hv)

theorem inv_bijOn_T (hv : QuadValidT e c uw uh) :
    Set.BijOn (inv e c uw uh) (Set.Icc (e c.box.bottom) (e c.box.top)) (Set.Icc (e c.box.left) (e c.box.right)) :=
  ⟨inv_mapsTo_T hv, (inv_strictMonoOn_T hv).injOn, by rw [Set.SurjOn, inv_image_T hv]⟩

theorem inv_hasDerivAt_T (hv : QuadValidT e c uw uh)
    (hbl : e (boxLog c.box) = Real.log ((e c.box.top - e c.box.bottom) / (e c.box.right - e c.box.left)))
    (k : ℕ) (hk : k < uw.length) (y : ℝ)
    (h0 : bl e c (Wq e c uw) (Ut e c uw uh) k < ny e c y) (h1 : ny e c y < bl e c (Wq e c uw) (Ut e c uw uh) (k+1)) :
    HasDerivAt (inv e c uw uh) (Real.exp (invLd e c uw uh y)) y :=
  gen_inv_hasDerivAt (core_of_validT hv) hv.hbox (runsRest_of_validT hv) (runsRestI_of_validT hv) hbl k
    (by rw [Wq_length]; exact hk) y h0 h1

/-! ### non-vacuity: the statements at the concrete accepted configurations of `QuadWhole` -/

private theorem b0 : ((0.0:Float) == 0.0) = true := by decide +kernel
private theorem b1 : ((1.0:Float) == 0.0) = false := by decide +kernel
private theorem t1 : ((1.0:Float) == 0.5) = false := by decide +kernel

theorem example_roundtrip (y : ℝ) (hy0 : 0 ≤ y) (hy1 : y ≤ 1) :
    quadSpline (NF.realX eNV) cNV [0] [0, 0] true y = .ok (inv eNV cNV [0] [0, 0] y, invLd eNV cNV [0] [0, 0] y) ∧
    val eNV cNV [0] [0, 0] (inv eNV cNV [0] [0, 0] y) = y ∧
    invLd eNV cNV [0] [0, 0] y = - ld eNV cNV [0] [0, 0] (inv eNV cNV [0] [0, 0] y) := by
  have hb : eNV cNV.box.bottom = 0 := by simp [eNV, cNV, b0]
  have ht : eNV cNV.box.top = 1 := by simp [eNV, cNV, b1]
  have h0 : eNV cNV.box.bottom ≤ y := by rw [hb]; exact hy0
  have h1 : y ≤ eNV cNV.box.top := by rw [ht]; exact hy1
  exact ⟨exec_ok valid_example y h0 h1, val_inv valid_example y h0 h1, invLd_eq_neg_ld valid_example y h0 h1⟩

theorem example_roundtrip_T (y : ℝ) (hy0 : 0 ≤ y) (hy1 : y ≤ 1) :
    quadSpline (NF.realX eT) cNV [0, 0] [0] true y = .ok (inv eT cNV [0, 0] [0] y, invLd eT cNV [0, 0] [0] y) ∧
    val eT cNV [0, 0] [0] (inv eT cNV [0, 0] [0] y) = y ∧
    invLd eT cNV [0, 0] [0] y = - ld eT cNV [0, 0] [0] (inv eT cNV [0, 0] [0] y) := by
  have hb : eT cNV.box.bottom = 0 := by simp [eT, cNV, b0]
  have ht : eT cNV.box.top = 1 := by simp [eT, cNV, b1, t1]
  have h0 : eT cNV.box.bottom ≤ y := by rw [hb]; exact hy0
  have h1 : y ≤ eT cNV.box.top := by rw [ht]; exact hy1
  exact ⟨exec_ok_T valid_example_T y h0 h1, val_inv_T valid_example_T y h0 h1, invLd_eq_neg_ld_T valid_example_T y h0 h1⟩


/-! ### the cdf knots in box coordinates: knot ↦ knot, derivative between two consecutive knots -/

variable (e)
/-- the `k`-th cdf knot in box coordinates (`y`-side) -/
def yk (c : QCfg) (Wd U : List ℝ) (k : ℕ) : ℝ := e c.box.bottom + (e c.box.top - e c.box.bottom) * bl e c Wd U k
variable {e}

theorem ny_bin_iff (hb : BoxValid e c) (Wd U : List ℝ) (k : ℕ) (y : ℝ) :
    (bl e c Wd U k < ny e c y ↔ yk e c Wd U k < y) ∧ (ny e c y < bl e c Wd U k ↔ y < yk e c Wd U k) := by
  have hD : 0 < e c.box.top - e c.box.bottom := sub_pos.mpr hb.hbt
  unfold ny yk
  rw [lt_div_iff₀ hD, div_lt_iff₀ hD]
  constructor <;> constructor <;> intro h <;> linarith

theorem GI_knot (hv : CoreValid e c Wd U) (j : ℕ) (hj : j ≤ Wd.length) : GI e c Wd U (bl e c Wd U j) = lc e Wd j := by
  have hmono := ExecGlue.knots_mono (lc e Wd) Wd.length (lc_strict hv)
  have h0 : 0 ≤ lc e Wd j := by rw [← lc_zero hv]; exact hmono 0 j (Nat.zero_le _) hj
  have h1 : lc e Wd j ≤ 1 := by rw [← lc_last hv]; exact hmono j Wd.length hj le_rfl
  rw [← GN_knot hv j hj]
  exact GI_GN hv _ h0 h1

theorem gen_inv_knot {Q : ℝ → Except Err (ℝ × ℝ)} (hv : CoreValid e c Wd U) (hb : BoxValid e c)
    (hQ : RunsRestI e c Wd U Q) (j : ℕ) (hj : j ≤ Wd.length) :
    valOf (Q (yk e c Wd U j)) = e c.box.left + (e c.box.right - e c.box.left) * lc e Wd j := by
  have hmono := ExecGlue.knots_mono (bl e c Wd U) Wd.length (bl_strict hv)
  have h0 : 0 ≤ bl e c Wd U j := by rw [← bl_zero hv]; exact hmono 0 j (Nat.zero_le _) hj
  have h1 : bl e c Wd U j ≤ 1 := by rw [← bl_last hv]; exact hmono j _ hj le_rfl
  have hT : 0 < e c.box.top - e c.box.bottom := sub_pos.mpr hb.hbt
  have hy0 : e c.box.bottom ≤ yk e c Wd U j := by unfold yk; nlinarith
  have hy1 : yk e c Wd U j ≤ e c.box.top := by unfold yk; nlinarith
  have hn : ny e c (yk e c Wd U j) = bl e c Wd U j := by
    unfold ny yk; rw [add_sub_cancel_left]; exact mul_div_cancel_left₀ _ hT.ne'
  rw [gen_valI hv hb hQ _ hy0 hy1, hn, GI_knot hv j hj]
  ring

/-- **the executed inverse sends the `j`-th cdf knot to the `j`-th location knot** -/
theorem inv_knot (hv : QuadValid e c uw uh) (j : ℕ) (hj : j ≤ uw.length) :
    inv e c uw uh (yk e c (Wq e c uw) (Uq e uh) j) = xk e c uw j :=
  gen_inv_knot (core_of_valid hv) hv.hbox (runsRestI_of_valid hv) j (by rw [Wq_length]; exact hj)

theorem inv_knot_T (hv : QuadValidT e c uw uh) (j : ℕ) (hj : j ≤ uw.length) :
    inv e c uw uh (yk e c (Wq e c uw) (Ut e c uw uh) j) = xk e c uw j :=
  gen_inv_knot (core_of_validT hv) hv.hbox (runsRestI_of_validT hv) j (by rw [Wq_length]; exact hj)

/-- **C01 (inverse) in box coordinates**: for `y` strictly between two consecutive cdf knots -/
theorem inv_hasDerivAt_y (hv : QuadValid e c uw uh)
    (hbl : e (boxLog c.box) = Real.log ((e c.box.top - e c.box.bottom) / (e c.box.right - e c.box.left)))
    (k : ℕ) (hk : k < uw.length) (y : ℝ)
    (h0 : yk e c (Wq e c uw) (Uq e uh) k < y) (h1 : y < yk e c (Wq e c uw) (Uq e uh) (k+1)) :
    HasDerivAt (inv e c uw uh) (Real.exp (invLd e c uw uh y)) y :=
  inv_hasDerivAt hv hbl k hk y ((ny_bin_iff hv.hbox _ _ k y).1.mpr h0) ((ny_bin_iff hv.hbox _ _ (k+1) y).2.mpr h1)

theorem inv_hasDerivAt_y_T (hv : QuadValidT e c uw uh)
    (hbl : e (boxLog c.box) = Real.log ((e c.box.top - e c.box.bottom) / (e c.box.right - e c.box.left)))
    (k : ℕ) (hk : k < uw.length) (y : ℝ)
    (h0 : yk e c (Wq e c uw) (Ut e c uw uh) k < y) (h1 : y < yk e c (Wq e c uw) (Ut e c uw uh) (k+1)) :
    HasDerivAt (inv e c uw uh) (Real.exp (invLd e c uw uh y)) y :=
  inv_hasDerivAt_T hv hbl k hk y ((ny_bin_iff hv.hbox _ _ k y).1.mpr h0) ((ny_bin_iff hv.hbox _ _ (k+1) y).2.mpr h1)

/-! ### outside the domain: the inverse program raises `InputOutsideDomain` (so `[bottom, top]` is exactly where it is total) -/

theorem outside_domain (c : QCfg) (uw uh : List ℝ) (y : ℝ) (hy : y < e c.box.bottom ∨ e c.box.top < y) :
    quadSpline (NF.realX e) c uw uh true y = .error .outsideDomain := by
  have hb : ((NF.realX e).lt y ((NF.realX e).ofFloat c.box.bottom) || (NF.realX e).lt ((NF.realX e).ofFloat c.box.top) y) = true := by
    simp only [NF.realX_lt, NF.realX_ofFloat, Bool.or_eq_true, decide_eq_true_eq]
    exact hy
  unfold quadSpline
  simp only [if_true, hb]
  rfl

/-! ### F2 made concrete: the accepted configuration `QuadWhole.valid_example` consists of ONE FLAT bin -/

/-- in `valid_example` (one bin, both height parameters 0) the two edge heights of the bin are equal, i.e. `a = 0`:
    exactly the situation in which the textbook root is `0/0`; `example_roundtrip` holds for it -/
theorem example_flat_bin :
    ht eNV cNV (Wq eNV cNV [0]) (Uq eNV [0, 0]) 0 = ht eNV cNV (Wq eNV cNV [0]) (Uq eNV [0, 0]) 1 := by
  simp [ht, hts, Uq]

theorem example_flat_root (s : ℝ) :
    alphaN eNV cNV (Wq eNV cNV [0]) (Uq eNV [0, 0]) 0 s
      = (s - bl eNV cNV (Wq eNV cNV [0]) (Uq eNV [0, 0]) 0)
          / (ht eNV cNV (Wq eNV cNV [0]) (Uq eNV [0, 0]) 0 * wd (Wq eNV cNV [0]) 0) :=
  (alphaN_flat (core_of_valid valid_example) 0 (by rw [Wq_length]; simp) s example_flat_bin).2


end
end QuadInverseWhole
