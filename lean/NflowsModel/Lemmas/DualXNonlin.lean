import NflowsModel.Lemmas.DualX
/-!
# Lemmas/DualXNonlin — the element-wise transforms of `Core/Nonlin.lean` run on dual numbers (C16)

For every model function `F` of `Core/Nonlin.lean` and both directions: running `F` at `NF.dualX (NF.realX e)` on inputs
that are `IsDual` of functions `fx, fp, …` of a parameter `t` returns `.ok (dy, dl)` where
`(dy.1, dl.1)` is what `F` returns at `NF.realX e`, and `dy.2`, `dl.2` are the derivatives at `t` of the two outputs of the
REAL PROGRAM `s ↦ F (NF.realX e) (fp s) … (fx s)` (`DualRes`).  Seeding `(x, 1)` on the input and `(p, 0)` on the
parameters gives `∂/∂x` (`*_dx` corollaries); seeding a parameter gives the partial derivative w.r.t. that parameter.
-/
open NF DualSound Filter Topology

namespace DualX
noncomputable section

/-- first output (the transformed value) of a run, `0` on error -/
def outY (r : Except Err (ℝ × ℝ)) : ℝ := match r with | .ok p => p.1 | .error _ => 0
/-- second output (log |det|) of a run, `0` on error -/
def outL (r : Except Err (ℝ × ℝ)) : ℝ := match r with | .ok p => p.2 | .error _ => 0

@[simp] theorem outY_ok (p : ℝ × ℝ) : outY (.ok p) = p.1 := rfl
@[simp] theorem outL_ok (p : ℝ × ℝ) : outL (.ok p) = p.2 := rfl

/-- the dual run `r` is sound for the real program `F` at `t`: it succeeds, its value components are the outputs of `F t`
    and its tangent components are the derivatives of the two outputs of `s ↦ F s` at `t` -/
def DualRes (F : ℝ → Except Err (ℝ × ℝ)) (t : ℝ) (r : Except Err ((ℝ × ℝ) × (ℝ × ℝ))) : Prop :=
  ∃ dy dl : ℝ × ℝ, r = .ok (dy, dl) ∧ F t = .ok (dy.1, dl.1) ∧
    HasDerivAt (fun s => outY (F s)) dy.2 t ∧ HasDerivAt (fun s => outL (F s)) dl.2 t

variable {e : Float → ℝ} {t : ℝ}

theorem DualRes.intro {F : ℝ → Except Err (ℝ × ℝ)} {fy fl : ℝ → ℝ} {dy dl : ℝ × ℝ}
    (hF : ∀ᶠ s in 𝓝 t, F s = .ok (fy s, fl s)) (hy : IsDual fy t dy) (hl : IsDual fl t dl) :
    DualRes F t (.ok (dy, dl)) := by
  refine ⟨dy, dl, rfl, ?_, ?_, ?_⟩
  · rw [hF.self_of_nhds, hy.1, hl.1]
  · refine hy.2.congr_of_eventuallyEq ?_
    filter_upwards [hF] with s hs
    rw [hs]; rfl
  · refine hl.2.congr_of_eventuallyEq ?_
    filter_upwards [hF] with s hs
    rw [hs]; rfl

/-- unpacking: the dual run returns `.ok ((y, y'), (l, l'))`, the real run `.ok (y, l)` -/
theorem DualRes.elim {F : ℝ → Except Err (ℝ × ℝ)} {r} (h : DualRes F t r) :
    ∃ y y' l l' : ℝ, r = .ok ((y, y'), (l, l')) ∧ F t = .ok (y, l) ∧
      HasDerivAt (fun s => outY (F s)) y' t ∧ HasDerivAt (fun s => outL (F s)) l' t := by
  obtain ⟨dy, dl, h1, h2, h3, h4⟩ := h
  exact ⟨dy.1, dy.2, dl.1, dl.2, h1, h2, h3, h4⟩

variable {fx fp fq : ℝ → ℝ} {dx dp dq : ℝ × ℝ}
variable (e)

/-! ## Exp -/

theorem expT_fwd_dual (hx : IsDual fx t dx) :
    DualRes (fun s => expT (realX e) false (fx s)) t (expT (dualX (realX e)) false dx) :=
  DualRes.intro (Eventually.of_forall fun _ => rfl) (IsDual.exp e hx) hx

/-- side condition: inside the open domain `0 < x` -/
theorem expT_inv_dual (hx : IsDual fx t dx) (h0 : 0 < dx.1) :
    DualRes (fun s => expT (realX e) true (fx s)) t (expT (dualX (realX e)) true dx) := by
  have hd : expT (dualX (realX e)) true dx = .ok ((dualX (realX e)).log dx, (dualX (realX e)).neg ((dualX (realX e)).log dx)) := by
    unfold expT
    simp only [if_true, d_le, d_zero, decide_eq_true_eq, if_neg (not_le.mpr h0)]
  rw [hd]
  have hl := IsDual.log e hx h0.ne'
  refine DualRes.intro ?_ hl (IsDual.neg e hl)
  rw [hx.1] at h0
  filter_upwards [hx.2.continuousAt.eventually (Ioi_mem_nhds h0)] with s hs
  unfold expT
  simp only [if_true, realX_le, realX_zero, decide_eq_true_eq, if_neg (not_le.mpr hs)]

/-- variant of `DualRes.intro` where the dual run is first reduced to its `.ok` form -/
theorem DualRes.intro' {F : ℝ → Except Err (ℝ × ℝ)} {fy fl : ℝ → ℝ} {dy dl : ℝ × ℝ} {r}
    (hr : r = .ok (dy, dl)) (hF : ∀ᶠ s in 𝓝 t, F s = .ok (fy s, fl s)) (hy : IsDual fy t dy) (hl : IsDual fl t dl) :
    DualRes F t r := hr ▸ DualRes.intro hF hy hl

/-! ## Tanh (forward log-det in the stable form `2 (log 2 − x − softplus (−2x))`) -/

/-- side condition: away from the `softplus` threshold `−2 x = 20` (i.e. `x ≠ −10` when `e (-2.0) = -2`) -/
theorem tanhT_fwd_dual (hx : IsDual fx t dx) (hthr : e (-2.0) * dx.1 ≠ 20) :
    DualRes (fun s => tanhT (realX e) false (fx s)) t (tanhT (dualX (realX e)) false dx) :=
  DualRes.intro (Eventually.of_forall fun _ => rfl) (IsDual.tanh e hx)
    (IsDual.mul e (IsDual.ofFloat e 2.0 t) (IsDual.sub e (IsDual.sub e (IsDual.ofFloat e (Float.log 2.0) t) hx)
      (IsDual.softplus e (IsDual.mul e (IsDual.ofFloat e (-2.0) t) hx)
        (by simpa only [d_mul, d_ofFloat] using hthr))))

/-- side condition: inside the open domain `−1 < x < 1` -/
theorem tanhT_inv_dual (hx : IsDual fx t dx) (h1 : -1 < dx.1) (h2 : dx.1 < 1) :
    DualRes (fun s => tanhT (realX e) true (fx s)) t (tanhT (dualX (realX e)) true dx) := by
  refine DualRes.intro' ?_ ?_
    (IsDual.mul e (IsDual.ofFloat e 0.5 t) (IsDual.log e (IsDual.div e (IsDual.add e (IsDual.one e t) hx)
      (IsDual.sub e (IsDual.one e t) hx) ?_) ?_))
    (IsDual.neg e (IsDual.log e (IsDual.sub e (IsDual.one e t) (IsDual.mul e hx hx)) ?_))
  · unfold tanhT
    simp only [if_true, d_le, XOps.ge, d_neg, d_one, neg_zero, decide_eq_true_eq, Bool.or_eq_true, not_le.mpr h1, not_le.mpr h2,
      or_self, if_false]
  · rw [hx.1] at h1 h2
    filter_upwards [hx.2.continuousAt.eventually (Ioi_mem_nhds h1), hx.2.continuousAt.eventually (Iio_mem_nhds h2)] with s hs1 hs2
    unfold tanhT
    simp only [if_true, realX_le, XOps.ge, realX_neg, realX_one, decide_eq_true_eq, Bool.or_eq_true, not_le.mpr hs1,
      not_le.mpr hs2, or_self, if_false]
  · simp only [d_sub, d_one]; intro h; linarith
  · simp only [d_div, d_add, d_sub, d_one]
    exact (div_pos (by linarith) (by linarith)).ne'
  · simp only [d_sub, d_one, d_mul]
    intro h; nlinarith

/-! ## Affine / scale-shift / GLU -/

/-- side condition: `scale ≠ 0` (the kink of `log |scale|`; the constructor rejects it) -/
theorem affineT_fwd_dual (hx : IsDual fx t dx) (hp : IsDual fp t dp) (hq : IsDual fq t dq) (h0 : dp.1 ≠ 0) :
    DualRes (fun s => affineT (realX e) (fp s) (fq s) false (fx s)) t (affineT (dualX (realX e)) dp dq false dx) :=
  DualRes.intro (Eventually.of_forall fun _ => rfl) (IsDual.add e (IsDual.mul e hx hp) hq)
    (IsDual.log e (IsDual.abs e hp h0) (by simpa only [d_abs, abs_ne_zero] using h0))

theorem affineT_inv_dual (hx : IsDual fx t dx) (hp : IsDual fp t dp) (hq : IsDual fq t dq) (h0 : dp.1 ≠ 0) :
    DualRes (fun s => affineT (realX e) (fp s) (fq s) true (fx s)) t (affineT (dualX (realX e)) dp dq true dx) :=
  DualRes.intro (Eventually.of_forall fun _ => rfl) (IsDual.div e (IsDual.sub e hx hq) hp h0)
    (IsDual.neg e (IsDual.log e (IsDual.abs e hp h0) (by simpa only [d_abs, abs_ne_zero] using h0)))

/-- side condition: `scale ≠ 0` -/
theorem scaleShiftT_fwd_dual (hx : IsDual fx t dx) (hp : IsDual fp t dp) (hq : IsDual fq t dq) (h0 : dp.1 ≠ 0) :
    DualRes (fun s => scaleShiftT (realX e) (fp s) (fq s) false (fx s)) t (scaleShiftT (dualX (realX e)) dp dq false dx) :=
  DualRes.intro (Eventually.of_forall fun _ => rfl) (IsDual.add e (IsDual.mul e hx hp) hq) (IsDual.log e hp h0)

theorem scaleShiftT_inv_dual (hx : IsDual fx t dx) (hp : IsDual fp t dp) (hq : IsDual fq t dq) (h0 : dp.1 ≠ 0) :
    DualRes (fun s => scaleShiftT (realX e) (fp s) (fq s) true (fx s)) t (scaleShiftT (dualX (realX e)) dp dq true dx) :=
  DualRes.intro (Eventually.of_forall fun _ => rfl) (IsDual.div e (IsDual.sub e hx hq) hp h0)
    (IsDual.neg e (IsDual.log e hp h0))

/-- no side condition: the gate `sigmoid ctx` is positive -/
theorem gluT_fwd_dual (hx : IsDual fx t dx) (hp : IsDual fp t dp) :
    DualRes (fun s => gluT (realX e) (fp s) false (fx s)) t (gluT (dualX (realX e)) dp false dx) :=
  DualRes.intro (Eventually.of_forall fun _ => rfl) (IsDual.mul e hx (IsDual.sigmoid e hp))
    (IsDual.log e (IsDual.sigmoid e hp) (d_sigmoid_pos e dp).ne')

theorem gluT_inv_dual (hx : IsDual fx t dx) (hp : IsDual fp t dp) :
    DualRes (fun s => gluT (realX e) (fp s) true (fx s)) t (gluT (dualX (realX e)) dp true dx) :=
  DualRes.intro (Eventually.of_forall fun _ => rfl) (IsDual.div e hx (IsDual.sigmoid e hp) (d_sigmoid_pos e dp).ne')
    (IsDual.neg e (IsDual.log e (IsDual.sigmoid e hp) (d_sigmoid_pos e dp).ne'))

/-! ## LeakyReLU -/

/-- side condition: away from the kink `x = 0`; `logSlope` may itself be differentiated -/
theorem leakyReluT_fwd_dual (slope : Float) (hx : IsDual fx t dx) (hp : IsDual fp t dp) (h0 : dx.1 ≠ 0) :
    DualRes (fun s => leakyReluT (realX e) slope (fp s) false (fx s)) t (leakyReluT (dualX (realX e)) slope dp false dx) :=
  DualRes.intro (Eventually.of_forall fun _ => rfl)
    (IsDual.ite_lt e hx (IsDual.zero e t) (by rw [d_zero]; exact h0) (fun _ => IsDual.mul e (IsDual.ofFloat e slope t) hx) (fun _ => hx))
    (IsDual.mul e hp (IsDual.ite_lt e hx (IsDual.zero e t) (by rw [d_zero]; exact h0) (fun _ => IsDual.one e t) (fun _ => IsDual.zero e t)))

theorem leakyReluT_inv_dual (slope : Float) (hx : IsDual fx t dx) (hp : IsDual fp t dp) (h0 : dx.1 ≠ 0) :
    DualRes (fun s => leakyReluT (realX e) slope (fp s) true (fx s)) t (leakyReluT (dualX (realX e)) slope dp true dx) :=
  DualRes.intro (Eventually.of_forall fun _ => rfl)
    (IsDual.ite_lt e hx (IsDual.zero e t) (by rw [d_zero]; exact h0) (fun _ => IsDual.mul e (IsDual.ofFloat e (1.0 / slope) t) hx) (fun _ => hx))
    (IsDual.neg e (IsDual.mul e hp (IsDual.ite_lt e hx (IsDual.zero e t) (by rw [d_zero]; exact h0) (fun _ => IsDual.one e t) (fun _ => IsDual.zero e t))))

/-! ## CauchyCDF -/

/-- no side condition -/
theorem cauchyT_fwd_dual (hx : IsDual fx t dx) :
    DualRes (fun s => cauchyT (realX e) false (fx s)) t (cauchyT (dualX (realX e)) false dx) :=
  DualRes.intro (Eventually.of_forall fun _ => rfl)
    (IsDual.add e (IsDual.mul e (IsDual.ofFloat e _ t) (IsDual.atan e hx)) (IsDual.ofFloat e _ t))
    (IsDual.sub e (IsDual.ofFloat e _ t) (IsDual.log e (IsDual.add e (IsDual.one e t) (IsDual.mul e hx hx))
      (by simp only [d_add, d_one, d_mul]; nlinarith [mul_self_nonneg dx.1])))

/-- side conditions: inside the open domain `0 < x < 1`, and `cos (π̂ (x − ½)) ≠ 0` for the double `π̂` the code uses
    (automatic when `e` reads `π̂` as a real in `(0, π]` and `e 0.5 = 1/2`) -/
theorem cauchyT_inv_dual (hx : IsDual fx t dx) (h1 : 0 < dx.1) (h2 : dx.1 < 1)
    (hcos : Real.cos (e 3.141592653589793 * (dx.1 - e 0.5)) ≠ 0) :
    DualRes (fun s => cauchyT (realX e) true (fx s)) t (cauchyT (dualX (realX e)) true dx) := by
  have hy := IsDual.tan e (IsDual.mul e (IsDual.ofFloat e 3.141592653589793 t) (IsDual.sub e hx (IsDual.ofFloat e 0.5 t)))
    (by simpa only [d_mul, d_sub, d_ofFloat] using hcos)
  refine DualRes.intro' ?_ ?_ hy
    (IsDual.neg e (IsDual.sub e (IsDual.ofFloat e (-(Float.log 3.141592653589793)) t)
      (IsDual.log e (IsDual.add e (IsDual.one e t) (IsDual.mul e hy hy)) ?_)))
  · unfold cauchyT
    simp only [if_true, d_lt, XOps.gt, d_zero, d_one, decide_eq_true_eq, Bool.or_eq_true, not_lt.mpr h1.le, not_lt.mpr h2.le,
      or_self, if_false]
  · rw [hx.1] at h1 h2
    filter_upwards [hx.2.continuousAt.eventually (Ioi_mem_nhds h1), hx.2.continuousAt.eventually (Iio_mem_nhds h2)] with s hs1 hs2
    unfold cauchyT
    simp only [if_true, realX_lt, XOps.gt, realX_zero, realX_one, decide_eq_true_eq, Bool.or_eq_true, not_lt.mpr hs1.le,
      not_lt.mpr hs2.le, or_self, if_false]
  · simp only [d_add, d_one, d_mul]
    nlinarith [mul_self_nonneg ((dualX (realX e)).tan ((dualX (realX e)).mul ((dualX (realX e)).ofFloat 3.141592653589793)
      ((dualX (realX e)).sub dx ((dualX (realX e)).ofFloat 0.5)))).1]

/-! ## Sigmoid / Logit with temperature -/

/-- side conditions: `T ≠ 0` (`log T`) and `T x ≠ ±20` (the two `softplus` thresholds); `T` may itself be differentiated -/
theorem sigmoidT_fwd_dual (eps : Float) (hx : IsDual fx t dx) (hp : IsDual fp t dp) (hT : dp.1 ≠ 0)
    (hthr1 : dp.1 * dx.1 ≠ 20) (hthr2 : dp.1 * dx.1 ≠ -20) :
    DualRes (fun s => sigmoidT (realX e) (fp s) eps false (fx s)) t (sigmoidT (dualX (realX e)) dp eps false dx) :=
  DualRes.intro (Eventually.of_forall fun _ => rfl) (IsDual.sigmoid e (IsDual.mul e hp hx))
    (IsDual.sub e (IsDual.sub e (IsDual.log e hp hT)
      (IsDual.softplus e (IsDual.neg e (IsDual.mul e hp hx))
        (by simp only [d_neg, d_mul]; intro h; exact hthr2 (by linarith))))
      (IsDual.softplus e (IsDual.mul e hp hx) (by simpa only [d_mul] using hthr1)))

/-- the clamped argument of `Sigmoid.inverse`, on value components -/
def clampR (lo hi x : ℝ) : ℝ := min (max x lo) hi

/-- `Sigmoid.inverse`, output as a function of the temperature and the clamped input -/
def sigInvY {α : Type} (o : XOps α) (T xc : α) : α :=
  o.mul (o.div o.one T) (o.sub (o.log xc) (o.log1p (o.neg xc)))
/-- `Sigmoid.inverse`, log-det as a function of the temperature and the output -/
def sigInvL {α : Type} (o : XOps α) (T y : α) : α :=
  o.neg (o.sub (o.sub (o.log T) (o.softplus (o.neg (o.mul T y)))) (o.softplus (o.mul T y)))

theorem sigInvY_real (T xc : ℝ) :
    sigInvY (realX e) T xc = 1 / T * (Real.log xc - Real.log (1 + -xc)) := by
  simp only [sigInvY, realX_mul, realX_div, realX_one, realX_sub, realX_log, realX_log1p, realX_neg]

theorem sigInvY_val (dT dxc : ℝ × ℝ) : (sigInvY (dualX (realX e)) dT dxc).1 = sigInvY (realX e) dT.1 dxc.1 := by
  simp only [sigInvY, d_mul, d_div, d_one, d_sub, d_log, d_log1p_val, d_neg, realX_mul, realX_div, realX_one, realX_sub,
    realX_log, realX_neg]

variable {fc : ℝ → ℝ} {dxc : ℝ × ℝ}

theorem sigInvY_dual (hp : IsDual fp t dp) (hxc : IsDual fc t dxc) (hT : dp.1 ≠ 0) (h0 : dxc.1 ≠ 0) (h1 : dxc.1 ≠ 1) :
    IsDual (fun s => sigInvY (realX e) (fp s) (fc s)) t (sigInvY (dualX (realX e)) dp dxc) :=
  IsDual.mul e (IsDual.div e (IsDual.one e t) hp hT)
    (IsDual.sub e (IsDual.log e hxc h0) (IsDual.log1p e (IsDual.neg e hxc)
      (by simp only [d_neg]; intro h; exact h1 (by linarith))))

variable {fy : ℝ → ℝ} {dy : ℝ × ℝ}

theorem sigInvL_dual (hp : IsDual fp t dp) (hy : IsDual fy t dy) (hT : dp.1 ≠ 0)
    (hthr1 : dp.1 * dy.1 ≠ 20) (hthr2 : dp.1 * dy.1 ≠ -20) :
    IsDual (fun s => sigInvL (realX e) (fp s) (fy s)) t (sigInvL (dualX (realX e)) dp dy) :=
  IsDual.neg e (IsDual.sub e (IsDual.sub e (IsDual.log e hp hT)
    (IsDual.softplus e (IsDual.neg e (IsDual.mul e hp hy))
      (by simp only [d_neg, d_mul]; intro h; exact hthr2 (by linarith))))
    (IsDual.softplus e (IsDual.mul e hp hy) (by simpa only [d_mul] using hthr1)))

/-- side conditions: inside the open domain `0 < x < 1`; away from the two clamp ties (`x ≠ ε̂`, `max x ε̂ ≠ 1 − ε̂`);
    the clamped value `xc` is neither `0` nor `1`; `T ≠ 0`; and `T y ≠ ±20` where `y = 1/T · (log xc − log (1 − xc))` -/
theorem sigmoidT_inv_dual (eps : Float) (hx : IsDual fx t dx) (hp : IsDual fp t dp) (hT : dp.1 ≠ 0)
    (h1 : 0 < dx.1) (h2 : dx.1 < 1) (hc1 : dx.1 ≠ e eps) (hc2 : max dx.1 (e eps) ≠ e (1 - eps))
    (hxc0 : clampR (e eps) (e (1 - eps)) dx.1 ≠ 0) (hxc1 : clampR (e eps) (e (1 - eps)) dx.1 ≠ 1)
    (hthr1 : dp.1 * (1 / dp.1 * (Real.log (clampR (e eps) (e (1 - eps)) dx.1)
        - Real.log (1 + -clampR (e eps) (e (1 - eps)) dx.1))) ≠ 20)
    (hthr2 : dp.1 * (1 / dp.1 * (Real.log (clampR (e eps) (e (1 - eps)) dx.1)
        - Real.log (1 + -clampR (e eps) (e (1 - eps)) dx.1))) ≠ -20) :
    DualRes (fun s => sigmoidT (realX e) (fp s) eps true (fx s)) t (sigmoidT (dualX (realX e)) dp eps true dx) := by
  have hxc := IsDual.clamp e (IsDual.ofFloat e eps t) (IsDual.ofFloat e (1 - eps) t) hx
    (by rw [d_ofFloat]; exact hc1) (by rw [d_ofFloat, d_ofFloat]; exact hc2)
  have hv : ((dualX (realX e)).clamp ((dualX (realX e)).ofFloat eps) ((dualX (realX e)).ofFloat (1 - eps)) dx).1
      = clampR (e eps) (e (1 - eps)) dx.1 := by
    unfold XOps.clamp clampR
    rw [d_minA_val, d_maxA_val, d_ofFloat, d_ofFloat]
  have hy := sigInvY_dual e hp hxc hT (by rw [hv]; exact hxc0) (by rw [hv]; exact hxc1)
  have hyv := sigInvY_val e dp ((dualX (realX e)).clamp ((dualX (realX e)).ofFloat eps) ((dualX (realX e)).ofFloat (1 - eps)) dx)
  rw [hv, sigInvY_real] at hyv
  have hl := sigInvL_dual e hp hy hT (by rw [hyv]; exact hthr1) (by rw [hyv]; exact hthr2)
  refine DualRes.intro' ?_ ?_ hy hl
  · unfold sigmoidT
    simp only [if_true, d_lt, XOps.gt, d_zero, d_one, decide_eq_true_eq, Bool.or_eq_true, not_lt.mpr h1.le, not_lt.mpr h2.le,
      or_self, if_false, sigInvY, sigInvL]
  · rw [hx.1] at h1 h2
    filter_upwards [hx.2.continuousAt.eventually (Ioi_mem_nhds h1), hx.2.continuousAt.eventually (Iio_mem_nhds h2)] with s hs1 hs2
    unfold sigmoidT
    simp only [if_true, realX_lt, XOps.gt, realX_zero, realX_one, decide_eq_true_eq, Bool.or_eq_true, not_lt.mpr hs1.le,
      not_lt.mpr hs2.le, or_self, if_false, sigInvY, sigInvL]

/-- the same on the un-clamped interior `ε̂ < x < 1 − ε̂ ⊂ (0, 1)`: there `T y = logit x` and the thresholds are
    `logit x ≠ ±20` -/
theorem sigmoidT_inv_dual_interior (eps : Float) (hx : IsDual fx t dx) (hp : IsDual fp t dp) (hT : dp.1 ≠ 0)
    (h1 : 0 < dx.1) (h2 : dx.1 < 1) (hc1 : e eps < dx.1) (hc2 : dx.1 < e (1 - eps))
    (hthr1 : Real.log dx.1 - Real.log (1 - dx.1) ≠ 20) (hthr2 : Real.log dx.1 - Real.log (1 - dx.1) ≠ -20) :
    DualRes (fun s => sigmoidT (realX e) (fp s) eps true (fx s)) t (sigmoidT (dualX (realX e)) dp eps true dx) := by
  have hcl : clampR (e eps) (e (1 - eps)) dx.1 = dx.1 := by
    unfold clampR; rw [max_eq_left hc1.le, min_eq_left hc2.le]
  have hTy : dp.1 * (1 / dp.1 * (Real.log dx.1 - Real.log (1 + -dx.1))) = Real.log dx.1 - Real.log (1 - dx.1) := by
    rw [← sub_eq_add_neg]; field_simp
  refine sigmoidT_inv_dual e eps hx hp hT h1 h2 hc1.ne' ?_ ?_ ?_ ?_ ?_
  · rw [max_eq_left hc1.le]; exact hc2.ne
  · rw [hcl]; exact h1.ne'
  · rw [hcl]; exact h2.ne
  · rw [hcl, hTy]; exact hthr1
  · rw [hcl, hTy]; exact hthr2

/-! ## LogTanh (three branches per direction; the cut points themselves are excluded) -/

/-- forward, upper tail `x > ĉ`: side conditions `x ≠ 0` (automatic for `ĉ ≥ 0`), `α̂ ≠ 0`, `β̂ ≠ 0` -/
theorem logTanhT_fwd_hi_dual (cut invCut alpha beta : Float) (hx : IsDual fx t dx) (hc : e cut < dx.1)
    (hx0 : dx.1 ≠ 0) (hα : e alpha ≠ 0) (hβ : e beta ≠ 0) :
    DualRes (fun s => logTanhT (realX e) cut invCut alpha beta false (fx s)) t
      (logTanhT (dualX (realX e)) cut invCut alpha beta false dx) := by
  refine DualRes.intro' ?_ ?_
    (IsDual.mul e (IsDual.ofFloat e alpha t) (IsDual.log e (IsDual.mul e (IsDual.ofFloat e beta t) hx) ?_))
    (IsDual.log e (IsDual.div e (IsDual.ofFloat e alpha t) hx hx0) ?_)
  · unfold logTanhT
    simp only [Bool.false_eq_true, if_false, XOps.gt, d_lt, d_ofFloat, decide_eq_true_eq, if_pos hc]
  · rw [hx.1] at hc
    filter_upwards [hx.2.continuousAt.eventually (Ioi_mem_nhds hc)] with s hs
    unfold logTanhT
    simp only [Bool.false_eq_true, if_false, XOps.gt, realX_lt, realX_ofFloat, decide_eq_true_eq, if_pos hs]
  · simp only [d_mul, d_ofFloat]; exact mul_ne_zero hβ hx0
  · simp only [d_div, d_ofFloat]; exact div_ne_zero hα hx0

/-- forward, lower tail `x < −ĉ` (and `x < ĉ`, automatic for `ĉ ≥ 0`) -/
theorem logTanhT_fwd_lo_dual (cut invCut alpha beta : Float) (hx : IsDual fx t dx) (hc1 : dx.1 < e cut) (hc2 : dx.1 < -e cut)
    (hx0 : dx.1 ≠ 0) (hα : e alpha ≠ 0) (hβ : e beta ≠ 0) :
    DualRes (fun s => logTanhT (realX e) cut invCut alpha beta false (fx s)) t
      (logTanhT (dualX (realX e)) cut invCut alpha beta false dx) := by
  refine DualRes.intro' ?_ ?_
    (IsDual.mul e (IsDual.ofFloat e alpha t) (IsDual.neg e (IsDual.log e
      (IsDual.mul e (IsDual.neg e (IsDual.ofFloat e beta t)) hx) ?_)))
    (IsDual.log e (IsDual.div e (IsDual.neg e (IsDual.ofFloat e alpha t)) hx hx0) ?_)
  · unfold logTanhT
    simp only [Bool.false_eq_true, if_false, XOps.gt, d_lt, d_neg, d_ofFloat, decide_eq_true_eq, if_neg (not_lt.mpr hc1.le),
      if_pos hc2]
  · rw [hx.1] at hc1 hc2
    filter_upwards [hx.2.continuousAt.eventually (Iio_mem_nhds hc1), hx.2.continuousAt.eventually (Iio_mem_nhds hc2)] with s hs1 hs2
    unfold logTanhT
    simp only [Bool.false_eq_true, if_false, XOps.gt, realX_lt, realX_neg, realX_ofFloat, decide_eq_true_eq,
      if_neg (not_lt.mpr hs1.le), if_pos hs2]
  · simp only [d_mul, d_neg, d_ofFloat]; exact mul_ne_zero (neg_ne_zero.mpr hβ) hx0
  · simp only [d_div, d_neg, d_ofFloat]; exact div_ne_zero (neg_ne_zero.mpr hα) hx0

/-- forward, middle branch `−ĉ < x < ĉ`: `tanh` with log-det `log (1 − tanh² x)`; no further side condition -/
theorem logTanhT_fwd_mid_dual (cut invCut alpha beta : Float) (hx : IsDual fx t dx) (hc1 : dx.1 < e cut) (hc2 : -e cut < dx.1) :
    DualRes (fun s => logTanhT (realX e) cut invCut alpha beta false (fx s)) t
      (logTanhT (dualX (realX e)) cut invCut alpha beta false dx) := by
  refine DualRes.intro' ?_ ?_ (IsDual.tanh e hx)
    (IsDual.log e (IsDual.sub e (IsDual.one e t) (IsDual.mul e (IsDual.tanh e hx) (IsDual.tanh e hx))) ?_)
  · unfold logTanhT
    simp only [Bool.false_eq_true, if_false, XOps.gt, d_lt, d_neg, d_ofFloat, decide_eq_true_eq, if_neg (not_lt.mpr hc1.le),
      if_neg (not_lt.mpr hc2.le)]
  · rw [hx.1] at hc1 hc2
    filter_upwards [hx.2.continuousAt.eventually (Iio_mem_nhds hc1), hx.2.continuousAt.eventually (Ioi_mem_nhds hc2)] with s hs1 hs2
    unfold logTanhT
    simp only [Bool.false_eq_true, if_false, XOps.gt, realX_lt, realX_neg, realX_ofFloat, decide_eq_true_eq,
      if_neg (not_lt.mpr hs1.le), if_neg (not_lt.mpr hs2.le)]
  · rw [d_tanh]; simp only [d_sub, d_one, d_mul]
    have := Real.tanh_sq_lt_one dx.1
    intro h; nlinarith

/-- inverse, upper tail `x > tanh ĉ`: side conditions `α̂ ≠ 0`, `β̂ ≠ 0` -/
theorem logTanhT_inv_hi_dual (cut invCut alpha beta : Float) (hx : IsDual fx t dx) (hc : e invCut < dx.1)
    (hα : e alpha ≠ 0) (hβ : e beta ≠ 0) :
    DualRes (fun s => logTanhT (realX e) cut invCut alpha beta true (fx s)) t
      (logTanhT (dualX (realX e)) cut invCut alpha beta true dx) := by
  have hxa := IsDual.div e hx (IsDual.ofFloat e alpha t) (by rw [d_ofFloat]; exact hα)
  refine DualRes.intro' ?_ ?_
    (IsDual.div e (IsDual.exp e hxa) (IsDual.ofFloat e beta t) (by rw [d_ofFloat]; exact hβ))
    (IsDual.add e (IsDual.ofFloat e (-(Float.log (alpha * beta))) t) hxa)
  · unfold logTanhT
    simp only [if_true, XOps.gt, d_lt, d_ofFloat, decide_eq_true_eq, if_pos hc]
  · rw [hx.1] at hc
    filter_upwards [hx.2.continuousAt.eventually (Ioi_mem_nhds hc)] with s hs
    unfold logTanhT
    simp only [if_true, XOps.gt, realX_lt, realX_ofFloat, decide_eq_true_eq, if_pos hs]

/-- inverse, lower tail `x < −tanh ĉ` (and `x < tanh ĉ`) -/
theorem logTanhT_inv_lo_dual (cut invCut alpha beta : Float) (hx : IsDual fx t dx) (hc1 : dx.1 < e invCut)
    (hc2 : dx.1 < -e invCut) (hα : e alpha ≠ 0) (hβ : e beta ≠ 0) :
    DualRes (fun s => logTanhT (realX e) cut invCut alpha beta true (fx s)) t
      (logTanhT (dualX (realX e)) cut invCut alpha beta true dx) := by
  refine DualRes.intro' ?_ ?_
    (IsDual.div e (IsDual.neg e (IsDual.exp e (IsDual.div e (IsDual.neg e hx) (IsDual.ofFloat e alpha t)
      (by rw [d_ofFloat]; exact hα)))) (IsDual.ofFloat e beta t) (by rw [d_ofFloat]; exact hβ))
    (IsDual.sub e (IsDual.ofFloat e (-(Float.log (alpha * beta))) t)
      (IsDual.div e hx (IsDual.ofFloat e alpha t) (by rw [d_ofFloat]; exact hα)))
  · unfold logTanhT
    simp only [if_true, XOps.gt, d_lt, d_neg, d_ofFloat, decide_eq_true_eq, if_neg (not_lt.mpr hc1.le), if_pos hc2]
  · rw [hx.1] at hc1 hc2
    filter_upwards [hx.2.continuousAt.eventually (Iio_mem_nhds hc1), hx.2.continuousAt.eventually (Iio_mem_nhds hc2)] with s hs1 hs2
    unfold logTanhT
    simp only [if_true, XOps.gt, realX_lt, realX_neg, realX_ofFloat, decide_eq_true_eq, if_neg (not_lt.mpr hs1.le), if_pos hs2]

/-- inverse, middle branch `−tanh ĉ < x < tanh ĉ`: `artanh`; side conditions `x ≠ ±1` (automatic for `tanh ĉ ≤ 1`) -/
theorem logTanhT_inv_mid_dual (cut invCut alpha beta : Float) (hx : IsDual fx t dx) (hc1 : dx.1 < e invCut)
    (hc2 : -e invCut < dx.1) (hne1 : dx.1 ≠ 1) (hne2 : dx.1 ≠ -1) :
    DualRes (fun s => logTanhT (realX e) cut invCut alpha beta true (fx s)) t
      (logTanhT (dualX (realX e)) cut invCut alpha beta true dx) := by
  have h1 : 1 - dx.1 ≠ 0 := fun h => hne1 (by linarith)
  have h2 : 1 + dx.1 ≠ 0 := fun h => hne2 (by linarith)
  refine DualRes.intro' ?_ ?_
    (IsDual.mul e (IsDual.ofFloat e 0.5 t) (IsDual.log e (IsDual.div e (IsDual.add e (IsDual.one e t) hx)
      (IsDual.sub e (IsDual.one e t) hx) ?_) ?_))
    (IsDual.neg e (IsDual.log e (IsDual.sub e (IsDual.one e t) (IsDual.mul e hx hx)) ?_))
  · unfold logTanhT
    simp only [if_true, XOps.gt, d_lt, d_neg, d_ofFloat, decide_eq_true_eq, if_neg (not_lt.mpr hc1.le), if_neg (not_lt.mpr hc2.le)]
  · rw [hx.1] at hc1 hc2
    filter_upwards [hx.2.continuousAt.eventually (Iio_mem_nhds hc1), hx.2.continuousAt.eventually (Ioi_mem_nhds hc2)] with s hs1 hs2
    unfold logTanhT
    simp only [if_true, XOps.gt, realX_lt, realX_neg, realX_ofFloat, decide_eq_true_eq, if_neg (not_lt.mpr hs1.le),
      if_neg (not_lt.mpr hs2.le)]
  · simpa only [d_sub, d_one] using h1
  · simp only [d_div, d_add, d_sub, d_one]; exact div_ne_zero h2 h1
  · simp only [d_sub, d_one, d_mul]
    have : 1 - dx.1 * dx.1 = (1 - dx.1) * (1 + dx.1) := by ring
    rw [this]; exact mul_ne_zero h1 h2

/-! ## Corollaries: derivative in the input (`(x, 1)`, parameters `(p, 0)`) -/

theorem expT_fwd_dx (x : ℝ) :
    DualRes (fun s => expT (realX e) false s) x (expT (dualX (realX e)) false (x, 1)) :=
  expT_fwd_dual e (IsDual.id x)
theorem expT_inv_dx (x : ℝ) (h0 : 0 < x) :
    DualRes (fun s => expT (realX e) true s) x (expT (dualX (realX e)) true (x, 1)) :=
  expT_inv_dual e (IsDual.id x) h0
/-- with the constant read exactly (`e (-2.0) = -2`) the only excluded point is the softplus threshold `x = −10` -/
theorem tanhT_fwd_dx (x : ℝ) (hm2 : e (-2.0) = -2) (hthr : x ≠ -10) :
    DualRes (fun s => tanhT (realX e) false s) x (tanhT (dualX (realX e)) false (x, 1)) :=
  tanhT_fwd_dual e (IsDual.id x) (by rw [hm2]; intro h; exact hthr (by linarith))
theorem tanhT_inv_dx (x : ℝ) (h1 : -1 < x) (h2 : x < 1) :
    DualRes (fun s => tanhT (realX e) true s) x (tanhT (dualX (realX e)) true (x, 1)) :=
  tanhT_inv_dual e (IsDual.id x) h1 h2
theorem sigmoidT_fwd_dx (T : ℝ) (eps : Float) (x : ℝ) (hT : T ≠ 0) (hthr1 : T * x ≠ 20) (hthr2 : T * x ≠ -20) :
    DualRes (fun s => sigmoidT (realX e) T eps false s) x (sigmoidT (dualX (realX e)) (T, 0) eps false (x, 1)) :=
  sigmoidT_fwd_dual e eps (IsDual.id x) (IsDual.const T x) hT hthr1 hthr2
theorem sigmoidT_inv_dx (T : ℝ) (eps : Float) (x : ℝ) (hT : T ≠ 0) (h1 : 0 < x) (h2 : x < 1) (hc1 : e eps < x)
    (hc2 : x < e (1 - eps)) (hthr1 : Real.log x - Real.log (1 - x) ≠ 20) (hthr2 : Real.log x - Real.log (1 - x) ≠ -20) :
    DualRes (fun s => sigmoidT (realX e) T eps true s) x (sigmoidT (dualX (realX e)) (T, 0) eps true (x, 1)) :=
  sigmoidT_inv_dual_interior e eps (IsDual.id x) (IsDual.const T x) hT h1 h2 hc1 hc2 hthr1 hthr2
theorem cauchyT_fwd_dx (x : ℝ) :
    DualRes (fun s => cauchyT (realX e) false s) x (cauchyT (dualX (realX e)) false (x, 1)) :=
  cauchyT_fwd_dual e (IsDual.id x)
/-- with `π̂` read as a real in `(0, π]` and `e 0.5 = 1/2`, the whole open domain `(0, 1)` is covered -/
theorem cauchyT_inv_dx (x : ℝ) (h1 : 0 < x) (h2 : x < 1) (hpi0 : 0 < e 3.141592653589793)
    (hpi : e 3.141592653589793 ≤ Real.pi) (hhalf : e 0.5 = 1 / 2) :
    DualRes (fun s => cauchyT (realX e) true s) x (cauchyT (dualX (realX e)) true (x, 1)) := by
  refine cauchyT_inv_dual e (IsDual.id x) h1 h2 ?_
  show Real.cos (e 3.141592653589793 * (x - e 0.5)) ≠ 0
  rw [hhalf]
  refine (Real.cos_pos_of_mem_Ioo ⟨?_, ?_⟩).ne'
  · have : -(1/2 : ℝ) < x - 1/2 := by linarith
    nlinarith [Real.pi_pos]
  · have : x - 1/2 < (1/2 : ℝ) := by linarith
    nlinarith [Real.pi_pos]
theorem leakyReluT_fwd_dx (slope : Float) (ls x : ℝ) (h0 : x ≠ 0) :
    DualRes (fun s => leakyReluT (realX e) slope ls false s) x (leakyReluT (dualX (realX e)) slope (ls, 0) false (x, 1)) :=
  leakyReluT_fwd_dual e slope (IsDual.id x) (IsDual.const ls x) h0
theorem leakyReluT_inv_dx (slope : Float) (ls x : ℝ) (h0 : x ≠ 0) :
    DualRes (fun s => leakyReluT (realX e) slope ls true s) x (leakyReluT (dualX (realX e)) slope (ls, 0) true (x, 1)) :=
  leakyReluT_inv_dual e slope (IsDual.id x) (IsDual.const ls x) h0
theorem affineT_fwd_dx (scale shift x : ℝ) (h0 : scale ≠ 0) :
    DualRes (fun s => affineT (realX e) scale shift false s) x (affineT (dualX (realX e)) (scale, 0) (shift, 0) false (x, 1)) :=
  affineT_fwd_dual e (IsDual.id x) (IsDual.const scale x) (IsDual.const shift x) h0
theorem affineT_inv_dx (scale shift x : ℝ) (h0 : scale ≠ 0) :
    DualRes (fun s => affineT (realX e) scale shift true s) x (affineT (dualX (realX e)) (scale, 0) (shift, 0) true (x, 1)) :=
  affineT_inv_dual e (IsDual.id x) (IsDual.const scale x) (IsDual.const shift x) h0
theorem scaleShiftT_fwd_dx (scale shift x : ℝ) (h0 : scale ≠ 0) :
    DualRes (fun s => scaleShiftT (realX e) scale shift false s) x
      (scaleShiftT (dualX (realX e)) (scale, 0) (shift, 0) false (x, 1)) :=
  scaleShiftT_fwd_dual e (IsDual.id x) (IsDual.const scale x) (IsDual.const shift x) h0
theorem scaleShiftT_inv_dx (scale shift x : ℝ) (h0 : scale ≠ 0) :
    DualRes (fun s => scaleShiftT (realX e) scale shift true s) x
      (scaleShiftT (dualX (realX e)) (scale, 0) (shift, 0) true (x, 1)) :=
  scaleShiftT_inv_dual e (IsDual.id x) (IsDual.const scale x) (IsDual.const shift x) h0
theorem gluT_fwd_dx (ctx x : ℝ) :
    DualRes (fun s => gluT (realX e) ctx false s) x (gluT (dualX (realX e)) (ctx, 0) false (x, 1)) :=
  gluT_fwd_dual e (IsDual.id x) (IsDual.const ctx x)
theorem gluT_inv_dx (ctx x : ℝ) :
    DualRes (fun s => gluT (realX e) ctx true s) x (gluT (dualX (realX e)) (ctx, 0) true (x, 1)) :=
  gluT_inv_dual e (IsDual.id x) (IsDual.const ctx x)

/-! ## Corollaries: derivative in a parameter (input `(x, 0)`, the parameter `(p, 1)`) -/

theorem affineT_fwd_dscale (scale shift x : ℝ) (h0 : scale ≠ 0) :
    DualRes (fun s => affineT (realX e) s shift false x) scale (affineT (dualX (realX e)) (scale, 1) (shift, 0) false (x, 0)) :=
  affineT_fwd_dual e (IsDual.const x scale) (IsDual.id scale) (IsDual.const shift scale) h0
theorem affineT_fwd_dshift (scale shift x : ℝ) (h0 : scale ≠ 0) :
    DualRes (fun s => affineT (realX e) scale s false x) shift (affineT (dualX (realX e)) (scale, 0) (shift, 1) false (x, 0)) :=
  affineT_fwd_dual e (IsDual.const x shift) (IsDual.const scale shift) (IsDual.id shift) h0
theorem affineT_inv_dscale (scale shift x : ℝ) (h0 : scale ≠ 0) :
    DualRes (fun s => affineT (realX e) s shift true x) scale (affineT (dualX (realX e)) (scale, 1) (shift, 0) true (x, 0)) :=
  affineT_inv_dual e (IsDual.const x scale) (IsDual.id scale) (IsDual.const shift scale) h0
theorem affineT_inv_dshift (scale shift x : ℝ) (h0 : scale ≠ 0) :
    DualRes (fun s => affineT (realX e) scale s true x) shift (affineT (dualX (realX e)) (scale, 0) (shift, 1) true (x, 0)) :=
  affineT_inv_dual e (IsDual.const x shift) (IsDual.const scale shift) (IsDual.id shift) h0
theorem scaleShiftT_fwd_dscale (scale shift x : ℝ) (h0 : scale ≠ 0) :
    DualRes (fun s => scaleShiftT (realX e) s shift false x) scale
      (scaleShiftT (dualX (realX e)) (scale, 1) (shift, 0) false (x, 0)) :=
  scaleShiftT_fwd_dual e (IsDual.const x scale) (IsDual.id scale) (IsDual.const shift scale) h0
theorem scaleShiftT_fwd_dshift (scale shift x : ℝ) (h0 : scale ≠ 0) :
    DualRes (fun s => scaleShiftT (realX e) scale s false x) shift
      (scaleShiftT (dualX (realX e)) (scale, 0) (shift, 1) false (x, 0)) :=
  scaleShiftT_fwd_dual e (IsDual.const x shift) (IsDual.const scale shift) (IsDual.id shift) h0
theorem scaleShiftT_inv_dscale (scale shift x : ℝ) (h0 : scale ≠ 0) :
    DualRes (fun s => scaleShiftT (realX e) s shift true x) scale
      (scaleShiftT (dualX (realX e)) (scale, 1) (shift, 0) true (x, 0)) :=
  scaleShiftT_inv_dual e (IsDual.const x scale) (IsDual.id scale) (IsDual.const shift scale) h0
/-- temperature direction of `Sigmoid.forward` -/
theorem sigmoidT_fwd_dT (T : ℝ) (eps : Float) (x : ℝ) (hT : T ≠ 0) (hthr1 : T * x ≠ 20) (hthr2 : T * x ≠ -20) :
    DualRes (fun s => sigmoidT (realX e) s eps false x) T (sigmoidT (dualX (realX e)) (T, 1) eps false (x, 0)) :=
  sigmoidT_fwd_dual e eps (IsDual.const x T) (IsDual.id T) hT hthr1 hthr2
/-- temperature direction of `Sigmoid.inverse` (un-clamped interior) -/
theorem sigmoidT_inv_dT (T : ℝ) (eps : Float) (x : ℝ) (hT : T ≠ 0) (h1 : 0 < x) (h2 : x < 1) (hc1 : e eps < x)
    (hc2 : x < e (1 - eps)) (hthr1 : Real.log x - Real.log (1 - x) ≠ 20) (hthr2 : Real.log x - Real.log (1 - x) ≠ -20) :
    DualRes (fun s => sigmoidT (realX e) s eps true x) T (sigmoidT (dualX (realX e)) (T, 1) eps true (x, 0)) :=
  sigmoidT_inv_dual_interior e eps (IsDual.const x T) (IsDual.id T) hT h1 h2 hc1 hc2 hthr1 hthr2
theorem leakyReluT_fwd_dlogSlope (slope : Float) (ls x : ℝ) (h0 : x ≠ 0) :
    DualRes (fun s => leakyReluT (realX e) slope s false x) ls (leakyReluT (dualX (realX e)) slope (ls, 1) false (x, 0)) :=
  leakyReluT_fwd_dual e slope (IsDual.const x ls) (IsDual.id ls) h0
theorem gluT_fwd_dctx (ctx x : ℝ) :
    DualRes (fun s => gluT (realX e) s false x) ctx (gluT (dualX (realX e)) (ctx, 1) false (x, 0)) :=
  gluT_fwd_dual e (IsDual.const x ctx) (IsDual.id ctx)

/-! ## Closed forms (sanity: what the dual run literally returns) -/

theorem expT_fwd_closed (x : ℝ) :
    expT (dualX (realX e)) false (x, 1) = .ok ((Real.exp x, Real.exp x), (x, 1)) := by
  unfold expT
  simp only [Bool.false_eq_true, if_false, d_exp, one_mul]

theorem affineT_fwd_closed (scale shift x : ℝ) :
    affineT (dualX (realX e)) (scale, 0) (shift, 0) false (x, 1)
      = .ok ((x * scale + shift, scale), (Real.log |scale|, 0)) := by
  unfold affineT
  simp only [Bool.false_eq_true, if_false, d_add, d_mul, d_log, d_abs, one_mul, mul_zero, add_zero, zero_div]

theorem leakyReluT_fwd_closed_neg (slope : Float) (ls x : ℝ) (h0 : x < 0) :
    leakyReluT (dualX (realX e)) slope (ls, 0) false (x, 1) = .ok ((e slope * x, e slope), (ls, 0)) := by
  unfold leakyReluT
  simp only [Bool.false_eq_true, if_false, d_lt, d_zero, h0, decide_true, if_true, d_mul, d_ofFloat, d_one, zero_mul,
    zero_add, mul_one, mul_zero, add_zero]

/-- the statement in the literal form "`.ok ((y, y'), (l, l'))` with `(y, l)` the real outputs and `y'`, `l'` the
    derivatives of the real program", for one function (every `DualRes` unpacks this way by `DualRes.elim`) -/
theorem tanhT_fwd_literal (x : ℝ) (hm2 : e (-2.0) = -2) (hthr : x ≠ -10) :
    ∃ y y' l l' : ℝ, tanhT (dualX (realX e)) false (x, 1) = .ok ((y, y'), (l, l')) ∧
      tanhT (realX e) false x = .ok (y, l) ∧
      HasDerivAt (fun s => outY (tanhT (realX e) false s)) y' x ∧
      HasDerivAt (fun s => outL (tanhT (realX e) false s)) l' x :=
  (tanhT_fwd_dx e x hm2 hthr).elim

/-! ## Conventions at kinks (excluded by the side conditions above) -/

/-- **LeakyReLU at the kink `x = 0`**: the dual model returns the tangent of the identity branch (`1`), whereas
    `F.leaky_relu`'s backward uses `x > 0 ? g : g * slope`, i.e. `slope` at `0` (a convention at a non-differentiable
    point; the harness avoids `x = 0` for this class) -/
theorem leakyReluT_fwd_at_kink (slope : Float) (ls : ℝ) :
    leakyReluT (dualX (realX e)) slope (ls, 0) false (0, 1) = .ok ((0, 1), (0, 0)) := by
  unfold leakyReluT
  simp only [Bool.false_eq_true, if_false, d_lt, d_zero, lt_irrefl, decide_false, d_mul, mul_zero, zero_mul, add_zero]

/-! ## Non-vacuity: the side conditions are satisfiable (concrete inputs, concrete readings of the doubles) -/

/-- a reading of the doubles with `0.0 ↦ 0` and everything else `↦ 1` (as in `RQWhole.eNV`) -/
def eTwo (f : Float) : ℝ := if f == 0.0 then 0 else 1
private theorem t0 : ((0.0:Float) == 0.0) = true := by decide +kernel
private theorem t1 : (((1:Float) - 0.0) == 0.0) = false := by decide +kernel

example : DualRes (fun s => tanhT (realX e) true s) (1/2) (tanhT (dualX (realX e)) true (1/2, 1)) :=
  tanhT_inv_dx e (1/2) (by norm_num) (by norm_num)
example : DualRes (fun s => sigmoidT (realX e) 2 1e-6 false s) 3 (sigmoidT (dualX (realX e)) (2, 0) 1e-6 false (3, 1)) :=
  sigmoidT_fwd_dx e 2 1e-6 3 (by norm_num) (by norm_num) (by norm_num)
example : DualRes (fun s => sigmoidT (realX eTwo) 2 0.0 true s) (1/2) (sigmoidT (dualX (realX eTwo)) (2, 0) 0.0 true (1/2, 1)) :=
  sigmoidT_inv_dx eTwo 2 0.0 (1/2) (by norm_num) (by norm_num) (by norm_num)
    (by simp [eTwo, t0]) (by simp [eTwo, t1]; norm_num)
    (by rw [show (1:ℝ) - 1/2 = 1/2 by norm_num, sub_self]; norm_num)
    (by rw [show (1:ℝ) - 1/2 = 1/2 by norm_num, sub_self]; norm_num)
example : DualRes (fun s => logTanhT (realX (fun _ => 1)) 1.0 0.76 0.24 3.3 false s) 2
    (logTanhT (dualX (realX (fun _ => 1))) 1.0 0.76 0.24 3.3 false (2, 1)) :=
  logTanhT_fwd_hi_dual (fun _ => 1) 1.0 0.76 0.24 3.3 (IsDual.id 2) (by norm_num) (by norm_num) (by norm_num) (by norm_num)
example : DualRes (fun s => leakyReluT (realX e) 0.01 s false (-1)) 5 (leakyReluT (dualX (realX e)) 0.01 (5, 1) false (-1, 0)) :=
  leakyReluT_fwd_dlogSlope e 0.01 5 (-1) (by norm_num)

end
end DualX
