import NflowsModel.Lemmas.DualXSpline
import NflowsModel.Lemmas.LinWhole
/-!
# Lemmas/DualXLin — the EXECUTED piecewise-linear spline run on dual numbers (C16)

`linSpline (dualX (NF.realX e)) box eps (up.map ι) false (x, 1)` is the forward list program of `Core/Spline.lean` run on dual
numbers (forward-mode AD), parameters entering with zero tangent (`ι a = (a, 0)`), the input seeded with tangent `1`.
For every accepted configuration `LinWhole.LinValid e box eps up`:

* `linSpline_dual_exec`, `linSpline_dual_values` — on the WHOLE closed domain (knots, both ends): the dual run succeeds, its
  value components are the outputs `LinWhole.val`, `LinWhole.ld` of the real executed program, the tangent of the value is
  the slope `pdf_i·K·(top−bottom)/(right−left)` of the selected bin `i = min(⌊x'K⌋, K−1)` (the integer floor of the dual
  instance reads the value component), the tangent of the log-det is `0`.  `dual_clamp01_id`: the dual `clamp 0 1` is the
  identity on values in `[0,1]`, ties included, so no "clamp not at a tie" hypothesis is needed anywhere.
* `linSpline_dual_slope` — strictly inside bin `k`: those tangents ARE the derivatives of `val` and `ld` (no hypothesis on the
  Python-side `np.log` constants); `linSpline_dualRes` the same in the `DualRes` form.
* `linSpline_dual`, `linSpline_dual_x` (headline) — with the two `np.log` readings `hlogK`, `hbl` of `LinWhole.val_hasDerivAt`:
  the dual run returns `((val x, exp (ld x)), (ld x, 0))`, `HasDerivAt val (exp (ld x)) x`, `HasDerivAt ld 0 x`.
* `linSpline_dual_right` — at a knot (anywhere in `[x_k, x_{k+1})`) the tangent is the RIGHT-hand derivative.
* non-vacuity: `linSpline_dual_example` (three bins, middle bin), `linSpline_dual_example_logs` (headline, one bin).
-/
open NF DualSound DualX Filter Topology

namespace DualXLin
open LinWhole
noncomputable section
variable {e : Float → ℝ} {box : Box} {eps : Float} {up : List ℝ}

/-- the integer floor of the dual instance reads the value component only -/
theorem d_floorInt (a : ℝ × ℝ) : (dualX (NF.realX e)).floorInt a = ⌊a.1⌋ := rfl

theorem d_ofNat (n : ℕ) : (dualX (NF.realX e)).ofNat n = ((n : ℝ), 0) := by
  unfold XOps.ofNat
  rw [d_ofRat]
  simp

/-- on dual numbers `clamp 0 1` is the identity (value AND tangent) as soon as the value lies in `[0,1]`, ties included -/
theorem dual_clamp01_id (v : ℝ × ℝ) (h0 : 0 ≤ v.1) (h1 : v.1 ≤ 1) :
    (dualX (NF.realX e)).clamp (dualX (NF.realX e)).zero (dualX (NF.realX e)).one v = v := by
  unfold XOps.clamp XOps.minA XOps.maxA
  simp only [d_lt, d_zero, d_one, decide_eq_true_eq, if_neg (not_lt.mpr h0), if_neg (not_lt.mpr h1)]

/-- the dual normalised input: value `x'`, tangent `1/(right − left)` -/
theorem dual_nx (hv : LinValid e box eps up) (x : ℝ) :
    (dualX (NF.realX e)).div ((dualX (NF.realX e)).sub (x, 1) ((dualX (NF.realX e)).ofFloat box.left))
        ((dualX (NF.realX e)).ofFloat (box.right - box.left))
      = (nx e box x, 1 / (e box.right - e box.left)) := by
  have hD : e box.right - e box.left ≠ 0 := (sub_pos.mpr hv.hlr).ne'
  simp only [d_div, d_sub, d_ofFloat, hv.hdlr]
  refine Prod.ext rfl ?_
  show (((1:ℝ) - 0) * (e box.right - e box.left) - (x - e box.left) * 0) / ((e box.right - e box.left) * (e box.right - e box.left))
    = 1 / (e box.right - e box.left)
  field_simp
  ring

theorem dual_binPos (hv : LinValid e box eps up) (x : ℝ) :
    (dualX (NF.realX e)).mul
        ((dualX (NF.realX e)).div ((dualX (NF.realX e)).sub (x, 1) ((dualX (NF.realX e)).ofFloat box.left))
          ((dualX (NF.realX e)).ofFloat (box.right - box.left)))
        ((dualX (NF.realX e)).ofNat up.length)
      = (nx e box x * (up.length : ℝ), (up.length : ℝ) / (e box.right - e box.left)) := by
  rw [dual_nx hv, d_ofNat, d_mul]
  refine Prod.ext rfl ?_
  show 1 / (e box.right - e box.left) * (up.length : ℝ) + nx e box x * 0 = _
  ring

/-- zero tangents stay zero through `softmax`, `cumsum`, the pinned last knot and the padding -/
theorem dual_pdf (up : List ℝ) : softmaxG (dualX (NF.realX e)) (up.map ι) = (pdf e up).map ι :=
  ((lift_hom e).softmaxG up).symm

theorem dual_cdf (up : List ℝ) :
    (dualX (NF.realX e)).zero :: setLast (cumsumG (dualX (NF.realX e)) ((pdf e up).map ι)) (dualX (NF.realX e)).one
      = (cdf e up).map ι := by
  have hL := lift_hom e
  unfold cdf
  rw [List.map_cons, XHom.setLast, hL.cumsumG, hL.zero, hL.one]

/-- **the dual program selects the same bin (the integer floor reads the value component) and evaluates that bin's line on
    dual numbers** — for EVERY `x` of the closed domain, knots included (the dual `clamp 0 1` passes value and tangent
    through on `[0,1]`, ties included) -/
theorem linSpline_dual_exec (hv : LinValid e box eps up) (x : ℝ) (hx0 : e box.left ≤ x) (hx1 : x ≤ e box.right) :
    linSpline (dualX (NF.realX e)) box eps (up.map ι) false (x, 1)
      = .ok ((binF e up (idxF up.length (nx e box x)) (nx e box x) * (e box.top - e box.bottom) + e box.bottom,
               pd e up (idxF up.length (nx e box x)) * (up.length : ℝ)
                 * ((e box.top - e box.bottom) / (e box.right - e box.left))),
             (binLdF e up (idxF up.length (nx e box x)) + e (boxLog box), 0)) := by
  obtain ⟨ht0, ht1⟩ := nx_mem hv x hx0 hx1
  have hK0 := K_pos hv.hK
  obtain ⟨hspec, hidx⟩ := idxF_spec hK0
  obtain ⟨hiK, hle, hr⟩ := hspec (nx e box x) (by rw [kn_zero]; exact ht0) (by rw [kn_last hK0]; exact ht1)
  set i := idxF up.length (nx e box x) with hi
  have hle1 : nx e box x ≤ kn up.length (i+1) := by
    rcases hr with hr | ⟨hK, hst⟩
    · exact hr.le
    · rw [hK, kn_last hK0]; exact ht1
  obtain ⟨_, _, hu0, hu1⟩ := binF_mem (e := e) hv.hK i hiK _ hle hle1
  have hz : (if ⌊nx e box x * (up.length : ℝ)⌋ ≥ Int.ofNat up.length then Int.ofNat up.length - 1
      else ⌊nx e box x * (up.length : ℝ)⌋) = ((i : ℕ) : ℤ) := hidx _ ht0 ht1
  have hg : ((dualX (NF.realX e)).lt (x, 1) ((dualX (NF.realX e)).ofFloat box.left)
      || (dualX (NF.realX e)).lt ((dualX (NF.realX e)).ofFloat box.right) (x, 1)) = false := by
    simp only [d_lt, d_ofFloat, Bool.or_eq_false_iff, decide_eq_false_iff_not, not_lt]
    exact ⟨hx0, hx1⟩
  unfold linSpline
  simp only [Bool.false_eq_true, if_false, hg, List.length_map, dual_pdf, dual_cdf, dual_binPos hv, d_floorInt, hz]
  rw [XHom.getI_ok (φ := ι) _ _ _ (SplineTotal.getI_ok (pdf e up) i (by rw [pdf_length]; exact hiK)),
    XHom.getI_ok (φ := ι) _ _ _ (SplineTotal.getI_ok (cdf e up) i (by rw [(cdf_facts hv.hK).1]; omega))]
  simp only [QuadWhole.getElem_eq_getD, Bind.bind, Except.bind, Pure.pure, Except.pure]
  have hin : (dualX (NF.realX e)).add (ι ((cdf e up).getD i 0))
      ((dualX (NF.realX e)).mul
        ((dualX (NF.realX e)).sub (nx e box x * (up.length : ℝ), (up.length : ℝ) / (e box.right - e box.left))
          ((dualX (NF.realX e)).ofRat (i : ℤ) 1))
        (ι ((pdf e up).getD i 0)))
      = (binF e up i (nx e box x), (up.length : ℝ) / (e box.right - e box.left) * pd e up i) := by
    simp only [d_add, d_mul, d_sub, d_ofRat, ι]
    unfold binF cd pd
    refine Prod.ext ?_ ?_ <;> simp
  rw [hin, dual_clamp01_id _ hu0 hu1]
  simp only [d_add, d_mul, d_sub, d_log, d_ofFloat, ι, hv.hdbt]
  have hp := pd_pos (e := e) up i hiK
  congr 1
  refine Prod.ext (Prod.ext rfl ?_) (Prod.ext rfl ?_)
  · show (up.length : ℝ) / (e box.right - e box.left) * pd e up i * (e box.top - e box.bottom)
        + binF e up i (nx e box x) * 0 + 0 = _
    ring
  · show (0 / (pdf e up).getD i 0 - 0 + 0 : ℝ) = 0
    simp

variable (e) in
/-- the slope of bin `k` in box coordinates: `pdf_k · K · (top − bottom)/(right − left)` -/
def slope (box : Box) (up : List ℝ) (k : ℕ) : ℝ :=
  pd e up k * (up.length : ℝ) * ((e box.top - e box.bottom) / (e box.right - e box.left))

/-- **value projection + explicit tangents, whole closed domain** (knots and both ends included): the dual run returns the
    outputs of the real executed program, the tangent of the value is the slope of the selected bin
    `min(⌊x'K⌋, K−1)` (at a knot: the bin to its right, at the right end the last bin), the tangent of the log-det is `0` -/
theorem linSpline_dual_values (hv : LinValid e box eps up) (x : ℝ) (hx0 : e box.left ≤ x) (hx1 : x ≤ e box.right) :
    linSpline (dualX (NF.realX e)) box eps (up.map ι) false (x, 1)
      = .ok ((val e box eps up x, slope e box up (idxF up.length (nx e box x))), (ld e box eps up x, 0)) := by
  rw [linSpline_dual_exec hv x hx0 hx1, val_eq hv x hx0 hx1, ld_eq hv x hx0 hx1]
  rfl

/-- where an open bin sits: inside the box, and the floor-and-repair index is `k` -/
theorem open_bin_facts (hv : LinValid e box eps up) (k : ℕ) (hk : k < up.length) (x : ℝ)
    (h0 : kn up.length k < nx e box x) (h1 : nx e box x < kn up.length (k+1)) :
    e box.left < x ∧ x < e box.right ∧ idxF up.length (nx e box x) = k := by
  have hK0 := K_pos hv.hK
  have hmono := ExecGlue.knots_mono (kn up.length) up.length (kn_strict hK0)
  have hD : 0 < e box.right - e box.left := sub_pos.mpr hv.hlr
  have hn0 : 0 < nx e box x := by
    have := hmono 0 k (Nat.zero_le _) hk.le; rw [kn_zero] at this; linarith
  have hn1 : nx e box x < 1 := by
    have := hmono (k+1) up.length hk le_rfl; rw [kn_last hK0] at this; linarith
  refine ⟨?_, ?_, idxF_in_bin hv.hK k hk _ h0.le h1⟩
  · unfold nx at hn0; rw [lt_div_iff₀ hD] at hn0; linarith
  · unfold nx at hn1; rw [div_lt_one hD] at hn1; linarith

/-- the set of inputs strictly inside bin `k` is a neighbourhood of each of its points -/
theorem open_bin_nhds (hv : LinValid e box eps up) (k : ℕ) (x : ℝ)
    (h0 : kn up.length k < nx e box x) (h1 : nx e box x < kn up.length (k+1)) :
    {z | kn up.length k < nx e box z ∧ nx e box z < kn up.length (k+1)} ∈ 𝓝 x := by
  have hx0 := (nx_bin_iff hv k x).1.mp h0
  have hx1 := (nx_bin_iff hv (k+1) x).2.mp h1
  refine Filter.mem_of_superset (Ioo_mem_nhds hx0 hx1) (fun z hz => ?_)
  exact ⟨(nx_bin_iff hv k z).1.mpr hz.1, (nx_bin_iff hv (k+1) z).2.mpr hz.2⟩

/-- strictly inside bin `k` the executed forward program has derivative the slope of that bin — no hypothesis on the
    Python-side `np.log` constants -/
theorem val_hasDerivAt_slope (hv : LinValid e box eps up) (k : ℕ) (hk : k < up.length) (x : ℝ)
    (h0 : kn up.length k < nx e box x) (h1 : nx e box x < kn up.length (k+1)) :
    HasDerivAt (val e box eps up) (slope e box up k) x := by
  obtain ⟨hxL, hxR, _⟩ := open_bin_facts hv k hk x h0 h1
  have hD : 0 < e box.right - e box.left := sub_pos.mpr hv.hlr
  have hG := GF_hasDerivAt (e := e) hv.hK k hk (nx e box x) h0 h1
  have hlin : HasDerivAt (nx e box) (1 / (e box.right - e box.left)) x := by
    unfold nx
    simpa using ((hasDerivAt_id x).sub_const (e box.left)).div_const (e box.right - e box.left)
  have hc := ((HasDerivAt.comp x hG hlin).mul_const (e box.top - e box.bottom)).add_const (e box.bottom)
  have hev : val e box eps up =ᶠ[𝓝 x]
      (fun x => (GF e up ∘ nx e box) x * (e box.top - e box.bottom) + e box.bottom) :=
    Filter.eventuallyEq_of_mem (Ioo_mem_nhds hxL hxR) (fun z hz => val_eq hv z hz.1.le hz.2.le)
  refine (hc.congr_of_eventuallyEq hev).congr_deriv ?_
  unfold slope
  field_simp

/-- strictly inside a bin the log-abs-det of the executed forward program is locally constant -/
theorem ld_hasDerivAt_zero (hv : LinValid e box eps up) (k : ℕ) (hk : k < up.length) (x : ℝ)
    (h0 : kn up.length k < nx e box x) (h1 : nx e box x < kn up.length (k+1)) :
    HasDerivAt (ld e box eps up) 0 x := by
  have hev : ld e box eps up =ᶠ[𝓝 x] fun _ => binLdF e up k + e (boxLog box) := by
    refine Filter.eventuallyEq_of_mem (open_bin_nhds hv k x h0 h1) (fun z hz => ?_)
    obtain ⟨hzL, hzR, hzk⟩ := open_bin_facts hv k hk z hz.1 hz.2
    show ld e box eps up z = _
    rw [ld_eq hv z hzL.le hzR.le]
    unfold LdF
    rw [hzk]
  exact (hasDerivAt_const x _).congr_of_eventuallyEq hev

/-- **the executed linear spline on dual numbers, explicit tangents** (no hypothesis on the `np.log` constants): for `x`
    strictly inside bin `k` the dual run with zero-tangent parameters returns `((val x, slope_k), (ld x, 0))`, and these
    tangents ARE the derivatives of the two outputs of the real executed program -/
theorem linSpline_dual_slope (hv : LinValid e box eps up) (k : ℕ) (hk : k < up.length) (x : ℝ)
    (h0 : kn up.length k < nx e box x) (h1 : nx e box x < kn up.length (k+1)) :
    linSpline (dualX (NF.realX e)) box eps (up.map ι) false (x, 1)
        = .ok ((val e box eps up x, slope e box up k), (ld e box eps up x, 0)) ∧
      HasDerivAt (val e box eps up) (slope e box up k) x ∧ HasDerivAt (ld e box eps up) 0 x := by
  obtain ⟨hxL, hxR, hik⟩ := open_bin_facts hv k hk x h0 h1
  refine ⟨?_, val_hasDerivAt_slope hv k hk x h0 h1, ld_hasDerivAt_zero hv k hk x h0 h1⟩
  rw [linSpline_dual_values hv x hxL.le hxR.le, hik]

/-- **the executed linear spline on dual numbers** (forward): for `x` strictly inside bin `k` the dual run with
    zero-tangent parameters returns `((val x, exp (ld x)), (ld x, 0))` — the real outputs; the tangent of the value is `exp`
    of the returned log-abs-det and IS `d val / dx`; the tangent of the log-det is `0` and IS `d ld / dx` (locally constant).
    `hlogK`, `hbl`: the two Python-side `np.log` constants are read as the real logarithms (the hypotheses of
    `LinWhole.val_hasDerivAt`; without them `exp (ld x)` is not the slope, see `linSpline_dual_slope` for the form that
    needs neither) -/
theorem linSpline_dual (hv : LinValid e box eps up)
    (hlogK : e (Float.log (1.0 / up.length.toFloat)) = Real.log (1 / (up.length : ℝ)))
    (hbl : e (boxLog box) = Real.log ((e box.top - e box.bottom) / (e box.right - e box.left)))
    (k : ℕ) (hk : k < up.length) (x : ℝ)
    (h0 : kn up.length k < nx e box x) (h1 : nx e box x < kn up.length (k+1)) :
    linSpline (dualX (NF.realX e)) box eps (up.map ι) false (x, 1)
        = .ok ((val e box eps up x, Real.exp (ld e box eps up x)), (ld e box eps up x, 0)) ∧
      HasDerivAt (val e box eps up) (Real.exp (ld e box eps up x)) x ∧ HasDerivAt (ld e box eps up) 0 x := by
  obtain ⟨hr, hdv, hdl⟩ := linSpline_dual_slope hv k hk x h0 h1
  have hexp : Real.exp (ld e box eps up x) = slope e box up k :=
    exp_ld_bin hv hlogK hbl k hk x ((nx_bin_iff hv k x).1.mp h0).le ((nx_bin_iff hv (k+1) x).2.mp h1)
  rw [hexp]
  exact ⟨hr, hdv, hdl⟩

/-- the same in box coordinates: `x` strictly between the consecutive knots `x_k = left + (k/K)(right − left)` -/
theorem linSpline_dual_x (hv : LinValid e box eps up)
    (hlogK : e (Float.log (1.0 / up.length.toFloat)) = Real.log (1 / (up.length : ℝ)))
    (hbl : e (boxLog box) = Real.log ((e box.top - e box.bottom) / (e box.right - e box.left)))
    (k : ℕ) (hk : k < up.length) (x : ℝ) (h0 : xk e box up.length k < x) (h1 : x < xk e box up.length (k+1)) :
    linSpline (dualX (NF.realX e)) box eps (up.map ι) false (x, 1)
        = .ok ((val e box eps up x, Real.exp (ld e box eps up x)), (ld e box eps up x, 0)) ∧
      HasDerivAt (val e box eps up) (Real.exp (ld e box eps up x)) x ∧ HasDerivAt (ld e box eps up) 0 x :=
  linSpline_dual hv hlogK hbl k hk x ((nx_bin_iff hv k x).1.mpr h0) ((nx_bin_iff hv (k+1) x).2.mpr h1)

/-- the `DualRes` form of `Lemmas/DualXNonlin.lean`: the dual run is sound for the real program
    `s ↦ linSpline (realX e) box eps up false s` at every `x` strictly inside a bin (no hypothesis on the `np.log` constants) -/
theorem linSpline_dualRes (hv : LinValid e box eps up) (k : ℕ) (hk : k < up.length) (x : ℝ)
    (h0 : kn up.length k < nx e box x) (h1 : nx e box x < kn up.length (k+1)) :
    DualRes (fun s => linSpline (NF.realX e) box eps up false s) x
      (linSpline (dualX (NF.realX e)) box eps (up.map ι) false (x, 1)) := by
  obtain ⟨hr, hdv, hdl⟩ := linSpline_dual_slope hv k hk x h0 h1
  obtain ⟨hxL, hxR, _⟩ := open_bin_facts hv k hk x h0 h1
  exact ⟨_, _, hr, exec_ok hv x hxL.le hxR.le, hdv, hdl⟩

/-- **what the dual run returns AT a knot (and anywhere in `[x_k, x_{k+1})`): the right-hand derivative.**  The selected bin
    at `x' = k/K` is the bin to the right, so the tangent is the slope of bin `k`, the derivative of the executed program
    from the right; from the left the slope is that of bin `k−1` (a kink: a convention, as for `torch.autograd`) -/
theorem linSpline_dual_right (hv : LinValid e box eps up) (k : ℕ) (hk : k < up.length) (x : ℝ)
    (h0 : kn up.length k ≤ nx e box x) (h1 : nx e box x < kn up.length (k+1)) :
    linSpline (dualX (NF.realX e)) box eps (up.map ι) false (x, 1)
        = .ok ((val e box eps up x, slope e box up k), (ld e box eps up x, 0)) ∧
      HasDerivWithinAt (val e box eps up) (slope e box up k) (Set.Ici x) x := by
  have hK0 := K_pos hv.hK
  have hD : 0 < e box.right - e box.left := sub_pos.mpr hv.hlr
  have hmono := ExecGlue.knots_mono (kn up.length) up.length (kn_strict hK0)
  have hk0 : 0 ≤ kn up.length k := by rw [← kn_zero up.length]; exact hmono 0 k (Nat.zero_le _) hk.le
  have hk1 : kn up.length (k+1) ≤ 1 := by rw [← kn_last hK0]; exact hmono (k+1) up.length hk le_rfl
  have hnx : ∀ z, nx e box z * (e box.right - e box.left) = z - e box.left := by
    intro z; unfold nx; field_simp
  have hxL : e box.left ≤ x := by nlinarith [hnx x]
  have hx1 : x < xk e box up.length (k+1) := (nx_bin_iff hv (k+1) x).2.mp h1
  have hx1R : xk e box up.length (k+1) ≤ e box.right := by unfold xk; nlinarith
  refine ⟨?_, ?_⟩
  · rw [linSpline_dual_values hv x hxL (hx1.le.trans hx1R), idxF_in_bin hv.hK k hk _ h0 h1]
  · have hlin : HasDerivAt (nx e box) (1 / (e box.right - e box.left)) x := by
      unfold nx
      simpa using ((hasDerivAt_id x).sub_const (e box.left)).div_const (e box.right - e box.left)
    have hb := binF_hasDerivAt (e := e) up k (nx e box x)
    have hc := ((HasDerivAt.comp x hb hlin).mul_const (e box.top - e box.bottom)).add_const (e box.bottom)
    have heq : ∀ z ∈ Set.Icc x (xk e box up.length (k+1)),
        val e box eps up z = (binF e up k ∘ nx e box) z * (e box.top - e box.bottom) + e box.bottom := by
      intro z hz
      have hzn : nx e box x ≤ nx e box z := (nx_strictMono hv).monotone hz.1
      have hzn1 : nx e box z ≤ kn up.length (k+1) := by
        have h := hz.2
        unfold nx; unfold xk at h; rw [div_le_iff₀ hD]; linarith
      rw [val_eq hv z (hxL.trans hz.1) (hz.2.trans hx1R), GF_eqOn_bin hv.hK k hk ⟨h0.trans hzn, hzn1⟩]
      rfl
    have hev : val e box eps up =ᶠ[nhdsWithin x (Set.Ici x)]
        (fun z => (binF e up k ∘ nx e box) z * (e box.top - e box.bottom) + e box.bottom) :=
      Filter.eventuallyEq_of_mem (Icc_mem_nhdsGE hx1) heq
    refine (hc.hasDerivWithinAt.congr_of_eventuallyEq hev (heq _ ⟨le_rfl, hx1.le⟩)).congr_deriv ?_
    unfold slope
    field_simp

/-! ### non-vacuity -/

private theorem bz : ((0.0:Float) == 0.0) = true := by decide +kernel
private theorem bo : ((1.0:Float) == 0.0) = false := by decide +kernel

theorem nx_unit (x : ℝ) : nx RQWhole.eNV ⟨0.0, 1.0, 0.0, 1.0⟩ x = x := by
  unfold nx; simp [RQWhole.eNV, bz, bo]

/-- non-vacuity on the concrete accepted configuration `LinWhole.valid_example` (three bins `[0, 1, −1]` on the unit box):
    in the middle bin the dual run returns the real outputs with the slope of bin 1 and tangent `0` for the log-det, and
    these are the derivatives of the real executed program -/
theorem linSpline_dual_example (x : ℝ) (h0 : 1/3 < x) (h1 : x < 2/3) :
    linSpline (dualX (NF.realX RQWhole.eNV)) ⟨0.0, 1.0, 0.0, 1.0⟩ 1e-6 [ι 0, ι 1, ι (-1)] false (x, 1)
        = .ok ((val RQWhole.eNV ⟨0.0, 1.0, 0.0, 1.0⟩ 1e-6 [0, 1, -1] x, slope RQWhole.eNV ⟨0.0, 1.0, 0.0, 1.0⟩ [0, 1, -1] 1),
               (ld RQWhole.eNV ⟨0.0, 1.0, 0.0, 1.0⟩ 1e-6 [0, 1, -1] x, 0)) ∧
      HasDerivAt (val RQWhole.eNV ⟨0.0, 1.0, 0.0, 1.0⟩ 1e-6 [0, 1, -1])
        (slope RQWhole.eNV ⟨0.0, 1.0, 0.0, 1.0⟩ [0, 1, -1] 1) x ∧
      HasDerivAt (ld RQWhole.eNV ⟨0.0, 1.0, 0.0, 1.0⟩ 1e-6 [0, 1, -1]) 0 x := by
  refine linSpline_dual_slope valid_example 1 (by simp) x ?_ ?_
  · rw [nx_unit]; unfold kn; simp only [List.length_cons, List.length_nil]; norm_num; linarith
  · rw [nx_unit]; unfold kn; simp only [List.length_cons, List.length_nil]; norm_num; linarith

/-- non-vacuity of the headline `linSpline_dual` (one bin, unit box) as soon as the two IEEE facts `log(1.0/1.0) == 0.0` and
    `log((1.0−0.0)/(1.0−0.0)) == 0.0` are granted (`Float.log` is opaque to the kernel, see `LinWhole.logs_example`) -/
theorem linSpline_dual_example_logs (h1 : (Float.log (1.0 / (1:ℕ).toFloat) == 0.0) = true)
    (h2 : (boxLog ⟨0.0, 1.0, 0.0, 1.0⟩ == 0.0) = true) (x : ℝ) (hx0 : 0 < x) (hx1 : x < 1) :
    linSpline (dualX (NF.realX RQWhole.eNV)) ⟨0.0, 1.0, 0.0, 1.0⟩ 1e-6 [ι 0] false (x, 1)
        = .ok ((val RQWhole.eNV ⟨0.0, 1.0, 0.0, 1.0⟩ 1e-6 [0] x, Real.exp (ld RQWhole.eNV ⟨0.0, 1.0, 0.0, 1.0⟩ 1e-6 [0] x)),
               (ld RQWhole.eNV ⟨0.0, 1.0, 0.0, 1.0⟩ 1e-6 [0] x, 0)) ∧
      HasDerivAt (val RQWhole.eNV ⟨0.0, 1.0, 0.0, 1.0⟩ 1e-6 [0])
        (Real.exp (ld RQWhole.eNV ⟨0.0, 1.0, 0.0, 1.0⟩ 1e-6 [0] x)) x ∧
      HasDerivAt (ld RQWhole.eNV ⟨0.0, 1.0, 0.0, 1.0⟩ 1e-6 [0]) 0 x := by
  obtain ⟨hl1, hl2⟩ := logs_example h1 h2
  refine linSpline_dual (valid_unit_box [0] (by simp)) hl1 hl2 0 (by simp) x ?_ ?_
  · rw [nx_unit]; unfold kn; simpa using hx0
  · rw [nx_unit]; unfold kn; simpa using hx1

end
end DualXLin
