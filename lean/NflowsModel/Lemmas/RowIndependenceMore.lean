import NflowsModel.Core.Norm
import NflowsModel.Core.Density
import NflowsModel.Core.FlowPairing
import NflowsModel.Core.LinearFamily
import NflowsModel.Real.RealX
import NflowsModel.Lemmas.LogdetExecNorm
import NflowsModel.Lemmas.LogdetExecConv
import Mathlib.Tactic
/-!
# Lemmas/RowIndependenceMore — C12 for the executed normalisation layers (evaluation mode), distributions, flows, 1×1 convolution

`Properties/C12.lean` lists as "not covered by a theorem": distributions and flows (`log_prob` of a batch vs rows), 1×1 convolution,
normalisation layers in evaluation mode.  This file proves, for the EXECUTED definitions of `Core/` and for EVERY scalar semantics
(`o : XOps α` / `o : Ops α`, hence bit-for-bit for the `Float` run): running the batch = running every row alone.

* §1 `bn_eval_forward_row_independent`, `bn_eval_inverse_row_independent` (machine step `bnStep`, evaluation mode),
  `act_forward_row_independent` (initialised or evaluation mode, 2-D and 4-D), `act_inverse_row_independent` (any state);
  CONTRAST at `NF.realX e`: `bn_training_not_row_independent`, `act_init_not_row_independent`.
* §2 `RowIndep` (values agree when accepted; a batch-level rejection is the rejection of every row) for
  `stdNormalLogProb`, `diagNormalLogProb`, `condNormalLogProb`, `bernLogProb`, `mogLogProb`; `RowIndep.ok_iff`.
* §3 `flowLogProbBatch` (flows/base.py:42-49 on whole batches) `= FlowPairing.flowLogProb` row by row, under `RowWise`.
* §4 `conv_forward_item_independent`, `conv_inverse_item_independent` (`OneByOneConvolution`, any `Ops α`).
* §5 concrete instances by `decide` at a toy `Int` semantics.

Forced hypotheses: `perm.getD c 0 < n` / `perm.idxOf c < n` for the convolution (a channel index outside `0..n-1` would address the
next batch item in the flat NCHW list — model artefact, `index_select` raises in torch); `pShape ≠ []` for the conditional normal
(counterexample in §5); `params.length = rows.length` there (rectangular encoder output).
-/
open NF NF.Norm

namespace NF.RowIndependenceMore

/-! ## 0. a computable scalar semantics for the concrete examples (`Int`, transcendental functions = identity) -/

/-- toy operations on `Int` (only used to evaluate the generic theorems on concrete batches by `decide`) -/
def intOps : Ops Int where
  ofRat n d := n / (d : Int)
  add := (· + ·); sub := (· - ·); mul := (· * ·); div := (· / ·); neg := (- ·)
  exp := id; log := id; sqrt := id
  lt a b := decide (a < b)

def intX : XOps Int where
  toOps := intOps
  ofFloat _ := 0
  toFloat _ := 0
  le a b := decide (a ≤ b)
  tanh := id; atan := id; tan := id; cos := id; sin := id
  atan2 a _ := a; abs x := (x.natAbs : Int); floor := id
  floorInt := id
  nextUp := id
  isFinite _ := true

/-! ## 1. Normalisation layers -/

section norm
variable {α : Type} (o : XOps α)

/-- item `i` of a batch, as a batch of size one -/
def item? : Batch α → Nat → Option (Batch α)
  | .d2 rows, i => (rows[i]?).map fun r => .d2 [r]
  | .d4 h w imgs, i => (imgs[i]?).map fun img => .d4 h w [img]
  | .bad _, _ => none

/-- **BatchNorm, evaluation mode, forward (executed machine step).**  The state is unchanged, the call succeeds, and for every row `r = rows[i]`
    the call on the one-row batch `[r]` returns exactly row `i` of the batch output and entry `i` of the batch log-det. -/
theorem bn_eval_forward_row_independent (cfg : BNCfg α) (F : Nat) (s : BNSt α) (hs : s.training = false)
    (rows : List (List α)) :
    ∃ (outs : List (List α)) (lds : List α), bnStep o cfg F s (.fwd (.d2 rows)) = (s, some (.ok (.d2 outs, lds))) ∧
      outs.length = rows.length ∧ lds.length = rows.length ∧
      ∀ (i : Nat) (r : List α), rows[i]? = some r → ∃ (y : List α) (l : α), outs[i]? = some y ∧ lds[i]? = some l ∧
        bnStep o cfg F s (.fwd (.d2 [r])) = (s, some (.ok (.d2 [y], [l]))) := by
  refine ⟨bnNormalise o cfg F s.runMean s.runVar s.uweight s.bias rows,
    bnLogdet o cfg F s.runVar s.uweight rows.length false, by simp [bnStep, hs], by simp [bnNormalise],
    by simp [bnLogdet], ?_⟩
  intro i r hr
  have hi : i < rows.length := (List.getElem?_eq_some_iff.mp hr).1
  refine ⟨_, _, by simp [bnNormalise, hr]; rfl, by simp [bnLogdet, hi]; rfl, ?_⟩
  simp [bnStep, hs, bnNormalise, bnLogdet]

/-- **BatchNorm, evaluation mode, inverse.** -/
theorem bn_eval_inverse_row_independent (cfg : BNCfg α) (F : Nat) (s : BNSt α) (hs : s.training = false)
    (rows : List (List α)) :
    ∃ (outs : List (List α)) (lds : List α), bnStep o cfg F s (.inv (.d2 rows)) = (s, some (.ok (.d2 outs, lds))) ∧
      outs.length = rows.length ∧ lds.length = rows.length ∧
      ∀ (i : Nat) (r : List α), rows[i]? = some r → ∃ (y : List α) (l : α), outs[i]? = some y ∧ lds[i]? = some l ∧
        bnStep o cfg F s (.inv (.d2 [r])) = (s, some (.ok (.d2 [y], [l]))) := by
  refine ⟨bnDenormalise o cfg F s.runMean s.runVar s.uweight s.bias rows,
    bnLogdet o cfg F s.runVar s.uweight rows.length true, by simp [bnStep, hs], by simp [bnDenormalise],
    by simp [bnLogdet], ?_⟩
  intro i r hr
  have hi : i < rows.length := (List.getElem?_eq_some_iff.mp hr).1
  refine ⟨_, _, by simp [bnDenormalise, hr]; rfl, by simp [bnLogdet, hi]; rfl, ?_⟩
  simp [bnStep, hs, bnDenormalise, bnLogdet]

/-- the per-item log-det value of ActNorm -/
theorem actLogdet_item (ls : List α) (b bi : Batch α) (inverse : Bool) (i : Nat) (h : item? b i = some bi) :
    ∃ l, (actLogdet o ls b inverse)[i]? = some l ∧ actLogdet o ls bi inverse = [l] := by
  cases b with
  | bad d => simp [item?] at h
  | d2 rows =>
    simp only [item?, Option.map_eq_some_iff] at h
    obtain ⟨r, hr, rfl⟩ := h
    have hi : i < rows.length := (List.getElem?_eq_some_iff.mp hr).1
    exact ⟨_, by simp [actLogdet, Batch.size, hi]; rfl, by simp [actLogdet, Batch.size]⟩
  | d4 h' w imgs =>
    simp only [item?, Option.map_eq_some_iff] at h
    obtain ⟨r, hr, rfl⟩ := h
    have hi : i < imgs.length := (List.getElem?_eq_some_iff.mp hr).1
    exact ⟨_, by simp [actLogdet, Batch.size, hi]; rfl, by simp [actLogdet, Batch.size]⟩

/-- a per-feature map acts item by item -/
theorem mapCh_item (F : Nat) (f : Nat → α → α) (b bi : Batch α) (i : Nat) (h : item? b i = some bi) :
    item? (b.mapCh o F f) i = some (bi.mapCh o F f) := by
  cases b with
  | bad d => simp [item?] at h
  | d2 rows =>
    simp only [item?, Option.map_eq_some_iff] at h
    obtain ⟨r, hr, rfl⟩ := h
    simp [item?, Batch.mapCh, hr]
  | d4 h' w imgs =>
    simp only [item?, Option.map_eq_some_iff] at h
    obtain ⟨r, hr, rfl⟩ := h
    simp [item?, Batch.mapCh, hr]

theorem item?_valid (b bi : Batch α) (i : Nat) (h : item? b i = some bi) : b.valid24 = true ∧ bi.valid24 = true := by
  cases b with
  | bad d => simp [item?] at h
  | d2 rows =>
    simp only [item?, Option.map_eq_some_iff] at h
    obtain ⟨r, hr, rfl⟩ := h
    simp [Batch.valid24]
  | d4 h' w imgs =>
    simp only [item?, Option.map_eq_some_iff] at h
    obtain ⟨r, hr, rfl⟩ := h
    simp [Batch.valid24]

/-- **ActNorm after initialisation (or in evaluation mode), forward, 2-D and 4-D (executed machine step).**  In a state that will not
    initialise, the call on a valid batch leaves the state unchanged and, for every item `i`, the call on that item alone returns
    item `i` of the batch output and entry `i` of the batch log-det (with the `h·w` factor for images). -/
theorem act_forward_row_independent (F : Nat) (s : ActSt α) (hs : s.initialized = true ∨ s.training = false)
    (b : Batch α) (hv : b.valid24 = true) :
    ∃ (out : Batch α) (lds : List α), actStep o F s (.fwd b) = (s, some (.ok (out, lds))) ∧
      out.size = b.size ∧ lds.length = b.size ∧
      ∀ (i : Nat) (bi : Batch α), item? b i = some bi → ∃ (yi : Batch α) (l : α), item? out i = some yi ∧ lds[i]? = some l ∧
        actStep o F s (.fwd bi) = (s, some (.ok (yi, [l]))) := by
  have hno : (s.training && !s.initialized) = false := by
    rcases hs with h | h <;> simp [h]
  refine ⟨actApply o F s.logScale s.shift b, actLogdet o s.logScale b false, by simp [actStep, hv, hno], ?_,
    by simp [actLogdet], ?_⟩
  · cases b <;> simp [actApply, Batch.mapCh, Batch.size]
  · intro i bi hbi
    obtain ⟨l, hl1, hl2⟩ := actLogdet_item o s.logScale b bi false i hbi
    refine ⟨actApply o F s.logScale s.shift bi, l, mapCh_item o F _ b bi i hbi, hl1, ?_⟩
    simp [actStep, (item?_valid b bi i hbi).2, hno, hl2]

/-- **ActNorm, inverse** (never initialises: any state). -/
theorem act_inverse_row_independent (F : Nat) (s : ActSt α) (b : Batch α) (hv : b.valid24 = true) :
    ∃ (out : Batch α) (lds : List α), actStep o F s (.inv b) = (s, some (.ok (out, lds))) ∧
      out.size = b.size ∧ lds.length = b.size ∧
      ∀ (i : Nat) (bi : Batch α), item? b i = some bi → ∃ (yi : Batch α) (l : α), item? out i = some yi ∧ lds[i]? = some l ∧
        actStep o F s (.inv bi) = (s, some (.ok (yi, [l]))) := by
  refine ⟨actUnapply o F s.logScale s.shift b, actLogdet o s.logScale b true, by simp [actStep, hv], ?_,
    by simp [actLogdet], ?_⟩
  · cases b <;> simp [actUnapply, Batch.mapCh, Batch.size]
  · intro i bi hbi
    obtain ⟨l, hl1, hl2⟩ := actLogdet_item o s.logScale b bi true i hbi
    refine ⟨actUnapply o F s.logScale s.shift bi, l, mapCh_item o F _ b bi i hbi, hl1, ?_⟩
    simp [actStep, (item?_valid b bi i hbi).2, hl2]

end norm

/-! ### the contrast: training-mode BatchNorm and the initialising call of ActNorm are NOT row independent -/

section contrast
variable (e : Float → ℝ)

/-- the batch `[[0], [2]]` through training-mode BatchNorm (one feature): row 0 of the output is
    `w · ((0 - 1) / √(2 + eps)) + bias`, while the row `[0]` alone gives `bias` -/
theorem bn_training_batch_value (cfg : BNCfg ℝ) (s : BNSt ℝ) (hs : s.training = true) :
    (bnStep (NF.realX e) cfg 1 s (.fwd (.d2 [[0], [2]]))).2 =
      some (.ok (.d2 (bnNormalise (NF.realX e) cfg 1 [1] [2] s.uweight s.bias [[0], [2]]),
        bnLogdet (NF.realX e) cfg 1 [2] s.uweight 2 false)) := by
  simp [bnStep, hs, colMeans, colVars, meanL, varUL, sumG, Batch.col]
  norm_num

theorem bn_training_single_value (cfg : BNCfg ℝ) (s : BNSt ℝ) (hs : s.training = true) :
    (bnStep (NF.realX e) cfg 1 s (.fwd (.d2 [[0]]))).2 =
      some (.ok (.d2 (bnNormalise (NF.realX e) cfg 1 [0] [0] s.uweight s.bias [[0]]),
        bnLogdet (NF.realX e) cfg 1 [0] s.uweight 1 false)) := by
  simp [bnStep, hs, colMeans, colVars, meanL, varUL, sumG, Batch.col]

/-- **BatchNorm in TRAINING mode is not row independent** (for every state in training mode and every `eps > 0`): on the batch
    `[[0], [2]]` the call succeeds, and row 0 of its output is NOT what the row `[0]` evaluated alone returns (whatever log-det
    one pairs it with).  This is the statement of `bn_eval_forward_row_independent` with `training = true`, refuted. -/
theorem bn_training_not_row_independent (cfg : BNCfg ℝ) (heps : 0 < cfg.eps) (s : BNSt ℝ) (hs : s.training = true) :
    ∃ (rows outs : List (List ℝ)) (lds : List ℝ),
      (bnStep (NF.realX e) cfg 1 s (.fwd (.d2 rows))).2 = some (.ok (.d2 outs, lds)) ∧
      ∃ (i : Nat) (r y : List ℝ), rows[i]? = some r ∧ outs[i]? = some y ∧
        ∀ l : List ℝ, (bnStep (NF.realX e) cfg 1 s (.fwd (.d2 [r]))).2 ≠ some (.ok (.d2 [y], l)) := by
  refine ⟨[[0], [2]], _, _, bn_training_batch_value e cfg s hs, 0, [0], _, rfl, rfl, ?_⟩
  intro l h
  rw [bn_training_single_value e cfg s hs] at h
  have hw := LogdetExec.bnWeight_pos e cfg heps.le s.uweight 0
  have h1 : 0 < Real.sqrt (2 + cfg.eps) := Real.sqrt_pos.mpr (by linarith)
  simp [bnNormalise] at h
  have h2 := h.1
  rcases h2 with h2 | h2
  · linarith
  · have : (0:ℝ) < Real.sqrt (2 + cfg.eps) := h1
    have h3 : (0:ℝ) < (Real.sqrt (2 + cfg.eps))⁻¹ := inv_pos.mpr this
    linarith

/-- the initialising call of ActNorm on the batch `[[0], [2]]` (one feature): `std = √2`, `log_scale = -log √2`,
    `shift = -mean(x / std)` -/
theorem act_init_batch_value (s : ActSt ℝ) (hs : s.training = true) (hi : s.initialized = false) :
    (actStep (NF.realX e) 1 s (.fwd (.d2 [[0], [2]]))).2 =
      some (.ok (actApply (NF.realX e) 1 [-Real.log (Real.sqrt 2)] [-(2 / Real.sqrt 2 / 2)] (.d2 [[0], [2]]),
        actLogdet (NF.realX e) [-Real.log (Real.sqrt 2)] (.d2 [[0], [2]]) false)) := by
  simp [actStep, hs, hi, Batch.valid24, actInit, actInitCol, meanL, varUL, sumG, Batch.col]
  norm_num

theorem act_init_single_value (s : ActSt ℝ) (hs : s.training = true) (hi : s.initialized = false) :
    (actStep (NF.realX e) 1 s (.fwd (.d2 [[0]]))).2 =
      some (.ok (actApply (NF.realX e) 1 [0] [0] (.d2 [[0]]), actLogdet (NF.realX e) [0] (.d2 [[0]]) false)) := by
  simp [actStep, hs, hi, Batch.valid24, actInit, actInitCol, meanL, varUL, sumG, Batch.col]

/-- **The first (initialising) forward call of ActNorm is not row independent**: in a fresh training-mode state, on the batch
    `[[0], [2]]` the call succeeds and row 0 of its output (`-(2/√2)/2`) is NOT what the row `[0]` evaluated alone returns (`0`). -/
theorem act_init_not_row_independent (s : ActSt ℝ) (hs : s.training = true) (hi : s.initialized = false) :
    ∃ (rows outs : List (List ℝ)) (lds : List ℝ),
      (actStep (NF.realX e) 1 s (.fwd (.d2 rows))).2 = some (.ok (.d2 outs, lds)) ∧
      ∃ (i : Nat) (r y : List ℝ), rows[i]? = some r ∧ outs[i]? = some y ∧
        ∀ l : List ℝ, (actStep (NF.realX e) 1 s (.fwd (.d2 [r]))).2 ≠ some (.ok (.d2 [y], l)) := by
  refine ⟨[[0], [2]], _, _, act_init_batch_value e s hs hi, 0, [0], _, rfl, rfl, ?_⟩
  intro l h
  rw [act_init_single_value e s hs hi] at h
  have h1 : 0 < Real.sqrt 2 := Real.sqrt_pos.mpr (by norm_num)
  simp [actApply, Batch.mapCh] at h

end contrast

/-! ## 2. `log_prob` of the executed distributions (`Core/Density.lean`) -/

section dist
open NF.Density
variable {α : Type} (o : XOps α)

/-- "the batch call = every row alone", for a call that returns one value per row or raises for the whole batch:
    * if the batch call returns `lps`, it has one entry per row and row `i` alone returns `[lps[i]]`;
    * if the batch call raises `err`, every row alone raises `err`
    (so: for a non-empty batch, the batch is accepted iff every row alone is, and then the values agree). -/
def RowIndep (batch : Except DErr (List α)) (n : Nat) (single : Nat → Except DErr (List α)) : Prop :=
  (∀ lps, batch = .ok lps → lps.length = n ∧ ∀ i, i < n → ∃ l, lps[i]? = some l ∧ single i = .ok [l]) ∧
  (∀ err, batch = .error err → ∀ i, i < n → single i = .error err)

/-- for a non-empty batch: accepted iff every row alone is accepted -/
theorem RowIndep.ok_iff {batch : Except DErr (List α)} {n : Nat} {single : Nat → Except DErr (List α)}
    (h : RowIndep batch n single) (hn : 0 < n) :
    (∃ lps, batch = .ok lps) ↔ ∀ i, i < n → ∃ l, single i = .ok [l] := by
  constructor
  · rintro ⟨lps, hl⟩ i hi
    obtain ⟨l, -, h2⟩ := (h.1 lps hl).2 i hi
    exact ⟨l, h2⟩
  · intro hall
    cases hb : batch with
    | ok lps => exact ⟨lps, rfl⟩
    | error err =>
      obtain ⟨l, hl⟩ := hall 0 hn
      rw [h.2 err hb 0 hn] at hl
      cases hl

/-- the common shape of the executed `log_prob`s: checks that do not look at the values, then one value per row -/
theorem rowIndep_of_form (chk : Except DErr Unit) (ys : List α) (batch : Except DErr (List α))
    (single : Nat → Except DErr (List α)) (hb : batch = chk >>= fun _ => pure ys)
    (hs : ∀ i (h : i < ys.length), single i = chk >>= fun _ => pure [ys[i]]) :
    RowIndep batch ys.length single := by
  subst hb
  cases chk with
  | error e =>
    refine ⟨fun lps h => by simp [bind, Except.bind] at h, fun err h i hi => ?_⟩
    rw [hs i hi]
    simpa [bind, Except.bind] using h
  | ok u =>
    refine ⟨fun lps h => ?_, fun err h => by simp [bind, Except.bind, pure, Except.pure] at h⟩
    simp only [bind, Except.bind, pure, Except.pure, Except.ok.injEq] at h
    subst h
    exact ⟨rfl, fun i hi => ⟨ys[i], by simp [hi], by rw [hs i hi]; rfl⟩⟩

/-- the context-row count handed to `Distribution.log_prob`: none, or one context row per input row -/
def ctxOf (c : Bool) (n : Nat) : Option Nat := if c then some n else none

theorem baseCheck_ctxOf (c : Bool) (n : Nat) : baseCheck n (ctxOf c n) = .ok () := by
  cases c <;> simp [baseCheck, ctxOf]

/-- **`StandardNormal.log_prob`**: batch = rows alone (with or without a context of matching row count) -/
theorem stdNormal_logProb_row_independent (shape inShape : List Nat) (c : Bool) (rows : List (List α)) :
    RowIndep (stdNormalLogProb o shape inShape (ctxOf c rows.length) rows) rows.length
      (fun i => stdNormalLogProb o shape inShape (ctxOf c 1) [rows.getD i []]) := by
  have h := rowIndep_of_form (shapeCheck shape inShape) (rows.map (stdNormalRow o (numel shape)))
    (stdNormalLogProb o shape inShape (ctxOf c rows.length) rows)
    (fun i => stdNormalLogProb o shape inShape (ctxOf c 1) [rows.getD i []])
    (by unfold stdNormalLogProb; rw [baseCheck_ctxOf]; rfl)
    (by
      intro i hi
      have hi' : i < rows.length := by simpa using hi
      unfold stdNormalLogProb
      rw [show ([rows.getD i []] : List (List α)).length = 1 from rfl, baseCheck_ctxOf]
      simp [List.getD_eq_getElem?_getD, hi']
      rfl)
  simpa using h

/-- **`DiagonalNormal.log_prob`** (parameters shared by the batch) -/
theorem diagNormal_logProb_row_independent (shape inShape : List Nat) (c : Bool) (mean logStd : List α)
    (rows : List (List α)) :
    RowIndep (diagNormalLogProb o shape inShape (ctxOf c rows.length) mean logStd rows) rows.length
      (fun i => diagNormalLogProb o shape inShape (ctxOf c 1) mean logStd [rows.getD i []]) := by
  have h := rowIndep_of_form (shapeCheck shape inShape) (rows.map (diagNormalRow o (numel shape) mean logStd))
    (diagNormalLogProb o shape inShape (ctxOf c rows.length) mean logStd rows)
    (fun i => diagNormalLogProb o shape inShape (ctxOf c 1) mean logStd [rows.getD i []])
    (by unfold diagNormalLogProb; rw [baseCheck_ctxOf]; rfl)
    (by
      intro i hi
      have hi' : i < rows.length := by simpa using hi
      unfold diagNormalLogProb
      rw [show ([rows.getD i []] : List (List α)).length = 1 from rfl, baseCheck_ctxOf]
      simp [List.getD_eq_getElem?_getD, hi']
      rfl)
  simpa using h

/-- the value-independent checks of `ConditionalDiagonalNormal._compute_params` on an encoder output `[R] ++ pShape` with
    `pShape ≠ []`: even last dimension, `reshape` possible -/
def condChk (shape pShape : List Nat) : Except DErr Unit :=
  if (pShape.getLast?.getD 0) % 2 != 0 then .error runtimeErr
  else if numel pShape / 2 != numel shape then .error runtimeErr else .ok ()

theorem condNormalParams_eq (shape pShape : List Nat) (hp : pShape ≠ []) (R : Nat) (params : List (List α)) :
    condNormalParams shape (some R) R pShape params = condChk shape pShape >>= fun _ =>
      pure (params.map (fun p => (splitHalves (pShape.getLast?.getD 0) p).1),
            params.map (fun p => (splitHalves (pShape.getLast?.getD 0) p).2)) := by
  cases pShape with
  | nil => exact absurd rfl hp
  | cons a t =>
    simp only [condNormalParams, condChk, List.getLast?_cons_cons, bne_self_eq_false]
    split_ifs <;> first | rfl | (exfalso; assumption)

/-- **`ConditionalDiagonalNormal.log_prob`** given the (row-wise) context-encoder output `params : [B] ++ pShape`: batch = rows
    alone, row `i` alone being given context/parameter row `i`. -/
theorem condNormal_logProb_row_independent (shape inShape pShape : List Nat) (hp : pShape ≠ [])
    (params rows : List (List α)) (hlen : params.length = rows.length) :
    RowIndep (condNormalLogProb o shape inShape (some rows.length) rows.length pShape params rows) rows.length
      (fun i => condNormalLogProb o shape inShape (some 1) 1 pShape [params.getD i []] [rows.getD i []]) := by
  have h := rowIndep_of_form (shapeCheck shape inShape >>= fun _ => condChk shape pShape)
    ((List.range rows.length).map fun i => diagNormalRow o (numel shape)
      ((params.map (fun p => (splitHalves (pShape.getLast?.getD 0) p).1)).getD i [])
      ((params.map (fun p => (splitHalves (pShape.getLast?.getD 0) p).2)).getD i []) (rows.getD i []))
    (condNormalLogProb o shape inShape (some rows.length) rows.length pShape params rows)
    (fun i => condNormalLogProb o shape inShape (some 1) 1 pShape [params.getD i []] [rows.getD i []])
    (by
      unfold condNormalLogProb
      rw [condNormalParams_eq shape pShape hp]
      simp only [baseCheck, bne_self_eq_false, Bool.false_eq_true, if_false]
      generalize shapeCheck shape inShape = a
      generalize condChk shape pShape = b
      cases a <;> cases b <;> rfl)
    (by
      intro i hi
      have hi' : i < rows.length := by simpa using hi
      have hi'' : i < params.length := by omega
      unfold condNormalLogProb
      rw [show ([rows.getD i []] : List (List α)).length = 1 from rfl, condNormalParams_eq shape pShape hp]
      simp only [baseCheck, bne_self_eq_false, Bool.false_eq_true, if_false]
      generalize shapeCheck shape inShape = a
      generalize condChk shape pShape = b
      cases a <;> cases b <;> simp [bind, Except.bind, pure, Except.pure, List.getD_eq_getElem?_getD, hi', hi''])
  simpa using h

def bernChk (shape pShape : List Nat) : Except DErr Unit :=
  if numel pShape != numel shape then .error runtimeErr else .ok ()

theorem bernParams_eq (shape pShape : List Nat) (R : Nat) (params : List (List α)) :
    bernParams shape (some R) R pShape params = bernChk shape pShape >>= fun _ => pure params := by
  simp only [bernParams, bernChk, bne_self_eq_false]
  split_ifs <;> first | rfl | (exfalso; assumption)

/-- **`ConditionalIndependentBernoulli.log_prob`** given the (row-wise) encoder output: batch = rows alone -/
theorem bern_logProb_row_independent (shape inShape pShape : List Nat) (params rows : List (List α)) :
    RowIndep (bernLogProb o shape inShape (some rows.length) rows.length pShape params rows) rows.length
      (fun i => bernLogProb o shape inShape (some 1) 1 pShape [params.getD i []] [rows.getD i []]) := by
  have h := rowIndep_of_form (shapeCheck shape inShape >>= fun _ => bernChk shape pShape)
    ((List.range rows.length).map fun i => bernRow o (params.getD i []) (rows.getD i []))
    (bernLogProb o shape inShape (some rows.length) rows.length pShape params rows)
    (fun i => bernLogProb o shape inShape (some 1) 1 pShape [params.getD i []] [rows.getD i []])
    (by
      unfold bernLogProb
      rw [bernParams_eq shape pShape]
      simp only [baseCheck, bne_self_eq_false, Bool.false_eq_true, if_false]
      generalize shapeCheck shape inShape = a
      generalize bernChk shape pShape = b
      cases a <;> cases b <;> rfl)
    (by
      intro i hi
      unfold bernLogProb
      rw [show ([rows.getD i []] : List (List α)).length = 1 from rfl, bernParams_eq shape pShape]
      simp only [baseCheck, bne_self_eq_false, Bool.false_eq_true, if_false]
      generalize shapeCheck shape inShape = a
      generalize bernChk shape pShape = b
      cases a <;> cases b <;> simp [bind, Except.bind, pure, Except.pure])
  simpa using h

/-- **`MADEMoG.log_prob`** given the (row-wise) MADE output `outs`: batch = rows alone -/
theorem mog_logProb_row_independent (eps : α) (F M : Nat) (c : Bool) (outs rows : List (List α)) :
    RowIndep (mogLogProb o eps F M (ctxOf c rows.length) outs rows) rows.length
      (fun i => mogLogProb o eps F M (ctxOf c 1) [outs.getD i []] [rows.getD i []]) := by
  have h := rowIndep_of_form (.ok ())
    ((List.range rows.length).map fun i => mogRow o eps F M (outs.getD i []) (rows.getD i []))
    (mogLogProb o eps F M (ctxOf c rows.length) outs rows)
    (fun i => mogLogProb o eps F M (ctxOf c 1) [outs.getD i []] [rows.getD i []])
    (by unfold mogLogProb; rw [baseCheck_ctxOf])
    (by
      intro i hi
      unfold mogLogProb
      rw [show ([rows.getD i []] : List (List α)).length = 1 from rfl, baseCheck_ctxOf]
      simp [bind, Except.bind, pure, Except.pure])
  simpa using h

end dist

/-! ## 3. `Flow.log_prob` on a batch (`flows/base.py:42-49`) -/

section flow
open NF.FlowPairing
variable {Z X C E V : Type}

/-- `Flow._log_prob(inputs, context)` as the code runs it, on WHOLE batches: `embedded = embedding_net(context)`,
    `noise, logabsdet = transform(inputs, embedded)`, `log_prob = distribution.log_prob(noise, embedded)`,
    `return log_prob + logabsdet` (flows/base.py:42-49).  `emb`, `T`, `blp` are the batch-level passes. -/
def flowLogProbBatch (emb : List C → List E) (T : List X → List E → List Z × List V) (blp : List Z → List E → List V)
    (add : V → V → V) (xs : List X) (ctx : List C) : List V :=
  let e := emb ctx
  let r := T xs e
  List.zipWith add (blp r.1 e) r.2

/-- the batch-level passes of a flow are row-wise, with the per-row functions collected in `f` (what the C12 theorems give for
    the executed coupling / autoregressive / CDF passes, §2 for the base distributions, and a hypothesis for the nets) -/
structure RowWise (f : FlowFns Z X C E V) (emb : List C → List E) (T : List X → List E → List Z × List V)
    (blp : List Z → List E → List V) : Prop where
  emb_rows : ∀ ctx, emb ctx = ctx.map f.emb
  T_rows : ∀ xs es, xs.length = es.length → T xs es = (List.zipWith f.tfwd xs es, List.zipWith f.ld xs es)
  blp_rows : ∀ zs es, zs.length = es.length → blp zs es = List.zipWith f.blp zs es

theorem zipWith_flow (f : FlowFns Z X C E V) (xs : List X) (ctx : List C) :
    List.zipWith f.add (List.zipWith f.blp (List.zipWith f.tfwd xs (ctx.map f.emb)) (ctx.map f.emb))
        (List.zipWith f.ld xs (ctx.map f.emb))
      = List.zipWith (flowLogProb1 f) xs ctx := by
  induction xs generalizing ctx with
  | nil => simp
  | cons x xs ih =>
    cases ctx with
    | nil => simp
    | cons c cs => simp [ih cs, flowLogProb1]

/-- **`Flow.log_prob` of a batch is the list of the single-row `log_prob`s**: for row-wise transform, base distribution and
    embedding net, the batch-level program equals the row-by-row model `FlowPairing.flowLogProb` of `Core/`, entry `i` is
    `flowLogProb1` of row `i` with context row `i`, and running the batch-level program on the one-row batch `[x_i]`, `[c_i]`
    returns exactly `[entry i]`. -/
theorem flow_logProb_row_independent (f : FlowFns Z X C E V) (emb : List C → List E)
    (T : List X → List E → List Z × List V) (blp : List Z → List E → List V) (hrw : RowWise f emb T blp)
    (xs : List X) (ctx : List C) (hlen : xs.length = ctx.length) :
    flowLogProbBatch emb T blp f.add xs ctx = flowLogProb f xs ctx ∧
    (flowLogProbBatch emb T blp f.add xs ctx).length = xs.length ∧
    ∀ (i : Nat) (x : X) (c : C), xs[i]? = some x → ctx[i]? = some c →
      (flowLogProbBatch emb T blp f.add xs ctx)[i]? = some (flowLogProb1 f x c) ∧
      flowLogProbBatch emb T blp f.add [x] [c] = [flowLogProb1 f x c] := by
  have key : ∀ (xs : List X) (ctx : List C), xs.length = ctx.length →
      flowLogProbBatch emb T blp f.add xs ctx = List.zipWith (flowLogProb1 f) xs ctx := by
    intro xs ctx hl
    unfold flowLogProbBatch
    simp only [hrw.emb_rows]
    rw [hrw.T_rows xs _ (by simpa using hl)]
    simp only
    rw [hrw.blp_rows _ _ (by simp [hl])]
    exact zipWith_flow f xs ctx
  refine ⟨by rw [key xs ctx hlen]; rfl, by rw [key xs ctx hlen]; simp [hlen], ?_⟩
  intro i x c hx hc
  refine ⟨by rw [key xs ctx hlen]; simp [List.getElem?_zipWith, hx, hc], ?_⟩
  rw [key [x] [c] rfl]
  rfl

theorem map_eq_zipWith_left {A B D : Type} (g : A → D) (zs : List A) (es : List B) (h : zs.length = es.length) :
    zs.map g = List.zipWith (fun z _ => g z) zs es := by
  induction zs generalizing es with
  | nil => simp
  | cons z zs ih =>
    cases es with
    | nil => simp at h
    | cons e es => simp [ih es (by simpa using h)]

/-- the hypotheses `RowWise` are satisfiable with the EXECUTED `StandardNormal` base density (`Density.stdNormalRow`, whose batch
    pass ignores the context) and any per-row transform / embedding: so `flow_logProb_row_independent` applies to it -/
theorem rowWise_stdNormal_base {α : Type} (o : XOps α) (D : Nat) (embRow : C → E) (tfwd : List α → E → List α)
    (ld : List α → E → α) :
    RowWise (Z := List α) (X := List α) (V := α)
      { emb := embRow, tinv := fun z _ => z, ldInv := fun _ _ => o.zero, tfwd := tfwd, ld := ld,
        blp := fun z _ => NF.Density.stdNormalRow o D z, add := o.add, sub := o.sub }
      (fun ctx => ctx.map embRow) (fun xs es => (List.zipWith tfwd xs es, List.zipWith ld xs es))
      (fun zs _ => zs.map (NF.Density.stdNormalRow o D)) :=
  ⟨fun _ => rfl, fun _ _ _ => rfl, fun zs es h => map_eq_zipWith_left _ zs es h⟩

end flow

/-! ## 4. `OneByOneConvolution` (`Core/LinearFamily.lean`): batch item `b` of the result reads batch item `b` of the input only -/

section conv
open NF.LF LogdetExec
variable {α : Type} (o : Ops α)

/-- two NCHW tensors agree on batch items `b` / `b'` -/
def ItemAgree (C H W b b' : Nat) (xs xs' : List α) : Prop :=
  ∀ c h w, c < C → h < H → w < W → xs.getD (nchw C H W b c h w) (zero o) = xs'.getD (nchw C H W b' c h w) (zero o)

theorem convRows_agree (B B' C H W b b' : Nat) (ys ys' : List α) (hb : b < B) (hb' : b' < B')
    (h : ItemAgree o C H W b b' ys ys') (hh : Nat) (w : Nat) (hhh : hh < H) (hw : w < W) :
    (convRows o B C H W ys)[(b * H + hh) * W + w]? = (convRows o B' C H W ys')[(b' * H + hh) * W + w]? := by
  rw [convRows_getElem? o B C H W ys b hh w hb hhh hw, convRows_getElem? o B' C H W ys' b' hh w hb' hhh hw]
  congr 1
  apply List.map_congr_left
  intro c hc
  exact h c hh w (List.mem_range.mp hc) hhh hw

theorem convUnrows_map_agree (B B' C H W b b' : Nat) (g : List α → List α) (X X' : List (List α)) (hb : b < B) (hb' : b' < B')
    (h : ∀ hh w, hh < H → w < W → X[(b * H + hh) * W + w]? = X'[(b' * H + hh) * W + w]?) :
    ItemAgree o C H W b b' (convUnrows o B C H W (X.map g)) (convUnrows o B' C H W (X'.map g)) := by
  intro c hh w hc hhh hw
  rw [convUnrows_getD o B C H W _ b c hh w hb hc hhh hw, convUnrows_getD o B' C H W _ b' c hh w hb' hc hhh hw]
  simp only [List.getD_eq_getElem?_getD, List.getElem?_map, h hh w hhh hw]

theorem permuteChannels_agree (B B' C H W b b' : Nat) (perm : List Nat) (hperm : ∀ c, c < C → perm.getD c 0 < C)
    (xs xs' : List α) (hb : b < B) (hb' : b' < B') (h : ItemAgree o C H W b b' xs xs') :
    ItemAgree o C H W b b' (permuteChannels o B C H W perm xs) (permuteChannels o B' C H W perm xs') := by
  intro c hh w hc hhh hw
  rw [permuteChannels_getD o B C H W perm xs b c hh w hb hc hhh hw,
    permuteChannels_getD o B' C H W perm xs' b' c hh w hb' hc hhh hw]
  exact h _ hh w (hperm c hc) hhh hw

theorem convLogabsdet_agree (p : LUParams α) (B B' H W b b' : Nat) (sign : α → α) (hb : b < B) (hb' : b' < B') :
    (convLogabsdet o p B H W sign)[b]? = (convLogabsdet o p B' H W sign)[b']? := by
  simp [convLogabsdet, hb, hb']

/-- **1×1 convolution, forward (executed).**  Two calls (batch sizes may differ — e.g. the item evaluated alone) whose inputs agree
    on batch item `b` / `b'` agree on that item of the output and on that entry of the log-det, for every scalar semantics. -/
theorem conv_forward_item_independent (p : LUParams α) (perm : List Nat) (hperm : ∀ c, c < p.n → perm.getD c 0 < p.n)
    {B B' b b' : Nat} (H W : Nat) (xs xs' : List α) (hb : b < B) (hb' : b' < B')
    (hx : ItemAgree o p.n H W b b' xs xs') :
    ItemAgree o p.n H W b b' (convForward o p perm B H W xs).1 (convForward o p perm B' H W xs').1 ∧
    (convForward o p perm B H W xs).2[b]? = (convForward o p perm B' H W xs').2[b']? := by
  refine ⟨?_, convLogabsdet_agree o p B B' H W b b' id hb hb'⟩
  simp only [convForward, luForward_eq_map]
  exact convUnrows_map_agree o B B' p.n H W b b' _ _ _ hb hb' (fun hh w hhh hw =>
    convRows_agree o B B' p.n H W b b' _ _ hb hb'
      (permuteChannels_agree o B B' p.n H W b b' perm hperm xs xs' hb hb' hx) hh w hhh hw)

/-- **1×1 convolution, inverse (executed).** -/
theorem conv_inverse_item_independent (p : LUParams α) (perm : List Nat) (hperm : ∀ c, c < p.n → perm.idxOf c < p.n)
    {B B' b b' : Nat} (H W : Nat) (xs xs' : List α) (hb : b < B) (hb' : b' < B')
    (hx : ItemAgree o p.n H W b b' xs xs') :
    ItemAgree o p.n H W b b' (convInverse o p perm B H W xs).1 (convInverse o p perm B' H W xs').1 ∧
    (convInverse o p perm B H W xs).2[b]? = (convInverse o p perm B' H W xs').2[b']? := by
  refine ⟨?_, convLogabsdet_agree o p B B' H W b b' o.neg hb hb'⟩
  simp only [convInverse, luInverse_eq_map]
  have hinv : ∀ c, c < p.n → ((List.range p.n).map (fun c => perm.idxOf c)).getD c 0 < p.n := by
    intro c hc
    simp [List.getD_eq_getElem?_getD, hc, hperm c hc]
  have hmid : ItemAgree o p.n H W b b' (convUnrows o B p.n H W ((convRows o B p.n H W xs).map (luInvRow o p)))
      (convUnrows o B' p.n H W ((convRows o B' p.n H W xs').map (luInvRow o p))) :=
    convUnrows_map_agree o B B' p.n H W b b' _ _ _ hb hb'
      (fun hh w hhh hw => convRows_agree o B B' p.n H W b b' _ _ hb hb' hx hh w hhh hw)
  exact permuteChannels_agree o B B' p.n H W b b' _ hinv _ _ hb hb' hmid

end conv

/-! ## 5. concrete instances (toy `Int` semantics; the theorems above hold for every semantics) -/

section examples
open NF.Density NF.LF NF.FlowPairing

/-- the `(rows, log-dets)` of a successful 2-D step -/
def resOut {α : Type} : Res α → Option (List (List α) × List α)
  | some (.ok (.d2 rows, l)) => some (rows, l)
  | _ => none

def exBN : BNSt Int := ⟨false, [1, 2], [3, 8], [0, 1], [5, 6], 0⟩
def exAct : ActSt Int := ⟨true, true, [2, 3], [1, 1], 1⟩
def exLU : LUParams Int := ⟨2, [3], [5], [1, 2], [7, 8], 1⟩

/-- BatchNorm (eval), forward and inverse: row 1 of the batch run = the row alone -/
example :
    resOut (bnStep intX ⟨1, 1⟩ 2 exBN (.fwd (.d2 [[10, 20], [7, 9], [0, 3]]))).2
        = some ([[7, 12], [6, 6], [4, 6]], [4, 4, 4]) ∧
    resOut (bnStep intX ⟨1, 1⟩ 2 exBN (.fwd (.d2 [[7, 9]]))).2 = some ([[6, 6]], [4]) ∧
    resOut (bnStep intX ⟨1, 1⟩ 2 exBN (.inv (.d2 [[10, 20], [7, 9], [0, 3]]))).2
        = some ([[21, 38], [9, 11], [-19, -7]], [-4, -4, -4]) ∧
    resOut (bnStep intX ⟨1, 1⟩ 2 exBN (.inv (.d2 [[7, 9]]))).2 = some ([[9, 11]], [-4]) := by
  decide

/-- ActNorm (initialised), forward and inverse -/
example :
    resOut (actStep intX 2 exAct (.fwd (.d2 [[10, 20], [7, 9], [0, 3]]))).2
        = some ([[21, 61], [15, 28], [1, 10]], [5, 5, 5]) ∧
    resOut (actStep intX 2 exAct (.fwd (.d2 [[7, 9]]))).2 = some ([[15, 28]], [5]) ∧
    resOut (actStep intX 2 exAct (.inv (.d2 [[10, 20], [7, 9], [0, 3]]))).2
        = some ([[4, 6], [3, 2], [-1, 0]], [-5, -5, -5]) ∧
    resOut (actStep intX 2 exAct (.inv (.d2 [[7, 9]]))).2 = some ([[3, 2]], [-5]) := by
  decide

/-- the same contrast as `bn_training_not_row_independent`, computed: in training mode row 1 of the batch run differs from the
    row alone -/
example :
    (resOut (bnStep intX ⟨1, 1⟩ 2 { exBN with training := true } (.fwd (.d2 [[10, 20], [7, 9], [0, 3]]))).2).map
        (fun p => p.1[1]?)
      ≠ (resOut (bnStep intX ⟨1, 1⟩ 2 { exBN with training := true } (.fwd (.d2 [[7, 9]]))).2).map (fun p => p.1[0]?) := by
  decide

def okVal {β : Type} : Except DErr β → Option β
  | .ok a => some a
  | _ => none

/-- `StandardNormal` / `ConditionalDiagonalNormal` `log_prob`: entry 1 of the batch = the row alone -/
example :
    okVal (stdNormalLogProb intX [2] [2] none [[1, 2], [3, 4], [5, 6]]) = some [-5, -25, -61] ∧
    okVal (stdNormalLogProb intX [2] [2] none [[3, 4]]) = some [-25] ∧
    okVal (condNormalLogProb intX [2] [2] (some 3) 3 [4] [[1, 2, 3, 4], [0, 0, 1, 1], [5, 5, 5, 5]] [[1, 2], [3, 4], [5, 6]])
        = some [-7, -27, -35] ∧
    okVal (condNormalLogProb intX [2] [2] (some 1) 1 [4] [[0, 0, 1, 1]] [[3, 4]]) = some [-27] := by
  decide

/-- the hypothesis `pShape ≠ []` of `condNormal_logProb_row_independent` is forced IN THE MODEL: for an encoder output of shape `[B]`
    (no trailing dimension) `params.shape[-1]` is the batch size itself, so the evenness check depends on `B`: with an empty event
    (`shape = [0]`) the batch of 2 is accepted while each row alone is rejected.  (Degenerate: zero-sized event.) -/
example :
    (okVal (condNormalLogProb intX [0] [0] (some 2) 2 [] [[], []] [[], []])).isSome = true ∧
    (okVal (condNormalLogProb intX [0] [0] (some 1) 1 [] [[]] [[]])).isSome = false := by
  decide

/-- a batch-level flow `log_prob` on tagged data: entry `i` pairs row `i` with context row `i` only -/
example :
    flowLogProbBatch (fun c : List Nat => c.map (· + 100))
        (fun (xs : List (Nat × Nat)) es => (List.zipWith (fun x _ => x.1) xs es, List.zipWith (fun x e => [x.1, e]) xs es))
        (List.zipWith fun z e => [z, e]) (· ++ ·) [(1, 0), (2, 0)] [7, 8]
      = [[1, 107, 1, 107], [2, 108, 2, 108]] := by
  decide

/-- 1×1 convolution (`B = 2`, `C = 2`, `H = 1`, `W = 2`): item 1 of the batch run = that item alone, forward and inverse -/
example :
    convForward intOps exLU [1, 0] 2 1 2 [1, 2, 3, 4, 5, 6, 7, 8] = ([21, 29, 54, 82, 53, 61, 166, 194], [14, 14]) ∧
    convForward intOps exLU [1, 0] 1 1 2 [5, 6, 7, 8] = ([53, 61, 166, 194], [14]) ∧
    convInverse intOps exLU [1, 0] 2 1 2 [1, 2, 3, 4, 5, 6, 7, 8] = ([3, 2, -7, -5, 1, 0, -3, -1], [-14, -14]) ∧
    convInverse intOps exLU [1, 0] 1 1 2 [5, 6, 7, 8] = ([1, 0, -3, -1], [-14]) := by
  decide

end examples

end NF.RowIndependenceMore
