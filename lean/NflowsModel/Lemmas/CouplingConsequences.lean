import NflowsModel.Lemmas.LayerDerivInv
import NflowsModel.Lemmas.FlowRowsExec
import Mathlib.Analysis.Calculus.InverseFunctionTheorem.FDeriv
import Mathlib.Topology.Algebra.Module.FiniteDimension
/-!
# Lemmas/CouplingConsequences — the consequences named in C07, about the EXECUTED `couplingApply`

`Properties/C07.lean` proves the pass-through of the identity features and what the conditioner is given.  The property text
also names three CONSEQUENCES ("each transformed feature is an elementwise monotone function of its own input whose
parameters depend only on the identity features and the context, so the Jacobian is triangular up to the mask's
permutation").  They are proved here about the program the driver runs (`couplingApply`, `Core/Structure.lean`), with the
conditioner in the loop.

* §1 (every `XOps α`, every mask, `B`, `S`, family, direction, optional unconditional transform, ANY conditioner — no
  hypothesis on the mask, in particular no `MaskDisjoint`; equalities in `α`, hence bit-for-bit at `Float`):
  `condInOf_congr`, **`exec_coupling_param_dependence`** (+ `_row`: one row, row-wise conditioner),
  **`exec_coupling_no_cross_dependence`** (+ `_set`: overwrite one other transformed entry).
* §2 pass-through under the weakest hypothesis: **`exec_identity_passthrough_weak`** (`mask[ch] > 0` is false — nothing
  about `≤`), `exec_identity_unconditional` (what an identity entry holds when an unconditional transform was requested),
  `exec_transformed_entry` (converse: a channel with `mask[ch] > 0` holds the element's output), and a concrete
  `XOps` in which `≤` and `>` overlap, where a channel listed as identity is NOT passed through
  (`passthrough_needs_not_gt`).
* §3 (reals, 2-D inputs) **`exec_coupling_feature_monotone`** and its instances: additive, affine (both activations), RQ with
  linear tails — strictly increasing on ℝ, both directions; bounded RQ and bounded linear spline — strictly increasing on
  the box, both directions.
* §4 (reals) **`exec_coupling_jacobian_triangular`**: the entries of the Fréchet derivative of the executed row map,
  `exec_coupling_jacobian_det_pos`, `exec_coupling_local_diffeo` (the derivative is a linear equivalence).
* §4b (reals, ANY `S`: 4-D / image inputs) `exec_coupling_entry_map`, **`exec_coupling_entry_monotone`** (additive / affine).
* §5 concrete examples.
-/
open NF DualSound

namespace NF.CouplingConsequences
open NF.StructureExec NF.CouplingJacobian NF.FlowRowsExec

variable {α : Type}

/-! ## 1. Parameters depend only on the identity features and the context (every `XOps α`) -/

section generic
variable (o : XOps α) (c : ElCfg) (mask : List α) (S : Nat) (inverse : Bool) (uc : Option ElCfg) (uparams : Array α)

/-- two `[B, C, S]` inputs hold the same entries at every position of every identity channel (`mask ≤ 0`) -/
def IdAgree (B : Nat) (x x' : Array α) : Prop :=
  ∀ b ch s, b < B → ch ∈ identityIdx o mask → s < S →
    x[flatIdx mask.length S b ch s]? = x'[flatIdx mask.length S b ch s]?

theorem IdAgree.refl (B : Nat) (x : Array α) : IdAgree o mask S B x x := fun _ _ _ _ _ _ => rfl

/-- one entry of the buffer after the unconditional pass depends only on the same entry of the input (whether or not
    the channel is an identity channel, whether or not an unconditional transform was requested) -/
theorem couplingUncond_entry_congr {B B' b b' ch s : Nat} (x x' : Array α) (hb : b < B) (hb' : b' < B')
    (hch : ch < mask.length) (hs : s < S)
    (h : x[flatIdx mask.length S b ch s]? = x'[flatIdx mask.length S b' ch s]?) :
    (couplingUncond o mask B S x inverse uc uparams)[flatIdx mask.length S b ch s]?
      = (couplingUncond o mask B' S x' inverse uc uparams)[flatIdx mask.length S b' ch s]? := by
  cases uc with
  | none => simpa using h
  | some ucfg =>
    by_cases hm : ch ∈ identityIdx o mask
    · obtain ⟨t, ht, rfl⟩ := exists_getD_of_mem hm
      rw [couplingUncond_identity o mask B S x inverse uparams ucfg hb ht hs,
        couplingUncond_identity o mask B' S x' inverse uparams ucfg hb' ht hs, getD_congr h, h]
    · rw [couplingUncond_other o mask B S x inverse (some ucfg) uparams hch hs hm,
        couplingUncond_other o mask B' S x' inverse (some ucfg) uparams hch hs hm]
      exact h

/-- **what the conditioner is given depends on the identity channels only**: both directions, with or without an
    unconditional transform (in the inverse direction the conditioner sees the un-transformed identity features, which
    are functions of the identity features) -/
theorem condInOf_congr {B : Nat} {x x' : Array α} (h : IdAgree o mask S B x x') :
    condInOf o mask S inverse uc uparams B x = condInOf o mask S inverse uc uparams B x' := by
  unfold condInOf
  cases inverse with
  | false =>
    simp only [Bool.false_eq_true, if_false]
    exact gatherCh_congr x x' B mask.length S _ _ h
  | true =>
    simp only [if_true]
    apply gatherCh_congr
    intro b ch s hb hch hs
    exact couplingUncond_entry_congr o mask S true uc uparams x x' hb hb ((identityIdx_ok o mask).lt _ hch) hs
      (h b ch s hb hch hs)

/-- the conditioner output the executed layer is run with: `net` (identity split ↦ context ↦ parameters) applied to what
    the program hands it -/
def paramsOf (net : Array α → Array α → Array α) (B : Nat) (x ctx : Array α) : Array α :=
  net (condInOf o mask S inverse uc uparams B x) ctx

/-- the executed coupling layer with the conditioner in the loop (coupling.py:68-145), any `S` -/
def layer (net : Array α → Array α → Array α) (B : Nat) (x ctx : Array α) : TResult α :=
  couplingApply o c mask B S x (paramsOf o mask S inverse uc uparams net B x ctx) inverse uc uparams

/-- it is the batch-level stage of `FlowRowsExec` (whose conditioner also receives the batch size) -/
theorem couplingStage_eq_layer (net : Nat → Array α → Array α → Array α) (B : Nat) (x ctx : Array α) :
    couplingStage o c mask S inverse uc uparams net B x ctx
      = ofT (layer o c mask S inverse uc uparams (net B) B x ctx) := rfl

/-- the conditioner input the executed layer REPORTS is the array `paramsOf` ran the conditioner on -/
theorem layer_condIn (net : Array α → Array α → Array α) (B : Nat) (x ctx : Array α) :
    (layer o c mask S inverse uc uparams net B x ctx).condIn = condInOf o mask S inverse uc uparams B x :=
  condInOf_eq o c mask S inverse uc uparams B x _

/-- **C07, parameters depend only on identity features and context** — the executed layer, ANY conditioner `net`, any mask
    (no hypothesis: NaN entries, overlapping `≤`/`>` allowed), any `B`, `S ≥ 0`, family, direction, unconditional
    transform.  For two inputs that agree on the identity channels and the same context: the conditioner is handed the same
    array, returns the same parameter array, and EVERY transformed element `(b, t, s)` is the same function of its own
    input — for the spline families it is handed the same parameter slice `condSlice`. -/
theorem exec_coupling_param_dependence (net : Array α → Array α → Array α) {B : Nat} {x x' : Array α} (ctx : Array α)
    (h : IdAgree o mask S B x x') :
    (layer o c mask S inverse uc uparams net B x ctx).condIn = (layer o c mask S inverse uc uparams net B x' ctx).condIn
    ∧ paramsOf o mask S inverse uc uparams net B x ctx = paramsOf o mask S inverse uc uparams net B x' ctx
    ∧ (∀ b t s, condSlice o c.mult (transformIdx o mask).length S (paramsOf o mask S inverse uc uparams net B x ctx) b t s
        = condSlice o c.mult (transformIdx o mask).length S (paramsOf o mask S inverse uc uparams net B x' ctx) b t s)
    ∧ (∀ b t s xi, couplingEl o c (transformIdx o mask).length S (paramsOf o mask S inverse uc uparams net B x ctx) inverse b t s xi
        = couplingEl o c (transformIdx o mask).length S (paramsOf o mask S inverse uc uparams net B x' ctx) inverse b t s xi) := by
  have hp : paramsOf o mask S inverse uc uparams net B x ctx = paramsOf o mask S inverse uc uparams net B x' ctx := by
    unfold paramsOf
    rw [condInOf_congr o mask S inverse uc uparams h]
  refine ⟨?_, hp, fun b t s => by rw [hp], fun b t s xi => by rw [hp]⟩
  rw [layer_condIn, layer_condIn, condInOf_congr o mask S inverse uc uparams h]

/-- `gatherCh` row by row, reading only the listed channels -/
theorem gatherCh_rowEq_idx {C B B' b b' : Nat} {idx : List Nat} (x x' : Array α) (d : α)
    (hb : b < B) (hb' : b' < B')
    (h : ∀ ch s, ch ∈ idx → s < S → x[flatIdx C S b ch s]? = x'[flatIdx C S b' ch s]?) :
    RowEq (idx.length * S) b b' (gatherCh x B C S idx d) (gatherCh x' B' C S idx d) := by
  intro k hk
  unfold gatherCh
  rw [List.getElem?_toArray, List.getElem?_toArray,
    flatMap_range_getElem? _ (idx.length * S) B b k (fun _ => flatMap_map_range_length idx S _) hb hk,
    flatMap_range_getElem? _ (idx.length * S) B' b' k (fun _ => flatMap_map_range_length idx S _) hb' hk]
  congr 1
  apply List.flatMap_congr
  intro ch hch
  apply List.map_congr_left
  intro s hs
  exact getD_congr (h ch s hch (List.mem_range.1 hs)) d

/-- row `b` of what the conditioner is given depends only on the identity channels of row `b` of the input -/
theorem condInOf_rowEq_id {B B' b b' : Nat} (x x' : Array α) (hb : b < B) (hb' : b' < B')
    (h : ∀ ch s, ch ∈ identityIdx o mask → s < S →
      x[flatIdx mask.length S b ch s]? = x'[flatIdx mask.length S b' ch s]?) :
    RowEq ((identityIdx o mask).length * S) b b' (condInOf o mask S inverse uc uparams B x)
      (condInOf o mask S inverse uc uparams B' x') := by
  unfold condInOf
  cases inverse with
  | false => exact gatherCh_rowEq_idx S x x' _ hb hb' h
  | true =>
    refine gatherCh_rowEq_idx S _ _ _ hb hb' ?_
    intro ch s hch hs
    exact couplingUncond_entry_congr o mask S true uc uparams x x' hb hb' ((identityIdx_ok o mask).lt _ hch) hs
      (h ch s hch hs)

/-- **the row form** (one row of a batch, possibly of another batch size, e.g. the row run alone): with a conditioner that
    is row-wise (`NetRowWise`, the only hypothesis), two rows that agree on their identity channels and their context row
    get the same parameter row, hence the same transformed elements -/
theorem exec_coupling_param_dependence_row (cw : Nat) (net : Nat → Array α → Array α → Array α)
    (hnet : NetRowWise ((identityIdx o mask).length * S) cw (paramWidth c (transformIdx o mask).length * S) net)
    {B B' b b' : Nat} (x x' ctx ctx' : Array α) (hb : b < B) (hb' : b' < B')
    (h : ∀ ch s, ch ∈ identityIdx o mask → s < S →
      x[flatIdx mask.length S b ch s]? = x'[flatIdx mask.length S b' ch s]?)
    (hc : RowEq cw b b' ctx ctx') :
    RowAgree (paramWidth c (transformIdx o mask).length) S b b'
        (net B (condInOf o mask S inverse uc uparams B x) ctx) (net B' (condInOf o mask S inverse uc uparams B' x') ctx')
    ∧ ∀ t s xi, t < (transformIdx o mask).length → s < S →
        couplingEl o c (transformIdx o mask).length S (net B (condInOf o mask S inverse uc uparams B x) ctx) inverse b t s xi
          = couplingEl o c (transformIdx o mask).length S (net B' (condInOf o mask S inverse uc uparams B' x') ctx')
              inverse b' t s xi := by
  have hp := rowAgree_of_rowEq (hnet _ _ ctx ctx' hb hb'
    (condInOf_rowEq_id o mask S inverse uc uparams x x' hb hb' h) hc)
  exact ⟨hp, fun t s xi ht hs => couplingEl_congr o c _ S _ _ inverse b b' t s xi ht hs hp⟩

/-- **C07, no cross dependence between transformed features**: entry `(b, t, s)` of a transformed channel of the OUTPUT
    of the executed layer is a function of the same entry of the input, of the identity channels and of the context —
    whatever the other transformed channels hold.  Any `XOps α` (an equality in `α`: bit-for-bit at `Float`), errors or
    not. -/
theorem exec_coupling_no_cross_dependence (net : Array α → Array α → Array α) {B b t s : Nat} (hb : b < B)
    (ht : t < (transformIdx o mask).length) (hs : s < S) {x x' : Array α} (ctx : Array α)
    (hid : IdAgree o mask S B x x')
    (hself : x[flatIdx mask.length S b ((transformIdx o mask).getD t 0) s]?
      = x'[flatIdx mask.length S b ((transformIdx o mask).getD t 0) s]?) :
    (layer o c mask S inverse uc uparams net B x ctx).out[flatIdx mask.length S b ((transformIdx o mask).getD t 0) s]?
      = (layer o c mask S inverse uc uparams net B x' ctx).out[flatIdx mask.length S b ((transformIdx o mask).getD t 0) s]? := by
  unfold layer
  rw [(exec_coupling_param_dependence o c mask S inverse uc uparams net ctx hid).2.1,
    coupling_out_transformed o c mask B S x _ inverse uc uparams hb ht hs,
    coupling_out_transformed o c mask B S x' _ inverse uc uparams hb ht hs, getD_congr hself,
    couplingUncond_entry_congr o mask S inverse uc uparams x x' hb hb ((transformIdx_ok o mask).getD_lt ht) hs hself]

/-- the same for the row log-det: it depends on the row and the identity channels — stated for the element OUTCOMES
    (value, log-det, alternatives, or the error) of the transformed elements -/
theorem exec_coupling_element_outcome (net : Array α → Array α → Array α) {B b t s : Nat} {x x' : Array α}
    (ctx : Array α) (hid : IdAgree o mask S B x x')
    (hself : x[flatIdx mask.length S b ((transformIdx o mask).getD t 0) s]?
      = x'[flatIdx mask.length S b ((transformIdx o mask).getD t 0) s]?) :
    couplingEl o c (transformIdx o mask).length S (paramsOf o mask S inverse uc uparams net B x ctx) inverse b t s
        (x.getD (flatIdx mask.length S b ((transformIdx o mask).getD t 0) s) o.zero)
      = couplingEl o c (transformIdx o mask).length S (paramsOf o mask S inverse uc uparams net B x' ctx) inverse b t s
        (x'.getD (flatIdx mask.length S b ((transformIdx o mask).getD t 0) s) o.zero) := by
  rw [(exec_coupling_param_dependence o c mask S inverse uc uparams net ctx hid).2.1, getD_congr hself]

/-- **changing ANOTHER transformed entry leaves output `(b, t, s)` unchanged**: overwrite entry `(b₂, ch₂, s₂)` of the
    input, `ch₂` not an identity channel and `(b₂, ch₂, s₂) ≠ (b, transformIdx[t], s)`, by any value -/
theorem exec_coupling_no_cross_dependence_set (net : Array α → Array α → Array α) {B b t s b₂ ch₂ s₂ : Nat}
    (hb : b < B) (ht : t < (transformIdx o mask).length) (hs : s < S) (x ctx : Array α) (v : α)
    (hch₂ : ch₂ < mask.length) (hs₂ : s₂ < S) (hni : ch₂ ∉ identityIdx o mask)
    (hne : ¬ (b₂ = b ∧ ch₂ = (transformIdx o mask).getD t 0 ∧ s₂ = s)) :
    (layer o c mask S inverse uc uparams net B (x.setIfInBounds (flatIdx mask.length S b₂ ch₂ s₂) v) ctx).out[
        flatIdx mask.length S b ((transformIdx o mask).getD t 0) s]?
      = (layer o c mask S inverse uc uparams net B x ctx).out[flatIdx mask.length S b ((transformIdx o mask).getD t 0) s]? := by
  have hget : ∀ j, j ≠ flatIdx mask.length S b₂ ch₂ s₂ →
      (x.setIfInBounds (flatIdx mask.length S b₂ ch₂ s₂) v)[j]? = x[j]? := by
    intro j hj
    rw [Array.getElem?_setIfInBounds_ne (Ne.symm hj)]
  apply exec_coupling_no_cross_dependence o c mask S inverse uc uparams net hb ht hs ctx
  · intro b' ch s' _ hch hs'
    apply hget
    intro heq
    have := (flatIdx_inj ((identityIdx_ok o mask).lt _ hch) hch₂ hs' hs₂ heq).2.1
    exact hni (this ▸ hch)
  · apply hget
    intro heq
    obtain ⟨h1, h2, h3⟩ := flatIdx_inj ((transformIdx_ok o mask).getD_lt ht) hch₂ hs hs₂ heq
    exact hne ⟨h1.symm, h2.symm, h3.symm⟩

/-! ## 2. Pass-through under the weakest hypothesis, generic in `α` -/

/-- the channel is not listed as transformed as soon as `mask[ch] > 0` is false -/
theorem not_mem_transformIdx_of_gt_false {ch : Nat} (h : o.gt (mask.getD ch o.zero) o.zero = false) :
    ch ∉ transformIdx o mask := by
  intro hm
  simp only [transformIdx, List.mem_filter] at hm
  rw [h] at hm
  exact Bool.noConfusion hm.2

theorem mem_transformIdx_of_gt {ch : Nat} (hch : ch < mask.length) (h : o.gt (mask.getD ch o.zero) o.zero = true) :
    ch ∈ transformIdx o mask := by
  simp only [transformIdx, List.mem_filter, List.mem_range]
  exact ⟨hch, h⟩

/-- **C07, identity features, every `XOps α`, weakest hypothesis**: a channel whose mask entry does NOT compare `> 0`
    (nothing is assumed about `≤`: the entry may be a NaN, and no other channel is constrained — `MaskDisjoint` is not
    needed) is returned unchanged at every position, both directions, every `B`, `S`, parameter array, errors or not,
    when no unconditional transform was requested.  An equality in `α`: bit-for-bit at `Float`. -/
theorem exec_identity_passthrough_weak (B : Nat) (x params : Array α) {b ch s : Nat} (hch : ch < mask.length) (hs : s < S)
    (hgt : o.gt (mask.getD ch o.zero) o.zero = false) :
    (couplingApply o c mask B S x params inverse none uparams).out[flatIdx mask.length S b ch s]?
      = x[flatIdx mask.length S b ch s]? :=
  coupling_identity_passthrough o c mask B S x params inverse uparams hch hs
    (not_mem_transformIdx_of_gt_false o mask hgt)

/-- the per-mask form: `MaskDisjoint` follows from "`m ≤ 0` excludes `m > 0`" for the entries of the mask, and then
    every identity channel passes through -/
theorem exec_identity_passthrough_of_entries (B : Nat) (x params : Array α)
    (hm : ∀ m ∈ mask, o.le m o.zero = true → o.gt m o.zero = false) {b ch s : Nat}
    (hch : ch ∈ identityIdx o mask) (hs : s < S) :
    (couplingApply o c mask B S x params inverse none uparams).out[flatIdx mask.length S b ch s]?
      = x[flatIdx mask.length S b ch s]? :=
  coupling_identity_passthrough' o c mask B S x params inverse uparams (maskDisjoint_of o mask hm) hch hs

/-- **"unless an unconditional transform was requested"**: then entry `(b, ipos, sp)` of an identity channel (that is not
    also listed as transformed) holds the outcome of the unconditional element on the input entry, with the batch-shared
    parameter slice of `(ipos, sp)` — still a function of that input entry alone -/
theorem exec_identity_unconditional (ucfg : ElCfg) (B : Nat) (x params : Array α) {b t s : Nat} (hb : b < B)
    (ht : t < (identityIdx o mask).length) (hs : s < S)
    (hni : (identityIdx o mask).getD t 0 ∉ transformIdx o mask) :
    (couplingApply o c mask B S x params inverse (some ucfg) uparams).out[
        flatIdx mask.length S b ((identityIdx o mask).getD t 0) s]?
      = selOut (elTransform o ucfg inverse (ucSlice o ucfg.mult S uparams t s)
                  (x.getD (flatIdx mask.length S b ((identityIdx o mask).getD t 0) s) o.zero))
          x[flatIdx mask.length S b ((identityIdx o mask).getD t 0) s]? := by
  rw [coupling_out_other_channel o c mask B S x params uparams inverse (some ucfg)
      ((identityIdx_ok o mask).getD_lt ht) hs hni,
    couplingUncond_identity o mask B S x inverse uparams ucfg hb ht hs]

/-- **converse**: a channel whose mask entry compares `> 0` holds the element's outcome (success overwrites) — so the
    hypothesis of `exec_identity_passthrough_weak` cannot be dropped -/
theorem exec_transformed_entry (B : Nat) (x params : Array α) {b ch s : Nat} (hb : b < B) (hch : ch < mask.length)
    (hs : s < S) (hgt : o.gt (mask.getD ch o.zero) o.zero = true) :
    ∃ t, t < (transformIdx o mask).length ∧ (transformIdx o mask).getD t 0 = ch ∧
      (couplingApply o c mask B S x params inverse none uparams).out[flatIdx mask.length S b ch s]?
        = selOut (couplingEl o c (transformIdx o mask).length S params inverse b t s
            (x.getD (flatIdx mask.length S b ch s) o.zero)) x[flatIdx mask.length S b ch s]? := by
  obtain ⟨t, ht, rfl⟩ := exists_getD_of_mem (mem_transformIdx_of_gt o mask hch hgt)
  refine ⟨t, ht, rfl, ?_⟩
  rw [coupling_out_transformed o c mask B S x params inverse none uparams hb ht hs, couplingUncond_none]

end generic

/-! ## 3. Each transformed feature is a strictly increasing function of its own input (reals, 2-D inputs) -/

section reals
open NF.LayerDerivMore NF.LayerDerivInv
variable (e : Float → ℝ) (c : ElCfg) (mask : List ℝ) (B : Nat) (net : Array ℝ → Array ℝ) (inverse : Bool)

/-- overwriting a transformed channel of a row leaves its identity channels alone -/
theorem update_identity (v : Fin mask.length → ℝ) {i : Fin mask.length} (hi : isT (NF.realX e) mask i = true) (t : ℝ)
    (k : Fin mask.length) (hk : isT (NF.realX e) mask k = false) : Function.update v i t k = v k := by
  have hne : k ≠ i := fun h => by rw [h, hi] at hk; exact Bool.noConfusion hk
  exact Function.update_of_ne hne t v

/-- **output channel `i` of the executed row map, as a function of input channel `i` alone, IS the scalar element map at the
    parameters of the identity channels** — whatever the other transformed channels of the row `v` hold -/
theorem exec_coupling_feature_map (x : Array ℝ) (hx : x.size = B * mask.length) {b : Nat} (hb : b < B)
    (v : Fin mask.length → ℝ) (hv : ∀ k, isT (NF.realX e) mask k = false → v k = rowOf (NF.realX e) mask.length b x k)
    (i : Fin mask.length) (hi : isT (NF.realX e) mask i = true) (t : ℝ) :
    couplingRowMap e c mask B net inverse x b (Function.update v i t) i
      = couplingElMap e c mask (net (idSplit (NF.realX e) mask B x)) inverse b i t := by
  rw [couplingRowMap_eq e c mask B net inverse x hx hb _
    (fun k hk => by rw [update_identity e mask v hi t k hk]; exact hv k hk) i, hi]
  simp

/-- **C07 / C09, executed coupling layer: each transformed feature is a strictly increasing function of its own input**,
    the identity channels (hence the parameters) and the other transformed channels held fixed — on any set `D` on which
    the scalar element program at those parameters is strictly increasing.  Either pass, any conditioner, any mask. -/
theorem exec_coupling_feature_monotone (x : Array ℝ) (hx : x.size = B * mask.length) {b : Nat} (hb : b < B)
    (v : Fin mask.length → ℝ) (hv : ∀ k, isT (NF.realX e) mask k = false → v k = rowOf (NF.realX e) mask.length b x k)
    (i : Fin mask.length) (hi : isT (NF.realX e) mask i = true) (D : Set ℝ)
    (hmono : StrictMonoOn (couplingElMap e c mask (net (idSplit (NF.realX e) mask B x)) inverse b i) D) :
    StrictMonoOn (fun t => couplingRowMap e c mask B net inverse x b (Function.update v i t) i) D := by
  have hf : (fun t => couplingRowMap e c mask B net inverse x b (Function.update v i t) i)
      = couplingElMap e c mask (net (idSplit (NF.realX e) mask B x)) inverse b i := by
    funext t
    exact exec_coupling_feature_map e c mask B net inverse x hx hb v hv i hi t
  rw [hf]
  exact hmono

/-! ### the scalar element programs of the families are strictly increasing -/

/-- an element that is `s ↦ s * scale + shift`, `scale > 0` -/
theorem strictMono_of_affine_form {params : Array ℝ} {b : Nat} {i : Fin mask.length} {scale shift l : ℝ}
    (hs : 0 < scale) (h : ∀ s, chanEl (NF.realX e) c mask params b i inverse s = .ok (s * scale + shift, l, [])) :
    StrictMono (couplingElMap e c mask params inverse b i) := by
  have hf : ∀ s, couplingElMap e c mask params inverse b i s = s * scale + shift := by
    intro s; simp [couplingElMap, applyEl, h]
  intro a a' haa
  rw [hf, hf]
  have := mul_lt_mul_of_pos_right haa hs
  linarith

/-- an element that is `s ↦ (s - shift) / scale`, `scale > 0` -/
theorem strictMono_of_affine_form_inv {params : Array ℝ} {b : Nat} {i : Fin mask.length} {scale shift l : ℝ}
    (hs : 0 < scale) (h : ∀ s, chanEl (NF.realX e) c mask params b i inverse s = .ok ((s - shift) / scale, l, [])) :
    StrictMono (couplingElMap e c mask params inverse b i) := by
  have hf : ∀ s, couplingElMap e c mask params inverse b i s = (s - shift) * scale⁻¹ := by
    intro s; simp [couplingElMap, applyEl, h, div_eq_mul_inv]
  intro a a' haa
  rw [hf, hf]
  exact mul_lt_mul_of_pos_right (sub_lt_sub_right haa shift) (inv_pos.2 hs)

/-- additive coupling (`AdditiveCouplingTransform`): strictly increasing on ℝ, both passes, every parameter array -/
theorem couplingElMap_additive_strictMono (hk : c.kind = "additive") (params : Array ℝ) (b : Nat) (i : Fin mask.length) :
    StrictMono (couplingElMap e c mask params inverse b i) := by
  cases inverse
  · exact strictMono_of_affine_form e c mask false one_pos (chanEl_additive e c hk mask params b i)
  · exact strictMono_of_affine_form_inv e c mask true one_pos (chanEl_additive_inv e c hk mask params b i)

/-- affine coupling (`AffineCouplingTransform`, `scale = sigmoid(u + 2) + 1e-3` or the `general` activation
    `clamp(softplus(u) + 1e-3, 0, 3)`, both `> 0` once `1e-3` is read as a non-negative real): strictly increasing on ℝ,
    both passes, every parameter array -/
theorem couplingElMap_affine_strictMono (he : 0 ≤ e 1e-3) (hk : c.kind = "affine") (params : Array ℝ) (b : Nat)
    (i : Fin mask.length) : StrictMono (couplingElMap e c mask params inverse b i) := by
  cases inverse
  · exact strictMono_of_affine_form e c mask false (affineScale_pos e he c.act _) (chanEl_affine e c hk mask params b i)
  · exact strictMono_of_affine_form_inv e c mask true (affineScale_pos e he c.act _)
      (chanEl_affine_inv e c hk mask params b i)

/-- RQ coupling with linear tails (`PiecewiseRationalQuadraticCouplingTransform(tails='linear')`): the EXECUTED element
    program (softmax, floors, cumsum, search, closed form, identity tails) is strictly increasing on ℝ, both passes, for
    whatever parameter array the conditioner returned -/
theorem couplingElMap_rq_tails_strictMono (hc : RQTailsCfgValid e c) (params : Array ℝ) (b : Nat) (i : Fin mask.length) :
    StrictMono (couplingElMap e c mask params inverse b i) := by
  have hk1 : c.kind ≠ "affine" := by rw [hc.hk]; decide
  have hk2 : c.kind ≠ "additive" := by rw [hc.hk]; decide
  have hv := rqTailsSliceValid_of_cfg hc (chanSlice e c mask params b i)
    (by rw [condSlice_length, mult_rq_tails hc.hk hc.ht])
  cases inverse
  · have hf : couplingElMap e c mask params false b i
        = TailsWhole.valT e (tTb c) (tMW c) (tMH c) (tMD c) (tBe c) (rqW (NF.realX e) c (chanSlice e c mask params b i))
            (rqH (NF.realX e) c (chanSlice e c mask params b i)) (rqD c (chanSlice e c mask params b i)) := by
      funext z
      unfold couplingElMap applyEl
      rw [chanEl_spline (NF.realX e) c mask params b i hk1 hk2, (rqTails_el_total e c hc.hk hc.ht _ hv z).1]
    rw [hf]
    exact TailsWhole.valT_strictMono hv
  · have hf : couplingElMap e c mask params true b i
        = TailsWhole.invT e (tTb c) (tMW c) (tMH c) (tMD c) (tBe c) (rqW (NF.realX e) c (chanSlice e c mask params b i))
            (rqH (NF.realX e) c (chanSlice e c mask params b i)) (rqD c (chanSlice e c mask params b i)) := by
      funext z
      unfold couplingElMap applyEl
      rw [chanEl_spline (NF.realX e) c mask params b i hk1 hk2, (rqTails_el_total e c hc.hk hc.ht _ hv z).2]
    rw [hf]
    exact TailsWhole.invT_strictMono hv

/-- bounded RQ coupling, forward: strictly increasing on the input box `[left, right]` -/
theorem couplingElMap_rq_strictMonoOn (hk : c.kind = "rq") (ht : c.tails = false) (params : Array ℝ) (b : Nat)
    (i : Fin mask.length)
    (hv : RQWhole.RQValid e (rqCfgOf c) (rqW (NF.realX e) c (chanSlice e c mask params b i))
      (rqH (NF.realX e) c (chanSlice e c mask params b i)) (rqD c (chanSlice e c mask params b i))) :
    StrictMonoOn (couplingElMap e c mask params false b i) (Set.Icc (e (rqCfgOf c).box.left) (e (rqCfgOf c).box.right)) :=
  (RQWhole.val_strictMonoOn hv).congr
    (fun s hs => (rq_couplingElMap_fwd e c mask hk ht params b i hv s hs.1 hs.2).symm)

/-- bounded RQ coupling, inverse: strictly increasing on the output box `[bottom, top]` -/
theorem couplingElMap_rq_inv_strictMonoOn (hk : c.kind = "rq") (ht : c.tails = false) (params : Array ℝ) (b : Nat)
    (i : Fin mask.length)
    (hv : RQWhole.RQValid e (rqCfgOf c) (rqW (NF.realX e) c (chanSlice e c mask params b i))
      (rqH (NF.realX e) c (chanSlice e c mask params b i)) (rqD c (chanSlice e c mask params b i))) :
    StrictMonoOn (couplingElMap e c mask params true b i) (Set.Icc (e (rqCfgOf c).box.bottom) (e (rqCfgOf c).box.top)) :=
  (RQInverseWhole.inv_strictMonoOn hv).congr
    (fun s hs => (rq_couplingElMap_inv e c mask hk ht params b i hv s hs.1 hs.2).symm)

/-- bounded piecewise-linear coupling, forward -/
theorem couplingElMap_lin_strictMonoOn (hk : c.kind = "lin") (ht : c.tails = false) (params : Array ℝ) (b : Nat)
    (i : Fin mask.length) (hv : LinWhole.LinValid e (linBoxOf c) 1e-6 (chanSlice e c mask params b i)) :
    StrictMonoOn (couplingElMap e c mask params false b i) (Set.Icc (e (linBoxOf c).left) (e (linBoxOf c).right)) :=
  (LinWhole.val_strictMonoOn hv).congr
    (fun s hs => (lin_couplingElMap_fwd e c mask hk ht params b i hv s hs.1 hs.2).symm)

/-- bounded piecewise-linear coupling, inverse -/
theorem couplingElMap_lin_inv_strictMonoOn (hk : c.kind = "lin") (ht : c.tails = false) (params : Array ℝ) (b : Nat)
    (i : Fin mask.length) (hv : LinWhole.LinValid e (linBoxOf c) 1e-6 (chanSlice e c mask params b i)) :
    StrictMonoOn (couplingElMap e c mask params true b i) (Set.Icc (e (linBoxOf c).bottom) (e (linBoxOf c).top)) :=
  (LinWhole.inv_strictMonoOn hv).congr
    (fun s hs => (lin_couplingElMap_inv e c mask hk ht params b i hv s hs.1 hs.2).symm)

/-! ### the headline instantiated per family (both passes) -/

/-- additive coupling layer -/
theorem exec_coupling_feature_monotone_additive (hk : c.kind = "additive") (x : Array ℝ) (hx : x.size = B * mask.length)
    {b : Nat} (hb : b < B) (v : Fin mask.length → ℝ)
    (hv : ∀ k, isT (NF.realX e) mask k = false → v k = rowOf (NF.realX e) mask.length b x k)
    (i : Fin mask.length) (hi : isT (NF.realX e) mask i = true) :
    StrictMono (fun t => couplingRowMap e c mask B net inverse x b (Function.update v i t) i) := by
  rw [← strictMonoOn_univ]
  exact exec_coupling_feature_monotone e c mask B net inverse x hx hb v hv i hi _
    ((couplingElMap_additive_strictMono e c mask inverse hk _ b i).strictMonoOn _)

/-- affine coupling layer (positive scale `sigmoid(u + 2) + 1e-3`, or the `general` activation) -/
theorem exec_coupling_feature_monotone_affine (he : 0 ≤ e 1e-3) (hk : c.kind = "affine") (x : Array ℝ)
    (hx : x.size = B * mask.length) {b : Nat} (hb : b < B) (v : Fin mask.length → ℝ)
    (hv : ∀ k, isT (NF.realX e) mask k = false → v k = rowOf (NF.realX e) mask.length b x k)
    (i : Fin mask.length) (hi : isT (NF.realX e) mask i = true) :
    StrictMono (fun t => couplingRowMap e c mask B net inverse x b (Function.update v i t) i) := by
  rw [← strictMonoOn_univ]
  exact exec_coupling_feature_monotone e c mask B net inverse x hx hb v hv i hi _
    ((couplingElMap_affine_strictMono e c mask inverse he hk _ b i).strictMonoOn _)

/-- RQ coupling layer with linear tails: on the whole line -/
theorem exec_coupling_feature_monotone_rq_tails (hc : RQTailsCfgValid e c) (x : Array ℝ)
    (hx : x.size = B * mask.length) {b : Nat} (hb : b < B) (v : Fin mask.length → ℝ)
    (hv : ∀ k, isT (NF.realX e) mask k = false → v k = rowOf (NF.realX e) mask.length b x k)
    (i : Fin mask.length) (hi : isT (NF.realX e) mask i = true) :
    StrictMono (fun t => couplingRowMap e c mask B net inverse x b (Function.update v i t) i) := by
  rw [← strictMonoOn_univ]
  exact exec_coupling_feature_monotone e c mask B net inverse x hx hb v hv i hi _
    ((couplingElMap_rq_tails_strictMono e c mask inverse hc _ b i).strictMonoOn _)

/-- bounded RQ coupling layer, forward on `[left, right]`, inverse on `[bottom, top]`: the only hypothesis is that the
    conditioner output for the identity channels of the row is an accepted configuration for channel `i` -/
theorem exec_coupling_feature_monotone_rq (hk : c.kind = "rq") (ht : c.tails = false) (x : Array ℝ)
    (hx : x.size = B * mask.length) {b : Nat} (hb : b < B) (v : Fin mask.length → ℝ)
    (hv : ∀ k, isT (NF.realX e) mask k = false → v k = rowOf (NF.realX e) mask.length b x k)
    (i : Fin mask.length) (hi : isT (NF.realX e) mask i = true)
    (hval : RQWhole.RQValid e (rqCfgOf c)
      (rqW (NF.realX e) c (chanSlice e c mask (net (idSplit (NF.realX e) mask B x)) b i))
      (rqH (NF.realX e) c (chanSlice e c mask (net (idSplit (NF.realX e) mask B x)) b i))
      (rqD c (chanSlice e c mask (net (idSplit (NF.realX e) mask B x)) b i))) :
    StrictMonoOn (fun t => couplingRowMap e c mask B net false x b (Function.update v i t) i)
        (Set.Icc (e (rqCfgOf c).box.left) (e (rqCfgOf c).box.right))
    ∧ StrictMonoOn (fun t => couplingRowMap e c mask B net true x b (Function.update v i t) i)
        (Set.Icc (e (rqCfgOf c).box.bottom) (e (rqCfgOf c).box.top)) :=
  ⟨exec_coupling_feature_monotone e c mask B net false x hx hb v hv i hi _
      (couplingElMap_rq_strictMonoOn e c mask hk ht _ b i hval),
   exec_coupling_feature_monotone e c mask B net true x hx hb v hv i hi _
      (couplingElMap_rq_inv_strictMonoOn e c mask hk ht _ b i hval)⟩

/-- bounded piecewise-linear coupling layer, both passes -/
theorem exec_coupling_feature_monotone_lin (hk : c.kind = "lin") (ht : c.tails = false) (x : Array ℝ)
    (hx : x.size = B * mask.length) {b : Nat} (hb : b < B) (v : Fin mask.length → ℝ)
    (hv : ∀ k, isT (NF.realX e) mask k = false → v k = rowOf (NF.realX e) mask.length b x k)
    (i : Fin mask.length) (hi : isT (NF.realX e) mask i = true)
    (hval : LinWhole.LinValid e (linBoxOf c) 1e-6 (chanSlice e c mask (net (idSplit (NF.realX e) mask B x)) b i)) :
    StrictMonoOn (fun t => couplingRowMap e c mask B net false x b (Function.update v i t) i)
        (Set.Icc (e (linBoxOf c).left) (e (linBoxOf c).right))
    ∧ StrictMonoOn (fun t => couplingRowMap e c mask B net true x b (Function.update v i t) i)
        (Set.Icc (e (linBoxOf c).bottom) (e (linBoxOf c).top)) :=
  ⟨exec_coupling_feature_monotone e c mask B net false x hx hb v hv i hi _
      (couplingElMap_lin_strictMonoOn e c mask hk ht _ b i hval),
   exec_coupling_feature_monotone e c mask B net true x hx hb v hv i hi _
      (couplingElMap_lin_inv_strictMonoOn e c mask hk ht _ b i hval)⟩

/-! ## 4. The Jacobian of the executed row map is triangular up to the mask's permutation -/

/-- the `(i, j)` entry of the matrix of `L` in the standard basis is `L (e_j) i` -/
theorem toMatrix'_entry (L : (Fin mask.length → ℝ) →L[ℝ] (Fin mask.length → ℝ)) (i j : Fin mask.length) :
    LinearMap.toMatrix' (L : (Fin mask.length → ℝ) →ₗ[ℝ] (Fin mask.length → ℝ)) i j = L (Pi.single j 1) i := by
  simp [LinearMap.toMatrix'_apply]

/-- **C07 / C01, executed coupling layer: the Jacobian of the row map, entry by entry** (`∂out_i/∂x_j = L (e_j) i`).  For ANY
    conditioner (no hypothesis on `net` beyond the differentiability `hL` of the row map), either pass, with `d i` the
    derivative of the scalar element of transformed channel `i` at the parameters of the row:
    * identity rows are rows of the identity matrix: `∂out_i/∂x_j = δ_ij` (`isT i = false`);
    * a transformed output does not depend on ANOTHER transformed input: `∂out_i/∂x_j = 0`;
    * the diagonal entry of a transformed channel is `d i`.
    The only entries left free are `∂out_i/∂x_j`, `i` transformed, `j` identity (through the conditioner): in the order
    [identity channels; transformed channels] the matrix is `[[I, 0], [*, diag d]]`. -/
theorem exec_coupling_jacobian_triangular (x : Array ℝ) (hx : x.size = B * mask.length) {b : Nat} (hb : b < B)
    {L : (Fin mask.length → ℝ) →L[ℝ] (Fin mask.length → ℝ)}
    (hL : HasFDerivAt (couplingRowMap e c mask B net inverse x b) L (rowOf (NF.realX e) mask.length b x))
    (d : Fin mask.length → ℝ)
    (hdiag : ∀ i, isT (NF.realX e) mask i = true →
      HasDerivAt (couplingElMap e c mask (net (idSplit (NF.realX e) mask B x)) inverse b i) (d i)
        (rowOf (NF.realX e) mask.length b x i)) :
    (∀ i j, isT (NF.realX e) mask i = false → L (Pi.single j 1) i = if i = j then 1 else 0)
    ∧ (∀ i j, isT (NF.realX e) mask i = true → isT (NF.realX e) mask j = true → j ≠ i → L (Pi.single j 1) i = 0)
    ∧ (∀ i, isT (NF.realX e) mask i = true → L (Pi.single i 1) i = d i) := by
  set v0 : Fin mask.length → ℝ := rowOf (NF.realX e) mask.length b x with hv0
  have hline : ∀ (j : Fin mask.length) (t : ℝ), isT (NF.realX e) mask j = true →
      ∀ k, isT (NF.realX e) mask k = false → (v0 + t • (Pi.single j (1 : ℝ) : Fin mask.length → ℝ)) k = v0 k := by
    intro j t hj k hk
    have hne : k ≠ j := fun h => by rw [h, hj] at hk; exact Bool.noConfusion hk
    simp [hne]
  refine ⟨?_, ?_, ?_⟩
  · intro i j hi
    by_cases hij : i = j
    · subst hij
      rw [if_pos rfl]
      have hfun : (fun t : ℝ => couplingRowMap e c mask B net inverse x b (v0 + t • Pi.single i 1) i)
          = fun t : ℝ => v0 i + t := by
        funext t
        rw [couplingRowMap_apply e c mask B net inverse x hb, hi]
        simp
      have h := RankedDet.coord_line_deriv hL i i
      rw [hfun] at h
      exact h.unique (by simpa using (hasDerivAt_id (0 : ℝ)).const_add (v0 i))
    · rw [if_neg hij]
      apply RankedDet.entry_zero_of_indep hL i j
      intro t
      rw [couplingRowMap_apply e c mask B net inverse x hb, couplingRowMap_apply e c mask B net inverse x hb, hi]
      simp [hij]
  · intro i j hi hj hji
    have hne : i ≠ j := fun h => hji h.symm
    apply RankedDet.entry_zero_of_indep hL i j
    intro t
    rw [couplingRowMap_eq e c mask B net inverse x hx hb _ (hline j t hj) i,
      couplingRowMap_eq e c mask B net inverse x hx hb v0 (fun _ _ => rfl) i, hi]
    simp [hne]
  · intro i hi
    have hfun : (fun t : ℝ => couplingRowMap e c mask B net inverse x b (v0 + t • Pi.single i 1) i)
        = fun t : ℝ => couplingElMap e c mask (net (idSplit (NF.realX e) mask B x)) inverse b i (v0 i + t) := by
      funext t
      rw [couplingRowMap_eq e c mask B net inverse x hx hb _ (hline i t hi) i, hi]
      simp
    have h := RankedDet.coord_line_deriv hL i i
    rw [hfun] at h
    have h' := hdiag i hi
    have h0 : v0 i = v0 i + 0 := by simp
    rw [h0] at h'
    exact h.unique (by simpa using h'.comp_const_add (v0 i) 0)

/-- the same with the per-element law (`d i = exp` of the log-det the element returns): the diagonal entries of the
    transformed block are `exp(ld_i) > 0` -/
theorem exec_coupling_jacobian_diag_pos (x : Array ℝ) (hx : x.size = B * mask.length) {b : Nat} (hb : b < B)
    {L : (Fin mask.length → ℝ) →L[ℝ] (Fin mask.length → ℝ)}
    (hL : HasFDerivAt (couplingRowMap e c mask B net inverse x b) L (rowOf (NF.realX e) mask.length b x))
    (hdiag : ∀ i, isT (NF.realX e) mask i = true →
      HasDerivAt (couplingElMap e c mask (net (idSplit (NF.realX e) mask B x)) inverse b i)
        (Real.exp (couplingElLd e c mask (net (idSplit (NF.realX e) mask B x)) inverse b i (rowOf (NF.realX e) mask.length b x i)))
        (rowOf (NF.realX e) mask.length b x i))
    (i : Fin mask.length) (hi : isT (NF.realX e) mask i = true) :
    L (Pi.single i 1) i
        = Real.exp (couplingElLd e c mask (net (idSplit (NF.realX e) mask B x)) inverse b i (rowOf (NF.realX e) mask.length b x i))
      ∧ 0 < L (Pi.single i 1) i := by
  have h := (exec_coupling_jacobian_triangular e c mask B net inverse x hx hb hL _ hdiag).2.2 i hi
  rw [h]
  exact ⟨rfl, Real.exp_pos _⟩

/-- **`det J_b = ∏ exp(ld_i) > 0`** (product over the transformed channels) and it is `exp` of the log-det the executed
    pass returns for the row -/
theorem exec_coupling_jacobian_det_pos (x : Array ℝ) (hx : x.size = B * mask.length) {b : Nat} (hb : b < B)
    {L : (Fin mask.length → ℝ) →L[ℝ] (Fin mask.length → ℝ)}
    (hL : HasFDerivAt (couplingRowMap e c mask B net inverse x b) L (rowOf (NF.realX e) mask.length b x))
    (hdiag : ∀ i, isT (NF.realX e) mask i = true →
      HasDerivAt (couplingElMap e c mask (net (idSplit (NF.realX e) mask B x)) inverse b i)
        (Real.exp (couplingElLd e c mask (net (idSplit (NF.realX e) mask B x)) inverse b i (rowOf (NF.realX e) mask.length b x i)))
        (rowOf (NF.realX e) mask.length b x i)) :
    L.det = ∏ i, (if isT (NF.realX e) mask i then
        Real.exp (couplingElLd e c mask (net (idSplit (NF.realX e) mask B x)) inverse b i (rowOf (NF.realX e) mask.length b x i))
        else 1)
    ∧ 0 < L.det
    ∧ ∃ l, (couplingRun (NF.realX e) c mask B net inverse x).ld[b]? = some l ∧ L.det = Real.exp l := by
  have hdet : L.det = ∏ i, (if isT (NF.realX e) mask i then
      Real.exp (couplingElLd e c mask (net (idSplit (NF.realX e) mask B x)) inverse b i (rowOf (NF.realX e) mask.length b x i))
      else 1) := by
    rw [ContinuousLinearMap.det]
    exact coupling_row_det e c mask B net inverse x hx hb hL _ hdiag
  have hpos : 0 < L.det := by
    rw [hdet]
    exact Finset.prod_pos fun i _ => by split <;> first | exact Real.exp_pos _ | exact one_pos
  obtain ⟨l, hl, habs⟩ := coupling_row_abs_det e c mask B net inverse x hx hb hL hdiag
  exact ⟨hdet, hpos, l, hl, by rw [← habs, abs_of_pos hpos]⟩

/-- **the derivative of the executed row map is a linear isomorphism** (its determinant is positive) -/
theorem exec_coupling_jacobian_invertible (x : Array ℝ) (hx : x.size = B * mask.length) {b : Nat} (hb : b < B)
    {L : (Fin mask.length → ℝ) →L[ℝ] (Fin mask.length → ℝ)}
    (hL : HasFDerivAt (couplingRowMap e c mask B net inverse x b) L (rowOf (NF.realX e) mask.length b x))
    (hdiag : ∀ i, isT (NF.realX e) mask i = true →
      HasDerivAt (couplingElMap e c mask (net (idSplit (NF.realX e) mask B x)) inverse b i)
        (Real.exp (couplingElLd e c mask (net (idSplit (NF.realX e) mask B x)) inverse b i (rowOf (NF.realX e) mask.length b x i)))
        (rowOf (NF.realX e) mask.length b x i)) :
    ∃ L' : (Fin mask.length → ℝ) ≃L[ℝ] (Fin mask.length → ℝ), (L' : (Fin mask.length → ℝ) →L[ℝ] (Fin mask.length → ℝ)) = L :=
  ⟨L.toContinuousLinearEquivOfDetNeZero
      (exec_coupling_jacobian_det_pos e c mask B net inverse x hx hb hL hdiag).2.1.ne',
    ContinuousLinearMap.coe_toContinuousLinearEquivOfDetNeZero _ _⟩

/-- **the executed row map is a local diffeomorphism** wherever it is strictly differentiable (e.g. `C¹`): there is an
    open partial homeomorphism whose map IS the row map of the program, whose source contains the row, and whose inverse
    has derivative `L⁻¹` at the image (inverse function theorem; the positivity of the determinant is what the executed
    elements supply) -/
theorem exec_coupling_local_diffeo (x : Array ℝ) (hx : x.size = B * mask.length) {b : Nat} (hb : b < B)
    {L : (Fin mask.length → ℝ) →L[ℝ] (Fin mask.length → ℝ)}
    (hL : HasStrictFDerivAt (couplingRowMap e c mask B net inverse x b) L (rowOf (NF.realX e) mask.length b x))
    (hdiag : ∀ i, isT (NF.realX e) mask i = true →
      HasDerivAt (couplingElMap e c mask (net (idSplit (NF.realX e) mask B x)) inverse b i)
        (Real.exp (couplingElLd e c mask (net (idSplit (NF.realX e) mask B x)) inverse b i (rowOf (NF.realX e) mask.length b x i)))
        (rowOf (NF.realX e) mask.length b x i)) :
    ∃ (φ : OpenPartialHomeomorph (Fin mask.length → ℝ) (Fin mask.length → ℝ))
      (L' : (Fin mask.length → ℝ) ≃L[ℝ] (Fin mask.length → ℝ)),
      (φ : (Fin mask.length → ℝ) → (Fin mask.length → ℝ)) = couplingRowMap e c mask B net inverse x b
      ∧ rowOf (NF.realX e) mask.length b x ∈ φ.source
      ∧ (L' : (Fin mask.length → ℝ) →L[ℝ] (Fin mask.length → ℝ)) = L
      ∧ HasStrictFDerivAt φ.symm (L'.symm : (Fin mask.length → ℝ) →L[ℝ] (Fin mask.length → ℝ))
          (couplingRowMap e c mask B net inverse x b (rowOf (NF.realX e) mask.length b x)) := by
  obtain ⟨L', hL'⟩ := exec_coupling_jacobian_invertible e c mask B net inverse x hx hb hL.hasFDerivAt hdiag
  have hs : HasStrictFDerivAt (couplingRowMap e c mask B net inverse x b)
      (L' : (Fin mask.length → ℝ) →L[ℝ] (Fin mask.length → ℝ)) (rowOf (NF.realX e) mask.length b x) := by
    rw [hL']; exact hL
  exact ⟨hs.toOpenPartialHomeomorph _, L', rfl, hs.mem_toOpenPartialHomeomorph_source, hL', hs.to_localInverse⟩

end reals

/-! ## 4b. 4-D inputs (`S > 1`): each transformed ENTRY is a strictly increasing function of its own input -/

section realsS
variable (e : Float → ℝ) (c : ElCfg) (mask : List ℝ) (S : Nat) (inverse : Bool)

/-- **any `S` (image inputs `[B, C, H·W]`), reals**: with everything else held fixed, the output at the position of
    transformed entry `(b, t, s)`, as a function of the input `τ` written at that position, IS the scalar element program
    of `(b, t, s)` at the parameters the conditioner returns for the identity channels and the context (buffer semantics:
    an element that raises leaves `τ`) -/
theorem exec_coupling_entry_map (net : Array ℝ → Array ℝ → Array ℝ) {B b t s : Nat} (hb : b < B)
    (ht : t < (transformIdx (NF.realX e) mask).length) (hs : s < S) (x ctx : Array ℝ)
    (hj : flatIdx mask.length S b ((transformIdx (NF.realX e) mask).getD t 0) s < x.size) (τ : ℝ) :
    (layer (NF.realX e) c mask S inverse none #[] net B
        (x.setIfInBounds (flatIdx mask.length S b ((transformIdx (NF.realX e) mask).getD t 0) s) τ) ctx).out[
          flatIdx mask.length S b ((transformIdx (NF.realX e) mask).getD t 0) s]?
      = some (applyEl (couplingEl (NF.realX e) c (transformIdx (NF.realX e) mask).length S
          (paramsOf (NF.realX e) mask S inverse none #[] net B x ctx) inverse b t s) τ) := by
  have hcht := (transformIdx_ok (NF.realX e) mask).getD_lt ht
  have hni : (transformIdx (NF.realX e) mask).getD t 0 ∉ identityIdx (NF.realX e) mask :=
    fun h => maskDisjoint_real e mask _ h (getD_mem_of_lt ht)
  have hid : IdAgree (NF.realX e) mask S B
      (x.setIfInBounds (flatIdx mask.length S b ((transformIdx (NF.realX e) mask).getD t 0) s) τ) x := by
    intro b' ch' s' _ hch' hs'
    apply Array.getElem?_setIfInBounds_ne
    intro heq
    have := (flatIdx_inj hcht ((identityIdx_ok (NF.realX e) mask).lt _ hch') hs hs' heq).2.1
    exact hni (this ▸ hch')
  have h1 : (x.setIfInBounds (flatIdx mask.length S b ((transformIdx (NF.realX e) mask).getD t 0) s) τ)[
      flatIdx mask.length S b ((transformIdx (NF.realX e) mask).getD t 0) s]? = some τ :=
    Array.getElem?_setIfInBounds_self_of_lt hj
  have h2 : (x.setIfInBounds (flatIdx mask.length S b ((transformIdx (NF.realX e) mask).getD t 0) s) τ).getD
      (flatIdx mask.length S b ((transformIdx (NF.realX e) mask).getD t 0) s) (NF.realX e).zero = τ := by
    rw [Array.getD_eq_getD_getElem?, h1]; rfl
  unfold layer
  rw [(exec_coupling_param_dependence (NF.realX e) c mask S inverse none #[] net ctx hid).2.1,
    coupling_out_transformed (NF.realX e) c mask B S _ _ inverse none #[] hb ht hs, couplingUncond_none, h1, h2]
  unfold selOut applyEl
  cases couplingEl (NF.realX e) c (transformIdx (NF.realX e) mask).length S
    (paramsOf (NF.realX e) mask S inverse none #[] net B x ctx) inverse b t s τ <;> rfl

/-- additive coupling, any `S`, any parameter array, both passes: the element program of an entry is strictly increasing -/
theorem couplingEl_additive_strictMono (hk : c.kind = "additive") (Ft : Nat) (params : Array ℝ) (b t s : Nat) :
    StrictMono (applyEl (couplingEl (NF.realX e) c Ft S params inverse b t s)) := by
  have hk1 : (c.kind == "affine") = false := by rw [hk]; decide
  have hk2 : (c.kind == "additive") = true := by rw [hk]; decide
  intro a a' haa
  cases inverse
  · simp only [applyEl, couplingEl, hk1, hk2, Bool.false_eq_true, if_false, if_true, scaleShiftT, Except.map, realX_add,
      realX_mul, realX_one]
    linarith
  · simp only [applyEl, couplingEl, hk1, hk2, Bool.false_eq_true, if_false, if_true, scaleShiftT, Except.map, realX_sub,
      realX_div, realX_one, div_one]
    linarith

/-- affine coupling (`scale = sigmoid(u + 2) + 1e-3 > 0`, or the `general` activation), any `S`, both passes -/
theorem couplingEl_affine_strictMono (he : 0 ≤ e 1e-3) (hk : c.kind = "affine") (Ft : Nat) (params : Array ℝ)
    (b t s : Nat) : StrictMono (applyEl (couplingEl (NF.realX e) c Ft S params inverse b t s)) := by
  have hk1 : (c.kind == "affine") = true := by rw [hk]; decide
  have hpos := affineScale_pos e he c.act (params.getD ((b * (2 * Ft) + (Ft + t)) * S + s) (NF.realX e).zero)
  intro a a' haa
  simp only [applyEl, couplingEl, hk1, if_true]
  generalize (if c.act == "general" then
          (NF.realX e).clamp (NF.realX e).zero ((NF.realX e).ofNat 3)
            ((NF.realX e).add ((NF.realX e).softplus (params.getD ((b * (2 * Ft) + (Ft + t)) * S + s) (NF.realX e).zero))
              ((NF.realX e).ofFloat 1e-3))
         else (NF.realX e).add ((NF.realX e).sigmoid ((NF.realX e).add
            (params.getD ((b * (2 * Ft) + (Ft + t)) * S + s) (NF.realX e).zero) (NF.realX e).two))
            ((NF.realX e).ofFloat 1e-3)) = scale at hpos ⊢
  cases inverse
  · simp only [scaleShiftT, Bool.false_eq_true, if_false, Except.map, realX_add, realX_mul]
    have := mul_lt_mul_of_pos_right haa hpos
    linarith
  · simp only [scaleShiftT, if_true, Except.map, realX_sub, realX_div, div_eq_mul_inv]
    exact mul_lt_mul_of_pos_right (sub_lt_sub_right haa _) (inv_pos.2 hpos)

/-- **C07 / C09 for 4-D inputs**: additive / affine coupling layer on `[B, C, S]` inputs, any mask, any conditioner, both
    passes — the output at a transformed position is a strictly increasing function of the input at that position, all
    other entries and the context held fixed -/
theorem exec_coupling_entry_monotone (he : 0 ≤ e 1e-3) (hk : c.kind = "additive" ∨ c.kind = "affine")
    (net : Array ℝ → Array ℝ → Array ℝ) {B b t s : Nat} (hb : b < B)
    (ht : t < (transformIdx (NF.realX e) mask).length) (hs : s < S) (x ctx : Array ℝ)
    (hj : flatIdx mask.length S b ((transformIdx (NF.realX e) mask).getD t 0) s < x.size) :
    ∃ f : ℝ → ℝ, StrictMono f ∧ ∀ τ,
      (layer (NF.realX e) c mask S inverse none #[] net B
        (x.setIfInBounds (flatIdx mask.length S b ((transformIdx (NF.realX e) mask).getD t 0) s) τ) ctx).out[
          flatIdx mask.length S b ((transformIdx (NF.realX e) mask).getD t 0) s]? = some (f τ) := by
  refine ⟨_, ?_, exec_coupling_entry_map e c mask S inverse net hb ht hs x ctx hj⟩
  rcases hk with hk | hk
  · exact couplingEl_additive_strictMono e c S inverse hk _ _ b t s
  · exact couplingEl_affine_strictMono e c S inverse he hk _ _ b t s

/-- instance: mask `[1, 0, 1]`, `S = 2` (a `[1, 3, 2]` input), affine coupling, entry `(channel 2, s = 1)` = flat index 5 -/
example (e : Float → ℝ) (he : 0 ≤ e 1e-3) (net : Array ℝ → Array ℝ → Array ℝ) (inverse : Bool) (x ctx : Array ℝ)
    (hx : x.size = 6) :
    ∃ f : ℝ → ℝ, StrictMono f ∧ ∀ τ,
      (layer (NF.realX e) { kind := "affine" } [1, 0, 1] 2 inverse none #[] net 1 (x.setIfInBounds 5 τ) ctx).out[5]?
        = some (f τ) := by
  have hT : transformIdx (NF.realX e) [1, 0, 1] = [0, 2] := by
    simp [transformIdx, XOps.gt, realX_lt, realX_zero, List.range_succ, List.filter_cons]
  have h := exec_coupling_entry_monotone e { kind := "affine" } [1, 0, 1] 2 inverse he (Or.inr rfl) net
    (B := 1) (b := 0) (t := 1) (s := 1) (by decide) (by rw [hT]; decide) (by decide) x ctx
    (by rw [hT, hx]; decide)
  rw [hT] at h
  exact h

end realsS

/-! ## 5. Concrete instances -/

section examples
open NF.RowIndependenceMore

/-! ### the index lists of the masks used below -/

example : identityIdx floatX [-2.5, 3.0] = [0] ∧ transformIdx floatX [-2.5, 3.0] = [1] := by
  constructor <;> decide +kernel

example : identityIdx intX [1, 0, 1] = [1] ∧ transformIdx intX [1, 0, 1] = [0, 2] := by
  constructor <;> decide +kernel

/-- a conditioner for mask `[1, 0, 1]`, additive family, `S = 1`: parameters `[z + ctx, 2 z]` from the identity entry `z` -/
def toyNet1 : Array Int → Array Int → Array Int := fun z ctx => #[z.getD 0 0 + ctx.getD 0 0, 2 * z.getD 0 0]

/-- … and `S = 2`: parameters `[B, 2, 2]` from the identity split `[B, 1, 2]` -/
def toyNet2 : Array Int → Array Int → Array Int :=
  fun z ctx => #[z.getD 0 0 + ctx.getD 0 0, z.getD 1 0, 2 * z.getD 0 0, 2 * z.getD 1 0]

/-- `exec_coupling_param_dependence`, `S = 1`: the two inputs differ in BOTH transformed channels, agree on the identity
    channel; same conditioner input, same parameters — and the run itself, evaluated -/
example :
    IdAgree intX [1, 0, 1] 1 1 #[1, 2, 3] #[50, 2, 99]
    ∧ paramsOf intX [1, 0, 1] 1 false none #[] toyNet1 1 #[1, 2, 3] #[10] = #[12, 4]
    ∧ paramsOf intX [1, 0, 1] 1 false none #[] toyNet1 1 #[50, 2, 99] #[10] = #[12, 4]
    ∧ (layer intX { kind := "additive" } [1, 0, 1] 1 false none #[] toyNet1 1 #[1, 2, 3] #[10]).out = #[13, 2, 7]
    ∧ (layer intX { kind := "additive" } [1, 0, 1] 1 false none #[] toyNet1 1 #[1, 2, 99] #[10]).out = #[13, 2, 103]
    ∧ (layer intX { kind := "additive" } [1, 0, 1] 1 true none #[] toyNet1 1 #[13, 2, 7] #[10]).out = #[1, 2, 3] := by
  refine ⟨?_, by decide +kernel, by decide +kernel, by decide +kernel, by decide +kernel, by decide +kernel⟩
  intro b ch s hb hch hs
  have h1 : ch = 1 := by
    have : ch ∈ ([1] : List Nat) := by
      have h : identityIdx intX [1, 0, 1] = [1] := by decide +kernel
      rw [← h]; exact hch
    simpa using this
  have hb0 : b = 0 := by omega
  have hs0 : s = 0 := by omega
  subst h1 hb0 hs0
  decide +kernel

/-- `exec_coupling_no_cross_dependence_set`, mask `[1, 0, 1]`, `S = 1` and `S = 2`, both passes, ANY input, context and
    conditioner: overwriting the OTHER transformed channel (channel 2) leaves output channel 0 unchanged -/
example (net : Array Int → Array Int → Array Int) (inverse : Bool) (x ctx : Array Int) (w : Int) :
    (layer intX { kind := "additive" } [1, 0, 1] 1 inverse none #[] net 1 (x.setIfInBounds 2 w) ctx).out[0]?
      = (layer intX { kind := "additive" } [1, 0, 1] 1 inverse none #[] net 1 x ctx).out[0]? :=
  exec_coupling_no_cross_dependence_set intX { kind := "additive" } [1, 0, 1] 1 inverse none #[] net
    (B := 1) (b := 0) (t := 0) (s := 0) (b₂ := 0) (ch₂ := 2) (s₂ := 0) (by decide) (by decide +kernel) (by decide) x ctx w
    (by decide) (by decide) (by decide +kernel) (by decide +kernel)

example (net : Array Int → Array Int → Array Int) (inverse : Bool) (x ctx : Array Int) (w : Int) :
    (layer intX { kind := "additive" } [1, 0, 1] 2 inverse none #[] net 1 (x.setIfInBounds 5 w) ctx).out[1]?
      = (layer intX { kind := "additive" } [1, 0, 1] 2 inverse none #[] net 1 x ctx).out[1]? :=
  exec_coupling_no_cross_dependence_set intX { kind := "additive" } [1, 0, 1] 2 inverse none #[] net
    (B := 1) (b := 0) (t := 0) (s := 1) (b₂ := 0) (ch₂ := 2) (s₂ := 1) (by decide) (by decide +kernel) (by decide) x ctx w
    (by decide) (by decide) (by decide +kernel) (by decide +kernel)

/-- the `S = 2` run evaluated: `[B, C, S] = [1, 3, 2]`, identity channel 1 (entries 2, 3) untouched, channels 0 and 2
    shifted by the parameters computed from the identity entries -/
example :
    (layer intX { kind := "additive" } [1, 0, 1] 2 false none #[] toyNet2 1 #[1, 2, 3, 4, 5, 6] #[10]).out
      = #[14, 6, 3, 4, 11, 14]
    ∧ (layer intX { kind := "additive" } [1, 0, 1] 2 false none #[] toyNet2 1 #[1, 2, 3, 4, 77, 88] #[10]).out
      = #[14, 6, 3, 4, 83, 96] := by
  constructor <;> decide +kernel

/-- `exec_identity_passthrough_weak` at `Float`, the numeric mask `[-2.5, 3.0]`, `S = 1` and `S = 2`, both passes, every
    family, input and parameter array: channel 0 is returned bit for bit -/
example (c : ElCfg) (inverse : Bool) (B : Nat) (x params : Array Float) (b : Nat) :
    (couplingApply floatX c [-2.5, 3.0] B 1 x params inverse none #[]).out[flatIdx 2 1 b 0 0]? = x[flatIdx 2 1 b 0 0]?
    ∧ (couplingApply floatX c [-2.5, 3.0] B 2 x params inverse none #[]).out[flatIdx 2 2 b 0 1]? = x[flatIdx 2 2 b 0 1]? :=
  ⟨exec_identity_passthrough_weak floatX c [-2.5, 3.0] 1 inverse #[] B x params (by decide) (by decide) (by decide +kernel),
   exec_identity_passthrough_weak floatX c [-2.5, 3.0] 2 inverse #[] B x params (by decide) (by decide) (by decide +kernel)⟩

/-- an `XOps` in which `>` always answers `true` (so `≤ 0` and `> 0` overlap): legitimate as a record of operations -/
def overlapX : XOps Int := { intX with toOps := { intOps with lt := fun _ _ => true } }

/-- **the hypothesis of `exec_identity_passthrough_weak` is needed**: in `overlapX` channel 0 of the mask `[0]` is listed as
    an identity channel AND as a transformed one; the executed layer does not pass it through (`3 ↦ 8`).  This is why the
    generic pass-through theorem speaks of `mask[ch] > 0` being false and not of membership in `identityIdx`. -/
theorem passthrough_needs_not_gt :
    identityIdx overlapX [0] = [0] ∧ transformIdx overlapX [0] = [0]
    ∧ (couplingApply overlapX { kind := "additive" } [0] 1 1 #[3] #[5] false).out = #[8] := by
  refine ⟨by decide +kernel, by decide +kernel, by decide +kernel⟩

/-! ### reals: mask `[1, 0, 1]` (channels 0 and 2 transformed, channel 1 identity) and `[-2.5, 3.0]` -/

theorem isT_101 (e : Float → ℝ) :
    isT (NF.realX e) [1, 0, 1] ⟨0, by decide⟩ = true ∧ isT (NF.realX e) [1, 0, 1] ⟨1, by decide⟩ = false
    ∧ isT (NF.realX e) [1, 0, 1] ⟨2, by decide⟩ = true := by
  refine ⟨?_, ?_, ?_⟩ <;> simp [isT, XOps.gt, realX_lt, realX_zero]

theorem isT_m25_3 (e : Float → ℝ) :
    isT (NF.realX e) [-2.5, 3.0] ⟨0, by decide⟩ = false ∧ isT (NF.realX e) [-2.5, 3.0] ⟨1, by decide⟩ = true := by
  refine ⟨?_, ?_⟩ <;> simp [isT, XOps.gt, realX_lt, realX_zero] <;> norm_num

/-- `exec_coupling_feature_monotone_affine` (RealNVP, `scale = sigmoid(u + 2) + 1e-3`), mask `[-2.5, 3.0]`, ANY conditioner,
    both passes: output channel 1 is a strictly increasing function of input channel 1 on ℝ -/
example (e : Float → ℝ) (he : 0 ≤ e 1e-3) (net : Array ℝ → Array ℝ) (inverse : Bool) (a z : ℝ) :
    StrictMono (fun t => couplingRowMap e { kind := "affine" } [-2.5, 3.0] 1 net inverse #[a, z] 0
      (Function.update (rowOf (NF.realX e) 2 0 #[a, z]) ⟨1, by decide⟩ t) ⟨1, by decide⟩) :=
  exec_coupling_feature_monotone_affine e { kind := "affine" } [-2.5, 3.0] 1 net inverse he rfl #[a, z] (by simp)
    (by decide) _ (fun _ _ => rfl) ⟨1, by decide⟩ (isT_m25_3 e).2

/-- `exec_coupling_feature_monotone_additive`, mask `[1, 0, 1]`: channel 2, whatever channel 0 holds (`w`) -/
example (e : Float → ℝ) (net : Array ℝ → Array ℝ) (inverse : Bool) (a z q w : ℝ) :
    StrictMono (fun t => couplingRowMap e { kind := "additive" } [1, 0, 1] 1 net inverse #[a, z, q] 0
      (Function.update (Function.update (rowOf (NF.realX e) 3 0 #[a, z, q]) ⟨0, by decide⟩ w) ⟨2, by decide⟩ t)
        ⟨2, by decide⟩) :=
  exec_coupling_feature_monotone_additive e { kind := "additive" } [1, 0, 1] 1 net inverse rfl #[a, z, q] (by simp)
    (by decide) _
    (fun k hk => update_identity e [1, 0, 1] _ (isT_101 e).1 w k hk) ⟨2, by decide⟩ (isT_101 e).2.2

/-- RQ with linear tails at the accepted configuration `cT2` (two bins), any mask, conditioner, row: the hypothesis bundle
    of `exec_coupling_feature_monotone_rq_tails` is satisfiable -/
example (mask : List ℝ) (B : Nat) (net : Array ℝ → Array ℝ) (inverse : Bool) (x : Array ℝ)
    (hx : x.size = B * mask.length) {b : Nat} (hb : b < B) (i : Fin mask.length)
    (hi : isT (NF.realX TailsWhole.eW) mask i = true) :
    StrictMono (fun t => couplingRowMap TailsWhole.eW cT2 mask B net inverse x b
      (Function.update (rowOf (NF.realX TailsWhole.eW) mask.length b x) i t) i) :=
  exec_coupling_feature_monotone_rq_tails TailsWhole.eW cT2 mask B net inverse rqTailsCfgValid_example x hx hb _
    (fun _ _ => rfl) i hi

/-- **`exec_coupling_jacobian_triangular` with NO hypothesis left**: additive coupling, mask `[1, 0, 1]`, a genuinely
    input-dependent affine conditioner `net z = A z + β` (any weights), any row `v`.  The Fréchet derivative `L` of the
    executed one-row map has: identity row = row of the identity matrix; no dependence of a transformed output on the
    other transformed input; positive diagonal; positive determinant. -/
example (e : Float → ℝ) (A : Fin 2 → ℕ → ℝ) (β : Fin 2 → ℝ) (v : Fin 3 → ℝ) :
    let net : Array ℝ → Array ℝ := fun z => Array.ofFn fun k : Fin 2 => (∑ j ∈ Finset.range 1, A k j * z.getD j 0) + β k
    let L := fderiv ℝ (couplingRowT e { kind := "additive" } [1, 0, 1] net 3) v
    L (Pi.single 0 1) 1 = 0 ∧ L (Pi.single 1 1) 1 = 1 ∧ L (Pi.single 2 1) 1 = 0
    ∧ L (Pi.single 2 1) 0 = 0 ∧ L (Pi.single 0 1) 2 = 0
    ∧ 0 < L (Pi.single 0 1) 0 ∧ 0 < L (Pi.single 2 1) 2 ∧ 0 < L.det := by
  intro net L
  have H : CouplingRowHyp e { kind := "additive" } [1, 0, 1] net 3 :=
    couplingRowHyp_additive_affineNet e rfl rfl (affineNet_ofFn 2 1 A β)
  have hL : HasFDerivAt (couplingRowMap e { kind := "additive" } [1, 0, 1] 1 net false (Array.ofFn v) 0) L
      (rowOf (NF.realX e) ([1, 0, 1] : List ℝ).length 0 (Array.ofFn v)) := by
    rw [couplingRowMap_one, rowOf_ofFn]
    exact (H.hdiff v).hasFDerivAt
  have hd := fun i (_ : isT (NF.realX e) [1, 0, 1] i = true) =>
    couplingElMap_additive_hasDerivAt e { kind := "additive" } rfl [1, 0, 1]
      (net (idSplit (NF.realX e) [1, 0, 1] 1 (Array.ofFn v))) false 0 i
      (rowOf (NF.realX e) ([1, 0, 1] : List ℝ).length 0 (Array.ofFn v) i)
  obtain ⟨h1, h2, -⟩ := exec_coupling_jacobian_triangular e { kind := "additive" } [1, 0, 1] 1 net false (Array.ofFn v)
    (by simp) (by decide) hL _ hd
  have hp := exec_coupling_jacobian_diag_pos e { kind := "additive" } [1, 0, 1] 1 net false (Array.ofFn v)
    (by simp) (by decide) hL hd
  have hdet := (exec_coupling_jacobian_det_pos e { kind := "additive" } [1, 0, 1] 1 net false (Array.ofFn v)
    (by simp) (by decide) hL hd).2.1
  obtain ⟨t0, t1, t2⟩ := isT_101 e
  refine ⟨?_, ?_, ?_, ?_, ?_, ?_, ?_, hdet⟩
  · simpa using h1 ⟨1, by decide⟩ ⟨0, by decide⟩ t1
  · simpa using h1 ⟨1, by decide⟩ ⟨1, by decide⟩ t1
  · simpa using h1 ⟨1, by decide⟩ ⟨2, by decide⟩ t1
  · exact h2 ⟨0, by decide⟩ ⟨2, by decide⟩ t0 t2 (by decide)
  · exact h2 ⟨2, by decide⟩ ⟨0, by decide⟩ t2 t0 (by decide)
  · exact (hp ⟨0, by decide⟩ t0).2
  · exact (hp ⟨2, by decide⟩ t2).2

/-- bounded RQ coupling at the accepted one-bin configuration `cW` (unit box), conditioner returning the empty array: the
    hypothesis bundle of `exec_coupling_feature_monotone_rq` is satisfiable, for every mask, row and transformed channel -/
example (mask : List ℝ) (B : Nat) (x : Array ℝ) (hx : x.size = B * mask.length) {b : Nat} (hb : b < B)
    (i : Fin mask.length) (hi : isT (NF.realX RQWhole.eNV) mask i = true) :
    StrictMonoOn (fun t => couplingRowMap RQWhole.eNV cW mask B (fun _ => #[]) false x b
        (Function.update (rowOf (NF.realX RQWhole.eNV) mask.length b x) i t) i)
        (Set.Icc (RQWhole.eNV (rqCfgOf cW).box.left) (RQWhole.eNV (rqCfgOf cW).box.right))
    ∧ StrictMonoOn (fun t => couplingRowMap RQWhole.eNV cW mask B (fun _ => #[]) true x b
        (Function.update (rowOf (NF.realX RQWhole.eNV) mask.length b x) i t) i)
        (Set.Icc (RQWhole.eNV (rqCfgOf cW).box.bottom) (RQWhole.eNV (rqCfgOf cW).box.top)) :=
  exec_coupling_feature_monotone_rq RQWhole.eNV cW mask B (fun _ => #[]) rfl rfl x hx hb _ (fun _ _ => rfl) i hi
    (rqParamsValid_example _ 1 B b _ 0 hb (NF.LayerDerivMore.tpos_lt RQWhole.eNV mask i hi) Nat.one_pos)

end examples

end NF.CouplingConsequences
