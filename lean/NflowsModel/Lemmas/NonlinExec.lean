import NflowsModel.Core.Nonlin
import NflowsModel.Real.RealX
import NflowsModel.Lemmas.Nonlin
import NflowsModel.Lemmas.TanhStable
import NflowsModel.Lemmas.DualXNonlin
import NflowsModel.Lemmas.StructureExec
import Mathlib.Analysis.SpecialFunctions.Log.Deriv
import Mathlib.Analysis.SpecialFunctions.ExpDeriv
import Mathlib.Tactic
/-!
# Lemmas/NonlinExec — the EXECUTED element-wise transformers of `Core/Nonlin.lean` at the reals

The scalar laws of `Properties/C01.lean` / `C02.lean` (`exp_logdet`, `sigmoid_logdet`, `leakyRelu_logdet`, `affine_logdet`,
`glu_logdet`, `exp_roundtrip`, `tanh_roundtrip`, `leakyRelu_roundtrip`) are facts about closed forms.  This file attaches
them to the terms the driver runs: `expT`, `tanhT`, `leakyReluT`, `sigmoidT`, `affineT`, `scaleShiftT`, `gluT` of
`Core/Nonlin.lean`, instantiated at `NF.realX e`, and the string-keyed dispatcher `nonlinEl`
(`logTanhT` and `cauchyT` are in `Lemmas/NonlinExecLT.lean`).

For every element `F` and both directions:

* **run (C17)**: `F (NF.realX e) … x = .ok (closed form value, closed form log-det)` exactly on the stated domain and
  `.error .outsideDomain` exactly outside it (`…_run`, `…_error_iff`, `…_ok_iff`);
* **C01** (`LogDetAt`): the program's own first output `s ↦ outY (F s)` (`DualX.outY`: the value of an `.ok` run) has a
  derivative `d` at `x` with `|d| = exp (returned log-det)` (and `0 < d` for the increasing ones);
* **C02** (`RoundTrip`): the executed inverse, run on the executed forward OUTPUT, returns the input and the negated
  log-det — and the other order.

What is NOT exact in the model (each stated as a theorem, none hidden in a hypothesis):

* `sigmoidT` forward: the log-det is computed with the thresholded `F.softplus` (threshold 20).  For `|T x| ≤ 20` it is the
  exact log-derivative (`sigmoidT_fwd_logdet`); for `|T x| > 20` it is NOT: it exceeds it by exactly
  `log (1 + exp (-|T x|)) ∈ (0, e⁻²⁰)` (`sigmoidT_fwd_threshold_gap`, `sigmoidT_fwd_logdet_false_beyond_threshold`).
* `sigmoidT` inverse (`Sigmoid.inverse` = `Logit.forward`) CLAMPS its argument to `[ε̂, 1 − ε̂]`: the round trip
  `inverse ∘ forward` is exact precisely when `ε̂ ≤ σ(T x) ≤ 1 − ε̂` (`sigmoidT_roundtrip`); outside, the inverse returns
  the logit of the clamp bound (`sigmoidT_inv_clamped_lo/hi`), and as a map of its argument it is constant there, so its
  derivative is `0` while the returned log-det is finite (`sigmoidT_inv_flat_lo`).
* `tanhT` forward below the `softplus` threshold (`x < −10`) returns `2 (log 2 + x)`; the executed inverse returns
  `−log (1 − y²)` there, so the log-det of the round trip is negated only up to `2 e^{2x}`
  (`tanhT_roundtrip` is for `−10 ≤ x`; `tanhT_roundtrip_logdet_false_below_threshold`).
* `leakyReluT` at the kink `x = 0` (not differentiable unless the slope is 1: `leakyReluT_not_differentiable_at_zero`).
* `affineT` with `scale = 0` is accepted by the element function (the constructor rejects it): then the returned log-det
  `log |0| = 0` is not the log-derivative (`affineT_zero_scale_counterexample`).

Whole layer: `nonlinApply_real` turns the imperative loop of `Core/Structure.nonlinApply` (what the driver runs for every
element-wise class) into `out = map value`, `ld = sum_except_batch (map log-det)`, `err = first element error`;
`nonlinApply_ld_row` (row `b` of the log-det is the sum of the element log-dets of that row), `nonlinApply_err_none_iff`.
Dispatcher: `nonlinEl_Exp … nonlinEl_Identity`, `nonlinEl_other`.

Readings of Python-side doubles are explicit: `LeakyConsts` (`0 < e slope`, the held attribute `log_negative_slope` IS
`log (e slope)`, `e (1.0 / slope) = 1 / e slope`), `TanhConsts`, `e 0.5 = 1/2`, `SigmoidClamp`; each has a concrete witness.
-/
open NF DualX

namespace NonlinExec
noncomputable section

/-! ## Vocabulary -/

/-- **C01 at one point**: the run succeeds, the program's value output is differentiable at `x`, and the modulus of its
    derivative is `exp` of the returned log-det -/
def LogDetAt (F : ℝ → Except Err (ℝ × ℝ)) (x : ℝ) : Prop :=
  ∃ y ld d : ℝ, F x = .ok (y, ld) ∧ HasDerivAt (fun s => outY (F s)) d x ∧ |d| = Real.exp ld

/-- … and the map is increasing there: `d = exp ld` -/
def IncLogDetAt (F : ℝ → Except Err (ℝ × ℝ)) (x : ℝ) : Prop :=
  ∃ y ld : ℝ, F x = .ok (y, ld) ∧ HasDerivAt (fun s => outY (F s)) (Real.exp ld) x

theorem IncLogDetAt.logDetAt {F : ℝ → Except Err (ℝ × ℝ)} {x : ℝ} (h : IncLogDetAt F x) : LogDetAt F x := by
  obtain ⟨y, ld, h1, h2⟩ := h
  exact ⟨y, ld, _, h1, h2, abs_of_pos (Real.exp_pos ld)⟩

/-- **C02 at one point**: `fwd x` succeeds with `(y, ld)` and `inv`, run on that `y`, returns `(x, -ld)` -/
def RoundTrip (fwd inv : ℝ → Except Err (ℝ × ℝ)) (x : ℝ) : Prop :=
  ∃ y ld : ℝ, fwd x = .ok (y, ld) ∧ inv y = .ok (x, -ld)

/-- from an eventual closed form of the run to `IncLogDetAt` -/
theorem incLogDetAt_of_eventually {F : ℝ → Except Err (ℝ × ℝ)} {fy fl : ℝ → ℝ} {x : ℝ}
    (hF : ∀ᶠ s in nhds x, F s = .ok (fy s, fl s)) (hd : HasDerivAt fy (Real.exp (fl x)) x) : IncLogDetAt F x := by
  refine ⟨fy x, fl x, hF.self_of_nhds, hd.congr_of_eventuallyEq ?_⟩
  filter_upwards [hF] with s hs
  rw [hs]; rfl

theorem logDetAt_of_eventually {F : ℝ → Except Err (ℝ × ℝ)} {fy fl : ℝ → ℝ} {x d : ℝ}
    (hF : ∀ᶠ s in nhds x, F s = .ok (fy s, fl s)) (hd : HasDerivAt fy d x) (habs : |d| = Real.exp (fl x)) :
    LogDetAt F x := by
  refine ⟨fy x, fl x, d, hF.self_of_nhds, hd.congr_of_eventuallyEq ?_, habs⟩
  filter_upwards [hF] with s hs
  rw [hs]; rfl

variable (e : Float → ℝ)

/-! ## Exp (nonlinearities.py:18-33) -/

/-- forward run: total, `(exp x, x)` -/
theorem expT_fwd_run (x : ℝ) : expT (NF.realX e) false x = .ok (Real.exp x, x) := rfl

/-- inverse run on the domain `0 < y`: `(log y, −log y)` -/
theorem expT_inv_run {y : ℝ} (hy : 0 < y) : expT (NF.realX e) true y = .ok (Real.log y, -Real.log y) := by
  unfold expT
  simp only [if_true, NF.realX_le, NF.realX_zero, decide_eq_true_eq, if_neg (not_le.mpr hy), NF.realX_log, NF.realX_neg]

/-- **C17**: the inverse raises exactly outside the open half line -/
theorem expT_inv_error_iff (y : ℝ) : expT (NF.realX e) true y = .error .outsideDomain ↔ y ≤ 0 := by
  constructor
  · intro h
    by_contra hy
    rw [expT_inv_run e (not_le.mp hy)] at h
    cases h
  · intro hy
    unfold expT
    simp only [if_true, NF.realX_le, NF.realX_zero, decide_eq_true_eq, if_pos hy]

theorem expT_inv_ok_iff (y : ℝ) : (∃ r, expT (NF.realX e) true y = .ok r) ↔ 0 < y := by
  constructor
  · rintro ⟨r, hr⟩
    by_contra hy
    rw [(expT_inv_error_iff e y).mpr (not_lt.mp hy)] at hr
    cases hr
  · intro hy; exact ⟨_, expT_inv_run e hy⟩

/-- **C01, executed `Exp.forward`**: the derivative of the program's value is `exp` of the returned log-det, at every `x` -/
theorem expT_fwd_logdet (x : ℝ) : IncLogDetAt (expT (NF.realX e) false) x :=
  incLogDetAt_of_eventually (fy := Real.exp) (fl := id) (Filter.Eventually.of_forall fun s => expT_fwd_run e s)
    (Real.hasDerivAt_exp x)

/-- **C01, executed `Exp.inverse`** on the open domain -/
theorem expT_inv_logdet {y : ℝ} (hy : 0 < y) : IncLogDetAt (expT (NF.realX e) true) y := by
  refine incLogDetAt_of_eventually (fy := Real.log) (fl := fun s => -Real.log s) ?_ ?_
  · filter_upwards [Ioi_mem_nhds hy] with s hs
    exact expT_inv_run e hs
  · have := Real.hasDerivAt_log hy.ne'
    simpa [Real.exp_neg, Real.exp_log hy] using this

/-- **C02, executed**: `Exp.inverse (Exp.forward x) = (x, −logdet)` for every `x` -/
theorem expT_roundtrip (x : ℝ) : RoundTrip (expT (NF.realX e) false) (expT (NF.realX e) true) x :=
  ⟨Real.exp x, x, expT_fwd_run e x, by rw [expT_inv_run e (Real.exp_pos x), Real.log_exp]⟩

/-- **C02, other order**, on the inverse's domain -/
theorem expT_roundtrip' {y : ℝ} (hy : 0 < y) : RoundTrip (expT (NF.realX e) true) (expT (NF.realX e) false) y :=
  ⟨Real.log y, -Real.log y, expT_inv_run e hy, by rw [expT_fwd_run, Real.exp_log hy, neg_neg]⟩

/-! ## PointwiseAffineTransform (standard.py:26-71) and the positive-scale affine element of coupling / autoregressive layers -/

theorem affineT_fwd_run (scale shift x : ℝ) :
    affineT (NF.realX e) scale shift false x = .ok (x * scale + shift, Real.log |scale|) := rfl

theorem affineT_inv_run (scale shift y : ℝ) :
    affineT (NF.realX e) scale shift true y = .ok ((y - shift) / scale, -Real.log |scale|) := rfl

/-- **C01, executed `PointwiseAffineTransform.forward`** (`scale ≠ 0`; DEcreasing when `scale < 0`: the derivative is
    `scale`, its modulus is `exp` of the returned `log |scale|`) -/
theorem affineT_fwd_logdet (scale shift x : ℝ) (h0 : scale ≠ 0) : LogDetAt (affineT (NF.realX e) scale shift false) x := by
  refine logDetAt_of_eventually (fy := fun s => s * scale + shift) (fl := fun _ => Real.log |scale|) (d := scale)
    (Filter.Eventually.of_forall fun s => affineT_fwd_run e scale shift s) ?_ ?_
  · simpa using ((hasDerivAt_id' x).mul_const scale).add_const shift
  · rw [Real.exp_log (abs_pos.mpr h0)]

theorem affineT_inv_logdet (scale shift y : ℝ) (h0 : scale ≠ 0) : LogDetAt (affineT (NF.realX e) scale shift true) y := by
  refine logDetAt_of_eventually (fy := fun s => (s - shift) / scale) (fl := fun _ => -Real.log |scale|) (d := 1 / scale)
    (Filter.Eventually.of_forall fun s => affineT_inv_run e scale shift s) ?_ ?_
  · simpa using ((hasDerivAt_id' y).sub_const shift).div_const scale
  · rw [Real.exp_neg, Real.exp_log (abs_pos.mpr h0), abs_div, abs_one, one_div]

/-- **C02, executed**, both orders (`scale ≠ 0`) -/
theorem affineT_roundtrip (scale shift x : ℝ) (h0 : scale ≠ 0) :
    RoundTrip (affineT (NF.realX e) scale shift false) (affineT (NF.realX e) scale shift true) x :=
  ⟨_, _, affineT_fwd_run e scale shift x, by rw [affineT_inv_run]; congr 2; field_simp; ring⟩

theorem affineT_roundtrip' (scale shift y : ℝ) (h0 : scale ≠ 0) :
    RoundTrip (affineT (NF.realX e) scale shift true) (affineT (NF.realX e) scale shift false) y :=
  ⟨_, _, affineT_inv_run e scale shift y, by rw [affineT_fwd_run, neg_neg]; congr 2; field_simp; ring⟩

/-- the side condition `scale ≠ 0` is forced (the element function itself accepts `0`; `PointwiseAffineTransform.__init__`
    rejects it): with `scale = 0` the run returns log-det `log 0 = 0`, whose `exp` is `1`, but the map is constant -/
theorem affineT_zero_scale_counterexample (shift x : ℝ) :
    affineT (NF.realX e) 0 shift false x = .ok (shift, 0) ∧
      HasDerivAt (fun s => outY (affineT (NF.realX e) 0 shift false s)) 0 x ∧ |(0:ℝ)| ≠ Real.exp 0 := by
  refine ⟨by rw [affineT_fwd_run]; simp, ?_, by simp⟩
  have : (fun s => outY (affineT (NF.realX e) 0 shift false s)) = fun _ => shift := by
    funext s; rw [affineT_fwd_run]; simp
  rw [this]; exact hasDerivAt_const x shift

theorem scaleShiftT_fwd_run (scale shift x : ℝ) :
    scaleShiftT (NF.realX e) scale shift false x = .ok (x * scale + shift, Real.log scale) := rfl

theorem scaleShiftT_inv_run (scale shift y : ℝ) :
    scaleShiftT (NF.realX e) scale shift true y = .ok ((y - shift) / scale, -Real.log scale) := rfl

/-- **C01, executed affine element of `AffineCouplingTransform` / `MaskedAffineAutoregressiveTransform`** (positive scale) -/
theorem scaleShiftT_fwd_logdet (scale shift x : ℝ) (h0 : 0 < scale) :
    IncLogDetAt (scaleShiftT (NF.realX e) scale shift false) x := by
  refine incLogDetAt_of_eventually (fy := fun s => s * scale + shift) (fl := fun _ => Real.log scale)
    (Filter.Eventually.of_forall fun s => scaleShiftT_fwd_run e scale shift s) ?_
  rw [Real.exp_log h0]
  simpa using ((hasDerivAt_id' x).mul_const scale).add_const shift

theorem scaleShiftT_inv_logdet (scale shift y : ℝ) (h0 : 0 < scale) :
    IncLogDetAt (scaleShiftT (NF.realX e) scale shift true) y := by
  refine incLogDetAt_of_eventually (fy := fun s => (s - shift) / scale) (fl := fun _ => -Real.log scale)
    (Filter.Eventually.of_forall fun s => scaleShiftT_inv_run e scale shift s) ?_
  rw [Real.exp_neg, Real.exp_log h0]
  simpa using ((hasDerivAt_id' y).sub_const shift).div_const scale

theorem scaleShiftT_roundtrip (scale shift x : ℝ) (h0 : scale ≠ 0) :
    RoundTrip (scaleShiftT (NF.realX e) scale shift false) (scaleShiftT (NF.realX e) scale shift true) x :=
  ⟨_, _, scaleShiftT_fwd_run e scale shift x, by rw [scaleShiftT_inv_run]; congr 2; field_simp; ring⟩

theorem scaleShiftT_roundtrip' (scale shift y : ℝ) (h0 : scale ≠ 0) :
    RoundTrip (scaleShiftT (NF.realX e) scale shift true) (scaleShiftT (NF.realX e) scale shift false) y :=
  ⟨_, _, scaleShiftT_inv_run e scale shift y, by rw [scaleShiftT_fwd_run, neg_neg]; congr 2; field_simp; ring⟩

/-! ## GatedLinearUnit (nonlinearities.py:183-197, after the repair): gate `σ(ctx)` -/

/-- the gate, as the executed `o.sigmoid` computes it over ℝ -/
def gate (ctx : ℝ) : ℝ := 1 / (1 + Real.exp (-ctx))

theorem gate_pos (ctx : ℝ) : 0 < gate ctx := by unfold gate; positivity

theorem gluT_fwd_run (ctx x : ℝ) : gluT (NF.realX e) ctx false x = .ok (x * gate ctx, Real.log (gate ctx)) := by
  unfold gluT gate
  simp only [Bool.false_eq_true, if_false, NF.realX_mul, NF.realX_log, NF.realX_sigmoid]

theorem gluT_inv_run (ctx y : ℝ) : gluT (NF.realX e) ctx true y = .ok (y / gate ctx, -Real.log (gate ctx)) := by
  unfold gluT gate
  simp only [if_true, NF.realX_div, NF.realX_log, NF.realX_neg, NF.realX_sigmoid]

/-- **C01, executed `GatedLinearUnit.forward`** for one element: derivative `σ(ctx) = exp (log σ(ctx))`; no side condition -/
theorem gluT_fwd_logdet (ctx x : ℝ) : IncLogDetAt (gluT (NF.realX e) ctx false) x := by
  refine incLogDetAt_of_eventually (fy := fun s => s * gate ctx) (fl := fun _ => Real.log (gate ctx))
    (Filter.Eventually.of_forall fun s => gluT_fwd_run e ctx s) ?_
  rw [Real.exp_log (gate_pos ctx)]
  simpa using (hasDerivAt_id' x).mul_const (gate ctx)

theorem gluT_inv_logdet (ctx y : ℝ) : IncLogDetAt (gluT (NF.realX e) ctx true) y := by
  refine incLogDetAt_of_eventually (fy := fun s => s / gate ctx) (fl := fun _ => -Real.log (gate ctx))
    (Filter.Eventually.of_forall fun s => gluT_inv_run e ctx s) ?_
  rw [Real.exp_neg, Real.exp_log (gate_pos ctx)]
  simpa using (hasDerivAt_id' y).div_const (gate ctx)

theorem gluT_roundtrip (ctx x : ℝ) : RoundTrip (gluT (NF.realX e) ctx false) (gluT (NF.realX e) ctx true) x :=
  ⟨_, _, gluT_fwd_run e ctx x, by rw [gluT_inv_run]; congr 2; field_simp [(gate_pos ctx).ne']⟩

theorem gluT_roundtrip' (ctx y : ℝ) : RoundTrip (gluT (NF.realX e) ctx true) (gluT (NF.realX e) ctx false) y :=
  ⟨_, _, gluT_inv_run e ctx y, by rw [gluT_fwd_run, neg_neg]; congr 2; field_simp [(gate_pos ctx).ne']⟩

/-- **row log-det of the executed GLU**: for a row of `D` elements sharing one context value (a `[B, 1]` context broadcast
    over `[B, D]` inputs) the sum of the returned per-element log-dets is `D · log σ(ctx)` -/
theorem gluT_row_logdet (ctx : ℝ) (xs : List ℝ) :
    (xs.map (fun x => outL (gluT (NF.realX e) ctx false x))).sum = xs.length * Real.log (gate ctx) := by
  induction xs with
  | nil => simp
  | cons a t ih =>
    rw [List.map_cons, List.sum_cons, ih, gluT_fwd_run]
    simp only [outL_ok, List.length_cons, Nat.cast_add, Nat.cast_one]
    ring

/-! ## LeakyReLU (nonlinearities.py:121-140) -/

/-- what the real statement needs of the Python-side constants of `LeakyReLU(negative_slope)`: the slope is positive, the
    held attribute `log_negative_slope` (an independent argument `ls` of the model function) IS the logarithm of the slope,
    and the double division `1.0 / slope` that the inverse forms is read as the exact reciprocal -/
structure LeakyConsts (slope : Float) (ls : ℝ) : Prop where
  hpos : 0 < e slope
  hls : ls = Real.log (e slope)
  hinv : e (1.0 / slope) = 1 / e slope

theorem leakyReluT_fwd_run (slope : Float) (ls x : ℝ) :
    leakyReluT (NF.realX e) slope ls false x
      = .ok (if x < 0 then e slope * x else x, ls * (if x < 0 then 1 else 0)) := by
  unfold leakyReluT
  simp only [Bool.false_eq_true, if_false, NF.realX_lt, NF.realX_zero, decide_eq_true_eq, NF.realX_mul, NF.realX_ofFloat,
    NF.realX_one]

theorem leakyReluT_inv_run (slope : Float) (ls x : ℝ) :
    leakyReluT (NF.realX e) slope ls true x
      = .ok (if x < 0 then e (1.0 / slope) * x else x, -(ls * (if x < 0 then 1 else 0))) := by
  unfold leakyReluT
  simp only [if_true, NF.realX_lt, NF.realX_zero, decide_eq_true_eq, NF.realX_mul, NF.realX_ofFloat, NF.realX_one,
    NF.realX_neg]

variable {e}

/-- **C01, executed `LeakyReLU.forward`**, away from the kink -/
theorem leakyReluT_fwd_logdet {slope : Float} {ls : ℝ} (hc : LeakyConsts e slope ls) {x : ℝ} (hx : x ≠ 0) :
    IncLogDetAt (leakyReluT (NF.realX e) slope ls false) x := by
  rcases lt_or_gt_of_ne hx with hneg | hpos
  · refine incLogDetAt_of_eventually (fy := fun s => e slope * s) (fl := fun _ => ls * 1) ?_ ?_
    · filter_upwards [Iio_mem_nhds hneg] with s hs
      rw [leakyReluT_fwd_run, if_pos (Set.mem_Iio.mp hs), if_pos (Set.mem_Iio.mp hs)]
    · rw [mul_one, hc.hls, Real.exp_log hc.hpos]
      simpa using (hasDerivAt_id' x).const_mul (e slope)
  · refine incLogDetAt_of_eventually (fy := fun s => s) (fl := fun _ => ls * 0) ?_ ?_
    · filter_upwards [Ioi_mem_nhds hpos] with s hs
      rw [leakyReluT_fwd_run, if_neg (not_lt.mpr (le_of_lt (Set.mem_Ioi.mp hs))), if_neg (not_lt.mpr (le_of_lt (Set.mem_Ioi.mp hs)))]
    · rw [mul_zero, Real.exp_zero]; exact hasDerivAt_id' x

/-- **C01, executed `LeakyReLU.inverse`**, away from the kink -/
theorem leakyReluT_inv_logdet {slope : Float} {ls : ℝ} (hc : LeakyConsts e slope ls) {x : ℝ} (hx : x ≠ 0) :
    IncLogDetAt (leakyReluT (NF.realX e) slope ls true) x := by
  rcases lt_or_gt_of_ne hx with hneg | hpos
  · refine incLogDetAt_of_eventually (fy := fun s => e (1.0 / slope) * s) (fl := fun _ => -(ls * 1)) ?_ ?_
    · filter_upwards [Iio_mem_nhds hneg] with s hs
      rw [leakyReluT_inv_run, if_pos (Set.mem_Iio.mp hs), if_pos (Set.mem_Iio.mp hs)]
    · rw [mul_one, hc.hls, Real.exp_neg, Real.exp_log hc.hpos, hc.hinv, one_div]
      simpa using (hasDerivAt_id' x).const_mul (e slope)⁻¹
  · refine incLogDetAt_of_eventually (fy := fun s => s) (fl := fun _ => -(ls * 0)) ?_ ?_
    · filter_upwards [Ioi_mem_nhds hpos] with s hs
      rw [leakyReluT_inv_run, if_neg (not_lt.mpr (le_of_lt (Set.mem_Ioi.mp hs))), if_neg (not_lt.mpr (le_of_lt (Set.mem_Ioi.mp hs)))]
    · rw [mul_zero, neg_zero, Real.exp_zero]; exact hasDerivAt_id' x

/-- **C02, executed**: `LeakyReLU.inverse (LeakyReLU.forward x) = (x, −logdet)` at EVERY `x` (the kink included) -/
theorem leakyReluT_roundtrip {slope : Float} {ls : ℝ} (hc : LeakyConsts e slope ls) (x : ℝ) :
    RoundTrip (leakyReluT (NF.realX e) slope ls false) (leakyReluT (NF.realX e) slope ls true) x := by
  refine ⟨_, _, leakyReluT_fwd_run e slope ls x, ?_⟩
  rw [leakyReluT_inv_run]
  by_cases hx : x < 0
  · have hy : e slope * x < 0 := mul_neg_of_pos_of_neg hc.hpos hx
    rw [if_pos hx, if_pos hy, if_pos hy, if_pos hx, hc.hinv]
    congr 2
    have := hc.hpos.ne'
    field_simp
  · rw [if_neg hx, if_neg hx, if_neg hx]

/-- **C02, other order** -/
theorem leakyReluT_roundtrip' {slope : Float} {ls : ℝ} (hc : LeakyConsts e slope ls) (y : ℝ) :
    RoundTrip (leakyReluT (NF.realX e) slope ls true) (leakyReluT (NF.realX e) slope ls false) y := by
  refine ⟨_, _, leakyReluT_inv_run e slope ls y, ?_⟩
  rw [leakyReluT_fwd_run, neg_neg]
  by_cases hy : y < 0
  · have hpos' : 0 < e (1.0 / slope) := by rw [hc.hinv]; exact one_div_pos.mpr hc.hpos
    have hx : e (1.0 / slope) * y < 0 := mul_neg_of_pos_of_neg hpos' hy
    rw [if_pos hy, if_pos hx, if_pos hx, if_pos hy, hc.hinv]
    congr 2
    have := hc.hpos.ne'
    field_simp
  · rw [if_neg hy, if_neg hy, if_neg hy]

/-- the kink is a genuine exclusion: with a slope other than `1` the executed forward map is not differentiable at `0`
    (the run there returns `(0, 0)`, i.e. claims derivative `1`) -/
theorem leakyReluT_not_differentiable_at_zero (slope : Float) (ls : ℝ) (h1 : e slope ≠ 1) :
    leakyReluT (NF.realX e) slope ls false 0 = .ok (0, 0) ∧
      ¬ DifferentiableAt ℝ (fun s => outY (leakyReluT (NF.realX e) slope ls false s)) 0 := by
  refine ⟨by rw [leakyReluT_fwd_run]; simp, ?_⟩
  rintro ⟨L, hL⟩
  have hd : HasDerivAt (fun s => outY (leakyReluT (NF.realX e) slope ls false s)) (L 1) 0 := hL.hasDerivAt
  have hr : HasDerivWithinAt (fun s : ℝ => s) (L 1) (Set.Ici 0) 0 := by
    refine hd.hasDerivWithinAt.congr (fun s hs => ?_) ?_
    · rw [leakyReluT_fwd_run]; simp [not_lt.mpr (Set.mem_Ici.mp hs)]
    · rw [leakyReluT_fwd_run]; simp
  have hl : HasDerivWithinAt (fun s : ℝ => e slope * s) (L 1) (Set.Iic 0) 0 := by
    refine hd.hasDerivWithinAt.congr (fun s hs => ?_) ?_
    · rw [leakyReluT_fwd_run]
      rcases lt_or_eq_of_le (Set.mem_Iic.mp hs) with h | h
      · simp [h]
      · subst h; simp
    · rw [leakyReluT_fwd_run]; simp
  have e1 : L 1 = 1 := (uniqueDiffWithinAt_Ici (0:ℝ)).eq_deriv _ hr (hasDerivAt_id' (0:ℝ)).hasDerivWithinAt
  have e2 : L 1 = e slope := by
    refine (uniqueDiffWithinAt_Iic (0:ℝ)).eq_deriv _ hl ?_
    simpa using ((hasDerivAt_id' (0:ℝ)).const_mul (e slope)).hasDerivWithinAt
  exact h1 (e2.symm.trans e1)

/-- witness of `LeakyConsts` (the library default `negative_slope = 0.01`): a two-valued reading -/
def eLeaky (f : Float) : ℝ := if f == 0.01 then 1 / 100 else 100
private theorem fl1 : ((0.01:Float) == 0.01) = true := by decide +kernel
private theorem fl2 : (((1.0:Float) / 0.01) == 0.01) = false := by decide +kernel
theorem leakyConsts_example : LeakyConsts eLeaky 0.01 (Real.log (1 / 100)) := by
  refine ⟨?_, ?_, ?_⟩
  · simp [eLeaky, fl1]
  · simp [eLeaky, fl1]
  · simp [eLeaky, fl1, fl2]

variable (e)

/-! ## Tanh (nonlinearities.py:38-54); the forward direction is `TanhStable.tanhT_forward(_threshold)` -/

/-- `½ log ((1+y)/(1−y))`, the executed `Tanh.inverse` value (with `e 0.5 = 1/2`) -/
def artanh (y : ℝ) : ℝ := 1 / 2 * Real.log ((1 + y) / (1 - y))

theorem artanh_tanh (x : ℝ) : artanh (Real.tanh x) = x := by
  have := Nonlin.tanh_inv_fwd x
  unfold Nonlin.artanhCode at this
  unfold artanh
  rw [show (1 / 2 : ℝ) = 0.5 by norm_num]; exact this

theorem tanh_artanh {y : ℝ} (h1 : -1 < y) (h2 : y < 1) : Real.tanh (artanh y) = y := by
  have hq : 0 < (1 + y) / (1 - y) := div_pos (by linarith) (by linarith)
  have hne : (1 - y) ≠ 0 := by linarith
  have hex : Real.exp (artanh y) * Real.exp (artanh y) = (1 + y) / (1 - y) := by
    rw [← Real.exp_add]
    unfold artanh
    rw [show 1 / 2 * Real.log ((1 + y) / (1 - y)) + 1 / 2 * Real.log ((1 + y) / (1 - y)) = Real.log ((1 + y) / (1 - y)) by ring,
      Real.exp_log hq]
  have hu := Real.exp_pos (artanh y)
  rw [Real.tanh_eq_sinh_div_cosh, Real.sinh_eq, Real.cosh_eq, Real.exp_neg]
  set u := Real.exp (artanh y) with hu_def
  have hu2 : u * u * (1 - y) = 1 + y := by rw [hex]; field_simp
  have hden : u * u + 1 ≠ 0 := by positivity
  field_simp
  nlinarith

theorem tanhT_inv_run (h05 : e 0.5 = 1 / 2) {y : ℝ} (h1 : -1 < y) (h2 : y < 1) :
    tanhT (NF.realX e) true y = .ok (artanh y, -Real.log (1 - y * y)) := by
  unfold tanhT artanh
  simp only [if_true, NF.realX_le, XOps.ge, NF.realX_neg, NF.realX_one, decide_eq_true_eq, Bool.or_eq_true, not_le.mpr h1,
    not_le.mpr h2, or_self, if_false, NF.realX_mul, NF.realX_ofFloat, h05, NF.realX_log, NF.realX_div, NF.realX_add,
    NF.realX_sub]

/-- **C17**: `Tanh.inverse` raises exactly outside the open interval `(−1, 1)` -/
theorem tanhT_inv_error_iff (y : ℝ) : tanhT (NF.realX e) true y = .error .outsideDomain ↔ (y ≤ -1 ∨ 1 ≤ y) := by
  constructor
  · intro h
    by_contra hy
    rw [not_or, not_le, not_le] at hy
    have : ∃ r, tanhT (NF.realX e) true y = .ok r := by
      unfold tanhT
      simp only [if_true, NF.realX_le, XOps.ge, NF.realX_neg, NF.realX_one, decide_eq_true_eq, Bool.or_eq_true,
        not_le.mpr hy.1, not_le.mpr hy.2, or_self, if_false]
      exact ⟨_, rfl⟩
    obtain ⟨r, hr⟩ := this
    rw [hr] at h; cases h
  · intro hy
    unfold tanhT
    simp only [if_true, NF.realX_le, XOps.ge, NF.realX_neg, NF.realX_one, decide_eq_true_eq, Bool.or_eq_true]
    rw [if_pos hy]

theorem hasDerivAt_artanh {y : ℝ} (h1 : -1 < y) (h2 : y < 1) : HasDerivAt artanh (1 / (1 - y * y)) y := by
  have hne : (1 - y) ≠ 0 := by linarith
  have hne' : (1 + y) ≠ 0 := by linarith
  have hq : (1 + y) / (1 - y) ≠ 0 := div_ne_zero hne' hne
  have hnum : HasDerivAt (fun s : ℝ => 1 + s) 1 y := by simpa using (hasDerivAt_id' y).const_add 1
  have hden : HasDerivAt (fun s : ℝ => 1 - s) (-1) y := by simpa using (hasDerivAt_id' y).const_sub 1
  have h := ((hnum.div hden hne).log hq).const_mul (1 / 2 : ℝ)
  unfold artanh
  refine h.congr_deriv ?_
  have : (1 - y * y) = (1 - y) * (1 + y) := by ring
  rw [this]
  simp only [Pi.div_apply]
  field_simp
  ring

/-- **C01, executed `Tanh.inverse`** on the open domain: derivative `1/(1−y²) = exp (−log (1−y²))` -/
theorem tanhT_inv_logdet (h05 : e 0.5 = 1 / 2) {y : ℝ} (h1 : -1 < y) (h2 : y < 1) :
    IncLogDetAt (tanhT (NF.realX e) true) y := by
  refine incLogDetAt_of_eventually (fy := artanh) (fl := fun s => -Real.log (1 - s * s)) ?_ ?_
  · filter_upwards [Ioi_mem_nhds h1, Iio_mem_nhds h2] with s hs1 hs2
    exact tanhT_inv_run e h05 hs1 hs2
  · have hpos : 0 < 1 - y * y := by nlinarith
    rw [Real.exp_neg, Real.exp_log hpos, ← one_div]
    exact hasDerivAt_artanh h1 h2

/-- the readings `Tanh` needs -/
structure TanhConsts : Prop where
  h2 : e 2.0 = 2
  hm2 : e (-2.0) = -2
  hl : e (Float.log 2.0) = Real.log 2
  h05 : e 0.5 = 1 / 2

/-- **C02, executed**: `Tanh.inverse (Tanh.forward x) = (x, −logdet)` for `−10 ≤ x` (below, see the next theorem) -/
theorem tanhT_roundtrip (hc : TanhConsts e) {x : ℝ} (hx : -10 ≤ x) :
    RoundTrip (tanhT (NF.realX e) false) (tanhT (NF.realX e) true) x := by
  refine ⟨_, _, (TanhStable.tanhT_forward e x hc.h2 hc.hm2 hc.hl hx).1, ?_⟩
  rw [tanhT_inv_run e hc.h05 (Real.neg_one_lt_tanh x) (Real.tanh_lt_one x), artanh_tanh, pow_two]

/-- below the `softplus` threshold the VALUE still round-trips but the log-dets are not negatives of each other: the
    forward pass returns `2 (log 2 + x)`, the inverse `−log (1 − tanh² x)` (they differ by `2 log (1 + e^{2x}) ≤ 2 e^{2x}`,
    `TanhStable.tanhT_forward_threshold`) -/
theorem tanhT_roundtrip_logdet_false_below_threshold (hc : TanhConsts e) {x : ℝ} (hx : x < -10) :
    (∃ ld ld', tanhT (NF.realX e) false x = .ok (Real.tanh x, ld) ∧ tanhT (NF.realX e) true (Real.tanh x) = .ok (x, ld')
        ∧ ld' ≠ -ld) ∧
      ¬ RoundTrip (tanhT (NF.realX e) false) (tanhT (NF.realX e) true) x := by
  have hf := (TanhStable.tanhT_forward_threshold e x hc.h2 hc.hm2 hc.hl hx).1
  have hi : tanhT (NF.realX e) true (Real.tanh x) = .ok (x, -Real.log (1 - Real.tanh x * Real.tanh x)) := by
    rw [tanhT_inv_run e hc.h05 (Real.neg_one_lt_tanh x) (Real.tanh_lt_one x), artanh_tanh]
  have hne : -Real.log (1 - Real.tanh x * Real.tanh x) ≠ -(2 * (Real.log 2 + x)) := by
    rw [← pow_two, ← TanhStable.stable_eq]
    intro h
    have h' : Real.log (1 + Real.exp (-2 * x)) = -2 * x := by linarith
    have hp : (0:ℝ) < 1 + Real.exp (-2 * x) := by positivity
    have := congrArg Real.exp h'
    rw [Real.exp_log hp] at this
    linarith
  refine ⟨⟨_, _, hf, hi, hne⟩, ?_⟩
  rintro ⟨y, ld, h1, h2⟩
  rw [hf] at h1
  injection h1 with h1
  injection h1 with hy hld
  subst hy; subst hld
  rw [hi] at h2
  injection h2 with h2
  injection h2 with _ h2
  exact hne h2

/-- **C02, other order**: `Tanh.forward (Tanh.inverse y) = (y, −logdet)` on `(−1, 1)` as long as `artanh y ≥ −10` -/
theorem tanhT_roundtrip' (hc : TanhConsts e) {y : ℝ} (h1 : -1 < y) (h2 : y < 1) (hthr : -10 ≤ artanh y) :
    RoundTrip (tanhT (NF.realX e) true) (tanhT (NF.realX e) false) y := by
  refine ⟨_, _, tanhT_inv_run e hc.h05 h1 h2, ?_⟩
  rw [(TanhStable.tanhT_forward e (artanh y) hc.h2 hc.hm2 hc.hl hthr).1, tanh_artanh h1 h2, neg_neg, pow_two]

/-- witness of `TanhConsts`, conditional on three `Float` comparisons with the kernel-opaque `Float.log 2.0`
    (`#eval` confirms each: `Float.log 2.0 = 0.693…`) -/
def eTanh (f : Float) : ℝ := if f == 2.0 then 2 else if f == -2.0 then -2 else if f == 0.5 then 1 / 2 else Real.log 2
private theorem ft1 : ((2.0:Float) == 2.0) = true := by decide +kernel
private theorem ft2 : ((-2.0:Float) == 2.0) = false := by decide +kernel
private theorem ft3 : ((-2.0:Float) == -2.0) = true := by decide +kernel
private theorem ft4 : ((0.5:Float) == 2.0) = false := by decide +kernel
private theorem ft5 : ((0.5:Float) == -2.0) = false := by decide +kernel
private theorem ft6 : ((0.5:Float) == 0.5) = true := by decide +kernel
theorem tanhConsts_example (k1 : (Float.log 2.0 == 2.0) = false) (k2 : (Float.log 2.0 == -2.0) = false)
    (k3 : (Float.log 2.0 == 0.5) = false) : TanhConsts eTanh := by
  refine ⟨?_, ?_, ?_, ?_⟩
  · simp [eTanh, ft1]
  · simp [eTanh, ft2, ft3]
  · simp [eTanh, k1, k2, k3]
  · simp [eTanh, ft4, ft5, ft6]
/-- the reading needed by the inverse alone has an unconditional witness -/
theorem tanh_half_example : eTanh 0.5 = 1 / 2 := by simp [eTanh, ft4, ft5, ft6]

/-! ## Sigmoid / Logit with temperature (nonlinearities.py:143-175) -/

/-- `F.softplus` as executed over ℝ: the identity above the threshold 20 -/
def spT (z : ℝ) : ℝ := if 20 < z then z else Real.log (1 + Real.exp z)
/-- the log-det formula as executed, as a function of `T` and `z = T x` -/
def sigLd (T z : ℝ) : ℝ := Real.log T - spT (-z) - spT z
/-- the exact log-derivative of `x ↦ σ(T x)` (`z = T x`) -/
def sigLdIdeal (T z : ℝ) : ℝ := Real.log T - Real.log (1 + Real.exp (-z)) - Real.log (1 + Real.exp z)
/-- `log u − log (1 − u)` -/
def logit (u : ℝ) : ℝ := Real.log u - Real.log (1 - u)

theorem gate_lt_one (z : ℝ) : gate z < 1 := by
  unfold gate
  rw [div_lt_one (by positivity)]
  linarith [Real.exp_pos (-z)]

theorem log_one_add_exp (z : ℝ) : Real.log (1 + Real.exp z) = z + Real.log (1 + Real.exp (-z)) := by
  have : 1 + Real.exp z = Real.exp z * (1 + Real.exp (-z)) := by
    rw [mul_add, mul_one, ← Real.exp_add]; simp [add_comm]
  rw [this, Real.log_mul (Real.exp_pos z).ne' (by positivity), Real.log_exp]

/-- within the thresholds the executed formula is the exact one -/
theorem sigLd_eq_ideal (T : ℝ) {z : ℝ} (h : |z| ≤ 20) : sigLd T z = sigLdIdeal T z := by
  obtain ⟨h1, h2⟩ := abs_le.mp h
  unfold sigLd sigLdIdeal spT
  rw [if_neg (by linarith), if_neg (by linarith)]

/-- beyond a threshold the executed formula EXCEEDS the exact log-derivative by exactly `log (1 + e^{−|z|})` -/
theorem sigLd_gap (T : ℝ) {z : ℝ} (h : 20 < |z|) : sigLd T z = sigLdIdeal T z + Real.log (1 + Real.exp (-|z|)) := by
  unfold sigLd sigLdIdeal spT
  rcases lt_abs.mp h with hz | hz
  · rw [abs_of_pos (by linarith), if_neg (by linarith), if_pos hz, log_one_add_exp z]; ring
  · rw [abs_of_neg (by linarith), if_pos hz, if_neg (by linarith), neg_neg, log_one_add_exp (-z), neg_neg]; ring

theorem gap_pos (z : ℝ) : 0 < Real.log (1 + Real.exp (-|z|)) :=
  Real.log_pos (by linarith [Real.exp_pos (-|z|)])

theorem gap_le {z : ℝ} (h : 20 < |z|) : Real.log (1 + Real.exp (-|z|)) ≤ Real.exp (-20) := by
  have h1 := Real.log_le_sub_one_of_pos (show 0 < 1 + Real.exp (-|z|) by positivity)
  have h2 : Real.exp (-|z|) ≤ Real.exp (-20) := Real.exp_le_exp.mpr (by linarith)
  linarith

/-- forward run: total -/
theorem sigmoidT_fwd_run (T : ℝ) (eps : Float) (x : ℝ) :
    sigmoidT (NF.realX e) T eps false x = .ok (gate (T * x), sigLd T (T * x)) := by
  unfold sigmoidT gate sigLd spT
  simp only [Bool.false_eq_true, if_false, NF.realX_mul, NF.realX_sub, NF.realX_log, NF.realX_neg, NF.realX_softplus,
    NF.realX_sigmoid]

theorem hasDerivAt_gate {T : ℝ} (hT : 0 < T) (x : ℝ) :
    HasDerivAt (fun s => gate (T * s)) (Real.exp (sigLdIdeal T (T * x))) x :=
  Nonlin.sigmoid_deriv hT x

/-- **C01, executed `Sigmoid.forward`** (`0 < T`), within the `softplus` thresholds `|T x| ≤ 20`: the derivative of the
    program's value is `exp` of the returned log-det -/
theorem sigmoidT_fwd_logdet {T : ℝ} (eps : Float) {x : ℝ} (hT : 0 < T) (h : |T * x| ≤ 20) :
    IncLogDetAt (sigmoidT (NF.realX e) T eps false) x := by
  refine incLogDetAt_of_eventually (fy := fun s => gate (T * s)) (fl := fun s => sigLd T (T * s))
    (Filter.Eventually.of_forall fun s => sigmoidT_fwd_run e T eps s) ?_
  show HasDerivAt _ (Real.exp (sigLd T (T * x))) x
  rw [sigLd_eq_ideal T h]
  exact hasDerivAt_gate hT x

/-- beyond a threshold: the returned log-det is the exact log-derivative PLUS `log (1 + e^{−|T x|}) ∈ (0, e⁻²⁰]`
    (the approximation `F.softplus` declares) -/
theorem sigmoidT_fwd_threshold_gap {T : ℝ} (eps : Float) {x : ℝ} (hT : 0 < T) (h : 20 < |T * x|) :
    ∃ ld, sigmoidT (NF.realX e) T eps false x = .ok (gate (T * x), ld) ∧
      HasDerivAt (fun s => outY (sigmoidT (NF.realX e) T eps false s)) (Real.exp (sigLdIdeal T (T * x))) x ∧
      ld = sigLdIdeal T (T * x) + Real.log (1 + Real.exp (-|T * x|)) ∧
      0 < ld - sigLdIdeal T (T * x) ∧ ld - sigLdIdeal T (T * x) ≤ Real.exp (-20) := by
  refine ⟨_, sigmoidT_fwd_run e T eps x, ?_, sigLd_gap T h, ?_, ?_⟩
  · have hfun : (fun s => outY (sigmoidT (NF.realX e) T eps false s)) = fun s => gate (T * s) := by
      funext s; rw [sigmoidT_fwd_run]; rfl
    rw [hfun]; exact hasDerivAt_gate hT x
  · rw [sigLd_gap T h]; linarith [gap_pos (T * x)]
  · rw [sigLd_gap T h]; linarith [gap_le h]

/-- **the thresholded formula is NOT the log-derivative beyond the threshold**: for `|T x| > 20` the C01 statement is
    false of the executed `Sigmoid.forward` (by `log (1 + e^{−|T x|})`, at most `e⁻²⁰ ≈ 2·10⁻⁹`) -/
theorem sigmoidT_fwd_logdet_false_beyond_threshold {T : ℝ} (eps : Float) {x : ℝ} (hT : 0 < T) (h : 20 < |T * x|) :
    ¬ LogDetAt (sigmoidT (NF.realX e) T eps false) x := by
  rintro ⟨y, ld, d, h1, h2, h3⟩
  rw [sigmoidT_fwd_run] at h1
  injection h1 with h1
  injection h1 with _ hld
  have hfun : (fun s => outY (sigmoidT (NF.realX e) T eps false s)) = fun s => gate (T * s) := by
    funext s; rw [sigmoidT_fwd_run]; rfl
  rw [hfun] at h2
  have hd := h2.unique (hasDerivAt_gate hT x)
  rw [hd, abs_of_pos (Real.exp_pos _), ← hld, sigLd_gap T h] at h3
  have := Real.exp_injective h3
  linarith [gap_pos (T * x)]

/-- the executed `clamp` over ℝ -/
theorem clamp_real (lo hi x : ℝ) : (NF.realX e).clamp lo hi x = clampR lo hi x := by
  unfold XOps.clamp XOps.minA XOps.maxA clampR
  simp only [NF.realX_lt, decide_eq_true_eq]
  have hmax : (if x < lo then lo else x) = max x lo := by
    split_ifs with h
    · exact (max_eq_right h.le).symm
    · exact (max_eq_left (not_lt.mp h)).symm
  rw [hmax]
  split_ifs with h
  · exact (min_eq_right h.le).symm
  · exact (min_eq_left (not_lt.mp h)).symm

/-- inverse run on the closed domain `[0, 1]`: the logit of the CLAMPED argument over `T`, and the forward formula at it,
    negated -/
theorem sigmoidT_inv_run (T : ℝ) (eps : Float) {y : ℝ} (h0 : 0 ≤ y) (h1 : y ≤ 1) :
    sigmoidT (NF.realX e) T eps true y
      = .ok (1 / T * logit (clampR (e eps) (e (1 - eps)) y),
             -sigLd T (T * (1 / T * logit (clampR (e eps) (e (1 - eps)) y)))) := by
  unfold sigmoidT logit sigLd spT
  simp only [if_true, NF.realX_lt, XOps.gt, NF.realX_zero, NF.realX_one, decide_eq_true_eq, Bool.or_eq_true,
    not_lt.mpr h0, not_lt.mpr h1, or_self, if_false, clamp_real, NF.realX_ofFloat, NF.realX_mul, NF.realX_div,
    NF.realX_sub, NF.realX_log, NF.realX_log1p, NF.realX_neg, NF.realX_softplus, ← sub_eq_add_neg]

/-- **C17**: `Sigmoid.inverse` raises exactly outside the closed interval `[0, 1]` -/
theorem sigmoidT_inv_error_iff (T : ℝ) (eps : Float) (y : ℝ) :
    sigmoidT (NF.realX e) T eps true y = .error .outsideDomain ↔ (y < 0 ∨ 1 < y) := by
  constructor
  · intro h
    by_contra hy
    rw [not_or, not_lt, not_lt] at hy
    rw [sigmoidT_inv_run e T eps hy.1 hy.2] at h
    cases h
  · intro hy
    unfold sigmoidT
    simp only [if_true, NF.realX_lt, XOps.gt, NF.realX_zero, NF.realX_one, decide_eq_true_eq, Bool.or_eq_true]
    rw [if_pos hy]

theorem logit_gate (z : ℝ) : logit (gate z) = z := by
  unfold logit gate
  have hp : 0 < 1 + Real.exp (-z) := by positivity
  have h1 : 1 - 1 / (1 + Real.exp (-z)) = Real.exp (-z) / (1 + Real.exp (-z)) := by field_simp; ring
  rw [h1, Real.log_div (Real.exp_pos _).ne' hp.ne', Real.log_exp, one_div, Real.log_inv]
  ring

theorem gate_logit {u : ℝ} (h0 : 0 < u) (h1 : u < 1) : gate (logit u) = u := by
  unfold gate logit
  have : Real.exp (-(Real.log u - Real.log (1 - u))) = (1 - u) / u := by
    rw [neg_sub, Real.exp_sub, Real.exp_log (by linarith), Real.exp_log h0]
  rw [this]
  field_simp
  ring

variable {e}

/-- **C02, executed, the exact region**: `Sigmoid.inverse (Sigmoid.forward x) = (x, −logdet)` whenever the forward value
    is inside the clamp, `ε̂ ≤ σ(T x) ≤ 1 − ε̂` (`T ≠ 0`) — the log-dets are exact negatives even beyond the `softplus`
    thresholds, because both directions evaluate the same thresholded formula at the same `T x` -/
theorem sigmoidT_roundtrip {T : ℝ} (eps : Float) {x : ℝ} (hT : T ≠ 0) (hlo : e eps ≤ gate (T * x))
    (hhi : gate (T * x) ≤ e (1 - eps)) :
    RoundTrip (sigmoidT (NF.realX e) T eps false) (sigmoidT (NF.realX e) T eps true) x := by
  refine ⟨_, _, sigmoidT_fwd_run e T eps x, ?_⟩
  rw [sigmoidT_inv_run e T eps (gate_pos _).le (gate_lt_one _).le]
  have hc : clampR (e eps) (e (1 - eps)) (gate (T * x)) = gate (T * x) := by
    unfold clampR; rw [max_eq_left hlo, min_eq_left hhi]
  have hx : 1 / T * (T * x) = x := by field_simp
  rw [hc, logit_gate, hx]

/-- the clamp bounds as read over ℝ: `0 < ε̂ ≤ 1 − ε̂ < 1` -/
structure SigmoidClamp (e : Float → ℝ) (eps : Float) : Prop where
  hlo : 0 < e eps
  hle : e eps ≤ e (1 - eps)
  hhi : e (1 - eps) < 1

/-- below the clamp the inverse returns the logit of the lower bound (a declared approximation, not the pre-image) -/
theorem sigmoidT_inv_clamped_lo {T : ℝ} {eps : Float} (hc : SigmoidClamp e eps) {y : ℝ} (h0 : 0 ≤ y) (hy : y ≤ e eps) :
    sigmoidT (NF.realX e) T eps true y
      = .ok (1 / T * logit (e eps), -sigLd T (T * (1 / T * logit (e eps)))) := by
  rw [sigmoidT_inv_run e T eps h0 (by linarith [hc.hle, hc.hhi])]
  have : clampR (e eps) (e (1 - eps)) y = e eps := by
    unfold clampR; rw [max_eq_right hy, min_eq_left hc.hle]
  rw [this]

/-- above the clamp: the logit of the upper bound -/
theorem sigmoidT_inv_clamped_hi {T : ℝ} {eps : Float} (hc : SigmoidClamp e eps) {y : ℝ} (hy : e (1 - eps) ≤ y) (h1 : y ≤ 1) :
    sigmoidT (NF.realX e) T eps true y
      = .ok (1 / T * logit (e (1 - eps)), -sigLd T (T * (1 / T * logit (e (1 - eps))))) := by
  rw [sigmoidT_inv_run e T eps (by linarith [hc.hlo, hc.hle]) h1]
  have : clampR (e eps) (e (1 - eps)) y = e (1 - eps) := by
    unfold clampR; rw [max_eq_left (by linarith [hc.hle]), min_eq_right hy]
  rw [this]

theorem clampR_mem {lo hi : ℝ} (hle : lo ≤ hi) (y : ℝ) : lo ≤ clampR lo hi y ∧ clampR lo hi y ≤ hi := by
  unfold clampR
  exact ⟨le_min (le_max_right _ _) hle, min_le_right _ _⟩

/-- **the region is exact**: with `0 < ε̂ ≤ 1 − ε̂ < 1` and `T ≠ 0` the executed round trip `inverse ∘ forward` returns the
    input IF AND ONLY IF the forward value lies inside the clamp -/
theorem sigmoidT_roundtrip_iff {T : ℝ} {eps : Float} (hc : SigmoidClamp e eps) {x : ℝ} (hT : T ≠ 0) :
    RoundTrip (sigmoidT (NF.realX e) T eps false) (sigmoidT (NF.realX e) T eps true) x
      ↔ (e eps ≤ gate (T * x) ∧ gate (T * x) ≤ e (1 - eps)) := by
  constructor
  · rintro ⟨y, ld, h1, h2⟩
    rw [sigmoidT_fwd_run] at h1
    injection h1 with h1
    injection h1 with hy _
    subst hy
    rw [sigmoidT_inv_run e T eps (gate_pos _).le (gate_lt_one _).le] at h2
    injection h2 with h2
    injection h2 with hval _
    obtain ⟨c1, c2⟩ := clampR_mem hc.hle (gate (T * x))
    set c := clampR (e eps) (e (1 - eps)) (gate (T * x)) with hcdef
    have hl : logit c = T * x := by
      have : T * (1 / T * logit c) = T * x := by rw [hval]
      rw [← this]; field_simp
    have hcg : c = gate (T * x) := by
      rw [← hl, gate_logit (by linarith [hc.hlo]) (by linarith [hc.hhi])]
    rw [← hcg]; exact ⟨c1, c2⟩
  · rintro ⟨h1, h2⟩; exact sigmoidT_roundtrip eps hT h1 h2

/-- **C02, other order** (`Logit.forward` then `Logit.inverse`): exact on the un-clamped region `ε̂ ≤ y ≤ 1 − ε̂` -/
theorem sigmoidT_roundtrip' {T : ℝ} {eps : Float} (hc : SigmoidClamp e eps) {y : ℝ} (hT : T ≠ 0) (hlo : e eps ≤ y)
    (hhi : y ≤ e (1 - eps)) :
    RoundTrip (sigmoidT (NF.realX e) T eps true) (sigmoidT (NF.realX e) T eps false) y := by
  have h0 : 0 < y := by linarith [hc.hlo]
  have h1 : y < 1 := by linarith [hc.hhi]
  refine ⟨_, _, sigmoidT_inv_run e T eps h0.le h1.le, ?_⟩
  have hcl : clampR (e eps) (e (1 - eps)) y = y := by
    unfold clampR; rw [max_eq_left hlo, min_eq_left hhi]
  have hx : T * (1 / T * logit y) = logit y := by field_simp
  rw [sigmoidT_fwd_run, hcl, neg_neg, hx, gate_logit h0 h1]

theorem hasDerivAt_logit {y : ℝ} (h0 : 0 < y) (h1 : y < 1) : HasDerivAt logit (1 / (y * (1 - y))) y := by
  have hne : (1 - y) ≠ 0 := by linarith
  have hden : HasDerivAt (fun s : ℝ => 1 - s) (-1) y := by simpa using (hasDerivAt_id' y).const_sub 1
  have h := (Real.hasDerivAt_log h0.ne').sub (hden.log hne)
  unfold logit
  refine h.congr_deriv ?_
  have := h0.ne'
  field_simp
  ring

theorem sigLdIdeal_logit {T y : ℝ} (h0 : 0 < y) (h1 : y < 1) :
    sigLdIdeal T (logit y) = Real.log T + Real.log y + Real.log (1 - y) := by
  have e1 : Real.exp (-(logit y)) = (1 - y) / y := by
    unfold logit; rw [neg_sub, Real.exp_sub, Real.exp_log (by linarith), Real.exp_log h0]
  have e2 : Real.exp (logit y) = y / (1 - y) := by
    unfold logit; rw [Real.exp_sub, Real.exp_log h0, Real.exp_log (by linarith)]
  have a1 : 1 + (1 - y) / y = y⁻¹ := by field_simp; ring
  have a2 : 1 + y / (1 - y) = (1 - y)⁻¹ := by
    have : (1 - y) ≠ 0 := by linarith
    field_simp; ring
  unfold sigLdIdeal
  rw [e1, e2, a1, a2, Real.log_inv, Real.log_inv]
  ring

/-- **C01, executed `Sigmoid.inverse` = `Logit.forward`** (`0 < T`) strictly inside the clamp and within the thresholds
    (`|logit y| ≤ 20`; automatic when `ε̂ ≥ 2.1·10⁻⁹`, e.g. the default `10⁻⁶`): derivative `1/(T y (1−y))` -/
theorem sigmoidT_inv_logdet {T : ℝ} {eps : Float} (hc : SigmoidClamp e eps) {y : ℝ} (hT : 0 < T) (hlo : e eps < y)
    (hhi : y < e (1 - eps)) (hthr : |logit y| ≤ 20) :
    IncLogDetAt (sigmoidT (NF.realX e) T eps true) y := by
  have h0 : 0 < y := by linarith [hc.hlo]
  have h1 : y < 1 := by linarith [hc.hhi]
  refine incLogDetAt_of_eventually (fy := fun s => 1 / T * logit s)
    (fl := fun s => -sigLd T (T * (1 / T * logit s))) ?_ ?_
  · filter_upwards [Ioi_mem_nhds hlo, Iio_mem_nhds hhi] with s hs1 hs2
    have hs1' : e eps < s := hs1
    have hs2' : s < e (1 - eps) := hs2
    rw [sigmoidT_inv_run e T eps (by linarith [hc.hlo]) (by linarith [hc.hhi])]
    have hcl : clampR (e eps) (e (1 - eps)) s = s := by
      unfold clampR; rw [max_eq_left hs1'.le, min_eq_left hs2'.le]
    rw [hcl]
  · have hx : T * (1 / T * logit y) = logit y := by field_simp
    show HasDerivAt _ (Real.exp (-sigLd T (T * (1 / T * logit y)))) y
    rw [hx, sigLd_eq_ideal T hthr, sigLdIdeal_logit h0 h1, Real.exp_neg, Real.exp_add, Real.exp_add, Real.exp_log hT,
      Real.exp_log h0, Real.exp_log (by linarith)]
    have := (hasDerivAt_logit h0 h1).const_mul (1 / T)
    refine this.congr_deriv ?_
    have := h0.ne'; have : (1 - y) ≠ 0 := by linarith
    field_simp

/-- in the clamped zone `0 < y < ε̂` the executed inverse is locally CONSTANT: its derivative is `0`, so no finite
    log-det can be its log-derivative — the clamp is a declared approximation, not covered by C01 -/
theorem sigmoidT_inv_flat_lo {T : ℝ} {eps : Float} (hc : SigmoidClamp e eps) {y : ℝ} (h0 : 0 < y) (hy : y < e eps) :
    HasDerivAt (fun s => outY (sigmoidT (NF.realX e) T eps true s)) 0 y ∧
      ¬ LogDetAt (sigmoidT (NF.realX e) T eps true) y := by
  have hd : HasDerivAt (fun s => outY (sigmoidT (NF.realX e) T eps true s)) 0 y := by
    refine (hasDerivAt_const y (1 / T * logit (e eps))).congr_of_eventuallyEq ?_
    filter_upwards [Ioi_mem_nhds h0, Iio_mem_nhds hy] with s hs1 hs2
    rw [sigmoidT_inv_clamped_lo hc (le_of_lt hs1) (le_of_lt hs2)]; rfl
  refine ⟨hd, ?_⟩
  rintro ⟨_, ld, d, _, h2, h3⟩
  rw [h2.unique hd, abs_zero] at h3
  exact (Real.exp_pos ld).ne h3

/-- witness of `SigmoidClamp` at the library default `eps = 1e-6`: a two-valued reading -/
def eSig (f : Float) : ℝ := if f == 1e-6 then 1 / 1000000 else 999999 / 1000000
private theorem fs1 : ((1e-6:Float) == 1e-6) = true := by decide +kernel
private theorem fs2 : (((1:Float) - 1e-6) == 1e-6) = false := by decide +kernel
theorem sigmoidClamp_example : SigmoidClamp eSig 1e-6 := by
  refine ⟨?_, ?_, ?_⟩
  · simp [eSig, fs1]
  · simp [eSig, fs1, fs2]; norm_num
  · simp [eSig, fs2]; norm_num

/-- the un-clamped region is not empty: at `x = 0`, `σ(0) = 1/2` lies inside the default clamp -/
example : RoundTrip (sigmoidT (NF.realX eSig) 2 1e-6 false) (sigmoidT (NF.realX eSig) 2 1e-6 true) 0 := by
  have hg : gate (2 * 0) = 1 / 2 := by unfold gate; norm_num
  refine sigmoidT_roundtrip 1e-6 (by norm_num) ?_ ?_
  · rw [hg]; simp [eSig, fs1]; norm_num
  · rw [hg]; simp [eSig, fs2]; norm_num

variable (e)

/-! ## The dispatcher `nonlinEl`: each class name used by the harness runs the corresponding element -/

section dispatch
variable {α : Type} (o : XOps α) (ds : Array Float) (ps : List α) (inv : Bool) (x : α)

theorem nonlinEl_Exp : nonlinEl o "Exp" ds ps inv x = expT o inv x := rfl
theorem nonlinEl_Tanh : nonlinEl o "Tanh" ds ps inv x = tanhT o inv x := rfl
theorem nonlinEl_LogTanh :
    nonlinEl o "LogTanh" ds ps inv x
      = logTanhT o (ds.getD 0 0.0) (logTanhConsts (ds.getD 0 0.0)).1 (logTanhConsts (ds.getD 0 0.0)).2.1
          (logTanhConsts (ds.getD 0 0.0)).2.2 inv x := rfl
theorem nonlinEl_LeakyReLU : nonlinEl o "LeakyReLU" ds ps inv x = leakyReluT o (ds.getD 0 0.0) (ps.getD 0 o.zero) inv x := rfl
theorem nonlinEl_Sigmoid : nonlinEl o "Sigmoid" ds ps inv x = sigmoidT o (ps.getD 0 o.zero) (ds.getD 0 0.0) inv x := rfl
/-- `Logit` is `InverseTransform(Sigmoid)`: the direction flag is flipped -/
theorem nonlinEl_Logit : nonlinEl o "Logit" ds ps inv x = sigmoidT o (ps.getD 0 o.zero) (ds.getD 0 0.0) (!inv) x := rfl
theorem nonlinEl_CauchyCDF : nonlinEl o "CauchyCDF" ds ps inv x = cauchyT o inv x := rfl
theorem nonlinEl_CauchyCDFInverse : nonlinEl o "CauchyCDFInverse" ds ps inv x = cauchyT o (!inv) x := rfl
theorem nonlinEl_Affine : nonlinEl o "Affine" ds ps inv x = affineT o (ps.getD 0 o.zero) (ps.getD 1 o.zero) inv x := rfl
theorem nonlinEl_Identity : nonlinEl o "Identity" ds ps inv x = .ok (x, o.zero) := rfl
/-- any other name is rejected -/
theorem nonlinEl_other (kind : String)
    (h : kind ∉ ["Exp", "Tanh", "LogTanh", "LeakyReLU", "Sigmoid", "Logit", "CauchyCDF", "CauchyCDFInverse", "Affine", "Identity"]) :
    nonlinEl o kind ds ps inv x = .error .other := by
  simp only [List.mem_cons, List.not_mem_nil, or_false, not_or] at h
  obtain ⟨h1, h2, h3, h4, h5, h6, h7, h8, h9, h10⟩ := h
  unfold nonlinEl
  split <;> first | rfl | contradiction
end dispatch

/-- the executed `IdentityTransform` element: derivative `1 = exp 0` -/
theorem identity_logdet (ds : Array Float) (ps : List ℝ) (inv : Bool) (x : ℝ) :
    IncLogDetAt (nonlinEl (NF.realX e) "Identity" ds ps inv) x := by
  refine incLogDetAt_of_eventually (fy := fun s => s) (fl := fun _ => 0)
    (Filter.Eventually.of_forall fun s => by rw [nonlinEl_Identity, NF.realX_zero]) ?_
  rw [Real.exp_zero]; exact hasDerivAt_id' x

/-! ## The whole element-wise layer `nonlinApply` (`Core/Structure.lean`): the `for` loop over the flat `[B, n]` batch -/

theorem forIn_id_eq_foldl {α σ : Type} (x : Array α) (init : σ) (f : α → σ → Id (ForInStep σ)) (g : σ → α → σ)
    (h : ∀ a s, f a s = ForInStep.yield (g s a)) : forIn x init f = (x.foldl g init : Id σ) := by
  have : f = fun a s => (pure (ForInStep.yield (g s a)) : Id _) := by funext a s; exact h a s
  subst this
  simp
  rfl

/-- one iteration of the loop of `nonlinApply` -/
def nlStep {α : Type} (o : XOps α) (F : α → Except Err (α × α)) (st : Array α × Array α × Option Err) (xi : α) :
    Array α × Array α × Option Err :=
  match F xi with
  | .ok (y, l) => (st.1.push y, st.2.1.push l, st.2.2)
  | .error e => (st.1.push o.zero, st.2.1.push o.zero, if st.2.2.isNone then some e else st.2.2)

theorem nonlinApply_eq_fold {α : Type} (o : XOps α) (kind : String) (ds : Array Float) (ps : List α) (B : Nat) (x : Array α) (inv : Bool) :
    nonlinApply o kind ds ps B x inv =
      (let r := x.foldl (nlStep o (nonlinEl o kind ds ps inv)) (Array.mkEmpty x.size, Array.mkEmpty x.size, none)
       { out := r.1, ld := sumRows o B r.2.1, err := r.2.2 }) := by
  unfold nonlinApply
  simp only [Id.run, bind, pure]
  rw [forIn_id_eq_foldl x _ _ (nlStep o (nonlinEl o kind ds ps inv))]
  intro xi s
  unfold nlStep
  cases h : nonlinEl o kind ds ps inv xi with
  | ok p => rfl
  | error e => simp only []; split <;> simp_all

/-- the error of a run, if any -/
def errOf (r : Except Err (ℝ × ℝ)) : Option Err := match r with | .ok _ => none | .error e => some e


theorem nlStep_foldl (F : ℝ → Except Err (ℝ × ℝ)) (l : List ℝ) (a b : Array ℝ) (c : Option Err) :
    l.foldl (nlStep (NF.realX e) F) (a, b, c)
      = (a ++ (l.map fun xi => outY (F xi)).toArray, b ++ (l.map fun xi => outL (F xi)).toArray,
         c.or (l.findSome? fun xi => errOf (F xi))) := by
  induction l generalizing a b c with
  | nil => simp
  | cons xi t ih =>
    rw [List.foldl_cons]
    cases h : F xi with
    | ok p =>
      have hs : nlStep (NF.realX e) F (a, b, c) xi = (a.push p.1, b.push p.2, c) := by
        unfold nlStep; rw [h]
      rw [hs, ih]
      simp [h, errOf, outY, outL]
    | error er =>
      have hs : nlStep (NF.realX e) F (a, b, c) xi = (a.push 0, b.push 0, if c.isNone then some er else c) := by
        unfold nlStep; rw [h]; simp
      rw [hs, ih]
      cases c <;> simp [h, errOf, outY, outL]

/-- **the executed element-wise layer `nonlinApply` over ℝ, whole program**: outputs are the element values, the log-det
    list is `sum_except_batch` of the element log-dets, `err` is the first element error (`none` iff every element ran) -/
theorem nonlinApply_real (kind : String) (ds : Array Float) (ps : List ℝ) (B : Nat) (x : Array ℝ) (inv : Bool) :
    nonlinApply (NF.realX e) kind ds ps B x inv =
      { out := x.map fun xi => outY (nonlinEl (NF.realX e) kind ds ps inv xi),
        ld := sumRows (NF.realX e) B (x.map fun xi => outL (nonlinEl (NF.realX e) kind ds ps inv xi)),
        err := x.toList.findSome? fun xi => errOf (nonlinEl (NF.realX e) kind ds ps inv xi) } := by
  rw [nonlinApply_eq_fold, ← Array.foldl_toList]
  simp only [Array.mkEmpty_eq]
  rw [nlStep_foldl]
  have hm : ∀ f : ℝ → ℝ, (List.map f x.toList).toArray = Array.map f x := fun f => by
    apply Array.ext'; simp
  simp [hm]

/-- row `b` of the returned log-det is the sum of the element log-dets of that row -/
theorem nonlinApply_ld_row (kind : String) (ds : Array Float) (ps : List ℝ) (B n : Nat) (x : Array ℝ) (inv : Bool)
    (hx : x.size = B * n) {b : Nat} (hb : b < B) :
    (nonlinApply (NF.realX e) kind ds ps B x inv).ld[b]?
      = some (∑ k ∈ Finset.range n, outL (nonlinEl (NF.realX e) kind ds ps inv (x.getD (b * n + k) 0))) := by
  rw [nonlinApply_real]
  simp only
  rw [NF.StructureExec.sumRows_real e B _ b hb]
  have hB : 0 < B := by omega
  have hn : (x.map fun xi => outL (nonlinEl (NF.realX e) kind ds ps inv xi)).size / B = n := by
    rw [Array.size_map, hx, Nat.mul_comm, Nat.mul_div_cancel _ hB]
  rw [hn]
  congr 1
  refine Finset.sum_congr rfl fun k hk => ?_
  have hk' := Finset.mem_range.mp hk
  have hlt : b * n + k < x.size := by
    rw [hx]
    have : (b + 1) * n ≤ B * n := Nat.mul_le_mul_right n hb
    rw [Nat.add_mul, Nat.one_mul] at this
    omega
  simp [Array.getD, hlt]

/-- **C17 for the layer**: no error is reported iff every element ran -/
theorem nonlinApply_err_none_iff (kind : String) (ds : Array Float) (ps : List ℝ) (B : Nat) (x : Array ℝ) (inv : Bool) :
    (nonlinApply (NF.realX e) kind ds ps B x inv).err = none
      ↔ ∀ xi ∈ x.toList, ∃ r, nonlinEl (NF.realX e) kind ds ps inv xi = .ok r := by
  rw [nonlinApply_real]
  simp only [List.findSome?_eq_none_iff]
  refine forall₂_congr fun xi _ => ?_
  cases h : nonlinEl (NF.realX e) kind ds ps inv xi with
  | ok r => simp [errOf]
  | error er => simp [errOf]

/-- instance: the executed `Exp` layer on a `[B, n]` batch never raises and row `b` of its log-det is `Σ_k x[b, k]` -/
theorem nonlinApply_Exp_row (ds : Array Float) (ps : List ℝ) (B n : Nat) (x : Array ℝ) (hx : x.size = B * n) {b : Nat}
    (hb : b < B) :
    (nonlinApply (NF.realX e) "Exp" ds ps B x false).err = none ∧
      (nonlinApply (NF.realX e) "Exp" ds ps B x false).ld[b]? = some (∑ k ∈ Finset.range n, x.getD (b * n + k) 0) := by
  refine ⟨(nonlinApply_err_none_iff e _ _ _ _ _ _).mpr fun xi _ => ⟨_, rfl⟩, ?_⟩
  rw [nonlinApply_ld_row e "Exp" ds ps B n x false hx hb]
  rfl

/-! ## Non-vacuity -/

example : IncLogDetAt (leakyReluT (NF.realX eLeaky) 0.01 (Real.log (1 / 100)) false) (-3) :=
  leakyReluT_fwd_logdet leakyConsts_example (by norm_num)
example : RoundTrip (leakyReluT (NF.realX eLeaky) 0.01 (Real.log (1 / 100)) false)
    (leakyReluT (NF.realX eLeaky) 0.01 (Real.log (1 / 100)) true) (-3) :=
  leakyReluT_roundtrip leakyConsts_example (-3)
example : LogDetAt (affineT (NF.realX e) (-2) 5 false) 1 := affineT_fwd_logdet e (-2) 5 1 (by norm_num)
example : IncLogDetAt (tanhT (NF.realX eTanh) true) (1 / 2) :=
  tanhT_inv_logdet eTanh tanh_half_example (by norm_num) (by norm_num)
example : IncLogDetAt (sigmoidT (NF.realX e) 2 1e-6 false) 3 :=
  sigmoidT_fwd_logdet e 1e-6 (by norm_num) (by rw [abs_of_pos (by norm_num)]; norm_num)
example : ¬ LogDetAt (sigmoidT (NF.realX e) 2 1e-6 false) 11 :=
  sigmoidT_fwd_logdet_false_beyond_threshold e 1e-6 (by norm_num) (by rw [abs_of_pos (by norm_num)]; norm_num)

end
end NonlinExec
