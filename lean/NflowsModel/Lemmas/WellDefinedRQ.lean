import NflowsModel.Lemmas.RQWhole
import NflowsModel.Lemmas.RQInverseWhole
import Mathlib.Tactic
/-!
# Lemmas/WellDefinedRQ — every logarithm / division / square root the EXECUTED rational-quadratic spline forms on an
in-domain input has its operand in the domain of the operation

Over ℝ every arithmetic operation is total (`Real.log 0 = 0`, `x / 0 = 0`, `Real.sqrt` of a negative number is `0`), so
`rqSpline (NF.realX e) … x = .ok r` alone does not say that the program stayed inside the domains of `log`, `/`, `sqrt`.
This file states and proves exactly that, operation by operation, for the program text of `Core/Spline.lean`
(`rqSpline`, lines 124-150) and of the helpers it calls.

## Enumeration (forward direction, `rqSpline o c uw uh ud false x`)

| # | where (file:line)                              | operation                        | operand                                   | covered by (field of `RQFwdWellDefined`; rows 1-5 in its field `stageA : RQStageAWellDefined`) |
|---|------------------------------------------------|----------------------------------|-------------------------------------------|-----------------------------------|
| 1 | Spline:131 → `flooredSoftmax` :106 → Basic:37  | `o.div e s` (softmax of `uw`)    | `s = sumG (exp (u − max))` over `uw`      | `stageA.softmaxW_divisor` (`0 <`), `softmaxG_shape`        |
| 2 | Spline:133 → the same for `uh`                 | `o.div e s` (softmax of `uh`)    | `s = sumG (exp (u − max))` over `uh`      | `stageA.softmaxH_divisor` (`0 <`), `softmaxG_shape`        |
| 3 | Spline:132 → XOps:47 `softplusB`               | `o.div (log1p …) beta`           | `beta = o.ofFloat c.beta`                 | `stageA.softplus_divisor` (`0 <`), `softplusB_shape`        |
| 4 | XOps:47 → XOps:43 `log1p (exp (beta*u))`       | `o.log u'`, `u' = 1 + exp(beta*u)` | `1 + exp (beta * u)`                    | `stageA.log1p_log_arg` (`0 <`, every `u`), `softplusB_shape`|
| 5 | XOps:43 `log1p`, compensated quotient          | `o.div (log u' * x) (u' − 1)`    | `(1 + exp (beta*u)) − 1`                  | `stageA.log1p_divisor` (`0 <`, every `u`), `softplusB_shape`|
| 6 | Spline:150 `rqFwdE`:24, `rqFwdLdE`:40          | `v 4 / v 2`  (slope `s = h/w`)   | `w` = gathered width                      | `gather_w`, `w_pos`, `evalW`      |
| 7 | Spline:150 `rqFwdE`:25, `rqFwdLdE`:41          | `(v 0 − v 1) / v 2`  (θ)         | `w` (same operand)                        | `gather_w`, `w_pos`, `evalW`      |
| 8 | Spline:150 `rqFwdE`:27                         | `… / (s + (d0+d1−2s)·θ(1−θ))`    | `den`                                     | `evalDen`, `den_pos`              |
| 9 | Spline:150 `rqFwdLdE`:45                       | `.log dnum`                      | `dnum = s²(d1θ² + 2sθ(1−θ) + d0(1−θ)²)`   | `evalDnum`, `dnum_pos`            |
|10 | Spline:150 `rqFwdLdE`:45                       | `.log den`                       | `den`                                     | `evalDen`, `den_pos`              |

No square root is formed in the forward direction.  The threshold branch of `softplusB` (`20 < beta*u ↦ u`) forms no
operation.  The only other divisions are the rational literals `o.ofRat n 1` (`o.zero`, `o.one`, `20`, and the `Expr`
literals `1`, `2`): divisor the literal `1`.  `rqKnots`, `cumsumG`, `setFirst/Last`, `diffsG`, `searchsortedG`, `getI`
form no `log` / `div` / `sqrt`.

That rows 6-10 are about the operands of the very `Expr` terms the program evaluates is `rqFwdE_shape`, `rqFwdLdE_shape`
(both `rfl`): the sub-terms `wE`, `denE`, `dnumE` below ARE the divisor / logarithm arguments of `rqFwdE`, `rqFwdLdE`;
the environment they are evaluated in is the one the program builds from its gathers (`exec`, `gather_w`).

`stageA` also exports the by-products of rows 1-5 that rows 6-10 rest on: every width and height (difference of the
executed knots) and every knot derivative the program can gather is positive (`widths_pos`, `heights_pos`, `derivs_pos`).

## Inverse direction, `rqSpline o c uw uh ud true y` (stage A as rows 1-5, field `stageA`, then)

| # | where                                  | operation                              | operand                               | covered by (`RQInvWellDefined`)     |
|---|----------------------------------------|----------------------------------------|---------------------------------------|-------------------------------------|
| 6'| `rqDiscE`:49, `rqRootE`:58, `rqLdThetaE`:31 | `v 4 / v 2`                       | `w` = gathered width                  | `w_pos`                             |
| 7'| `rqRootE`:62                           | `.sqrt rqDiscE`                        | discriminant                          | `disc_nonneg` (`0 ≤`)               |
| 8'| `rqRootE`:62                           | `(2c) / (−b − sqrt disc)`              | `−b − sqrt disc`                      | `root_divisor_neg` (`< 0`, so `≠ 0`)|
| 9'| `rqLdThetaE`:36 at θ = root            | `.log dnum`                            | `dnum` at the root                    | `dnum_pos`                          |
|10'| `rqLdThetaE`:36 at θ = root            | `.log den`                             | `den` at the root                     | `den_pos`                           |

`rqRootE_shape`, `rqLdThetaE_shape` (both `rfl`): `rootDivE`, `dnumThE`, `denThE` ARE the divisor / logarithm arguments of
the executed terms, and the square root is taken of the very term `rqDiscE` whose sign the program asserts.  The two
remaining operations of the inverse branch, `o.add (o.mul root w) xk` and `o.neg ld`, form no `log` / `div` / `sqrt`.

No finding: every operand is in its domain on the whole closed box, end-points included, for every parameter vector.
-/
open NF DualSound

namespace NF.WellDefined.RQ
noncomputable section

/-! ### the operand sub-terms of the executed `Expr` closed forms -/

/-- the divisor of `s = v 4 / v 2` and of `θ = (v 0 − v 1) / v 2`: the gathered width -/
def wE : Expr := v 2
/-- the slope `s = h / w` as the program writes it -/
def sE : Expr := v 4 / wE
/-- the relative position `θ = (x − xk) / w` as the program writes it -/
def thE : Expr := (v 0 - v 1) / wE
/-- the divisor of `rqFwdE` and the second logarithm argument of `rqFwdLdE` -/
def denE : Expr := sE + (v 5 + v 6 - 2 * sE) * (thE * (1 - thE))
/-- the first logarithm argument of `rqFwdLdE` -/
def dnumE : Expr := (sE * sE) * (v 6 * (thE * thE) + 2 * sE * (thE * (1 - thE)) + v 5 * ((1 - thE) * (1 - thE)))

/-- the executed forward value IS `yk + numerator / denE`, with `s = v 4 / wE`, `θ = (v 0 − v 1) / wE` -/
theorem rqFwdE_shape : rqFwdE = v 3 + (v 4 * (sE * (thE * thE) + v 5 * (thE * (1 - thE)))) / denE := rfl
/-- the executed forward log-abs-det IS `log dnumE − 2 · log denE` -/
theorem rqFwdLdE_shape : rqFwdLdE = .log dnumE - 2 * .log denE := rfl

variable (e : Float → ℝ)

/-! ### closed-form readings of the operands at bin `k` -/

/-- width / height of bin `k`, relative position, slope, and the two logarithm arguments, in terms of the executed knots -/
def W (c : RQCfg) (uw : List ℝ) (k : ℕ) : ℝ := RQWhole.xs e c uw (k+1) - RQWhole.xs e c uw k
def H (c : RQCfg) (uh : List ℝ) (k : ℕ) : ℝ := RQWhole.ys e c uh (k+1) - RQWhole.ys e c uh k
def theta (c : RQCfg) (uw : List ℝ) (k : ℕ) (x : ℝ) : ℝ := (x - RQWhole.xs e c uw k) / W e c uw k
def S (c : RQCfg) (uw uh : List ℝ) (k : ℕ) : ℝ := H e c uh k / W e c uw k
def den (c : RQCfg) (uw uh ud : List ℝ) (k : ℕ) (x : ℝ) : ℝ :=
  S e c uw uh k + (RQWhole.ds e c ud k + RQWhole.ds e c ud (k+1) - 2 * S e c uw uh k)
    * (theta e c uw k x * (1 - theta e c uw k x))
def dnum (c : RQCfg) (uw uh ud : List ℝ) (k : ℕ) (x : ℝ) : ℝ :=
  (S e c uw uh k * S e c uw uh k) *
    (RQWhole.ds e c ud (k+1) * (theta e c uw k x * theta e c uw k x)
      + 2 * S e c uw uh k * (theta e c uw k x * (1 - theta e c uw k x))
      + RQWhole.ds e c ud k * ((1 - theta e c uw k x) * (1 - theta e c uw k x)))

variable {e}
variable {c : RQCfg} {uw uh ud : List ℝ}

theorem evalW (k : ℕ) (x : ℝ) : evalR (RQWhole.env e c uw uh ud k x) wE = W e c uw k := rfl

theorem evalDen (k : ℕ) (x : ℝ) : evalR (RQWhole.env e c uw uh ud k x) denE = den e c uw uh ud k x := by
  simp [denE, sE, thE, wE, den, S, theta, W, H, RQWhole.env, NF.v]

theorem evalDnum (k : ℕ) (x : ℝ) : evalR (RQWhole.env e c uw uh ud k x) dnumE = dnum e c uw uh ud k x := by
  simp [dnumE, sE, thE, wE, dnum, S, theta, W, H, RQWhole.env, NF.v]

theorem den_eq_RQ (k : ℕ) (x : ℝ) :
    den e c uw uh ud k x = _root_.RQ.den (S e c uw uh k) (RQWhole.ds e c ud k) (RQWhole.ds e c ud (k+1)) (theta e c uw k x) := rfl

theorem dnum_eq_RQ (k : ℕ) (x : ℝ) :
    dnum e c uw uh ud k x = _root_.RQ.dnum (S e c uw uh k) (RQWhole.ds e c ud k) (RQWhole.ds e c ud (k+1)) (theta e c uw k x) := by
  unfold dnum _root_.RQ.dnum; ring

/-- the executed log-abs-det closed form of bin `k`, unfolded -/
theorem binLd_unfold (k : ℕ) (x : ℝ) :
    RQWhole.binLd e c uw uh ud k x = Real.log (dnum e c uw uh ud k x) - 2 * Real.log (den e c uw uh ud k x) := by
  unfold RQWhole.binLd
  rw [rqFwdLdE_shape]
  simp [evalDen, evalDnum]

/-! ### stage A: softmax and softplus -/

theorem softmax_divisor_pos (u : List ℝ) (hu : u ≠ []) :
    0 < sumG (NF.realX e) (u.map fun t => (NF.realX e).exp ((NF.realX e).sub t (maxG (NF.realX e) u))) := by
  rw [SplineExec.sumG_eq]
  simp only [NF.realX_exp, NF.realX_sub]
  exact SplineExec.sum_exp_pos u _ hu

/-- the program's softmax IS `es.map (· / s)` with `s` the sum named in `softmax_divisor_pos` -/
theorem softmaxG_shape (u : List ℝ) :
    softmaxG (NF.realX e) u
      = (u.map fun t => (NF.realX e).exp ((NF.realX e).sub t (maxG (NF.realX e) u))).map
          (fun x => (NF.realX e).div x
            (sumG (NF.realX e) (u.map fun t => (NF.realX e).exp ((NF.realX e).sub t (maxG (NF.realX e) u))))) := rfl

/-- the program's `softplusB` is, below the threshold, `log1p (exp (beta*u)) / beta`, and that `log1p` is the compensated
    quotient `log u' * x / (u' − 1)` with `u' = 1 + x`, `x = exp (beta*u)` (the `u' = 1` branch is not taken: `x > 0`) -/
theorem softplusB_shape (beta u : ℝ) :
    (NF.realX e).softplusB beta u
      = if (NF.realX e).lt ((NF.realX e).ofRat 20 1) ((NF.realX e).mul beta u) then u
        else (NF.realX e).div
          ((NF.realX e).div
            ((NF.realX e).mul
              ((NF.realX e).log ((NF.realX e).add (NF.realX e).one ((NF.realX e).exp ((NF.realX e).mul beta u))))
              ((NF.realX e).exp ((NF.realX e).mul beta u)))
            ((NF.realX e).sub ((NF.realX e).add (NF.realX e).one ((NF.realX e).exp ((NF.realX e).mul beta u))) (NF.realX e).one))
          beta := by
  unfold XOps.softplusB XOps.log1p
  have h : ((NF.realX e).le ((NF.realX e).add (NF.realX e).one ((NF.realX e).exp ((NF.realX e).mul beta u))) (NF.realX e).one
      && (NF.realX e).le (NF.realX e).one ((NF.realX e).add (NF.realX e).one ((NF.realX e).exp ((NF.realX e).mul beta u)))) = false := by
    simp only [NF.realX_le, NF.realX_add, NF.realX_one, NF.realX_exp, NF.realX_mul, Bool.and_eq_false_iff,
      decide_eq_false_iff_not, not_le]
    left
    linarith [Real.exp_pos (beta * u)]
  simp only [h, Bool.false_eq_true, if_false]

/-! ### the bundle -/

/-- rows 1-5 (stage A, shared by both directions): softmax divisors, `softplus` divisor, the logarithm and the divisor
    inside `log1p`; and their by-products: every width, height and knot derivative the program can gather is positive -/
structure RQStageAWellDefined (e : Float → ℝ) (c : RQCfg) (uw uh ud : List ℝ) : Prop where
  /-- rows 1, 2: the softmax divisors -/
  softmaxW_divisor :
    0 < sumG (NF.realX e) (uw.map fun t => (NF.realX e).exp ((NF.realX e).sub t (maxG (NF.realX e) uw)))
  softmaxH_divisor :
    0 < sumG (NF.realX e) (uh.map fun t => (NF.realX e).exp ((NF.realX e).sub t (maxG (NF.realX e) uh)))
  /-- row 3: the `softplus` divisor `beta` -/
  softplus_divisor : 0 < (NF.realX e).ofFloat c.beta
  /-- row 4: the logarithm inside `log1p (exp (beta*u))`, for every `u` (in particular every entry of `ud`) -/
  log1p_log_arg : ∀ u : ℝ,
    0 < (NF.realX e).add (NF.realX e).one ((NF.realX e).exp ((NF.realX e).mul ((NF.realX e).ofFloat c.beta) u))
  /-- row 5: the divisor of the compensated quotient inside `log1p` -/
  log1p_divisor : ∀ u : ℝ,
    0 < (NF.realX e).sub
      ((NF.realX e).add (NF.realX e).one ((NF.realX e).exp ((NF.realX e).mul ((NF.realX e).ofFloat c.beta) u)))
      (NF.realX e).one
  /-- by-products of rows 1-5: all widths, heights (differences of the executed knots) and knot derivatives are positive -/
  widths_pos : ∀ k < uw.length, 0 < W e c uw k
  heights_pos : ∀ k < uw.length, 0 < H e c uh k
  derivs_pos : ∀ k < uw.length + 1, 0 < RQWhole.ds e c ud k

theorem rq_stageA_well_defined (hv : RQWhole.RQValid e c uw uh ud) : RQStageAWellDefined e c uw uh ud := by
  have huh : uh ≠ [] := by
    intro h; have := hv.hlenh; rw [h] at this; exact hv.hK (List.length_eq_zero_iff.mp this.symm)
  have hexp : ∀ u : ℝ, 0 < Real.exp (e c.beta * u) := fun u => Real.exp_pos _
  exact {
    softmaxW_divisor := softmax_divisor_pos uw hv.hK
    softmaxH_divisor := softmax_divisor_pos uh huh
    softplus_divisor := hv.hbeta
    log1p_log_arg := by
      intro u
      simp only [NF.realX_add, NF.realX_one, NF.realX_exp, NF.realX_mul, NF.realX_ofFloat]
      linarith [hexp u]
    log1p_divisor := by
      intro u
      simp only [NF.realX_add, NF.realX_sub, NF.realX_one, NF.realX_exp, NF.realX_mul, NF.realX_ofFloat]
      linarith [hexp u]
    widths_pos := fun k hk => sub_pos.mpr (RQWhole.xs_strict hv k hk)
    heights_pos := fun k hk => sub_pos.mpr (RQWhole.ys_strict hv k hk)
    derivs_pos := RQWhole.ds_pos hv }

/-! ### forward -/

/-- every `log` argument is positive and every divisor is positive on the forward run at `x` (rows 1-5 in `stageA`) -/
structure RQFwdWellDefined (e : Float → ℝ) (c : RQCfg) (uw uh ud : List ℝ) (x : ℝ) : Prop where
  stageA : RQStageAWellDefined e c uw uh ud
  /-- the tie to the program: it returns the closed forms of the bin the EXECUTED search selected -/
  exec : rqSpline (NF.realX e) c uw uh ud false x
      = .ok (RQWhole.binVal e c uw uh ud (RQWhole.idx e c uw x) x, RQWhole.binLd e c uw uh ud (RQWhole.idx e c uw x) x)
  idx_lt : RQWhole.idx e c uw x < uw.length
  in_bin : RQWhole.xs e c uw (RQWhole.idx e c uw x) ≤ x ∧ x ≤ RQWhole.xs e c uw (RQWhole.idx e c uw x + 1)
  /-- rows 6, 7: the value the program gathers for `w` (slot 2 of the environment) is the width of the searched bin … -/
  gather_w :
    getI (rqKnots (NF.realX e) c.box.left c.box.right (flooredSoftmax (NF.realX e) c.minW uw)).2
        (searchsortedG (NF.realX e) c.eps
          (rqKnots (NF.realX e) c.box.left c.box.right (flooredSoftmax (NF.realX e) c.minW uw)).1 x)
      = .ok (W e c uw (RQWhole.idx e c uw x))
  /-- … and is positive -/
  w_pos : 0 < evalR (RQWhole.env e c uw uh ud (RQWhole.idx e c uw x) x) wE
  theta_mem : 0 ≤ theta e c uw (RQWhole.idx e c uw x) x ∧ theta e c uw (RQWhole.idx e c uw x) x ≤ 1
  /-- rows 8, 10: divisor of `rqFwdE`, second logarithm of `rqFwdLdE` -/
  den_pos : 0 < evalR (RQWhole.env e c uw uh ud (RQWhole.idx e c uw x) x) denE
  /-- row 9: first logarithm of `rqFwdLdE` -/
  dnum_pos : 0 < evalR (RQWhole.env e c uw uh ud (RQWhole.idx e c uw x) x) dnumE
  /-- the returned log-abs-det, unfolded: both logarithms are taken at positive, explicitly written arguments -/
  ld_unfold : RQWhole.binLd e c uw uh ud (RQWhole.idx e c uw x) x
      = Real.log (dnum e c uw uh ud (RQWhole.idx e c uw x) x) - 2 * Real.log (den e c uw uh ud (RQWhole.idx e c uw x) x)
  den_pos' : 0 < den e c uw uh ud (RQWhole.idx e c uw x) x
  dnum_pos' : 0 < dnum e c uw uh ud (RQWhole.idx e c uw x) x

theorem in_bin_of_valid (hv : RQWhole.RQValid e c uw uh ud) (x : ℝ) (hx0 : e c.box.left ≤ x) (hx1 : x ≤ e c.box.right) :
    RQWhole.idx e c uw x < uw.length ∧
    RQWhole.xs e c uw (RQWhole.idx e c uw x) ≤ x ∧ x ≤ RQWhole.xs e c uw (RQWhole.idx e c uw x + 1) := by
  obtain ⟨hiK, hle, hr⟩ := (RQWhole.search_spec hv).1 x (by rw [RQWhole.xs_zero hv]; exact hx0)
    (by rw [RQWhole.xs_last hv]; exact hx1)
  refine ⟨hiK, hle, ?_⟩
  rcases hr with hr | ⟨hK, hxr⟩
  · exact hr.le
  · rw [hK]; exact hxr.le

theorem gather_w_of_valid (hv : RQWhole.RQValid e c uw uh ud) (x : ℝ) (hx0 : e c.box.left ≤ x) (hx1 : x ≤ e c.box.right) :
    getI (rqKnots (NF.realX e) c.box.left c.box.right (flooredSoftmax (NF.realX e) c.minW uw)).2
        (searchsortedG (NF.realX e) c.eps
          (rqKnots (NF.realX e) c.box.left c.box.right (flooredSoftmax (NF.realX e) c.minW uw)).1 x)
      = .ok (W e c uw (RQWhole.idx e c uw x)) := by
  obtain ⟨hiK, _, _⟩ := in_bin_of_valid hv x hx0 hx1
  have hcwlen := (RQWhole.cw_facts hv).1
  have hwlen : (diffsG (NF.realX e) (RQWhole.cw e c uw)).length = uw.length := by
    rw [SplineTotal.diffsG_length, hcwlen]; omega
  have h1 : (rqKnots (NF.realX e) c.box.left c.box.right (flooredSoftmax (NF.realX e) c.minW uw)).1 = RQWhole.cw e c uw := rfl
  have h2 : (rqKnots (NF.realX e) c.box.left c.box.right (flooredSoftmax (NF.realX e) c.minW uw)).2
      = diffsG (NF.realX e) (RQWhole.cw e c uw) := rfl
  rw [h1, h2, (RQWhole.search_spec hv).2 x hx0 hx1,
    SplineTotal.getI_ok _ _ (by omega : RQWhole.idx e c uw x < (diffsG (NF.realX e) (RQWhole.cw e c uw)).length),
    RQWhole.getElem_eq_getD, RQWhole.diffsG_getD e _ _ (by omega)]
  rfl

/-- **RQ forward, well-definedness**: on every input of the closed domain, under the validity bundle, every logarithm the
    executed program takes has a positive argument and every division has a positive divisor (table in the file header). -/
theorem rq_forward_well_defined (hv : RQWhole.RQValid e c uw uh ud) (x : ℝ)
    (hx0 : e c.box.left ≤ x) (hx1 : x ≤ e c.box.right) : RQFwdWellDefined e c uw uh ud x := by
  obtain ⟨hiK, hle, hle1⟩ := in_bin_of_valid hv x hx0 hx1
  have hA := rq_stageA_well_defined hv
  have hD := hA.derivs_pos
  set k := RQWhole.idx e c uw x with hk
  have hw := hA.widths_pos k hiK
  have hs : 0 < S e c uw uh k := div_pos (hA.heights_pos k hiK) hw
  have ht0 : 0 ≤ theta e c uw k x := div_nonneg (by linarith) hw.le
  have ht1 : theta e c uw k x ≤ 1 := by
    unfold theta; rw [div_le_one hw]; unfold W; linarith
  have hden : 0 < den e c uw uh ud k x := by
    rw [den_eq_RQ]; exact _root_.RQ.den_pos hs (hD k (by omega)) (hD (k+1) (by omega)) ht0 ht1
  have hdnum : 0 < dnum e c uw uh ud k x := by
    rw [dnum_eq_RQ]; exact _root_.RQ.dnum_pos hs (hD k (by omega)) (hD (k+1) (by omega)) ht0 ht1
  exact {
    stageA := hA
    exec := RQWhole.exec_eq_bin hv x hx0 hx1
    idx_lt := hiK
    in_bin := ⟨hle, hle1⟩
    gather_w := gather_w_of_valid hv x hx0 hx1
    w_pos := by rw [evalW]; exact hw
    theta_mem := ⟨ht0, ht1⟩
    den_pos := by rw [evalDen]; exact hden
    dnum_pos := by rw [evalDnum]; exact hdnum
    ld_unfold := binLd_unfold k x
    den_pos' := hden
    dnum_pos' := hdnum }

/-! ### inverse -/

/-- operand sub-terms of the executed inverse `Expr` terms (`rqDiscE`, `rqRootE`, `rqLdThetaE`) -/
def dlE : Expr := v 0 - v 3
def bE : Expr := v 4 * v 5 - dlE * (v 5 + v 6 - 2 * sE)
def cE : Expr := .neg sE * dlE
/-- the divisor of the root `2c / (−b − sqrt disc)` -/
def rootDivE : Expr := .neg bE - .sqrt rqDiscE
/-- the two logarithm arguments of `rqLdThetaE` (slot 0 of the environment is the root θ) -/
def denThE : Expr := sE + (v 5 + v 6 - 2 * sE) * (v 0 * (1 - v 0))
def dnumThE : Expr := (sE * sE) * (v 6 * (v 0 * v 0) + 2 * sE * (v 0 * (1 - v 0)) + v 5 * ((1 - v 0) * (1 - v 0)))

/-- the executed root IS `(2·cE) / rootDivE`, and its square root is taken of the very term `rqDiscE` the program tests -/
theorem rqRootE_shape : rqRootE = (2 * cE) / rootDivE := rfl
/-- the executed inverse log-abs-det term IS `log dnumThE − 2 · log denThE` -/
theorem rqLdThetaE_shape : rqLdThetaE = .log dnumThE - 2 * .log denThE := rfl

/-- the square-root argument is non-negative, the root's divisor is negative (hence non-zero), the width is positive
    and both logarithms of the log-abs-det are taken at positive arguments, on the inverse run at `y` -/
structure RQInvWellDefined (e : Float → ℝ) (c : RQCfg) (uw uh ud : List ℝ) (y : ℝ) : Prop where
  stageA : RQStageAWellDefined e c uw uh ud
  /-- the tie to the program: it returns the closed forms of the y-bin the EXECUTED search selected -/
  exec : rqSpline (NF.realX e) c uw uh ud true y
      = .ok (RQInverseWhole.binInv e c uw uh ud (RQInverseWhole.idxI e c uh y) y,
             RQInverseWhole.binInvLd e c uw uh ud (RQInverseWhole.idxI e c uh y) y)
  idx_lt : RQInverseWhole.idxI e c uh y < uw.length
  in_bin : RQWhole.ys e c uh (RQInverseWhole.idxI e c uh y) ≤ y ∧ y ≤ RQWhole.ys e c uh (RQInverseWhole.idxI e c uh y + 1)
  /-- row 6': the divisor `w` of `s = v 4 / v 2` in all three terms -/
  w_pos : 0 < evalR (RQWhole.env e c uw uh ud (RQInverseWhole.idxI e c uh y) y) wE
  /-- row 7': the argument of `.sqrt rqDiscE` -/
  disc_nonneg : 0 ≤ evalR (RQWhole.env e c uw uh ud (RQInverseWhole.idxI e c uh y) y) rqDiscE
  /-- row 8': the divisor of the root -/
  root_divisor_neg : evalR (RQWhole.env e c uw uh ud (RQInverseWhole.idxI e c uh y) y) rootDivE < 0
  root_mem : 0 ≤ RQInverseWhole.binRoot e c uw uh ud (RQInverseWhole.idxI e c uh y) y ∧
    RQInverseWhole.binRoot e c uw uh ud (RQInverseWhole.idxI e c uh y) y ≤ 1
  /-- rows 9', 10': the two logarithm arguments of `rqLdThetaE`, evaluated (as the program does) with the root in slot 0 -/
  dnum_pos : 0 < evalR (RQWhole.env e c uw uh ud (RQInverseWhole.idxI e c uh y)
      (RQInverseWhole.binRoot e c uw uh ud (RQInverseWhole.idxI e c uh y) y)) dnumThE
  den_pos : 0 < evalR (RQWhole.env e c uw uh ud (RQInverseWhole.idxI e c uh y)
      (RQInverseWhole.binRoot e c uw uh ud (RQInverseWhole.idxI e c uh y) y)) denThE
  /-- the returned log-abs-det, unfolded -/
  ld_unfold : RQInverseWhole.binInvLd e c uw uh ud (RQInverseWhole.idxI e c uh y) y
      = - (Real.log (evalR (RQWhole.env e c uw uh ud (RQInverseWhole.idxI e c uh y)
              (RQInverseWhole.binRoot e c uw uh ud (RQInverseWhole.idxI e c uh y) y)) dnumThE)
          - 2 * Real.log (evalR (RQWhole.env e c uw uh ud (RQInverseWhole.idxI e c uh y)
              (RQInverseWhole.binRoot e c uw uh ud (RQInverseWhole.idxI e c uh y) y)) denThE))

theorem evalDenTh (k : ℕ) (t : ℝ) :
    evalR (RQWhole.env e c uw uh ud k t) denThE
      = _root_.RQ.den (S e c uw uh k) (RQWhole.ds e c ud k) (RQWhole.ds e c ud (k+1)) t := by
  simp [denThE, sE, wE, _root_.RQ.den, S, W, H, RQWhole.env, NF.v]

theorem evalDnumTh (k : ℕ) (t : ℝ) :
    evalR (RQWhole.env e c uw uh ud k t) dnumThE
      = _root_.RQ.dnum (S e c uw uh k) (RQWhole.ds e c ud k) (RQWhole.ds e c ud (k+1)) t := by
  simp [dnumThE, sE, wE, _root_.RQ.dnum, S, W, H, RQWhole.env, NF.v]
  ring

theorem evalB (k : ℕ) (y : ℝ) :
    evalR (RQWhole.env e c uw uh ud k y) bE
      = _root_.RQ.qb (S e c uw uh k) (RQWhole.ds e c ud k) (RQWhole.ds e c ud (k+1)) (H e c uh k) (y - RQWhole.ys e c uh k) := by
  simp [bE, dlE, sE, wE, _root_.RQ.qb, S, W, H, RQWhole.env, NF.v]

/-- the root's divisor `−b − sqrt disc` is negative on the closed y-bin (from `RQ.stable_root`: `0 < b + sqrt disc`) -/
theorem root_divisor_neg_bin (hv : RQWhole.RQValid e c uw uh ud) (k : ℕ) (hk : k < uw.length) (y : ℝ)
    (hy0 : RQWhole.ys e c uh k ≤ y) (hy1 : y ≤ RQWhole.ys e c uh (k+1)) :
    evalR (RQWhole.env e c uw uh ud k y) rootDivE < 0 := by
  have hA := rq_stageA_well_defined hv
  have hw := hA.widths_pos k hk
  have hh := hA.heights_pos k hk
  have h0 := hA.derivs_pos k (by omega)
  have h1 := hA.derivs_pos (k+1) (by omega)
  have hs : 0 < S e c uw uh k := div_pos hh hw
  set Δ := y - RQWhole.ys e c uh k with hΔ
  have hΔ0 : 0 ≤ Δ := by linarith
  have hΔ1 : Δ ≤ H e c uh k := by unfold H; linarith
  set a := _root_.RQ.qa (S e c uw uh k) (RQWhole.ds e c ud k) (RQWhole.ds e c ud (k+1)) (H e c uh k) Δ with ha
  set b := _root_.RQ.qb (S e c uw uh k) (RQWhole.ds e c ud k) (RQWhole.ds e c ud (k+1)) (H e c uh k) Δ with hb
  set cc := _root_.RQ.qc (S e c uw uh k) Δ with hcc
  have hc : cc ≤ 0 := by simp only [hcc, _root_.RQ.qc]; nlinarith
  have hq1 : 0 ≤ a + b + cc := by
    have : a + b + cc = S e c uw uh k * (H e c uh k - Δ) := by
      simp only [ha, hb, hcc, _root_.RQ.qa, _root_.RQ.qb, _root_.RQ.qc]; ring
    rw [this]; exact mul_nonneg hs.le (by linarith)
  have hbpos : cc = 0 → 0 < b := by
    intro hc0
    have hΔz : Δ = 0 := by
      simp only [hcc, _root_.RQ.qc] at hc0
      rcases mul_eq_zero.mp hc0 with h' | h'
      · linarith
      · exact h'
    simp only [hb, _root_.RQ.qb, hΔz]; nlinarith
  obtain ⟨_, hpos, _⟩ := _root_.stable_root hc hq1 hbpos
  have hdisc : evalR (RQWhole.env e c uw uh ud k y) rqDiscE = b ^ 2 - 4 * a * cc :=
    RQInverseWhole.rqDiscE_eq y _ _ _ _ _ _
  have : evalR (RQWhole.env e c uw uh ud k y) rootDivE
      = - b - Real.sqrt (b ^ 2 - 4 * a * cc) := by
    show - evalR (RQWhole.env e c uw uh ud k y) bE - Real.sqrt (evalR (RQWhole.env e c uw uh ud k y) rqDiscE) = _
    rw [evalB, hdisc]
  rw [this]
  linarith

/-- **RQ inverse, well-definedness**: on every `y` of the closed domain the square root is taken of a non-negative
    discriminant, the root's divisor is non-zero (negative), and every logarithm has a positive argument. -/
theorem rq_inverse_well_defined (hv : RQWhole.RQValid e c uw uh ud) (y : ℝ)
    (hy0 : e c.box.bottom ≤ y) (hy1 : y ≤ e c.box.top) : RQInvWellDefined e c uw uh ud y := by
  obtain ⟨hiK, hle, hle1, _⟩ := RQInverseWhole.sel hv y hy0 hy1
  have hA := rq_stageA_well_defined hv
  set k := RQInverseWhole.idxI e c uh y with hk
  obtain ⟨hdisc, hr0, hr1, _⟩ := RQInverseWhole.bin_facts hv k hiK y hle hle1
  have hw := hA.widths_pos k hiK
  have hs : 0 < S e c uw uh k := div_pos (hA.heights_pos k hiK) hw
  have h0 := hA.derivs_pos k (by omega)
  have h1 := hA.derivs_pos (k+1) (by omega)
  exact {
    stageA := hA
    exec := RQInverseWhole.exec_eq_bin hv y hy0 hy1
    idx_lt := hiK
    in_bin := ⟨hle, hle1⟩
    w_pos := by rw [evalW]; exact hw
    disc_nonneg := hdisc
    root_divisor_neg := root_divisor_neg_bin hv k hiK y hle hle1
    root_mem := ⟨hr0, hr1⟩
    dnum_pos := by rw [evalDnumTh]; exact _root_.RQ.dnum_pos hs h0 h1 hr0 hr1
    den_pos := by rw [evalDenTh]; exact _root_.RQ.den_pos hs h0 h1 hr0 hr1
    ld_unfold := by
      unfold RQInverseWhole.binInvLd
      rw [rqLdThetaE_shape]
      simp }

/-! ### non-vacuity: the bundles are inhabited at the concrete accepted configuration `RQWhole.valid_example`, at the
end-points of the box and in between -/

private theorem b0 : ((0.0:Float) == 0.0) = true := by decide +kernel
private theorem b1 : ((1.0:Float) == 0.0) = false := by decide +kernel

example : RQFwdWellDefined RQWhole.eNV RQWhole.cNV [0] [0] [0, 0] (1/2) :=
  rq_forward_well_defined RQWhole.valid_example (1/2)
    (by simp [RQWhole.eNV, RQWhole.cNV, b0])
    (by simp [RQWhole.eNV, RQWhole.cNV, b1]; norm_num)
example : RQFwdWellDefined RQWhole.eNV RQWhole.cNV [0] [0] [0, 0] 0 :=
  rq_forward_well_defined RQWhole.valid_example 0
    (by simp [RQWhole.eNV, RQWhole.cNV, b0])
    (by simp [RQWhole.eNV, RQWhole.cNV, b1])
example : RQFwdWellDefined RQWhole.eNV RQWhole.cNV [0] [0] [0, 0] 1 :=
  rq_forward_well_defined RQWhole.valid_example 1
    (by simp [RQWhole.eNV, RQWhole.cNV, b0])
    (by simp [RQWhole.eNV, RQWhole.cNV, b1])
example : RQInvWellDefined RQWhole.eNV RQWhole.cNV [0] [0] [0, 0] (1/2) :=
  rq_inverse_well_defined RQWhole.valid_example (1/2)
    (by simp [RQWhole.eNV, RQWhole.cNV, b0])
    (by simp [RQWhole.eNV, RQWhole.cNV, b1]; norm_num)
example : RQInvWellDefined RQWhole.eNV RQWhole.cNV [0] [0] [0, 0] 0 :=
  rq_inverse_well_defined RQWhole.valid_example 0
    (by simp [RQWhole.eNV, RQWhole.cNV, b0])
    (by simp [RQWhole.eNV, RQWhole.cNV, b1])

end
end NF.WellDefined.RQ
