import NflowsModel.Lemmas.DualXRQInv
/-!
# Lemmas/DualXRQParamCore — the EXECUTED rational-quadratic spline (forward) on dual numbers, ARBITRARY tangent direction (C16)

The input `x` AND the unnormalised widths / heights / derivatives may all carry tangents (a joint direction).

* `rqSpline_dual_param_exec`: the dual program's control flow sees only value components: it selects the bin the real
  program selects at the value components and evaluates that bin's two `Expr` terms on the gathered DUAL knots.
* `rqSpline_dual_param_core`: if the dual knot pipeline is sound along a curve of parameters (`CurveL` hypotheses — these
  are discharged for the executed pipeline in `Lemmas/DualXParam.lean`), then for `x` strictly inside a bin the dual run
  returns `((val, v'), (ld, l'))` with `v'`, `l'` the derivatives of the real program's two outputs ALONG THE CURVE
  (bin index locally constant along the curve by continuity of the knots).
-/
set_option linter.unusedSimpArgs false
open NF DualSound Filter Topology

namespace DualX
noncomputable section
open RQWhole

variable {e : Float → ℝ} {c : RQCfg}

/-- list-level duality: `ds` is entry-wise the (value, derivative) pair of the curve of lists `F` at `t` -/
def CurveL (F : ℝ → List ℝ) (t : ℝ) (ds : List (ℝ × ℝ)) : Prop :=
  (∀ s, (F s).length = ds.length) ∧ ∀ k, k < ds.length → IsDual (fun s => (F s).getD k 0) t (ds.getD k (0, 0))

theorem CurveL.map_fst {F : ℝ → List ℝ} {t : ℝ} {ds : List (ℝ × ℝ)} (h : CurveL F t ds) : ds.map Prod.fst = F t := by
  apply List.ext_getElem
  · rw [List.length_map, h.1 t]
  · intro k h1 h2
    have hk : k < ds.length := by simpa using h1
    have : (ds.getD k (0, 0)).1 = (F t).getD k 0 := (h.2 k hk).1
    rw [← List.getElem_eq_getD (h := hk), ← List.getElem_eq_getD (h := h2)] at this
    rw [List.getElem_map]; exact this

/-- an accepted configuration stays accepted for any parameter lists of the same lengths -/
theorem RQValid.of_length {uw uh ud uw2 uh2 ud2 : List ℝ} (hv : RQValid e c uw uh ud)
    (h1 : uw2.length = uw.length) (h2 : uh2.length = uh.length) (h3 : ud2.length = ud.length) :
    RQValid e c uw2 uh2 ud2 where
  hK := by
    intro h; rw [h] at h1
    exact hv.hK (List.length_eq_zero_iff.mp h1.symm)
  hlenh := by rw [h2, h1]; exact hv.hlenh
  hlend := by rw [h3, h1]; exact hv.hlend
  hgW := by rw [h1]; exact hv.hgW
  hgH := by rw [h1]; exact hv.hgH
  hmW0 := hv.hmW0
  hcW := by rw [h1]; exact hv.hcW
  hmWK := by rw [h1]; exact hv.hmWK
  hmH0 := hv.hmH0
  hcH := by rw [h2]; exact hv.hcH
  hmHK := by rw [h2]; exact hv.hmHK
  hlr := hv.hlr
  hdlr := hv.hdlr
  hbt := hv.hbt
  hdbt := hv.hdbt
  heps := hv.heps
  hminD := hv.hminD
  hbeta := hv.hbeta

variable (e c)

/-- the dual x-knots / widths, y-knots / heights, knot derivatives exactly as the dual program computes them -/
def knW (dW : List (ℝ × ℝ)) : List (ℝ × ℝ) × List (ℝ × ℝ) :=
  rqKnots (dualX (NF.realX e)) c.box.left c.box.right (flooredSoftmax (dualX (NF.realX e)) c.minW dW)
def knH (dH : List (ℝ × ℝ)) : List (ℝ × ℝ) × List (ℝ × ℝ) :=
  rqKnots (dualX (NF.realX e)) c.box.bottom c.box.top (flooredSoftmax (dualX (NF.realX e)) c.minH dH)
def dvD (dD : List (ℝ × ℝ)) : List (ℝ × ℝ) :=
  dD.map (fun u => (dualX (NF.realX e)).add ((dualX (NF.realX e)).ofFloat c.minD)
    ((dualX (NF.realX e)).softplusB ((dualX (NF.realX e)).ofFloat c.beta) u))

/-- the dual environment of bin `k`: the gathered dual knots, `dx` in slot 0 -/
def envP (dW dH dD : List (ℝ × ℝ)) (k : ℕ) (dx : ℝ × ℝ) : List (ℝ × ℝ) :=
  [dx, (knW e c dW).1.getD k (0, 0), (knW e c dW).2.getD k (0, 0), (knH e c dH).1.getD k (0, 0),
    (knH e c dH).2.getD k (0, 0), (dvD e c dD).getD k (0, 0), (dvD e c dD).getD (k + 1) (0, 0)]

variable {e c}

/-- value components of the dual knot pipeline = the real knot pipeline on the value components -/
theorem knW_fst (dW : List (ℝ × ℝ)) :
    (knW e c dW).1.map Prod.fst = cw e c (dW.map Prod.fst) ∧
    (knW e c dW).2.map Prod.fst = diffsG (NF.realX e) (cw e c (dW.map Prod.fst)) := by
  have := (fst_hom e).rqKnots c.box.left c.box.right (flooredSoftmax (dualX (NF.realX e)) c.minW dW)
  rw [(fst_hom e).flooredSoftmax] at this
  exact ⟨congrArg Prod.fst this, congrArg Prod.snd this⟩

theorem knH_fst (dH : List (ℝ × ℝ)) :
    (knH e c dH).1.map Prod.fst = ch e c (dH.map Prod.fst) ∧
    (knH e c dH).2.map Prod.fst = diffsG (NF.realX e) (ch e c (dH.map Prod.fst)) := by
  have := (fst_hom e).rqKnots c.box.bottom c.box.top (flooredSoftmax (dualX (NF.realX e)) c.minH dH)
  rw [(fst_hom e).flooredSoftmax] at this
  exact ⟨congrArg Prod.fst this, congrArg Prod.snd this⟩

theorem dvD_fst (dD : List (ℝ × ℝ)) : (dvD e c dD).map Prod.fst = dv e c (dD.map Prod.fst) := by
  unfold dvD dv
  rw [List.map_map, List.map_map]
  apply List.map_congr_left
  intro u _
  simp only [Function.comp, (fst_hom e).add, (fst_hom e).softplusB, (fst_hom e).ofFloat]

/-- **the dual program selects the bin the real program selects at the value components and evaluates that bin's terms on
    the gathered dual knots** — every tangent (input and parameters) arbitrary -/
theorem rqSpline_dual_param_exec (dW dH dD : List (ℝ × ℝ))
    (hv : RQValid e c (dW.map Prod.fst) (dH.map Prod.fst) (dD.map Prod.fst)) (dx : ℝ × ℝ)
    (hx0 : e c.box.left ≤ dx.1) (hx1 : dx.1 ≤ e c.box.right) :
    rqSpline (dualX (NF.realX e)) c dW dH dD false dx
      = .ok (evalX (dualX (NF.realX e)) (envP e c dW dH dD (idx e c (dW.map Prod.fst) dx.1) dx) rqFwdE,
             evalX (dualX (NF.realX e)) (envP e c dW dH dD (idx e c (dW.map Prod.fst) dx.1) dx) rqFwdLdE) := by
  obtain ⟨hspec, hsearch⟩ := RQWhole.search_spec hv
  have hx0' : xs e c (dW.map Prod.fst) 0 ≤ dx.1 := by rw [xs_zero hv]; exact hx0
  have hx1' : dx.1 ≤ xs e c (dW.map Prod.fst) (dW.map Prod.fst).length := by rw [xs_last hv]; exact hx1
  obtain ⟨hiK, _, _⟩ := hspec dx.1 hx0' hx1'
  set i := idx e c (dW.map Prod.fst) dx.1 with hi
  have hK : (dW.map Prod.fst).length = dW.length := List.length_map _
  rw [hK] at hiK
  have hcwlen := (cw_facts hv).1
  have hchlen := (ch_facts hv).1
  rw [hK] at hcwlen hchlen
  have hgW : ¬ (c.minW * dW.length.toFloat > 1.0) := by have := hv.hgW; rwa [hK] at this
  have hgH : ¬ (c.minH * dW.length.toFloat > 1.0) := by have := hv.hgH; rwa [hK] at this
  have hg1 : ((dualX (NF.realX e)).lt dx ((dualX (NF.realX e)).ofFloat c.box.left)
      || (dualX (NF.realX e)).lt ((dualX (NF.realX e)).ofFloat c.box.right) dx) = false := by
    simp only [d_lt, d_ofFloat, Bool.or_eq_false_iff, decide_eq_false_iff_not, not_lt]
    exact ⟨hx0, hx1⟩
  obtain ⟨hW1, hW2⟩ := knW_fst (e := e) (c := c) dW
  obtain ⟨hH1, hH2⟩ := knH_fst (e := e) (c := c) dH
  have hD := dvD_fst (e := e) (c := c) dD
  have hl1 : (knW e c dW).1.length = dW.length + 1 := by rw [← List.length_map (f := Prod.fst), hW1, hcwlen]
  have hl2 : (knW e c dW).2.length = dW.length := by
    rw [← List.length_map (f := Prod.fst), hW2, SplineTotal.diffsG_length, hcwlen]; omega
  have hl3 : (knH e c dH).1.length = dW.length + 1 := by rw [← List.length_map (f := Prod.fst), hH1, hchlen]
  have hl4 : (knH e c dH).2.length = dW.length := by
    rw [← List.length_map (f := Prod.fst), hH2, SplineTotal.diffsG_length, hchlen]; omega
  have hl5 : (dvD e c dD).length = dW.length + 1 := by
    have hd := hv.hlend
    simp only [List.length_map] at hd
    unfold dvD; rw [List.length_map, hd]
  have hs : searchsortedG (dualX (NF.realX e)) c.eps (knW e c dW).1 dx = ((i : ℕ) : Int) := by
    rw [(fst_hom e).searchsortedG, hW1]
    exact hsearch dx.1 hx0 hx1
  have hi1 : ((i : Int) + 1) = ((i + 1 : ℕ) : Int) := by push_cast; rfl
  unfold rqSpline envP
  simp only [Bool.false_eq_true, if_false, hg1, hgW, hgH]
  rw [show rqKnots (dualX (NF.realX e)) c.box.left c.box.right (flooredSoftmax (dualX (NF.realX e)) c.minW dW)
      = knW e c dW from rfl,
    show rqKnots (dualX (NF.realX e)) c.box.bottom c.box.top (flooredSoftmax (dualX (NF.realX e)) c.minH dH)
      = knH e c dH from rfl,
    show dD.map (fun u => (dualX (NF.realX e)).add ((dualX (NF.realX e)).ofFloat c.minD)
      ((dualX (NF.realX e)).softplusB ((dualX (NF.realX e)).ofFloat c.beta) u)) = dvD e c dD from rfl]
  rcases hK1 : knW e c dW with ⟨Dcw, Dwid⟩
  rcases hK2 : knH e c dH with ⟨Dch, Dhei⟩
  rw [hK1] at hl1 hl2 hs
  rw [hK2] at hl3 hl4
  simp only at hl1 hl2 hl3 hl4 hs
  simp only [hs]
  rw [SplineTotal.getI_ok Dcw i (by omega), SplineTotal.getI_ok Dwid i (by omega),
    SplineTotal.getI_ok Dch i (by omega), SplineTotal.getI_ok Dhei i (by omega),
    hi1, SplineTotal.getI_ok (dvD e c dD) i (by omega), SplineTotal.getI_ok (dvD e c dD) (i + 1) (by omega)]
  simp only [List.getElem_eq_getD ((0:ℝ), (0:ℝ))]
  rfl

/-- **soundness of the dual run in an arbitrary joint direction, given soundness of the dual knot pipeline**: along any
    curve `s ↦ (FW s, FH s, FD s, FX s)` of parameters and input whose dual lists / dual number enter the program, if the
    dual knots are entry-wise (value, derivative) pairs of the real knots along the curve (`hKW1 … hDV`; proved for the
    executed pipeline in `Lemmas/DualXParam.lean`), then for `FX t` strictly inside bin `k` the dual run returns the real
    outputs with tangents the derivatives of `s ↦ val (params s) (FX s)` and `s ↦ ld (params s) (FX s)` at `t` -/
theorem rqSpline_dual_param_core (FW FH FD : ℝ → List ℝ) (FX : ℝ → ℝ) (t : ℝ) (dW dH dD : List (ℝ × ℝ)) (dx : ℝ × ℝ)
    (hv : RQValid e c (FW t) (FH t) (FD t))
    (hW : CurveL FW t dW) (hH : CurveL FH t dH) (hD : CurveL FD t dD) (hX : IsDual FX t dx)
    (hKW1 : CurveL (fun s => cw e c (FW s)) t (knW e c dW).1)
    (hKW2 : CurveL (fun s => diffsG (NF.realX e) (cw e c (FW s))) t (knW e c dW).2)
    (hKH1 : CurveL (fun s => ch e c (FH s)) t (knH e c dH).1)
    (hKH2 : CurveL (fun s => diffsG (NF.realX e) (ch e c (FH s))) t (knH e c dH).2)
    (hDV : CurveL (fun s => dv e c (FD s)) t (dvD e c dD))
    (k : ℕ) (hk : k < (FW t).length) (h0 : xs e c (FW t) k < FX t) (h1 : FX t < xs e c (FW t) (k+1)) :
    ∃ v' l' : ℝ, rqSpline (dualX (NF.realX e)) c dW dH dD false dx
        = .ok ((val e c (FW t) (FH t) (FD t) (FX t), v'), (ld e c (FW t) (FH t) (FD t) (FX t), l')) ∧
      HasDerivAt (fun s => val e c (FW s) (FH s) (FD s) (FX s)) v' t ∧
      HasDerivAt (fun s => ld e c (FW s) (FH s) (FD s) (FX s)) l' t := by
  have eW := hW.map_fst
  have eH := hH.map_fst
  have eD := hD.map_fst
  have hv' : RQValid e c (dW.map Prod.fst) (dH.map Prod.fst) (dD.map Prod.fst) := by rw [eW, eH, eD]; exact hv
  obtain ⟨hx0, hx1, hik⟩ := idx_of_open_bin hv k hk (FX t) h0 h1
  have hdx : dx.1 = FX t := hX.1
  have hexec := rqSpline_dual_param_exec dW dH dD hv' dx (by rw [hdx]; exact hx0) (by rw [hdx]; exact hx1)
  rw [eW, hdx, hik] at hexec
  -- validity and lengths along the curve
  have hvs : ∀ s, RQValid e c (FW s) (FH s) (FD s) := fun s =>
    DualX.RQValid.of_length hv (by rw [hW.1 s, hW.1 t]) (by rw [hH.1 s, hH.1 t]) (by rw [hD.1 s, hD.1 t])
  have hKs : ∀ s, (FW s).length = (FW t).length := fun s => by rw [hW.1 s, hW.1 t]
  have hcwl : ∀ s, (cw e c (FW s)).length = (FW t).length + 1 := fun s => by rw [(cw_facts (hvs s)).1, hKs s]
  have hchl : ∀ s, (ch e c (FH s)).length = (FW t).length + 1 := fun s => by rw [(ch_facts (hvs s)).1, hKs s]
  have hL1 : (knW e c dW).1.length = (FW t).length + 1 := by rw [← hKW1.1 t]; exact hcwl t
  have hL2 : (knW e c dW).2.length = (FW t).length := by
    rw [← hKW2.1 t, SplineTotal.diffsG_length, hcwl t]; omega
  have hL3 : (knH e c dH).1.length = (FW t).length + 1 := by rw [← hKH1.1 t]; exact hchl t
  have hL4 : (knH e c dH).2.length = (FW t).length := by
    rw [← hKH2.1 t, SplineTotal.diffsG_length, hchl t]; omega
  have hL5 : (dvD e c dD).length = (FW t).length + 1 := by
    rw [← hDV.1 t]; simp [dv, hv.hlend]
  -- the bin environment along the curve, entry by entry
  have hEnv : ∀ i, IsDual (fun s => env e c (FW s) (FH s) (FD s) k (FX s) i) t
      (envOf (envP e c dW dH dD k dx) (0, 0) i) := by
    intro i
    rcases i with _|_|_|_|_|_|_|i
    · exact hX
    · exact hKW1.2 k (by omega)
    · exact (hKW2.2 k (by omega)).congr_fun (fun s => diffsG_getD e (cw e c (FW s)) k (by rw [hcwl s]; omega))
    · exact hKH1.2 k (by omega)
    · exact (hKH2.2 k (by omega)).congr_fun (fun s => diffsG_getD e (ch e c (FH s)) k (by rw [hchl s]; omega))
    · exact hDV.2 k (by omega)
    · exact hDV.2 (k + 1) (by omega)
    · exact IsDual.const 0 t
  have hw : 0 < xs e c (FW t) (k+1) - xs e c (FW t) k := sub_pos.mpr (xs_strict hv k hk)
  have hh : 0 < ys e c (FH t) (k+1) - ys e c (FH t) k := sub_pos.mpr (ys_strict hv k hk)
  have hd0 := ds_pos hv k (by omega)
  have hd1 := ds_pos hv (k+1) (by omega)
  have hxr : FX t ≤ xs e c (FW t) k + (xs e c (FW t) (k+1) - xs e c (FW t) k) := by linarith
  have hY : IsDual (fun s => binVal e c (FW s) (FH s) (FD s) k (FX s)) t
      (evalX (dualX (NF.realX e)) (envP e c dW dH dD k dx) rqFwdE) := by
    rw [evalX_dual]
    exact evalD_curve _ _ t hEnv rqFwdE (rqFwd_interior_smooth (yk := ys e c (FH t) k) hw hh hd0 hd1 h0.le hxr)
  have hLd : IsDual (fun s => binLd e c (FW s) (FH s) (FD s) k (FX s)) t
      (evalX (dualX (NF.realX e)) (envP e c dW dH dD k dx) rqFwdLdE) := by
    rw [evalX_dual]
    exact evalD_curve _ _ t hEnv rqFwdLdE (rqLd_interior_smooth (yk := ys e c (FH t) k) hw hh hd0 hd1 h0.le hxr)
  -- the bin index is locally constant along the curve
  have hcX := hX.2.continuousAt
  have hc0 : ContinuousAt (fun s => xs e c (FW s) k) t := (hKW1.2 k (by omega)).2.continuousAt
  have hc1 : ContinuousAt (fun s => xs e c (FW s) (k+1)) t := (hKW1.2 (k+1) (by omega)).2.continuousAt
  have hev : ∀ᶠ s in 𝓝 t, val e c (FW s) (FH s) (FD s) (FX s) = binVal e c (FW s) (FH s) (FD s) k (FX s) ∧
      ld e c (FW s) (FH s) (FD s) (FX s) = binLd e c (FW s) (FH s) (FD s) k (FX s) := by
    filter_upwards [hc0.eventually_lt hcX h0, hcX.eventually_lt hc1 h1] with s hs0 hs1
    obtain ⟨hz0, hz1, hzk⟩ := idx_of_open_bin (hvs s) k (by rw [hKs s]; exact hk) (FX s) hs0 hs1
    rw [val_eq (hvs s) _ hz0 hz1, ld_eq (hvs s) _ hz0 hz1, hzk]
    exact ⟨rfl, rfl⟩
  have hY' := hY.congr (hev.mono fun s hs => hs.1.symm)
  have hLd' := hLd.congr (hev.mono fun s hs => hs.2.symm)
  refine ⟨_, _, ?_, hY'.2, hLd'.2⟩
  rw [hexec]
  congr 1
  exact Prod.ext (Prod.ext hY'.1 rfl) (Prod.ext hLd'.1 rfl)

end
end DualX
