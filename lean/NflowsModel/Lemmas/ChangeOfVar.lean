import Mathlib.MeasureTheory.Function.JacobianOneDim
import Mathlib.MeasureTheory.Function.Jacobian
import Mathlib.Tactic

namespace ChangeOfVar

open MeasureTheory

/-- C03, 1-D: a bijection of ℝ whose derivative is exp(logdet) pulls a normalised density back to a normalised density -/
theorem flow_normalised_1d (f ld p : ℝ → ℝ)
    (hbij : Function.Bijective f) (hd : ∀ x, HasDerivAt f (Real.exp (ld x)) x) (hp : ∫ z, p z = 1) :
    ∫ x, p (f x) * Real.exp (ld x) = 1 := by
  have h := integral_image_eq_integral_abs_deriv_smul (s := Set.univ) (f := f)
    (f' := fun x => Real.exp (ld x)) MeasurableSet.univ
    (fun x _ => (hd x).hasDerivWithinAt) hbij.injective.injOn p
  simp only [Set.image_univ, hbij.surjective.range_eq, Measure.restrict_univ, smul_eq_mul,
    abs_of_pos (Real.exp_pos _)] at h
  rw [← hp, h]; congr 1; ext x; ring

/-- in log form, as `Flow._log_prob` computes it (flows/base.py:42-49): exp(log p(f x) + logabsdet) -/
theorem flow_logprob_normalised_1d (f ld logp : ℝ → ℝ)
    (hbij : Function.Bijective f) (hd : ∀ x, HasDerivAt f (Real.exp (ld x)) x)
    (hp : ∫ z, Real.exp (logp z) = 1) :
    ∫ x, Real.exp (logp (f x) + ld x) = 1 := by
  simp_rw [Real.exp_add]
  exact flow_normalised_1d f ld (fun z => Real.exp (logp z)) hbij hd hp

/-- n-D -/
theorem flow_normalised_nd {n : ℕ} (T : (Fin n → ℝ) → (Fin n → ℝ))
    (T' : (Fin n → ℝ) → ((Fin n → ℝ) →L[ℝ] (Fin n → ℝ))) (ld : (Fin n → ℝ) → ℝ) (p : (Fin n → ℝ) → ℝ)
    (hbij : Function.Bijective T) (hd : ∀ x, HasFDerivAt T (T' x) x)
    (hld : ∀ x, |(T' x).det| = Real.exp (ld x)) (hp : ∫ z, p z = 1) :
    ∫ x, p (T x) * Real.exp (ld x) = 1 := by
  have h := integral_image_eq_integral_abs_det_fderiv_smul (μ := volume) (s := Set.univ) (f := T)
    (f' := T') MeasurableSet.univ (fun x _ => (hd x).hasFDerivWithinAt) hbij.injective.injOn p
  simp only [Set.image_univ, hbij.surjective.range_eq, Measure.restrict_univ, smul_eq_mul, hld] at h
  rw [← hp, h]; congr 1; ext x; ring

/-- bounded support: a differentiable bijection from an open set U onto V (e.g. Logit: (0,1) → ℝ, splines on their box) -/
theorem flow_normalised_on {n : ℕ} (U V : Set (Fin n → ℝ)) (hU : MeasurableSet U)
    (T : (Fin n → ℝ) → (Fin n → ℝ)) (T' : (Fin n → ℝ) → ((Fin n → ℝ) →L[ℝ] (Fin n → ℝ)))
    (ld : (Fin n → ℝ) → ℝ) (p : (Fin n → ℝ) → ℝ)
    (hinj : Set.InjOn T U) (himg : T '' U = V) (hd : ∀ x ∈ U, HasFDerivWithinAt T (T' x) U x)
    (hld : ∀ x, |(T' x).det| = Real.exp (ld x)) (hp : ∫ z in V, p z = 1) :
    ∫ x in U, p (T x) * Real.exp (ld x) = 1 := by
  have h := integral_image_eq_integral_abs_det_fderiv_smul (μ := volume) hU hd hinj p
  simp only [himg, smul_eq_mul, hld] at h
  rw [← hp, h]; congr 1; ext x; ring


end ChangeOfVar
