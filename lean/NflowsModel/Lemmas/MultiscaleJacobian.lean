import NflowsModel.Lemmas.MultiscaleIndex
import Mathlib.LinearAlgebra.Determinant
import Mathlib.Analysis.Calculus.FDeriv.Prod
import Mathlib.Analysis.Calculus.FDeriv.Comp
import Mathlib.Analysis.Calculus.FDeriv.Add
import Mathlib.Analysis.SpecialFunctions.Log.Basic
import Mathlib.Topology.Algebra.Module.FiniteDimension
import Mathlib.Topology.Algebra.Module.Determinant

/-!
# Lemmas/MultiscaleJacobian — C01 for the executed `MultiscaleCompositeTransform` (1-D items, reals)

The executed wrapper (`Core/Multiscale.lean`: `MS.forward`, `fwdStages`, `chunk2`) on a 1-D item of size `n = c + h`
(`c = ⌈n/2⌉` emitted, `h = ⌊n/2⌋` passed on) computes `Φ ∘ f₁`, where `f₁` is the first stage and
`Φ = blockMap S g = id × g` applies the remaining stages `g` to the passed-on chunk and leaves the emitted chunk alone
(`S = splitFin c h`).  In 1-D the final coordinate permutation `flatPos` is the identity (`MultiscaleIndex.forward_1d`),
so no permutation factor appears.  Results:

* `det_id_prodMap`, `log_abs_det_id_prodMap`, `det_blockD`: `det (id × D) = det D`, also through a splitting `E ≃ A × B`.
* `blockMap_hasFDerivAt`, `step_logdet`, `step_logdet_returned`, `three_stage_logdet`: chain rule + block determinant:
  the log-abs-det of the composite is the sum.
* `chunk2_splitFin`, `fwdStages_step`: the executed `torch.chunk` / loop step ARE the splitting / the block map.
* `run_single`, `run_cons`, `stages_logdet_is_jacobian`, `multiscale_logdet_is_sum_and_jacobian` (any number of stages),
  `two_stage_logdet` (explicit), and a concrete `n = 4` instance.
-/

namespace MultiscaleJacobian

variable {A B : Type} [NormedAddCommGroup A] [NormedSpace ℝ A] [NormedAddCommGroup B] [NormedSpace ℝ B]
  [FiniteDimensional ℝ A] [FiniteDimensional ℝ B]


theorem det_id_prodMap (D : B →L[ℝ] B) :
    ((ContinuousLinearMap.id ℝ A).prodMap D).det = D.det := by
  unfold ContinuousLinearMap.det
  rw [ContinuousLinearMap.coe_prodMap, LinearMap.det_prodMap]
  simp

theorem log_abs_det_id_prodMap (D : B →L[ℝ] B) :
    Real.log |((ContinuousLinearMap.id ℝ A).prodMap D).det| = Real.log |D.det| := by
  rw [det_id_prodMap]

variable {E : Type} [NormedAddCommGroup E] [NormedSpace ℝ E]

/-- the derivative of a block map, written on `E` through the splitting `S : E ≃ A × B` -/
noncomputable def blockD (S : E ≃L[ℝ] A × B) (D : B →L[ℝ] B) : E →L[ℝ] E :=
  (S.symm : A × B →L[ℝ] E).comp (((ContinuousLinearMap.id ℝ A).prodMap D).comp (S : E →L[ℝ] A × B))

theorem det_blockD (S : E ≃L[ℝ] A × B) (D : B →L[ℝ] B) : (blockD S D).det = D.det := by
  rw [← det_id_prodMap (A := A) D]
  unfold ContinuousLinearMap.det
  have := LinearMap.det_conj (((ContinuousLinearMap.id ℝ A).prodMap D : A × B →L[ℝ] A × B) : A × B →ₗ[ℝ] A × B)
    S.symm.toLinearEquiv
  rw [← this]
  congr 1

/-- `Φ_s`: identity on the already emitted coordinates `A`, `g` on the ones still travelling `B` -/
def blockMap (S : E ≃L[ℝ] A × B) (g : B → B) : E → E := fun w => S.symm ((S w).1, g (S w).2)

omit [FiniteDimensional ℝ A] [FiniteDimensional ℝ B] in
theorem blockMap_hasFDerivAt (S : E ≃L[ℝ] A × B) (g : B → B) (Dg : B →L[ℝ] B) (w : E)
    (hg : HasFDerivAt g Dg (S w).2) : HasFDerivAt (blockMap S g) (blockD S Dg) w := by
  have h1 : HasFDerivAt (Prod.map (id : A → A) g) ((ContinuousLinearMap.id ℝ A).prodMap Dg) (S w) :=
    HasFDerivAt.prodMap (S w) (hasFDerivAt_id _) hg
  have h2 := h1.comp w (S : E →L[ℝ] A × B).hasFDerivAt
  exact ((S.symm : A × B →L[ℝ] E).hasFDerivAt).comp w h2

/-- **inductive step** of the multiscale Jacobian: a stage `f` on everything that is left, followed by the
    remaining stages `g` on the part `B` passed on (identity on the emitted part `A`).  The composite has a
    Fréchet derivative whose log-abs-det is the SUM of the two log-abs-dets. -/
theorem step_logdet (S : E ≃L[ℝ] A × B) (f : E → E) (g : B → B) (x : E) (Df : E →L[ℝ] E) (Dg : B →L[ℝ] B)
    (hf : HasFDerivAt f Df x) (hg : HasFDerivAt g Dg (S (f x)).2) (hdf : Df.det ≠ 0) (hdg : Dg.det ≠ 0) :
    HasFDerivAt (blockMap S g ∘ f) ((blockD S Dg).comp Df) x ∧
      ((blockD S Dg).comp Df).det ≠ 0 ∧
      Real.log |((blockD S Dg).comp Df).det| = Real.log |Df.det| + Real.log |Dg.det| := by
  have hdet : ((blockD S Dg).comp Df).det = Dg.det * Df.det := by
    rw [← det_blockD S Dg]
    unfold ContinuousLinearMap.det
    exact LinearMap.det_comp (blockD S Dg : E →ₗ[ℝ] E) (Df : E →ₗ[ℝ] E)
  refine ⟨(blockMap_hasFDerivAt S g Dg (f x) hg).comp x hf, ?_, ?_⟩
  · rw [hdet]; exact mul_ne_zero hdg hdf
  · rw [hdet, abs_mul, Real.log_mul (abs_ne_zero.mpr hdg) (abs_ne_zero.mpr hdf), add_comm]

/-- the same with the log-dets the stages RETURN (`ld = log |det D|`, the form of the per-layer C01 theorems) -/
theorem step_logdet_returned (S : E ≃L[ℝ] A × B) (f : E → E) (g : B → B) (x : E) (Df : E →L[ℝ] E)
    (Dg : B →L[ℝ] B) (ldf ldg : ℝ)
    (hf : HasFDerivAt f Df x) (hg : HasFDerivAt g Dg (S (f x)).2) (hdf : Df.det ≠ 0) (hdg : Dg.det ≠ 0)
    (hldf : ldf = Real.log |Df.det|) (hldg : ldg = Real.log |Dg.det|) :
    ∃ D : E →L[ℝ] E, HasFDerivAt (blockMap S g ∘ f) D x ∧ D.det ≠ 0 ∧ ldf + ldg = Real.log |D.det| := by
  obtain ⟨h1, h2, h3⟩ := step_logdet S f g x Df Dg hf hg hdf hdg
  exact ⟨_, h1, h2, by rw [h3, hldf, hldg]⟩

/-- three stages, two nested splittings `E ≃ A × B`, `B ≃ A' × B'`: the step iterates (the rest `g` of the outer
    step is itself `blockMap S' g₃ ∘ f₂`). -/
theorem three_stage_logdet {A' B' : Type} [NormedAddCommGroup A'] [NormedSpace ℝ A'] [NormedAddCommGroup B']
    [NormedSpace ℝ B'] [FiniteDimensional ℝ A'] [FiniteDimensional ℝ B'] (S : E ≃L[ℝ] A × B) (S' : B ≃L[ℝ] A' × B')
    (f₁ : E → E) (f₂ : B → B) (f₃ : B' → B') (x : E)
    (D₁ : E →L[ℝ] E) (D₂ : B →L[ℝ] B) (D₃ : B' →L[ℝ] B') (l₁ l₂ l₃ : ℝ)
    (h₁ : HasFDerivAt f₁ D₁ x) (h₂ : HasFDerivAt f₂ D₂ (S (f₁ x)).2)
    (h₃ : HasFDerivAt f₃ D₃ (S' (f₂ (S (f₁ x)).2)).2)
    (d₁ : D₁.det ≠ 0) (d₂ : D₂.det ≠ 0) (d₃ : D₃.det ≠ 0)
    (e₁ : l₁ = Real.log |D₁.det|) (e₂ : l₂ = Real.log |D₂.det|) (e₃ : l₃ = Real.log |D₃.det|) :
    ∃ D : E →L[ℝ] E, HasFDerivAt (blockMap S (blockMap S' f₃ ∘ f₂) ∘ f₁) D x ∧ D.det ≠ 0 ∧
      l₁ + (l₂ + l₃) = Real.log |D.det| := by
  obtain ⟨D', g1, g2, g3⟩ := step_logdet_returned S' f₂ f₃ _ D₂ D₃ l₂ l₃ h₂ h₃ d₂ d₃ e₂ e₃
  exact step_logdet_returned S f₁ _ x D₁ D' l₁ (l₂ + l₃) h₁ g1 d₁ g2 e₁ g3

/-! ## the concrete splitting of a 1-D item of `c + h` coordinates: first `c` emitted, last `h` passed on -/

/-- `w ↦ (w[0..c), w[c..c+h))`, inverse `Fin.append` -/
def splitLin (c h : ℕ) : (Fin (c + h) → ℝ) ≃ₗ[ℝ] (Fin c → ℝ) × (Fin h → ℝ) where
  toFun w := (fun i => w (Fin.castAdd h i), fun j => w (Fin.natAdd c j))
  invFun p := Fin.append p.1 p.2
  map_add' _ _ := rfl
  map_smul' _ _ := rfl
  left_inv w := Fin.append_castAdd_natAdd
  right_inv p := by
    ext i
    · simp
    · simp

noncomputable def splitFin (c h : ℕ) : (Fin (c + h) → ℝ) ≃L[ℝ] (Fin c → ℝ) × (Fin h → ℝ) :=
  (splitLin c h).toContinuousLinearEquiv

/-- on row-major data: re-assembling is list concatenation (what `all_outputs` does with the emitted chunk and
    the rest) -/
theorem ofFn_splitFin_symm (c h : ℕ) (a : Fin c → ℝ) (b : Fin h → ℝ) :
    List.ofFn ((splitFin c h).symm (a, b)) = List.ofFn a ++ List.ofFn b :=
  List.ofFn_fin_append a b

/-- on row-major data: the two parts are the two chunks -/
theorem ofFn_splitFin (c h : ℕ) (w : Fin (c + h) → ℝ) :
    List.ofFn w = List.ofFn ((splitFin c h) w).1 ++ List.ofFn ((splitFin c h) w).2 := by
  rw [← ofFn_splitFin_symm]
  exact congrArg List.ofFn ((splitFin c h).symm_apply_apply w).symm

/-- the block map on row-major data: the emitted chunk untouched, followed by the rest's image -/
theorem ofFn_blockMap (c h : ℕ) (g : (Fin h → ℝ) → (Fin h → ℝ)) (w : Fin (c + h) → ℝ) :
    List.ofFn (blockMap (splitFin c h) g w) =
      List.ofFn ((splitFin c h) w).1 ++ List.ofFn (g ((splitFin c h) w).2) :=
  ofFn_splitFin_symm c h _ _

open NF.Wrap in
/-- the executed `torch.chunk` on a 1-D item IS the splitting `splitFin` (sizes `c = ⌈(c+h)/2⌉`, `h`) -/
theorem chunk2_splitFin (c h : ℕ) (hc : (c + h + 1) / 2 = c) (hne : c + h ≠ 1) (w : Fin (c + h) → ℝ) :
    chunk2 0 (⟨[c + h], List.ofFn w⟩ : Item ℝ) =
      .ok (⟨[c], List.ofFn ((splitFin c h) w).1⟩, ⟨[h], List.ofFn ((splitFin c h) w).2⟩) := by
  have h0 := chunk2_mid [] [] (c + h) hne (List.ofFn w)
  simp only [List.nil_append, List.length_nil] at h0
  rw [h0]
  have hp : NF.Wrap.prod ([] : List Nat) = 1 := rfl
  rw [hp, splitBlocks_1d (c + h) (List.ofFn w) (by simp), hc]
  have hh : (c + h) / 2 = h := by omega
  rw [hh]
  have e := ofFn_splitFin c h w
  have t1 : (List.ofFn w).take c = List.ofFn ((splitFin c h) w).1 := by
    rw [e]; simp
  have t2 : (List.ofFn w).drop c = List.ofFn ((splitFin c h) w).2 := by
    rw [e]; simp
  rw [t1, t2]

open NF.Wrap in
/-- **executed inductive step** (any number of remaining stages): if the first stage maps the item `x` to `f x`
    returning `l₁`, and the remaining stages, run on the passed-on chunk, produce `g (that chunk)` returning `l₂`,
    then the executed loop on `x` produces `(blockMap S g ∘ f) x` — emitted chunk untouched, rest through `g` — and
    returns `l₁ + l₂`. -/
theorem fwdStages_step {C : Type} (c h : ℕ) (hc : (c + h + 1) / 2 = c) (hne : c + h ≠ 1)
    (t t' : Tr (Item ℝ) C ℝ) (ts : List (Tr (Item ℝ) C ℝ)) (shs : List (List Nat)) (ctx : C)
    (x fx : Fin (c + h) → ℝ) (gy : Fin h → ℝ) (l₁ l₂ : ℝ)
    (e₁ : t.fwd ⟨[c + h], List.ofFn x⟩ ctx = .ok (⟨[c + h], List.ofFn fx⟩, l₁))
    (e₂ : fwdStages (LD.std ℝ) 0 (t' :: ts) shs ⟨[h], List.ofFn ((splitFin c h) fx).2⟩ [] (LD.std ℝ).zero ctx =
      .ok (List.ofFn gy, l₂)) :
    fwdStages (LD.std ℝ) 0 (t :: t' :: ts) ([c] :: shs) ⟨[c + h], List.ofFn x⟩ [] (LD.std ℝ).zero ctx =
      .ok (List.ofFn ((splitFin c h).symm (((splitFin c h) fx).1, gy)), l₁ + l₂) := by
  rw [fwdStages_cons (LD.std ℝ) (LD.std_lawful ℝ), e₁]
  simp only []
  rw [chunk2_splitFin c h hc hne fx]
  simp only [ne_eq, not_true_eq_false, if_false]
  rw [e₂, ofFn_splitFin_symm]
  rfl

section general
open NF.Wrap
variable {C : Type}

/-- stage `t`, on 1-D items of size `m`, IS the map `f`, differentiable at every point with invertible derivative,
    and RETURNS `ld v = log |det Df(v)|` (what the per-layer C01 theorems deliver, e.g. `LinearJacobian.PassIs`) -/
def StageJac (ctx : C) (t : Tr (Item ℝ) C ℝ) (m : ℕ) (f : (Fin m → ℝ) → (Fin m → ℝ)) (ld : (Fin m → ℝ) → ℝ) : Prop :=
  ∀ v, t.fwd ⟨[m], List.ofFn v⟩ ctx = .ok (⟨[m], List.ofFn (f v)⟩, ld v) ∧
    ∃ D : (Fin m → ℝ) →L[ℝ] (Fin m → ℝ), HasFDerivAt f D v ∧ D.det ≠ 0 ∧ ld v = Real.log |D.det|

/-- the executed loop over the stages `ts`, on 1-D items of size `m`, IS the map `F` and returns
    `LDt v = log |det DF(v)|` -/
def RunJac (ctx : C) (ts : List (Tr (Item ℝ) C ℝ)) (shs : List (List Nat)) (m : ℕ)
    (F : (Fin m → ℝ) → (Fin m → ℝ)) (LDt : (Fin m → ℝ) → ℝ) : Prop :=
  ∀ v, fwdStages (LD.std ℝ) 0 ts shs ⟨[m], List.ofFn v⟩ [] (LD.std ℝ).zero ctx = .ok (List.ofFn (F v), LDt v) ∧
    ∃ D : (Fin m → ℝ) →L[ℝ] (Fin m → ℝ), HasFDerivAt F D v ∧ D.det ≠ 0 ∧ LDt v = Real.log |D.det|

theorem run_single (ctx : C) (t : Tr (Item ℝ) C ℝ) (shs : List (List Nat)) (m : ℕ) (f ld)
    (h : StageJac ctx t m f ld) : RunJac ctx [t] shs m f ld := by
  intro v
  obtain ⟨e, hD⟩ := h v
  refine ⟨?_, hD⟩
  rw [fwdStages_single (LD.std ℝ) (LD.std_lawful ℝ), e]

/-- **the multiscale log-det is the sum and is the log-abs-det of the Jacobian — inductive step on the executed
    loop**: first stage `f` (returning `ld₁`), remaining stages `g` (returning `ld₂`) on the passed-on chunk. -/
theorem run_cons (ctx : C) (c h : ℕ) (hc : (c + h + 1) / 2 = c) (hne : c + h ≠ 1)
    (t t' : Tr (Item ℝ) C ℝ) (ts : List (Tr (Item ℝ) C ℝ)) (shs : List (List Nat)) (f ld₁ g ld₂)
    (h₁ : StageJac ctx t (c + h) f ld₁) (h₂ : RunJac ctx (t' :: ts) shs h g ld₂) :
    RunJac ctx (t :: t' :: ts) ([c] :: shs) (c + h) (blockMap (splitFin c h) g ∘ f)
      (fun v => ld₁ v + ld₂ ((splitFin c h) (f v)).2) := by
  intro v
  obtain ⟨e₁, D₁, d1, n1, l1⟩ := h₁ v
  obtain ⟨e₂, D₂, d2, n2, l2⟩ := h₂ ((splitFin c h) (f v)).2
  refine ⟨fwdStages_step c h hc hne t t' ts shs ctx v (f v) _ _ _ e₁ e₂, ?_⟩
  exact step_logdet_returned (splitFin c h) f g v D₁ D₂ _ _ d1 d2 n1 n2 l1 l2

/-- `k` stages on a 1-D item: the hypotheses, stage by stage (sizes `m`, then `⌊m/2⌋`, …; recorded shapes
    `[⌈m/2⌉]`, …), together with the map they define — `Φ ∘ f₁` where `Φ = id × (rest)` is the block map on
    (emitted chunk, passed-on chunk) — and the SUM of the returned log-dets along the trajectory. -/
inductive StagesJac (ctx : C) : List (Tr (Item ℝ) C ℝ) → List (List Nat) → (m : ℕ) →
    ((Fin m → ℝ) → (Fin m → ℝ)) → ((Fin m → ℝ) → ℝ) → Prop
  | single (t : Tr (Item ℝ) C ℝ) (shs : List (List Nat)) (m : ℕ) (f ld) :
      StageJac ctx t m f ld → StagesJac ctx [t] shs m f ld
  | cons (c h : ℕ) (hc : (c + h + 1) / 2 = c) (hne : c + h ≠ 1) (t t' : Tr (Item ℝ) C ℝ)
      (ts : List (Tr (Item ℝ) C ℝ)) (shs : List (List Nat)) (f ld g ld₂) :
      StageJac ctx t (c + h) f ld → StagesJac ctx (t' :: ts) shs h g ld₂ →
      StagesJac ctx (t :: t' :: ts) ([c] :: shs) (c + h) (blockMap (splitFin c h) g ∘ f)
        (fun v => ld v + ld₂ ((splitFin c h) (f v)).2)

/-- **any number of stages**: the executed loop is the composed map and the log-det it returns — the sum of the
    stages' log-dets — is the log-abs-det of that map's Fréchet derivative. -/
theorem stages_logdet_is_jacobian (ctx : C) (ts : List (Tr (Item ℝ) C ℝ)) (shs : List (List Nat)) (m : ℕ) (F LDt)
    (h : StagesJac ctx ts shs m F LDt) : RunJac ctx ts shs m F LDt := by
  induction h with
  | single t shs m f ld hs => exact run_single ctx t shs m f ld hs
  | cons c h hc hne t t' ts shs f ld g ld₂ hs _ ih =>
    exact run_cons ctx c h hc hne t t' ts shs f ld g ld₂ hs ih

/-- **C01 for the multiscale wrapper** (1-D items, `split_dim = 1`, any number of stages), on the object:
    `MultiscaleCompositeTransform.forward` returns `F v` (the composition of the block maps) and `LDt v` (the sum of
    the stages' returned log-dets), and `LDt v = log |det DF(v)|`. -/
theorem multiscale_logdet_is_sum_and_jacobian (ctx : C) (ts : List (Tr (Item ℝ) C ℝ)) (shs : List (List Nat))
    (m : ℕ) (F LDt) (h : StagesJac ctx ts shs m F LDt) (v : Fin m → ℝ) :
      (⟨(ts.length : Int), 1, ts, shs⟩ : MS ℝ C ℝ).forward (LD.std ℝ) ⟨[m], List.ofFn v⟩ ctx =
        .ok (⟨[m], List.ofFn (F v)⟩, LDt v) ∧
      ∃ D : (Fin m → ℝ) →L[ℝ] (Fin m → ℝ), HasFDerivAt F D v ∧ D.det ≠ 0 ∧ LDt v = Real.log |D.det| := by
  have hr := stages_logdet_is_jacobian ctx ts shs m F LDt h
  refine ⟨?_, (hr v).2⟩
  have e := (hr v).1
  simp only [LD.std_zero] at e
  simp [MS.forward, e]

/-- **two stages, every `n = c + h`** (`c = ⌈n/2⌉`, `h = ⌊n/2⌋`), fully explicit -/
theorem two_stage_logdet (ctx : C) (c h : ℕ) (hc : (c + h + 1) / 2 = c) (hne : c + h ≠ 1)
    (t₁ t₂ : Tr (Item ℝ) C ℝ) (f₁ ld₁ f₂ ld₂)
    (h₁ : StageJac ctx t₁ (c + h) f₁ ld₁) (h₂ : StageJac ctx t₂ h f₂ ld₂) (v : Fin (c + h) → ℝ) :
      (⟨2, 1, [t₁, t₂], [[c], [h]]⟩ : MS ℝ C ℝ).forward (LD.std ℝ) ⟨[c + h], List.ofFn v⟩ ctx =
        .ok (⟨[c + h], List.ofFn ((splitFin c h) (f₁ v)).1 ++ List.ofFn (f₂ ((splitFin c h) (f₁ v)).2)⟩,
             ld₁ v + ld₂ ((splitFin c h) (f₁ v)).2) ∧
      ∃ D : (Fin (c + h) → ℝ) →L[ℝ] (Fin (c + h) → ℝ),
        HasFDerivAt (blockMap (splitFin c h) f₂ ∘ f₁) D v ∧ D.det ≠ 0 ∧
        ld₁ v + ld₂ ((splitFin c h) (f₁ v)).2 = Real.log |D.det| := by
  have := multiscale_logdet_is_sum_and_jacobian ctx [t₁, t₂] [[c], [h]] (c + h) _ _
    (StagesJac.cons c h hc hne t₁ t₂ [] [[h]] f₁ ld₁ f₂ ld₂ h₁ (StagesJac.single t₂ [[h]] h f₂ ld₂ h₂)) v
  rw [← ofFn_blockMap]
  exact this

/-- the object of `two_stage_logdet` IS what the documented construction returns
    (`MultiscaleCompositeTransform(2, split_dim=1)`, `add_transform` twice), for every `n = c + h ≥ 4` -/
theorem two_stage_built (c h : ℕ) (hc : (c + h + 1) / 2 = c) (h4 : 4 ≤ c + h) (t₁ t₂ : Tr (Item ℝ) C ℝ) :
    MS.build 2 (.int 1) [t₁, t₂] [c + h] = .ok (⟨2, 1, [t₁, t₂], [[c], [h]]⟩ : MS ℝ C ℝ) := by
  have hh : (c + h) / 2 = h := by omega
  have := build_ok (α := ℝ) (C := C) (L := ℝ) [] [] [t₁, t₂] (c + h) (by simp) (by simpa using h4)
  simpa [outShapes, hc, hh] using this

/-! ### the same on a domain `U` (stages that are only defined / differentiable on part of the space) -/

/-- `StageJac` restricted to inputs in `U` -/
def StageJacOn (ctx : C) (t : Tr (Item ℝ) C ℝ) (m : ℕ) (f : (Fin m → ℝ) → (Fin m → ℝ)) (ld : (Fin m → ℝ) → ℝ)
    (U : Set (Fin m → ℝ)) : Prop :=
  ∀ v ∈ U, t.fwd ⟨[m], List.ofFn v⟩ ctx = .ok (⟨[m], List.ofFn (f v)⟩, ld v) ∧
    ∃ D : (Fin m → ℝ) →L[ℝ] (Fin m → ℝ), HasFDerivAt f D v ∧ D.det ≠ 0 ∧ ld v = Real.log |D.det|

/-- `RunJac` restricted to inputs in `U` -/
def RunJacOn (ctx : C) (ts : List (Tr (Item ℝ) C ℝ)) (shs : List (List Nat)) (m : ℕ)
    (F : (Fin m → ℝ) → (Fin m → ℝ)) (LDt : (Fin m → ℝ) → ℝ) (U : Set (Fin m → ℝ)) : Prop :=
  ∀ v ∈ U, fwdStages (LD.std ℝ) 0 ts shs ⟨[m], List.ofFn v⟩ [] (LD.std ℝ).zero ctx = .ok (List.ofFn (F v), LDt v) ∧
    ∃ D : (Fin m → ℝ) →L[ℝ] (Fin m → ℝ), HasFDerivAt F D v ∧ D.det ≠ 0 ∧ LDt v = Real.log |D.det|

theorem run_single_on (ctx : C) (t : Tr (Item ℝ) C ℝ) (shs : List (List Nat)) (m : ℕ) (f ld U)
    (h : StageJacOn ctx t m f ld U) : RunJacOn ctx [t] shs m f ld U := by
  intro v hv
  obtain ⟨e, hD⟩ := h v hv
  refine ⟨?_, hD⟩
  rw [fwdStages_single (LD.std ℝ) (LD.std_lawful ℝ), e]

/-- inductive step on domains: the first stage must send `U` into the inputs whose passed-on chunk lies in the
    domain `U'` of the remaining stages -/
theorem run_cons_on (ctx : C) (c h : ℕ) (hc : (c + h + 1) / 2 = c) (hne : c + h ≠ 1)
    (t t' : Tr (Item ℝ) C ℝ) (ts : List (Tr (Item ℝ) C ℝ)) (shs : List (List Nat)) (f ld₁ g ld₂ U U')
    (h₁ : StageJacOn ctx t (c + h) f ld₁ U) (h₂ : RunJacOn ctx (t' :: ts) shs h g ld₂ U')
    (hmap : ∀ v ∈ U, ((splitFin c h) (f v)).2 ∈ U') :
    RunJacOn ctx (t :: t' :: ts) ([c] :: shs) (c + h) (blockMap (splitFin c h) g ∘ f)
      (fun v => ld₁ v + ld₂ ((splitFin c h) (f v)).2) U := by
  intro v hv
  obtain ⟨e₁, D₁, d1, n1, l1⟩ := h₁ v hv
  obtain ⟨e₂, D₂, d2, n2, l2⟩ := h₂ ((splitFin c h) (f v)).2 (hmap v hv)
  refine ⟨fwdStages_step c h hc hne t t' ts shs ctx v (f v) _ _ _ e₁ e₂, ?_⟩
  exact step_logdet_returned (splitFin c h) f g v D₁ D₂ _ _ d1 d2 n1 n2 l1 l2

/-- from the loop to the object's `forward` (`split_dim = 1`) -/
theorem forward_of_runOn (ctx : C) (ts : List (Tr (Item ℝ) C ℝ)) (shs : List (List Nat)) (m : ℕ) (F LDt U)
    (hr : RunJacOn ctx ts shs m F LDt U) (v : Fin m → ℝ) (hv : v ∈ U) :
      (⟨(ts.length : Int), 1, ts, shs⟩ : MS ℝ C ℝ).forward (LD.std ℝ) ⟨[m], List.ofFn v⟩ ctx =
        .ok (⟨[m], List.ofFn (F v)⟩, LDt v) ∧
      ∃ D : (Fin m → ℝ) →L[ℝ] (Fin m → ℝ), HasFDerivAt F D v ∧ D.det ≠ 0 ∧ LDt v = Real.log |D.det| := by
  refine ⟨?_, (hr v hv).2⟩
  have e := (hr v hv).1
  simp only [LD.std_zero] at e
  simp [MS.forward, e]

end general

/-! ## a concrete instance: `n = 4`, two affine stages with explicit numbers -/
section example_
open NF.Wrap

/-- an affine stage `y = a·x + b` (coordinatewise), returning `len · log |a|` -/
noncomputable def affStage (a b : ℝ) : Tr (Item ℝ) Unit ℝ :=
  ⟨fun x _ => .ok (⟨x.shape, x.data.map (fun u => a * u + b)⟩, (x.data.length : ℝ) * Real.log |a|),
   fun x _ => .ok (x, 0)⟩

theorem affStage_jac (a b : ℝ) (ha : a ≠ 0) (m : ℕ) :
    StageJac () (affStage a b) m (fun v i => a * v i + b) (fun _ => (m : ℝ) * Real.log |a|) := by
  intro v
  refine ⟨by simp [affStage, List.map_ofFn, Function.comp_def], a • ContinuousLinearMap.id ℝ (Fin m → ℝ), ?_, ?_, ?_⟩
  · have h := ((hasFDerivAt_id v : HasFDerivAt (𝕜 := ℝ) id (ContinuousLinearMap.id ℝ (Fin m → ℝ)) v).const_smul a).add_const (fun _ : Fin m => b)
    have hfun : (fun (v : Fin m → ℝ) i => a * v i + b) = fun x => (a • id) x + fun _ => b := by
      funext x i; simp
    rw [hfun]; exact h
  · have : (a • ContinuousLinearMap.id ℝ (Fin m → ℝ)).det = a ^ m := by
      unfold ContinuousLinearMap.det
      rw [ContinuousLinearMap.toLinearMap_smul, LinearMap.det_smul]
      simp
    rw [this]; exact pow_ne_zero _ ha
  · have : (a • ContinuousLinearMap.id ℝ (Fin m → ℝ)).det = a ^ m := by
      unfold ContinuousLinearMap.det
      rw [ContinuousLinearMap.toLinearMap_smul, LinearMap.det_smul]
      simp
    rw [this, abs_pow, Real.log_pow]

/-- `n = 4`: stage 1 is `x ↦ 2x + 1` on 4 coordinates, stage 2 is `x ↦ 3x − 1` on the 2 passed-on ones; the
    executed wrapper returns `4·log 2 + 2·log 3`, the log-abs-det of the Jacobian of the map it computes. -/
example (v : Fin (2 + 2) → ℝ) :
    ∃ y, (⟨2, 1, [affStage 2 1, affStage 3 (-1)], [[2], [2]]⟩ : MS ℝ Unit ℝ).forward (LD.std ℝ)
        ⟨[2 + 2], List.ofFn v⟩ () = .ok (⟨[2 + 2], y⟩, (4 : ℝ) * Real.log 2 + 2 * Real.log 3) ∧
      ∃ D : (Fin (2 + 2) → ℝ) →L[ℝ] (Fin (2 + 2) → ℝ),
        HasFDerivAt (blockMap (splitFin 2 2) (fun w i => 3 * w i + (-1)) ∘ (fun w i => 2 * w i + 1)) D v ∧
          D.det ≠ 0 ∧ (4 : ℝ) * Real.log 2 + 2 * Real.log 3 = Real.log |D.det| := by
  obtain ⟨e, D, h1, h2, h3⟩ := two_stage_logdet () 2 2 (by norm_num) (by norm_num) (affStage 2 1) (affStage 3 (-1))
    _ _ _ _ (affStage_jac 2 1 (by norm_num) (2 + 2)) (affStage_jac 3 (-1) (by norm_num) 2) v
  have e2 : |(2 : ℝ)| = 2 := abs_of_pos (by norm_num)
  have e3 : |(3 : ℝ)| = 3 := abs_of_pos (by norm_num)
  simp only [e2, e3] at e h3
  have hs : ((2 + 2 : ℕ) : ℝ) * Real.log 2 + ((2 : ℕ) : ℝ) * Real.log 3 = 4 * Real.log 2 + 2 * Real.log 3 := by
    push_cast; ring
  rw [hs] at e h3
  exact ⟨_, e, D, h1, h2, h3⟩

end example_

end MultiscaleJacobian

