import NflowsModel.Lemmas.DualXSpline
import NflowsModel.Lemmas.QuadWhole
/-!
# Lemmas/DualXQuad — the EXECUTED piecewise-quadratic spline (forward) run on dual numbers (C16)

* `hom_pairMeans`, `hom_zipMul`, `hom_cstOf`, `hom_padU`: the remaining list stages of `quadSpline` (pair means, trapezium
  areas, the tails padding constant and the monadic padding step) commute with any `DualX.XHom`;
* `evalD_curve`: forward-mode soundness of `Expr` terms along an arbitrary differentiable curve of environments
  (generalises `DualSound.evalDual_sound`, which is the case of a straight line);
* `quadRest_dual_exec`: the dual second stage (area, floored heights, trapezium areas, cumsums, pinned knots, search,
  gathers) on zero-tangent parameters selects the same bin as the real program and evaluates that bin's two terms on
  `[x', ι loc, ι w, ι lcdf, ι hl, ι hr]`;
* `bin_mem_unit_open`: strictly inside a bin the cdf value is strictly inside `(0,1)`, so `clamp 0 1` is not at a tie
  (derived, not assumed);
* `quadSpline_dual` (bounded shape, `uh` has `K+1` entries) and `quadSpline_dual_T` (tails shape, `K-1` entries):
  `quadSpline (dualX (NF.realX e)) c (uw.map ι) (uh.map ι) false (x, 1)` returns `((val x, exp (ld x)), (ld x, l'))` for `x`
  strictly inside a bin, where `val`, `ld` are the outputs of the real program (`QuadWhole.val`, `QuadWhole.ld`),
  `exp (ld x)` IS the derivative of `val` at `x` and `l'` the derivative of `ld`;
* `quadSpline_dualRes`, `quadSpline_dualRes_T`: the same in the `DualRes` form, without the hypothesis on the reading of the
  `Float` constant `boxLog` (that hypothesis is needed only to identify the value tangent with `exp (ld x)`).
-/
open NF DualSound DualX Filter Topology

namespace DualXQuad

/-! ### more list programs commute with any homomorphism of `XOps` -/
section hom
variable {α β : Type} {o₁ : XOps α} {o₂ : XOps β} {φ : α → β} (h : XHom o₁ o₂ φ)
include h

theorem hom_two : φ o₁.two = o₂.two := h.ofRat 2 1

theorem hom_pairMeans : ∀ l : List α, (pairMeans o₁ l).map φ = pairMeans o₂ (l.map φ)
  | [] => rfl
  | [_] => rfl
  | a :: b :: r => by
    have := hom_pairMeans (b :: r)
    simp only [List.map_cons] at this
    simp only [NF.pairMeans, List.map_cons, h.div, h.add, hom_two h, this]

theorem hom_zipMul : ∀ a b : List α,
    (List.zipWith o₁.mul a b).map φ = List.zipWith o₂.mul (a.map φ) (b.map φ)
  | [], _ => by simp
  | _ :: _, [] => by simp
  | x :: a, y :: b => by
    simp only [List.zipWith_cons_cons, List.map_cons, h.mul, hom_zipMul a b]

theorem hom_cstOf (W U : List α) (K : ℕ) (w0 wl u0 ul : α) :
    φ (QuadWhole.cstOf o₁ W U K w0 wl u0 ul)
      = QuadWhole.cstOf o₂ (W.map φ) (U.map φ) K (φ w0) (φ wl) (φ u0) (φ ul) := by
  unfold QuadWhole.cstOf
  simp only [h.div, h.add, h.sub, h.mul, h.one, h.ofFloat, h.sumG, hom_zipMul h, hom_pairMeans h, List.map_take,
    List.map_drop]

/-- the (optional) tails padding step commutes with any homomorphism -/
theorem hom_padU (W U : List α) (K : ℕ) (U' : List α) (hp : QuadWhole.padU o₁ W U K = .ok U') :
    QuadWhole.padU o₂ (W.map φ) (U.map φ) K = .ok (U'.map φ) := by
  unfold QuadWhole.padU at hp ⊢
  rw [List.length_map]
  split_ifs at hp ⊢ with hb
  · rcases h1 : getI W 0 with err | w0
    · rw [h1] at hp; cases hp
    rcases h2 : getI W (↑K - 1) with err | wl
    · rw [h1, h2] at hp; cases hp
    rcases h3 : getI U 0 with err | u0
    · rw [h1, h2, h3] at hp; cases hp
    rcases h4 : getI U (Int.ofNat U.length - 1) with err | ul
    · rw [h1, h2, h3, h4] at hp; cases hp
    rw [h1, h2, h3, h4] at hp
    rw [XHom.getI_ok (φ := φ) _ _ _ h1, XHom.getI_ok (φ := φ) _ _ _ h2, XHom.getI_ok (φ := φ) _ _ _ h3,
      XHom.getI_ok (φ := φ) _ _ _ h4]
    have hp' : QuadWhole.cstOf o₁ W U K w0 wl u0 ul :: (U ++ [QuadWhole.cstOf o₁ W U K w0 wl u0 ul]) = U' := by
      injection hp
    rw [← hp']
    simp only [List.map_cons, List.map_append, List.map_nil, hom_cstOf h]
    rfl
  · have : U = U' := by injection hp
    rw [this]; rfl

end hom

noncomputable section
variable (e : Float → ℝ)

/-! ### forward-mode soundness of `Expr` terms along an arbitrary differentiable curve of environments -/

/-- if every entry of the dual environment `d` is the (value, derivative) pair of the corresponding entry of a curve of
    real environments `s ↦ (i ↦ f i s)` at `t`, then the dual evaluation of `E` is the (value, derivative) pair of
    `s ↦ evalR (f · s) E` at `t` (under the smoothness side conditions of `E` at the base point) -/
theorem evalD_curve (f : ℕ → ℝ → ℝ) (d : ℕ → ℝ × ℝ) (t : ℝ) (hd : ∀ i, IsDual (f i) t (d i)) (E : Expr)
    (hs : Smooth (fun i => f i t) E) : IsDual (fun s => evalR (fun i => f i s) E) t (evalD d E) := by
  induction E with
  | var i => exact hd i
  | lit n dd =>
    refine ⟨rfl, ?_⟩
    simp only [evalR_lit, evalD_lit]
    simpa using hasDerivAt_const t ((n:ℝ)/(dd:ℝ))
  | add a b iha ihb =>
    obtain ⟨ha, hb⟩ := hs
    have va : (evalD d a).1 = evalR (fun i => f i t) a := (iha ha).1
    have vb : (evalD d b).1 = evalR (fun i => f i t) b := (ihb hb).1
    have da := (iha ha).2; have db := (ihb hb).2
    refine ⟨?_, ?_⟩
    · simp only [evalR_add, evalD_add]; rw [va, vb]
    · simp only [evalR_add, evalD_add]; exact da.add db
  | sub a b iha ihb =>
    obtain ⟨ha, hb⟩ := hs
    have va : (evalD d a).1 = evalR (fun i => f i t) a := (iha ha).1
    have vb : (evalD d b).1 = evalR (fun i => f i t) b := (ihb hb).1
    have da := (iha ha).2; have db := (ihb hb).2
    refine ⟨?_, ?_⟩
    · simp only [evalR_sub, evalD_sub]; rw [va, vb]
    · simp only [evalR_sub, evalD_sub]; exact da.sub db
  | mul a b iha ihb =>
    obtain ⟨ha, hb⟩ := hs
    have va : (evalD d a).1 = evalR (fun i => f i t) a := (iha ha).1
    have vb : (evalD d b).1 = evalR (fun i => f i t) b := (ihb hb).1
    have da := (iha ha).2; have db := (ihb hb).2
    refine ⟨?_, ?_⟩
    · simp only [evalR_mul, evalD_mul]; rw [va, vb]
    · simp only [evalR_mul, evalD_mul]
      rw [va, vb]; exact da.mul db
  | div a b iha ihb =>
    obtain ⟨ha, hb, hne⟩ := hs
    have va : (evalD d a).1 = evalR (fun i => f i t) a := (iha ha).1
    have vb : (evalD d b).1 = evalR (fun i => f i t) b := (ihb hb).1
    have da := (iha ha).2; have db := (ihb hb).2
    refine ⟨?_, ?_⟩
    · simp only [evalR_div, evalD_div]; rw [va, vb]
    · simp only [evalR_div, evalD_div]
      rw [va, vb]
      exact (da.div db hne).congr_deriv (by rw [sq])
  | neg a iha =>
    have va : (evalD d a).1 = evalR (fun i => f i t) a := (iha hs).1
    have da := (iha hs).2
    refine ⟨?_, ?_⟩
    · simp only [evalR_neg, evalD_neg]; rw [va]
    · simp only [evalR_neg, evalD_neg]; exact da.neg
  | exp a iha =>
    have va : (evalD d a).1 = evalR (fun i => f i t) a := (iha hs).1
    have da := (iha hs).2
    refine ⟨?_, ?_⟩
    · simp only [evalR_exp, evalD_exp]; rw [va]
    · simp only [evalR_exp, evalD_exp]
      rw [va, mul_comm]; exact da.exp
  | log a iha =>
    obtain ⟨ha, hne⟩ := hs
    have va : (evalD d a).1 = evalR (fun i => f i t) a := (iha ha).1
    have da := (iha ha).2
    refine ⟨?_, ?_⟩
    · simp only [evalR_log, evalD_log]; rw [va]
    · simp only [evalR_log, evalD_log]
      rw [va]; exact da.log hne
  | sqrt a iha =>
    obtain ⟨ha, hne⟩ := hs
    have va : (evalD d a).1 = evalR (fun i => f i t) a := (iha ha).1
    have da := (iha ha).2
    refine ⟨?_, ?_⟩
    · simp only [evalR_sqrt, evalD_sqrt]; rw [va]
    · simp only [evalR_sqrt, evalD_sqrt]
      rw [va]
      exact (da.sqrt hne).congr_deriv (by norm_num)
  | ifLt a b u v iha ihb ihu ihv =>
    obtain ⟨ha, hb, hne, hsu, hsv⟩ := hs
    have va : (evalD d a).1 = evalR (fun i => f i t) a := (iha ha).1
    have vb : (evalD d b).1 = evalR (fun i => f i t) b := (ihb hb).1
    have hca : ContinuousAt (fun s => evalR (fun i => f i s) a) t := (iha ha).2.continuousAt
    have hcb : ContinuousAt (fun s => evalR (fun i => f i s) b) t := (ihb hb).2.continuousAt
    rw [evalD_ifLt, va, vb]
    by_cases hlt : evalR (fun i => f i t) a < evalR (fun i => f i t) b
    · rw [if_pos hlt]
      refine (ihu (hsu hlt)).congr ?_
      have := (hca.prodMk hcb).eventually (isOpen_lt continuous_fst continuous_snd |>.mem_nhds hlt)
      filter_upwards [this] with s hs'
      rw [evalR_ifLt]; simp only [if_pos hs']
    · rw [if_neg hlt]
      refine (ihv (hsv hlt)).congr ?_
      have hgt : evalR (fun i => f i t) b < evalR (fun i => f i t) a := lt_of_le_of_ne (not_lt.mp hlt) (Ne.symm hne)
      have := (hcb.prodMk hca).eventually (isOpen_lt continuous_fst continuous_snd |>.mem_nhds hgt)
      filter_upwards [this] with s hs'
      rw [evalR_ifLt]; simp only [if_neg (not_lt.mpr hs'.le)]

/-- the per-bin terms of the quadratic spline evaluated on `[x', ι a₁, …, ι a₅]`, where `x'` is the dual of any
    differentiable `g` at `x` -/
theorem qEnv_isDual {g : ℝ → ℝ} {x : ℝ} {x' : ℝ × ℝ} (hx : IsDual g x x') (a1 a2 a3 a4 a5 : ℝ) (E : Expr)
    (hs : Smooth (Bridge.qEnv (g x) a1 a2 a3 a4 a5) E) :
    IsDual (fun z => evalR (Bridge.qEnv (g z) a1 a2 a3 a4 a5) E) x
      (evalX (dualX (NF.realX e)) [x', ι a1, ι a2, ι a3, ι a4, ι a5] E) := by
  have key := evalD_curve (fun i z => Bridge.qEnv (g z) a1 a2 a3 a4 a5 i)
    (envOf [x', ι a1, ι a2, ι a3, ι a4, ι a5] (dualX (NF.realX e)).zero) x ?_ E hs
  · exact key
  · intro i
    rcases i with _|_|_|_|_|_|i
    · exact hx
    · exact IsDual.const a1 x
    · exact IsDual.const a2 x
    · exact IsDual.const a3 x
    · exact IsDual.const a4 x
    · exact IsDual.const a5 x
    · have h1 : envOf [x', ι a1, ι a2, ι a3, ι a4, ι a5] (dualX (NF.realX e)).zero (i + 6) = (0, 0) := by
        simp [envOf, d_zero]
      have h2 : ∀ z, Bridge.qEnv (g z) a1 a2 a3 a4 a5 (i + 6) = 0 := by
        intro z; simp [Bridge.qEnv, envOf]
      rw [h1]
      simp only [h2]
      exact IsDual.const 0 x

theorem quadFwd_smooth {t l w b hl hr : ℝ} (hw : w ≠ 0) : Smooth (Bridge.qEnv t l w b hl hr) quadFwdE := by
  simp only [quadFwdE, NF.v, Expr.add_def, Expr.sub_def, Expr.mul_def, Expr.div_def, Smooth, evalR_var, true_and, and_true]
  simpa [Bridge.qEnv, envOf] using hw

theorem quadLd_smooth {t l w b hl hr : ℝ} (hw : w ≠ 0) (hp : Quad.pdf hl hr ((t - l) / w) ≠ 0) :
    Smooth (Bridge.qEnv t l w b hl hr) quadFwdLdE := by
  simp only [quadFwdLdE, NF.v, Expr.add_def, Expr.sub_def, Expr.mul_def, Expr.div_def, Smooth, evalR_var, true_and,
    and_true]
  refine ⟨by simpa [Bridge.qEnv, envOf] using hw, ?_⟩
  simpa [Bridge.qEnv, envOf, Quad.pdf] using hp

/-! ### the second stage `quadRest` on dual numbers -/

open QuadWhole

/-- dual environment of bin `k`: the dual normalised input and the zero-tangent gathered parameters -/
def envD (c : QCfg) (Wd U : List ℝ) (k : ℕ) (x' : ℝ × ℝ) : List (ℝ × ℝ) :=
  [x', ι (lc e Wd k), ι (wd Wd k), ι (bl e c Wd U k), ι (ht e c Wd U k), ι (ht e c Wd U (k+1))]

/-- the two outputs the dual program forms from the per-bin environment (clamp, rescale to the box, `+ boxLog`) -/
def yD (c : QCfg) (env : List (ℝ × ℝ)) : ℝ × ℝ :=
  (dualX (NF.realX e)).add ((dualX (NF.realX e)).mul
    ((dualX (NF.realX e)).clamp (dualX (NF.realX e)).zero (dualX (NF.realX e)).one (evalX (dualX (NF.realX e)) env quadFwdE))
    ((dualX (NF.realX e)).ofFloat (c.box.top - c.box.bottom))) ((dualX (NF.realX e)).ofFloat c.box.bottom)
def lD (c : QCfg) (env : List (ℝ × ℝ)) : ℝ × ℝ :=
  (dualX (NF.realX e)).add (evalX (dualX (NF.realX e)) env quadFwdLdE) ((dualX (NF.realX e)).ofFloat (boxLog c.box))

variable {e}
variable {c : QCfg} {Wd U : List ℝ}

/-- **the dual second stage selects the same bin and evaluates that bin's terms on dual numbers** (area, floored
    heights, trapezium areas, cumsums, pinned knots, search, gathers: all act on / keep zero tangents) -/
theorem quadRest_dual_exec (hv : CoreValid e c Wd U) (x' : ℝ × ℝ) (ht0 : 0 ≤ x'.1) (ht1 : x'.1 ≤ 1) :
    quadRest (dualX (NF.realX e)) c (Wd.map ι) (U.map ι) x'
      = .ok (yD e c (envD e c Wd U (idxN e c Wd x'.1) x'), lD e c (envD e c Wd U (idxN e c Wd x'.1) x')) := by
  obtain ⟨hspec, hsearch⟩ := search_spec hv
  obtain ⟨hiK, _, _⟩ := hspec x'.1 (by rw [lc_zero hv]; exact ht0) (by rw [lc_last hv]; exact ht1)
  set i := idxN e c Wd x'.1 with hi
  have hL := lift_hom e
  have hloclen := (locs_facts hv).1
  have hblclen := (blc_facts hv).1
  have hhtslen := hts_length hv
  have h2 : sumG (dualX (NF.realX e)) (List.zipWith (dualX (NF.realX e)).mul
      (pairMeans (dualX (NF.realX e)) (U.map ι)) (Wd.map ι)) = ι (area e Wd U) := by
    rw [← hom_pairMeans hL, ← hom_zipMul hL, ← hL.sumG]; rfl
  have h3 : (U.map ι).map (fun u => (dualX (NF.realX e)).add ((dualX (NF.realX e)).ofFloat c.minH)
      ((dualX (NF.realX e)).mul ((dualX (NF.realX e)).ofFloat (1 - c.minH)) ((dualX (NF.realX e)).div u (ι (area e Wd U)))))
      = (hts e c Wd U).map ι := by
    unfold hts
    rw [List.map_map, List.map_map]
    apply List.map_congr_left
    intro u _
    simp only [Function.comp, hL.add, hL.mul, hL.div, hL.ofFloat]
  have h4 : (dualX (NF.realX e)).zero :: setLast (cumsumG (dualX (NF.realX e)) (List.zipWith (dualX (NF.realX e)).mul
      (pairMeans (dualX (NF.realX e)) ((hts e c Wd U).map ι)) (Wd.map ι))) (dualX (NF.realX e)).one
      = (blc e c Wd U).map ι := by
    unfold blc ars
    rw [List.map_cons, XHom.setLast, hL.cumsumG, hom_zipMul hL, hom_pairMeans hL, hL.zero, hL.one]
  have h1 : (dualX (NF.realX e)).zero :: setLast (cumsumG (dualX (NF.realX e)) (Wd.map ι)) (dualX (NF.realX e)).one
      = (locs e Wd).map ι := by
    unfold locs
    rw [List.map_cons, XHom.setLast, hL.cumsumG, hL.zero, hL.one]
  have hs : searchsortedG (dualX (NF.realX e)) c.eps ((locs e Wd).map ι) x' = ((i : ℕ) : Int) := by
    rw [(fst_hom e).searchsortedG, List.map_map, fst_ι, List.map_id]
    exact hsearch x'.1 ht0 ht1
  have hi1 : ((i : Int) + 1) = ((i + 1 : ℕ) : Int) := by push_cast; rfl
  unfold quadRest
  simp only [h2, h3, h4, h1, hs]
  rw [XHom.getI_ok (φ := ι) _ _ _ (SplineTotal.getI_ok (locs e Wd) i (by omega)),
    XHom.getI_ok (φ := ι) _ _ _ (SplineTotal.getI_ok Wd i hiK),
    XHom.getI_ok (φ := ι) _ _ _ (SplineTotal.getI_ok (blc e c Wd U) i (by omega)),
    XHom.getI_ok (φ := ι) _ _ _ (SplineTotal.getI_ok (hts e c Wd U) i (by omega)),
    hi1, XHom.getI_ok (φ := ι) _ _ _ (SplineTotal.getI_ok (hts e c Wd U) (i + 1) (by omega))]
  simp only [QuadWhole.getElem_eq_getD]
  rfl

/-! ### per-bin soundness, with the clamp / rescale / `+ boxLog` post-processing -/

theorem nx_mem_box (hb : BoxValid e c) (z : ℝ) (h0 : 0 ≤ nx e c z) (h1 : nx e c z ≤ 1) :
    e c.box.left ≤ z ∧ z ≤ e c.box.right := by
  have hD : 0 < e c.box.right - e c.box.left := sub_pos.mpr hb.hlr
  unfold nx at h0 h1
  rw [le_div_iff₀ hD] at h0
  rw [div_le_iff₀ hD] at h1
  constructor <;> linarith

/-- strictly inside bin `k` the bin's cdf value is strictly inside `(0,1)`: **the `clamp 0 1` is not at a tie** -/
theorem bin_mem_unit_open (hv : CoreValid e c Wd U) (k : ℕ) (hk : k < Wd.length) (t : ℝ)
    (h0 : lc e Wd k < t) (h1 : t < lc e Wd (k+1)) : 0 < binN e c Wd U k t ∧ binN e c Wd U k t < 1 := by
  have hm := bin_strictMonoOn hv k hk
  have hlk := (lc_strict hv k hk).le
  obtain ⟨he0, he1⟩ := bin_endpoints hv k hk
  have hbm := ExecGlue.knots_mono (bl e c Wd U) Wd.length (bl_strict hv)
  have hb0 : 0 ≤ bl e c Wd U k := by rw [← bl_zero hv]; exact hbm 0 k (Nat.zero_le _) hk.le
  have hb1 : bl e c Wd U (k+1) ≤ 1 := by rw [← bl_last hv]; exact hbm (k+1) Wd.length hk le_rfl
  constructor
  · have := hm ⟨le_rfl, hlk⟩ ⟨h0.le, h1.le⟩ h0
    rw [he0] at this; linarith
  · have := hm ⟨h0.le, h1.le⟩ ⟨hlk, le_rfl⟩ h1
    rw [he1] at this; linarith

/-- per-bin soundness: for `x` whose normalised image is strictly inside bin `k`, and ANY dual `x'` of the normalisation
    `nx` at `x`, the two dual outputs are the (value, derivative) pairs of the bin's two closed forms composed with `nx` -/
theorem bin_dual (hv : CoreValid e c Wd U) (hb : BoxValid e c) (k : ℕ) (hk : k < Wd.length) (x : ℝ)
    (h0 : lc e Wd k < nx e c x) (h1 : nx e c x < lc e Wd (k+1)) {x' : ℝ × ℝ} (hx : IsDual (nx e c) x x') :
    IsDual (fun z => binN e c Wd U k (nx e c z) * (e c.box.top - e c.box.bottom) + e c.box.bottom) x
        (yD e c (envD e c Wd U k x')) ∧
    IsDual (fun z => binLdN e c Wd U k (nx e c z) + e (boxLog c.box)) x (lD e c (envD e c Wd U k x')) := by
  have hw := wd_pos hv k hk
  have hstep := lc_step hv k hk
  have hY0 : IsDual (fun z => binN e c Wd U k (nx e c z)) x (evalX (dualX (NF.realX e)) (envD e c Wd U k x') quadFwdE) :=
    qEnv_isDual e hx _ _ _ _ _ quadFwdE (quadFwd_smooth hw.ne')
  have ha0 : 0 ≤ (nx e c x - lc e Wd k) / wd Wd k := div_nonneg (by linarith) hw.le
  have ha1 : (nx e c x - lc e Wd k) / wd Wd k ≤ 1 := by rw [div_le_one hw]; linarith
  have hL0 : IsDual (fun z => binLdN e c Wd U k (nx e c z)) x (evalX (dualX (NF.realX e)) (envD e c Wd U k x') quadFwdLdE) :=
    qEnv_isDual e hx _ _ _ _ _ quadFwdLdE
      (quadLd_smooth hw.ne' (Quad.pdf_pos (ht_pos hv k (by omega)) (ht_pos hv (k+1) (by omega)) ha0 ha1).ne')
  obtain ⟨hpos, hlt1⟩ := bin_mem_unit_open hv k hk _ h0 h1
  have hval : (evalX (dualX (NF.realX e)) (envD e c Wd U k x') quadFwdE).1 = binN e c Wd U k (nx e c x) := hY0.1
  have hcl := IsDual.clamp e (IsDual.zero e x) (IsDual.one e x) hY0
    (by rw [d_zero, hval]; exact ne_of_gt hpos)
    (by rw [d_zero, d_one, hval, max_eq_left hpos.le]; exact ne_of_lt hlt1)
  have hY1 := IsDual.add e (IsDual.mul e hcl (IsDual.ofFloat e (c.box.top - c.box.bottom) x)) (IsDual.ofFloat e c.box.bottom x)
  have hnear : ∀ᶠ z in 𝓝 x, nx e c z ∈ Set.Ioo (lc e Wd k) (lc e Wd (k+1)) :=
    hx.2.continuousAt.eventually (Ioo_mem_nhds h0 h1)
  constructor
  · refine hY1.congr ?_
    filter_upwards [hnear] with z hz
    obtain ⟨hu0, hu1⟩ := bin_mem_unit hv k hk _ hz.1.le hz.2.le
    rw [clamp01_id e _ hu0 hu1]
    simp only [NF.realX_add, NF.realX_mul, NF.realX_ofFloat, hb.hdbt]
  · exact (IsDual.add e hL0 (IsDual.ofFloat e (boxLog c.box) x)).congr_fun
      (fun s => by simp only [NF.realX_add, NF.realX_ofFloat])

/-- the dual normalised input the program forms from the seeded input `(x, 1)` -/
def nxD (e : Float → ℝ) (c : QCfg) (x : ℝ) : ℝ × ℝ :=
  (dualX (NF.realX e)).div ((dualX (NF.realX e)).sub (x, 1) ((dualX (NF.realX e)).ofFloat c.box.left))
    ((dualX (NF.realX e)).ofFloat (c.box.right - c.box.left))

theorem nxD_isDual (hb : BoxValid e c) (x : ℝ) : IsDual (nx e c) x (nxD e c x) := by
  have hD : e c.box.right - e c.box.left ≠ 0 := (sub_pos.mpr hb.hlr).ne'
  refine (IsDual.div e (IsDual.sub e (IsDual.id x) (IsDual.ofFloat e c.box.left x))
    (IsDual.ofFloat e (c.box.right - c.box.left) x) ?_).congr_fun (fun s => ?_)
  · rw [d_ofFloat, hb.hdlr]; exact hD
  · simp only [NF.realX_div, NF.realX_sub, NF.realX_ofFloat, hb.hdlr, nx]

/-- **generic whole second stage**: any real program `P` that runs `quadRest` on `(Wd, U)` after normalising its input;
    the dual second stage on the zero-tangent lifts returns the (value, derivative) pairs of the two outputs of `P` -/
theorem gen_dual {P : ℝ → Except Err (ℝ × ℝ)} (hv : CoreValid e c Wd U) (hb : BoxValid e c) (hP : RunsRest e c Wd U P)
    (k : ℕ) (hk : k < Wd.length) (x : ℝ) (h0 : lc e Wd k < nx e c x) (h1 : nx e c x < lc e Wd (k+1)) :
    ∃ dy dl : ℝ × ℝ, quadRest (dualX (NF.realX e)) c (Wd.map ι) (U.map ι) (nxD e c x) = .ok (dy, dl) ∧
      IsDual (fun z => valOf (P z)) x dy ∧ IsDual (fun z => ldOf (P z)) x dl := by
  have hx := nxD_isDual hb x
  have hmono := ExecGlue.knots_mono (lc e Wd) Wd.length (lc_strict hv)
  have hlo : 0 ≤ lc e Wd k := by rw [← lc_zero hv]; exact hmono 0 k (Nat.zero_le _) hk.le
  have hhi : lc e Wd (k+1) ≤ 1 := by rw [← lc_last hv]; exact hmono (k+1) Wd.length hk le_rfl
  have hx1 : (nxD e c x).1 = nx e c x := hx.1
  have hexec := quadRest_dual_exec hv (nxD e c x) (by rw [hx1]; linarith) (by rw [hx1]; linarith)
  rw [hx1, idxN_in_bin hv k hk _ h0 h1] at hexec
  obtain ⟨hY, hLd⟩ := bin_dual hv hb k hk x h0 h1 hx
  have hnear : ∀ᶠ z in 𝓝 x, nx e c z ∈ Set.Ioo (lc e Wd k) (lc e Wd (k+1)) :=
    hx.2.continuousAt.eventually (Ioo_mem_nhds h0 h1)
  refine ⟨_, _, hexec, hY.congr ?_, hLd.congr ?_⟩
  · filter_upwards [hnear] with z hz
    obtain ⟨hz0, hz1⟩ := nx_mem_box hb z (by linarith [hz.1]) (by linarith [hz.2])
    rw [gen_val hv hb hP z hz0 hz1]
    unfold GN
    rw [idxN_in_bin hv k hk _ hz.1 hz.2]
  · filter_upwards [hnear] with z hz
    obtain ⟨hz0, hz1⟩ := nx_mem_box hb z (by linarith [hz.1]) (by linarith [hz.2])
    rw [gen_ld hv hb hP z hz0 hz1]
    unfold LdN
    rw [idxN_in_bin hv k hk _ hz.1 hz.2]

/-! ### the whole executed program `quadSpline … false` on dual numbers -/

variable {uw uh : List ℝ}

/-- real side: guards pass, the padding step returns `U`, the rest is `quadRest` on the normalised input -/
theorem runsRest_of_pad (hb : BoxValid e c) (hgW : ¬ (c.minW * uw.length.toFloat > 1.0))
    (hgH : ¬ (c.minH * uw.length.toFloat > 1.0))
    (hpad : padU (NF.realX e) (Wq e c uw) (Uq e uh) uw.length = .ok U) :
    RunsRest e c (Wq e c uw) U (quadSpline (NF.realX e) c uw uh false) := by
  intro x hx0 hx1
  have hg : ((NF.realX e).lt x ((NF.realX e).ofFloat c.box.left) || (NF.realX e).lt ((NF.realX e).ofFloat c.box.right) x) = false := by
    simp only [NF.realX_lt, NF.realX_ofFloat, Bool.or_eq_false_iff, decide_eq_false_iff_not, not_lt]
    exact ⟨hx0, hx1⟩
  have h1 : flooredSoftmax (NF.realX e) c.minW uw = Wq e c uw := rfl
  have h2 : uh.map (fun u => (NF.realX e).add ((NF.realX e).softplus u) ((NF.realX e).ofFloat 1e-3)) = Uq e uh := rfl
  rw [quadSpline_split (NF.realX e) c uw uh x hg hgW hgH, h1, h2, hpad]
  simp only [NF.realX_div, NF.realX_sub, NF.realX_ofFloat, hb.hdlr]
  rfl

/-- dual side: with zero-tangent parameters the guards pass, the widths / unnormalised heights / padding constant are the
    zero-tangent lifts of the real ones, and the rest is the dual `quadRest` on the dual normalised input -/
theorem quadSpline_dual_split (hgW : ¬ (c.minW * uw.length.toFloat > 1.0))
    (hgH : ¬ (c.minH * uw.length.toFloat > 1.0))
    (hpad : padU (NF.realX e) (Wq e c uw) (Uq e uh) uw.length = .ok U)
    (x : ℝ) (hx0 : e c.box.left ≤ x) (hx1 : x ≤ e c.box.right) :
    quadSpline (dualX (NF.realX e)) c (uw.map ι) (uh.map ι) false (x, 1)
      = quadRest (dualX (NF.realX e)) c ((Wq e c uw).map ι) (U.map ι) (nxD e c x) := by
  have hL := lift_hom e
  have hg : ((dualX (NF.realX e)).lt (x, 1) ((dualX (NF.realX e)).ofFloat c.box.left)
      || (dualX (NF.realX e)).lt ((dualX (NF.realX e)).ofFloat c.box.right) (x, 1)) = false := by
    simp only [d_lt, d_ofFloat, Bool.or_eq_false_iff, decide_eq_false_iff_not, not_lt]
    exact ⟨hx0, hx1⟩
  have hW : flooredSoftmax (dualX (NF.realX e)) c.minW (uw.map ι) = (Wq e c uw).map ι :=
    (hL.flooredSoftmax c.minW uw).symm
  have hU : (uh.map ι).map (fun u => (dualX (NF.realX e)).add ((dualX (NF.realX e)).softplus u)
      ((dualX (NF.realX e)).ofFloat 1e-3)) = (Uq e uh).map ι := by
    unfold Uq
    rw [List.map_map, List.map_map]
    apply List.map_congr_left
    intro u _
    simp only [Function.comp, hL.add, hL.softplus, hL.ofFloat]
  rw [quadSpline_split (dualX (NF.realX e)) c _ _ (x, 1) hg (by rw [List.length_map]; exact hgW)
    (by rw [List.length_map]; exact hgH), hW, hU, List.length_map, hom_padU hL _ _ _ _ hpad]
  rfl

/-- core statement for both shapes of `uh` (the shape only enters through what the padding step returns) -/
theorem quadSpline_dual_core (hc : CoreValid e c (Wq e c uw) U) (hb : BoxValid e c)
    (hgW : ¬ (c.minW * uw.length.toFloat > 1.0)) (hgH : ¬ (c.minH * uw.length.toFloat > 1.0))
    (hpad : padU (NF.realX e) (Wq e c uw) (Uq e uh) uw.length = .ok U)
    (k : ℕ) (hk : k < uw.length) (x : ℝ) (h0 : xk e c uw k < x) (h1 : x < xk e c uw (k+1)) :
    ∃ dy dl : ℝ × ℝ, quadSpline (dualX (NF.realX e)) c (uw.map ι) (uh.map ι) false (x, 1) = .ok (dy, dl) ∧
      IsDual (val e c uw uh) x dy ∧ IsDual (ld e c uw uh) x dl := by
  have h0' := (nx_bin_iff hb uw k x).1.mpr h0
  have h1' := (nx_bin_iff hb uw (k+1) x).2.mpr h1
  have hk' : k < (Wq e c uw).length := by rw [Wq_length]; exact hk
  have hmono := ExecGlue.knots_mono (lc e (Wq e c uw)) (Wq e c uw).length (lc_strict hc)
  have hlo : 0 ≤ lc e (Wq e c uw) k := by rw [← lc_zero hc]; exact hmono 0 k (Nat.zero_le _) hk'.le
  have hhi : lc e (Wq e c uw) (k+1) ≤ 1 := by rw [← lc_last hc]; exact hmono (k+1) _ hk' le_rfl
  obtain ⟨hx0, hx1⟩ := nx_mem_box hb x (by linarith) (by linarith)
  obtain ⟨dy, dl, hr, hy, hl⟩ := gen_dual hc hb (runsRest_of_pad hb hgW hgH hpad) k hk' x h0' h1'
  exact ⟨dy, dl, by rw [quadSpline_dual_split hgW hgH hpad x hx0 hx1, hr], hy, hl⟩

theorem padU_bounded (hv : QuadValid e c uw uh) :
    padU (NF.realX e) (Wq e c uw) (Uq e uh) uw.length = .ok (Uq e uh) := by
  have hb : ((Uq e uh).length + 1 == uw.length) = false := by
    rw [Uq_length, hv.hlenh]; simp only [beq_eq_false_iff_ne, ne_eq]; omega
  unfold padU
  simp only [hb, Bool.false_eq_true, if_false]
  rfl

/-- assemble the headline form from the core statement and the `exp (log-det)` derivative theorem of the real program -/
theorem headline_of_core {dy dl : ℝ × ℝ} {x : ℝ} {r : Except Err ((ℝ × ℝ) × (ℝ × ℝ))} (hr : r = .ok (dy, dl))
    (hy : IsDual (val e c uw uh) x dy) (hl : IsDual (ld e c uw uh) x dl)
    (hder : HasDerivAt (val e c uw uh) (Real.exp (ld e c uw uh x)) x) :
    ∃ l' : ℝ, r = .ok ((val e c uw uh x, Real.exp (ld e c uw uh x)), (ld e c uw uh x, l')) ∧
      HasDerivAt (val e c uw uh) (Real.exp (ld e c uw uh x)) x ∧ HasDerivAt (ld e c uw uh) l' x := by
  refine ⟨dl.2, ?_, hder, hl.2⟩
  rw [hr]
  congr 1
  refine Prod.ext (Prod.ext hy.1 (hy.2.unique hder)) (Prod.ext hl.1 rfl)

/-- **the executed piecewise-quadratic spline on dual numbers, bounded shape** (`uh` has `K+1` entries): for `x` strictly
    inside bin `k` the dual run with zero-tangent parameters and seed `(x, 1)` returns `((val x, exp (ld x)), (ld x, l'))`:
    the real outputs, with tangents the derivatives of the real program's two outputs.  (`hbl`: the `Float` constant `boxLog`
    is read as the real logarithm — needed only to identify the value tangent with `exp (ld x)`; see `quadSpline_dualRes`.) -/
theorem quadSpline_dual (hv : QuadValid e c uw uh)
    (hbl : e (boxLog c.box) = Real.log ((e c.box.top - e c.box.bottom) / (e c.box.right - e c.box.left)))
    (k : ℕ) (hk : k < uw.length) (x : ℝ) (h0 : xk e c uw k < x) (h1 : x < xk e c uw (k+1)) :
    ∃ l' : ℝ, quadSpline (dualX (NF.realX e)) c (uw.map ι) (uh.map ι) false (x, 1)
        = .ok ((val e c uw uh x, Real.exp (ld e c uw uh x)), (ld e c uw uh x, l')) ∧
      HasDerivAt (val e c uw uh) (Real.exp (ld e c uw uh x)) x ∧ HasDerivAt (ld e c uw uh) l' x := by
  obtain ⟨dy, dl, hr, hy, hl⟩ :=
    quadSpline_dual_core (core_of_valid hv) hv.hbox hv.hgW hv.hgH (padU_bounded hv) k hk x h0 h1
  exact headline_of_core hr hy hl (val_hasDerivAt_x hv hbl k hk x h0 h1)

/-- **… tails shape** (`uh` has `K-1` entries, `K ≥ 2`: the padding constant `cst` is computed by list operations on
    zero-tangent lists and enters both ends of the heights with zero tangent) -/
theorem quadSpline_dual_T (hv : QuadValidT e c uw uh)
    (hbl : e (boxLog c.box) = Real.log ((e c.box.top - e c.box.bottom) / (e c.box.right - e c.box.left)))
    (k : ℕ) (hk : k < uw.length) (x : ℝ) (h0 : xk e c uw k < x) (h1 : x < xk e c uw (k+1)) :
    ∃ l' : ℝ, quadSpline (dualX (NF.realX e)) c (uw.map ι) (uh.map ι) false (x, 1)
        = .ok ((val e c uw uh x, Real.exp (ld e c uw uh x)), (ld e c uw uh x, l')) ∧
      HasDerivAt (val e c uw uh) (Real.exp (ld e c uw uh x)) x ∧ HasDerivAt (ld e c uw uh) l' x := by
  obtain ⟨dy, dl, hr, hy, hl⟩ :=
    quadSpline_dual_core (core_of_validT hv) hv.hbox hv.hgW hv.hgH (padU_tails hv) k hk x h0 h1
  exact headline_of_core hr hy hl (val_hasDerivAt_x_T hv hbl k hk x h0 h1)

theorem valOf_eq_outY (r : Except Err (ℝ × ℝ)) : valOf r = outY r := by cases r <;> rfl
theorem ldOf_eq_outL (r : Except Err (ℝ × ℝ)) : ldOf r = outL r := by cases r <;> rfl

theorem dualRes_of_core {dy dl : ℝ × ℝ} {x : ℝ} {r : Except Err ((ℝ × ℝ) × (ℝ × ℝ))} (hr : r = .ok (dy, dl))
    (hy : IsDual (val e c uw uh) x dy) (hl : IsDual (ld e c uw uh) x dl)
    (hex : ∃ p, quadSpline (NF.realX e) c uw uh false x = .ok p) :
    DualRes (fun s => quadSpline (NF.realX e) c uw uh false s) x r := by
  obtain ⟨p, hp⟩ := hex
  refine ⟨dy, dl, hr, ?_, ?_, ?_⟩
  · have h1 : dy.1 = p.1 := by rw [hy.1]; unfold val; rw [hp]; rfl
    have h2 : dl.1 = p.2 := by rw [hl.1]; unfold ld; rw [hp]; rfl
    show quadSpline (NF.realX e) c uw uh false x = _
    rw [hp, h1, h2]
  · refine hy.2.congr_of_eventuallyEq (Eventually.of_forall fun s => ?_)
    exact (valOf_eq_outY _).symm
  · refine hl.2.congr_of_eventuallyEq (Eventually.of_forall fun s => ?_)
    exact (ldOf_eq_outL _).symm

/-- the same WITHOUT the `boxLog` reading hypothesis, in the `DualRes` form of `Lemmas/DualXNonlin.lean`: the dual run is
    sound for the real program at `x` (succeeds, value components = the real outputs, tangent components = the derivatives
    of the two real outputs) -/
theorem quadSpline_dualRes (hv : QuadValid e c uw uh) (k : ℕ) (hk : k < uw.length) (x : ℝ)
    (h0 : xk e c uw k < x) (h1 : x < xk e c uw (k+1)) :
    DualRes (fun s => quadSpline (NF.realX e) c uw uh false s) x
      (quadSpline (dualX (NF.realX e)) c (uw.map ι) (uh.map ι) false (x, 1)) := by
  obtain ⟨dy, dl, hr, hy, hl⟩ :=
    quadSpline_dual_core (core_of_valid hv) hv.hbox hv.hgW hv.hgH (padU_bounded hv) k hk x h0 h1
  obtain ⟨hf0, hfK, hfs⟩ := xk_facts hv
  have hmono := ExecGlue.knots_mono (xk e c uw) uw.length hfs
  refine dualRes_of_core hr hy hl (total hv x ?_ ?_)
  · rw [← hf0]; exact le_trans (hmono 0 k (Nat.zero_le _) hk.le) h0.le
  · rw [← hfK]; exact le_trans h1.le (hmono (k+1) uw.length hk le_rfl)

/-- a point strictly inside a bin (box coordinates) is in the box -/
theorem xk_mem_box (hc : CoreValid e c (Wq e c uw) U) (hb : BoxValid e c) (k : ℕ) (hk : k < uw.length) (x : ℝ)
    (h0 : xk e c uw k < x) (h1 : x < xk e c uw (k+1)) : e c.box.left ≤ x ∧ x ≤ e c.box.right := by
  have h0' := (nx_bin_iff hb uw k x).1.mpr h0
  have h1' := (nx_bin_iff hb uw (k+1) x).2.mpr h1
  have hk' : k < (Wq e c uw).length := by rw [Wq_length]; exact hk
  have hmono := ExecGlue.knots_mono (lc e (Wq e c uw)) (Wq e c uw).length (lc_strict hc)
  have hlo : 0 ≤ lc e (Wq e c uw) k := by rw [← lc_zero hc]; exact hmono 0 k (Nat.zero_le _) hk'.le
  have hhi : lc e (Wq e c uw) (k+1) ≤ 1 := by rw [← lc_last hc]; exact hmono (k+1) _ hk' le_rfl
  exact nx_mem_box hb x (by linarith) (by linarith)

/-- … tails shape, `DualRes` form, no `boxLog` reading hypothesis -/
theorem quadSpline_dualRes_T (hv : QuadValidT e c uw uh) (k : ℕ) (hk : k < uw.length) (x : ℝ)
    (h0 : xk e c uw k < x) (h1 : x < xk e c uw (k+1)) :
    DualRes (fun s => quadSpline (NF.realX e) c uw uh false s) x
      (quadSpline (dualX (NF.realX e)) c (uw.map ι) (uh.map ι) false (x, 1)) := by
  obtain ⟨dy, dl, hr, hy, hl⟩ :=
    quadSpline_dual_core (core_of_validT hv) hv.hbox hv.hgW hv.hgH (padU_tails hv) k hk x h0 h1
  obtain ⟨hx0, hx1⟩ := xk_mem_box (core_of_validT hv) hv.hbox k hk x h0 h1
  exact dualRes_of_core hr hy hl (total_T hv x hx0 hx1)

/-! ### non-vacuity on the concrete accepted configurations of `Lemmas/QuadWhole.lean` -/

private theorem bz : ((0.0:Float) == 0.0) = true := by decide +kernel
private theorem bo : ((1.0:Float) == 0.0) = false := by decide +kernel

theorem xk_example : xk eNV cNV [0] 0 = 0 ∧ xk eNV cNV [0] (0+1) = 1 := by
  obtain ⟨hf0, hfK, _⟩ := xk_facts valid_example
  simp only [List.length_singleton] at hfK
  rw [hf0, hfK]
  simp [eNV, cNV, bz, bo]

/-- bounded shape, one bin on the unit box (`QuadWhole.valid_example`): every `x ∈ (0,1)` -/
theorem quadSpline_dual_example (x : ℝ) (h0 : 0 < x) (h1 : x < 1) :
    DualRes (fun s => quadSpline (NF.realX eNV) cNV [0] [0, 0] false s) x
      (quadSpline (dualX (NF.realX eNV)) cNV [ι 0] [ι 0, ι 0] false (x, 1)) := by
  obtain ⟨hx0, hx1⟩ := xk_example
  exact quadSpline_dualRes valid_example 0 (by simp) x (by rw [hx0]; exact h0) (by rw [hx1]; exact h1)

/-- … and the headline form, given that the (kernel-opaque) `Float.log (1.0/1.0)` is `0.0` -/
theorem quadSpline_dual_example' (hlog : (boxLog cNV.box == 0.0) = true) (x : ℝ) (h0 : 0 < x) (h1 : x < 1) :
    ∃ l' : ℝ, quadSpline (dualX (NF.realX eNV)) cNV [ι 0] [ι 0, ι 0] false (x, 1)
        = .ok ((val eNV cNV [0] [0, 0] x, Real.exp (ld eNV cNV [0] [0, 0] x)), (ld eNV cNV [0] [0, 0] x, l')) := by
  obtain ⟨hx0, hx1⟩ := xk_example
  obtain ⟨l', h, -, -⟩ := quadSpline_dual valid_example (boxLog_example hlog) 0 (by simp) x
    (by rw [hx0]; exact h0) (by rw [hx1]; exact h1)
  exact ⟨l', h⟩

/-- tails shape, two bins (`QuadWhole.valid_example_T`): every `x` strictly inside either bin, and such `x` exist -/
theorem quadSpline_dual_example_T :
    (∀ k < 2, ∀ x : ℝ, xk eT cNV [0, 0] k < x → x < xk eT cNV [0, 0] (k+1) →
      DualRes (fun s => quadSpline (NF.realX eT) cNV [0, 0] [0] false s) x
        (quadSpline (dualX (NF.realX eT)) cNV [ι 0, ι 0] [ι 0] false (x, 1))) ∧
    ∀ k < 2, xk eT cNV [0, 0] k < xk eT cNV [0, 0] (k+1) := by
  have hv := valid_example_T
  refine ⟨fun k hk x h0 h1 => quadSpline_dualRes_T hv k hk x h0 h1, fun k hk => ?_⟩
  have hc := core_of_validT hv
  have := lc_strict hc k (by rw [Wq_length]; exact hk)
  have hD : 0 < eT cNV.box.right - eT cNV.box.left := sub_pos.mpr hv.hbox.hlr
  unfold xk
  nlinarith

end

end DualXQuad
