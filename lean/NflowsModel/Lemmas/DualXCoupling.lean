import NflowsModel.Lemmas.DualXSpline2
import NflowsModel.Lemmas.StructureExecRQ
/-!
# Lemmas/DualXCoupling — the chain rule through the EXECUTED coupling layer on dual numbers (C16)

* `DualX.rqSpline_dual_param_curve`: the executed RQ forward program run on dual lists / a dual input that are the
  (value, derivative) pairs of ANY differentiable curve of parameters and input returns the derivative along the curve.
* `DualXCoupling.elTransform_rq_dual`: the same through `elTransform` (slicing of the raw parameter row into widths / heights /
  derivatives and the `1/sqrt(hidden)` scaling included).
* `DualXCoupling.coupling_rq_dual_out` (= `coupling_rq_dual_transformed` + `coupling_dual_identity`), `coupling_rq_dual_ld`,
  `coupling_rq_dual_err_none`: one executed coupling layer (`couplingApply`, bounded RQ kind, any numeric mask, `B`, `S`) on dual
  arrays: identity features keep their tangents, every transformed entry carries the TOTAL derivative of the real executed
  layer's entry along the curve `r ↦ (X r, P r)` of (input, conditioner output) — the conditioner is ANY map whose recorded dual
  output is its (value, derivative) pair (`IsDualA P t dP`) —, the tangent of every row log-det is the derivative of the real
  row log-det, and the dual run reports no error.
* non-vacuity: `rqSpline_dual_param_curve_example`, `elTransform_rq_dual_example` (scaling on: `cS_scaling`),
  `coupling_rq_dual_example` (conditioner = arbitrary differentiable `g1`, `g2` of the identity feature).
-/
open NF DualSound Filter Topology

namespace DualX
noncomputable section
open RQWhole DualXParam

variable {e : Float → ℝ} {c : RQCfg}

/-- **the real chain rule for the executed RQ forward program**: along ANY curve `s ↦ (FW s, FH s, FD s, FX s)` of
    unnormalised parameters and input that is differentiable at `t`, the program run on the dual lists / dual number holding
    the (value, derivative) pairs at `t` returns, for `FX t` strictly inside a bin, the two real outputs at `t` together with
    the derivatives at `t` of `s ↦ val (params s) (FX s)` and `s ↦ ld (params s) (FX s)`.
    Side condition: no derivative parameter sits on the softplus threshold `β·u = 20`. -/
theorem rqSpline_dual_param_curve {FW FH FD : ℝ → List ℝ} {FX : ℝ → ℝ} {t : ℝ} {dW dH dD : List (ℝ × ℝ)} {dx : ℝ × ℝ}
    (hW : IsDualL FW t dW) (hH : IsDualL FH t dH) (hD : IsDualL FD t dD) (hX : IsDual FX t dx)
    (hv : RQValid e c (FW t) (FH t) (FD t))
    (hthr : ∀ k < (FD t).length, e c.beta * (FD t).getD k 0 ≠ 20)
    (k : ℕ) (hk : k < (FW t).length) (h0 : xs e c (FW t) k < FX t) (h1 : FX t < xs e c (FW t) (k+1)) :
    ∃ v' l' : ℝ, rqSpline (dualX (NF.realX e)) c dW dH dD false dx
        = .ok ((val e c (FW t) (FH t) (FD t) (FX t), v'), (ld e c (FW t) (FH t) (FD t) (FX t), l')) ∧
      HasDerivAt (fun s => val e c (FW s) (FH s) (FD s) (FX s)) v' t ∧
      HasDerivAt (fun s => ld e c (FW s) (FH s) (FD s) (FX s)) l' t := by
  have hKW := knots_dualL e c.minW c.box.left c.box.right hW (by
    intro hn
    have := hW.1 t
    rw [hn] at this
    exact hv.hK (List.length_eq_zero_iff.mp this))
  have hKH := knots_dualL e c.minH c.box.bottom c.box.top hH (by
    intro hn
    have := hH.1 t
    rw [hn, hv.hlenh] at this
    exact hv.hK (List.length_eq_zero_iff.mp this))
  have hDV := derivs_dualL e c.minD c.beta hD hv.hbeta (by
    intro j hj
    rw [(hD.getD j hj).1]
    exact hthr j (by rw [hD.1 t]; exact hj))
  exact rqSpline_dual_param_core (e := e) (c := c) FW FH FD FX t dW dH dD dx hv
    (CurveL.of_isDualL hW) (CurveL.of_isDualL hH) (CurveL.of_isDualL hD) hX
    (CurveL.of_isDualL hKW.1) (CurveL.of_isDualL hKW.2) (CurveL.of_isDualL hKH.1) (CurveL.of_isDualL hKH.2)
    (CurveL.of_isDualL hDV) k hk h0 h1

end
end DualX

namespace DualXCoupling
noncomputable section
open RQWhole DualX DualXParam NF.StructureExec

variable {e : Float → ℝ}
variable {F : ℝ → List ℝ} {t : ℝ} {ds : List (ℝ × ℝ)}

/-! ## smooth list operations on `IsDualL` -/

/-- an entry beyond the end reads the default `0` on both sides -/
theorem IsDualL.getD_any (h : IsDualL F t ds) (k : ℕ) : IsDual (fun s => (F s).getD k 0) t (ds.getD k 0) := by
  by_cases hk : k < ds.length
  · exact h.2 k hk
  · have h1 : ds.getD k 0 = (0, 0) := by
      rw [List.getD_eq_getElem?_getD, List.getElem?_eq_none (by omega)]; rfl
    rw [h1]
    refine (IsDual.const 0 t).congr_fun (fun s => ?_)
    rw [List.getD_eq_getElem?_getD, List.getElem?_eq_none (by rw [h.1 s]; omega)]; rfl

theorem IsDualL.take : ∀ (n : ℕ) {ds : List (ℝ × ℝ)} {F : ℝ → List ℝ}, IsDualL F t ds →
    IsDualL (fun s => (F s).take n) t (ds.take n)
  | 0, _, _, _ => by simpa using IsDualL.nil t
  | n+1, [], F, h => by rw [h.eq_nil]; simpa using IsDualL.nil t
  | n+1, d :: ds, F, h => by
    obtain ⟨f, G, rfl, hf, hG⟩ := h.uncons
    simpa using IsDualL.cons hf (IsDualL.take n hG)

theorem IsDualL.drop : ∀ (n : ℕ) {ds : List (ℝ × ℝ)} {F : ℝ → List ℝ}, IsDualL F t ds →
    IsDualL (fun s => (F s).drop n) t (ds.drop n)
  | 0, _, _, h => by simpa using h
  | n+1, [], F, h => by rw [h.eq_nil]; simpa using IsDualL.nil t
  | n+1, d :: ds, F, h => by
    obtain ⟨f, G, rfl, hf, hG⟩ := h.uncons
    simpa using IsDualL.drop n hG

/-- a list built entry by entry from `IsDual` entries -/
theorem IsDualL.mapIdx {ι : Type} : ∀ (its : List ι) {g : ℝ → ι → ℝ} {d : ι → ℝ × ℝ},
    (∀ i ∈ its, IsDual (fun s => g s i) t (d i)) → IsDualL (fun s => its.map (g s)) t (its.map d)
  | [], _, _, _ => IsDualL.nil t
  | i :: its, g, d, h => by
    have := IsDualL.cons (h i (by simp)) (IsDualL.mapIdx its (fun j hj => h j (by simp [hj])))
    simpa using this

/-- division by a constant is sound on dual numbers WITHOUT a side condition (a zero constant gives `0` on both sides) -/
theorem IsDual.div_const {f : ℝ → ℝ} {a : ℝ × ℝ} (ha : IsDual f t a) (q : Float) :
    IsDual (fun s => (NF.realX e).div (f s) ((NF.realX e).ofFloat q)) t
      ((dualX (NF.realX e)).div a ((dualX (NF.realX e)).ofFloat q)) := by
  by_cases hq : e q = 0
  · rw [d_ofFloat, d_div]
    have : (a.1 / (e q, (0:ℝ)).1, (a.2 * (e q, (0:ℝ)).1 - a.1 * (e q, (0:ℝ)).2) / ((e q, (0:ℝ)).1 * (e q, (0:ℝ)).1))
        = ((0:ℝ), (0:ℝ)) := by simp [hq]
    rw [this]
    refine (IsDual.const 0 t).congr_fun (fun s => ?_)
    show (0:ℝ) = f s / e q
    rw [hq, div_zero]
  · exact IsDual.div e ha (IsDual.ofFloat e q t) (by rw [d_ofFloat]; exact hq)


/-! ## (b) one element: `elTransform` with the bounded RQ kind on dual numbers -/

theorem rqScale_dualL (c : ElCfg) (b : Bool) (h : IsDualL F t ds) :
    IsDualL (fun s => rqScale (NF.realX e) c b (F s)) t (rqScale (dualX (NF.realX e)) c b ds) := by
  unfold rqScale
  cases b
  · simpa using h
  · simp only [if_true]
    exact h.map (gR := fun _ u => (NF.realX e).div u ((NF.realX e).ofFloat (Float.sqrt c.scaling.1)))
      (fun f d _ hf => IsDual.div_const hf _)

/-- the slicing (and scaling) of the raw parameter row into unnormalised widths / heights / derivatives is sound -/
theorem rqW_dualL (c : ElCfg) (h : IsDualL F t ds) :
    IsDualL (fun s => rqW (NF.realX e) c (F s)) t (rqW (dualX (NF.realX e)) c ds) :=
  rqScale_dualL c _ (IsDualL.take c.K h)
theorem rqH_dualL (c : ElCfg) (h : IsDualL F t ds) :
    IsDualL (fun s => rqH (NF.realX e) c (F s)) t (rqH (dualX (NF.realX e)) c ds) :=
  rqScale_dualL c _ (IsDualL.take c.K (IsDualL.drop c.K h))
theorem rqD_dualL (c : ElCfg) (h : IsDualL F t ds) : IsDualL (fun s => rqD c (F s)) t (rqD c ds) :=
  IsDualL.drop (2 * c.K) h

variable (e)

/-- the two outputs of the REAL executed element map (`0` where it raises) -/
def elY (c : ElCfg) (p : List ℝ) (x : ℝ) : ℝ := outOf (NF.realX e) (elTransform (NF.realX e) c false p x)
def elL (c : ElCfg) (p : List ℝ) (x : ℝ) : ℝ := ldOf (NF.realX e) (elTransform (NF.realX e) c false p x)

/-- the hypotheses on one element: the sliced parameters are an accepted configuration, no derivative parameter sits on the
    softplus threshold, the input lies strictly inside a bin -/
structure RQElInterior (c : ElCfg) (p : List ℝ) (x : ℝ) : Prop where
  valid : RQValid e (rqCfgOf c) (rqW (NF.realX e) c p) (rqH (NF.realX e) c p) (rqD c p)
  thr : ∀ k < (rqD c p).length, e (rqCfgOf c).beta * (rqD c p).getD k 0 ≠ 20
  bin : ∃ k, k < (rqW (NF.realX e) c p).length ∧ xs e (rqCfgOf c) (rqW (NF.realX e) c p) k < x ∧
    x < xs e (rqCfgOf c) (rqW (NF.realX e) c p) (k+1)

variable {e}

theorem elY_rq {c : ElCfg} (hk : c.kind = "rq") (ht : c.tails = false) (p : List ℝ) (x : ℝ) :
    elY e c p x = val e (rqCfgOf c) (rqW (NF.realX e) c p) (rqH (NF.realX e) c p) (rqD c p) x := by
  unfold elY val
  rw [elTransform_rq _ c hk ht]
  cases rqSpline (NF.realX e) (rqCfgOf c) (rqW (NF.realX e) c p) (rqH (NF.realX e) c p) (rqD c p) false x <;>
    simp [outOf, Except.map]

theorem elL_rq {c : ElCfg} (hk : c.kind = "rq") (ht : c.tails = false) (p : List ℝ) (x : ℝ) :
    elL e c p x = ld e (rqCfgOf c) (rqW (NF.realX e) c p) (rqH (NF.realX e) c p) (rqD c p) x := by
  unfold elL ld
  rw [elTransform_rq _ c hk ht]
  cases rqSpline (NF.realX e) (rqCfgOf c) (rqW (NF.realX e) c p) (rqH (NF.realX e) c p) (rqD c p) false x <;>
    simp [ldOf, Except.map]

/-- the real element succeeds on the whole closed domain -/
theorem elTransform_rq_real_ok {c : ElCfg} (hk : c.kind = "rq") (ht : c.tails = false) {p : List ℝ} {x : ℝ}
    (hv : RQValid e (rqCfgOf c) (rqW (NF.realX e) c p) (rqH (NF.realX e) c p) (rqD c p))
    (hx0 : e (rqCfgOf c).box.left ≤ x) (hx1 : x ≤ e (rqCfgOf c).box.right) :
    elTransform (NF.realX e) c false p x = .ok (elY e c p x, elL e c p x, []) := by
  unfold elY elL
  rw [elTransform_rq _ c hk ht, exec_eq_bin hv x hx0 hx1]
  rfl

/-- **(b) chain rule through one executed element.**  `P` is ANY curve of raw parameter rows differentiable at `t` (the
    conditioner's output for this element along the line), `FX` the curve of the element's input; the dual run of
    `elTransform` (bounded RQ kind) on their (value, derivative) pairs returns the real outputs at `t` with tangents the
    TOTAL derivatives of `s ↦ elY (P s) (FX s)` and `s ↦ elL (P s) (FX s)` at `t`. -/
theorem elTransform_rq_dual {c : ElCfg} (hk : c.kind = "rq") (ht : c.tails = false)
    {P : ℝ → List ℝ} {FX : ℝ → ℝ} {dp : List (ℝ × ℝ)} {dx : ℝ × ℝ}
    (hP : IsDualL P t dp) (hX : IsDual FX t dx) (hin : RQElInterior e c (P t) (FX t)) :
    ∃ y' l' : ℝ, elTransform (dualX (NF.realX e)) c false dp dx
        = .ok ((elY e c (P t) (FX t), y'), (elL e c (P t) (FX t), l'), []) ∧
      HasDerivAt (fun s => elY e c (P s) (FX s)) y' t ∧ HasDerivAt (fun s => elL e c (P s) (FX s)) l' t := by
  obtain ⟨k, hk', h0, h1⟩ := hin.bin
  obtain ⟨y', l', hrun, hy, hl⟩ := rqSpline_dual_param_curve (c := rqCfgOf c) (rqW_dualL c hP) (rqH_dualL c hP)
    (rqD_dualL c hP) hX hin.valid hin.thr k hk' h0 h1
  refine ⟨y', l', ?_, ?_, ?_⟩
  · rw [elTransform_rq _ c hk ht, hrun, elY_rq hk ht, elL_rq hk ht]
    rfl
  · simpa only [elY_rq hk ht] using hy
  · simpa only [elL_rq hk ht] using hl

/-- the real element stays successful near `t` along the curve -/
theorem elTransform_rq_real_eventually_ok {c : ElCfg} (hk : c.kind = "rq") (ht : c.tails = false)
    {P : ℝ → List ℝ} {FX : ℝ → ℝ} {dp : List (ℝ × ℝ)} {dx : ℝ × ℝ}
    (hP : IsDualL P t dp) (hX : IsDual FX t dx) (hin : RQElInterior e c (P t) (FX t)) :
    ∀ᶠ s in 𝓝 t, elTransform (NF.realX e) c false (P s) (FX s) = .ok (elY e c (P s) (FX s), elL e c (P s) (FX s), []) := by
  obtain ⟨k, hk', h0, h1⟩ := hin.bin
  have hv := hin.valid
  have hmono := ExecGlue.knots_mono (xs e (rqCfgOf c) (rqW (NF.realX e) c (P t))) _ (xs_strict hv)
  have hl : e (rqCfgOf c).box.left < FX t := by
    rw [← xs_zero hv]; exact lt_of_le_of_lt (hmono 0 k (Nat.zero_le _) hk'.le) h0
  have hr : FX t < e (rqCfgOf c).box.right := by
    rw [← xs_last hv]; exact lt_of_lt_of_le h1 (hmono (k+1) _ hk' le_rfl)
  have hc := hX.2.continuousAt
  filter_upwards [hc.eventually (lt_mem_nhds hl), hc.eventually (gt_mem_nhds hr)] with s hs0 hs1
  have hW := rqW_dualL (e := e) c hP
  have hH := rqH_dualL (e := e) c hP
  have hD := rqD_dualL c hP
  exact elTransform_rq_real_ok hk ht
    (DualX.RQValid.of_length hv (by rw [hW.1 s, hW.1 t]) (by rw [hH.1 s, hH.1 t]) (by rw [hD.1 s, hD.1 t])) hs0.le hs1.le


/-! ## (c) the executed coupling layer on dual arrays -/

/-- array-level duality: `dX` holds, entry by entry, (value, derivative) at `t` of the curve of real arrays `X` -/
def IsDualA (X : ℝ → Array ℝ) (t : ℝ) (dX : Array (ℝ × ℝ)) : Prop := IsDualL (fun s => (X s).toList) t dX.toList

theorem toList_getD {α : Type} (a : Array α) (j : ℕ) (d : α) : a.toList.getD j d = a.getD j d := by
  simp [Array.getD_eq_getD_getElem?, List.getD_eq_getElem?_getD]

variable {X P : ℝ → Array ℝ} {dX dP : Array (ℝ × ℝ)}

theorem IsDualA.size (h : IsDualA X t dX) (s : ℝ) : (X s).size = dX.size := by simpa using h.1 s

/-- reads (in range or not: the default is `zero` on both sides) -/
theorem IsDualA.getD (h : IsDualA X t dX) (j : ℕ) :
    IsDual (fun s => (X s).getD j (NF.realX e).zero) t (dX.getD j (dualX (NF.realX e)).zero) := by
  have h1 := IsDualL.getD_any h j
  rw [toList_getD] at h1
  rw [d_zero]
  refine h1.congr_fun (fun s => ?_)
  rw [toList_getD, realX_zero]

/-- the parameter row of one element, read out of the dual conditioner output -/
theorem condSlice_dualL (h : IsDualA P t dP) (m Ft S b tp s : ℕ) :
    IsDualL (fun r => condSlice (NF.realX e) m Ft S (P r) b tp s) t (condSlice (dualX (NF.realX e)) m Ft S dP b tp s) := by
  unfold condSlice
  exact IsDualL.mapIdx (List.range m) (fun k _ => h.getD _)

/-- the masks are compared on value components: same transform channels -/
theorem transformIdx_dual (dmask : List (ℝ × ℝ)) :
    transformIdx (dualX (NF.realX e)) dmask = transformIdx (NF.realX e) (dmask.map Prod.fst) := by
  unfold transformIdx
  rw [List.length_map]
  apply List.filter_congr
  intro i _
  show (dualX (NF.realX e)).lt _ _ = (NF.realX e).lt _ _
  rw [(fst_hom e).lt, (fst_hom e).zero]
  congr 1
  rw [← (fst_hom e).zero, List.getD_map]

/-- over the reals the skipped (raised) elements contribute `0`: the row log-det is the left fold of `ldOf` -/
theorem ldFold_real (rs : List (ElRes ℝ)) :
    ldFold (NF.realX e) rs = (rs.map (ldOf (NF.realX e))).foldl (NF.realX e).add (NF.realX e).zero := by
  unfold ldFold
  refine (?_ : ∀ z, List.foldl _ z rs = List.foldl (NF.realX e).add z (rs.map (ldOf (NF.realX e)))) _
  induction rs with
  | nil => intro z; rfl
  | cons r rs ih =>
    intro z
    rcases r with err | ⟨y, l, al⟩
    · rw [List.foldl_cons, List.map_cons, List.foldl_cons, ih]
      congr 1
      show z = z + (NF.realX e).zero
      rw [realX_zero, add_zero]
    · rw [List.foldl_cons, List.map_cons, List.foldl_cons, ih]
      rfl

variable (e)

/-- every transformed element of every row: accepted parameter slice, off the softplus threshold, input strictly inside a bin -/
def LayerInterior (c : ElCfg) (mask : List ℝ) (B S : ℕ) (x params : Array ℝ) : Prop :=
  ∀ b tp s, b < B → tp < (transformIdx (NF.realX e) mask).length → s < S →
    RQElInterior e c (condSlice (NF.realX e) c.mult (transformIdx (NF.realX e) mask).length S params b tp s)
      (x.getD (flatIdx mask.length S b ((transformIdx (NF.realX e) mask).getD tp 0) s) (NF.realX e).zero)

variable {e}

theorem rq_ne_affine {c : ElCfg} (hk : c.kind = "rq") : c.kind ≠ "affine" ∧ c.kind ≠ "additive" := by
  rw [hk]; exact ⟨by decide, by decide⟩

/-- one conditional element of the layer on duals: the parameter row is read from the dual conditioner output, the input from
    the dual input array -/
theorem couplingEl_rq_dual {c : ElCfg} (hk : c.kind = "rq") (ht : c.tails = false) (hX : IsDualA X t dX) (hP : IsDualA P t dP)
    (Ft S b tp s j : ℕ)
    (hin : RQElInterior e c (condSlice (NF.realX e) c.mult Ft S (P t) b tp s) ((X t).getD j (NF.realX e).zero)) :
    ∃ y' l' : ℝ, couplingEl (dualX (NF.realX e)) c Ft S dP false b tp s (dX.getD j (dualX (NF.realX e)).zero)
        = .ok ((elY e c (condSlice (NF.realX e) c.mult Ft S (P t) b tp s) ((X t).getD j (NF.realX e).zero), y'),
               (elL e c (condSlice (NF.realX e) c.mult Ft S (P t) b tp s) ((X t).getD j (NF.realX e).zero), l'), []) ∧
      HasDerivAt (fun r => elY e c (condSlice (NF.realX e) c.mult Ft S (P r) b tp s) ((X r).getD j (NF.realX e).zero)) y' t ∧
      HasDerivAt (fun r => elL e c (condSlice (NF.realX e) c.mult Ft S (P r) b tp s) ((X r).getD j (NF.realX e).zero)) l' t := by
  rw [couplingEl_spline _ c S dP false (rq_ne_affine hk).1 (rq_ne_affine hk).2]
  exact elTransform_rq_dual hk ht (P := fun r => condSlice (NF.realX e) c.mult Ft S (P r) b tp s)
    (FX := fun r => (X r).getD j (NF.realX e).zero) (condSlice_dualL hP c.mult Ft S b tp s) (hX.getD j) hin

/-- the log-det of the REAL conditional element is `elL` by definition (raised ⇒ `0`) -/
theorem ldOf_couplingEl_real {c : ElCfg} (hk : c.kind = "rq") (Ft S : ℕ) (params : Array ℝ) (b tp s : ℕ) (xi : ℝ) :
    ldOf (NF.realX e) (couplingEl (NF.realX e) c Ft S params false b tp s xi)
      = elL e c (condSlice (NF.realX e) c.mult Ft S params b tp s) xi := by
  rw [couplingEl_spline _ c S params false (rq_ne_affine hk).1 (rq_ne_affine hk).2]
  rfl


theorem list_getD_of_getElem? {α : Type} {l : List α} {b : ℕ} {v : α} (h : l[b]? = some v) (d : α) : l.getD b d = v := by
  rw [List.getD_eq_getElem?_getD, h]; rfl

theorem array_getD_of_getElem? {α : Type} {a : Array α} {j : ℕ} {v : α} (h : a[j]? = some v) (d : α) : a.getD j d = v := by
  rw [Array.getD_eq_getD_getElem?, h]; rfl

section layer
variable {c : ElCfg} (hk : c.kind = "rq") (ht : c.tails = false) (dmask : List (ℝ × ℝ)) (B S : ℕ)
  (hX : IsDualA X t dX) (hP : IsDualA P t dP)
include hk ht hX hP

/-- **(c1) transformed entries.**  The entry of transformed element `(b, tp, s)` of the dual layer's output is the
    (value, derivative) pair at `t` of the same entry of the REAL executed layer along the curve `r ↦ (X r, P r)` of inputs and
    conditioner outputs: the tangent is the TOTAL derivative (through the input and through every parameter of the element). -/
theorem coupling_rq_dual_transformed (hsz : B * dmask.length * S ≤ dX.size)
    (hin : LayerInterior e c (dmask.map Prod.fst) B S (X t) (P t))
    {b tp s : ℕ} (hb : b < B) (htp : tp < (transformIdx (NF.realX e) (dmask.map Prod.fst)).length) (hs : s < S) :
    IsDual (fun r => (couplingApply (NF.realX e) c (dmask.map Prod.fst) B S (X r) (P r) false).out.getD
          (flatIdx dmask.length S b ((transformIdx (NF.realX e) (dmask.map Prod.fst)).getD tp 0) s) 0) t
      ((couplingApply (dualX (NF.realX e)) c dmask B S dX dP false).out.getD
          (flatIdx dmask.length S b ((transformIdx (NF.realX e) (dmask.map Prod.fst)).getD tp 0) s) 0) := by
  have hT : transformIdx (dualX (NF.realX e)) dmask = transformIdx (NF.realX e) (dmask.map Prod.fst) := transformIdx_dual dmask
  have hlen : (dmask.map Prod.fst).length = dmask.length := List.length_map _
  have hin' := hin b tp s hb htp hs
  rw [hlen] at hin'
  set mask := dmask.map Prod.fst with hmask
  set j := flatIdx dmask.length S b ((transformIdx (NF.realX e) mask).getD tp 0) s with hj
  have hch : (transformIdx (NF.realX e) mask).getD tp 0 < dmask.length := by
    rw [← hlen]; exact (transformIdx_ok (NF.realX e) mask).getD_lt htp
  have hjlt : j < dX.size := lt_of_lt_of_le (flatIdx_lt hb hch hs) hsz
  obtain ⟨y', l', hel, hy, _⟩ := couplingEl_rq_dual hk ht hX hP (transformIdx (NF.realX e) mask).length S b tp s j hin'
  -- the dual layer
  have hd := coupling_out_transformed_ok (dualX (NF.realX e)) c dmask B S dX dP false none #[] (b := b) (t := tp) (s := s) hb
    (by rw [hT]; exact htp) hs (by rw [hT]; exact hjlt) (by rw [hT]; exact hel)
  rw [hT] at hd
  rw [array_getD_of_getElem? hd]
  -- the real layer near `t`
  have hev := elTransform_rq_real_eventually_ok hk ht
    (P := fun r => condSlice (NF.realX e) c.mult (transformIdx (NF.realX e) mask).length S (P r) b tp s)
    (FX := fun r => (X r).getD j (NF.realX e).zero)
    (condSlice_dualL hP c.mult (transformIdx (NF.realX e) mask).length S b tp s) (hX.getD j) hin'
  refine IsDual.congr (f := fun r => elY e c (condSlice (NF.realX e) c.mult (transformIdx (NF.realX e) mask).length S (P r) b tp s)
    ((X r).getD j (NF.realX e).zero)) ⟨rfl, hy⟩ ?_
  filter_upwards [hev] with r hr
  have hr' := coupling_out_transformed_ok (NF.realX e) c mask B S (X r) (P r) false none #[] (b := b) (t := tp) (s := s) hb htp hs
    (by rw [hlen, hX.size r]; exact hjlt)
    (by rw [couplingEl_spline _ c S (P r) false (rq_ne_affine hk).1 (rq_ne_affine hk).2, hlen]; exact hr)
  rw [hlen] at hr'
  exact (array_getD_of_getElem? hr' 0).symm

omit hk ht hP in
/-- **(c2) identity features pass through with their tangents**: every entry of a channel that is not a transform channel
    is the input's dual entry (the real layer returns the input's entry), for every row, position, parameters, errors or not -/
theorem coupling_dual_identity {b ch s : ℕ} (hch : ch < dmask.length) (hs : s < S)
    (hni : ch ∉ transformIdx (NF.realX e) (dmask.map Prod.fst)) :
    (couplingApply (dualX (NF.realX e)) c dmask B S dX dP false).out[flatIdx dmask.length S b ch s]?
        = dX[flatIdx dmask.length S b ch s]? ∧
    (∀ r, (couplingApply (NF.realX e) c (dmask.map Prod.fst) B S (X r) (P r) false).out[flatIdx dmask.length S b ch s]?
        = (X r)[flatIdx dmask.length S b ch s]?) ∧
    IsDual (fun r => (couplingApply (NF.realX e) c (dmask.map Prod.fst) B S (X r) (P r) false).out.getD
          (flatIdx dmask.length S b ch s) 0) t
      ((couplingApply (dualX (NF.realX e)) c dmask B S dX dP false).out.getD (flatIdx dmask.length S b ch s) 0) := by
  have hT : transformIdx (dualX (NF.realX e)) dmask = transformIdx (NF.realX e) (dmask.map Prod.fst) := transformIdx_dual dmask
  have hlen : (dmask.map Prod.fst).length = dmask.length := List.length_map _
  have h1 := coupling_identity_passthrough (dualX (NF.realX e)) c dmask B S dX dP false #[] (b := b) hch hs (by rw [hT]; exact hni)
  have h2 : ∀ r, (couplingApply (NF.realX e) c (dmask.map Prod.fst) B S (X r) (P r) false).out[flatIdx dmask.length S b ch s]?
      = (X r)[flatIdx dmask.length S b ch s]? := fun r => by
    have := coupling_identity_passthrough (NF.realX e) c (dmask.map Prod.fst) B S (X r) (P r) false #[] (b := b)
      (by rw [hlen]; exact hch) hs hni
    rwa [hlen] at this
  refine ⟨h1, h2, ?_⟩
  rw [getD_congr h1 0]
  have := hX.getD (e := e) (flatIdx dmask.length S b ch s)
  rw [d_zero] at this
  refine this.congr_fun (fun r => ?_)
  rw [realX_zero]
  exact (getD_congr (h2 r) 0).symm

/-- **(c3) the row log-dets.**  Entry `b` of the dual layer's log-det is the (value, derivative) pair at `t` of entry `b` of the
    REAL executed layer's log-det along the curve: the tangent of the (left-folded) sum is the derivative of the real sum. -/
theorem coupling_rq_dual_ld (hin : LayerInterior e c (dmask.map Prod.fst) B S (X t) (P t)) {b : ℕ} (hb : b < B) :
    IsDual (fun r => (couplingApply (NF.realX e) c (dmask.map Prod.fst) B S (X r) (P r) false).ld.getD b 0) t
      ((couplingApply (dualX (NF.realX e)) c dmask B S dX dP false).ld.getD b 0) := by
  have hT : transformIdx (dualX (NF.realX e)) dmask = transformIdx (NF.realX e) (dmask.map Prod.fst) := transformIdx_dual dmask
  have hlen : (dmask.map Prod.fst).length = dmask.length := List.length_map _
  set mask := dmask.map Prod.fst with hmask
  -- the per-element statement, for every element of row `b`
  have hel : ∀ ts ∈ rowIter (transformIdx (NF.realX e) mask).length S,
      (∃ v, couplingEl (dualX (NF.realX e)) c (transformIdx (NF.realX e) mask).length S dP false b ts.1 ts.2
        (dX.getD (flatIdx dmask.length S b ((transformIdx (NF.realX e) mask).getD ts.1 0) ts.2) (dualX (NF.realX e)).zero) = .ok v) ∧
      IsDual (fun r => ldOf (NF.realX e) (couplingEl (NF.realX e) c (transformIdx (NF.realX e) mask).length S (P r) false b ts.1 ts.2
          ((X r).getD (flatIdx dmask.length S b ((transformIdx (NF.realX e) mask).getD ts.1 0) ts.2) (NF.realX e).zero))) t
        (ldOf (dualX (NF.realX e)) (couplingEl (dualX (NF.realX e)) c (transformIdx (NF.realX e) mask).length S dP false b ts.1 ts.2
          (dX.getD (flatIdx dmask.length S b ((transformIdx (NF.realX e) mask).getD ts.1 0) ts.2) (dualX (NF.realX e)).zero))) := by
    rintro ⟨tp, s⟩ hts
    obtain ⟨htp, hs⟩ := mem_rowIter.1 hts
    have hin' := hin b tp s hb htp hs
    rw [hlen] at hin'
    obtain ⟨y', l', hrun, _, hl⟩ := couplingEl_rq_dual hk ht hX hP (transformIdx (NF.realX e) mask).length S b tp s _ hin'
    refine ⟨⟨_, hrun⟩, ?_⟩
    simp only [ldOf_couplingEl_real hk]
    rw [hrun]
    exact ⟨rfl, hl⟩
  -- the dual layer
  have hdual := coupling_ld_leftfold (dualX (NF.realX e)) c dmask B S dX dP false none #[] hb (by
    rw [rowResults_none, hT]
    intro r hr
    obtain ⟨ts, hts, rfl⟩ := List.mem_map.1 hr
    exact (hel ts hts).1)
  rw [rowResults_none, hT, List.map_map] at hdual
  rw [list_getD_of_getElem? hdual]
  -- the real layer at every curve parameter
  have hreal : ∀ r, (couplingApply (NF.realX e) c mask B S (X r) (P r) false).ld.getD b 0
      = ((rowIter (transformIdx (NF.realX e) mask).length S).map (fun ts =>
          ldOf (NF.realX e) (couplingEl (NF.realX e) c (transformIdx (NF.realX e) mask).length S (P r) false b ts.1 ts.2
          ((X r).getD (flatIdx dmask.length S b ((transformIdx (NF.realX e) mask).getD ts.1 0) ts.2) (NF.realX e).zero)))).foldl
          (NF.realX e).add (NF.realX e).zero := fun r => by
    have h := coupling_ld_getElem? (NF.realX e) c mask S false none #[] (X r) (P r) hb
    rw [list_getD_of_getElem? h, ldFold_real]
    have h2 := rowResults_none (NF.realX e) c mask S (X r) (P r) #[] false b
    unfold rowResults at h2
    rw [h2, List.map_map, hlen]
    rfl
  have hL := IsDualL.mapIdx (t := t) (rowIter (transformIdx (NF.realX e) mask).length S) (fun ts hts => (hel ts hts).2)
  exact (foldl_add_dual e (IsDual.zero e t) hL).congr_fun (fun r => (hreal r).symm)

/-- **(c4) the dual layer reports no error** (every transformed element of every row succeeded on duals) -/
theorem coupling_rq_dual_err_none (hin : LayerInterior e c (dmask.map Prod.fst) B S (X t) (P t)) :
    (couplingApply (dualX (NF.realX e)) c dmask B S dX dP false).err = none := by
  have hT : transformIdx (dualX (NF.realX e)) dmask = transformIdx (NF.realX e) (dmask.map Prod.fst) := transformIdx_dual dmask
  have hlen : (dmask.map Prod.fst).length = dmask.length := List.length_map _
  rw [coupling_err_none_iff, ucAll_none, List.nil_append, condAll_eq]
  intro u hu
  obtain ⟨b, tp, s, hb, htp, hs, rfl⟩ := (mem_tAll ..).1 hu
  rw [hT] at htp
  have hin' := hin b tp s hb htp hs
  rw [hlen] at hin'
  obtain ⟨y', l', hrun, _, _⟩ := couplingEl_rq_dual hk ht hX hP
    (transformIdx (NF.realX e) (dmask.map Prod.fst)).length S b tp s _ hin'
  rw [← hT] at hrun
  exact ⟨_, hrun⟩

/-- **(c) every output entry.**  Each entry `(b, ch, s)` of the dual layer's output — identity or transformed channel — is the
    (value, derivative) pair at `t` of the same entry of the REAL executed layer along the curve `r ↦ (X r, P r)`. -/
theorem coupling_rq_dual_out (hsz : B * dmask.length * S ≤ dX.size)
    (hin : LayerInterior e c (dmask.map Prod.fst) B S (X t) (P t))
    {b ch s : ℕ} (hb : b < B) (hch : ch < dmask.length) (hs : s < S) :
    IsDual (fun r => (couplingApply (NF.realX e) c (dmask.map Prod.fst) B S (X r) (P r) false).out.getD
          (flatIdx dmask.length S b ch s) 0) t
      ((couplingApply (dualX (NF.realX e)) c dmask B S dX dP false).out.getD (flatIdx dmask.length S b ch s) 0) := by
  by_cases hmem : ch ∈ transformIdx (NF.realX e) (dmask.map Prod.fst)
  · obtain ⟨tp, htp, rfl⟩ := exists_getD_of_mem hmem
    exact coupling_rq_dual_transformed hk ht dmask B S hX hP hsz hin hb htp hs
  · exact (coupling_dual_identity (c := c) dmask B S hX (dP := dP) (b := b) hch hs hmem).2.2

end layer

/-! ## non-vacuity -/

private theorem bz3 : ((0.0:Float) == 0.0) = true := by decide +kernel
private theorem bo3 : ((1.0:Float) == 0.0) = false := by decide +kernel

/-- (a) on the accepted one-bin configuration of `RQWhole.valid_example`, along a NON-LINEAR curve of parameters:
    widths `[sin s]`, heights `[exp s - 1]`, derivatives `[sin s, 0]`, input `x + s·x'`, at `s = 0` -/
theorem rqSpline_dual_param_curve_example (x x' : ℝ) (h0 : 0 < x) (h1 : x < 1) :
    ∃ v' l' : ℝ, rqSpline (dualX (NF.realX eNV)) cNV [(0, 1)] [(0, 1)] [(0, 1), (0, 0)] false (x, x')
        = .ok ((val eNV cNV [0] [0] [0, 0] x, v'), (ld eNV cNV [0] [0] [0, 0] x, l')) ∧
      HasDerivAt (fun s => val eNV cNV [Real.sin s] [Real.exp s - 1] [Real.sin s, 0] (x + s * x')) v' 0 ∧
      HasDerivAt (fun s => ld eNV cNV [Real.sin s] [Real.exp s - 1] [Real.sin s, 0] (x + s * x')) l' 0 := by
  have dsin : IsDual Real.sin 0 (0, 1) := ⟨by simp, by simpa using Real.hasDerivAt_sin 0⟩
  have dexp : IsDual (fun s => Real.exp s - 1) 0 (0, 1) := ⟨by simp, by simpa using (Real.hasDerivAt_exp 0).sub_const 1⟩
  have hW : IsDualL (fun s => [Real.sin s]) 0 [(0, 1)] := IsDualL.cons dsin (IsDualL.nil 0)
  have hH : IsDualL (fun s => [Real.exp s - 1]) 0 [(0, 1)] := IsDualL.cons dexp (IsDualL.nil 0)
  have hD : IsDualL (fun s => [Real.sin s, 0]) 0 [(0, 1), (0, 0)] :=
    IsDualL.cons dsin (IsDualL.cons (IsDual.const 0 0) (IsDualL.nil 0))
  have hX : IsDual (fun s : ℝ => x + s * x') 0 (x, x') :=
    ⟨by simp, by simpa using ((hasDerivAt_id (0:ℝ)).mul_const x').const_add x⟩
  have hv := valid_example
  have hx0 : xs eNV cNV [0] 0 = 0 := by rw [xs_zero hv]; simp [eNV, cNV, bz3]
  have hx1 : xs eNV cNV [0] (0+1) = 1 := by
    have := xs_last hv
    simp only [List.length_singleton] at this
    rw [this]; simp [eNV, cNV, bo3]
  have := rqSpline_dual_param_curve (e := eNV) (c := cNV) hW hH hD hX
    (by simpa using hv)
    (by
      intro k hk
      have : ([Real.sin 0, 0] : List ℝ).getD k 0 = 0 := by
        rcases k with _|_|k
        · simp
        · simp
        · simp at hk
      show eNV cNV.beta * ([Real.sin 0, 0] : List ℝ).getD k 0 ≠ 20
      rw [this]; norm_num)
    0 (by simp) (by simpa [hx0] using h0) (by simpa [hx1] using h1)
  simpa using this

/-- a bounded RQ coupling element WITH the `1/sqrt(hidden_features)` scaling of widths and heights switched on -/
def cS : ElCfg :=
  { container := "coupling", kind := "rq", K := 1, ds := #[0.0, 1.0, 0.0, 1.0, 0.0, 0.0, 0.0, 1.0], hiddenFeatures := 4.0 }

theorem cS_scaling : cS.scaling.2 = (true, true) := by
  have : ((4.0 : Float) != 0.0) = true := by decide +kernel
  simp [ElCfg.scaling, cS, this]

theorem rqW_length {α : Type} (o : XOps α) (c : ElCfg) (p : List α) : (rqW o c p).length = min c.K p.length := by
  unfold rqW rqScale; split <;> simp
theorem rqH_length {α : Type} (o : XOps α) (c : ElCfg) (p : List α) : (rqH o c p).length = min c.K (p.length - c.K) := by
  unfold rqH rqScale; split <;> simp
theorem rqD_length {α : Type} (c : ElCfg) (p : List α) : (rqD c p).length = p.length - 2 * c.K := by
  unfold rqD; simp

/-- every raw row `[w, h, 0, 0]` with the input strictly inside the unit box is an interior element of `cS` -/
theorem cS_interior (w h x : ℝ) (h0 : 0 < x) (h1 : x < 1) : RQElInterior eNV cS [w, h, 0, 0] x := by
  have hv : RQValid eNV (rqCfgOf cS) (rqW (NF.realX eNV) cS [w, h, 0, 0]) (rqH (NF.realX eNV) cS [w, h, 0, 0])
      (rqD cS [w, h, 0, 0]) :=
    DualX.RQValid.of_length (show RQValid eNV (rqCfgOf cS) [0] [0] [0, 0] from valid_example)
      (by rw [rqW_length]; rfl) (by rw [rqH_length]; rfl) (by rw [rqD_length]; rfl)
  have hl : (rqW (NF.realX eNV) cS [w, h, 0, 0]).length = 1 := by rw [rqW_length]; rfl
  refine ⟨hv, ?_, 0, by rw [hl]; exact Nat.one_pos, ?_, ?_⟩
  · intro k hk
    have hd : rqD cS [w, h, 0, 0] = [0, 0] := by simp [rqD, cS]
    rw [hd] at hk ⊢
    have : ([0, 0] : List ℝ).getD k 0 = 0 := by
      rcases k with _|_|k
      · rfl
      · rfl
      · simp at hk
    rw [this]; norm_num
  · rw [xs_zero hv]
    have : eNV (rqCfgOf cS).box.left = 0 := by simp [eNV, rqCfgOf, cS, bz3]
    rw [this]; exact h0
  · have := xs_last hv
    rw [hl] at this
    rw [this]
    have : eNV (rqCfgOf cS).box.right = 1 := by simp [eNV, rqCfgOf, cS, bo3]
    rw [this]; exact h1

/-- (b) one element of `cS` (scaling on), the raw row moving along the NON-LINEAR curve `[sin s, exp s - 1, 0, 0]` -/
theorem elTransform_rq_dual_example (x x' : ℝ) (h0 : 0 < x) (h1 : x < 1) :
    ∃ y' l' : ℝ, elTransform (dualX (NF.realX eNV)) cS false [(0, 1), (0, 1), (0, 0), (0, 0)] (x, x')
        = .ok ((elY eNV cS [0, 0, 0, 0] x, y'), (elL eNV cS [0, 0, 0, 0] x, l'), []) ∧
      HasDerivAt (fun s => elY eNV cS [Real.sin s, Real.exp s - 1, 0, 0] (x + s * x')) y' 0 ∧
      HasDerivAt (fun s => elL eNV cS [Real.sin s, Real.exp s - 1, 0, 0] (x + s * x')) l' 0 := by
  have dsin : IsDual Real.sin 0 (0, 1) := ⟨by simp, by simpa using Real.hasDerivAt_sin 0⟩
  have dexp : IsDual (fun s => Real.exp s - 1) 0 (0, 1) := ⟨by simp, by simpa using (Real.hasDerivAt_exp 0).sub_const 1⟩
  have hP : IsDualL (fun s => [Real.sin s, Real.exp s - 1, 0, 0]) 0 [(0, 1), (0, 1), (0, 0), (0, 0)] :=
    IsDualL.cons dsin (IsDualL.cons dexp (IsDualL.cons (IsDual.const 0 0) (IsDualL.cons (IsDual.const 0 0) (IsDualL.nil 0))))
  have hX : IsDual (fun s : ℝ => x + s * x') 0 (x, x') :=
    ⟨by simp, by simpa using ((hasDerivAt_id (0:ℝ)).mul_const x').const_add x⟩
  have := elTransform_rq_dual (e := eNV) (c := cS) rfl rfl hP hX (by simpa using cS_interior _ _ x h0 h1)
  simpa using this


theorem transformIdx_example : transformIdx (NF.realX eNV) [0, 1] = [1] := by
  simp [transformIdx, XOps.gt, List.range_succ]

/-- (c) a two-channel layer (`mask = [0, 1]`: channel 0 identity, channel 1 transformed by `cS`), one row, whose conditioner
    is ANY pair of functions `g1`, `g2` of the identity feature, differentiable at `z` (they produce the width / height logits;
    the two derivative parameters are the constants `0`).  The dual layer, seeded with the direction `(z', x')` on the input
    and with the conditioner's (value, derivative·z') pairs as its recorded output, returns: the identity feature with its
    tangent, the transformed feature with the TOTAL derivative of the real layer `r ↦ layer(z + r z', x + r x'; g(z + r z'))`,
    and the row log-det with the derivative of the real row log-det. -/
theorem coupling_rq_dual_example (g1 g2 : ℝ → ℝ) (g1' g2' z z' x x' : ℝ) (hg1 : HasDerivAt g1 g1' z) (hg2 : HasDerivAt g2 g2' z)
    (h0 : 0 < x) (h1 : x < 1) :
    (couplingApply (dualX (NF.realX eNV)) cS [(0, 0), (1, 0)] 1 1 #[(z, z'), (x, x')]
        #[(g1 z, g1' * z'), (g2 z, g2' * z'), (0, 0), (0, 0)] false).out[0]? = some (z, z') ∧
    IsDual (fun r => (couplingApply (NF.realX eNV) cS [0, 1] 1 1 #[z + r * z', x + r * x']
        #[g1 (z + r * z'), g2 (z + r * z'), 0, 0] false).out.getD 1 0) 0
      ((couplingApply (dualX (NF.realX eNV)) cS [(0, 0), (1, 0)] 1 1 #[(z, z'), (x, x')]
        #[(g1 z, g1' * z'), (g2 z, g2' * z'), (0, 0), (0, 0)] false).out.getD 1 0) ∧
    IsDual (fun r => (couplingApply (NF.realX eNV) cS [0, 1] 1 1 #[z + r * z', x + r * x']
        #[g1 (z + r * z'), g2 (z + r * z'), 0, 0] false).ld.getD 0 0) 0
      ((couplingApply (dualX (NF.realX eNV)) cS [(0, 0), (1, 0)] 1 1 #[(z, z'), (x, x')]
        #[(g1 z, g1' * z'), (g2 z, g2' * z'), (0, 0), (0, 0)] false).ld.getD 0 0) := by
  have hline : ∀ a a' : ℝ, IsDual (fun r : ℝ => a + r * a') 0 (a, a') := fun a a' =>
    ⟨by simp, by simpa using ((hasDerivAt_id (0:ℝ)).mul_const a').const_add a⟩
  have hcomp : ∀ (g : ℝ → ℝ) (g' : ℝ), HasDerivAt g g' z → IsDual (fun r : ℝ => g (z + r * z')) 0 (g z, g' * z') := by
    intro g g' hg
    refine ⟨by simp, ?_⟩
    have hg0 : HasDerivAt g g' (z + 0 * z') := by simpa using hg
    exact hg0.comp (0:ℝ) (hline z z').2
  have hXA : IsDualA (fun r : ℝ => #[z + r * z', x + r * x']) 0 #[(z, z'), (x, x')] :=
    IsDualL.cons (hline z z') (IsDualL.cons (hline x x') (IsDualL.nil 0))
  have hPA : IsDualA (fun r : ℝ => #[g1 (z + r * z'), g2 (z + r * z'), 0, 0]) 0
      #[(g1 z, g1' * z'), (g2 z, g2' * z'), (0, 0), (0, 0)] :=
    IsDualL.cons (hcomp g1 g1' hg1) (IsDualL.cons (hcomp g2 g2' hg2)
      (IsDualL.cons (IsDual.const 0 0) (IsDualL.cons (IsDual.const 0 0) (IsDualL.nil 0))))
  have hmask : ([(0, 0), (1, 0)] : List (ℝ × ℝ)).map Prod.fst = [0, 1] := rfl
  have hm : cS.mult = 4 := by decide
  have hin : LayerInterior eNV cS (([(0, 0), (1, 0)] : List (ℝ × ℝ)).map Prod.fst) 1 1
      ((fun r : ℝ => #[z + r * z', x + r * x']) 0) ((fun r : ℝ => #[g1 (z + r * z'), g2 (z + r * z'), 0, 0]) 0) := by
    rw [hmask]
    intro b tp s hb htp hs
    rw [transformIdx_example] at htp ⊢
    obtain rfl : b = 0 := by omega
    obtain rfl : s = 0 := by omega
    obtain rfl : tp = 0 := by simpa using htp
    have hsl : condSlice (NF.realX eNV) cS.mult ([1] : List ℕ).length 1
        (#[g1 (z + 0 * z'), g2 (z + 0 * z'), 0, 0] : Array ℝ) 0 0 0 = [g1 (z + 0 * z'), g2 (z + 0 * z'), 0, 0] := by
      rw [hm]; simp [condSlice, List.range_succ]
    have hxv : (#[z + 0 * z', x + 0 * x'] : Array ℝ).getD (flatIdx ([0, 1] : List ℝ).length 1 0 (([1] : List ℕ).getD 0 0) 0)
        (NF.realX eNV).zero = x := by simp [flatIdx]
    show RQElInterior eNV cS (condSlice (NF.realX eNV) cS.mult ([1] : List ℕ).length 1
        (#[g1 (z + 0 * z'), g2 (z + 0 * z'), 0, 0] : Array ℝ) 0 0 0)
      ((#[z + 0 * z', x + 0 * x'] : Array ℝ).getD (flatIdx ([0, 1] : List ℝ).length 1 0 (([1] : List ℕ).getD 0 0) 0)
        (NF.realX eNV).zero)
    rw [hsl, hxv]
    exact cS_interior _ _ x h0 h1
  have hT := coupling_rq_dual_transformed (e := eNV) (c := cS) rfl rfl [(0, 0), (1, 0)] 1 1 hXA hPA (by simp) hin
    (b := 0) (tp := 0) (s := 0) Nat.one_pos (by rw [hmask, transformIdx_example]; exact Nat.one_pos) Nat.one_pos
  have hL := coupling_rq_dual_ld (e := eNV) (c := cS) rfl rfl [(0, 0), (1, 0)] 1 1 hXA hPA hin (b := 0) Nat.one_pos
  have hI := (coupling_dual_identity (e := eNV) (c := cS) (X := fun r : ℝ => #[z + r * z', x + r * x'])
    (P := fun r : ℝ => #[g1 (z + r * z'), g2 (z + r * z'), 0, 0]) [(0, 0), (1, 0)] 1 1 hXA
    (dP := #[(g1 z, g1' * z'), (g2 z, g2' * z'), (0, 0), (0, 0)]) (b := 0) (ch := 0) (s := 0) (by simp) Nat.one_pos
    (by rw [hmask, transformIdx_example]; simp)).1
  rw [hmask, transformIdx_example] at hT
  rw [hmask] at hL
  exact ⟨by simpa [flatIdx] using hI, by simpa [flatIdx] using hT, hL⟩

end
end DualXCoupling
