import NflowsModel.Properties.C03
import NflowsModel.Lemmas.FlowPushforward
import NflowsModel.Lemmas.FlowBounded
import NflowsModel.Lemmas.NonlinExec
import NflowsModel.Lemmas.FlowWholeND
import NflowsModel.Lemmas.FlowRowsExec
/-!
# Lemmas/FlowMore — C03 for `Sigmoid` / `Logit` stages, for a `MADEMoG` (or ANY normalised) base, and with an embedding net

Closes the three gaps named in the header of `Properties/C03.lean`.

* §1 `Sigmoid` : ℝ → (0,1) and `Logit` : (0,1) → ℝ (temperature `T > 0`): `sigmoid_change_of_variables`,
  `sigmoid_flow_normalised(_density)`, `logit_change_of_variables`, `logit_flow_normalised`; with the EXECUTED base rows:
  `sigmoid_uniform_flow_normalised` (`BoxUniform(0,1)`), `logit_stdNormal_flow_normalised`.  The normalisation is for the EXACT
  log-det `sigLdIdeal`; the executed `Sigmoid.forward` evaluates it with the thresholded `F.softplus`, which is exact for `|T x| ≤ 20`
  only (`sigmoidExecLogProb_exact`, `sigmoid_executed_exact_region`) and exceeds it by `log (1 + e^{−|T x|}) ≤ e⁻²⁰` beyond
  (`sigmoidExecLogProb_gap`): the executed flow density integrates to a number in `[1, exp (e⁻²⁰)]`
  (`sigmoid_executed_flow_almost_normalised`, §5).  The executed `Logit.forward` is the exact map strictly inside its clamp
  `[ε̂, 1 − ε̂]` (`logit_executed_eq`) and clamps outside (declared approximation).
* §2 any base: `flow_normalised_any_base` (`FlowFns0`, hypothesis bundle `DiffeoFlow`), `flow_normalised_any_base_prog`
  (`progFlow parts blp`), MoG: `mogLogp`, `mogRow_eq_mogLogp` (it IS the executed `Density.mogRow`), `mog_base_normalised`,
  `flow_normalised_mog_base`, `flow_normalised_mog_base'`, `flow_normalised_mogRow_base`, `logit_mog_flow_normalised`.
* §3 embedding net: `withEmb`, `flowLogProb1_withEmb`, `flowLogProb_withEmb`, `flowSample_withEmb`, `flowSalp_withEmb`,
  `flowLogProbExec_embedding` (the executed array-level `flowLogProbExec`), `flow_with_embedding_normalised`, `cond_flow_normalised`,
  `flow_with_embedding_normalised_nd`; instance `ctxAffine`.
* §4 element-wise layers in n dimensions: `pi_change_of_variables`, `sigmoid_flow_normalised_nd`, `logit_flow_normalised_nd`,
  `logit_stdNormal_flow_normalised_nd`, `logit_mog_flow_normalised_nd`, `sigmoid_uniform_flow_normalised_nd`.
-/
open MeasureTheory NF NF.FlowPairing DualX

namespace FlowMore
noncomputable section
open NonlinExec

/-! ## 1. `Sigmoid` : ℝ → (0,1) and `Logit` : (0,1) → ℝ -/

/-- `x ↦ σ(T x)` maps the line ONTO the open unit interval (`T ≠ 0`) -/
theorem sigmoid_image_univ {T : ℝ} (hT : T ≠ 0) : (fun x => gate (T * x)) '' Set.univ = Set.Ioo (0:ℝ) 1 := by
  ext u
  constructor
  · rintro ⟨x, _, rfl⟩; exact ⟨gate_pos _, gate_lt_one _⟩
  · rintro ⟨h0, h1⟩
    refine ⟨1 / T * logit u, trivial, ?_⟩
    have hx : T * (1 / T * logit u) = logit u := by field_simp
    show gate (T * (1 / T * logit u)) = u
    rw [hx, gate_logit h0 h1]

theorem sigmoid_injective {T : ℝ} (hT : T ≠ 0) : Function.Injective (fun x => gate (T * x)) := by
  intro a b h
  have := congrArg logit h
  simp only [logit_gate] at this
  exact mul_left_cancel₀ hT this

/-- **change of variables through `Sigmoid`** (`0 < T`, any base `p`): the mass of `p` on `(0,1)` is the integral over the whole
    line of `p (σ(T x)) · exp(ld x)`, `ld` the EXACT log-derivative `log T − log(1+e^{−Tx}) − log(1+e^{Tx})` -/
theorem sigmoid_change_of_variables {T : ℝ} (hT : 0 < T) (p : ℝ → ℝ) :
    ∫ z in Set.Ioo (0:ℝ) 1, p z = ∫ x, p (gate (T * x)) * Real.exp (sigLdIdeal T (T * x)) := by
  have h := FlowPushforward.integral_image_countable_exception (fun x => gate (T * x))
    (fun x => Real.exp (sigLdIdeal T (T * x))) (fun x => sigLdIdeal T (T * x)) p Set.univ ∅ MeasurableSet.univ
    Set.countable_empty (sigmoid_injective hT.ne').injOn
    (fun x _ => (hasDerivAt_gate hT x).hasDerivWithinAt) (fun x _ => abs_of_pos (Real.exp_pos _))
  rw [sigmoid_image_univ hT.ne'] at h
  rw [h, Measure.restrict_univ]

/-- **C03, `Sigmoid` stage, density form**: a base density on `(0,1)` that integrates to one there, pulled back through
    `x ↦ σ(T x)` with the exact log-det, integrates to one over ℝ.  (No measurability / sign condition on `p`.) -/
theorem sigmoid_flow_normalised_density {T : ℝ} (hT : 0 < T) (p : ℝ → ℝ) (hp : ∫ z in Set.Ioo (0:ℝ) 1, p z = 1) :
    ∫ x, p (gate (T * x)) * Real.exp (sigLdIdeal T (T * x)) = 1 := by
  rw [← sigmoid_change_of_variables hT p, hp]

/-- **C03, `Sigmoid` stage** in the form `Flow._log_prob` computes: `exp (base.log_prob (σ(T x)) + logabsdet x)` -/
theorem sigmoid_flow_normalised {T : ℝ} (hT : 0 < T) (blp : ℝ → ℝ)
    (hp : ∫ z in Set.Ioo (0:ℝ) 1, Real.exp (blp z) = 1) :
    ∫ x, Real.exp (blp (gate (T * x)) + sigLdIdeal T (T * x)) = 1 := by
  simp_rw [Real.exp_add]
  exact sigmoid_flow_normalised_density hT (fun z => Real.exp (blp z)) hp

/-! ### the EXECUTED `Sigmoid.forward` (`sigmoidT … false`): value `σ(T x)`, log-det with the THRESHOLDED softplus -/

/-- what the executed stage contributes to `Flow._log_prob`: base log-density at the value the program returns plus the log-det the
    program returns -/
def sigmoidExecLogProb (e : Float → ℝ) (T : ℝ) (eps : Float) (blp : ℝ → ℝ) (x : ℝ) : ℝ :=
  blp (outY (sigmoidT (NF.realX e) T eps false x)) + outL (sigmoidT (NF.realX e) T eps false x)

theorem sigmoidExecLogProb_eq (e : Float → ℝ) (T : ℝ) (eps : Float) (blp : ℝ → ℝ) (x : ℝ) :
    sigmoidExecLogProb e T eps blp x = blp (gate (T * x)) + sigLd T (T * x) := by
  unfold sigmoidExecLogProb; rw [sigmoidT_fwd_run]; rfl

/-- within the softplus thresholds `|T x| ≤ 20` the executed log-prob is the exact one … -/
theorem sigmoidExecLogProb_exact (e : Float → ℝ) (T : ℝ) (eps : Float) (blp : ℝ → ℝ) {x : ℝ} (h : |T * x| ≤ 20) :
    sigmoidExecLogProb e T eps blp x = blp (gate (T * x)) + sigLdIdeal T (T * x) := by
  rw [sigmoidExecLogProb_eq, sigLd_eq_ideal T h]

/-- … beyond them it EXCEEDS the exact one by `log (1 + e^{−|T x|}) ∈ (0, e⁻²⁰]`: the executed `Sigmoid` flow density is NOT
    exactly normalised (finding; declared approximation of `F.softplus`) -/
theorem sigmoidExecLogProb_gap (e : Float → ℝ) (T : ℝ) (eps : Float) (blp : ℝ → ℝ) {x : ℝ} (h : 20 < |T * x|) :
    sigmoidExecLogProb e T eps blp x = blp (gate (T * x)) + sigLdIdeal T (T * x) + Real.log (1 + Real.exp (-|T * x|))
    ∧ 0 < Real.log (1 + Real.exp (-|T * x|)) ∧ Real.log (1 + Real.exp (-|T * x|)) ≤ Real.exp (-20) := by
  refine ⟨?_, gap_pos _, gap_le h⟩
  rw [sigmoidExecLogProb_eq, sigLd_gap T h]; ring

theorem gate_strictMono : StrictMono gate := by
  intro a b hab
  unfold gate
  have h1 : Real.exp (-b) < Real.exp (-a) := Real.exp_lt_exp.mpr (by linarith)
  exact one_div_lt_one_div_of_lt (by positivity) (by linarith)

/-- the exact region `{x | |T x| ≤ 20}` is mapped by `x ↦ σ(T x)` onto `[σ(−20), σ(20)]` -/
theorem sigmoid_image_region {T : ℝ} (hT : T ≠ 0) :
    (fun x => gate (T * x)) '' {x | |T * x| ≤ 20} = Set.Icc (gate (-20)) (gate 20) := by
  ext u
  constructor
  · rintro ⟨x, hx, rfl⟩
    obtain ⟨h1, h2⟩ := abs_le.mp (show |T * x| ≤ 20 from hx)
    exact ⟨gate_strictMono.monotone h1, gate_strictMono.monotone h2⟩
  · rintro ⟨h1, h2⟩
    have h0 : 0 < u := lt_of_lt_of_le (gate_pos _) h1
    have h1' : u < 1 := lt_of_le_of_lt h2 (gate_lt_one _)
    have hx : T * (1 / T * logit u) = logit u := by field_simp
    refine ⟨1 / T * logit u, ?_, ?_⟩
    · show |T * (1 / T * logit u)| ≤ 20
      rw [hx, abs_le]
      rw [← gate_logit h0 h1'] at h1 h2
      exact ⟨gate_strictMono.le_iff_le.mp h1, gate_strictMono.le_iff_le.mp h2⟩
    · show gate (T * (1 / T * logit u)) = u
      rw [hx, gate_logit h0 h1']

theorem measurableSet_region (T : ℝ) : MeasurableSet {x : ℝ | |T * x| ≤ 20} :=
  (isClosed_le (by fun_prop) (by fun_prop)).measurableSet

/-- **the EXECUTED `Sigmoid` stage on the region where its log-det is exact**: over `{x | |T x| ≤ 20}` the integral of
    `exp` of the executed log-prob is the mass of the base on `[σ(−20), σ(20)]` (all of `(0,1)` but `2·σ(−20) ≈ 4·10⁻⁹`) -/
theorem sigmoid_executed_exact_region (e : Float → ℝ) {T : ℝ} (hT : 0 < T) (eps : Float) (blp : ℝ → ℝ) :
    ∫ x in {x | |T * x| ≤ 20}, Real.exp (sigmoidExecLogProb e T eps blp x)
      = ∫ z in Set.Icc (gate (-20)) (gate 20), Real.exp (blp z) := by
  have h := FlowPushforward.integral_image_countable_exception (fun x => gate (T * x))
    (fun x => Real.exp (sigLdIdeal T (T * x))) (fun x => sigLdIdeal T (T * x)) (fun z => Real.exp (blp z))
    {x | |T * x| ≤ 20} ∅ (measurableSet_region T) Set.countable_empty (sigmoid_injective hT.ne').injOn
    (fun x _ => (hasDerivAt_gate hT x).hasDerivWithinAt) (fun x _ => abs_of_pos (Real.exp_pos _))
  rw [sigmoid_image_region hT.ne'] at h
  rw [h]
  apply setIntegral_congr_fun (measurableSet_region T)
  intro x hx
  show Real.exp (sigmoidExecLogProb e T eps blp x) = _
  rw [sigmoidExecLogProb_exact e T eps blp hx, Real.exp_add]

/-! ### uniform base on the unit interval (the executed `BoxUniform(0, 1)` row) -/

theorem uniformDensity_unit_normalised (e : Float → ℝ) : ∫ z in Set.Ioo (0:ℝ) 1, FlowBounded.uniformDensity e 0 1 z = 1 := by
  rw [← integral_Icc_eq_integral_Ioo]
  exact FlowBounded.uniformDensity_normalised e 0 1 one_pos

/-- **`Flow(Sigmoid(T), BoxUniform(0,1))` is normalised over ℝ** (executed base row; exact log-det), every temperature `T > 0` -/
theorem sigmoid_uniform_flow_normalised (e : Float → ℝ) {T : ℝ} (hT : 0 < T) :
    ∫ x, (if Density.insideBox (NF.realX e) [0] [1] [gate (T * x)] = true
        then Real.exp (Density.boxUniformRow (NF.realX e) [0] [1] [gate (T * x)] + sigLdIdeal T (T * x)) else 0) = 1 := by
  have := sigmoid_flow_normalised_density hT (FlowBounded.uniformDensity e 0 1) (uniformDensity_unit_normalised e)
  refine Eq.trans ?_ this
  congr 1; funext x
  unfold FlowBounded.uniformDensity
  split
  · rw [Real.exp_add]
  · simp

/-- the support test never fails on a sigmoid output and the uniform log-density there is `0`: the flow's log-prob is the log-det -/
theorem sigmoid_uniform_logprob (e : Float → ℝ) (T x : ℝ) :
    Density.insideBox (NF.realX e) [0] [1] [gate (T * x)] = true ∧
      Density.boxUniformRow (NF.realX e) [0] [1] [gate (T * x)] = 0 := by
  have hin : (0:ℝ) ≤ gate (T * x) ∧ gate (T * x) < 1 := ⟨(gate_pos _).le, gate_lt_one _⟩
  refine ⟨(FlowBounded.uniform1_inside e 0 1 _).mpr hin, ?_⟩
  rw [FlowBounded.uniform1_row e 0 1 _ hin]; simp

/-- non-vacuous instance: `T = 1`, uniform base: `∫ σ'(x) dx = 1` in the form the flow computes it -/
example (e : Float → ℝ) : ∫ x : ℝ, Real.exp (0 + sigLdIdeal 1 (1 * x)) = 1 := by
  have h := sigmoid_uniform_flow_normalised e (T := 1) one_pos
  simp_rw [(sigmoid_uniform_logprob e 1 _).1, (sigmoid_uniform_logprob e 1 _).2, if_true] at h
  exact h

/-! ### `Logit` : (0,1) → ℝ (the inverse direction; `InverseTransform(Sigmoid)`) -/

/-- the exact log-det of `y ↦ logit y / T` : `−(log T + log y + log (1 − y))` -/
def logitLd (T y : ℝ) : ℝ := -(Real.log T + Real.log y + Real.log (1 - y))

theorem logit_image_Ioo {T : ℝ} (hT : T ≠ 0) : (fun y => 1 / T * logit y) '' Set.Ioo (0:ℝ) 1 = Set.univ := by
  apply Set.eq_univ_of_forall
  intro x
  refine ⟨gate (T * x), ⟨gate_pos _, gate_lt_one _⟩, ?_⟩
  show 1 / T * logit (gate (T * x)) = x
  rw [logit_gate]; field_simp

theorem logit_injOn {T : ℝ} (hT : T ≠ 0) : Set.InjOn (fun y => 1 / T * logit y) (Set.Ioo (0:ℝ) 1) := by
  intro a ha b hb h
  have h' : logit a = logit b := mul_left_cancel₀ (one_div_ne_zero hT) h
  rw [← gate_logit ha.1 ha.2, ← gate_logit hb.1 hb.2, h']

theorem logit_abs_deriv {T y : ℝ} (hT : 0 < T) (h0 : 0 < y) (h1 : y < 1) :
    |1 / T * (1 / (y * (1 - y)))| = Real.exp (logitLd T y) := by
  have h1' : 0 < 1 - y := by linarith
  unfold logitLd
  rw [abs_of_pos (by positivity), Real.exp_neg, Real.exp_add, Real.exp_add, Real.exp_log hT, Real.exp_log h0, Real.exp_log h1']
  field_simp

/-- **change of variables through `Logit`** -/
theorem logit_change_of_variables {T : ℝ} (hT : 0 < T) (p : ℝ → ℝ) :
    ∫ z, p z = ∫ y in Set.Ioo (0:ℝ) 1, p (1 / T * logit y) * Real.exp (logitLd T y) := by
  have h := FlowPushforward.integral_image_countable_exception (fun y => 1 / T * logit y)
    (fun y => 1 / T * (1 / (y * (1 - y)))) (logitLd T) p (Set.Ioo 0 1) ∅ measurableSet_Ioo
    Set.countable_empty (logit_injOn hT.ne')
    (fun y hy => ((hasDerivAt_logit hy.1.1 hy.1.2).const_mul (1 / T)).hasDerivWithinAt)
    (fun y hy => logit_abs_deriv hT hy.1.1 hy.1.2)
  rw [logit_image_Ioo hT.ne', Measure.restrict_univ] at h
  exact h

/-- **C03, `Logit` stage**: data on `(0,1)`, `Logit` with temperature `T > 0`, ANY base on ℝ that integrates to one (Gaussian, MoG, …):
    `exp (base.log_prob (logit y / T) + logabsdet y)` integrates to one over `(0,1)` -/
theorem logit_flow_normalised {T : ℝ} (hT : 0 < T) (blp : ℝ → ℝ) (hp : ∫ z, Real.exp (blp z) = 1) :
    ∫ y in Set.Ioo (0:ℝ) 1, Real.exp (blp (1 / T * logit y) + logitLd T y) = 1 := by
  simp_rw [Real.exp_add]
  rw [← logit_change_of_variables hT (fun z => Real.exp (blp z)), hp]

/-- the EXECUTED `Logit.forward` (`sigmoidT … true`) returns exactly this value and this log-det strictly inside the clamp
    `[ε̂, 1 − ε̂]` and within the softplus thresholds (`|logit y| ≤ 20`, automatic for `ε̂ ≥ 2.1·10⁻⁹`).  Outside it CLAMPS (constant
    value, finite log-det: `NonlinExec.sigmoidT_inv_flat_lo`), so the executed `Logit` flow density is a declared approximation on
    `(0, ε̂) ∪ (1 − ε̂, 1)` -/
theorem logit_executed_eq {e : Float → ℝ} {T : ℝ} {eps : Float} {y : ℝ} (hc : SigmoidClamp e eps) (hT : T ≠ 0)
    (hlo : e eps ≤ y) (hhi : y ≤ e (1 - eps)) (hthr : |logit y| ≤ 20) :
    sigmoidT (NF.realX e) T eps true y = .ok (1 / T * logit y, logitLd T y) := by
  have h0 : 0 < y := by linarith [hc.hlo]
  have h1 : y < 1 := by linarith [hc.hhi]
  rw [sigmoidT_inv_run e T eps h0.le h1.le]
  have hcl : clampR (e eps) (e (1 - eps)) y = y := by
    unfold clampR; rw [max_eq_left hlo, min_eq_left hhi]
  have hx : T * (1 / T * logit y) = logit y := by field_simp
  rw [hcl, hx, sigLd_eq_ideal T hthr, sigLdIdeal_logit h0 h1]
  rfl

/-- instance: `Flow(Logit(T), StandardNormal([1]))` with the EXECUTED standard-normal row is normalised over `(0,1)` -/
theorem logit_stdNormal_flow_normalised (e : Float → ℝ) {T : ℝ} (hT : 0 < T) :
    ∫ y in Set.Ioo (0:ℝ) 1, Real.exp (Density.stdNormalRow (NF.realX e) 1 [1 / T * logit y] + logitLd T y) = 1 :=
  logit_flow_normalised hT (fun z => Density.stdNormalRow (NF.realX e) 1 [z]) (Properties.C03.stdNormal1_exec_normalised e)

example (e : Float → ℝ) :
    ∫ y in Set.Ioo (0:ℝ) 1, Real.exp (Density.stdNormalRow (NF.realX e) 1 [1 / 1 * logit y] + logitLd 1 y) = 1 :=
  logit_stdNormal_flow_normalised e one_pos

/-! ## 2. ANY normalised base in place of the Gaussian; the MADE mixture of Gaussians -/

open Properties.C03

/-- the hypothesis bundle of the n-D theorems (`Properties.C03.DiffeoN`) on an unconditional model flow `FlowFns0`: `tfwd` a
    bijection of ℝⁿ, Fréchet differentiable, `|det tfwd'| = exp ld` (C01 + C02 + C09 of the transform at hand) -/
structure DiffeoFlow {n : ℕ} (f : FlowFns0 (Fin n → ℝ) (Fin n → ℝ) ℝ)
    (T' : (Fin n → ℝ) → ((Fin n → ℝ) →L[ℝ] (Fin n → ℝ))) : Prop where
  hadd : ∀ a b, f.add a b = a + b
  hbij : Function.Bijective f.tfwd
  hd : ∀ x, HasFDerivAt f.tfwd (T' x) x
  habs : ∀ x, |(T' x).det| = Real.exp (f.ld x)

/-- **C03 with ANY base**: no measurability, sign or shape condition on the base log-density `f.blp` beyond `∫ exp (blp) = 1` -/
theorem flow_normalised_any_base {n : ℕ} (f : FlowFns0 (Fin n → ℝ) (Fin n → ℝ) ℝ)
    (T' : (Fin n → ℝ) → ((Fin n → ℝ) →L[ℝ] (Fin n → ℝ))) (h : DiffeoFlow f T')
    (hbase : ∫ z, Real.exp (f.blp z) = 1) :
    ∫ x, Real.exp (flowLogProb0 f x) = 1 := by
  have := ChangeOfVar.flow_normalised_nd f.tfwd T' f.ld (fun z => Real.exp (f.blp z)) h.hbij h.hd h.habs hbase
  simpa only [flowLogProb0, h.hadd, Real.exp_add] using this

/-- the model flow assembled from a program of library parts and a base log-density (`tinv` by choice: the parts are bijections) -/
def progFlow {n : ℕ} (parts : List (DiffeoN n)) (blp : (Fin n → ℝ) → ℝ) : FlowFns0 (Fin n → ℝ) (Fin n → ℝ) ℝ where
  tinv := Function.invFun (progN parts).T
  ldInv z := -(progN parts).ld (Function.invFun (progN parts).T z)
  tfwd := (progN parts).T
  ld := (progN parts).ld
  blp := blp
  add := (· + ·)
  sub := (· - ·)

theorem progFlow_diffeoFlow {n : ℕ} (parts : List (DiffeoN n)) (blp : (Fin n → ℝ) → ℝ) :
    DiffeoFlow (progFlow parts blp) (progN parts).T' where
  hadd := fun _ _ => rfl
  hbij := (progN parts).bij
  hd := (progN parts).deriv
  habs := (progN parts).ld_eq

/-- every program of library transforms (any nesting, any number of parts) over ANY normalised base -/
theorem flow_normalised_any_base_prog {n : ℕ} (parts : List (DiffeoN n)) (blp : (Fin n → ℝ) → ℝ)
    (hbase : ∫ z, Real.exp (blp z) = 1) :
    ∫ x, Real.exp (flowLogProb0 (progFlow parts blp) x) = 1 :=
  flow_normalised_any_base _ _ (progFlow_diffeoFlow parts blp) hbase

/-- `MixtureOfGaussiansMADE.log_prob` of one row (made.py:340-352): the sum over the features of the executed conditional
    `mogFeature`, whose parameters `lg i`, `μ i`, `u i` (MADE outputs for feature `i`) are functions of the prefix `x_{<i}` -/
def mogLogp (e : Float → ℝ) (eps : ℝ) {M : ℕ} (lg μ u : (i : ℕ) → (Fin i → ℝ) → Fin M → ℝ) {D : ℕ} (x : Fin D → ℝ) : ℝ :=
  ∑ i : Fin D, Density.mogFeature (NF.realX e) eps (List.ofFn (lg i (AutoregDensity.pre x i)))
    (List.ofFn (μ i (AutoregDensity.pre x i))) (List.ofFn (u i (AutoregDensity.pre x i))) (x i)

theorem range_map_eq_ofFn {β : Type} (D : ℕ) (g : ℕ → β) : (List.range D).map g = List.ofFn (fun i : Fin D => g i) := by
  rw [List.ofFn_eq_map, ← List.map_coe_finRange_eq_range, List.map_map]
  rfl

/-- **`mogLogp` IS the executed row program `Density.mogRow`** (`MixtureOfGaussiansMADE.log_prob`, made.py:330-352) whenever the flat
    MADE output row `out` (layout `(F, M, 3)`) holds, for feature `i`, the logits / means / unconstrained stds `lg i`, `μ i`, `u i`
    of the prefix `x_{<i}` (the autoregressive property, C06) -/
theorem mogRow_eq_mogLogp (e : Float → ℝ) (eps : ℝ) {M D : ℕ} (lg μ u : (i : ℕ) → (Fin i → ℝ) → Fin M → ℝ)
    (x : Fin D → ℝ) (out : List ℝ)
    (h0 : ∀ i : Fin D, Density.mogColumn M out i 0 0 = List.ofFn (lg i (AutoregDensity.pre x i)))
    (h1 : ∀ i : Fin D, Density.mogColumn M out i 1 0 = List.ofFn (μ i (AutoregDensity.pre x i)))
    (h2 : ∀ i : Fin D, Density.mogColumn M out i 2 0 = List.ofFn (u i (AutoregDensity.pre x i))) :
    Density.mogRow (NF.realX e) eps D M out (List.ofFn x) = mogLogp e eps lg μ u x := by
  unfold Density.mogRow mogLogp
  rw [NF.sumG_real, range_map_eq_ofFn, List.sum_ofFn]
  apply Finset.sum_congr rfl
  intro i _
  simp only [NF.realX_zero]
  rw [h0 i, h1 i, h2 i]
  congr 1
  simp

theorem measurable_mogLogp (e : Float → ℝ) (eps : ℝ) {M : ℕ} (hM : 0 < M) (lg μ u : (i : ℕ) → (Fin i → ℝ) → Fin M → ℝ)
    (hlg : ∀ i k, Measurable fun y => lg i y k) (hμ : ∀ i k, Measurable fun y => μ i y k)
    (hu : ∀ i k, Measurable fun y => u i y k) (D : ℕ) :
    Measurable (fun x : Fin D → ℝ => mogLogp e eps lg μ u x) := by
  unfold mogLogp
  refine Finset.measurable_sum _ (fun i _ => ?_)
  have h := DistReal.measurable_mogFeature e hM eps (lg i) (μ i) (u i) (hlg i) (hμ i) (hu i)
  have h2 : Measurable (fun x : Fin D → ℝ => (AutoregDensity.pre x i, x i)) :=
    (AutoregDensity.measurable_pre i).prodMk (measurable_pi_apply i)
  have h3 := h.comp h2
  rw [Function.comp_def] at h3
  exact h3

/-- `Properties.C05.mog_joint_normalised` as a Bochner integral of `exp (log_prob)` -/
theorem mog_base_normalised (e : Float → ℝ) {M : ℕ} (hM : 0 < M) (eps : ℝ) (heps : 0 < eps)
    (lg μ u : (i : ℕ) → (Fin i → ℝ) → Fin M → ℝ)
    (hlg : ∀ i k, Measurable fun y => lg i y k) (hμ : ∀ i k, Measurable fun y => μ i y k)
    (hu : ∀ i k, Measurable fun y => u i y k) (D : ℕ) :
    ∫ x : Fin D → ℝ, Real.exp (mogLogp e eps lg μ u x) = 1 := by
  have hL := Properties.C05.mog_joint_normalised e hM eps heps lg μ u hlg hμ hu D
  have hmeas := measurable_mogLogp e eps hM lg μ u hlg hμ hu D
  rw [integral_eq_lintegral_of_nonneg_ae (Filter.Eventually.of_forall fun x => (Real.exp_pos _).le)
    (Real.measurable_exp.comp hmeas).aestronglyMeasurable]
  have hprod : ∀ x : Fin D → ℝ, ENNReal.ofReal (Real.exp (mogLogp e eps lg μ u x))
      = ∏ i : Fin D, ENNReal.ofReal (Real.exp (Density.mogFeature (NF.realX e) eps
          (List.ofFn (lg i (AutoregDensity.pre x i))) (List.ofFn (μ i (AutoregDensity.pre x i)))
          (List.ofFn (u i (AutoregDensity.pre x i))) (x i))) := by
    intro x
    unfold mogLogp
    rw [Real.exp_sum, ENNReal.ofReal_prod_of_nonneg (fun i _ => (Real.exp_pos _).le)]
  simp_rw [hprod]
  rw [hL]; simp

/-- **C03 with a `MADEMoG` base**: every program of library transforms of ℝᴰ followed by the autoregressive mixture of Gaussians
    (any number of components `M ≥ 1`, any `ε > 0`, MADE outputs measurable in the prefix) is a normalised density -/
theorem flow_normalised_mog_base (e : Float → ℝ) {M : ℕ} (hM : 0 < M) (eps : ℝ) (heps : 0 < eps)
    (lg μ u : (i : ℕ) → (Fin i → ℝ) → Fin M → ℝ)
    (hlg : ∀ i k, Measurable fun y => lg i y k) (hμ : ∀ i k, Measurable fun y => μ i y k)
    (hu : ∀ i k, Measurable fun y => u i y k) {D : ℕ} (parts : List (DiffeoN D)) :
    ∫ x, Real.exp (flowLogProb0 (progFlow parts (mogLogp e eps lg μ u)) x) = 1 :=
  flow_normalised_any_base_prog parts _ (mog_base_normalised e hM eps heps lg μ u hlg hμ hu D)

/-- spelled out: `exp (mog_log_prob (T x) + logabsdet x)` -/
theorem flow_normalised_mog_base' (e : Float → ℝ) {M : ℕ} (hM : 0 < M) (eps : ℝ) (heps : 0 < eps)
    (lg μ u : (i : ℕ) → (Fin i → ℝ) → Fin M → ℝ)
    (hlg : ∀ i k, Measurable fun y => lg i y k) (hμ : ∀ i k, Measurable fun y => μ i y k)
    (hu : ∀ i k, Measurable fun y => u i y k) {D : ℕ} (parts : List (DiffeoN D)) :
    ∫ x, Real.exp (mogLogp e eps lg μ u ((progN parts).T x) + (progN parts).ld x) = 1 :=
  flow_normalised_mog_base e hM eps heps lg μ u hlg hμ hu parts

/-- **the same on the EXECUTED `mogRow`**: `made z` is the flat MADE output row the base computes from the noise row `z`; its
    autoregressive layout (`hlay`) is the only link assumed between the network and the parameter functions -/
theorem flow_normalised_mogRow_base (e : Float → ℝ) {M : ℕ} (hM : 0 < M) (eps : ℝ) (heps : 0 < eps)
    (lg μ u : (i : ℕ) → (Fin i → ℝ) → Fin M → ℝ)
    (hlg : ∀ i k, Measurable fun y => lg i y k) (hμ : ∀ i k, Measurable fun y => μ i y k)
    (hu : ∀ i k, Measurable fun y => u i y k) {D : ℕ} (made : (Fin D → ℝ) → List ℝ)
    (hlay : ∀ (z : Fin D → ℝ) (i : Fin D),
      Density.mogColumn M (made z) i 0 0 = List.ofFn (lg i (AutoregDensity.pre z i)) ∧
      Density.mogColumn M (made z) i 1 0 = List.ofFn (μ i (AutoregDensity.pre z i)) ∧
      Density.mogColumn M (made z) i 2 0 = List.ofFn (u i (AutoregDensity.pre z i)))
    (parts : List (DiffeoN D)) :
    ∫ x, Real.exp (Density.mogRow (NF.realX e) eps D M (made ((progN parts).T x)) (List.ofFn ((progN parts).T x))
        + (progN parts).ld x) = 1 := by
  have h := flow_normalised_mog_base' e hM eps heps lg μ u hlg hμ hu parts
  rw [← h]
  congr 1; funext x
  rw [mogRow_eq_mogLogp e eps lg μ u _ _ (fun i => (hlay _ i).1) (fun i => (hlay _ i).2.1) (fun i => (hlay _ i).2.2)]

/-- 1-D `Logit` data on `(0,1)` with a one-feature MoG base -/
theorem logit_mog_flow_normalised (e : Float → ℝ) {M : ℕ} (hM : 0 < M) (eps : ℝ) (heps : 0 < eps) (lg μ u : Fin M → ℝ)
    {T : ℝ} (hT : 0 < T) :
    ∫ y in Set.Ioo (0:ℝ) 1, Real.exp (Density.mogFeature (NF.realX e) eps (List.ofFn lg) (List.ofFn μ) (List.ofFn u)
        (1 / T * logit y) + logitLd T y) = 1 :=
  logit_flow_normalised hT _ (Properties.C05.mog_feature_exec_normalised e hM eps heps lg μ u)

/-- the affine part `x ↦ 2 x + 1`, `ld = log 2` -/
def twoXPlusOne : Diffeo1 where
  f := fun x => 2 * x + 1
  ld := fun _ => Real.log 2
  bij := ⟨fun a b h => by simpa using h, fun y => ⟨(y - 1) / 2, by ring⟩⟩
  deriv := by
    intro x
    rw [Real.exp_log (by norm_num)]
    simpa using ((hasDerivAt_id x).const_mul (2:ℝ)).add_const (1:ℝ)

/-- non-vacuous instance: one feature, two mixture components (logits `0, log 3`, means `−1, 2`, unconstrained stds `0, 1`,
    `ε = 10⁻³`), transform `x ↦ 2x + 1` -/
example (e : Float → ℝ) :
    ∫ x : Fin 1 → ℝ, Real.exp (mogLogp e (1 / 1000) (M := 2) (fun _ _ => ![0, Real.log 3]) (fun _ _ => ![-1, 2])
        (fun _ _ => ![0, 1]) ((progN [FlowWholeND.piDiffeo fun _ => twoXPlusOne]).T x)
        + (progN [FlowWholeND.piDiffeo fun _ => twoXPlusOne]).ld x) = 1 :=
  flow_normalised_mog_base' e (M := 2) (by norm_num) (1 / 1000) (by norm_num) (fun _ _ => ![0, Real.log 3])
    (fun _ _ => ![-1, 2]) (fun _ _ => ![0, 1]) (fun _ _ => measurable_const)
    (fun _ _ => measurable_const) (fun _ _ => measurable_const) [FlowWholeND.piDiffeo fun _ => twoXPlusOne]

/-! ## 3. the embedding network -/

section embedding
variable {Z X C E V : Type}

/-- the flow `g` (whose own contexts are of type `E`) with the embedding network `emb : C → E` put in front, as `Flow.__init__`
    does with `embedding_net` (flows/base.py:22-36) -/
def withEmb (g : FlowFns Z X E E V) (emb : C → E) : FlowFns Z X C E V :=
  { g with emb := fun c => g.emb (emb c) }

/-- **`Flow.log_prob(x, context = c)` with an embedding net is `Flow.log_prob(x, context = emb c)` without it** — for EVERY
    function `emb` (no regularity), every row, every context row -/
theorem flowLogProb1_withEmb (g : FlowFns Z X E E V) (emb : C → E) (x : X) (c : C) :
    flowLogProb1 (withEmb g emb) x c = flowLogProb1 g x (emb c) := rfl

/-- the same for the whole batch -/
theorem flowLogProb_withEmb (g : FlowFns Z X E E V) (emb : C → E) (xs : List X) (ctx : List C) :
    flowLogProb (withEmb g emb) xs ctx = flowLogProb g xs (ctx.map emb) := by
  unfold flowLogProb
  rw [List.zipWith_map_right]
  rfl

/-- … for `Flow.sample(n, context)` … -/
theorem flowSample_withEmb (g : FlowFns Z X E E V) (emb : C → E) (ctx : List C) (n : ℕ) (N : List (List Z)) :
    flowSample (withEmb g emb) ctx n N = flowSample g (ctx.map emb) n N := by
  unfold flowSample
  simp only [List.map_map]
  rfl

/-- … and for `Flow.sample_and_log_prob(n, context)` -/
theorem flowSalp_withEmb (g : FlowFns Z X E E V) (emb : C → E) (ctx : List C) (n : ℕ) (N : List (List Z)) :
    flowSalp (withEmb g emb) ctx n N = flowSalp g (ctx.map emb) n N := by
  unfold flowSalp
  simp only [List.map_map]
  rfl

/-- every conditional flow IS its embedding-free core with its embedding net put in front -/
theorem flowLogProb1_emb (f : FlowFns Z X C E V) (x : X) (c : C) :
    flowLogProb1 f x c = flowLogProb1 ({ f with emb := id } : FlowFns Z X E E V) x (f.emb c) := rfl

/-- the EXECUTED `Flow.log_prob` over array passes (`FlowRowsExec.flowLogProbExec`): with an embedding net `emb` it is the call
    without embedding net (identity) on the embedded context batch — values and errors alike -/
theorem flowLogProbExec_embedding {α : Type} (o : XOps α) (w : ℕ) (emb : ℕ → Array α → Array α) (T : FlowRowsExec.BStage α)
    (base : FlowRowsExec.BaseD α) (B : ℕ) (x ctx : Array α) :
    FlowRowsExec.flowLogProbExec o w emb T base B x ctx
      = FlowRowsExec.flowLogProbExec o w (fun _ a => a) T base B x (emb B ctx) := rfl

/-- **C03 with an embedding network**: if the embedding-free flow `g` is a normalised density (on a support `S e` that may depend
    on the context) for every embedded context value `e`, then with ANY embedding network in front it is a normalised density for
    every raw context row `c` -/
theorem flow_with_embedding_normalised {X : Type} [MeasureSpace X] {Z C E : Type} (g : FlowFns Z X E E ℝ) (emb : C → E)
    (S : E → Set X) (h : ∀ e, ∫ x in S e, Real.exp (flowLogProb1 g x e) = 1) (c : C) :
    ∫ x in S (emb c), Real.exp (flowLogProb1 (withEmb g emb) x c) = 1 :=
  h (emb c)

end embedding

/-- the hypotheses on a conditional n-D flow at ONE embedded context value `e`: transform and base both see `e` -/
structure CondDiffeoFlow {n : ℕ} {C E : Type} (f : FlowFns (Fin n → ℝ) (Fin n → ℝ) C E ℝ) (e : E)
    (T' : (Fin n → ℝ) → ((Fin n → ℝ) →L[ℝ] (Fin n → ℝ))) : Prop where
  hadd : ∀ a b, f.add a b = a + b
  hbij : Function.Bijective fun x => f.tfwd x e
  hd : ∀ x, HasFDerivAt (fun x => f.tfwd x e) (T' x) x
  habs : ∀ x, |(T' x).det| = Real.exp (f.ld x e)
  hbase : ∫ z, Real.exp (f.blp z e) = 1

/-- a conditional flow is normalised at the raw context row `c` as soon as transform and base are a diffeomorphism and a
    normalised density at the EMBEDDED value `f.emb c` — nothing is asked of the embedding network -/
theorem cond_flow_normalised {n : ℕ} {C E : Type} (f : FlowFns (Fin n → ℝ) (Fin n → ℝ) C E ℝ) (c : C)
    (T' : (Fin n → ℝ) → ((Fin n → ℝ) →L[ℝ] (Fin n → ℝ))) (h : CondDiffeoFlow f (f.emb c) T') :
    ∫ x, Real.exp (flowLogProb1 f x c) = 1 := by
  rw [show (fun x => Real.exp (flowLogProb1 f x c)) = fun x => Real.exp (flowLogProb0 (FlowPushforward.condFns f c) x) from rfl]
  exact flow_normalised_any_base (FlowPushforward.condFns f c) T'
    { hadd := h.hadd, hbij := h.hbij, hd := h.hd, habs := h.habs } h.hbase

/-- **C03, n-D, with an embedding network**: hypotheses for every embedded value `e`, conclusion for every embedding net and every
    raw context row -/
theorem flow_with_embedding_normalised_nd {n : ℕ} {C E : Type} (g : FlowFns (Fin n → ℝ) (Fin n → ℝ) E E ℝ) (hid : ∀ e, g.emb e = e)
    (T' : E → (Fin n → ℝ) → ((Fin n → ℝ) →L[ℝ] (Fin n → ℝ))) (h : ∀ e, CondDiffeoFlow g e (T' e)) (emb : C → E) (c : C) :
    ∫ x, Real.exp (flowLogProb1 (withEmb g emb) x c) = 1 := by
  have hc : (withEmb g emb).emb c = emb c := hid (emb c)
  apply cond_flow_normalised (withEmb g emb) c (T' (emb c))
  rw [hc]
  have := h (emb c)
  exact { hadd := this.hadd, hbij := this.hbij, hd := this.hd, habs := this.habs, hbase := this.hbase }

/-- a conditional affine flow on ℝ whose transform AND base see the embedded context `c`: `z = 2 x + c`, base the unit Gaussian
    centred at `c` (the executed standard-normal row at `z − c`) -/
def ctxAffine (r : Float → ℝ) : FlowFns ℝ ℝ ℝ ℝ ℝ where
  emb := id
  tinv z c := (z - c) / 2
  ldInv _ _ := -Real.log 2
  tfwd x c := 2 * x + c
  ld _ _ := Real.log 2
  blp z c := Density.stdNormalRow (NF.realX r) 1 [z - c]
  add := (· + ·)
  sub := (· - ·)

theorem ctxAffine_normalised (r : Float → ℝ) (c : ℝ) : ∫ x, Real.exp (flowLogProb1 (ctxAffine r) x c) = 1 := by
  have hbase : ∫ z : ℝ, Real.exp (Density.stdNormalRow (NF.realX r) 1 [z - c]) = 1 := by
    rw [integral_sub_right_eq_self (fun z : ℝ => Real.exp (Density.stdNormalRow (NF.realX r) 1 [z])) c]
    exact Properties.C03.stdNormal1_exec_normalised r
  have := ChangeOfVar.flow_logprob_normalised_1d (fun x => 2 * x + c) (fun _ => Real.log 2)
    (fun z => Density.stdNormalRow (NF.realX r) 1 [z - c])
    ⟨fun a b h => by simpa using h, fun y => ⟨(y - c) / 2, by ring⟩⟩
    (fun x => by
      rw [Real.exp_log (by norm_num)]
      simpa using ((hasDerivAt_id x).const_mul (2:ℝ)).add_const c) hbase
  exact this

/-- non-vacuous instance of `flow_with_embedding_normalised`: ANY context type, ANY embedding function into ℝ, any context row -/
example (r : Float → ℝ) (C : Type) (emb : C → ℝ) (c : C) :
    ∫ x, Real.exp (flowLogProb1 (withEmb (ctxAffine r) emb) x c) = 1 := by
  have := flow_with_embedding_normalised (ctxAffine r) emb (fun _ => Set.univ)
    (fun e => by rw [Measure.restrict_univ]; exact ctxAffine_normalised r e) c
  rwa [Measure.restrict_univ] at this

/-! ## 4. coordinate-wise (element-wise) `Sigmoid` / `Logit` layers in n dimensions -/

/-- **change of variables for a product of 1-D maps on a product of supports**: `f i` one-to-one and differentiable on a measurable
    `S i` with `|f i'| = exp (ld i)` there -/
theorem pi_change_of_variables {n : ℕ} (f f' ld : Fin n → ℝ → ℝ) (S : Fin n → Set ℝ) (hS : ∀ i, MeasurableSet (S i))
    (hinj : ∀ i, Set.InjOn (f i) (S i)) (hd : ∀ i, ∀ x ∈ S i, HasDerivWithinAt (f i) (f' i x) (S i) x)
    (habs : ∀ i, ∀ x ∈ S i, |f' i x| = Real.exp (ld i x)) (p : (Fin n → ℝ) → ℝ) :
    ∫ z in Set.univ.pi (fun i => f i '' S i), p z
      = ∫ x in Set.univ.pi S, p (fun i => f i (x i)) * Real.exp (∑ i, ld i (x i)) := by
  have hm : MeasurableSet (Set.univ.pi S) := MeasurableSet.univ_pi hS
  have hinjP : Set.InjOn (Pi.map f) (Set.univ.pi S) := by
    intro a ha b hb h
    funext i
    exact hinj i (ha i trivial) (hb i trivial) (congrFun h i)
  have hder : ∀ x ∈ Set.univ.pi S,
      HasFDerivWithinAt (Pi.map f) (FlowWholeND.diagCLM fun i => f' i (x i)) (Set.univ.pi S) x := by
    intro x hx
    unfold FlowWholeND.diagCLM
    show HasFDerivWithinAt (fun (x : Fin n → ℝ) i => f i (x i)) _ _ _
    rw [hasFDerivWithinAt_pi]
    intro i
    have h1 : HasFDerivWithinAt (fun v : Fin n → ℝ => v i)
        (ContinuousLinearMap.proj (R := ℝ) (φ := fun _ : Fin n => ℝ) i) (Set.univ.pi S) x :=
      hasFDerivWithinAt_apply i x _
    exact (hd i (x i) (hx i trivial)).comp_hasFDerivWithinAt x h1 (fun v hv => hv i trivial)
  have h := integral_image_eq_integral_abs_det_fderiv_smul (μ := volume) hm hder hinjP p
  rw [Set.piMap_image_univ_pi] at h
  rw [h]
  apply setIntegral_congr_fun hm
  intro x hx
  simp only [smul_eq_mul]
  rw [FlowWholeND.diagCLM_det, Finset.abs_prod, Real.exp_sum,
    Finset.prod_congr rfl (fun i _ => habs i (x i) (hx i trivial))]
  exact mul_comm _ _

/-- **C03, element-wise `Sigmoid` layer (per-coordinate temperatures `T i > 0`) onto the open unit cube, any base normalised there** -/
theorem sigmoid_flow_normalised_nd {n : ℕ} (T : Fin n → ℝ) (hT : ∀ i, 0 < T i) (blp : (Fin n → ℝ) → ℝ)
    (hp : ∫ z in Set.univ.pi (fun _ : Fin n => Set.Ioo (0:ℝ) 1), Real.exp (blp z) = 1) :
    ∫ x : Fin n → ℝ, Real.exp (blp (fun i => gate (T i * x i)) + ∑ i, sigLdIdeal (T i) (T i * x i)) = 1 := by
  have h := pi_change_of_variables (fun i x => gate (T i * x)) (fun i x => Real.exp (sigLdIdeal (T i) (T i * x)))
    (fun i x => sigLdIdeal (T i) (T i * x)) (fun _ => Set.univ) (fun _ => MeasurableSet.univ)
    (fun i => (sigmoid_injective (hT i).ne').injOn) (fun i x _ => (hasDerivAt_gate (hT i) x).hasDerivWithinAt)
    (fun i x _ => abs_of_pos (Real.exp_pos _)) (fun z => Real.exp (blp z))
  simp only [sigmoid_image_univ (hT _).ne', Set.pi_univ, Measure.restrict_univ] at h
  simp_rw [Real.exp_add]
  rw [← h, hp]

/-- **C03, element-wise `Logit` layer on the open unit cube, ANY base normalised on ℝⁿ** (Gaussian, MADE-MoG, …) -/
theorem logit_flow_normalised_nd {n : ℕ} (T : Fin n → ℝ) (hT : ∀ i, 0 < T i) (blp : (Fin n → ℝ) → ℝ)
    (hp : ∫ z, Real.exp (blp z) = 1) :
    ∫ y in Set.univ.pi (fun _ : Fin n => Set.Ioo (0:ℝ) 1),
      Real.exp (blp (fun i => 1 / T i * logit (y i)) + ∑ i, logitLd (T i) (y i)) = 1 := by
  have h := pi_change_of_variables (fun i y => 1 / T i * logit y) (fun i y => 1 / T i * (1 / (y * (1 - y))))
    (fun i y => logitLd (T i) y) (fun _ => Set.Ioo 0 1) (fun _ => measurableSet_Ioo)
    (fun i => logit_injOn (hT i).ne')
    (fun i y hy => ((hasDerivAt_logit hy.1 hy.2).const_mul (1 / T i)).hasDerivWithinAt)
    (fun i y hy => logit_abs_deriv (hT i) hy.1 hy.2) (fun z => Real.exp (blp z))
  simp only [logit_image_Ioo (hT _).ne', Set.pi_univ, Measure.restrict_univ] at h
  simp_rw [Real.exp_add]
  rw [← h, hp]

/-- **data on the open unit cube, an element-wise `Logit` layer, then ANY program of library transforms of ℝⁿ, then ANY normalised base**
    (the usual image-data pipeline): `exp (log_prob)` integrates to one over the cube; log-dets add as `CompositeTransform` does -/
theorem logit_then_prog_flow_normalised {n : ℕ} (T : Fin n → ℝ) (hT : ∀ i, 0 < T i) (parts : List (DiffeoN n))
    (blp : (Fin n → ℝ) → ℝ) (hp : ∫ z, Real.exp (blp z) = 1) :
    ∫ y in Set.univ.pi (fun _ : Fin n => Set.Ioo (0:ℝ) 1),
      Real.exp (blp ((progN parts).T fun i => 1 / T i * logit (y i))
        + (∑ i, logitLd (T i) (y i) + (progN parts).ld fun i => 1 / T i * logit (y i))) = 1 := by
  have h := logit_flow_normalised_nd T hT (fun z => blp ((progN parts).T z) + (progN parts).ld z)
    (FlowWholeND.flow_logprob_normalised_progN parts blp hp)
  refine Eq.trans ?_ h
  congr 1; funext y
  congr 1; ring

/-- element-wise `Logit` on the cube followed by the executed `StandardNormal` row, every dimension -/
theorem logit_stdNormal_flow_normalised_nd (e : Float → ℝ) {n : ℕ} (T : Fin n → ℝ) (hT : ∀ i, 0 < T i) :
    ∫ y in Set.univ.pi (fun _ : Fin n => Set.Ioo (0:ℝ) 1),
      Real.exp (Density.stdNormalRow (NF.realX e) n (List.ofFn fun i => 1 / T i * logit (y i)) + ∑ i, logitLd (T i) (y i)) = 1 :=
  logit_flow_normalised_nd T hT (fun z => Density.stdNormalRow (NF.realX e) n (List.ofFn z))
    (Properties.C05.stdNormal_normalised e n)

/-- element-wise `Logit` on the cube followed by a `MADEMoG` base -/
theorem logit_mog_flow_normalised_nd (e : Float → ℝ) {M : ℕ} (hM : 0 < M) (eps : ℝ) (heps : 0 < eps)
    (lg μ u : (i : ℕ) → (Fin i → ℝ) → Fin M → ℝ)
    (hlg : ∀ i k, Measurable fun y => lg i y k) (hμ : ∀ i k, Measurable fun y => μ i y k)
    (hu : ∀ i k, Measurable fun y => u i y k) {n : ℕ} (T : Fin n → ℝ) (hT : ∀ i, 0 < T i) :
    ∫ y in Set.univ.pi (fun _ : Fin n => Set.Ioo (0:ℝ) 1),
      Real.exp (mogLogp e eps lg μ u (fun i => 1 / T i * logit (y i)) + ∑ i, logitLd (T i) (y i)) = 1 :=
  logit_flow_normalised_nd T hT _ (mog_base_normalised e hM eps heps lg μ u hlg hμ hu n)

/-- element-wise `Sigmoid` followed by the executed `BoxUniform(0,1)ⁿ`: the support test always passes, the uniform
    log-density is `0`, and the density `exp (Σ logabsdet)` integrates to one over ℝⁿ -/
theorem sigmoid_uniform_flow_normalised_nd (e : Float → ℝ) {n : ℕ} (T : Fin n → ℝ) (hT : ∀ i, 0 < T i) :
    ∫ x : Fin n → ℝ, (if Density.insideBox (NF.realX e) (List.ofFn fun _ : Fin n => (0:ℝ)) (List.ofFn fun _ : Fin n => (1:ℝ))
          (List.ofFn fun i => gate (T i * x i)) = true
        then Real.exp (Density.boxUniformRow (NF.realX e) (List.ofFn fun _ : Fin n => (0:ℝ)) (List.ofFn fun _ : Fin n => (1:ℝ))
          (List.ofFn fun i => gate (T i * x i)) + ∑ i, sigLdIdeal (T i) (T i * x i)) else 0) = 1 := by
  have hin : ∀ x : Fin n → ℝ, ∀ i, (0:ℝ) ≤ gate (T i * x i) ∧ gate (T i * x i) < 1 :=
    fun x i => ⟨(gate_pos _).le, gate_lt_one _⟩
  have hfac : ∀ x : Fin n → ℝ, (if Density.insideBox (NF.realX e) (List.ofFn fun _ : Fin n => (0:ℝ))
          (List.ofFn fun _ : Fin n => (1:ℝ)) (List.ofFn fun i => gate (T i * x i)) = true
        then Real.exp (Density.boxUniformRow (NF.realX e) (List.ofFn fun _ : Fin n => (0:ℝ)) (List.ofFn fun _ : Fin n => (1:ℝ))
          (List.ofFn fun i => gate (T i * x i)) + ∑ i, sigLdIdeal (T i) (T i * x i)) else 0)
      = ∏ i, Real.exp (sigLdIdeal (T i) (T i * x i)) := by
    intro x
    rw [if_pos ((DistReal.insideBox_real e _ _ _).mpr (hin x)), DistReal.boxUniformRow_real e _ _ _ (hin x), ← Real.exp_sum]
    simp
  simp_rw [hfac]
  rw [integral_fintype_prod_volume_eq_prod (fun i (t : ℝ) => Real.exp (sigLdIdeal (T i) (T i * t)))]
  apply Finset.prod_eq_one
  intro i _
  have := sigmoid_flow_normalised (hT i) (fun _ => 0) (by simp)
  simpa using this

/-! ## 5. supplements: the executed `mogRow` instance; the executed `Sigmoid` log-det over the whole line -/

/-- non-vacuous instance of `flow_normalised_mogRow_base`: the flat MADE row `[0, −1, 0, log 3, 2, 1]` (one feature, two components) -/
example (e : Float → ℝ) :
    ∫ x : Fin 1 → ℝ, Real.exp (Density.mogRow (NF.realX e) (1 / 1000) 1 2 [0, -1, 0, Real.log 3, 2, 1]
        (List.ofFn ((progN [FlowWholeND.piDiffeo fun _ => twoXPlusOne]).T x))
        + (progN [FlowWholeND.piDiffeo fun _ => twoXPlusOne]).ld x) = 1 :=
  flow_normalised_mogRow_base e (M := 2) (by norm_num) (1 / 1000) (by norm_num) (fun _ _ => ![0, Real.log 3])
    (fun _ _ => ![-1, 2]) (fun _ _ => ![0, 1]) (fun _ _ => measurable_const)
    (fun _ _ => measurable_const) (fun _ _ => measurable_const) (fun _ => [0, -1, 0, Real.log 3, 2, 1])
    (fun z i => by
      have hi : i = 0 := Subsingleton.elim _ _
      subst hi
      refine ⟨?_, ?_, ?_⟩ <;> simp [Density.mogColumn, List.range_succ, List.ofFn_succ])
    [FlowWholeND.piDiffeo fun _ => twoXPlusOne]

theorem measurable_spT : Measurable spT := by
  unfold spT
  exact Measurable.ite (measurableSet_lt measurable_const measurable_id) measurable_id
    (Real.measurable_log.comp (measurable_const.add Real.measurable_exp))

/-- the executed log-det exceeds the exact one by at most `e⁻²⁰`, everywhere -/
theorem sigLd_sub_ideal_nonneg (T z : ℝ) : 0 ≤ sigLd T z - sigLdIdeal T z ∧ sigLd T z - sigLdIdeal T z ≤ Real.exp (-20) := by
  by_cases h : |z| ≤ 20
  · rw [sigLd_eq_ideal T h]; simp [(Real.exp_pos _).le]
  · rw [not_le] at h
    rw [sigLd_gap T h]
    constructor
    · linarith [gap_pos z]
    · linarith [gap_le h]

/-- **the EXECUTED `Sigmoid` flow (thresholded softplus in the log-det) over the whole line**: `exp (log_prob)` integrates to a
    number in `[1, exp (e⁻²⁰)]` (`exp (e⁻²⁰) − 1 ≈ 2.1·10⁻⁹`) — normalised up to the declared softplus approximation, not exactly -/
theorem sigmoid_executed_flow_almost_normalised (e : Float → ℝ) {T : ℝ} (hT : 0 < T) (eps : Float) (blp : ℝ → ℝ)
    (hp : ∫ z in Set.Ioo (0:ℝ) 1, Real.exp (blp z) = 1) :
    1 ≤ ∫ x, Real.exp (sigmoidExecLogProb e T eps blp x) ∧
      ∫ x, Real.exp (sigmoidExecLogProb e T eps blp x) ≤ Real.exp (Real.exp (-20)) := by
  have hF := sigmoid_flow_normalised hT blp hp
  have hFi : Integrable (fun x => Real.exp (blp (gate (T * x)) + sigLdIdeal T (T * x))) := integrable_of_integral_eq_one hF
  have hG : ∀ x, Real.exp (sigmoidExecLogProb e T eps blp x)
      = Real.exp (blp (gate (T * x)) + sigLdIdeal T (T * x)) * Real.exp (sigLd T (T * x) - sigLdIdeal T (T * x)) := by
    intro x
    rw [sigmoidExecLogProb_eq, ← Real.exp_add]; congr 1; ring
  have hgm : Measurable (fun x : ℝ => Real.exp (sigLd T (T * x) - sigLdIdeal T (T * x))) := by
    apply Real.measurable_exp.comp
    have hm : Measurable (fun x : ℝ => T * x) := measurable_const.mul measurable_id
    have h1 : Measurable (fun z => sigLd T z) := by
      unfold sigLd
      exact (measurable_const.sub (measurable_spT.comp measurable_neg)).sub measurable_spT
    have h2 : Measurable (fun z => sigLdIdeal T z) := by
      unfold sigLdIdeal
      fun_prop
    exact (h1.comp hm).sub (h2.comp hm)
  have hGi : Integrable (fun x => Real.exp (sigmoidExecLogProb e T eps blp x)) := by
    simp_rw [hG]
    refine hFi.mul_bdd (c := Real.exp (Real.exp (-20))) hgm.aestronglyMeasurable (Filter.Eventually.of_forall fun x => ?_)
    rw [Real.norm_eq_abs, abs_of_pos (Real.exp_pos _)]
    exact Real.exp_le_exp.mpr (sigLd_sub_ideal_nonneg T _).2
  constructor
  · rw [← hF]
    apply integral_mono hFi hGi
    intro x
    show _ ≤ Real.exp (sigmoidExecLogProb e T eps blp x)
    rw [hG]
    have h1 : 1 ≤ Real.exp (sigLd T (T * x) - sigLdIdeal T (T * x)) := Real.one_le_exp (sigLd_sub_ideal_nonneg T _).1
    exact le_mul_of_one_le_right (Real.exp_pos _).le h1
  · have : ∫ x, Real.exp (blp (gate (T * x)) + sigLdIdeal T (T * x)) * Real.exp (Real.exp (-20)) = Real.exp (Real.exp (-20)) := by
      rw [integral_mul_const, hF, one_mul]
    rw [← this]
    apply integral_mono hGi (hFi.mul_const _)
    intro x
    show Real.exp (sigmoidExecLogProb e T eps blp x) ≤ _
    rw [hG]
    exact mul_le_mul_of_nonneg_left (Real.exp_le_exp.mpr (sigLd_sub_ideal_nonneg T _).2) (Real.exp_pos _).le

end
end FlowMore
