import NflowsModel.Lemmas.QuadWhole
import NflowsModel.Lemmas.QuadInverseWhole
import NflowsModel.Lemmas.TailsWhole
import Mathlib.Tactic
/-!
# Lemmas/WellDefinedQuad — every partial operation of the EXECUTED quadratic spline is applied inside its domain

Over ℝ every arithmetic operation of the model is total (`Real.log 0 = 0`, `x / 0 = 0`, `Real.sqrt` of a negative number is
`0`), so `quadSpline (NF.realX e) … = .ok r` (`QuadWhole.exec_eq_bin`, `QuadInverseWhole.exec_ok`) only says that no explicit
error branch is taken.  This file adds what `.ok` does not say: for every input of the closed in-domain box, under the
validity bundles `QuadWhole.QuadValid` (bounded shape, `uh` has `K+1` entries) and `QuadWhole.QuadValidT` (tails shape,
`uh` has `K-1` entries, `K ≥ 2`), EVERY logarithm argument the program forms is `> 0`, EVERY divisor is `> 0` (or `< 0`:
the stable-root denominator), EVERY square-root argument is `≥ 0`.

Headline theorems: `quad_forward_well_defined`, `quad_inverse_well_defined` (bounded), `quad_forward_well_defined_T`,
`quad_inverse_well_defined_T` (tails).  Each conclusion is a `structure … : Prop` with one named field per operation, and
contains the conjunct `exec` that ties the closed-form names to the program (`quadSpline … = .ok (closed forms at the bin
the EXECUTED search returned)`).

## Enumeration of the partial operations (`Core/Spline.lean`, `quadSpline`, lines 178-223, with the helpers it calls)

Operands are stated about the SAME term the program forms wherever that term does not depend on a gather; per-bin operands
are stated on the closed-form names of `Lemmas/QuadWhole.lean` / `Lemmas/QuadInverseWhole.lean` at the index returned by
the executed `searchsortedG` (`idxN` forward, over `locs`; `idxB` inverse, over `blc`), and on sub-terms of the executed
`Expr` (`quadFwdLdArgE`, `quadInvRadE`, `quadInvDenE`: `quadFwdLdE_split`, `quadInvAlphaE_split` are `rfl`).

| line | operation (helper)                                              | operand                                   | field |
|------|-----------------------------------------------------------------|-------------------------------------------|-------|
| 183  | fwd: `o.div (x - left) (ofFloat (right - left))`                | divisor `ofFloat (right-left)`            | `QuadFwdWD.norm_div_pos` |
| 182  | inv: `o.div (y - bottom) (ofFloat (top - bottom))`              | divisor `ofFloat (top-bottom)`            | `QuadInvWD.norm_div_pos` |
| 187  | `flooredSoftmax` → `softmaxG` (Core/Basic:37) `o.div e s`       | divisor `sumG es`, `es = exp (uw_i - max)`| `StageWD.softmax_div_pos` (+ `softmaxG_unfold`) |
| 188  | `o.softplus u` = `softplusB one u` (Core/XOps:47): threshold `if lt 20 (one*u) then u` | comparison only (the three fields below hold for EVERY `u ∈ uh`, whichever branch runs; `softplus_unfold`) | — |
| 188  | … else `o.div (log1p (exp (one*u))) beta`                       | divisor `one`                             | `StageWD.softplus_div_pos` |
| 188  | … `log1p (exp (one*u))` (Core/XOps:43) `o.log (1 + exp(one*u))` | log argument `add one (exp (mul one u))`  | `StageWD.softplus_log_arg_pos` |
| 188  | … `log1p`: `o.div (log u' * x) (u' - 1)`                        | divisor `sub (add one (exp …)) one`       | `StageWD.softplus_log1p_div_pos` (and `softplus_log1p_branch`: over ℝ this branch is the one taken) |
| 197  | tails: `pairMeans o uhe` (Core/Spline:172) `o.div (a+b) o.two`  | divisor `o.two`                           | `StageWD.two_pos` |
| 199  | tails: `cst = o.div numer (1 - half*fw - half*lw)`              | divisor `cstDen` (same term)              | `TailsPadWD.cst_div_pos` (+ `cst_eq`, `pad_ok`) |
| 202  | `pairMeans o uhe`                                               | divisor `o.two`                           | `StageWD.two_pos` |
| 203  | `o.div u area`                                                  | divisor `area = sumG (zipWith mul (pairMeans uhe) widths)` | `StageWD.area_pos` |
| 204  | `pairMeans o heights`                                           | divisor `o.two`                           | `StageWD.two_pos` |
| 207  | `searchsortedG` (Core/Basic:61): `add`, `maxA`, `nextUp`, comparisons only | none                           | — |
| 208-212 | gathers `getI` (explicit error branch)                       | index in range                            | `exec`, `idx_lt` |
| 214  | `boxLog c.box = Float.log ((top-bottom)/(right-left))` (a Float constant; its REAL reading) | divisor `e right - e left`, log argument `(e top - e bottom)/(e right - e left)` | `boxlog_div_pos`, `boxlog_arg_pos` |
| 221  | fwd `quadFwdE`: `(v 0 - v 1) / v 2` (`quadFwdE_split`)          | divisor slot 2 `= wd idx` (`envN_slot2`)  | `QuadFwdWD.bin_width_pos` |
| 222  | fwd `quadFwdLdE`: `(v 0 - v 1) / v 2`                           | divisor slot 2 `= wd idx` (`envN_slot2`)  | `QuadFwdWD.bin_width_pos` |
| 222  | fwd `quadFwdLdE`: `.log (al*(v 5 - v 4) + v 4)`                 | log argument `evalR env quadFwdLdArgE`    | `QuadFwdWD.log_arg_pos` (+ `ld_eq`) |
| 216  | inv `quadInvAlphaE`: `.sqrt (b*b - 4*a*c)`                      | radicand `evalR env quadInvRadE` (`= radN`)| `QuadInvWD.rad_nonneg` (+ `rad_eq`) |
| 216  | inv `quadInvAlphaE`: `(2*c) / (.neg b - .sqrt …)`               | divisor `evalR env quadInvDenE`           | `QuadInvWD.den_neg`, `den_ne` (+ `alpha_eq`) |
| 218  | inv `o.log (al*(hr - hl) + hl)`                                 | log argument `alphaN*(ht(k+1) - ht k) + ht k` | `QuadInvWD.log_arg_pos` (+ `ld_eq`) |
| 217, 221 | `o.clamp`: comparisons only                                 | none (it is the identity: `QuadInvWD.alpha_mem`, `QuadWhole.bin_mem_unit`) | — |
| 219, 223 | rescaling `mul`, `add`, `sub`                               | none                                      | — |

`exp` (softmax, softplus) is total.  The two size guards `c.minW * K > 1`, `c.minH * K > 1` are `Float` comparisons (part
of the bundles).

## Findings

None: every operand is in its domain for every valid input, in both directions and both shapes.  The two delicate cases of
the inverse are covered without extra hypothesis (`StableRoot.stable_root`): at a flat bin (`hr = hl`, `a = 0`) the radicand
is `b² > 0` and the divisor is `-2b < 0`; at `y' = lcdf` (`c = 0`) the radicand is `b²`, the divisor `-2b < 0`, the root `0`.
(The tails shape with ONE bin is not in `QuadValidT`: there the program raises an index error, `QuadWhole.tails_one_bin_error`.)
-/
open NF DualSound

namespace WellDefinedQuad
open QuadWhole QuadInverseWhole
noncomputable section
variable (e : Float → ℝ)

/-! ### sub-terms of the executed `Expr`s -/

/-- the argument of the logarithm in `quadFwdLdE` -/
def quadFwdLdArgE : Expr := ((v 0 - v 1) / v 2) * (v 5 - v 4) + v 4
/-- the radicand `b*b - 4*a*c` in `quadInvAlphaE` -/
def quadInvRadE : Expr :=
  (v 4 * v 2) * (v 4 * v 2) - 4 * ((.lit 1 2) * (v 5 - v 4) * v 2) * (v 3 - v 0)
/-- the divisor `-b - sqrt (b*b - 4*a*c)` in `quadInvAlphaE` -/
def quadInvDenE : Expr := .neg (v 4 * v 2) - .sqrt quadInvRadE

theorem quadFwdLdE_split : quadFwdLdE = .log quadFwdLdArgE := rfl
theorem quadFwdE_split :
    quadFwdE = ((.lit 1 2) * (v 5 - v 4) * v 2) * (((v 0 - v 1) / v 2) * ((v 0 - v 1) / v 2))
      + (v 4 * v 2) * ((v 0 - v 1) / v 2) + v 3 := rfl
theorem quadInvAlphaE_split : quadInvAlphaE = (2 * (v 3 - v 0)) / quadInvDenE := rfl

/-- what `softmaxG` divides by: the term `sumG es` of Core/Basic.lean -/
theorem softmaxG_unfold (uw : List ℝ) :
    softmaxG (NF.realX e) uw
      = (uw.map (fun x => (NF.realX e).exp ((NF.realX e).sub x (maxG (NF.realX e) uw)))).map
          (fun t => (NF.realX e).div t
            (sumG (NF.realX e) (uw.map (fun x => (NF.realX e).exp ((NF.realX e).sub x (maxG (NF.realX e) uw)))))) := rfl

/-- the text of `softplus` (Core/XOps.lean: `softplusB one`, `log1p`) with every operation visible -/
theorem softplus_unfold (u : ℝ) :
    (NF.realX e).softplus u
      = (let bx := (NF.realX e).mul (NF.realX e).one u
         let ex := (NF.realX e).exp bx
         let u' := (NF.realX e).add (NF.realX e).one ex
         if (NF.realX e).lt ((NF.realX e).ofRat 20 1) bx then u
         else (NF.realX e).div
            (if (NF.realX e).le u' (NF.realX e).one && (NF.realX e).le (NF.realX e).one u' then ex
             else (NF.realX e).div ((NF.realX e).mul ((NF.realX e).log u') ex) ((NF.realX e).sub u' (NF.realX e).one))
            (NF.realX e).one) := rfl

/-! ### first stage (lines 187-204): common to both directions; `U` is the list of unnormalised heights after the optional
tails padding (`Uq e uh` bounded, `Ut e c uw uh` tails) -/

structure StageWD (c : QCfg) (uw uh U : List ℝ) : Prop where
  /-- `softmaxG`: the divisor `sumG es` -/
  softmax_div_pos :
    0 < sumG (NF.realX e) (uw.map (fun x => (NF.realX e).exp ((NF.realX e).sub x (maxG (NF.realX e) uw))))
  /-- the widths (divisors of the per-bin closed forms) -/
  widths_pos : ∀ w ∈ flooredSoftmax (NF.realX e) c.minW uw, 0 < w
  /-- `softplusB one u`: the divisor `beta = one` -/
  softplus_div_pos : 0 < (NF.realX e).one
  /-- `log1p (exp (one*u))`: the argument of `o.log` -/
  softplus_log_arg_pos : ∀ u ∈ uh,
    0 < (NF.realX e).add (NF.realX e).one ((NF.realX e).exp ((NF.realX e).mul (NF.realX e).one u))
  /-- `log1p (exp (one*u))`: the divisor `u' - 1` -/
  softplus_log1p_div_pos : ∀ u ∈ uh,
    0 < (NF.realX e).sub ((NF.realX e).add (NF.realX e).one ((NF.realX e).exp ((NF.realX e).mul (NF.realX e).one u)))
          (NF.realX e).one
  /-- over ℝ the shortcut branch `u' == 1` of `log1p` is never taken: the division above is the branch executed -/
  softplus_log1p_branch : ∀ u ∈ uh,
    ((NF.realX e).le ((NF.realX e).add (NF.realX e).one ((NF.realX e).exp ((NF.realX e).mul (NF.realX e).one u)))
        (NF.realX e).one
      && (NF.realX e).le (NF.realX e).one
        ((NF.realX e).add (NF.realX e).one ((NF.realX e).exp ((NF.realX e).mul (NF.realX e).one u)))) = false
  /-- `pairMeans`: the divisor `o.two` -/
  two_pos : 0 < (NF.realX e).two
  /-- the unnormalised heights `softplus u + 1e-3` (and the padding constant, tails shape) are positive -/
  uhe_pos : ∀ u ∈ U, 0 < u
  /-- `o.div u area`: the divisor, the same term as in the program -/
  area_pos :
    0 < sumG (NF.realX e) (List.zipWith (NF.realX e).mul (pairMeans (NF.realX e) U) (flooredSoftmax (NF.realX e) c.minW uw))
  /-- the normalised heights are positive -/
  heights_pos : ∀ h ∈ hts e c (Wq e c uw) U, 0 < h

variable {e}
variable {c : QCfg} {uw uh U : List ℝ}

theorem softplus_ops (u : ℝ) :
    0 < (NF.realX e).add (NF.realX e).one ((NF.realX e).exp ((NF.realX e).mul (NF.realX e).one u)) ∧
    0 < (NF.realX e).sub ((NF.realX e).add (NF.realX e).one ((NF.realX e).exp ((NF.realX e).mul (NF.realX e).one u)))
          (NF.realX e).one ∧
    ((NF.realX e).le ((NF.realX e).add (NF.realX e).one ((NF.realX e).exp ((NF.realX e).mul (NF.realX e).one u)))
        (NF.realX e).one
      && (NF.realX e).le (NF.realX e).one
        ((NF.realX e).add (NF.realX e).one ((NF.realX e).exp ((NF.realX e).mul (NF.realX e).one u)))) = false := by
  simp only [NF.realX_add, NF.realX_one, NF.realX_exp, NF.realX_mul, NF.realX_sub, NF.realX_le, one_mul]
  have h := Real.exp_pos u
  refine ⟨by linarith, by linarith, ?_⟩
  have : ¬ (1 + Real.exp u ≤ 1) := by linarith
  simp [this]

theorem stage_of_core (hK : uw ≠ []) (hv : CoreValid e c (Wq e c uw) U) : StageWD e c uw uh U where
  softmax_div_pos := by
    rw [SplineExec.sumG_eq]
    exact SplineExec.sum_exp_pos uw (maxG (NF.realX e) uw) hK
  widths_pos := hv.hWpos
  softplus_div_pos := by simp
  softplus_log_arg_pos := fun u _ => (softplus_ops u).1
  softplus_log1p_div_pos := fun u _ => (softplus_ops u).2.1
  softplus_log1p_branch := fun u _ => (softplus_ops u).2.2
  two_pos := by simp
  uhe_pos := hv.hUpos
  area_pos := QuadWhole.area_pos hv
  heights_pos := hts_pos hv

/-! ### forward direction -/

variable (e)
/-- the argument of the logarithm the forward program takes at bin `k` -/
def fwdLogArg (c : QCfg) (Wd U : List ℝ) (k : ℕ) (t : ℝ) : ℝ := evalR (envN e c Wd U k t) quadFwdLdArgE

/-- **every partial operation of `quadSpline … false x` is applied inside its domain** (`U`: unnormalised heights after
    the optional padding) -/
structure QuadFwdWD (c : QCfg) (uw uh U : List ℝ) (x : ℝ) : Prop where
  /-- line 183: the divisor of the box normalisation -/
  norm_div_pos : 0 < (NF.realX e).ofFloat (c.box.right - c.box.left)
  /-- lines 187-204 -/
  stage : StageWD e c uw uh U
  /-- the program returns the closed forms at the bin the executed search selected -/
  exec : quadSpline (NF.realX e) c uw uh false x
    = .ok (binN e c (Wq e c uw) U (idxN e c (Wq e c uw) (nx e c x)) (nx e c x) * (e c.box.top - e c.box.bottom)
             + e c.box.bottom,
           binLdN e c (Wq e c uw) U (idxN e c (Wq e c uw) (nx e c x)) (nx e c x) + e (boxLog c.box))
  /-- the selected index is a bin: all five gathers are in range -/
  idx_lt : idxN e c (Wq e c uw) (nx e c x) < uw.length
  /-- lines 221-222: the divisor `v 2` (the width of the selected bin) of `quadFwdE` and `quadFwdLdE` -/
  bin_width_pos : 0 < wd (Wq e c uw) (idxN e c (Wq e c uw) (nx e c x))
  /-- the returned log-density is the logarithm of `fwdLogArg` (the executed sub-term `quadFwdLdArgE`) -/
  ld_eq : binLdN e c (Wq e c uw) U (idxN e c (Wq e c uw) (nx e c x)) (nx e c x)
    = Real.log (fwdLogArg e c (Wq e c uw) U (idxN e c (Wq e c uw) (nx e c x)) (nx e c x))
  /-- line 222: the argument of the logarithm -/
  log_arg_pos : 0 < fwdLogArg e c (Wq e c uw) U (idxN e c (Wq e c uw) (nx e c x)) (nx e c x)
  /-- line 214, real reading of the Float constant `boxLog`: its divisor -/
  boxlog_div_pos : 0 < e c.box.right - e c.box.left
  /-- line 214, real reading of the Float constant `boxLog`: its logarithm argument -/
  boxlog_arg_pos : 0 < (e c.box.top - e c.box.bottom) / (e c.box.right - e c.box.left)

/-- bounded shape -/
abbrev QuadFwdWellDefined (c : QCfg) (uw uh : List ℝ) (x : ℝ) : Prop := QuadFwdWD e c uw uh (Uq e uh) x
variable {e}

/-- slot 2 of the environment the per-bin `Expr`s are evaluated in (the divisor `v 2`) is the width of bin `k` -/
theorem envN_slot2 (Wd U : List ℝ) (k : ℕ) (t : ℝ) : envN e c Wd U k t 2 = wd Wd k := rfl

theorem fwdLogArg_eq (Wd U : List ℝ) (k : ℕ) (t : ℝ) :
    fwdLogArg e c Wd U k t = Quad.pdf (ht e c Wd U k) (ht e c Wd U (k+1)) ((t - lc e Wd k) / wd Wd k) := by
  simp [fwdLogArg, quadFwdLdArgE, envN, Bridge.qEnv, envOf, Quad.pdf, NF.v]

theorem fwd_core {Wd : List ℝ} (hv : CoreValid e c Wd U) (t : ℝ) (ht0 : 0 ≤ t) (ht1 : t ≤ 1) :
    idxN e c Wd t < Wd.length ∧ 0 < wd Wd (idxN e c Wd t) ∧ 0 < fwdLogArg e c Wd U (idxN e c Wd t) t := by
  obtain ⟨hiK, hle, hr⟩ := (QuadWhole.search_spec hv).1 t (by rw [lc_zero hv]; exact ht0) (by rw [lc_last hv]; exact ht1)
  set i := idxN e c Wd t with hi
  have hle1 : t ≤ lc e Wd (i+1) := by
    rcases hr with hr | ⟨hiK', htl⟩
    · exact hr.le
    · rw [hiK', htl]
  have hw := wd_pos hv i hiK
  rw [lc_step hv i hiK] at hle1
  have ha0 : 0 ≤ (t - lc e Wd i) / wd Wd i := div_nonneg (by linarith) hw.le
  have ha1 : (t - lc e Wd i) / wd Wd i ≤ 1 := by rw [div_le_one hw]; linarith
  refine ⟨hiK, hw, ?_⟩
  rw [fwdLogArg_eq]
  exact Quad.pdf_pos (ht_pos hv i (by omega)) (ht_pos hv (i+1) (by omega)) ha0 ha1

theorem fwd_of_core (hK : uw ≠ []) (hv : CoreValid e c (Wq e c uw) U) (hb : BoxValid e c)
    (hP : RunsRest e c (Wq e c uw) U (quadSpline (NF.realX e) c uw uh false))
    (x : ℝ) (hx0 : e c.box.left ≤ x) (hx1 : x ≤ e c.box.right) : QuadFwdWD e c uw uh U x := by
  obtain ⟨h0, h1⟩ := nx_mem hb x hx0 hx1
  obtain ⟨hi, hw, hl⟩ := fwd_core hv (nx e c x) h0 h1
  have hD : 0 < e c.box.right - e c.box.left := sub_pos.mpr hb.hlr
  have hT : 0 < e c.box.top - e c.box.bottom := sub_pos.mpr hb.hbt
  exact
    { norm_div_pos := by rw [NF.realX_ofFloat, hb.hdlr]; exact hD
      stage := stage_of_core hK hv
      exec := gen_exec hv hb hP x hx0 hx1
      idx_lt := by rw [Wq_length] at hi; exact hi
      bin_width_pos := hw
      ld_eq := rfl
      log_arg_pos := hl
      boxlog_div_pos := hD
      boxlog_arg_pos := div_pos hT hD }

/-- **forward, bounded shape**: for every `x ∈ [left, right]` every logarithm argument is positive and every divisor is
    positive, in the program `quadSpline (NF.realX e) c uw uh false x`, which returns the closed forms of the selected bin -/
theorem quad_forward_well_defined (hv : QuadValid e c uw uh) (x : ℝ) (hx0 : e c.box.left ≤ x) (hx1 : x ≤ e c.box.right) :
    QuadFwdWellDefined e c uw uh x :=
  fwd_of_core hv.hK (core_of_valid hv) hv.hbox (runsRest_of_valid hv) x hx0 hx1

/-! ### inverse direction -/

variable (e)
/-- the radicand the inverse program takes the square root of at bin `k` (executed sub-term `quadInvRadE`) -/
def invRad (c : QCfg) (Wd U : List ℝ) (k : ℕ) (s : ℝ) : ℝ := evalR (envN e c Wd U k s) quadInvRadE
/-- the divisor of the stable root at bin `k` (executed sub-term `quadInvDenE`) -/
def invDen (c : QCfg) (Wd U : List ℝ) (k : ℕ) (s : ℝ) : ℝ := evalR (envN e c Wd U k s) quadInvDenE
/-- the argument of the logarithm the inverse program takes at bin `k`: `al*(hr - hl) + hl` -/
def invLogArg (c : QCfg) (Wd U : List ℝ) (k : ℕ) (s : ℝ) : ℝ :=
  alphaN e c Wd U k s * (ht e c Wd U (k+1) - ht e c Wd U k) + ht e c Wd U k

/-- **every partial operation of `quadSpline … true y` is applied inside its domain** (`U`: unnormalised heights after
    the optional padding) -/
structure QuadInvWD (c : QCfg) (uw uh U : List ℝ) (y : ℝ) : Prop where
  /-- line 182: the divisor of the box normalisation -/
  norm_div_pos : 0 < (NF.realX e).ofFloat (c.box.top - c.box.bottom)
  /-- lines 187-204 -/
  stage : StageWD e c uw uh U
  /-- the program returns the inverse closed forms at the bin the executed search (over the cdf knots) selected -/
  exec : quadSpline (NF.realX e) c uw uh true y
    = .ok (binInvN e c (Wq e c uw) U (idxB e c (Wq e c uw) U (ny e c y)) (ny e c y) * (e c.box.right - e c.box.left)
             + e c.box.left,
           binInvLdN e c (Wq e c uw) U (idxB e c (Wq e c uw) U (ny e c y)) (ny e c y) - e (boxLog c.box))
  /-- the selected index is a bin: all five gathers are in range -/
  idx_lt : idxB e c (Wq e c uw) U (ny e c y) < uw.length
  /-- the executed root term is `2c / invDen` -/
  alpha_eq : alphaN e c (Wq e c uw) U (idxB e c (Wq e c uw) U (ny e c y)) (ny e c y)
    = 2 * (bl e c (Wq e c uw) U (idxB e c (Wq e c uw) U (ny e c y)) - ny e c y)
        / invDen e c (Wq e c uw) U (idxB e c (Wq e c uw) U (ny e c y)) (ny e c y)
  /-- the executed radicand is the closed form `QuadInverseWhole.radN` -/
  rad_eq : invRad e c (Wq e c uw) U (idxB e c (Wq e c uw) U (ny e c y)) (ny e c y)
    = radN e c (Wq e c uw) U (idxB e c (Wq e c uw) U (ny e c y)) (ny e c y)
  /-- line 216: the argument of the square root -/
  rad_nonneg : 0 ≤ invRad e c (Wq e c uw) U (idxB e c (Wq e c uw) U (ny e c y)) (ny e c y)
  /-- the executed divisor is `-b - sqrt (radicand)` -/
  den_eq : invDen e c (Wq e c uw) U (idxB e c (Wq e c uw) U (ny e c y)) (ny e c y)
    = -(ht e c (Wq e c uw) U (idxB e c (Wq e c uw) U (ny e c y)) * wd (Wq e c uw) (idxB e c (Wq e c uw) U (ny e c y)))
        - Real.sqrt (invRad e c (Wq e c uw) U (idxB e c (Wq e c uw) U (ny e c y)) (ny e c y))
  /-- line 216: the divisor of the stable root is strictly negative … -/
  den_neg : invDen e c (Wq e c uw) U (idxB e c (Wq e c uw) U (ny e c y)) (ny e c y) < 0
  /-- … hence non-zero (flat bins `hr = hl` and `y' = lcdf` included) -/
  den_ne : invDen e c (Wq e c uw) U (idxB e c (Wq e c uw) U (ny e c y)) (ny e c y) ≠ 0
  /-- the root is in `[0,1]` (so the clamp of line 217 is the identity) -/
  alpha_mem : 0 ≤ alphaN e c (Wq e c uw) U (idxB e c (Wq e c uw) U (ny e c y)) (ny e c y) ∧
    alphaN e c (Wq e c uw) U (idxB e c (Wq e c uw) U (ny e c y)) (ny e c y) ≤ 1
  /-- the returned log-abs-det is minus the logarithm of `invLogArg` -/
  ld_eq : binInvLdN e c (Wq e c uw) U (idxB e c (Wq e c uw) U (ny e c y)) (ny e c y)
    = - Real.log (invLogArg e c (Wq e c uw) U (idxB e c (Wq e c uw) U (ny e c y)) (ny e c y))
  /-- line 218: the argument of the logarithm -/
  log_arg_pos : 0 < invLogArg e c (Wq e c uw) U (idxB e c (Wq e c uw) U (ny e c y)) (ny e c y)
  /-- line 214, real reading of the Float constant `boxLog`: its divisor -/
  boxlog_div_pos : 0 < e c.box.right - e c.box.left
  /-- line 214, real reading of the Float constant `boxLog`: its logarithm argument -/
  boxlog_arg_pos : 0 < (e c.box.top - e c.box.bottom) / (e c.box.right - e c.box.left)

/-- bounded shape -/
abbrev QuadInvWellDefined (c : QCfg) (uw uh : List ℝ) (y : ℝ) : Prop := QuadInvWD e c uw uh (Uq e uh) y
variable {e}

theorem invRad_eq (Wd U : List ℝ) (k : ℕ) (s : ℝ) : invRad e c Wd U k s = radN e c Wd U k s := by
  simp [invRad, radN, quadInvRadE, envN, Bridge.qEnv, envOf, NF.v]
  ring

theorem invDen_eq (Wd U : List ℝ) (k : ℕ) (s : ℝ) :
    invDen e c Wd U k s = -(ht e c Wd U k * wd Wd k) - Real.sqrt (invRad e c Wd U k s) := by
  simp [invDen, invRad, quadInvDenE, envN, Bridge.qEnv, envOf, NF.v]

theorem alphaN_eq_div (Wd U : List ℝ) (k : ℕ) (s : ℝ) :
    alphaN e c Wd U k s = 2 * (bl e c Wd U k - s) / invDen e c Wd U k s := by
  simp [alphaN, invDen, quadInvAlphaE_split, envN, Bridge.qEnv, envOf, NF.v]

theorem inv_of_core (hK : uw ≠ []) (hv : CoreValid e c (Wq e c uw) U) (hb : BoxValid e c)
    (hQ : RunsRestI e c (Wq e c uw) U (quadSpline (NF.realX e) c uw uh true))
    (y : ℝ) (hy0 : e c.box.bottom ≤ y) (hy1 : y ≤ e c.box.top) : QuadInvWD e c uw uh U y := by
  obtain ⟨h0, h1⟩ := ny_mem hb y hy0 hy1
  obtain ⟨hi, hrad, hden, ha0, ha1, _⟩ := root_facts hv (ny e c y) h0 h1
  have hD : 0 < e c.box.right - e c.box.left := sub_pos.mpr hb.hlr
  have hT : 0 < e c.box.top - e c.box.bottom := sub_pos.mpr hb.hbt
  have hden' : invDen e c (Wq e c uw) U (idxB e c (Wq e c uw) U (ny e c y)) (ny e c y) < 0 := by
    rw [invDen_eq, invRad_eq]; exact hden
  exact
    { norm_div_pos := by rw [NF.realX_ofFloat, hb.hdbt]; exact hT
      stage := stage_of_core hK hv
      exec := gen_execI hv hb hQ y hy0 hy1
      idx_lt := by rw [Wq_length] at hi; exact hi
      alpha_eq := alphaN_eq_div _ _ _ _
      rad_eq := invRad_eq _ _ _ _
      rad_nonneg := by rw [invRad_eq]; exact hrad
      den_eq := invDen_eq _ _ _ _
      den_neg := hden'
      den_ne := hden'.ne
      alpha_mem := ⟨ha0, ha1⟩
      ld_eq := rfl
      log_arg_pos := Quad.pdf_pos (ht_pos hv _ (by omega)) (ht_pos hv _ (by omega)) ha0 ha1
      boxlog_div_pos := hD
      boxlog_arg_pos := div_pos hT hD }

/-- **inverse, bounded shape**: for every `y ∈ [bottom, top]` the radicand is non-negative, the divisor of the stable root is
    strictly negative, every logarithm argument and every other divisor is positive, in the program
    `quadSpline (NF.realX e) c uw uh true y`, which returns the inverse closed forms of the selected bin -/
theorem quad_inverse_well_defined (hv : QuadValid e c uw uh) (y : ℝ) (hy0 : e c.box.bottom ≤ y) (hy1 : y ≤ e c.box.top) :
    QuadInvWellDefined e c uw uh y :=
  inv_of_core hv.hK (core_of_valid hv) hv.hbox (runsRestI_of_valid hv) y hy0 hy1

/-! ### tails shape (`uh` has `K-1` entries, `K ≥ 2`): the padding step of lines 190-200 -/

variable (e)
/-- the divisor of the padding constant, the same term as in the program: `1 - half*fw - half*lw`, `fw = half*w0`,
    `lw = half*wl` -/
def cstDen (c : QCfg) (uw : List ℝ) : ℝ :=
  (NF.realX e).sub
    ((NF.realX e).sub (NF.realX e).one
      ((NF.realX e).mul ((NF.realX e).ofFloat 0.5) ((NF.realX e).mul ((NF.realX e).ofFloat 0.5) ((Wq e c uw).getD 0 0))))
    ((NF.realX e).mul ((NF.realX e).ofFloat 0.5)
      ((NF.realX e).mul ((NF.realX e).ofFloat 0.5) ((Wq e c uw).getD (uw.length - 1) 0)))
/-- the numerator of the padding constant, the same term as in the program -/
def cstNum (c : QCfg) (uw uh : List ℝ) : ℝ :=
  (NF.realX e).add
    ((NF.realX e).add
      ((NF.realX e).mul ((NF.realX e).mul ((NF.realX e).ofFloat 0.5)
        ((NF.realX e).mul ((NF.realX e).ofFloat 0.5) ((Wq e c uw).getD 0 0))) ((Uq e uh).getD 0 0))
      ((NF.realX e).mul ((NF.realX e).mul ((NF.realX e).ofFloat 0.5)
        ((NF.realX e).mul ((NF.realX e).ofFloat 0.5) ((Wq e c uw).getD (uw.length - 1) 0))) ((Uq e uh).getD (uh.length - 1) 0)))
    (sumG (NF.realX e) (List.zipWith (NF.realX e).mul (pairMeans (NF.realX e) (Uq e uh))
      (((Wq e c uw).drop 1).take (uw.length - 2))))

/-- the padding step of the tails shape is well defined -/
structure TailsPadWD (c : QCfg) (uw uh : List ℝ) : Prop where
  /-- the four gathers of lines 191-196 succeed and the step returns the padded heights `Ut` -/
  pad_ok : padU (NF.realX e) (flooredSoftmax (NF.realX e) c.minW uw)
      (uh.map (fun u => (NF.realX e).add ((NF.realX e).softplus u) ((NF.realX e).ofFloat 1e-3))) uw.length
    = .ok (Ut e c uw uh)
  /-- the padding constant is the quotient the program forms -/
  cst_eq : cstT e c uw uh = (NF.realX e).div (cstNum e c uw uh) (cstDen e c uw)
  /-- line 199: the divisor `1 - half*fw - half*lw` -/
  cst_div_pos : 0 < cstDen e c uw
  /-- the padding constant is positive -/
  cst_pos : 0 < cstT e c uw uh

/-- forward, tails shape -/
structure QuadFwdWellDefinedT (c : QCfg) (uw uh : List ℝ) (x : ℝ) : Prop where
  pad : TailsPadWD e c uw uh
  main : QuadFwdWD e c uw uh (Ut e c uw uh) x
/-- inverse, tails shape -/
structure QuadInvWellDefinedT (c : QCfg) (uw uh : List ℝ) (y : ℝ) : Prop where
  pad : TailsPadWD e c uw uh
  main : QuadInvWD e c uw uh (Ut e c uw uh) y
variable {e}

theorem cstDen_pos (hv : QuadValidT e c uw uh) : 0 < cstDen e c uw := by
  obtain ⟨hWpos, hWsum⟩ := W_valid_T hv
  have hlen := hv.hlenh
  have hWl : (Wq e c uw).length = uw.length := Wq_length c uw
  have hw0m : (Wq e c uw).getD 0 0 ∈ Wq e c uw := by
    rw [← getElem_eq_getD _ 0 (by omega)]; exact List.getElem_mem _
  have hwlm : (Wq e c uw).getD (uw.length - 1) 0 ∈ Wq e c uw := by
    rw [← getElem_eq_getD _ (uw.length - 1) (by omega)]; exact List.getElem_mem _
  have hw0' := mem_le_sum _ hWpos _ hw0m
  have hwl' := mem_le_sum _ hWpos _ hwlm
  rw [hWsum] at hw0' hwl'
  unfold cstDen
  simp only [NF.realX_sub, NF.realX_mul, NF.realX_one, NF.realX_ofFloat, hv.hhalf]
  linarith

theorem pad_of_validT (hv : QuadValidT e c uw uh) : TailsPadWD e c uw uh where
  pad_ok := padU_tails hv
  cst_eq := rfl
  cst_div_pos := cstDen_pos hv
  cst_pos := cstT_pos hv

theorem uw_ne_nil_T (hv : QuadValidT e c uw uh) : uw ≠ [] := by
  intro h; have := hv.hlenh; rw [h] at this; simp at this

/-- **forward, tails shape** (`K ≥ 2`): as `quad_forward_well_defined`, plus the padding step -/
theorem quad_forward_well_defined_T (hv : QuadValidT e c uw uh) (x : ℝ) (hx0 : e c.box.left ≤ x) (hx1 : x ≤ e c.box.right) :
    QuadFwdWellDefinedT e c uw uh x :=
  ⟨pad_of_validT hv, fwd_of_core (uw_ne_nil_T hv) (core_of_validT hv) hv.hbox (runsRest_of_validT hv) x hx0 hx1⟩

/-- **inverse, tails shape** (`K ≥ 2`): as `quad_inverse_well_defined`, plus the padding step -/
theorem quad_inverse_well_defined_T (hv : QuadValidT e c uw uh) (y : ℝ) (hy0 : e c.box.bottom ≤ y) (hy1 : y ≤ e c.box.top) :
    QuadInvWellDefinedT e c uw uh y :=
  ⟨pad_of_validT hv, inv_of_core (uw_ne_nil_T hv) (core_of_validT hv) hv.hbox (runsRestI_of_validT hv) y hy0 hy1⟩

/-! ### non-vacuity: the four theorems at the concrete accepted configurations of the lemma files -/

example (x : ℝ) (hx0 : eNV cNV.box.left ≤ x) (hx1 : x ≤ eNV cNV.box.right) : QuadFwdWellDefined eNV cNV [0] [0, 0] x :=
  quad_forward_well_defined valid_example x hx0 hx1
example : QuadFwdWellDefined eNV cNV [0] [0, 0] (eNV cNV.box.left) :=
  quad_forward_well_defined valid_example _ le_rfl valid_example.hbox.hlr.le
example (y : ℝ) (hy0 : eNV cNV.box.bottom ≤ y) (hy1 : y ≤ eNV cNV.box.top) : QuadInvWellDefined eNV cNV [0] [0, 0] y :=
  quad_inverse_well_defined valid_example y hy0 hy1
/-- `valid_example` is ONE FLAT bin (`QuadInverseWhole.example_flat_bin`: `a = 0`), and `y = bottom` is `y' = lcdf`
    (`c = 0`): the two delicate cases of the stable root at once -/
example : QuadInvWellDefined eNV cNV [0] [0, 0] (eNV cNV.box.bottom) :=
  quad_inverse_well_defined valid_example _ le_rfl valid_example.hbox.hbt.le
example : QuadFwdWellDefinedT TailsWhole.eW (TailsWhole.qcfgT 1.0 0.0 0.0) [0, 0] [0]
    (TailsWhole.eW (TailsWhole.qcfgT 1.0 0.0 0.0).box.right) :=
  quad_forward_well_defined_T TailsWhole.quad_valid_example _ TailsWhole.quad_valid_example.hbox.hlr.le le_rfl
example (y : ℝ) (hy0 : TailsWhole.eW (TailsWhole.qcfgT 1.0 0.0 0.0).box.bottom ≤ y)
    (hy1 : y ≤ TailsWhole.eW (TailsWhole.qcfgT 1.0 0.0 0.0).box.top) :
    QuadInvWellDefinedT TailsWhole.eW (TailsWhole.qcfgT 1.0 0.0 0.0) [0, 0] [0] y :=
  quad_inverse_well_defined_T TailsWhole.quad_valid_example y hy0 hy1
example : QuadFwdWellDefinedT eT cNV [0, 0] [0] (eT cNV.box.left) :=
  quad_forward_well_defined_T valid_example_T _ le_rfl valid_example_T.hbox.hlr.le

end
end WellDefinedQuad
