import NflowsModel.Lemmas.ARWhole
/-!
# Lemmas/ARWholeMadeRow — the executable MADE model run ROW BY ROW on real numbers (`M = ℝ`) as the conditioner of
the executed autoregressive transform

`Core/Made.forward` is generic in the value `M` carried by a unit.  `Lemmas/MadeNet.madeReal` instantiates it at
functions of the whole batch (so that C06 can be stated and proved, batch norm in training mode included).  Here the
SAME `forward` is instantiated at plain reals, one row at a time (`scalarOps`, `rowParams`: per-unit maps act on the
value of the unit — evaluation mode), which is the program a numeric driver runs; a homomorphism lemma
(`forward_hom`: `forward` commutes with any map of values that preserves `zero / add / smul` and the parameters)
identifies it with `madeReal`, and the whole-program theorems of `ARWhole` are restated for it.
-/
open NF

namespace NF.Made
variable {S M M' : Type}

/-! ## `forward` commutes with homomorphisms of the value type -/

structure OpsHom (o : MOps S M) (o' : MOps S M') (φ : M → M') : Prop where
  zero : φ o.zero = o'.zero
  add : ∀ a b, φ (o.add a b) = o'.add (φ a) (φ b)
  smul : ∀ s a, φ (o.smul s a) = o'.smul s (φ a)

structure ParamsHom (φ : M → M') (P : Params S M) (P' : Params S M') : Prop where
  W : P'.W = P.W
  bias : ∀ l k, P'.bias l k = φ (P.bias l k)
  ctx : ∀ s k, P'.ctx s k = φ (P.ctx s k)
  um : ∀ s sl k v, P'.um s sl k (φ v) = φ (P.um s sl k v)

def stMap (φ : M → M') (h : St M) : St M' := h.map fun p => (p.1, φ p.2)

variable {o : MOps S M} {o' : MOps S M'} {φ : M → M'}

theorem msum_hom (hφ : OpsHom o o' φ) (l : List M) : φ (msum o l) = msum o' (l.map φ) := by
  induction l with
  | nil => exact hφ.zero
  | cons a r ih => simp only [msum, List.map_cons, hφ.add, ih]

theorem linear_hom (hφ : OpsHom o o' φ) (strict : Bool) (dOut : List Nat) (W : Nat → Nat → S) (b : Nat → M)
    (b' : Nat → M') (hb : ∀ k, b' k = φ (b k)) (h : St M) :
    linear o' strict dOut W b' (stMap φ h) = stMap φ (linear o strict dOut W b h) := by
  unfold linear stMap
  apply List.ext_getElem
  · simp
  · intro k h1 h2
    simp only [List.getElem_mapIdx, List.getElem_map]
    rw [hφ.add, msum_hom hφ, hb]
    congr 3
    apply List.ext_getElem
    · simp
    · intro i h3 h4
      simp only [List.getElem_mapIdx, List.getElem_map]
      split
      · rw [hφ.smul]
      · rw [hφ.zero]

theorem mapUnits_hom (f : Nat → M → M) (f' : Nat → M' → M') (hf : ∀ k v, f' k (φ v) = φ (f k v)) (h : St M) :
    mapUnits f' (stMap φ h) = stMap φ (mapUnits f h) := by
  unfold mapUnits stMap
  apply List.ext_getElem
  · simp
  · intro k h1 h2
    simp only [List.getElem_mapIdx, List.getElem_map, hf]

theorem addConst_hom (hφ : OpsHom o o' φ) (c : Nat → M) (c' : Nat → M') (hc : ∀ k, c' k = φ (c k)) (h : St M) :
    addConst o' c' (stMap φ h) = stMap φ (addConst o c h) := by
  unfold addConst stMap
  apply List.ext_getElem
  · simp
  · intro k h1 h2
    simp only [List.getElem_mapIdx, List.getElem_map, hφ.add, hc]

theorem residualAdd_hom (hφ : OpsHom o o' φ) (h t : St M) :
    residualAdd o' (stMap φ h) (stMap φ t) = stMap φ (residualAdd o h t) := by
  unfold residualAdd stMap
  apply List.ext_getElem
  · simp
  · intro k h1 h2
    simp only [List.getElem_map, List.getElem_zip, hφ.add]

theorem blockFwd_hom (hφ : OpsHom o o' φ) {P : Params S M} {P' : Params S M'} (hP : ParamsHom φ P P') (n : Net)
    (bi li : Nat) (b : Block) (h : St M) :
    blockFwd o' P' n bi li b (stMap φ h) = stMap φ (blockFwd o P n bi li b h) := by
  have hbn : ∀ (s : Slot) (t : St M), (if n.bn then mapUnits (P'.um (bi + 1) s) (stMap φ t) else stMap φ t)
      = stMap φ (if n.bn then mapUnits (P.um (bi + 1) s) t else t) := by
    intro s t; split
    · exact mapUnits_hom _ _ (hP.um _ _) t
    · rfl
  have hctx : ∀ (t : St M), (if n.hasCtx then addConst o' (P'.ctx (bi + 1)) (stMap φ t) else stMap φ t)
      = stMap φ (if n.hasCtx then addConst o (P.ctx (bi + 1)) t else t) := by
    intro t; split
    · exact addConst_hom hφ _ _ (hP.ctx _) t
    · rfl
  cases b with
  | ff d =>
    simp only [blockFwd]
    rw [hbn, hP.W, linear_hom hφ false d (P.W li) (P.bias li) (P'.bias li) (hP.bias li),
      mapUnits_hom _ _ (hP.um _ _), mapUnits_hom _ _ (hP.um _ _)]
  | res d0 d1 =>
    simp only [blockFwd]
    rw [hbn, mapUnits_hom _ _ (hP.um _ _), hP.W,
      linear_hom hφ false d0 (P.W li) (P.bias li) (P'.bias li) (hP.bias li), hctx, hbn,
      mapUnits_hom _ _ (hP.um _ _), mapUnits_hom _ _ (hP.um _ _),
      linear_hom hφ false d1 (P.W (li + 1)) (P.bias (li + 1)) (P'.bias (li + 1)) (hP.bias (li + 1)),
      residualAdd_hom hφ]

theorem blocksFwd_hom (hφ : OpsHom o o' φ) {P : Params S M} {P' : Params S M'} (hP : ParamsHom φ P P') (n : Net) :
    ∀ (bs : List Block) (bi li : Nat) (h : St M),
      blocksFwd o' P' n bi li bs (stMap φ h) = stMap φ (blocksFwd o P n bi li bs h) := by
  intro bs
  induction bs with
  | nil => intro bi li h; rfl
  | cons b r ih =>
    intro bi li h
    simp only [blocksFwd]
    rw [blockFwd_hom hφ hP, ih]

/-- **`forward` is natural in the value type** -/
theorem forward_hom (hφ : OpsHom o o' φ) {P : Params S M} {P' : Params S M'} (hP : ParamsHom φ P P') (n : Net)
    (x : List M) : forward o' P' n (x.map φ) = stMap φ (forward o P n x) := by
  have hz : (inputDegrees n.F).zip (x.map φ) = stMap φ ((inputDegrees n.F).zip x) := by
    unfold stMap
    rw [List.zip_map_right]
    rfl
  unfold forward
  simp only
  rw [hz, hP.W, linear_hom hφ false n.d0 (P.W 0) (P.bias 0) (P'.bias 0) (hP.bias 0)]
  have h1 : (if n.hasCtx then
        (if n.nde then addConst o' (P'.ctx 0) (stMap φ (linear o false n.d0 (P.W 0) (P.bias 0) ((inputDegrees n.F).zip x)))
         else addConst o' (fun k => P'.um 0 .ctxAct k (P'.ctx 0 k))
            (stMap φ (linear o false n.d0 (P.W 0) (P.bias 0) ((inputDegrees n.F).zip x))))
      else stMap φ (linear o false n.d0 (P.W 0) (P.bias 0) ((inputDegrees n.F).zip x)))
      = stMap φ (if n.hasCtx then
        (if n.nde then addConst o (P.ctx 0) (linear o false n.d0 (P.W 0) (P.bias 0) ((inputDegrees n.F).zip x))
         else addConst o (fun k => P.um 0 .ctxAct k (P.ctx 0 k))
            (linear o false n.d0 (P.W 0) (P.bias 0) ((inputDegrees n.F).zip x)))
      else linear o false n.d0 (P.W 0) (P.bias 0) ((inputDegrees n.F).zip x)) := by
    split
    · split
      · exact addConst_hom hφ _ _ (hP.ctx 0) _
      · exact addConst_hom hφ _ _ (fun k => by rw [hP.ctx, hP.um]) _
    · rfl
  rw [h1]
  have h2 : ∀ t : St M, (if (!n.nde && !n.residual) = true then mapUnits (P'.um 0 .initAct) (stMap φ t) else stMap φ t)
      = stMap φ (if (!n.nde && !n.residual) = true then mapUnits (P.um 0 .initAct) t else t) := by
    intro t; split
    · exact mapUnits_hom _ _ (hP.um _ _) t
    · rfl
  rw [h2, blocksFwd_hom hφ hP,
    linear_hom hφ true _ (P.W (1 + nLinears n.blocks)) (P.bias (1 + nLinears n.blocks)) _ (hP.bias _)]

theorem outputs_hom (hφ : OpsHom o o' φ) {P : Params S M} {P' : Params S M'} (hP : ParamsHom φ P P') (n : Net)
    (x : List M) : outputs o' P' n (x.map φ) = (outputs o P n x).map φ := by
  unfold outputs
  rw [forward_hom hφ hP, stMap, List.map_map, List.map_map]
  rfl

end NF.Made

/-! ## The scalar instance: one row of real numbers through the executable MADE -/

namespace NF.Made

/-- plain real arithmetic: the value of a unit is a real number -/
def scalarOps : MOps ℝ ℝ where
  zero := 0
  add := fun a b => a + b
  smul := fun s a => s * a

/-- real parameters for one row: weights, biases, the row's context contributions `context_layer(context)[k]`, and
    per-unit maps (activation, dropout mask, batch norm in evaluation mode) acting on the value of the unit -/
def rowParams (W : ℕ → ℕ → ℕ → ℝ) (bias : ℕ → ℕ → ℝ) (ctxr : ℕ → ℕ → ℝ) (act : ℕ → Slot → ℕ → ℝ → ℝ) :
    Params ℝ ℝ where
  W := W
  bias := bias
  ctx := ctxr
  um := act

/-- **the executed MADE on one row**: `Made.outputs` at `M = ℝ`; `row` = the `F` input features -/
def madeRow (n : Net) (W : ℕ → ℕ → ℕ → ℝ) (bias : ℕ → ℕ → ℝ) (ctxr : ℕ → ℕ → ℝ) (act : ℕ → Slot → ℕ → ℝ → ℝ)
    (row : List ℝ) : List ℝ :=
  outputs scalarOps (rowParams W bias ctxr act) n row

/-- evaluation at a batch `X` and a row `b` is a homomorphism from the function-valued instance to the scalar one -/
theorem evalHom {β : Type} (X : β → ℕ → ℝ) (b : β) : OpsHom (realOps β) scalarOps (fun f : RM β => f X b) where
  zero := rfl
  add := fun _ _ => rfl
  smul := fun _ _ => rfl

theorem evalParamsHom {β : Type} (X : β → ℕ → ℝ) (b : β) (W : ℕ → ℕ → ℕ → ℝ) (bias : ℕ → ℕ → ℝ)
    (ctxv : ℕ → ℕ → β → ℝ) (act : ℕ → Slot → ℕ → ℝ → ℝ) :
    ParamsHom (fun f : RM β => f X b)
      (realParams W bias ctxv (fun s sl k col b' => act s sl k (col b')))
      (rowParams W bias (fun s k => ctxv s k b) act) where
  W := rfl
  bias := fun _ _ => rfl
  ctx := fun _ _ => rfl
  um := fun _ _ _ _ => rfl

/-- **the row-wise scalar run IS the function-valued model** (`madeReal`, about which C06 is proved) when the
    per-unit maps act row by row: output `u` for row `b` of the batch `X` -/
theorem madeRow_eq_madeReal {β : Type} (n : Net) (W : ℕ → ℕ → ℕ → ℝ) (bias : ℕ → ℕ → ℝ) (ctxv : ℕ → ℕ → β → ℝ)
    (act : ℕ → Slot → ℕ → ℝ → ℝ) (X : β → ℕ → ℝ) (b : β) (u : ℕ) :
    (madeRow n W bias (fun s k => ctxv s k b) act ((List.range n.F).map (X b))).getD u 0
      = madeReal n W bias ctxv (fun s sl k col b' => act s sl k (col b')) X b u := by
  have hin : (List.range n.F).map (X b) = (realInputs β n.F).map (fun f : RM β => f X b) := by
    simp [realInputs, List.map_map]
  unfold madeRow madeReal
  rw [hin, outputs_hom (evalHom X b) (evalParamsHom X b W bias ctxv act)]
  simp only [List.getD_eq_getElem?_getD, List.getElem?_map]
  cases (outputs (realOps β) (realParams W bias ctxv fun s sl k col b' => act s sl k (col b')) n
    (realInputs β n.F))[u]? <;> rfl

theorem madeRow_length (n : Net) (W : ℕ → ℕ → ℕ → ℝ) (bias : ℕ → ℕ → ℝ) (ctxr : ℕ → ℕ → ℝ)
    (act : ℕ → Slot → ℕ → ℝ → ℝ) (row : List ℝ) : (madeRow n W bias ctxr act row).length = n.F * n.m :=
  outputs_length _ _ _

end NF.Made

/-! ## The conditioner of the executed autoregressive transform, row by row -/

namespace NF.ARWhole
open NF.Made NF.StructureExec

/-- row `b` of a flat `[B, F]` array as the list of its `F` features -/
def rowList (F : Nat) (x : Array ℝ) (b : Nat) : List ℝ := (List.range F).map fun j => x.getD (b * F + j) 0

/-- adapter: `autoregressive_net(inputs, context)` — the executed row program `madeRow` applied to every row of the
    flat `[B, F]` input (`ctxr b` = the context contributions of row `b`), results concatenated into the flat
    `[B, F * m]` parameter tensor that `arApply` slices -/
def madeRowNet (n : Net) (W : ℕ → ℕ → ℕ → ℝ) (bias : ℕ → ℕ → ℝ) (B : Nat) (ctxr : ℕ → ℕ → ℕ → ℝ)
    (act : ℕ → Slot → ℕ → ℝ → ℝ) (x : Array ℝ) : Array ℝ :=
  ((List.range B).flatMap fun b => madeRow n W bias (ctxr b) act (rowList n.F x b)).toArray

/-- the adapter agrees with the function-valued conditioner `madeNet` -/
theorem madeRowNet_eq (n : Net) (W : ℕ → ℕ → ℕ → ℝ) (bias : ℕ → ℕ → ℝ) (B : Nat) (ctxr : ℕ → ℕ → ℕ → ℝ)
    (act : ℕ → Slot → ℕ → ℝ → ℝ) :
    madeRowNet n W bias B ctxr act
      = madeNet n W bias B (fun s k b => ctxr b.1 s k) (fun s sl k col b' => act s sl k (col b')) := by
  funext x
  unfold madeRowNet madeNet
  congr 1
  apply List.flatMap_congr
  intro b hb
  have hb' : b < B := List.mem_range.1 hb
  apply List.ext_getElem
  · rw [madeRow_length]; simp
  · intro u h1 h2
    have hrow : rowList n.F x b = (List.range n.F).map (batchOf B n.F x ⟨b, hb'⟩) := rfl
    have := madeRow_eq_madeReal (β := Fin B) n W bias (fun s k b => ctxr b.1 s k) act (batchOf B n.F x) ⟨b, hb'⟩ u
    rw [← hrow] at this
    simp only [List.getElem_map, List.getElem_range, hb', dite_true]
    rw [← this, List.getD_eq_getElem?_getD, List.getElem?_eq_getElem h1]
    rfl

/-- **C06 for the row-wise executed MADE ⇒ `AutoregNet`** -/
theorem madeRowNet_autoreg (n : Net) (hv : n.valid = true) (hm : 0 < n.m) (W : ℕ → ℕ → ℕ → ℝ) (bias : ℕ → ℕ → ℝ)
    (B : Nat) (ctxr : ℕ → ℕ → ℕ → ℝ) (act : ℕ → Slot → ℕ → ℝ → ℝ) :
    AutoregNet B n.F n.m (madeRowNet n W bias B ctxr act) := by
  rw [madeRowNet_eq]
  exact madeNet_autoreg n hv hm W bias B _ _

/-- **C02 + C06, row-wise executed MADE, generic element family**: for every architecture accepted by `build`,
    every real weight assignment, every `B`: if the forward pass raised nothing and the elements invert on the
    forward parameters, the `F`-pass loop returns the input, has the prefix invariant, and negates the log-det. -/
theorem madeRow_ar_inverse_forward (e : Float → ℝ) (c : ElCfg) (a : Arch) (n : Net) (hbuild : build a = .ok n)
    (hmult : a.mult = pw c) (W : ℕ → ℕ → ℕ → ℝ) (bias : ℕ → ℕ → ℝ) (B : Nat) (ctxr : ℕ → ℕ → ℕ → ℝ)
    (act : ℕ → Slot → ℕ → ℝ → ℝ) (x : Array ℝ) (hx : x.size = B * a.F)
    (hinv : ArElInvertible (NF.realX e) c a.F (madeRowNet n W bias B ctxr act x) B)
    (herr : (arForward (NF.realX e) c B a.F (madeRowNet n W bias B ctxr act) x).err = none) :
    let net := madeRowNet n W bias B ctxr act
    let fwd := arForward (NF.realX e) c B a.F net x
    let inv := arInverse (NF.realX e) c B a.F net fwd.out
    inv.out = x
      ∧ (∀ k, AgreeBelow B a.F k (arIter (NF.realX e) c B a.F net fwd.out k).out x)
      ∧ (∀ b, b < B → inv.ld[b]? = (fwd.ld[b]?).map (fun l => -l)) := by
  obtain ⟨hv, hF, hm, hFa, hma⟩ := build_valid hbuild
  have hnet : AutoregNet B a.F (pw c) (madeRowNet n W bias B ctxr act) := by
    rw [← hmult, ← hma, ← hFa]; exact madeRowNet_autoreg n hv hm W bias B ctxr act
  intro net fwd inv
  obtain ⟨h1, h2, _, h4⟩ := ar_inverse_forward_real e c B a.F _ x hnet hinv herr hx
  exact ⟨h1, h2, h4 (by omega)⟩

/-- **MAF (affine elements) with the row-wise executed MADE: unconditional**, both orders -/
theorem madeRow_affine_roundtrip_real (e : Float → ℝ) (c : ElCfg) (hk : c.kind = "araffine")
    (he : 0 ≤ e (c.ds.getD 0 0.0)) (a : Arch) (n : Net) (hbuild : build a = .ok n) (hmult : a.mult = 2)
    (W : ℕ → ℕ → ℕ → ℝ) (bias : ℕ → ℕ → ℝ) (B : Nat) (ctxr : ℕ → ℕ → ℕ → ℝ) (act : ℕ → Slot → ℕ → ℝ → ℝ)
    (x : Array ℝ) (hx : x.size = B * a.F) :
    let net := madeRowNet n W bias B ctxr act
    (let fwd := arForward (NF.realX e) c B a.F net x
     let inv := arInverse (NF.realX e) c B a.F net fwd.out
     fwd.err = none ∧ inv.err = none ∧ inv.out = x
      ∧ (∀ k, AgreeBelow B a.F k (arIter (NF.realX e) c B a.F net fwd.out k).out x)
      ∧ (∀ b, b < B → inv.ld[b]? = (fwd.ld[b]?).map (fun l => -l)))
    ∧ (let inv := arInverse (NF.realX e) c B a.F net x
       let fwd := arForward (NF.realX e) c B a.F net inv.out
       inv.err = none ∧ fwd.err = none ∧ fwd.out = x
        ∧ (∀ b, b < B → fwd.ld[b]? = (inv.ld[b]?).map (fun l => -l))) := by
  rw [madeRowNet_eq]
  exact made_affine_roundtrip_real e c hk he a n hbuild hmult W bias B _ _ x hx

/-- **bounded RQ elements with the row-wise executed MADE: unconditional**, both orders -/
theorem madeRow_rq_roundtrip_real (e : Float → ℝ) (c : ElCfg) (hc : RQCfgValid e c) (a : Arch) (n : Net)
    (hbuild : build a = .ok n) (hmult : a.mult = 3 * c.K + 1) (W : ℕ → ℕ → ℕ → ℝ) (bias : ℕ → ℕ → ℝ) (B : Nat)
    (ctxr : ℕ → ℕ → ℕ → ℝ) (act : ℕ → Slot → ℕ → ℝ → ℝ) :
    let net := madeRowNet n W bias B ctxr act
    (∀ x : Array ℝ, x.size = B * a.F → InBox (e (rqCfgOf c).box.left) (e (rqCfgOf c).box.right) B a.F x →
      let fwd := arForward (NF.realX e) c B a.F net x
      let inv := arInverse (NF.realX e) c B a.F net fwd.out
      fwd.err = none ∧ inv.err = none ∧ inv.out = x
        ∧ (∀ k, AgreeBelow B a.F k (arIter (NF.realX e) c B a.F net fwd.out k).out x)
        ∧ (∀ b, b < B → inv.ld[b]? = (fwd.ld[b]?).map (fun l => -l)))
    ∧ (∀ y : Array ℝ, y.size = B * a.F → InBox (e (rqCfgOf c).box.bottom) (e (rqCfgOf c).box.top) B a.F y →
      let inv := arInverse (NF.realX e) c B a.F net y
      let fwd := arForward (NF.realX e) c B a.F net inv.out
      inv.err = none ∧ fwd.err = none ∧ fwd.out = y
        ∧ (∀ b, b < B → fwd.ld[b]? = (inv.ld[b]?).map (fun l => -l))) := by
  rw [madeRowNet_eq]
  exact made_rq_roundtrip_real e c hc a n hbuild hmult W bias B _ _

/-! ### non-vacuity: a concrete architecture, a concrete configuration -/

/-- `F = 3`, hidden width 4, one residual block, multiplier 2 (affine) — accepted by the modelled constructor -/
def exArch : Arch := { F := 3, H := 4, nBlocks := 1, mult := 2, residual := true, random := false, nde := false,
                       ctx := 0, bn := false }

theorem exArch_builds : ∃ n, build exArch = .ok n := by
  have h : (match build exArch with | .ok _ => true | .error _ => false) = true := by decide
  cases hb : build exArch with
  | ok n => exact ⟨n, rfl⟩
  | error err => rw [hb] at h; cases h

/-- affine elements with `eps = 1e-3` read by `RQWhole.eNV` (a two-valued reading, `≥ 0` everywhere) -/
def exAffine : ElCfg := { container := "ar", kind := "araffine", ds := #[1e-3] }

/-- the unconditional MAF theorem instantiated: nothing is assumed -/
theorem exArch_affine_roundtrip (n : Net) (hn : build exArch = .ok n) (W : ℕ → ℕ → ℕ → ℝ) (bias : ℕ → ℕ → ℝ)
    (B : Nat) (ctxr : ℕ → ℕ → ℕ → ℝ) (act : ℕ → Slot → ℕ → ℝ → ℝ) (x : Array ℝ) (hx : x.size = B * 3) :
    (arInverse (NF.realX RQWhole.eNV) exAffine B 3 (madeRowNet n W bias B ctxr act)
      (arForward (NF.realX RQWhole.eNV) exAffine B 3 (madeRowNet n W bias B ctxr act) x).out).out = x := by
  have he : 0 ≤ RQWhole.eNV (exAffine.ds.getD 0 0.0) := by
    unfold RQWhole.eNV; split <;> norm_num
  exact (madeRow_affine_roundtrip_real RQWhole.eNV exAffine rfl he exArch n hn rfl W bias B ctxr act x hx).1.2.2.1

/-- one-bin RQ elements (`StructureExecRQ.cW`), multiplier `3·1+1 = 4` -/
def exArchRQ : Arch := { exArch with mult := 4 }

theorem exArchRQ_builds : ∃ n, build exArchRQ = .ok n := by
  have h : (match build exArchRQ with | .ok _ => true | .error _ => false) = true := by decide
  cases hb : build exArchRQ with
  | ok n => exact ⟨n, rfl⟩
  | error err => rw [hb] at h; cases h

theorem exArchRQ_roundtrip (n : Net) (hn : build exArchRQ = .ok n) (W : ℕ → ℕ → ℕ → ℝ) (bias : ℕ → ℕ → ℝ)
    (B : Nat) (ctxr : ℕ → ℕ → ℕ → ℝ) (act : ℕ → Slot → ℕ → ℝ → ℝ) (x : Array ℝ) (hx : x.size = B * 3)
    (hbox : InBox (RQWhole.eNV (rqCfgOf cW).box.left) (RQWhole.eNV (rqCfgOf cW).box.right) B 3 x) :
    (arInverse (NF.realX RQWhole.eNV) cW B 3 (madeRowNet n W bias B ctxr act)
      (arForward (NF.realX RQWhole.eNV) cW B 3 (madeRowNet n W bias B ctxr act) x).out).out = x :=
  ((madeRow_rq_roundtrip_real RQWhole.eNV cW rqCfgValid_example exArchRQ n hn rfl W bias B ctxr act).1 x hx
    hbox).2.2.1

end NF.ARWhole
