import NflowsModel.Core.LinearFamily
import NflowsModel.Core.Norm
import NflowsModel.Lemmas.DualX
import NflowsModel.Lemmas.LFIndex
import NflowsModel.Lemmas.MadeSmooth
import Mathlib.Tactic
/-!
# Lemmas/DualXLU — the EXECUTED `LULinear` programs run on dual numbers (C16)

The harness compares `torch.autograd` with the model run at dual numbers, `(dualX (NF.realX e)).toOps : Ops (ℝ × ℝ)`.
Here: the list programs of `Core/LinearFamily.lean` (`sum`, `dot`, `addV`, `subV`, `matVec`, `linear0`, `linear`, `softplus`,
`posDiag`, `sumLog`, `luLower`, `mkUpper`, `luForward`, `luLogabsdet`) run on dual numbers return, entry by entry, the pair
(value of the real program, derivative of the real program along the seeded direction).

* generic layer: `DL rel F ds` — the `s`-dependent list `F s` is, entry by entry, related by `rel` to the list `ds` of dual
  data; closed under `map`, `zipWith`, `foldl`, `getD`, tabulation (`DL.map'`, `DL.zipWith'`, `DL.foldl'`, `DL.getD'`,
  `DL.ofMap`).  `DV t = DL (IsDual · t ·)` vectors, `DM t = DL (DV t)` matrices.
* `sum_dual`, `dot_dual`, `addV_dual`, `subV_dual`, `matVec_dual`, `linear0_dual`, `linear_dual`: reusable, for ARBITRARY
  differentiable curves of inputs (no shape hypotheses: the programs truncate to the shorter argument on both sides).
* `softplus_dual`: the executed `F.softplus` of the linear family, side condition `x ≠ 20`.
* headlines `lu_forward_dual_sound`, `lu_logabsdet_dual_sound` (straight lines `p + s·ṗ` in ALL of input, lower, upper,
  unconstrained diagonal, bias, eps simultaneously; `_curve` forms for arbitrary curves), and the counterexample
  `lu_forward_not_differentiable_at_threshold`: with an unconstrained diagonal entry AT the threshold 20 the real program is not
  even continuous along the direction, so the hypothesis cannot be dropped.
* §7 normalisation layers: `batchnorm_eval_dual_sound` (evaluation mode, `bnStep_eval`), `actnorm_dual_sound` (2-D and 4-D).
* §8 `lu_inverse_dual_sound_input` (`luInverse`: the two triangular solves), in fact for all parameter directions as well.
-/
open NF DualSound DualX Filter Topology

namespace DualXLU
noncomputable section

/-! ## 0. generic layer: lists of curves against lists of dual data -/

section generic
variable {A B A₂ B₂ A' B' C C' ι : Type}

/-- the `s`-dependent list `F s` is the list of values at `s` of a list of curves, each related to the matching entry of `ds` -/
def DL (rel : (ℝ → A) → B → Prop) (F : ℝ → List A) (ds : List B) : Prop :=
  ∃ fs : List (ℝ → A), (∀ s, F s = fs.map (fun f => f s)) ∧ List.Forall₂ rel fs ds

theorem forall₂_imp_mem {α β : Type} {R S : α → β → Prop} {l₁ : List α} {l₂ : List β} (h : List.Forall₂ R l₁ l₂)
    (hRS : ∀ a b, b ∈ l₂ → R a b → S a b) : List.Forall₂ S l₁ l₂ := by
  induction h with
  | nil => exact .nil
  | cons hab _ ih =>
    exact .cons (hRS _ _ List.mem_cons_self hab) (ih fun a b hb => hRS a b (List.mem_cons_of_mem _ hb))

theorem DL.length {rel : (ℝ → A) → B → Prop} {F : ℝ → List A} {ds : List B} (h : DL rel F ds) (s : ℝ) :
    (F s).length = ds.length := by
  obtain ⟨fs, hF, h2⟩ := h
  rw [hF, List.length_map, h2.length_eq]

theorem DL.map' {rel : (ℝ → A) → B → Prop} {rel' : (ℝ → A') → B' → Prop} {F : ℝ → List A} {ds : List B}
    (g : ℝ → A → A') (g' : B → B') (h : DL rel F ds)
    (hg : ∀ f d, d ∈ ds → rel f d → rel' (fun s => g s (f s)) (g' d)) :
    DL rel' (fun s => (F s).map (g s)) (ds.map g') := by
  obtain ⟨fs, hF, h2⟩ := h
  refine ⟨fs.map (fun f s => g s (f s)), fun s => ?_, ?_⟩
  · beta_reduce; rw [hF, List.map_map, List.map_map]; rfl
  · rw [List.forall₂_map_left_iff, List.forall₂_map_right_iff]
    exact forall₂_imp_mem h2 hg

theorem DL.zipWith' {rel : (ℝ → A) → B → Prop} {rel₂ : (ℝ → A₂) → B₂ → Prop} {rel' : (ℝ → A') → B' → Prop}
    {F : ℝ → List A} {ds : List B} {G : ℝ → List A₂} {es : List B₂}
    (g : ℝ → A → A₂ → A') (g' : B → B₂ → B') (h1 : DL rel F ds) (h2 : DL rel₂ G es)
    (hg : ∀ f d f₂ d₂, rel f d → rel₂ f₂ d₂ → rel' (fun s => g s (f s) (f₂ s)) (g' d d₂)) :
    DL rel' (fun s => List.zipWith (g s) (F s) (G s)) (List.zipWith g' ds es) := by
  obtain ⟨fs, hF, hf⟩ := h1
  obtain ⟨gs, hG, hgs⟩ := h2
  refine ⟨List.zipWith (fun f f₂ s => g s (f s) (f₂ s)) fs gs, fun s => ?_, ?_⟩
  · beta_reduce; rw [hF, hG]
    clear hF hG hf hgs
    induction fs generalizing gs with
    | nil => simp
    | cons f fs ih =>
      cases gs with
      | nil => simp
      | cons g₂ gs => simp only [List.map_cons, List.zipWith_cons_cons, ih]
  · clear hF hG
    induction hf generalizing gs es with
    | nil => simp
    | cons hab _ ih =>
      cases hgs with
      | nil => simp
      | cons hab₂ hrest => exact .cons (hg _ _ _ _ hab hab₂) (ih _ hrest)

theorem DL.foldl' {rel : (ℝ → A) → B → Prop} {rel₀ : (ℝ → C) → C' → Prop} {F : ℝ → List A} {ds : List B}
    (op : ℝ → C → A → C) (op' : C' → B → C') (h : DL rel F ds)
    (hop : ∀ acc a f d, rel₀ acc a → rel f d → rel₀ (fun s => op s (acc s) (f s)) (op' a d))
    {i : ℝ → C} {i' : C'} (hi : rel₀ i i') :
    rel₀ (fun s => (F s).foldl (op s) (i s)) (ds.foldl op' i') := by
  obtain ⟨fs, hF, h2⟩ := h
  have hrw : (fun s => (F s).foldl (op s) (i s)) = fun s => (fs.map (fun f => f s)).foldl (op s) (i s) :=
    funext fun s => by rw [hF]
  rw [hrw]
  clear hrw hF
  induction h2 generalizing i i' with
  | nil => simpa using hi
  | cons hab _ ih =>
    simp only [List.map_cons, List.foldl_cons]
    exact ih (hop _ _ _ _ hi hab)

theorem DL.getD' {rel : (ℝ → A) → B → Prop} {F : ℝ → List A} {ds : List B} (h : DL rel F ds) (k : ℕ)
    {f₀ : ℝ → A} {d₀ : B} (h0 : rel f₀ d₀) : rel (fun s => (F s).getD k (f₀ s)) (ds.getD k d₀) := by
  obtain ⟨fs, hF, h2⟩ := h
  have hrw : (fun s => (F s).getD k (f₀ s)) = fun s => (fs.map (fun f => f s)).getD k (f₀ s) :=
    funext fun s => by rw [hF]
  rw [hrw]
  clear hrw hF
  induction h2 generalizing k with
  | nil => simpa using h0
  | cons hab _ ih =>
    cases k with
    | zero => simpa using hab
    | succ k => simpa using ih k

theorem DL.ofMap {rel : (ℝ → A) → B → Prop} (l : List ι) (g : ℝ → ι → A) (g' : ι → B)
    (h : ∀ i ∈ l, rel (fun s => g s i) (g' i)) : DL rel (fun s => l.map (g s)) (l.map g') := by
  refine ⟨l.map (fun i s => g s i), fun s => ?_, ?_⟩
  · rw [List.map_map]; rfl
  · rw [List.forall₂_map_left_iff, List.forall₂_map_right_iff, List.forall₂_same]
    exact h

theorem DL.congr {rel : (ℝ → A) → B → Prop} {F G : ℝ → List A} {ds : List B} (h : DL rel F ds) (hFG : ∀ s, G s = F s) :
    DL rel G ds := by
  obtain ⟨fs, hF, h2⟩ := h
  exact ⟨fs, fun s => (hFG s).trans (hF s), h2⟩

end generic

/-! ## 1. the two scalar semantics and the relations -/

variable (e : Float → ℝ)

/-- the real scalar operations the theorems are about (`= DualSound.realOps`) -/
abbrev Rr : Ops ℝ := (NF.realX e).toOps
/-- the dual-number scalar operations the driver runs (`= dualOps realOps`) -/
abbrev Dd : Ops (ℝ × ℝ) := (dualX (NF.realX e)).toOps

/-- a vector of curves against a vector of dual numbers -/
abbrev DV (t : ℝ) : (ℝ → List ℝ) → List (ℝ × ℝ) → Prop := DL (fun f d => IsDual f t d)
/-- a matrix (list of rows) of curves against a matrix of dual numbers -/
abbrev DM (t : ℝ) : (ℝ → List (List ℝ)) → List (List (ℝ × ℝ)) → Prop := DL (DV t)

variable {e}
variable {t : ℝ}

theorem zero_dual : IsDual (fun _ => LF.zero (Rr e)) t (LF.zero (Dd e)) := IsDual.ofRat e 0 1 t
theorem one_dual : IsDual (fun _ => LF.one (Rr e)) t (LF.one (Dd e)) := IsDual.ofRat e 1 1 t

theorem zero_R : LF.zero (Rr e) = 0 := by show ((0:ℤ):ℝ) / ((1:ℕ):ℝ) = 0; norm_num
theorem one_R : LF.one (Rr e) = 1 := by show ((1:ℤ):ℝ) / ((1:ℕ):ℝ) = 1; norm_num
theorem zero_D : LF.zero (Dd e) = (0, 0) := by show (dualX (NF.realX e)).ofRat 0 1 = _; rw [d_ofRat]; norm_num
theorem one_D : LF.one (Dd e) = (1, 0) := by show (dualX (NF.realX e)).ofRat 1 1 = _; rw [d_ofRat]; norm_num

/-- entry-wise reading of `DV`: same length, and every entry (out of range: the default) is a (value, derivative) pair -/
theorem DV.entry {F : ℝ → List ℝ} {ds : List (ℝ × ℝ)} (h : DV t F ds) (k : ℕ) :
    IsDual (fun s => (F s).getD k 0) t (ds.getD k (0, 0)) :=
  DL.getD' h k (IsDual.const 0 t)

/-- entry-wise reading of `DM` -/
theorem DM.entry {M : ℝ → List (List ℝ)} {dM : List (List (ℝ × ℝ))} (h : DM t M dM) (r c : ℕ) :
    IsDual (fun s => ((M s).getD r []).getD c 0) t ((dM.getD r []).getD c (0, 0)) := by
  have hnil : DV t (fun _ => ([] : List ℝ)) [] := ⟨[], fun _ => rfl, .nil⟩
  exact DV.entry (DL.getD' h r hnil) c

/-! ## 2. generic programs: `sum`, `dot`, `addV`, `subV`, `matVec`, `linear0`, `linear` -/

theorem sum_dual {F : ℝ → List ℝ} {ds : List (ℝ × ℝ)} (h : DV t F ds) :
    IsDual (fun s => LF.sum (Rr e) (F s)) t (LF.sum (Dd e) ds) :=
  DL.foldl' (rel₀ := fun f d => IsDual f t d) (fun _ => (Rr e).add) (Dd e).add h
    (fun _ _ _ _ ha hd => IsDual.add e ha hd) zero_dual

theorem mulV_dual {F G : ℝ → List ℝ} {ds es : List (ℝ × ℝ)} (hx : DV t F ds) (hy : DV t G es) :
    DV t (fun s => List.zipWith (Rr e).mul (F s) (G s)) (List.zipWith (Dd e).mul ds es) :=
  DL.zipWith' (fun _ => (Rr e).mul) (Dd e).mul hx hy (fun _ _ _ _ ha hb => IsDual.mul e ha hb)

theorem dot_dual {F G : ℝ → List ℝ} {ds es : List (ℝ × ℝ)} (hx : DV t F ds) (hy : DV t G es) :
    IsDual (fun s => LF.dot (Rr e) (F s) (G s)) t (LF.dot (Dd e) ds es) :=
  sum_dual (mulV_dual hx hy)

theorem addV_dual {F G : ℝ → List ℝ} {ds es : List (ℝ × ℝ)} (hx : DV t F ds) (hy : DV t G es) :
    DV t (fun s => LF.addV (Rr e) (F s) (G s)) (LF.addV (Dd e) ds es) :=
  DL.zipWith' (fun _ => (Rr e).add) (Dd e).add hx hy (fun _ _ _ _ ha hb => IsDual.add e ha hb)

theorem subV_dual {F G : ℝ → List ℝ} {ds es : List (ℝ × ℝ)} (hx : DV t F ds) (hy : DV t G es) :
    DV t (fun s => LF.subV (Rr e) (F s) (G s)) (LF.subV (Dd e) ds es) :=
  DL.zipWith' (fun _ => (Rr e).sub) (Dd e).sub hx hy (fun _ _ _ _ ha hb => IsDual.sub e ha hb)

theorem matVec_dual {M : ℝ → List (List ℝ)} {dM : List (List (ℝ × ℝ))} {F : ℝ → List ℝ} {ds : List (ℝ × ℝ)}
    (hM : DM t M dM) (hx : DV t F ds) :
    DV t (fun s => LF.matVec (Rr e) (M s) (F s)) (LF.matVec (Dd e) dM ds) :=
  DL.map' (fun s row => LF.dot (Rr e) row (F s)) (fun row => LF.dot (Dd e) row ds) hM
    (fun _ _ _ hrow => dot_dual hrow hx)

theorem linear0_dual {W X : ℝ → List (List ℝ)} {dW dX : List (List (ℝ × ℝ))} (hW : DM t W dW) (hX : DM t X dX) :
    DM t (fun s => LF.linear0 (Rr e) (W s) (X s)) (LF.linear0 (Dd e) dW dX) :=
  DL.map' (fun s x => LF.matVec (Rr e) (W s) x) (fun x => LF.matVec (Dd e) dW x) hX
    (fun _ _ _ hx => matVec_dual hW hx)

theorem linear_dual {W X : ℝ → List (List ℝ)} {dW dX : List (List (ℝ × ℝ))} {b : ℝ → List ℝ} {db : List (ℝ × ℝ)}
    (hW : DM t W dW) (hb : DV t b db) (hX : DM t X dX) :
    DM t (fun s => LF.linear (Rr e) (W s) (b s) (X s)) (LF.linear (Dd e) dW db dX) :=
  DL.map' (fun s x => LF.addV (Rr e) (LF.matVec (Rr e) (W s) x) (b s))
    (fun x => LF.addV (Dd e) (LF.matVec (Dd e) dW x) db) hX
    (fun _ _ _ hx => addV_dual (matVec_dual hW hx) hb)

/-! ## 3. the executed `F.softplus` of the linear family (threshold 20, compensated `log1p`) -/

theorem lt_one_u_R (x : ℝ) : (Rr e).lt (LF.one (Rr e)) ((Rr e).add (LF.one (Rr e)) ((Rr e).exp x)) = true := by
  rw [one_R]
  show decide ((1:ℝ) < 1 + Real.exp x) = true
  simp [Real.exp_pos]

theorem lt_one_u_D (a : ℝ × ℝ) : (Dd e).lt (LF.one (Dd e)) ((Dd e).add (LF.one (Dd e)) ((Dd e).exp a)) = true := by
  rw [one_D]
  show decide ((1:ℝ) < 1 + Real.exp a.1) = true
  simp [Real.exp_pos]

theorem softplus_R_unfold (x : ℝ) :
    LF.softplus (Rr e) x = if (Rr e).lt ((Rr e).ofRat 20 1) x then x else
      (Rr e).div ((Rr e).mul ((Rr e).log ((Rr e).add (LF.one (Rr e)) ((Rr e).exp x))) ((Rr e).exp x))
        ((Rr e).sub ((Rr e).add (LF.one (Rr e)) ((Rr e).exp x)) (LF.one (Rr e))) := by
  unfold LF.softplus
  simp only [lt_one_u_R, Bool.or_true, if_true]

theorem softplus_D_unfold (a : ℝ × ℝ) :
    LF.softplus (Dd e) a = if (Dd e).lt ((Dd e).ofRat 20 1) a then a else
      (Dd e).div ((Dd e).mul ((Dd e).log ((Dd e).add (LF.one (Dd e)) ((Dd e).exp a))) ((Dd e).exp a))
        ((Dd e).sub ((Dd e).add (LF.one (Dd e)) ((Dd e).exp a)) (LF.one (Dd e))) := by
  unfold LF.softplus
  simp only [lt_one_u_D, Bool.or_true, if_true]

/-- **the executed `F.softplus` on dual numbers**, side condition: the argument is not AT the threshold 20 (where the executed
    function jumps, `softplus_not_continuousAt_threshold` below) -/
theorem softplus_dual {f : ℝ → ℝ} {a : ℝ × ℝ} (ha : IsDual f t a) (hthr : a.1 ≠ 20) :
    IsDual (fun s => LF.softplus (Rr e) (f s)) t (LF.softplus (Dd e) a) := by
  have hrw : (fun s => LF.softplus (Rr e) (f s)) = fun s =>
      if (NF.realX e).lt ((fun _ => (NF.realX e).ofRat 20 1) s) (f s) then f s else
        (fun s => (Rr e).div ((Rr e).mul ((Rr e).log ((Rr e).add (LF.one (Rr e)) ((Rr e).exp (f s)))) ((Rr e).exp (f s)))
          ((Rr e).sub ((Rr e).add (LF.one (Rr e)) ((Rr e).exp (f s))) (LF.one (Rr e)))) s :=
    funext fun s => softplus_R_unfold (f s)
  rw [hrw, softplus_D_unfold]
  refine IsDual.ite_lt e (IsDual.ofRat e 20 1 t) ha ?_ (fun _ => ha) (fun _ => ?_)
  · rw [d_ofRat]; norm_num; exact Ne.symm hthr
  · have hex := IsDual.exp e ha
    have hu := IsDual.add e (one_dual (e := e) (t := t)) hex
    have hpos : 0 < Real.exp a.1 := Real.exp_pos _
    refine IsDual.div e (IsDual.mul e (IsDual.log e hu ?_) hex) (IsDual.sub e hu one_dual) ?_
    · rw [one_D]; show (1:ℝ) + Real.exp a.1 ≠ 0; linarith
    · rw [one_D]; show (1:ℝ) + Real.exp a.1 - 1 ≠ 0; linarith

/-- `upper_diag = softplus(u) + eps`, entry by entry -/
theorem posDiag_dual {U : ℝ → List ℝ} {du : List (ℝ × ℝ)} {eps : ℝ → ℝ} {deps : ℝ × ℝ} (hU : DV t U du)
    (heps : IsDual eps t deps) (hthr : ∀ d ∈ du, d.1 ≠ 20) :
    DV t (fun s => LF.posDiag (Rr e) (eps s) (U s)) (LF.posDiag (Dd e) deps du) :=
  DL.map' (fun s x => (Rr e).add (LF.softplus (Rr e) x) (eps s)) (fun x => (Dd e).add (LF.softplus (Dd e) x) deps) hU
    (fun _ d hd ha => IsDual.add e (softplus_dual ha (hthr d hd)) heps)

/-- `sum(log(softplus(u) + eps))`; side conditions: no entry at the threshold, no diagonal entry equal to `0` -/
theorem sumLog_posDiag_dual {U : ℝ → List ℝ} {du : List (ℝ × ℝ)} {eps : ℝ → ℝ} {deps : ℝ × ℝ} (hU : DV t U du)
    (heps : IsDual eps t deps) (hthr : ∀ d ∈ du, d.1 ≠ 20)
    (hne : ∀ d ∈ du, LF.softplus (Rr e) d.1 + deps.1 ≠ 0) :
    IsDual (fun s => LF.sumLog (Rr e) (LF.posDiag (Rr e) (eps s) (U s))) t
      (LF.sumLog (Dd e) (LF.posDiag (Dd e) deps du)) := by
  unfold LF.sumLog LF.posDiag
  simp only [List.map_map]
  refine sum_dual (DL.map' (fun s => (Rr e).log ∘ fun x => (Rr e).add (LF.softplus (Rr e) x) (eps s))
    ((Dd e).log ∘ fun x => (Dd e).add (LF.softplus (Dd e) x) deps) hU (fun f d hd ha => ?_))
  have hs := IsDual.add e (softplus_dual (e := e) ha (hthr d hd)) heps
  refine IsDual.log e hs ?_
  rw [hs.val]
  show LF.softplus (Rr e) (f t) + eps t ≠ 0
  rw [← ha.val, ← heps.val]
  exact hne d hd

/-! ## 4. assembly of the triangular factors -/

theorem lookupIdx_nil_left {α : Type} (vals : List α) (i j : ℕ) : LF.lookupIdx [] vals i j = none := by
  simp [LF.lookupIdx]
theorem lookupIdx_nil_right {α : Type} (idx : List (ℕ × ℕ)) (i j : ℕ) : LF.lookupIdx idx ([] : List α) i j = none := by
  simp [LF.lookupIdx]
theorem lookupIdx_cons_cons {α : Type} (a : ℕ × ℕ) (idx : List (ℕ × ℕ)) (v : α) (vals : List α) (i j : ℕ) :
    LF.lookupIdx (a :: idx) (v :: vals) i j = if a == (i, j) then some v else LF.lookupIdx idx vals i j := by
  by_cases h : (a == (i, j)) = true <;> simp [LF.lookupIdx, h]

/-- the scatter `M[idx] = vals` read at one position -/
theorem lookup_dual {V : ℝ → List ℝ} {dv : List (ℝ × ℝ)} (idx : List (ℕ × ℕ)) (h : DV t V dv) (i j : ℕ)
    {z : ℝ → ℝ} {z' : ℝ × ℝ} (h0 : IsDual z t z') :
    IsDual (fun s => (LF.lookupIdx idx (V s) i j).getD (z s)) t ((LF.lookupIdx idx dv i j).getD z') := by
  obtain ⟨fs, hF, h2⟩ := h
  have hrw : (fun s => (LF.lookupIdx idx (V s) i j).getD (z s))
      = fun s => (LF.lookupIdx idx (fs.map (fun f => f s)) i j).getD (z s) := funext fun s => by rw [hF]
  rw [hrw]
  clear hrw hF
  induction idx generalizing fs dv with
  | nil => simpa only [lookupIdx_nil_left, Option.getD_none] using h0
  | cons a idx ih =>
    cases h2 with
    | nil => simpa only [List.map_nil, lookupIdx_nil_right, Option.getD_none] using h0
    | cons hab hrest =>
      simp only [List.map_cons, lookupIdx_cons_cons]
      by_cases hc : (a == (i, j)) = true
      · simpa only [hc, if_true, Option.getD_some] using hab
      · simpa only [hc, Bool.false_eq_true, if_false] using ih _ hrest

theorem tab2_dual (n : ℕ) (g : ℝ → ℕ → ℕ → ℝ) (g' : ℕ → ℕ → ℝ × ℝ)
    (h : ∀ i j, IsDual (fun s => g s i j) t (g' i j)) :
    DM t (fun s => LF.tab2 n (g s)) (LF.tab2 n g') :=
  DL.ofMap (List.range n) (fun s i => (List.range n).map (g s i)) (fun i => (List.range n).map (g' i))
    (fun i _ => DL.ofMap (List.range n) (fun s => g s i) (g' i) (fun j _ => h i j))

theorem luLower_dual (n : ℕ) {lo : ℝ → List ℝ} {dlo : List (ℝ × ℝ)} (h : DV t lo dlo) :
    DM t (fun s => LF.luLower (Rr e) n (lo s)) (LF.luLower (Dd e) n dlo) := by
  refine tab2_dual n _ _ (fun i j => ?_)
  by_cases hij : i = j
  · simp only [if_pos hij]; exact one_dual
  · simp only [if_neg hij]; exact lookup_dual _ h i j zero_dual

theorem mkUpper_dual (n : ℕ) {up d : ℝ → List ℝ} {dup dd : List (ℝ × ℝ)} (h : DV t up dup) (hd : DV t d dd) :
    DM t (fun s => LF.mkUpper (Rr e) n (up s) (d s)) (LF.mkUpper (Dd e) n dup dd) := by
  refine tab2_dual n _ _ (fun i j => ?_)
  by_cases hij : i = j
  · simp only [if_pos hij]; exact DL.getD' hd i zero_dual
  · simp only [if_neg hij]; exact lookup_dual _ h i j zero_dual

/-! ## 5. `LULinear` along an arbitrary differentiable curve of (parameters, inputs) -/

/-- a curve of `LULinear` parameters against dual parameters: same size, every entry a (value, derivative) pair -/
structure LUCurve (t : ℝ) (P : ℝ → LF.LUParams ℝ) (dp : LF.LUParams (ℝ × ℝ)) : Prop where
  n : ∀ s, (P s).n = dp.n
  lower : DV t (fun s => (P s).lower) dp.lower
  upper : DV t (fun s => (P s).upper) dp.upper
  udiag : DV t (fun s => (P s).udiag) dp.udiag
  bias : DV t (fun s => (P s).bias) dp.bias
  eps : IsDual (fun s => (P s).eps) t dp.eps

theorem luForward_dual_curve {P : ℝ → LF.LUParams ℝ} {dp : LF.LUParams (ℝ × ℝ)} {X : ℝ → List (List ℝ)}
    {dX : List (List (ℝ × ℝ))} (hP : LUCurve t P dp) (hX : DM t X dX) (hthr : ∀ d ∈ dp.udiag, d.1 ≠ 20) :
    DM t (fun s => LF.luForward (Rr e) (P s) (X s)) (LF.luForward (Dd e) dp dX) := by
  unfold LF.luForward LF.luL LF.luU
  simp only [hP.n]
  exact linear_dual (luLower_dual _ hP.lower) hP.bias
    (linear0_dual (mkUpper_dual _ hP.upper (posDiag_dual hP.udiag hP.eps hthr)) hX)

theorem luLogabsdet_dual_curve {P : ℝ → LF.LUParams ℝ} {dp : LF.LUParams (ℝ × ℝ)} (hP : LUCurve t P dp)
    (hthr : ∀ d ∈ dp.udiag, d.1 ≠ 20) (hne : ∀ d ∈ dp.udiag, LF.softplus (Rr e) d.1 + dp.eps.1 ≠ 0) :
    IsDual (fun s => LF.luLogabsdet (Rr e) (P s)) t (LF.luLogabsdet (Dd e) dp) :=
  sumLog_posDiag_dual hP.udiag hP.eps hthr hne

/-! ## 6. headlines: straight lines `primal + s · tangent` in ALL of (input, lower, upper, unconstrained diagonal, bias, eps) -/

/-- the point at parameter `s` of the line through the primal part `d.1` with velocity the tangent part `d.2` -/
def line (s : ℝ) (d : ℝ × ℝ) : ℝ := d.1 + s * d.2
def lineV (s : ℝ) (ds : List (ℝ × ℝ)) : List ℝ := ds.map (line s)
def lineM (s : ℝ) (dM : List (List (ℝ × ℝ))) : List (List ℝ) := dM.map (lineV s)
/-- the `LULinear` parameters at `s`: every entry of every parameter tensor moves along its own tangent -/
def lineP (s : ℝ) (dp : LF.LUParams (ℝ × ℝ)) : LF.LUParams ℝ :=
  ⟨dp.n, lineV s dp.lower, lineV s dp.upper, lineV s dp.udiag, lineV s dp.bias, line s dp.eps⟩

@[simp] theorem line_zero (d : ℝ × ℝ) : line 0 d = d.1 := by simp [line]
/-- at `s = 0` the line is at the primal parts -/
theorem lineV_zero (ds : List (ℝ × ℝ)) : lineV 0 ds = ds.map Prod.fst := by
  unfold lineV; exact List.map_congr_left (fun d _ => line_zero d)
theorem lineM_zero (dM : List (List (ℝ × ℝ))) : lineM 0 dM = dM.map (List.map Prod.fst) := by
  unfold lineM; exact List.map_congr_left (fun d _ => lineV_zero d)

theorem line_dual (d : ℝ × ℝ) : IsDual (fun s => line s d) 0 d := by
  refine ⟨(line_zero d).symm, ?_⟩
  have h := ((hasDerivAt_id (0:ℝ)).mul_const d.2).const_add d.1
  simpa [line] using h

theorem lineV_dual (ds : List (ℝ × ℝ)) : DV 0 (fun s => lineV s ds) ds := by
  have h := DL.ofMap (rel := fun f d => IsDual f 0 d) ds (fun s d => line s d) id (fun d _ => line_dual d)
  rw [List.map_id] at h
  exact h

theorem lineM_dual (dM : List (List (ℝ × ℝ))) : DM 0 (fun s => lineM s dM) dM := by
  have h := DL.ofMap (rel := DV 0) dM (fun s d => lineV s d) id (fun d _ => lineV_dual d)
  rw [List.map_id] at h
  exact h

theorem lineP_curve (dp : LF.LUParams (ℝ × ℝ)) : LUCurve 0 (fun s => lineP s dp) dp :=
  ⟨fun _ => rfl, lineV_dual _, lineV_dual _, lineV_dual _, lineV_dual _, line_dual _⟩

/-- the real run has, for every `s`, the shape of the dual run -/
theorem DM.shape {M : ℝ → List (List ℝ)} {dM : List (List (ℝ × ℝ))} (h : DM t M dM) (s : ℝ) :
    (M s).map List.length = dM.map List.length := by
  obtain ⟨rows, hM, h2⟩ := h
  rw [hM, List.map_map]
  clear hM
  induction h2 with
  | nil => rfl
  | cons hab _ ih =>
    simp only [List.map_cons, Function.comp_apply, List.cons.injEq]
    exact ⟨DL.length hab s, ih⟩

variable (e)

/-- **`LULinear.forward` on dual numbers is sound** (C16).  `dp` holds the dual parameters (primal part, tangent part) of ALL
    trainable tensors (strictly-lower entries, strictly-upper entries, unconstrained diagonal, bias; also `eps`), `dX` the dual
    batch of inputs.  If no unconstrained diagonal entry sits AT the softplus threshold 20, then every entry `(r, c)` of the
    dual run of the executed `forward_no_cache` is the pair (entry of the real run at the primal parts, derivative at `s = 0` of
    that entry of the real run along `primal + s · tangent`, all tensors moving simultaneously), and the two runs have the same
    shape.  No shape hypotheses: ragged inputs are truncated identically by both runs. -/
theorem lu_forward_dual_sound (dp : LF.LUParams (ℝ × ℝ)) (dX : List (List (ℝ × ℝ))) (hthr : ∀ d ∈ dp.udiag, d.1 ≠ 20) :
    (∀ s, (LF.luForward (Rr e) (lineP s dp) (lineM s dX)).map List.length
        = (LF.luForward (Dd e) dp dX).map List.length) ∧
    ∀ r c : ℕ,
      (((LF.luForward (Dd e) dp dX).getD r []).getD c (0, 0)).1
          = ((LF.luForward (Rr e) (lineP 0 dp) (lineM 0 dX)).getD r []).getD c 0 ∧
      HasDerivAt (fun s => ((LF.luForward (Rr e) (lineP s dp) (lineM s dX)).getD r []).getD c 0)
        (((LF.luForward (Dd e) dp dX).getD r []).getD c (0, 0)).2 0 :=
  have h := luForward_dual_curve (e := e) (lineP_curve dp) (lineM_dual dX) hthr
  ⟨fun s => h.shape s, fun r c => h.entry r c⟩

/-- **`LULinear.logabsdet` on dual numbers is sound** (C16), general side conditions: no unconstrained diagonal entry at the
    threshold, no diagonal entry `softplus(u) + eps` equal to `0` -/
theorem lu_logabsdet_dual_sound' (dp : LF.LUParams (ℝ × ℝ)) (hthr : ∀ d ∈ dp.udiag, d.1 ≠ 20)
    (hne : ∀ d ∈ dp.udiag, LF.softplus (Rr e) d.1 + dp.eps.1 ≠ 0) :
    (LF.luLogabsdet (Dd e) dp).1 = LF.luLogabsdet (Rr e) (lineP 0 dp) ∧
    HasDerivAt (fun s => LF.luLogabsdet (Rr e) (lineP s dp)) (LF.luLogabsdet (Dd e) dp).2 0 :=
  luLogabsdet_dual_curve (e := e) (lineP_curve dp) hthr hne

/-- **`LULinear.logabsdet` on dual numbers is sound** (C16) for the library's `eps ≥ 0` (the constructor default is `1e-3`): the
    dual run returns (log-abs-det at the primal parameters, its derivative along the direction), provided no unconstrained
    diagonal entry sits AT the softplus threshold 20 -/
theorem lu_logabsdet_dual_sound (dp : LF.LUParams (ℝ × ℝ)) (hthr : ∀ d ∈ dp.udiag, d.1 ≠ 20) (heps : 0 ≤ dp.eps.1) :
    (LF.luLogabsdet (Dd e) dp).1 = LF.luLogabsdet (Rr e) (lineP 0 dp) ∧
    HasDerivAt (fun s => LF.luLogabsdet (Rr e) (lineP s dp)) (LF.luLogabsdet (Dd e) dp).2 0 := by
  refine lu_logabsdet_dual_sound' e dp hthr (fun d _ => ?_)
  have h : 0 < LF.softplus (Rr e) d.1 := LFIndex.softplus_real_pos d.1
  exact (add_pos_of_pos_of_nonneg h heps).ne'

/-! ### non-vacuity: `n = 2`, explicit numbers, every tensor moving -/

/-- `L = [[1,0],[½,1]]`, `U = [[softplus 0 + 10⁻³, −1],[0, softplus 1 + 10⁻³]]`, bias `(0, 3)`; tangents on every entry -/
def exP : LF.LUParams (ℝ × ℝ) := ⟨2, [(1/2, 1)], [(-1, 2)], [(0, 1), (1, -1)], [(0, 1), (3, 0)], (1/1000, 0)⟩

theorem exP_thr : ∀ d ∈ exP.udiag, d.1 ≠ 20 := by
  intro d hd
  simp only [exP, List.mem_cons, List.not_mem_nil, or_false] at hd
  rcases hd with rfl | rfl <;> norm_num

example (r c : ℕ) :
    (((LF.luForward (Dd e) exP [[(1, 1), (2, 0)], [(0, 0), (-1, 1)]]).getD r []).getD c (0, 0)).1
        = ((LF.luForward (Rr e) (lineP 0 exP) (lineM 0 [[(1, 1), (2, 0)], [(0, 0), (-1, 1)]])).getD r []).getD c 0 ∧
    HasDerivAt (fun s => ((LF.luForward (Rr e) (lineP s exP) (lineM s [[(1, 1), (2, 0)], [(0, 0), (-1, 1)]])).getD r []).getD c 0)
      (((LF.luForward (Dd e) exP [[(1, 1), (2, 0)], [(0, 0), (-1, 1)]]).getD r []).getD c (0, 0)).2 0 :=
  (lu_forward_dual_sound e exP _ exP_thr).2 r c

example :
    (LF.luLogabsdet (Dd e) exP).1 = LF.luLogabsdet (Rr e) (lineP 0 exP) ∧
    HasDerivAt (fun s => LF.luLogabsdet (Rr e) (lineP s exP)) (LF.luLogabsdet (Dd e) exP).2 0 :=
  lu_logabsdet_dual_sound e exP exP_thr (by norm_num [exP])

/-! ### the threshold hypothesis is forced -/

theorem softplus_R_eq (x : ℝ) : LF.softplus (Rr e) x = (NF.realX e).softplus x := by
  rw [realX_softplus]; exact LFIndex.softplus_real x

/-- the `1 × 1` layer with unconstrained diagonal `20` (AT the threshold) moving with velocity `1`, input `1`, no bias, `eps = 0` -/
def thrP : LF.LUParams (ℝ × ℝ) := ⟨1, [], [], [(20, 1)], [(0, 0)], (0, 0)⟩

theorem thr_forward_eq (s : ℝ) :
    ((LF.luForward (Rr e) (lineP s thrP) (lineM s [[(1, 0)]])).getD 0 []).getD 0 0 = (NF.realX e).softplus (20 + s) := by
  rw [← softplus_R_eq]
  simp [LF.luForward, LF.linear, LF.linear0, LF.matVec, LF.dot, LF.sum, LF.addV, LF.luL, LF.luU, LF.luLower, LF.mkUpper,
    LF.tab2, LF.posDiag, lineP, lineM, lineV, line, thrP, zero_R, one_R, List.range_succ]

/-- **the hypothesis `≠ 20` of `lu_forward_dual_sound` cannot be dropped**: with the unconstrained diagonal entry AT the
    threshold the real executed forward pass is not differentiable (not even continuous) along the direction, so NO number is
    its derivative — in particular not the tangent the dual run (or `torch.autograd`) returns -/
theorem lu_forward_not_differentiable_at_threshold :
    ¬ ∃ d' : ℝ, HasDerivAt
      (fun s => ((LF.luForward (Rr e) (lineP s thrP) (lineM s [[(1, 0)]])).getD 0 []).getD 0 0) d' 0 := by
  rintro ⟨d', h⟩
  have hc : ContinuousAt (fun s => (NF.realX e).softplus (20 + s)) 0 := by
    have := h.continuousAt
    rwa [show (fun s => ((LF.luForward (Rr e) (lineP s thrP) (lineM s [[(1, 0)]])).getD 0 []).getD 0 0)
      = fun s => (NF.realX e).softplus (20 + s) from funext (thr_forward_eq e)] at this
  refine NF.MadeSmooth.softplus_not_continuousAt_threshold e ?_
  have h2 : ContinuousAt (fun x : ℝ => x - 20) 20 := (continuous_id.sub continuous_const).continuousAt
  have hc' : ContinuousAt (fun s => (NF.realX e).softplus (20 + s)) ((fun x : ℝ => x - 20) 20) := by
    simpa using hc
  have := ContinuousAt.comp (g := fun s => (NF.realX e).softplus (20 + s)) (f := fun x : ℝ => x - 20) hc' h2
  refine this.congr (Filter.Eventually.of_forall fun x => ?_)
  simp

/-! ## 7. normalisation layers in evaluation mode (`Core/Norm.lean`) -/

section norm
open NF.Norm
variable {e}

theorem sumG_dual {F : ℝ → List ℝ} {ds : List (ℝ × ℝ)} (h : DV t F ds) :
    IsDual (fun s => sumG (NF.realX e) (F s)) t (sumG (dualX (NF.realX e)) ds) :=
  DL.foldl' (rel₀ := fun f d => IsDual f t d) (fun _ => (NF.realX e).add) (dualX (NF.realX e)).add h
    (fun _ _ _ _ ha hd => IsDual.add e ha hd) (IsDual.zero e t)

theorem DL.replicate {A B : Type} {rel : (ℝ → A) → B → Prop} (n : ℕ) {f : ℝ → A} {d : B} (h : rel f d) :
    DL rel (fun s => List.replicate n (f s)) (List.replicate n d) := by
  refine ⟨List.replicate n f, fun s => by simp, ?_⟩
  induction n with
  | zero => exact .nil
  | succ n ih => rw [List.replicate_succ, List.replicate_succ]; exact .cons h ih

/-- `weight = softplus(unconstrained_weight) + eps` -/
theorem bnWeight_dual {cfg : ℝ → BNCfg ℝ} {dcfg : BNCfg (ℝ × ℝ)} {uw : ℝ → List ℝ} {duw : List (ℝ × ℝ)}
    (heps : IsDual (fun s => (cfg s).eps) t dcfg.eps) (huw : DV t uw duw) (j : ℕ) (hthr : (duw.getD j (0, 0)).1 ≠ 20) :
    IsDual (fun s => bnWeight (NF.realX e) (cfg s) (uw s) j) t (bnWeight (dualX (NF.realX e)) dcfg duw j) := by
  refine IsDual.add e (IsDual.softplus e (DL.getD' huw j (IsDual.zero e t)) ?_) heps
  rw [d_zero]; exact hthr

/-- **BatchNorm, evaluation mode, outputs**, along any differentiable curve of (inputs, running mean, running variance,
    unconstrained weight, bias, eps).  Side conditions: no unconstrained weight at the softplus threshold, `var + eps > 0` -/
theorem bnNormalise_dual_curve {cfg : ℝ → BNCfg ℝ} {dcfg : BNCfg (ℝ × ℝ)} (F : ℕ) {mean var uw bias : ℝ → List ℝ}
    {dmean dvar duw dbias : List (ℝ × ℝ)} {rows : ℝ → List (List ℝ)} {drows : List (List (ℝ × ℝ))}
    (heps : IsDual (fun s => (cfg s).eps) t dcfg.eps) (hmean : DV t mean dmean) (hvar : DV t var dvar)
    (huw : DV t uw duw) (hbias : DV t bias dbias) (hrows : DM t rows drows)
    (hthr : ∀ j < F, (duw.getD j (0, 0)).1 ≠ 20) (hpos : ∀ j < F, 0 < (dvar.getD j (0, 0)).1 + dcfg.eps.1) :
    DM t (fun s => bnNormalise (NF.realX e) (cfg s) F (mean s) (var s) (uw s) (bias s) (rows s))
      (bnNormalise (dualX (NF.realX e)) dcfg F dmean dvar duw dbias drows) := by
  unfold bnNormalise
  refine DL.map' _ _ hrows (fun f d _ hrow => ?_)
  refine DL.ofMap _ _ _ (fun j hj => ?_)
  have hj' : j < F := List.mem_range.mp hj
  have hx := DL.getD' hrow j (IsDual.zero e t)
  have hm := DL.getD' hmean j (IsDual.zero e t)
  have hb := DL.getD' hbias j (IsDual.zero e t)
  have hve := IsDual.add e (DL.getD' hvar j (IsDual.zero e t)) heps
  have hp : 0 < ((dualX (NF.realX e)).add (dvar.getD j (dualX (NF.realX e)).zero) dcfg.eps).1 := by
    rw [d_zero]; exact hpos j hj'
  refine IsDual.add e (IsDual.mul e (bnWeight_dual heps huw j (hthr j hj'))
    (IsDual.div e (IsDual.sub e hx hm) (IsDual.sqrt e hve hp.ne') ?_)) hb
  exact (Real.sqrt_ne_zero'.mpr hp)

/-- **BatchNorm, evaluation mode, log-abs-det** (both directions).  Side conditions: no unconstrained weight at the softplus
    threshold, `weight ≠ 0`, `var + eps ≠ 0` -/
theorem bnLogdet_dual_curve {cfg : ℝ → BNCfg ℝ} {dcfg : BNCfg (ℝ × ℝ)} (F : ℕ) {var uw : ℝ → List ℝ}
    {dvar duw : List (ℝ × ℝ)} (B : ℕ) (inverse : Bool)
    (heps : IsDual (fun s => (cfg s).eps) t dcfg.eps) (hvar : DV t var dvar) (huw : DV t uw duw)
    (hthr : ∀ j < F, (duw.getD j (0, 0)).1 ≠ 20)
    (hw : ∀ j < F, (NF.realX e).softplus (duw.getD j (0, 0)).1 + dcfg.eps.1 ≠ 0)
    (hv : ∀ j < F, (dvar.getD j (0, 0)).1 + dcfg.eps.1 ≠ 0) :
    DV t (fun s => bnLogdet (NF.realX e) (cfg s) F (var s) (uw s) B inverse)
      (bnLogdet (dualX (NF.realX e)) dcfg F dvar duw B inverse) := by
  unfold bnLogdet
  refine DL.replicate B (rel := fun f d => IsDual f t d) (sumG_dual (DL.ofMap _ _ _ (fun j hj => ?_)))
  have hj' : j < F := List.mem_range.mp hj
  have hwd := bnWeight_dual (e := e) heps huw j (hthr j hj')
  have hve := IsDual.add e (DL.getD' hvar j (IsDual.zero e t)) heps
  have hlw := IsDual.log e hwd (by
    rw [hwd.val]
    show (NF.realX e).softplus ((uw t).getD j (NF.realX e).zero) + (cfg t).eps ≠ 0
    rw [← (DL.getD' huw j (IsDual.zero e t)).val, ← heps.val, d_zero]
    exact hw j hj')
  have hlv := IsDual.mul e (IsDual.ofRat e 1 2 t) (IsDual.log e hve (by rw [d_zero]; exact hv j hj'))
  cases inverse
  · simpa only [Bool.false_eq_true, if_false] using IsDual.sub e hlw hlv
  · simpa only [if_true] using IsDual.add e (IsDual.neg e hlw) hlv

/-- what the executed `BatchNorm.forward` returns in evaluation mode: `bnNormalise` / `bnLogdet` on the running buffers -/
theorem bnStep_eval {α : Type} (o : XOps α) (cfg : BNCfg α) (F : ℕ) (st : BNSt α) (h : st.training = false)
    (rows : List (List α)) :
    bnStep o cfg F st (.fwd (.d2 rows)) =
      (st, some (.ok (.d2 (bnNormalise o cfg F st.runMean st.runVar st.uweight st.bias rows),
                      bnLogdet o cfg F st.runVar st.uweight rows.length false))) := by
  simp [bnStep, h]

/-- the BatchNorm state at `s` along the line: running buffers, unconstrained weight and bias all move along their tangents -/
def lineBN (s : ℝ) (st : BNSt (ℝ × ℝ)) : BNSt ℝ :=
  ⟨st.training, lineV s st.runMean, lineV s st.runVar, lineV s st.uweight, lineV s st.bias, st.updates⟩
def lineCfg (s : ℝ) (c : BNCfg (ℝ × ℝ)) : BNCfg ℝ := ⟨line s c.eps, line s c.momentum⟩

variable (e)

/-- **`BatchNorm.forward` in evaluation mode on dual numbers is sound** (C16): direction in inputs, unconstrained weight, bias
    (and the buffers, eps) simultaneously.  Every output entry and every log-abs-det entry of the dual run is (value at the
    primal parts, derivative along `primal + s · tangent` at `s = 0`).  Side conditions: no unconstrained weight AT the
    softplus threshold 20; `running_var + eps > 0`; `weight ≠ 0` (automatic for `eps ≥ 0`). -/
theorem batchnorm_eval_dual_sound (dcfg : BNCfg (ℝ × ℝ)) (F : ℕ) (st : BNSt (ℝ × ℝ)) (drows : List (List (ℝ × ℝ)))
    (hthr : ∀ j < F, (st.uweight.getD j (0, 0)).1 ≠ 20)
    (hpos : ∀ j < F, 0 < (st.runVar.getD j (0, 0)).1 + dcfg.eps.1)
    (hw : ∀ j < F, (NF.realX e).softplus (st.uweight.getD j (0, 0)).1 + dcfg.eps.1 ≠ 0) :
    (∀ r c : ℕ, IsDual (fun s => ((bnNormalise (NF.realX e) (lineCfg s dcfg) F (lineBN s st).runMean (lineBN s st).runVar
          (lineBN s st).uweight (lineBN s st).bias (lineM s drows)).getD r []).getD c 0) 0
        (((bnNormalise (dualX (NF.realX e)) dcfg F st.runMean st.runVar st.uweight st.bias drows).getD r []).getD c (0, 0))) ∧
    (∀ k : ℕ, IsDual (fun s => (bnLogdet (NF.realX e) (lineCfg s dcfg) F (lineBN s st).runVar (lineBN s st).uweight
          drows.length false).getD k 0) 0
        ((bnLogdet (dualX (NF.realX e)) dcfg F st.runVar st.uweight drows.length false).getD k (0, 0))) := by
  have heps : IsDual (fun s => (lineCfg s dcfg).eps) 0 dcfg.eps := line_dual _
  refine ⟨fun r c => ?_, fun k => ?_⟩
  · exact (bnNormalise_dual_curve (e := e) F heps (lineV_dual _) (lineV_dual _) (lineV_dual _) (lineV_dual _)
      (lineM_dual drows) hthr hpos).entry r c
  · exact (bnLogdet_dual_curve (e := e) F drows.length false heps (lineV_dual _) (lineV_dual _) hthr hw
      (fun j hj => (hpos j hj).ne')).entry k

example (r c : ℕ) := (batchnorm_eval_dual_sound e ⟨(1/100000, 0), (1/10, 0)⟩ 2
    ⟨false, [(0, 0), (1, 0)], [(1, 0), (2, 0)], [(0, 1), (1, -1)], [(0, 1), (3, 2)], 0⟩ [[(1, 1), (2, 0)], [(0, 0), (-1, 1)]]
    (by intro j hj; interval_cases j <;> norm_num)
    (by intro j hj; interval_cases j <;> norm_num)
    (by
      intro j hj
      have h : ∀ x : ℝ, 0 < (NF.realX e).softplus x := fun x => by
        rw [← softplus_R_eq]; exact LFIndex.softplus_real_pos x
      interval_cases j <;> simp only [List.getD_cons_zero, List.getD_cons_succ]
      · have := h 0; linarith
      · have := h 1; linarith)).1 r c

/-! ### ActNorm (initialised; no side condition: `exp`, `·`, `+` only) -/

/-- a curve of batches against a dual batch: same constructor, same image size, entries (value, derivative) pairs -/
inductive DB (t : ℝ) : (ℝ → Batch ℝ) → Batch (ℝ × ℝ) → Prop
  | d2 {rows : ℝ → List (List ℝ)} {drows : List (List (ℝ × ℝ))} (h : DM t rows drows) :
      DB t (fun s => .d2 (rows s)) (.d2 drows)
  | d4 (h w : ℕ) {imgs : ℝ → List (List (List ℝ))} {dimgs : List (List (List (ℝ × ℝ)))} (hi : DL (DM t) imgs dimgs) :
      DB t (fun s => .d4 h w (imgs s)) (.d4 h w dimgs)
  | bad (n : ℕ) : DB t (fun _ => .bad n) (.bad n)

variable {e}

theorem mapCh_dual (F : ℕ) (g : ℝ → ℕ → ℝ → ℝ) (g' : ℕ → ℝ × ℝ → ℝ × ℝ)
    (hg : ∀ j f d, IsDual f t d → IsDual (fun s => g s j (f s)) t (g' j d))
    {b : ℝ → Batch ℝ} {db : Batch (ℝ × ℝ)} (hb : DB t b db) :
    DB t (fun s => (b s).mapCh (NF.realX e) F (g s)) (db.mapCh (dualX (NF.realX e)) F g') := by
  cases hb with
  | d2 h =>
    refine DB.d2 (DL.map' _ _ h (fun f d _ hrow => ?_))
    exact DL.ofMap _ _ _ (fun j _ => hg j _ _ (DL.getD' hrow j (IsDual.zero e t)))
  | d4 hh w hi =>
    refine DB.d4 hh w (DL.map' _ _ hi (fun f d _ himg => ?_))
    refine DL.ofMap _ _ _ (fun c _ => ?_)
    have hnil : DV t (fun _ => ([] : List ℝ)) [] := ⟨[], fun _ => rfl, .nil⟩
    exact DL.map' _ _ (DL.getD' himg c hnil) (fun f d _ hx => hg c f d hx)
  | bad n => exact DB.bad n

/-- **ActNorm outputs** `exp(log_scale) · x + shift` along any differentiable curve of (inputs, log-scale, shift); 2-D and 4-D -/
theorem actApply_dual_curve (F : ℕ) {ls sh : ℝ → List ℝ} {dls dsh : List (ℝ × ℝ)} {b : ℝ → Batch ℝ}
    {db : Batch (ℝ × ℝ)} (hls : DV t ls dls) (hsh : DV t sh dsh) (hb : DB t b db) :
    DB t (fun s => actApply (NF.realX e) F (ls s) (sh s) (b s)) (actApply (dualX (NF.realX e)) F dls dsh db) :=
  mapCh_dual F (fun s j x => (NF.realX e).add ((NF.realX e).mul ((NF.realX e).exp ((ls s).getD j (NF.realX e).zero)) x)
      ((sh s).getD j (NF.realX e).zero))
    (fun j x => (dualX (NF.realX e)).add ((dualX (NF.realX e)).mul ((dualX (NF.realX e)).exp
      (dls.getD j (dualX (NF.realX e)).zero)) x) (dsh.getD j (dualX (NF.realX e)).zero))
    (fun j _ _ hx => IsDual.add e (IsDual.mul e (IsDual.exp e (DL.getD' hls j (IsDual.zero e t))) hx)
    (DL.getD' hsh j (IsDual.zero e t))) hb

/-- **ActNorm inverse outputs** `(x − shift) / exp(log_scale)` -/
theorem actUnapply_dual_curve (F : ℕ) {ls sh : ℝ → List ℝ} {dls dsh : List (ℝ × ℝ)} {b : ℝ → Batch ℝ}
    {db : Batch (ℝ × ℝ)} (hls : DV t ls dls) (hsh : DV t sh dsh) (hb : DB t b db) :
    DB t (fun s => actUnapply (NF.realX e) F (ls s) (sh s) (b s)) (actUnapply (dualX (NF.realX e)) F dls dsh db) :=
  mapCh_dual F (fun s j x => (NF.realX e).div ((NF.realX e).sub x ((sh s).getD j (NF.realX e).zero))
      ((NF.realX e).exp ((ls s).getD j (NF.realX e).zero)))
    (fun j x => (dualX (NF.realX e)).div ((dualX (NF.realX e)).sub x (dsh.getD j (dualX (NF.realX e)).zero))
      ((dualX (NF.realX e)).exp (dls.getD j (dualX (NF.realX e)).zero)))
    (fun j _ _ hx => IsDual.div e (IsDual.sub e hx (DL.getD' hsh j (IsDual.zero e t)))
    (IsDual.exp e (DL.getD' hls j (IsDual.zero e t))) (Real.exp_pos _).ne') hb

theorem DB.size {b : ℝ → Batch ℝ} {db : Batch (ℝ × ℝ)} (hb : DB t b db) (s : ℝ) : (b s).size = db.size := by
  cases hb with
  | d2 h => exact DL.length h s
  | d4 hh w hi => exact DL.length hi s
  | bad n => rfl

/-- **ActNorm log-abs-det** `sum(log_scale)` (times `h·w` for images, negated for the inverse) -/
theorem actLogdet_dual_curve {ls : ℝ → List ℝ} {dls : List (ℝ × ℝ)} {b : ℝ → Batch ℝ} {db : Batch (ℝ × ℝ)}
    (hls : DV t ls dls) (hb : DB t b db) (inverse : Bool) :
    DV t (fun s => actLogdet (NF.realX e) (ls s) (b s) inverse) (actLogdet (dualX (NF.realX e)) dls db inverse) := by
  have hs := sumG_dual (e := e) hls
  cases hb with
  | @d2 rows drows h =>
    have hrw : (fun s => actLogdet (NF.realX e) (ls s) (Batch.d2 (rows s)) inverse) = fun s =>
        List.replicate drows.length (if inverse then (NF.realX e).neg (sumG (NF.realX e) (ls s)) else sumG (NF.realX e) (ls s)) :=
      funext fun s => by simp only [actLogdet, Batch.size, DL.length h s]
    rw [hrw]
    cases inverse
    · exact DL.replicate _ (rel := fun f d => IsDual f t d) hs
    · exact DL.replicate _ (rel := fun f d => IsDual f t d) (IsDual.neg e hs)
  | @d4 hh w imgs dimgs hi =>
    have hv := IsDual.mul e (IsDual.ofNat e (hh * w) t) hs
    have hrw : (fun s => actLogdet (NF.realX e) (ls s) (Batch.d4 hh w (imgs s)) inverse) = fun s =>
        List.replicate dimgs.length (if inverse then (NF.realX e).neg ((NF.realX e).mul ((NF.realX e).ofNat (hh * w))
          (sumG (NF.realX e) (ls s))) else (NF.realX e).mul ((NF.realX e).ofNat (hh * w)) (sumG (NF.realX e) (ls s))) :=
      funext fun s => by simp only [actLogdet, Batch.size, DL.length hi s]
    rw [hrw]
    cases inverse
    · exact DL.replicate _ (rel := fun f d => IsDual f t d) hv
    · exact DL.replicate _ (rel := fun f d => IsDual f t d) (IsDual.neg e hv)
  | bad n =>
    cases inverse
    · exact DL.replicate _ (rel := fun f d => IsDual f t d) hs
    · exact DL.replicate _ (rel := fun f d => IsDual f t d) (IsDual.neg e hs)

/-- a dual batch read along the lines `primal + s · tangent` -/
def lineB (s : ℝ) : Batch (ℝ × ℝ) → Batch ℝ
  | .d2 rows => .d2 (lineM s rows)
  | .d4 h w imgs => .d4 h w (imgs.map (lineM s))
  | .bad n => .bad n

theorem lineB_dual (db : Batch (ℝ × ℝ)) : DB 0 (fun s => lineB s db) db := by
  cases db with
  | d2 rows => exact DB.d2 (lineM_dual rows)
  | d4 h w imgs =>
    have hi := DL.ofMap (rel := DM 0) imgs (fun s d => lineM s d) id (fun d _ => lineM_dual d)
    rw [List.map_id] at hi
    exact DB.d4 h w hi
  | bad n => exact DB.bad n

variable (e)

/-- **`ActNorm.forward` (initialised layer) on dual numbers is sound** (C16), no side condition: direction in inputs (2-D or
    4-D), `log_scale` and `shift` simultaneously; `DB 0` says: the dual run has the constructor / image size / shape of the real
    run at every `s`, and every entry is (value at the primal parts, derivative along `primal + s · tangent` at `s = 0`);
    the log-abs-det vector likewise (`DV 0`, entry-wise reading `DV.entry`). -/
theorem actnorm_dual_sound (F : ℕ) (dls dsh : List (ℝ × ℝ)) (db : Batch (ℝ × ℝ)) :
    DB 0 (fun s => actApply (NF.realX e) F (lineV s dls) (lineV s dsh) (lineB s db))
        (actApply (dualX (NF.realX e)) F dls dsh db) ∧
    DV 0 (fun s => actLogdet (NF.realX e) (lineV s dls) (lineB s db) false)
        (actLogdet (dualX (NF.realX e)) dls db false) :=
  ⟨actApply_dual_curve F (lineV_dual dls) (lineV_dual dsh) (lineB_dual db),
   actLogdet_dual_curve (lineV_dual dls) (lineB_dual db) false⟩

/-- the 2-D case entry by entry -/
theorem actnorm_dual_sound_d2 (F : ℕ) (dls dsh : List (ℝ × ℝ)) (drows : List (List (ℝ × ℝ))) (r c k : ℕ) :
    IsDual (fun s => (((List.map (fun row => (List.range F).map (fun j =>
          (NF.realX e).add ((NF.realX e).mul ((NF.realX e).exp ((lineV s dls).getD j (NF.realX e).zero))
            (row.getD j (NF.realX e).zero)) ((lineV s dsh).getD j (NF.realX e).zero))) (lineM s drows))).getD r []).getD c 0) 0
      (((List.map (fun row => (List.range F).map (fun j =>
          (dualX (NF.realX e)).add ((dualX (NF.realX e)).mul ((dualX (NF.realX e)).exp (dls.getD j (dualX (NF.realX e)).zero))
            (row.getD j (dualX (NF.realX e)).zero)) (dsh.getD j (dualX (NF.realX e)).zero))) drows).getD r []).getD c (0, 0)) ∧
    IsDual (fun s => (actLogdet (NF.realX e) (lineV s dls) (.d2 (lineM s drows)) false).getD k 0) 0
      ((actLogdet (dualX (NF.realX e)) dls (.d2 drows) false).getD k (0, 0)) := by
  obtain ⟨h1, h2⟩ := actnorm_dual_sound e F dls dsh (.d2 drows)
  refine ⟨?_, h2.entry k⟩
  have h1' : DB 0 (fun s => Batch.d2 ((lineM s drows).map (fun row => (List.range F).map (fun j =>
          (NF.realX e).add ((NF.realX e).mul ((NF.realX e).exp ((lineV s dls).getD j (NF.realX e).zero))
            (row.getD j (NF.realX e).zero)) ((lineV s dsh).getD j (NF.realX e).zero)))))
      (.d2 (drows.map (fun row => (List.range F).map (fun j =>
          (dualX (NF.realX e)).add ((dualX (NF.realX e)).mul ((dualX (NF.realX e)).exp (dls.getD j (dualX (NF.realX e)).zero))
            (row.getD j (dualX (NF.realX e)).zero)) (dsh.getD j (dualX (NF.realX e)).zero))))) := h1
  generalize hb : (fun s => Batch.d2 ((lineM s drows).map (fun row => (List.range F).map (fun j =>
          (NF.realX e).add ((NF.realX e).mul ((NF.realX e).exp ((lineV s dls).getD j (NF.realX e).zero))
            (row.getD j (NF.realX e).zero)) ((lineV s dsh).getD j (NF.realX e).zero))))) = bb at h1'
  cases h1' with
  | d2 h =>
    have := fun s => Batch.d2.inj (congrFun hb s)
    exact DM.entry (h.congr this) r c

example (r c k : ℕ) := actnorm_dual_sound_d2 e 2 [(0, 1), (1/2, -1)] [(1, 0), (-1, 2)] [[(1, 1), (2, 0)], [(0, 0), (-1, 1)]] r c k

end norm

/-! ## 8. `LULinear.inverse_no_cache`: the two triangular solves -/

section inverse
variable {e}

theorem DL.nil {A B : Type} {rel : (ℝ → A) → B → Prop} : DL rel (fun _ => []) [] := ⟨[], fun _ => rfl, .nil⟩

theorem DL.cons {A B : Type} {rel : (ℝ → A) → B → Prop} {f : ℝ → A} {d : B} {F : ℝ → List A} {ds : List B}
    (hx : rel f d) (h : DL rel F ds) : DL rel (fun s => f s :: F s) (d :: ds) := by
  obtain ⟨fs, hF, h2⟩ := h
  exact ⟨f :: fs, fun s => by simp [hF s], .cons hx h2⟩

theorem DL.append {A B : Type} {rel : (ℝ → A) → B → Prop} {F G : ℝ → List A} {ds es : List B}
    (h1 : DL rel F ds) (h2 : DL rel G es) : DL rel (fun s => F s ++ G s) (ds ++ es) := by
  obtain ⟨fs, hF, hf⟩ := h1
  obtain ⟨gs, hG, hg⟩ := h2
  exact ⟨fs ++ gs, fun s => by simp [hF s, hG s], List.rel_append hf hg⟩

theorem DL.drop {A B : Type} {rel : (ℝ → A) → B → Prop} {F : ℝ → List A} {ds : List B} (h : DL rel F ds) (k : ℕ) :
    DL rel (fun s => (F s).drop k) (ds.drop k) := by
  obtain ⟨fs, hF, h2⟩ := h
  exact ⟨fs.drop k, fun s => by simp [hF s, List.map_drop], List.forall₂_drop k h2⟩

theorem solveLowerAux_dual {acc : ℝ → List ℝ} {dacc : List (ℝ × ℝ)} {L : ℝ → List (List ℝ)} {dL : List (List (ℝ × ℝ))}
    {b : ℝ → List ℝ} {db : List (ℝ × ℝ)} (hacc : DV t acc dacc) (hL : DM t L dL) (hb : DV t b db) :
    DV t (fun s => LF.solveLowerUnitAux (Rr e) (acc s) (L s) (b s)) (LF.solveLowerUnitAux (Dd e) dacc dL db) := by
  obtain ⟨Ls, hLs, hL2⟩ := hL
  obtain ⟨bs, hbs, hb2⟩ := hb
  have hrw : (fun s => LF.solveLowerUnitAux (Rr e) (acc s) (L s) (b s)) = fun s =>
      LF.solveLowerUnitAux (Rr e) (acc s) (Ls.map (fun f => f s)) (bs.map (fun f => f s)) :=
    funext fun s => by rw [hLs, hbs]
  rw [hrw]
  clear hrw hLs hbs
  induction hL2 generalizing acc dacc bs db with
  | nil => simpa [LF.solveLowerUnitAux] using hacc
  | cons hrow _ ih =>
    cases hb2 with
    | nil => simpa [LF.solveLowerUnitAux] using hacc
    | cons hbi hrest =>
      simp only [List.map_cons, LF.solveLowerUnitAux]
      exact ih (DL.append hacc (DL.cons (IsDual.sub e hbi (dot_dual hrow hacc)) DL.nil)) _ hrest

theorem solveUpperAux_dual (i : ℕ) {U : ℝ → List (List ℝ)} {dU : List (List (ℝ × ℝ))}
    {b : ℝ → List ℝ} {db : List (ℝ × ℝ)} (hU : DM t U dU) (hb : DV t b db)
    (hdiag : ∀ k, k < dU.length → ((dU.getD k []).getD (i + k) (LF.zero (Dd e))).1 ≠ 0) :
    DV t (fun s => LF.solveUpperAux (Rr e) i (U s) (b s)) (LF.solveUpperAux (Dd e) i dU db) := by
  obtain ⟨Us, hUs, hU2⟩ := hU
  obtain ⟨bs, hbs, hb2⟩ := hb
  have hrw : (fun s => LF.solveUpperAux (Rr e) i (U s) (b s)) = fun s =>
      LF.solveUpperAux (Rr e) i (Us.map (fun f => f s)) (bs.map (fun f => f s)) :=
    funext fun s => by rw [hUs, hbs]
  rw [hrw]
  clear hrw hUs hbs
  induction hU2 generalizing i bs db with
  | nil => simpa [LF.solveUpperAux] using (DL.nil : DV t (fun _ => []) [])
  | cons hrow _ ih =>
    cases hb2 with
    | nil => simpa [LF.solveUpperAux] using (DL.nil : DV t (fun _ => []) [])
    | cons hbi hrest =>
      simp only [List.map_cons, LF.solveUpperAux]
      have hxs := ih (i + 1) (fun k hk => by
        have := hdiag (k + 1) (by simpa using hk)
        simpa [Nat.add_assoc, Nat.add_comm 1 k] using this) _ hrest
      have h0 := hdiag 0 (by simp)
      refine DL.cons (IsDual.div e (IsDual.sub e hbi (dot_dual (DL.drop hrow (i + 1)) hxs))
        (DL.getD' hrow i zero_dual) ?_) hxs
      simpa using h0

/-- `LULinear.inverse_no_cache` along any differentiable curve of (parameters, inputs); side conditions: no unconstrained
    diagonal entry at the softplus threshold, `eps ≥ 0` (so the diagonal of `U` is positive), `udiag` has `n` entries -/
theorem luInverse_dual_curve {P : ℝ → LF.LUParams ℝ} {dp : LF.LUParams (ℝ × ℝ)} {X : ℝ → List (List ℝ)}
    {dX : List (List (ℝ × ℝ))} (hP : LUCurve t P dp) (hX : DM t X dX) (hthr : ∀ d ∈ dp.udiag, d.1 ≠ 20)
    (hdiag : ∀ k, k < (LF.luU (Dd e) dp).length → (((LF.luU (Dd e) dp).getD k []).getD (0 + k) (LF.zero (Dd e))).1 ≠ 0) :
    DM t (fun s => LF.luInverse (Rr e) (P s) (X s)) (LF.luInverse (Dd e) dp dX) := by
  have hUc : DM t (fun s => LF.luU (Rr e) (P s)) (LF.luU (Dd e) dp) := by
    unfold LF.luU; simp only [hP.n]
    exact mkUpper_dual _ hP.upper (posDiag_dual hP.udiag hP.eps hthr)
  have hLc : DM t (fun s => LF.luL (Rr e) (P s)) (LF.luL (Dd e) dp) := by
    unfold LF.luL; simp only [hP.n]
    exact luLower_dual _ hP.lower
  unfold LF.luInverse
  refine DL.map' _ _ hX (fun f d _ hx => ?_)
  exact solveUpperAux_dual 0 hUc (solveLowerAux_dual DL.nil hLc (subV_dual hx hP.bias)) hdiag

theorem softplus_D_val (a : ℝ × ℝ) (h : a.1 ≠ 20) : (LF.softplus (Dd e) a).1 = LF.softplus (Rr e) a.1 := by
  have := (softplus_dual (e := e) (line_dual a) h).val
  simpa using this

theorem luU_diag_ne (dp : LF.LUParams (ℝ × ℝ)) (hthr : ∀ d ∈ dp.udiag, d.1 ≠ 20) (heps : 0 ≤ dp.eps.1)
    (hn : dp.n ≤ dp.udiag.length) (k : ℕ) (hk : k < (LF.luU (Dd e) dp).length) :
    (((LF.luU (Dd e) dp).getD k []).getD (0 + k) (LF.zero (Dd e))).1 ≠ 0 := by
  have hk' : k < dp.n := by simpa [LF.luU, LF.mkUpper, LFIndex.tab2_length] using hk
  have hlt : k < dp.udiag.length := lt_of_lt_of_le hk' hn
  have hd := LFIndex.mkUpper_diag (Dd e) dp.n dp.upper (LF.posDiag (Dd e) dp.eps dp.udiag) hk'
  rw [Nat.zero_add]
  rw [show ((LF.luU (Dd e) dp).getD k []).getD k (LF.zero (Dd e))
    = (LF.posDiag (Dd e) dp.eps dp.udiag).getD k (LF.zero (Dd e)) from hd]
  simp only [LF.posDiag, List.getD_eq_getElem?_getD, List.getElem?_map, List.getElem?_eq_getElem hlt, Option.map_some,
    Option.getD_some]
  show (LF.softplus (Dd e) dp.udiag[k]).1 + dp.eps.1 ≠ 0
  rw [softplus_D_val _ (hthr _ (List.getElem_mem hlt))]
  have h : 0 < LF.softplus (Rr e) (dp.udiag[k]).1 := LFIndex.softplus_real_pos _
  exact (add_pos_of_pos_of_nonneg h heps).ne'

variable (e)

/-- **`LULinear.inverse_no_cache` on dual numbers is sound** (C16): direction in the inputs — and, as for the forward pass, in
    every parameter tensor simultaneously.  Hypotheses: no unconstrained diagonal entry AT the softplus threshold, `eps ≥ 0`,
    at least `n` unconstrained diagonal entries (otherwise the executed back substitution divides by the default `0`). -/
theorem lu_inverse_dual_sound_input (dp : LF.LUParams (ℝ × ℝ)) (dX : List (List (ℝ × ℝ)))
    (hthr : ∀ d ∈ dp.udiag, d.1 ≠ 20) (heps : 0 ≤ dp.eps.1) (hn : dp.n ≤ dp.udiag.length) :
    (∀ s, (LF.luInverse (Rr e) (lineP s dp) (lineM s dX)).map List.length
        = (LF.luInverse (Dd e) dp dX).map List.length) ∧
    ∀ r c : ℕ,
      (((LF.luInverse (Dd e) dp dX).getD r []).getD c (0, 0)).1
          = ((LF.luInverse (Rr e) (lineP 0 dp) (lineM 0 dX)).getD r []).getD c 0 ∧
      HasDerivAt (fun s => ((LF.luInverse (Rr e) (lineP s dp) (lineM s dX)).getD r []).getD c 0)
        (((LF.luInverse (Dd e) dp dX).getD r []).getD c (0, 0)).2 0 :=
  have h := luInverse_dual_curve (e := e) (lineP_curve dp) (lineM_dual dX) hthr (luU_diag_ne dp hthr heps hn)
  ⟨fun s => h.shape s, fun r c => h.entry r c⟩

example (r c : ℕ) := (lu_inverse_dual_sound_input e exP [[(1, 1), (2, 0)], [(0, 0), (-1, 1)]] exP_thr
  (by norm_num [exP]) (by simp [exP])).2 r c

end inverse

end
end DualXLU
