import NflowsModel.Lemmas.CubicInverseWhole
import NflowsModel.Lemmas.TailsWhole
import NflowsModel.Lemmas.StructureExecRQTails
/-!
# Lemmas/CubicLayers — the CUBIC spline family at the layer level and on the whole line (C02, C09, C17)

Everything is about the executed programs instantiated at `NF.realX e`: `cubicSpline` (bounded), the tails wrapper that
`elTransform` inlines for kind `"cubic"` (`TailsWhole.cubicTails`), `elTransform`, `couplingApply`, `arForward` /
`arInverse` (+ the MADE conditioner).  It reuses `CubicWhole` (forward program), `CubicInverseWhole` (inverse program,
`ExactBin` / `AllExact`, `invLd_eq_neg_ld_always`, `val_inv_approx`), `TailsWhole` (`ext_*`, forward cubic with tails),
`StructureExec` / `StructureExecRQTails` / `ARWhole` (generic layer theorems).

The inverse program takes an APPROXIMATE quadratic fallback in bins with `|a|·w³ < quadratic_threshold·h`; where `a ≠ 0`
there the model's inverse is not the inverse of the model's forward (`CubicInverseWhole.round_trip_counterexample`,
lifted here to the dispatcher: `cubic_el_round_trip_counterexample`).  So every exact round-trip statement carries an
explicit exactness hypothesis — per element (`ExactBin` of the bin the forward output falls into:
`cubicSpline_real_invertible`, `cubic_real_invertible`, `cubic_tails_real_invertible_el`), per slice (`SliceExact`) or per
parameter array (`CubicParamsExact`, `CubicParamsExactAR`, `CubicTails…`) — and next to it stands what holds WITHOUT it:
totality in the domain, outputs in the box, EXACT negation of the log-dets by forward ∘ inverse, and
`|forward(inverse y) − y| < quadratic_threshold · (top − bottom)` per entry (`…_rev_approx…`).

* §1 one bounded element: `fwd_eq`, `inv_eq`, `fwd_ok_dom`, `inv_ok_dom`, `cubicSpline_real_invertible(_rev)`,
  `cubicSpline_real_rev_approx`, `cubicSpline_real_rev_ld`.
* §2–3 dispatcher: `elTransform_cubic`, `cubicValid_of_lengths`, `cubic_el_total`, `cubic_real_invertible(_all)`,
  `cubic_real_invertible_rev_all`, `cubic_real_rev_approx`.
* §4 bounded coupling layer: `CubicParamsExact`, `CubicCfgValid`, `elInvertible_cubic_real`, `elInvertibleRev_cubic_real`,
  `coupling_cubic_err_none`, `coupling_cubic_roundtrip_real`, `coupling_cubic_roundtrip_rev_real`.
* §5–6 without exactness: generic `coupling_forward_inverse_rel(_real)`; `coupling_cubic_rev_approx_real`.
* §7–8 autoregressive: `arElInvertible_cubic_real`, `ar_cubic_forward_ok`, `ar_cubic_inverse_err_none`, `ar_cubic_inverse_out_box`,
  `ar_cubic_roundtrip_real`, `ar_cubic_roundtrip_rev_real`, `made_cubic_roundtrip_real`; generic
  `ar_forward_inverse_rel`; `ar_cubic_rev_approx_real`.
* §9 cubic with linear tails, inverse direction on ℝ: `cubic_tails_inv_total`, `cubic_inv_outside`, `cubic_inv_mem_box`,
  `cubic_tails_ld_law`, `cubic_tails_val_inv_approx`, `cubic_tails_inv_junctions`, `cubic_tails_inv_whole`,
  `cubic_tails_round_trips`; §10b `inv_bottom`, `cubic_tails_inv_left_junction`.
* §10 tails layers: `cubic_tails_el_total`, `cubic_tails_real_invertible`, `cubic_tails_real_rev_approx`,
  `coupling_cubic_tails_err_none`, `coupling_cubic_tails_roundtrip_real`, `coupling_cubic_tails_rev_approx_real`,
  `ar_cubic_tails_err_none`, `ar_cubic_tails_roundtrip_real`, `ar_cubic_tails_rev_approx_real`,
  `made_cubic_tails_roundtrip_real`.
* §11 non-vacuity: `cubicCfgValid_example`, `cubicParamsExact_example`, `cubicParamsExactAR_example`,
  `coupling_cubic_example`, `ar_cubic_example`, `cubicTailsCfgValid_example`, `cubicTailsParamsExact_example`,
  `coupling_cubic_tails_example`, `cubic_tails_inv_example`, `cubic_el_round_trip_counterexample`.
-/
open NF DualSound

namespace CubicLayers
open NF.StructureExec NF.ARWhole CubicWhole

/-! ## 1. One bounded element: the executed forward and inverse programs in terms of `val`/`ld`/`inv`/`invLd`/`invAlts` -/

section element
variable {e : Float → ℝ} {c : CCfg} {uw uh : List ℝ} {udl udr : ℝ}

/-- in the domain the forward program returns `(val x, ld x, [])` -/
theorem fwd_eq (hv : CubicValid e c uw uh) (x : ℝ) (hx0 : e c.box.left ≤ x) (hx1 : x ≤ e c.box.right) :
    cubicSpline (NF.realX e) c uw uh udl udr false x = .ok (val e c uw uh udl udr x, ld e c uw uh udl udr x, []) := by
  have h := exec_eq_bin (udl := udl) (udr := udr) hv x hx0 hx1
  unfold val ld
  rw [h]

/-- in the domain the inverse program returns `(inv y, invLd y, invAlts y)` -/
theorem inv_eq (hv : CubicValid e c uw uh) (y : ℝ) (hy0 : e c.box.bottom ≤ y) (hy1 : y ≤ e c.box.top) :
    cubicSpline (NF.realX e) c uw uh udl udr true y
      = .ok (CubicInverseWhole.inv e c uw uh udl udr y, CubicInverseWhole.invLd e c uw uh udl udr y,
             CubicInverseWhole.invAlts e c uw uh udl udr y) := by
  have h := CubicInverseWhole.exec_eq_core (udl := udl) (udr := udr) hv y hy0 hy1
  unfold CubicInverseWhole.inv CubicInverseWhole.invLd CubicInverseWhole.invAlts
  rw [h]

/-- outside `[left, right]` the forward program raises `outsideDomain` -/
theorem fwd_outside (x : ℝ) (hx : x < e c.box.left ∨ e c.box.right < x) :
    cubicSpline (NF.realX e) c uw uh udl udr false x = .error .outsideDomain := by
  have hg1 : ((NF.realX e).lt x ((NF.realX e).ofFloat c.box.left) || (NF.realX e).lt ((NF.realX e).ofFloat c.box.right) x) = true := by
    simp only [NF.realX_lt, NF.realX_ofFloat, Bool.or_eq_true, decide_eq_true_eq]
    exact hx
  rw [cubicSpline_unfold]
  simp only [hg1, if_true]
  rfl

/-- a forward call that did not fail had its input in `[left, right]` -/
theorem fwd_ok_dom {x : ℝ} {r : ℝ × ℝ × List ℝ}
    (h : cubicSpline (NF.realX e) c uw uh udl udr false x = .ok r) : e c.box.left ≤ x ∧ x ≤ e c.box.right := by
  by_contra hc
  have hx : x < e c.box.left ∨ e c.box.right < x := by
    by_contra h2
    exact hc ⟨le_of_not_gt (fun h3 => h2 (Or.inl h3)), le_of_not_gt (fun h3 => h2 (Or.inr h3))⟩
  rw [fwd_outside x hx] at h
  cases h

/-- an inverse call that did not fail had its input in `[bottom, top]` -/
theorem inv_ok_dom {y : ℝ} {r : ℝ × ℝ × List ℝ}
    (h : cubicSpline (NF.realX e) c uw uh udl udr true y = .ok r) : e c.box.bottom ≤ y ∧ y ≤ e c.box.top := by
  by_contra hc
  have hy : y < e c.box.bottom ∨ e c.box.top < y := by
    by_contra h2
    exact hc ⟨le_of_not_gt (fun h3 => h2 (Or.inl h3)), le_of_not_gt (fun h3 => h2 (Or.inr h3))⟩
  rw [CubicInverseWhole.outside_domain y hy] at h
  cases h

/-- the bin of the y-knots that a point `y` of `[bottom, top]` falls into (what the inverse search returns) -/
noncomputable def binOf (e : Float → ℝ) (c : CCfg) (uh : List ℝ) (y : ℝ) : ℕ :=
  CubicInverseWhole.idxH e c uh (CubicInverseWhole.yn e c y)

/-- **one bounded cubic element over the reals, inverse ∘ forward** — per element: if the forward program succeeds with
    `(y, l, al)` and the bin `y` falls into is exact (`ExactBin`: the quadratic fallback is not taken there, or the bin is
    genuinely quadratic), the inverse program with the same parameters returns `(x, -l, al')`; every admissible
    alternative in `al'` is `x` itself, and the forward alternatives are empty. -/
theorem cubicSpline_real_invertible (hv : CubicValid e c uw uh) (hc : CubicInverseWhole.InvConsts e c) {x y l : ℝ}
    {al : List ℝ} (h : cubicSpline (NF.realX e) c uw uh udl udr false x = .ok (y, l, al))
    (hex : CubicInverseWhole.ExactBin e c uw uh udl udr (binOf e c uh y)) :
    cubicSpline (NF.realX e) c uw uh udl udr true y = .ok (x, -l, CubicInverseWhole.invAlts e c uw uh udl udr y)
      ∧ al = [] ∧ ∀ r ∈ CubicInverseWhole.invAlts e c uw uh udl udr y, r = x := by
  obtain ⟨hx0, hx1⟩ := fwd_ok_dom h
  rw [fwd_eq hv x hx0 hx1] at h
  simp only [Except.ok.injEq, Prod.mk.injEq] at h
  obtain ⟨hy, hl, hal⟩ := h
  obtain ⟨hy0, hy1⟩ := val_mapsTo (udl := udl) (udr := udr) hv ⟨hx0, hx1⟩
  rw [hy] at hy0 hy1
  have hex' : CubicInverseWhole.ExactBin e c uw uh udl udr
      (CubicInverseWhole.idxH e c uh (nval e c uw uh udl udr (xn e c x))) := by
    rw [← CubicInverseWhole.yn_val hv x hx0 hx1, hy]; exact hex
  have h1 := CubicInverseWhole.inv_val hv hc x hx0 hx1 hex'
  have h2 := CubicInverseWhole.invLd_eq_neg_ld_always (udl := udl) (udr := udr) hv y hy0 hy1
  have h3 := CubicInverseWhole.invAlts_eq hv hc y hy0 hy1 hex
  rw [hy] at h1
  rw [h1, hl] at h2
  rw [h1] at h3
  refine ⟨?_, hal.symm, h3⟩
  rw [inv_eq hv y hy0 hy1, h1, h2]

/-- **one bounded cubic element over the reals, forward ∘ inverse**, where the searched bin is exact -/
theorem cubicSpline_real_invertible_rev (hv : CubicValid e c uw uh) (hc : CubicInverseWhole.InvConsts e c) {x y l : ℝ}
    {al : List ℝ} (h : cubicSpline (NF.realX e) c uw uh udl udr true y = .ok (x, l, al))
    (hex : CubicInverseWhole.ExactBin e c uw uh udl udr (binOf e c uh y)) :
    cubicSpline (NF.realX e) c uw uh udl udr false x = .ok (y, -l, []) := by
  obtain ⟨hy0, hy1⟩ := inv_ok_dom h
  rw [inv_eq hv y hy0 hy1] at h
  simp only [Except.ok.injEq, Prod.mk.injEq] at h
  obtain ⟨hx, hl, _⟩ := h
  obtain ⟨hx0, hx1⟩ := CubicInverseWhole.inv_mem (udl := udl) (udr := udr) hv y hy0 hy1
  have h1 := CubicInverseWhole.val_inv hv hc y hy0 hy1 hex
  have h2 := CubicInverseWhole.invLd_eq_neg_ld_always (udl := udl) (udr := udr) hv y hy0 hy1
  rw [hx] at hx0 hx1 h1 h2
  rw [fwd_eq hv x hx0 hx1, h1]
  congr 2
  rw [← hl, h2, neg_neg]

/-- **one bounded cubic element, forward ∘ inverse, NO exactness hypothesis**: the forward program accepts the inverse
    program's output (it lies in `[left, right]`), returns EXACTLY the negated log-abs-det, and a value within
    `quadratic_threshold · (top − bottom)` of the inverse program's input. -/
theorem cubicSpline_real_rev_approx (hv : CubicValid e c uw uh) (hc : CubicInverseWhole.InvConsts e c) {x y l : ℝ}
    {al : List ℝ} (h : cubicSpline (NF.realX e) c uw uh udl udr true y = .ok (x, l, al)) :
    e c.box.left ≤ x ∧ x ≤ e c.box.right ∧
    ∃ y', cubicSpline (NF.realX e) c uw uh udl udr false x = .ok (y', -l, []) ∧
      |y' - y| < e c.thr * (e c.box.top - e c.box.bottom) := by
  obtain ⟨hy0, hy1⟩ := inv_ok_dom h
  rw [inv_eq hv y hy0 hy1] at h
  simp only [Except.ok.injEq, Prod.mk.injEq] at h
  obtain ⟨hx, hl, _⟩ := h
  obtain ⟨hx0, hx1⟩ := CubicInverseWhole.inv_mem (udl := udl) (udr := udr) hv y hy0 hy1
  have h1 := (CubicInverseWhole.val_inv_approx (udl := udl) (udr := udr) hv hc y hy0 hy1).2
  have h2 := CubicInverseWhole.invLd_eq_neg_ld_always (udl := udl) (udr := udr) hv y hy0 hy1
  rw [hx] at hx0 hx1 h1 h2
  refine ⟨hx0, hx1, val e c uw uh udl udr x, ?_, h1⟩
  rw [fwd_eq hv x hx0 hx1]
  congr 2
  rw [← hl, h2, neg_neg]

/-- the log-abs-det part of the previous statement needs no hypothesis on the constants of the root formulas -/
theorem cubicSpline_real_rev_ld (hv : CubicValid e c uw uh) {x y l : ℝ}
    {al : List ℝ} (h : cubicSpline (NF.realX e) c uw uh udl udr true y = .ok (x, l, al)) :
    e c.box.left ≤ x ∧ x ≤ e c.box.right ∧
    ∃ y', cubicSpline (NF.realX e) c uw uh udl udr false x = .ok (y', -l, []) ∧
      e c.box.bottom ≤ y' ∧ y' ≤ e c.box.top := by
  obtain ⟨hy0, hy1⟩ := inv_ok_dom h
  rw [inv_eq hv y hy0 hy1] at h
  simp only [Except.ok.injEq, Prod.mk.injEq] at h
  obtain ⟨hx, hl, _⟩ := h
  obtain ⟨hx0, hx1⟩ := CubicInverseWhole.inv_mem (udl := udl) (udr := udr) hv y hy0 hy1
  have h2 := CubicInverseWhole.invLd_eq_neg_ld_always (udl := udl) (udr := udr) hv y hy0 hy1
  rw [hx] at hx0 hx1 h2
  obtain ⟨hm0, hm1⟩ := val_mapsTo (udl := udl) (udr := udr) hv ⟨hx0, hx1⟩
  refine ⟨hx0, hx1, val e c uw uh udl udr x, ?_, hm0, hm1⟩
  rw [fwd_eq hv x hx0 hx1]
  congr 2
  rw [← hl, h2, neg_neg]

end element

/-! ## 2. What `elTransform` runs for kind `"cubic"` (bounded), and the per-slice hypotheses -/

section dispatch
variable {α : Type}

/-- the spline configuration `elTransform` builds for the bounded cubic family -/
def cubicCfgOf (c : ElCfg) : CCfg :=
  { box := ⟨c.ds.getD 0 0.0, c.ds.getD 1 0.0, c.ds.getD 2 0.0, c.ds.getD 3 0.0⟩,
    minW := c.ds.getD 4 0.0, minH := c.ds.getD 5 0.0, eps := c.ds.getD 6 0.0, thr := c.ds.getD 7 0.0 }

/-- the two unnormalised end derivatives `elTransform` reads off a parameter vector -/
def cubicL (o : XOps α) (c : ElCfg) (p : List α) : α := p.getD (2 * c.K) o.zero
def cubicR (o : XOps α) (c : ElCfg) (p : List α) : α := p.getD (2 * c.K + 1) o.zero

/-- **`elTransform` for the bounded cubic family is the executed `cubicSpline`** on the sliced (and scaled) widths and
    heights (`rqW`, `rqH`: the same slicing as the rational-quadratic family) and the two end derivatives -/
theorem elTransform_cubic (o : XOps α) (c : ElCfg) (hk : c.kind = "cubic") (ht : c.tails = false) (inverse : Bool)
    (p : List α) (x : α) :
    elTransform o c inverse p x
      = cubicSpline o (cubicCfgOf c) (rqW o c p) (rqH o c p) (cubicL o c p) (cubicR o c p) inverse x := by
  unfold elTransform rqW rqH rqScale cubicCfgOf cubicL cubicR
  rcases hsc : c.scaling with ⟨hid, sW, sH⟩
  simp only [hk, ht]
  rfl

theorem mult_cubic {c : ElCfg} (hk : c.kind = "cubic") : c.mult = 2 * c.K + 2 := by
  simp [ElCfg.mult, hk]

theorem pw_cubic {c : ElCfg} (hk : c.kind = "cubic") : pw c = 2 * c.K + 2 := by
  simp [pw, ElCfg.mult, hk]

end dispatch

/-- the parameter vector `p` is an accepted configuration of the executed cubic spline `cc` -/
def SliceValid (e : Float → ℝ) (c : ElCfg) (cc : CCfg) (p : List ℝ) : Prop :=
  CubicValid e cc (rqW (NF.realX e) c p) (rqH (NF.realX e) c p)

/-- … and no bin of it takes the approximate quadratic fallback (`|a|·w³ < thr·h` with `a ≠ 0`) -/
def SliceExact (e : Float → ℝ) (c : ElCfg) (cc : CCfg) (p : List ℝ) : Prop :=
  CubicInverseWhole.AllExact e cc (rqW (NF.realX e) c p) (rqH (NF.realX e) c p)
    (cubicL (NF.realX e) c p) (cubicR (NF.realX e) c p)

/-- `CubicValid` constrains the configuration and the LENGTHS of the two parameter lists, not their values -/
theorem cubicValid_of_lengths {e : Float → ℝ} {cc : CCfg} {uw uh uw' uh' : List ℝ}
    (hv : CubicValid e cc uw uh) (hw : uw'.length = uw.length) (hh : uh'.length = uw.length) :
    CubicValid e cc uw' uh' where
  hK := by
    have := List.length_pos_of_ne_nil hv.hK
    exact List.ne_nil_of_length_pos (by omega)
  hlenh := by rw [hh, hw]
  hgW := by rw [hw]; exact hv.hgW
  hgH := by rw [hw]; exact hv.hgH
  hmW0 := hv.hmW0
  hcW := by rw [hw]; exact hv.hcW
  hmWK := by rw [hw]; exact hv.hmWK
  hmH0 := hv.hmH0
  hcH := by rw [hh, ← hv.hlenh]; exact hv.hcH
  hmHK := by rw [hh, ← hv.hlenh]; exact hv.hmHK
  hlr := hv.hlr
  hdlr := hv.hdlr
  hbt := hv.hbt
  hdbt := hv.hdbt
  hseps := hv.hseps
  hhalf := hv.hhalf

/-- a parameter vector of the right length `2K + 2` is accepted as soon as the all-zero one is -/
theorem sliceValid_of_length {e : Float → ℝ} {c : ElCfg} {cc : CCfg} (hK : 0 < c.K)
    (hv : CubicValid e cc (List.replicate c.K 0) (List.replicate c.K 0)) (p : List ℝ) (hlen : p.length = 2 * c.K + 2) :
    SliceValid e c cc p := by
  apply cubicValid_of_lengths hv
  · rw [rqW, rqScale_length, List.length_take, List.length_replicate, hlen]; omega
  · rw [rqH, rqScale_length, List.length_take, List.length_drop, List.length_replicate, hlen]; omega

/-! ## 3. One element as the dispatcher runs it (bounded) -/

section el
variable {e : Float → ℝ} {c : ElCfg}

/-- **C17 (element)**: on an accepted slice the bounded cubic element succeeds on every in-domain input, in both
    directions, and its output lies in the box of the other side -/
theorem cubic_el_total (hk : c.kind = "cubic") (ht : c.tails = false) (p : List ℝ)
    (hv : SliceValid e c (cubicCfgOf c) p) (x : ℝ) :
    (e (cubicCfgOf c).box.left ≤ x → x ≤ e (cubicCfgOf c).box.right →
      ∃ y l, elTransform (NF.realX e) c false p x = .ok (y, l, [])
        ∧ e (cubicCfgOf c).box.bottom ≤ y ∧ y ≤ e (cubicCfgOf c).box.top) ∧
    (e (cubicCfgOf c).box.bottom ≤ x → x ≤ e (cubicCfgOf c).box.top →
      ∃ y l al, elTransform (NF.realX e) c true p x = .ok (y, l, al)
        ∧ e (cubicCfgOf c).box.left ≤ y ∧ y ≤ e (cubicCfgOf c).box.right) := by
  constructor
  · intro h0 h1
    obtain ⟨m0, m1⟩ := val_mapsTo (udl := cubicL (NF.realX e) c p) (udr := cubicR (NF.realX e) c p) hv ⟨h0, h1⟩
    exact ⟨_, _, by rw [elTransform_cubic _ c hk ht]; exact fwd_eq hv x h0 h1, m0, m1⟩
  · intro h0 h1
    obtain ⟨m0, m1⟩ := CubicInverseWhole.inv_mem (udl := cubicL (NF.realX e) c p) (udr := cubicR (NF.realX e) c p) hv x h0 h1
    exact ⟨_, _, _, by rw [elTransform_cubic _ c hk ht]; exact inv_eq hv x h0 h1, m0, m1⟩

/-- **C02 (element), inverse ∘ forward**, exactness stated per element: the bin the forward output falls into is exact -/
theorem cubic_real_invertible (hk : c.kind = "cubic") (ht : c.tails = false) (p : List ℝ)
    (hv : SliceValid e c (cubicCfgOf c) p) (hc : CubicInverseWhole.InvConsts e (cubicCfgOf c)) {x y l : ℝ} {al : List ℝ}
    (h : elTransform (NF.realX e) c false p x = .ok (y, l, al))
    (hex : CubicInverseWhole.ExactBin e (cubicCfgOf c) (rqW (NF.realX e) c p) (rqH (NF.realX e) c p)
      (cubicL (NF.realX e) c p) (cubicR (NF.realX e) c p) (binOf e (cubicCfgOf c) (rqH (NF.realX e) c p) y)) :
    ∃ al', elTransform (NF.realX e) c true p y = .ok (x, -l, al') ∧ al = [] ∧ ∀ r ∈ al', r = x := by
  rw [elTransform_cubic _ c hk ht] at h ⊢
  exact ⟨_, cubicSpline_real_invertible hv hc h hex⟩

/-- the same with the exactness hypothesis on the whole slice -/
theorem cubic_real_invertible_all (hk : c.kind = "cubic") (ht : c.tails = false) (p : List ℝ)
    (hv : SliceValid e c (cubicCfgOf c) p) (hc : CubicInverseWhole.InvConsts e (cubicCfgOf c))
    (hall : SliceExact e c (cubicCfgOf c) p) {x y l : ℝ} {al : List ℝ}
    (h : elTransform (NF.realX e) c false p x = .ok (y, l, al)) :
    ∃ al', elTransform (NF.realX e) c true p y = .ok (x, -l, al') ∧ al = [] ∧ ∀ r ∈ al', r = x := by
  apply cubic_real_invertible hk ht p hv hc h
  rw [elTransform_cubic _ c hk ht] at h
  obtain ⟨hx0, hx1⟩ := fwd_ok_dom h
  rw [fwd_eq hv x hx0 hx1] at h
  simp only [Except.ok.injEq, Prod.mk.injEq] at h
  obtain ⟨m0, m1⟩ := val_mapsTo (udl := cubicL (NF.realX e) c p) (udr := cubicR (NF.realX e) c p) hv ⟨hx0, hx1⟩
  rw [h.1] at m0 m1
  exact CubicInverseWhole.exact_at hv hall _ (CubicInverseWhole.yn_unit hv y m0 m1).1 (CubicInverseWhole.yn_unit hv y m0 m1).2

/-- **C02 (element), forward ∘ inverse**, on an all-exact slice -/
theorem cubic_real_invertible_rev_all (hk : c.kind = "cubic") (ht : c.tails = false) (p : List ℝ)
    (hv : SliceValid e c (cubicCfgOf c) p) (hc : CubicInverseWhole.InvConsts e (cubicCfgOf c))
    (hall : SliceExact e c (cubicCfgOf c) p) {x y l : ℝ} {al : List ℝ}
    (h : elTransform (NF.realX e) c true p y = .ok (x, l, al)) :
    elTransform (NF.realX e) c false p x = .ok (y, -l, []) := by
  rw [elTransform_cubic _ c hk ht] at h ⊢
  obtain ⟨hy0, hy1⟩ := inv_ok_dom h
  exact cubicSpline_real_invertible_rev hv hc h
    (CubicInverseWhole.exact_at hv hall _ (CubicInverseWhole.yn_unit hv y hy0 hy1).1 (CubicInverseWhole.yn_unit hv y hy0 hy1).2)

/-- **C02 (element), forward ∘ inverse WITHOUT exactness**: exact negated log-abs-det, value within
    `quadratic_threshold · (top − bottom)` -/
theorem cubic_real_rev_approx (hk : c.kind = "cubic") (ht : c.tails = false) (p : List ℝ)
    (hv : SliceValid e c (cubicCfgOf c) p) (hc : CubicInverseWhole.InvConsts e (cubicCfgOf c)) {x y l : ℝ} {al : List ℝ}
    (h : elTransform (NF.realX e) c true p y = .ok (x, l, al)) :
    ∃ y', elTransform (NF.realX e) c false p x = .ok (y', -l, []) ∧
      |y' - y| < e (cubicCfgOf c).thr * (e (cubicCfgOf c).box.top - e (cubicCfgOf c).box.bottom) := by
  rw [elTransform_cubic _ c hk ht] at h ⊢
  exact (cubicSpline_real_rev_approx hv hc h).2.2

end el

/-! ## 4. The executed coupling layer, bounded cubic family -/

section coupling
variable {e : Float → ℝ} {c : ElCfg}

/-- every parameter slice the conditioner produced is an accepted bounded cubic configuration -/
def CubicParamsValid (e : Float → ℝ) (c : ElCfg) (Ft S : Nat) (params : Array ℝ) (B : Nat) : Prop :=
  ∀ b t s, b < B → t < Ft → s < S →
    SliceValid e c (cubicCfgOf c) (condSlice (NF.realX e) c.mult Ft S params b t s)

/-- **the parameter-level exactness hypothesis**: every parameter slice is an accepted configuration AND none of its
    bins takes the approximate quadratic fallback (`|a|·w³ < quadratic_threshold·h` with `a ≠ 0`) -/
def CubicParamsExact (e : Float → ℝ) (c : ElCfg) (Ft S : Nat) (params : Array ℝ) (B : Nat) : Prop :=
  ∀ b t s, b < B → t < Ft → s < S →
    SliceValid e c (cubicCfgOf c) (condSlice (NF.realX e) c.mult Ft S params b t s) ∧
    SliceExact e c (cubicCfgOf c) (condSlice (NF.realX e) c.mult Ft S params b t s)

theorem CubicParamsExact.valid {Ft S B : Nat} {params : Array ℝ} (h : CubicParamsExact e c Ft S params B) :
    CubicParamsValid e c Ft S params B := fun b t s hb ht hs => (h b t s hb ht hs).1

/-- an accepted bounded cubic element configuration: `K ≥ 1` bins, and the constants are accepted for (one, hence every)
    parameter vector with `K` widths and `K` heights; the literals of the root formulas are read exactly -/
structure CubicCfgValid (e : Float → ℝ) (c : ElCfg) : Prop where
  hk : c.kind = "cubic"
  ht : c.tails = false
  hK : 0 < c.K
  hv : CubicValid e (cubicCfgOf c) (List.replicate c.K 0) (List.replicate c.K 0)
  hc : CubicInverseWhole.InvConsts e (cubicCfgOf c)

/-- whatever the conditioner returns, every parameter slice is an accepted configuration -/
theorem cubicParamsValid_of_cfg (hcv : CubicCfgValid e c) (Ft S : Nat) (params : Array ℝ) (B : Nat) :
    CubicParamsValid e c Ft S params B := by
  intro b t s _ _ _
  exact sliceValid_of_length hcv.hK hcv.hv _ (by rw [condSlice_length, mult_cubic hcv.hk])

theorem cubic_kind_ne {c : ElCfg} (hk : c.kind = "cubic") : c.kind ≠ "affine" ∧ c.kind ≠ "additive" := by
  rw [hk]; exact ⟨by decide, by decide⟩

/-- the per-element hypothesis of the executed C02 theorem, discharged for the bounded cubic coupling family under
    `CubicParamsExact` -/
theorem elInvertible_cubic_real (hk : c.kind = "cubic") (ht : c.tails = false)
    (hc : CubicInverseWhole.InvConsts e (cubicCfgOf c)) (Ft S : Nat) (params : Array ℝ) (B : Nat)
    (hv : CubicParamsExact e c Ft S params B) : ElInvertible (NF.realX e) c Ft S params B := by
  obtain ⟨hk1, hk2⟩ := cubic_kind_ne hk
  intro b t s xi y l al hb ht' hs hf
  rw [couplingEl_spline (NF.realX e) c S params false hk1 hk2] at hf
  rw [couplingEl_spline (NF.realX e) c S params true hk1 hk2]
  obtain ⟨al', h, _⟩ := cubic_real_invertible_all hk ht _ (hv b t s hb ht' hs).1 hc (hv b t s hb ht' hs).2 hf
  exact ⟨al', h⟩

/-- … and in the other order -/
theorem elInvertibleRev_cubic_real (hk : c.kind = "cubic") (ht : c.tails = false)
    (hc : CubicInverseWhole.InvConsts e (cubicCfgOf c)) (Ft S : Nat) (params : Array ℝ) (B : Nat)
    (hv : CubicParamsExact e c Ft S params B) : ElInvertibleRev (NF.realX e) c Ft S params B := by
  obtain ⟨hk1, hk2⟩ := cubic_kind_ne hk
  intro b t s xi y l al hb ht' hs hf
  rw [couplingEl_spline (NF.realX e) c S params true hk1 hk2] at hf
  rw [couplingEl_spline (NF.realX e) c S params false hk1 hk2]
  exact ⟨[], cubic_real_invertible_rev_all hk ht _ (hv b t s hb ht' hs).1 hc (hv b t s hb ht' hs).2 hf⟩

/-- every transformed entry of the `[B, C, S]` array lies in `[lo, hi]` -/
def TransformedInBox (e : Float → ℝ) (mask : List ℝ) (B S : Nat) (x : Array ℝ) (lo hi : ℝ) : Prop :=
  ∀ b t s, b < B → t < (transformIdx (NF.realX e) mask).length → s < S →
    lo ≤ x.getD (flatIdx mask.length S b ((transformIdx (NF.realX e) mask).getD t 0) s) 0 ∧
    x.getD (flatIdx mask.length S b ((transformIdx (NF.realX e) mask).getD t 0) s) 0 ≤ hi

/-- **C17 (executed bounded cubic coupling layer), no exactness hypothesis**: with accepted slices, the layer raises
    nothing on in-domain inputs — forward on `[left, right]`, inverse on `[bottom, top]` — and the transformed outputs
    lie in the box of the other side -/
theorem coupling_cubic_err_none (hk : c.kind = "cubic") (ht : c.tails = false) (mask : List ℝ) (B S : Nat)
    (x params uparams : Array ℝ) (hv : CubicParamsValid e c (transformIdx (NF.realX e) mask).length S params B)
    (hsz : B * mask.length * S ≤ x.size) :
    (TransformedInBox e mask B S x (e (cubicCfgOf c).box.left) (e (cubicCfgOf c).box.right) →
      (couplingApply (NF.realX e) c mask B S x params false none uparams).err = none ∧
      TransformedInBox e mask B S (couplingApply (NF.realX e) c mask B S x params false none uparams).out
        (e (cubicCfgOf c).box.bottom) (e (cubicCfgOf c).box.top)) ∧
    (TransformedInBox e mask B S x (e (cubicCfgOf c).box.bottom) (e (cubicCfgOf c).box.top) →
      (couplingApply (NF.realX e) c mask B S x params true none uparams).err = none ∧
      TransformedInBox e mask B S (couplingApply (NF.realX e) c mask B S x params true none uparams).out
        (e (cubicCfgOf c).box.left) (e (cubicCfgOf c).box.right)) := by
  obtain ⟨hk1, hk2⟩ := cubic_kind_ne hk
  constructor
  · intro hbox
    have hel : ∀ b t s, b < B → t < (transformIdx (NF.realX e) mask).length → s < S →
        ∃ y l, couplingEl (NF.realX e) c (transformIdx (NF.realX e) mask).length S params false b t s
          (x.getD (flatIdx mask.length S b ((transformIdx (NF.realX e) mask).getD t 0) s) (NF.realX e).zero) = .ok (y, l, [])
          ∧ e (cubicCfgOf c).box.bottom ≤ y ∧ y ≤ e (cubicCfgOf c).box.top := by
      intro b t s hb ht' hs
      obtain ⟨h0, h1⟩ := hbox b t s hb ht' hs
      rw [couplingEl_spline (NF.realX e) c S params false hk1 hk2, realX_zero]
      exact (cubic_el_total hk ht _ (hv b t s hb ht' hs) _).1 h0 h1
    constructor
    · rw [coupling_err_none_iff, ucAll_none, List.nil_append, condAll_eq]
      intro u hu
      obtain ⟨b, t, s, hb, ht', hs, rfl⟩ := (mem_tAll ..).1 hu
      obtain ⟨y, l, h, _⟩ := hel b t s hb ht' hs
      exact ⟨_, h⟩
    · intro b t s hb ht' hs
      obtain ⟨y, l, h, h0, h1⟩ := hel b t s hb ht' hs
      have hj : flatIdx mask.length S b ((transformIdx (NF.realX e) mask).getD t 0) s < x.size :=
        lt_of_lt_of_le (flatIdx_lt hb ((transformIdx_ok (NF.realX e) mask).getD_lt ht') hs) hsz
      have := coupling_out_transformed_ok (NF.realX e) c mask B S x params false none uparams hb ht' hs hj h
      rw [Array.getD_eq_getD_getElem?, this]
      exact ⟨h0, h1⟩
  · intro hbox
    have hel : ∀ b t s, b < B → t < (transformIdx (NF.realX e) mask).length → s < S →
        ∃ y l al, couplingEl (NF.realX e) c (transformIdx (NF.realX e) mask).length S params true b t s
          (x.getD (flatIdx mask.length S b ((transformIdx (NF.realX e) mask).getD t 0) s) (NF.realX e).zero) = .ok (y, l, al)
          ∧ e (cubicCfgOf c).box.left ≤ y ∧ y ≤ e (cubicCfgOf c).box.right := by
      intro b t s hb ht' hs
      obtain ⟨h0, h1⟩ := hbox b t s hb ht' hs
      rw [couplingEl_spline (NF.realX e) c S params true hk1 hk2, realX_zero]
      exact (cubic_el_total hk ht _ (hv b t s hb ht' hs) _).2 h0 h1
    constructor
    · rw [coupling_err_none_iff, ucAll_none, List.nil_append, condAll_eq]
      intro u hu
      obtain ⟨b, t, s, hb, ht', hs, rfl⟩ := (mem_tAll ..).1 hu
      obtain ⟨y, l, al, h, _⟩ := hel b t s hb ht' hs
      exact ⟨_, h⟩
    · intro b t s hb ht' hs
      obtain ⟨y, l, al, h, h0, h1⟩ := hel b t s hb ht' hs
      have hj : flatIdx mask.length S b ((transformIdx (NF.realX e) mask).getD t 0) s < x.size :=
        lt_of_lt_of_le (flatIdx_lt hb ((transformIdx_ok (NF.realX e) mask).getD_lt ht') hs) hsz
      have := coupling_out_transformed_ok (NF.realX e) c mask B S x params true none uparams hb ht' hs hj h
      rw [Array.getD_eq_getD_getElem?, this]
      exact ⟨h0, h1⟩

/-- **C02 (executed bounded cubic coupling layer over the reals), inverse ∘ forward, under `CubicParamsExact`.**  Any mask,
    `B`, `S`: if the forward pass reported no error, the inverse pass on the forward output with the same parameters
    returns the input array, reports no error, is given the same conditioner input, and returns the negated row
    log-dets. -/
theorem coupling_cubic_roundtrip_real (hk : c.kind = "cubic") (ht : c.tails = false)
    (hc : CubicInverseWhole.InvConsts e (cubicCfgOf c))
    (mask : List ℝ) (B S : Nat) (x params uparams uparams' : Array ℝ)
    (hv : CubicParamsExact e c (transformIdx (NF.realX e) mask).length S params B)
    (herr : (couplingApply (NF.realX e) c mask B S x params false none uparams).err = none)
    (hsz : B * mask.length * S ≤ x.size) :
    let fwd := couplingApply (NF.realX e) c mask B S x params false none uparams
    let inv := couplingApply (NF.realX e) c mask B S fwd.out params true none uparams'
    inv.out = x ∧ inv.err = none ∧ inv.condIn = fwd.condIn ∧ ∀ b, b < B → inv.ld[b]? = (fwd.ld[b]?).map (fun l => -l) :=
  coupling_inverse_forward_real e c mask B S x params uparams uparams'
    (elInvertible_cubic_real hk ht hc _ S params B hv) herr hsz

/-- **C02, the other order, under `CubicParamsExact`**: forward ∘ inverse -/
theorem coupling_cubic_roundtrip_rev_real (hk : c.kind = "cubic") (ht : c.tails = false)
    (hc : CubicInverseWhole.InvConsts e (cubicCfgOf c))
    (mask : List ℝ) (B S : Nat) (y params uparams uparams' : Array ℝ)
    (hv : CubicParamsExact e c (transformIdx (NF.realX e) mask).length S params B)
    (herr : (couplingApply (NF.realX e) c mask B S y params true none uparams).err = none)
    (hsz : B * mask.length * S ≤ y.size) :
    let inv := couplingApply (NF.realX e) c mask B S y params true none uparams
    let fwd := couplingApply (NF.realX e) c mask B S inv.out params false none uparams'
    fwd.out = y ∧ fwd.err = none ∧ fwd.condIn = inv.condIn ∧ ∀ b, b < B → fwd.ld[b]? = (inv.ld[b]?).map (fun l => -l) :=
  coupling_forward_inverse_real e c mask B S y params uparams uparams'
    (elInvertibleRev_cubic_real hk ht hc _ S params B hv) herr hsz

end coupling

/-! ## 5. forward ∘ inverse of the executed coupling layer up to a relation (generic): what survives when the elements
invert only approximately but negate their log-dets exactly -/

section rel
variable {α : Type} (o : XOps α) (c : ElCfg) (mask : List α) (B S : Nat) (x params : Array α) (uparams uparams' : Array α)

/-- per element: whenever the inverse element map succeeds with `(x, l)`, the forward element map with the SAME
    parameters succeeds at `x` with log-det EXACTLY `-l` and a value `R`-related to the inverse map's input -/
def ElRevRel (R : α → α → Prop) (o : XOps α) (c : ElCfg) (Ft S : Nat) (params : Array α) (B : Nat) : Prop :=
  ∀ b t s yi xv l al, b < B → t < Ft → s < S →
    couplingEl o c Ft S params true b t s yi = .ok (xv, l, al) →
    ∃ y' al', couplingEl o c Ft S params false b t s xv = .ok (y', o.neg l, al') ∧ R y' yi

theorem fwd_el_of_inv_rel (R : α → α → Prop) (hinv : ElRevRel R o c (transformIdx o mask).length S params B)
    (herr : (couplingApply o c mask B S x params true none uparams).err = none)
    (hsz : B * mask.length * S ≤ x.size)
    {b t s : Nat} (hb : b < B) (ht : t < (transformIdx o mask).length) (hs : s < S) :
    ∃ xv l al y' al',
      couplingEl o c (transformIdx o mask).length S params true b t s
        (x.getD (flatIdx mask.length S b ((transformIdx o mask).getD t 0) s) o.zero) = .ok (xv, l, al) ∧
      couplingEl o c (transformIdx o mask).length S params false b t s
        ((couplingApply o c mask B S x params true none uparams).out.getD
          (flatIdx mask.length S b ((transformIdx o mask).getD t 0) s) o.zero) = .ok (y', o.neg l, al') ∧
      R y' (x.getD (flatIdx mask.length S b ((transformIdx o mask).getD t 0) s) o.zero) := by
  obtain ⟨⟨xv, l, al⟩, hy⟩ := inv_el_ok o c mask B S x params uparams herr hb ht hs
  have hj : flatIdx mask.length S b ((transformIdx o mask).getD t 0) s < x.size :=
    lt_of_lt_of_le (flatIdx_lt hb ((transformIdx_ok o mask).getD_lt ht) hs) hsz
  have hy' := coupling_out_transformed_ok o c mask B S x params true none uparams hb ht hs hj hy
  have hget : (couplingApply o c mask B S x params true none uparams).out.getD
      (flatIdx mask.length S b ((transformIdx o mask).getD t 0) s) o.zero = xv := by
    rw [Array.getD_eq_getD_getElem?, hy']; rfl
  obtain ⟨y', al', h', hR⟩ := hinv b t s _ xv l al hb ht hs hy
  exact ⟨xv, l, al, y', al', hy, by rw [hget, h'], hR⟩

/-- **forward ∘ inverse up to `R`**: the forward pass on the inverse pass's output reports no error, every entry of its
    output is `R`-related to the corresponding entry of the inverse pass's input (untouched entries are equal), and its
    row log-det is the left fold of the NEGATED per-element log-dets of the inverse row -/
theorem coupling_forward_inverse_rel (R : α → α → Prop) (hR : ∀ a, R a a)
    (hinv : ElRevRel R o c (transformIdx o mask).length S params B)
    (herr : (couplingApply o c mask B S x params true none uparams).err = none)
    (hsz : B * mask.length * S ≤ x.size) :
    (couplingApply o c mask B S (couplingApply o c mask B S x params true none uparams).out params false none uparams').err = none
    ∧ (∀ j, R ((couplingApply o c mask B S (couplingApply o c mask B S x params true none uparams).out params false none uparams').out.getD j o.zero)
          (x.getD j o.zero))
    ∧ ∀ b, b < B →
      (couplingApply o c mask B S x params true none uparams).ld[b]?
        = some (((rowResults o c mask S x params true none uparams b).map (ldOf o)).foldl o.add o.zero)
      ∧ (couplingApply o c mask B S (couplingApply o c mask B S x params true none uparams).out params false none uparams').ld[b]?
        = some ((((rowResults o c mask S x params true none uparams b).map (ldOf o)).map o.neg).foldl o.add o.zero) := by
  have hrow : ∀ b, b < B →
      (∀ r ∈ rowResults o c mask S (couplingApply o c mask B S x params true none uparams).out params false none uparams' b,
        ∃ v, r = .ok v)
      ∧ (rowResults o c mask S (couplingApply o c mask B S x params true none uparams).out params false none uparams' b).map (ldOf o)
        = ((rowResults o c mask S x params true none uparams b).map (ldOf o)).map o.neg := by
    intro b hb
    rw [rowResults_none, rowResults_none]
    constructor
    · intro r hr
      obtain ⟨⟨t, s⟩, hts, rfl⟩ := List.mem_map.1 hr
      obtain ⟨ht, hs⟩ := mem_rowIter.1 hts
      obtain ⟨xv, l, al, y', al', _, h2, _⟩ := fwd_el_of_inv_rel o c mask B S x params uparams R hinv herr hsz hb ht hs
      exact ⟨_, h2⟩
    · rw [List.map_map, List.map_map, List.map_map]
      apply List.map_congr_left
      rintro ⟨t, s⟩ hts
      obtain ⟨ht, hs⟩ := mem_rowIter.1 hts
      obtain ⟨xv, l, al, y', al', h1, h2, _⟩ := fwd_el_of_inv_rel o c mask B S x params uparams R hinv herr hsz hb ht hs
      simp only [Function.comp, h1, h2, ldOf]
  refine ⟨?_, ?_, ?_⟩
  · rw [coupling_err_none_iff, ucAll_none, List.nil_append, condAll_eq]
    intro u hu
    obtain ⟨b, t, s, hb, ht, hs, rfl⟩ := (mem_tAll ..).1 hu
    obtain ⟨xv, l, al, y', al', _, h2, _⟩ := fwd_el_of_inv_rel o c mask B S x params uparams R hinv herr hsz hb ht hs
    exact ⟨_, h2⟩
  · intro j
    by_cases hpos : ∃ b t s, b < B ∧ t < (transformIdx o mask).length ∧ s < S ∧
        j = flatIdx mask.length S b ((transformIdx o mask).getD t 0) s
    · obtain ⟨b, t, s, hb, ht, hs, rfl⟩ := hpos
      obtain ⟨xv, l, al, y', al', _, h2, h3⟩ := fwd_el_of_inv_rel o c mask B S x params uparams R hinv herr hsz hb ht hs
      have hj : flatIdx mask.length S b ((transformIdx o mask).getD t 0) s
          < (couplingApply o c mask B S x params true none uparams).out.size := by
        rw [coupling_out_size]
        exact lt_of_lt_of_le (flatIdx_lt hb ((transformIdx_ok o mask).getD_lt ht) hs) hsz
      have := coupling_out_transformed_ok o c mask B S _ params false none uparams' hb ht hs hj h2
      rw [Array.getD_eq_getD_getElem?, this]
      exact h3
    · have hj : ∀ b t s, b < B → t < (transformIdx o mask).length → s < S →
          j ≠ flatIdx mask.length S b ((transformIdx o mask).getD t 0) s := by
        intro b t s hb ht hs he
        exact hpos ⟨b, t, s, hb, ht, hs, he⟩
      have h1 := coupling_out_untouched o c mask B S (couplingApply o c mask B S x params true none uparams).out
        params false none uparams' j hj
      have h2 := coupling_out_untouched o c mask B S x params true none uparams j hj
      rw [couplingUncond_none] at h1 h2
      rw [Array.getD_eq_getD_getElem?, Array.getD_eq_getD_getElem? (xs := x), h1, h2]
      exact hR _
  · intro b hb
    refine ⟨coupling_ld_leftfold o c mask B S x params true none uparams hb
      (rowResults_ok_of_err_none o c mask B S x params true none uparams herr hb), ?_⟩
    rw [coupling_ld_leftfold o c mask B S _ params false none uparams' hb (hrow b hb).1, (hrow b hb).2]

end rel

/-- the same over the reals: the row log-dets are negated exactly -/
theorem coupling_forward_inverse_rel_real (e : Float → ℝ) (c : ElCfg) (mask : List ℝ) (B S : Nat)
    (x params uparams uparams' : Array ℝ) (R : ℝ → ℝ → Prop) (hR : ∀ a, R a a)
    (hinv : ElRevRel R (NF.realX e) c (transformIdx (NF.realX e) mask).length S params B)
    (herr : (couplingApply (NF.realX e) c mask B S x params true none uparams).err = none)
    (hsz : B * mask.length * S ≤ x.size) :
    let inv := couplingApply (NF.realX e) c mask B S x params true none uparams
    let fwd := couplingApply (NF.realX e) c mask B S inv.out params false none uparams'
    fwd.err = none ∧ (∀ j, R (fwd.out.getD j 0) (x.getD j 0)) ∧ fwd.condIn = inv.condIn
      ∧ ∀ b, b < B → fwd.ld[b]? = (inv.ld[b]?).map (fun l => -l) := by
  intro inv fwd
  obtain ⟨h1, h2, h3⟩ := coupling_forward_inverse_rel (NF.realX e) c mask B S x params uparams uparams' R hR hinv herr hsz
  refine ⟨h1, fun j => by have := h2 j; rw [realX_zero] at this; exact this, coupling_condIn_roundtrip_rev (NF.realX e) c mask B S x params uparams uparams' (maskDisjoint_real e mask), ?_⟩
  intro b hb
  obtain ⟨h4, h5⟩ := h3 b hb
  show (couplingApply (NF.realX e) c mask B S (couplingApply (NF.realX e) c mask B S x params true none uparams).out
      params false none uparams').ld[b]? = ((couplingApply (NF.realX e) c mask B S x params true none uparams).ld[b]?).map _
  rw [h4, h5, foldl_add_real, foldl_add_real, sum_map_neg_real]
  simp

/-! ## 6. The bounded cubic coupling layer WITHOUT the exactness hypothesis -/

section approx
variable {e : Float → ℝ} {c : ElCfg}

/-- "equal, or closer than `quadratic_threshold · (top − bottom)`" -/
def Near (e : Float → ℝ) (cc : CCfg) (a b : ℝ) : Prop :=
  a = b ∨ |a - b| < e cc.thr * (e cc.box.top - e cc.box.bottom)

theorem near_of_valid {cc : CCfg} {uw uh : List ℝ} (hv : CubicValid e cc uw uh) (hc : CubicInverseWhole.InvConsts e cc)
    {a b : ℝ} (h : Near e cc a b) : |a - b| < e cc.thr * (e cc.box.top - e cc.box.bottom) := by
  rcases h with h | h
  · rw [h, sub_self, abs_zero]; exact mul_pos hc.hthr (sub_pos.mpr hv.hbt)
  · exact h

/-- the per-element hypothesis of `coupling_forward_inverse_rel`, discharged for the bounded cubic family with NO
    exactness hypothesis -/
theorem elRevRel_cubic_real (hk : c.kind = "cubic") (ht : c.tails = false)
    (hc : CubicInverseWhole.InvConsts e (cubicCfgOf c)) (Ft S : Nat) (params : Array ℝ) (B : Nat)
    (hv : CubicParamsValid e c Ft S params B) :
    ElRevRel (Near e (cubicCfgOf c)) (NF.realX e) c Ft S params B := by
  obtain ⟨hk1, hk2⟩ := cubic_kind_ne hk
  intro b t s yi xv l al hb ht' hs hf
  rw [couplingEl_spline (NF.realX e) c S params true hk1 hk2] at hf
  rw [couplingEl_spline (NF.realX e) c S params false hk1 hk2]
  obtain ⟨y', h, hn⟩ := cubic_real_rev_approx hk ht _ (hv b t s hb ht' hs) hc hf
  exact ⟨y', [], h, Or.inr hn⟩

/-- **C02 for the executed bounded cubic coupling layer with NO exactness hypothesis (forward ∘ inverse).**  Accepted
    slices, any `y` whose transformed entries lie in `[bottom, top]`: the inverse pass raises nothing and its transformed
    outputs lie in `[left, right]`; the forward pass on them with the same parameters raises nothing, is given the same
    conditioner input, returns EXACTLY the negated row log-dets, and every entry of its output equals the corresponding
    entry of `y` or differs from it by less than `quadratic_threshold · (top − bottom)`. -/
theorem coupling_cubic_rev_approx_real (hk : c.kind = "cubic") (ht : c.tails = false)
    (hc : CubicInverseWhole.InvConsts e (cubicCfgOf c))
    (mask : List ℝ) (B S : Nat) (y params uparams uparams' : Array ℝ)
    (hv : CubicParamsValid e c (transformIdx (NF.realX e) mask).length S params B)
    (hbox : TransformedInBox e mask B S y (e (cubicCfgOf c).box.bottom) (e (cubicCfgOf c).box.top))
    (hsz : B * mask.length * S ≤ y.size) :
    let inv := couplingApply (NF.realX e) c mask B S y params true none uparams
    let fwd := couplingApply (NF.realX e) c mask B S inv.out params false none uparams'
    inv.err = none ∧ TransformedInBox e mask B S inv.out (e (cubicCfgOf c).box.left) (e (cubicCfgOf c).box.right)
      ∧ fwd.err = none ∧ (∀ j, Near e (cubicCfgOf c) (fwd.out.getD j 0) (y.getD j 0)) ∧ fwd.condIn = inv.condIn
      ∧ ∀ b, b < B → fwd.ld[b]? = (inv.ld[b]?).map (fun l => -l) := by
  intro inv fwd
  obtain ⟨h1, h2⟩ := (coupling_cubic_err_none hk ht mask B S y params uparams hv hsz).2 hbox
  obtain ⟨h3, h4, h5, h6⟩ := coupling_forward_inverse_rel_real e c mask B S y params uparams uparams'
    (Near e (cubicCfgOf c)) (fun a => Or.inl rfl) (elRevRel_cubic_real hk ht hc _ S params B hv) h1 hsz
  exact ⟨h1, h2, h3, h4, h5, h6⟩

end approx

/-! ## 7. The executed autoregressive transform, bounded cubic family -/

section ar
variable {e : Float → ℝ} {c : ElCfg}

/-- every parameter vector of the `[B, F, 2K+2]` tensor is an accepted bounded cubic configuration -/
def CubicParamsValidAR (e : Float → ℝ) (c : ElCfg) (F : Nat) (params : Array ℝ) (B : Nat) : Prop :=
  ∀ b i, b < B → i < F → SliceValid e c (cubicCfgOf c) (arSlice (NF.realX e) c F params b i)

/-- … and none of their bins takes the approximate quadratic fallback -/
def CubicParamsExactAR (e : Float → ℝ) (c : ElCfg) (F : Nat) (params : Array ℝ) (B : Nat) : Prop :=
  ∀ b i, b < B → i < F →
    SliceValid e c (cubicCfgOf c) (arSlice (NF.realX e) c F params b i) ∧
    SliceExact e c (cubicCfgOf c) (arSlice (NF.realX e) c F params b i)

theorem CubicParamsExactAR.valid {F B : Nat} {params : Array ℝ} (h : CubicParamsExactAR e c F params B) :
    CubicParamsValidAR e c F params B := fun b i hb hi => (h b i hb hi).1

/-- the conditioner returns an accepted configuration for every feature of every row, whatever `[B, F]` array it is fed -/
def CubicNetValid (e : Float → ℝ) (c : ElCfg) (B F : Nat) (net : Array ℝ → Array ℝ) : Prop :=
  ∀ z : Array ℝ, z.size = B * F → CubicParamsValidAR e c F (net z) B

/-- true of the library: validity depends on the configuration and the length `2K + 2` of the vectors only -/
theorem cubicNetValid_of_cfg (hcv : CubicCfgValid e c) (B F : Nat) (net : Array ℝ → Array ℝ) :
    CubicNetValid e c B F net := by
  intro z _ b i _ _
  exact sliceValid_of_length hcv.hK hcv.hv _ (by rw [arSlice_length, pw_cubic hcv.hk])

/-- the per-element hypotheses of the executed autoregressive C02 theorems (both orders) under `CubicParamsExactAR` -/
theorem arElInvertible_cubic_real (hk : c.kind = "cubic") (ht : c.tails = false)
    (hc : CubicInverseWhole.InvConsts e (cubicCfgOf c)) (F : Nat) (params : Array ℝ) (B : Nat)
    (hv : CubicParamsExactAR e c F params B) :
    ArElInvertible (NF.realX e) c F params B ∧ ArElInvertibleRev (NF.realX e) c F params B := by
  constructor
  · intro b i xi y l al hb hi hf
    obtain ⟨al', h, _⟩ := cubic_real_invertible_all hk ht _ (hv b i hb hi).1 hc (hv b i hb hi).2 hf
    exact ⟨al', h⟩
  · intro b i yi x l al hb hi hf
    exact ⟨[], cubic_real_invertible_rev_all hk ht _ (hv b i hb hi).1 hc (hv b i hb hi).2 hf⟩

/-- **C17**: the forward pass raises nothing on inputs in `[left, right]`, its outputs lie in `[bottom, top]` -/
theorem ar_cubic_forward_ok (hk : c.kind = "cubic") (ht : c.tails = false) (B F : Nat)
    (net : Array ℝ → Array ℝ) (x : Array ℝ) (hv : CubicParamsValidAR e c F (net x) B)
    (hbox : InBox (e (cubicCfgOf c).box.left) (e (cubicCfgOf c).box.right) B F x) :
    (arForward (NF.realX e) c B F net x).err = none
      ∧ InBox (e (cubicCfgOf c).box.bottom) (e (cubicCfgOf c).box.top) B F (arForward (NF.realX e) c B F net x).out := by
  have hel : ∀ b i, b < B → i < F → ∃ y l, arEl (NF.realX e) c F x (net x) false b i = .ok (y, l, [])
      ∧ e (cubicCfgOf c).box.bottom ≤ y ∧ y ≤ e (cubicCfgOf c).box.top := by
    intro b i hb hi
    obtain ⟨h0, h1⟩ := hbox (b * F + i) (idx_lt hb hi)
    rw [arEl_eq, realX_zero]
    exact (cubic_el_total hk ht _ (hv b i hb hi) _).1 h0 h1
  constructor
  · rw [arForward, arApply, elemwise_err_none]
    intro b i hb hi
    obtain ⟨y, l, h, _⟩ := hel b i hb hi
    exact ⟨_, h⟩
  · intro j hj
    have hF : 0 < F := by
      rcases Nat.eq_zero_or_pos F with h | h
      · subst h; simp at hj
      · exact h
    have hb : j / F < B := (Nat.div_lt_iff_lt_mul hF).2 hj
    have hi : j % F < F := Nat.mod_lt _ hF
    have hji : j = (j / F) * F + j % F := by rw [Nat.mul_comm]; exact (Nat.div_add_mod j F).symm
    obtain ⟨y, l, h, h0, h1⟩ := hel _ _ hb hi
    have : (arForward (NF.realX e) c B F net x).out.getD j 0 = y := by
      rw [hji, Array.getD_eq_getD_getElem?, arForward, arApply, elemwise_out_getElem? _ B F _ hb hi, h]
      rfl
    rw [this]
    exact ⟨h0, h1⟩

/-- **C17**: every pass of the inverse loop succeeds on inputs in `[bottom, top]` -/
theorem ar_cubic_inverse_err_none (hk : c.kind = "cubic") (ht : c.tails = false) (B F : Nat)
    (net : Array ℝ → Array ℝ) (y : Array ℝ) (hy : y.size = B * F) (hv : CubicNetValid e c B F net)
    (hbox : InBox (e (cubicCfgOf c).box.bottom) (e (cubicCfgOf c).box.top) B F y) :
    (arInverse (NF.realX e) c B F net y).err = none := by
  apply ar_inverse_err_none _ c B F net y hy
  intro z hz b i hb hi
  obtain ⟨h0, h1⟩ := hbox (b * F + i) (idx_lt hb hi)
  rw [realX_zero]
  obtain ⟨x, l, al, h, _⟩ := (cubic_el_total hk ht _ (hv z hz b i hb hi) _).2 h0 h1
  exact ⟨_, h⟩

/-- **C02 for the executed masked-autoregressive bounded cubic transform over the reals, inverse ∘ forward.**  Any
    autoregressive conditioner whose outputs are accepted configurations, any input in `[left, right]` at whose
    parameters `net x` all bins are exact: forward raises nothing; the `F`-pass loop raises nothing in any pass, returns
    the input exactly and (for `F ≥ 1`) the negated log-det. -/
theorem ar_cubic_roundtrip_real (hk : c.kind = "cubic") (ht : c.tails = false)
    (hc : CubicInverseWhole.InvConsts e (cubicCfgOf c)) (B F : Nat)
    (net : Array ℝ → Array ℝ) (x : Array ℝ) (hnet : AutoregNet B F (pw c) net) (hv : CubicNetValid e c B F net)
    (hex : CubicParamsExactAR e c F (net x) B)
    (hx : x.size = B * F) (hbox : InBox (e (cubicCfgOf c).box.left) (e (cubicCfgOf c).box.right) B F x) :
    let fwd := arForward (NF.realX e) c B F net x
    let inv := arInverse (NF.realX e) c B F net fwd.out
    fwd.err = none ∧ inv.err = none ∧ inv.out = x
      ∧ (∀ k, AgreeBelow B F k (arIter (NF.realX e) c B F net fwd.out k).out x)
      ∧ (0 < F → ∀ b, b < B → inv.ld[b]? = (fwd.ld[b]?).map (fun l => -l)) := by
  intro fwd inv
  obtain ⟨h1, h2⟩ := ar_cubic_forward_ok hk ht B F net x (hv x hx) hbox
  obtain ⟨h3, h4, _, h5⟩ := ar_inverse_forward_real e c B F net x hnet
    (arElInvertible_cubic_real hk ht hc F (net x) B hex).1 h1 hx
  exact ⟨h1, ar_cubic_inverse_err_none hk ht B F net _ (arApply_out_size ..) hv h2, h3, h4, h5⟩

/-- the other order: any `y` in `[bottom, top]` such that all bins are exact at the parameters of the loop's result -/
theorem ar_cubic_roundtrip_rev_real (hk : c.kind = "cubic") (ht : c.tails = false)
    (hc : CubicInverseWhole.InvConsts e (cubicCfgOf c)) (B F : Nat)
    (net : Array ℝ → Array ℝ) (y : Array ℝ) (hnet : AutoregNet B F (pw c) net) (hv : CubicNetValid e c B F net)
    (hy : y.size = B * F) (hbox : InBox (e (cubicCfgOf c).box.bottom) (e (cubicCfgOf c).box.top) B F y)
    (hex : CubicParamsExactAR e c F (net (arInverse (NF.realX e) c B F net y).out) B) :
    let inv := arInverse (NF.realX e) c B F net y
    let fwd := arForward (NF.realX e) c B F net inv.out
    inv.err = none ∧ fwd.err = none ∧ fwd.out = y
      ∧ (0 < F → ∀ b, b < B → fwd.ld[b]? = (inv.ld[b]?).map (fun l => -l)) := by
  intro inv fwd
  have h1 := ar_cubic_inverse_err_none hk ht B F net y hy hv hbox
  obtain ⟨h2, h3, h4⟩ := ar_forward_inverse_real e c B F net y hnet hy h1
    (arElInvertible_cubic_real hk ht hc F _ B hex).2
  exact ⟨h1, h3, h2, h4⟩

section made
open NF.Made

/-- **the masked autoregressive bounded cubic transform with the MADE conditioner.**  Every architecture accepted by
    `build` with multiplier `2K + 2`, every weight assignment, every `B`: for every input in `[left, right]` at whose
    parameters all bins are exact — forward raises nothing, no pass of the inverse loop raises, the loop returns the
    input exactly and the negated log-det; and in the other order for every `y` in `[bottom, top]` with exact bins at the
    loop's result. -/
theorem made_cubic_roundtrip_real (hcv : CubicCfgValid e c) (a : Arch) (n : Net)
    (hbuild : build a = .ok n) (hmult : a.mult = 2 * c.K + 2) (W : ℕ → ℕ → ℕ → ℝ) (bias : ℕ → ℕ → ℝ) (B : Nat)
    (ctxv : ℕ → ℕ → Fin B → ℝ) (g : ℕ → Slot → ℕ → (Fin B → ℝ) → Fin B → ℝ) :
    let net := madeNet n W bias B ctxv g
    (∀ x : Array ℝ, x.size = B * a.F → InBox (e (cubicCfgOf c).box.left) (e (cubicCfgOf c).box.right) B a.F x →
      CubicParamsExactAR e c a.F (net x) B →
      let fwd := arForward (NF.realX e) c B a.F net x
      let inv := arInverse (NF.realX e) c B a.F net fwd.out
      fwd.err = none ∧ inv.err = none ∧ inv.out = x
        ∧ (∀ k, AgreeBelow B a.F k (arIter (NF.realX e) c B a.F net fwd.out k).out x)
        ∧ (∀ b, b < B → inv.ld[b]? = (fwd.ld[b]?).map (fun l => -l)))
    ∧ (∀ y : Array ℝ, y.size = B * a.F → InBox (e (cubicCfgOf c).box.bottom) (e (cubicCfgOf c).box.top) B a.F y →
      CubicParamsExactAR e c a.F (net (arInverse (NF.realX e) c B a.F net y).out) B →
      let inv := arInverse (NF.realX e) c B a.F net y
      let fwd := arForward (NF.realX e) c B a.F net inv.out
      inv.err = none ∧ fwd.err = none ∧ fwd.out = y
        ∧ (∀ b, b < B → fwd.ld[b]? = (inv.ld[b]?).map (fun l => -l))) := by
  obtain ⟨hv, hF, hm, hFa, hma⟩ := build_valid hbuild
  have hnet : AutoregNet B a.F (pw c) (madeNet n W bias B ctxv g) := by
    rw [pw_cubic hcv.hk, ← hmult, ← hma, ← hFa]; exact madeNet_autoreg n hv hm W bias B ctxv g
  have hval := cubicNetValid_of_cfg hcv B a.F (madeNet n W bias B ctxv g)
  intro net
  constructor
  · intro x hx hbox hex
    obtain ⟨h1, h2, h3, h4, h5⟩ := ar_cubic_roundtrip_real hcv.hk hcv.ht hcv.hc B a.F _ x hnet hval hex hx hbox
    exact ⟨h1, h2, h3, h4, h5 (by omega)⟩
  · intro y hy hbox hex
    obtain ⟨h1, h2, h3, h4⟩ := ar_cubic_roundtrip_rev_real hcv.hk hcv.ht hcv.hc B a.F _ y hnet hval hy hbox hex
    exact ⟨h1, h2, h3, h4 (by omega)⟩

end made
end ar

section arbox
variable {e : Float → ℝ} {c : ElCfg}

/-- **C17**: the result of the inverse loop on inputs in `[bottom, top]` lies in `[left, right]` (no exactness hypothesis) -/
theorem ar_cubic_inverse_out_box (hk : c.kind = "cubic") (ht : c.tails = false) (B F : Nat)
    (net : Array ℝ → Array ℝ) (y : Array ℝ) (hy : y.size = B * F) (hv : CubicNetValid e c B F net)
    (hbox : InBox (e (cubicCfgOf c).box.bottom) (e (cubicCfgOf c).box.top) B F y) :
    InBox (e (cubicCfgOf c).box.left) (e (cubicCfgOf c).box.right) B F (arInverse (NF.realX e) c B F net y).out := by
  intro j hj
  have hF : 0 < F := by
    rcases Nat.eq_zero_or_pos F with h | h
    · subst h; simp at hj
    · exact h
  obtain ⟨k, rfl⟩ : ∃ k, F = k + 1 := ⟨F - 1, by omega⟩
  have hb : j / (k + 1) < B := (Nat.div_lt_iff_lt_mul hF).2 hj
  have hi : j % (k + 1) < k + 1 := Nat.mod_lt _ hF
  have hji : j = (j / (k + 1)) * (k + 1) + j % (k + 1) := by rw [Nat.mul_comm]; exact (Nat.div_add_mod j (k + 1)).symm
  obtain ⟨h0, h1⟩ := hbox (j / (k + 1) * (k + 1) + j % (k + 1)) (idx_lt hb hi)
  have hz := arIter_out_size (NF.realX e) c B (k + 1) net y hy k
  obtain ⟨x, l, al, h, m0, m1⟩ := (cubic_el_total hk ht _ (hv _ hz _ _ hb hi) _).2 h0 h1
  have : (arInverse (NF.realX e) c B (k + 1) net y).out.getD j 0 = x := by
    rw [hji, Array.getD_eq_getD_getElem?, arInverse_eq_iter, arIter_succ, arPass_out, arApply,
      elemwise_out_getElem? _ B (k + 1) _ hb hi, arEl_eq, realX_zero, h]
    rfl
  rw [this]
  exact ⟨m0, m1⟩

end arbox

/-! ## 8. forward ∘ inverse of the executed autoregressive transform up to a relation (generic), and the bounded cubic
family WITHOUT the exactness hypothesis -/

section arrel
variable {α : Type} (o : XOps α) (c : ElCfg) (B F : Nat) (net : Array α → Array α) (y : Array α)

/-- per element: whenever the inverse element map succeeds with `(x, l)`, the forward one succeeds at `x` with log-det
    EXACTLY `-l` and a value `R`-related to the inverse map's input -/
def ArElRevRel (R : α → α → Prop) (o : XOps α) (c : ElCfg) (F : Nat) (params : Array α) (B : Nat) : Prop :=
  ∀ b i yi x l al, b < B → i < F →
    elTransform o c true (arSlice o c F params b i) yi = .ok (x, l, al) →
    ∃ y' al', elTransform o c false (arSlice o c F params b i) x = .ok (y', o.neg l, al') ∧ R y' yi

theorem ar_forward_inverse_rel (R : α → α → Prop) (hnet : AutoregNet B F (pw c) net) (hy : y.size = B * F)
    (herr : (arInverse o c B F net y).err = none)
    (hinv : ArElRevRel R o c F (net (arInverse o c B F net y).out) B) :
    (arForward o c B F net (arInverse o c B F net y).out).err = none
      ∧ (∀ j, j < B * F → R ((arForward o c B F net (arInverse o c B F net y).out).out.getD j o.zero) (y.getD j o.zero))
      ∧ (0 < F → ∀ b, b < B →
          (arForward o c B F net (arInverse o c B F net y).out).ld[b]?
            = some ((List.range F).foldl (fun acc i => o.add acc
                (o.neg (ldOf o (arEl o c F y (net (arIter o c B F net y (F - 1)).out) true b i)))) o.zero)) := by
  have hel : ∀ b i, b < B → i < F → ∃ y' l al', arEl o c F (arInverse o c B F net y).out
      (net (arInverse o c B F net y).out) false b i = .ok (y', o.neg l, al') ∧ R y' (y.getD (b * F + i) o.zero)
      ∧ ldOf o (arEl o c F y (net (arIter o c B F net y (F - 1)).out) true b i) = l := by
    intro b i hb hi
    obtain ⟨l, al, h1, h2⟩ := ar_inverse_el o c B F net y hnet hy herr hb hi
    obtain ⟨y', al', h3, h4⟩ := hinv b i _ _ l al hb hi h1
    exact ⟨y', l, al', by rw [arEl_eq]; exact h3, h4, h2⟩
  refine ⟨?_, ?_, ?_⟩
  · rw [arForward, arApply, elemwise_err_none]
    intro b i hb hi
    obtain ⟨y', l, al', h, _⟩ := hel b i hb hi
    exact ⟨_, h⟩
  · intro j hj
    have hF : 0 < F := by
      rcases Nat.eq_zero_or_pos F with h | h
      · subst h; simp at hj
      · exact h
    have hb : j / F < B := (Nat.div_lt_iff_lt_mul hF).2 hj
    have hi : j % F < F := Nat.mod_lt _ hF
    have hji : j = (j / F) * F + j % F := by rw [Nat.mul_comm]; exact (Nat.div_add_mod j F).symm
    obtain ⟨y', l, al', h, hR, _⟩ := hel _ _ hb hi
    rw [hji, Array.getD_eq_getD_getElem?, arForward, arApply, elemwise_out_getElem? o B F _ hb hi, h]
    exact hR
  · intro hF b hb
    rw [arForward, ar_ld_getElem? o c B F _ _ false hb]
    congr 1
    apply List.foldl_ext
    intro acc i hi
    have hi' := List.mem_range.1 hi
    obtain ⟨y', l, al', h, _, h2⟩ := hel b i hb hi'
    rw [h, h2]
    rfl

end arrel

section arapprox
variable {e : Float → ℝ} {c : ElCfg}

/-- **C02 for the executed autoregressive bounded cubic transform with NO exactness hypothesis (forward ∘ inverse).**
    Any autoregressive conditioner whose outputs are accepted configurations, any `y` in `[bottom, top]`: no pass of the
    `F`-pass loop raises; the forward pass on the loop's result raises nothing, returns EXACTLY the negated row log-dets
    (for `F ≥ 1`), and every entry of its output is within `quadratic_threshold · (top − bottom)` of that of `y`. -/
theorem ar_cubic_rev_approx_real (hk : c.kind = "cubic") (ht : c.tails = false)
    (hc : CubicInverseWhole.InvConsts e (cubicCfgOf c)) (B F : Nat)
    (net : Array ℝ → Array ℝ) (y : Array ℝ) (hnet : AutoregNet B F (pw c) net) (hv : CubicNetValid e c B F net)
    (hy : y.size = B * F) (hbox : InBox (e (cubicCfgOf c).box.bottom) (e (cubicCfgOf c).box.top) B F y) :
    let inv := arInverse (NF.realX e) c B F net y
    let fwd := arForward (NF.realX e) c B F net inv.out
    inv.err = none ∧ fwd.err = none
      ∧ (∀ j, j < B * F → |fwd.out.getD j 0 - y.getD j 0|
            < e (cubicCfgOf c).thr * (e (cubicCfgOf c).box.top - e (cubicCfgOf c).box.bottom))
      ∧ (0 < F → ∀ b, b < B → fwd.ld[b]? = (inv.ld[b]?).map (fun l => -l)) := by
  intro inv fwd
  have h1 := ar_cubic_inverse_err_none hk ht B F net y hy hv hbox
  have hsz : (arInverse (NF.realX e) c B F net y).out.size = B * F := by
    rw [arInverse_eq_iter]; exact arIter_out_size _ c B F net y hy F
  have hinv : ArElRevRel (fun a b => |a - b| < e (cubicCfgOf c).thr * (e (cubicCfgOf c).box.top - e (cubicCfgOf c).box.bottom))
      (NF.realX e) c F (net (arInverse (NF.realX e) c B F net y).out) B := by
    intro b i yi x l al hb hi hf
    obtain ⟨y', h, hn⟩ := cubic_real_rev_approx hk ht _ (hv _ hsz b i hb hi) hc hf
    exact ⟨y', [], h, hn⟩
  obtain ⟨h2, h3, h4⟩ := ar_forward_inverse_rel (NF.realX e) c B F net y _ hnet hy h1 hinv
  refine ⟨h1, h2, fun j hj => by have := h3 j hj; rw [realX_zero] at this; exact this, ?_⟩
  intro hF b hb
  have h5 := h4 hF b hb
  obtain ⟨k, rfl⟩ : ∃ k, F = k + 1 := ⟨F - 1, by omega⟩
  have h6 : (arInverse (NF.realX e) c B (k + 1) net y).ld[b]?
      = some ((List.range (k + 1)).foldl (fun acc i => (NF.realX e).add acc
            (ldOf (NF.realX e) (arEl (NF.realX e) c (k + 1) y (net (arIter (NF.realX e) c B (k + 1) net y (k + 1 - 1)).out) true b i)))
              (NF.realX e).zero) := by
    rw [arInverse_eq_iter, arIter_succ, arPass_ld, ar_ld_getElem? (NF.realX e) c B (k + 1) _ _ true hb]
    rfl
  show (arForward (NF.realX e) c B (k + 1) net (arInverse (NF.realX e) c B (k + 1) net y).out).ld[b]?
    = ((arInverse (NF.realX e) c B (k + 1) net y).ld[b]?).map _
  rw [h5, h6, foldl_neg_real]
  rfl

end arapprox

/-! ## 9. The executed cubic spline with linear tails, INVERSE direction, on the whole real line

`TailsWhole.cubicTails` is the text of the tails branch of `elTransform` for kind `"cubic"` (`elTransform_cubic_tails`);
`TailsWhole.cubicValT` / `cubicLdT` are its forward outputs, `cubic_tails_whole` the forward C09 statement. -/

section tailsInv
open TailsWhole
variable (e : Float → ℝ) (tb minW minH eps thr : Float) (uw uh : List ℝ) (udl udr : ℝ)

/-- the three outputs of the cubic tails program, inverse direction (0 / [] on the error branch, never taken) -/
noncomputable def cubicInvT (y : ℝ) : ℝ :=
  match cubicTails (NF.realX e) tb minW minH eps thr uw uh udl udr true y with
  | .ok r => r.1
  | .error _ => 0
noncomputable def cubicInvLdT (y : ℝ) : ℝ :=
  match cubicTails (NF.realX e) tb minW minH eps thr uw uh udl udr true y with
  | .ok r => r.2.1
  | .error _ => 0
noncomputable def cubicInvAltsT (y : ℝ) : List ℝ :=
  match cubicTails (NF.realX e) tb minW minH eps thr uw uh udl udr true y with
  | .ok r => r.2.2
  | .error _ => []

local notation "CC" => ccfgT tb minW minH eps thr
local notation "CV" => cubicValT e tb minW minH eps thr uw uh udl udr
local notation "CL" => cubicLdT e tb minW minH eps thr uw uh udl udr
local notation "IV" => cubicInvT e tb minW minH eps thr uw uh udl udr
local notation "IL" => cubicInvLdT e tb minW minH eps thr uw uh udl udr
local notation "IA" => cubicInvAltsT e tb minW minH eps thr uw uh udl udr

theorem cubicInvT_eq_ext : IV = ext (e tb) (CubicInverseWhole.inv e CC uw uh udl udr) := by
  funext x
  unfold cubicInvT ext CubicInverseWhole.inv
  rw [cubicTails_unfold]
  by_cases h : -e tb ≤ x ∧ x ≤ e tb
  · rw [if_pos h, if_pos h]; rfl
  · rw [if_neg h, if_neg h]

theorem cubicInvLdT_eq (y : ℝ) :
    IL y = if -e tb ≤ y ∧ y ≤ e tb then CubicInverseWhole.invLd e CC uw uh udl udr y else 0 := by
  unfold cubicInvLdT CubicInverseWhole.invLd
  rw [cubicTails_unfold]
  by_cases h : -e tb ≤ y ∧ y ≤ e tb
  · rw [if_pos h, if_pos h]; rfl
  · rw [if_neg h, if_neg h]

variable {e tb minW minH eps thr uw uh udl udr}

/-- **C17 on the whole line, inverse direction**: the program returns a value at EVERY real input -/
theorem cubic_tails_inv_total (hv : CubicValid e CC uw uh) (hneg : e (-tb) = - e tb) (y : ℝ) :
    cubicTails (NF.realX e) tb minW minH eps thr uw uh udl udr true y = .ok (IV y, IL y, IA y) := by
  by_cases h : -e tb ≤ y ∧ y ≤ e tb
  · have hy0 : e (-tb) ≤ y := by rw [hneg]; exact h.1
    have := CubicInverseWhole.exec_eq_core (udl := udl) (udr := udr) hv y hy0 h.2
    unfold cubicInvT cubicInvLdT cubicInvAltsT; rw [cubicTails_unfold, if_pos h, this]
  · unfold cubicInvT cubicInvLdT cubicInvAltsT; rw [cubicTails_unfold, if_neg h]

/-- **identity outside `[-B, B]`**, log-abs-det 0, no alternatives -/
theorem cubic_inv_outside (y : ℝ) (h : y < -e tb ∨ e tb < y) : IV y = y ∧ IL y = 0 ∧ IA y = [] := by
  have hn : ¬ (-e tb ≤ y ∧ y ≤ e tb) := by rintro ⟨h0, h1⟩; rcases h with h | h <;> linarith
  refine ⟨?_, ?_, ?_⟩
  · rw [cubicInvT_eq_ext]; exact ext_outside y h
  · rw [cubicInvLdT_eq, if_neg hn]
  · unfold cubicInvAltsT; rw [cubicTails_unfold, if_neg hn]

theorem cubic_inv_inside (y : ℝ) (h0 : -e tb ≤ y) (h1 : y ≤ e tb) :
    IV y = CubicInverseWhole.inv e CC uw uh udl udr y ∧ IL y = CubicInverseWhole.invLd e CC uw uh udl udr y := by
  constructor
  · rw [cubicInvT_eq_ext]; exact ext_inside y h0 h1
  · rw [cubicInvLdT_eq, if_pos ⟨h0, h1⟩]

/-- inputs in the box have outputs in the box — no exactness hypothesis (the two clamps) -/
theorem cubic_inv_mem_box (hv : CubicValid e CC uw uh) (hneg : e (-tb) = - e tb) (y : ℝ) (h0 : -e tb ≤ y) (h1 : y ≤ e tb) :
    -e tb ≤ IV y ∧ IV y ≤ e tb := by
  have hy0 : e (-tb) ≤ y := by rw [hneg]; exact h0
  have hm : e (-tb) ≤ CubicInverseWhole.inv e CC uw uh udl udr y ∧ CubicInverseWhole.inv e CC uw uh udl udr y ≤ e tb :=
    CubicInverseWhole.inv_mem (udl := udl) (udr := udr) hv y hy0 h1
  rw [hneg] at hm
  rw [(cubic_inv_inside y h0 h1).1]
  exact hm

/-- **C02 on the whole line, the log-abs-det law, UNCONDITIONALLY** (no exactness hypothesis, no hypothesis on the
    constants of the root formulas): at every real `y` the inverse program's log-abs-det is minus the forward program's
    log-abs-det at the inverse program's output -/
theorem cubic_tails_ld_law (hv : CubicValid e CC uw uh) (hneg : e (-tb) = - e tb) (y : ℝ) : IL y = - CL (IV y) := by
  by_cases h : -e tb ≤ y ∧ y ≤ e tb
  · obtain ⟨m0, m1⟩ := cubic_inv_mem_box (udl := udl) (udr := udr) hv hneg y h.1 h.2
    have hy0 : e (-tb) ≤ y := by rw [hneg]; exact h.1
    rw [(cubic_inside (IV y) m0 m1).2, (cubic_inv_inside y h.1 h.2).2, (cubic_inv_inside y h.1 h.2).1]
    exact CubicInverseWhole.invLd_eq_neg_ld_always (udl := udl) (udr := udr) hv y hy0 h.2
  · have ho : y < -e tb ∨ e tb < y := by
      by_contra hc
      exact h ⟨not_lt.mp (fun h' => hc (Or.inl h')), not_lt.mp (fun h' => hc (Or.inr h'))⟩
    obtain ⟨h1, h2, _⟩ := cubic_inv_outside (uw := uw) (uh := uh) (udl := udl) (udr := udr) (minW := minW) (minH := minH)
      (eps := eps) (thr := thr) y ho
    rw [h1, h2, (cubic_outside y ho).2, neg_zero]

/-- **C02 on the whole line WITHOUT exactness**: `|forward(inverse y) − y| < quadratic_threshold · 2B` at every real `y`
    (and `= 0` outside the box) -/
theorem cubic_tails_val_inv_approx (hv : CubicValid e CC uw uh) (hc : CubicInverseWhole.InvConsts e CC)
    (hneg : e (-tb) = - e tb) (y : ℝ) : |CV (IV y) - y| < e thr * (e tb - -e tb) := by
  by_cases h : -e tb ≤ y ∧ y ≤ e tb
  · obtain ⟨m0, m1⟩ := cubic_inv_mem_box (udl := udl) (udr := udr) hv hneg y h.1 h.2
    have hy0 : e (-tb) ≤ y := by rw [hneg]; exact h.1
    rw [(cubic_inside (IV y) m0 m1).1, (cubic_inv_inside y h.1 h.2).1]
    have := (CubicInverseWhole.val_inv_approx (udl := udl) (udr := udr) hv hc y hy0 h.2).2
    have hb : e (CC).box.bottom = - e tb := hneg
    rw [hb] at this
    exact this
  · have ho : y < -e tb ∨ e tb < y := by
      by_contra hc
      exact h ⟨not_lt.mp (fun h' => hc (Or.inl h')), not_lt.mp (fun h' => hc (Or.inr h'))⟩
    obtain ⟨h1, _, _⟩ := cubic_inv_outside (uw := uw) (uh := uh) (udl := udl) (udr := udr) (minW := minW) (minH := minH)
      (eps := eps) (thr := thr) y ho
    rw [h1, (cubic_outside y ho).1, sub_self, abs_zero]
    have hB := cubic_hB hv hneg
    have : 0 < e thr := hc.hthr
    exact mul_pos this (by linarith)

/-- continuity at a junction needs only the exactness of the END bin: `inverse(−B) = −B` if the bin `−B` falls into
    is exact, `inverse(B) = B` if the bin `B` falls into is exact -/
theorem cubic_tails_inv_junctions (hv : CubicValid e CC uw uh) (hc : CubicInverseWhole.InvConsts e CC)
    (hneg : e (-tb) = - e tb) :
    (CubicInverseWhole.ExactBin e CC uw uh udl udr (binOf e CC uh (e (-tb))) → IV (-e tb) = -e tb) ∧
    (CubicInverseWhole.ExactBin e CC uw uh udl udr (binOf e CC uh (e tb)) → IV (e tb) = e tb) := by
  have hB := cubic_hB hv hneg
  obtain ⟨hl, hr⟩ := val_endpoints (udl := udl) (udr := udr) hv
  have hlr : e (CC).box.left ≤ e (CC).box.right := hv.hlr.le
  constructor
  · intro hex
    rw [(cubic_inv_inside (-e tb) le_rfl (by linarith)).1]
    have hex' : CubicInverseWhole.ExactBin e CC uw uh udl udr
        (CubicInverseWhole.idxH e (CC) uh (nval e (CC) uw uh udl udr (xn e (CC) (e (CC).box.left)))) := by
      rw [← CubicInverseWhole.yn_val hv _ le_rfl hlr, hl]; exact hex
    have := CubicInverseWhole.inv_val hv hc (e (CC).box.left) le_rfl hlr hex'
    rw [hl] at this
    have hb : e (CC).box.bottom = - e tb := hneg
    have hb' : e (CC).box.left = - e tb := hneg
    rw [hb, hb'] at this
    exact this
  · intro hex
    rw [(cubic_inv_inside (e tb) (by linarith) le_rfl).1]
    have hex' : CubicInverseWhole.ExactBin e CC uw uh udl udr
        (CubicInverseWhole.idxH e (CC) uh (nval e (CC) uw uh udl udr (xn e (CC) (e (CC).box.right)))) := by
      rw [← CubicInverseWhole.yn_val hv _ hlr le_rfl, hr]; exact hex
    have := CubicInverseWhole.inv_val hv hc (e (CC).box.right) hlr le_rfl hex'
    rw [hr] at this
    exact this

/-- under `AllExact` the executed bounded inverse program is a strictly increasing bijection of `[-B, B]` fixing both
    end-points -/
theorem cubic_inv_boxBij (hv : CubicValid e CC uw uh) (hc : CubicInverseWhole.InvConsts e CC)
    (hall : CubicInverseWhole.AllExact e CC uw uh udl udr) (hneg : e (-tb) = - e tb) :
    BoxBij (e tb) (CubicInverseWhole.inv e CC uw uh udl udr) := by
  have hm : StrictMonoOn (CubicInverseWhole.inv e CC uw uh udl udr) (Set.Icc (e (-tb)) (e tb)) :=
    CubicInverseWhole.inv_strictMonoOn hv hc hall
  have he : CubicInverseWhole.inv e CC uw uh udl udr (e (-tb)) = e (-tb)
      ∧ CubicInverseWhole.inv e CC uw uh udl udr (e tb) = e tb := CubicInverseWhole.inv_endpoints hv hc hall
  have hs : Set.SurjOn (CubicInverseWhole.inv e CC uw uh udl udr) (Set.Icc (e (-tb)) (e tb)) (Set.Icc (e (-tb)) (e tb)) :=
    (CubicInverseWhole.inv_bijOn hv hc hall).surjOn
  rw [hneg] at hm he hs
  exact ⟨cubic_hB hv hneg, hm, he.1, he.2, hs⟩

/-- **C09 on the whole line, inverse direction, under `AllExact`**: no jump at the junctions, strictly increasing,
    continuous, a bijection of ℝ mapping the box onto itself -/
theorem cubic_tails_inv_whole (hv : CubicValid e CC uw uh) (hc : CubicInverseWhole.InvConsts e CC)
    (hall : CubicInverseWhole.AllExact e CC uw uh udl udr) (hneg : e (-tb) = - e tb) :
    IV (-e tb) = -e tb ∧ IV (e tb) = e tb ∧ StrictMono IV ∧ Continuous IV ∧ Function.Bijective IV ∧
    Set.BijOn IV (Set.Icc (-e tb) (e tb)) (Set.Icc (-e tb) (e tb)) := by
  have hb := cubic_inv_boxBij hv hc hall hneg
  rw [cubicInvT_eq_ext]
  exact ⟨ext_left hb, ext_right hb, ext_strictMono hb, ext_continuous hb, ext_bijective hb, ext_bijOn_box hb⟩

/-- **C02 on the whole line under `AllExact`: both round trips at EVERY real input** -/
theorem cubic_tails_round_trips (hv : CubicValid e CC uw uh) (hc : CubicInverseWhole.InvConsts e CC)
    (hall : CubicInverseWhole.AllExact e CC uw uh udl udr) (hneg : e (-tb) = - e tb) :
    (∀ x, IV (CV x) = x) ∧ (∀ y, CV (IV y) = y) := by
  have hb := cubic_inv_boxBij hv hc hall hneg
  have hf := cubic_boxBij (udl := udl) (udr := udr) hv hneg
  rw [cubicInvT_eq_ext, cubicValT_eq_ext]
  constructor
  · intro x
    refine ext_ext_cancel hf (fun x h0 h1 => ?_) x
    exact CubicInverseWhole.inv_val_all hv hc hall x (by show e (-tb) ≤ x; rw [hneg]; exact h0) h1
  · intro y
    refine ext_ext_cancel hb (fun y h0 h1 => ?_) y
    exact CubicInverseWhole.val_inv_all hv hc hall y (by show e (-tb) ≤ y; rw [hneg]; exact h0) h1

end tailsInv

/-! ## 10. The cubic family with linear tails as the dispatcher runs it: one element, coupling layer, autoregressive -/

section tailsLayers
open TailsWhole
variable {e : Float → ℝ} {c : ElCfg}

/-- the spline configuration `elTransform` builds for the cubic family with linear tails: the box `[-B, B]²` -/
def cubicCfgOfT (c : ElCfg) : CCfg :=
  ccfgT (c.ds.getD 0 0.0) (c.ds.getD 1 0.0) (c.ds.getD 2 0.0) (c.ds.getD 3 0.0) (c.ds.getD 4 0.0)

/-- an accepted cubic-with-tails element configuration: `K ≥ 1` bins, the constants accepted for (one, hence every)
    parameter vector with `K` widths and `K` heights, the literals of the root formulas read exactly, and the `Float`
    negation of the tail bound read as the real negation -/
structure CubicTailsCfgValid (e : Float → ℝ) (c : ElCfg) : Prop where
  hk : c.kind = "cubic"
  ht : c.tails = true
  hK : 0 < c.K
  hv : CubicValid e (cubicCfgOfT c) (List.replicate c.K 0) (List.replicate c.K 0)
  hc : CubicInverseWhole.InvConsts e (cubicCfgOfT c)
  hneg : e (-(c.ds.getD 0 0.0)) = - e (c.ds.getD 0 0.0)

/-- the forward / inverse outputs of the element with parameter vector `p`, as real functions on ℝ -/
noncomputable def elV (e : Float → ℝ) (c : ElCfg) (p : List ℝ) : ℝ → ℝ :=
  cubicValT e (c.ds.getD 0 0.0) (c.ds.getD 1 0.0) (c.ds.getD 2 0.0) (c.ds.getD 3 0.0) (c.ds.getD 4 0.0)
    (rqW (NF.realX e) c p) (rqH (NF.realX e) c p) (cubicL (NF.realX e) c p) (cubicR (NF.realX e) c p)
noncomputable def elL (e : Float → ℝ) (c : ElCfg) (p : List ℝ) : ℝ → ℝ :=
  cubicLdT e (c.ds.getD 0 0.0) (c.ds.getD 1 0.0) (c.ds.getD 2 0.0) (c.ds.getD 3 0.0) (c.ds.getD 4 0.0)
    (rqW (NF.realX e) c p) (rqH (NF.realX e) c p) (cubicL (NF.realX e) c p) (cubicR (NF.realX e) c p)
noncomputable def elIV (e : Float → ℝ) (c : ElCfg) (p : List ℝ) : ℝ → ℝ :=
  cubicInvT e (c.ds.getD 0 0.0) (c.ds.getD 1 0.0) (c.ds.getD 2 0.0) (c.ds.getD 3 0.0) (c.ds.getD 4 0.0)
    (rqW (NF.realX e) c p) (rqH (NF.realX e) c p) (cubicL (NF.realX e) c p) (cubicR (NF.realX e) c p)
noncomputable def elIL (e : Float → ℝ) (c : ElCfg) (p : List ℝ) : ℝ → ℝ :=
  cubicInvLdT e (c.ds.getD 0 0.0) (c.ds.getD 1 0.0) (c.ds.getD 2 0.0) (c.ds.getD 3 0.0) (c.ds.getD 4 0.0)
    (rqW (NF.realX e) c p) (rqH (NF.realX e) c p) (cubicL (NF.realX e) c p) (cubicR (NF.realX e) c p)
noncomputable def elIA (e : Float → ℝ) (c : ElCfg) (p : List ℝ) : ℝ → List ℝ :=
  cubicInvAltsT e (c.ds.getD 0 0.0) (c.ds.getD 1 0.0) (c.ds.getD 2 0.0) (c.ds.getD 3 0.0) (c.ds.getD 4 0.0)
    (rqW (NF.realX e) c p) (rqH (NF.realX e) c p) (cubicL (NF.realX e) c p) (cubicR (NF.realX e) c p)

/-- **C17 (element, tails)**: on an accepted slice the element returns a value at EVERY real input, both directions -/
theorem cubic_tails_el_total (hk : c.kind = "cubic") (ht : c.tails = true) (p : List ℝ)
    (hv : SliceValid e c (cubicCfgOfT c) p) (hneg : e (-(c.ds.getD 0 0.0)) = - e (c.ds.getD 0 0.0)) (x : ℝ) :
    elTransform (NF.realX e) c false p x = .ok (elV e c p x, elL e c p x, []) ∧
    elTransform (NF.realX e) c true p x = .ok (elIV e c p x, elIL e c p x, elIA e c p x) := by
  rw [elTransform_cubic_tails _ c hk ht, elTransform_cubic_tails _ c hk ht]
  exact ⟨cubic_tails_total hv hneg x, cubic_tails_inv_total hv hneg x⟩

/-- **C02 (element, tails), both orders, on an all-exact slice, at every real input** -/
theorem cubic_tails_real_invertible (hk : c.kind = "cubic") (ht : c.tails = true) (p : List ℝ)
    (hv : SliceValid e c (cubicCfgOfT c) p) (hc : CubicInverseWhole.InvConsts e (cubicCfgOfT c))
    (hall : SliceExact e c (cubicCfgOfT c) p) (hneg : e (-(c.ds.getD 0 0.0)) = - e (c.ds.getD 0 0.0)) {x y l : ℝ}
    {al : List ℝ} :
    (elTransform (NF.realX e) c false p x = .ok (y, l, al) →
      ∃ al', elTransform (NF.realX e) c true p y = .ok (x, -l, al')) ∧
    (elTransform (NF.realX e) c true p y = .ok (x, l, al) →
      elTransform (NF.realX e) c false p x = .ok (y, -l, [])) := by
  obtain ⟨hr1, hr2⟩ := cubic_tails_round_trips hv hc hall hneg
  constructor
  · intro h
    rw [(cubic_tails_el_total hk ht p hv hneg x).1] at h
    simp only [Except.ok.injEq, Prod.mk.injEq] at h
    obtain ⟨hy, hl, _⟩ := h
    refine ⟨elIA e c p y, ?_⟩
    rw [(cubic_tails_el_total hk ht p hv hneg y).2]
    have h1 : elIV e c p y = x := by rw [← hy]; exact hr1 x
    have h2 : elIL e c p y = -l := by
      have := cubic_tails_ld_law (udl := cubicL (NF.realX e) c p) (udr := cubicR (NF.realX e) c p) hv hneg y
      unfold elIL
      rw [this, ← hl]
      congr 2
    rw [h1, h2]
  · intro h
    rw [(cubic_tails_el_total hk ht p hv hneg y).2] at h
    simp only [Except.ok.injEq, Prod.mk.injEq] at h
    obtain ⟨hx, hl, _⟩ := h
    rw [(cubic_tails_el_total hk ht p hv hneg x).1]
    have h1 : elV e c p x = y := by rw [← hx]; exact hr2 y
    have h2 : elL e c p x = -l := by
      have := cubic_tails_ld_law (udl := cubicL (NF.realX e) c p) (udr := cubicR (NF.realX e) c p) hv hneg y
      rw [← hl, ← hx]
      unfold elL elIL elIV
      rw [this, neg_neg]
    rw [h1, h2]

/-- **C02 (element, tails), forward ∘ inverse WITHOUT exactness**: exact negated log-abs-det, value within
    `quadratic_threshold · 2B`, at every real input -/
theorem cubic_tails_real_rev_approx (hk : c.kind = "cubic") (ht : c.tails = true) (p : List ℝ)
    (hv : SliceValid e c (cubicCfgOfT c) p) (hc : CubicInverseWhole.InvConsts e (cubicCfgOfT c))
    (hneg : e (-(c.ds.getD 0 0.0)) = - e (c.ds.getD 0 0.0)) {x y l : ℝ} {al : List ℝ}
    (h : elTransform (NF.realX e) c true p y = .ok (x, l, al)) :
    ∃ y', elTransform (NF.realX e) c false p x = .ok (y', -l, []) ∧
      |y' - y| < e (c.ds.getD 4 0.0) * (e (c.ds.getD 0 0.0) - -e (c.ds.getD 0 0.0)) := by
  rw [(cubic_tails_el_total hk ht p hv hneg y).2] at h
  simp only [Except.ok.injEq, Prod.mk.injEq] at h
  obtain ⟨hx, hl, _⟩ := h
  refine ⟨elV e c p x, ?_, ?_⟩
  · rw [(cubic_tails_el_total hk ht p hv hneg x).1]
    have h2 : elL e c p x = -l := by
      have := cubic_tails_ld_law (udl := cubicL (NF.realX e) c p) (udr := cubicR (NF.realX e) c p) hv hneg y
      rw [← hl, ← hx]
      unfold elL elIL elIV
      rw [this, neg_neg]
    rw [h2]
  · rw [← hx]
    exact cubic_tails_val_inv_approx (udl := cubicL (NF.realX e) c p) (udr := cubicR (NF.realX e) c p) hv hc hneg y

theorem sliceValidT_of_cfg (hcv : CubicTailsCfgValid e c) (p : List ℝ) (hlen : p.length = 2 * c.K + 2) :
    SliceValid e c (cubicCfgOfT c) p := sliceValid_of_length hcv.hK hcv.hv p hlen

/-! ### coupling layer -/

/-- **the parameter-level exactness hypothesis (tails)**: no bin of any parameter slice takes the approximate fallback -/
def CubicTailsParamsExact (e : Float → ℝ) (c : ElCfg) (Ft S : Nat) (params : Array ℝ) (B : Nat) : Prop :=
  ∀ b t s, b < B → t < Ft → s < S → SliceExact e c (cubicCfgOfT c) (condSlice (NF.realX e) c.mult Ft S params b t s)

/-- **C17**: the cubic coupling layer with linear tails never raises, in either direction, whatever the input and the
    parameters -/
theorem coupling_cubic_tails_err_none (hcv : CubicTailsCfgValid e c) (mask : List ℝ) (B S : Nat)
    (x params uparams : Array ℝ) (inverse : Bool) :
    (couplingApply (NF.realX e) c mask B S x params inverse none uparams).err = none := by
  obtain ⟨hk1, hk2⟩ := cubic_kind_ne hcv.hk
  rw [coupling_err_none_iff, ucAll_none, List.nil_append, condAll_eq]
  intro u hu
  obtain ⟨b, t, s, _, _, _, rfl⟩ := (mem_tAll ..).1 hu
  have hv := sliceValidT_of_cfg hcv
    (condSlice (NF.realX e) c.mult (transformIdx (NF.realX e) mask).length S params b t s)
    (by rw [condSlice_length, mult_cubic hcv.hk])
  simp only [condElF]
  rw [couplingEl_spline (NF.realX e) c S params inverse hk1 hk2]
  cases inverse
  · exact ⟨_, (cubic_tails_el_total hcv.hk hcv.ht _ hv hcv.hneg _).1⟩
  · exact ⟨_, (cubic_tails_el_total hcv.hk hcv.ht _ hv hcv.hneg _).2⟩

theorem elInvertible_cubic_tails_real (hcv : CubicTailsCfgValid e c) (Ft S : Nat) (params : Array ℝ) (B : Nat)
    (hex : CubicTailsParamsExact e c Ft S params B) :
    ElInvertible (NF.realX e) c Ft S params B ∧ ElInvertibleRev (NF.realX e) c Ft S params B := by
  obtain ⟨hk1, hk2⟩ := cubic_kind_ne hcv.hk
  constructor
  · intro b t s xi y l al hb ht' hs hf
    rw [couplingEl_spline (NF.realX e) c S params false hk1 hk2] at hf
    rw [couplingEl_spline (NF.realX e) c S params true hk1 hk2]
    have hv := sliceValidT_of_cfg hcv (condSlice (NF.realX e) c.mult Ft S params b t s)
      (by rw [condSlice_length, mult_cubic hcv.hk])
    exact (cubic_tails_real_invertible hcv.hk hcv.ht _ hv hcv.hc (hex b t s hb ht' hs) hcv.hneg).1 hf
  · intro b t s xi y l al hb ht' hs hf
    rw [couplingEl_spline (NF.realX e) c S params true hk1 hk2] at hf
    rw [couplingEl_spline (NF.realX e) c S params false hk1 hk2]
    have hv := sliceValidT_of_cfg hcv (condSlice (NF.realX e) c.mult Ft S params b t s)
      (by rw [condSlice_length, mult_cubic hcv.hk])
    exact ⟨[], (cubic_tails_real_invertible hcv.hk hcv.ht _ hv hcv.hc (hex b t s hb ht' hs) hcv.hneg).2 hf⟩

/-- **C02 (executed cubic coupling layer with linear tails over the reals), both orders, under
    `CubicTailsParamsExact`**: ANY real input array filling the shape — neither pass raises, the second pass returns the
    first pass's input exactly, is given the same conditioner input, and returns the negated row log-dets. -/
theorem coupling_cubic_tails_roundtrip_real (hcv : CubicTailsCfgValid e c)
    (mask : List ℝ) (B S : Nat) (x params uparams uparams' : Array ℝ)
    (hex : CubicTailsParamsExact e c (transformIdx (NF.realX e) mask).length S params B)
    (hsz : B * mask.length * S ≤ x.size) :
    (let fwd := couplingApply (NF.realX e) c mask B S x params false none uparams
     let inv := couplingApply (NF.realX e) c mask B S fwd.out params true none uparams'
     fwd.err = none ∧ inv.out = x ∧ inv.err = none ∧ inv.condIn = fwd.condIn
      ∧ ∀ b, b < B → inv.ld[b]? = (fwd.ld[b]?).map (fun l => -l)) ∧
    (let inv := couplingApply (NF.realX e) c mask B S x params true none uparams
     let fwd := couplingApply (NF.realX e) c mask B S inv.out params false none uparams'
     inv.err = none ∧ fwd.out = x ∧ fwd.err = none ∧ fwd.condIn = inv.condIn
      ∧ ∀ b, b < B → fwd.ld[b]? = (inv.ld[b]?).map (fun l => -l)) :=
  ⟨⟨coupling_cubic_tails_err_none hcv mask B S x params uparams false,
    coupling_inverse_forward_real e c mask B S x params uparams uparams'
      (elInvertible_cubic_tails_real hcv _ S params B hex).1
      (coupling_cubic_tails_err_none hcv mask B S x params uparams false) hsz⟩,
   ⟨coupling_cubic_tails_err_none hcv mask B S x params uparams true,
    coupling_forward_inverse_real e c mask B S x params uparams uparams'
      (elInvertible_cubic_tails_real hcv _ S params B hex).2
      (coupling_cubic_tails_err_none hcv mask B S x params uparams true) hsz⟩⟩

/-- **C02 (tails) with NO exactness hypothesis (forward ∘ inverse)**: ANY parameters, ANY real array: neither pass
    raises, the row log-dets are negated EXACTLY, and every entry of the result is within
    `quadratic_threshold · 2B` of the input -/
theorem coupling_cubic_tails_rev_approx_real (hcv : CubicTailsCfgValid e c)
    (mask : List ℝ) (B S : Nat) (y params uparams uparams' : Array ℝ) (hsz : B * mask.length * S ≤ y.size) :
    let inv := couplingApply (NF.realX e) c mask B S y params true none uparams
    let fwd := couplingApply (NF.realX e) c mask B S inv.out params false none uparams'
    inv.err = none ∧ fwd.err = none
      ∧ (∀ j, |fwd.out.getD j 0 - y.getD j 0| < e (c.ds.getD 4 0.0) * (e (c.ds.getD 0 0.0) - -e (c.ds.getD 0 0.0)))
      ∧ fwd.condIn = inv.condIn ∧ ∀ b, b < B → fwd.ld[b]? = (inv.ld[b]?).map (fun l => -l) := by
  intro inv fwd
  obtain ⟨hk1, hk2⟩ := cubic_kind_ne hcv.hk
  have h1 := coupling_cubic_tails_err_none hcv mask B S y params uparams true
  have hpos : 0 < e (c.ds.getD 4 0.0) * (e (c.ds.getD 0 0.0) - -e (c.ds.getD 0 0.0)) := by
    have hB := cubic_hB hcv.hv hcv.hneg
    have : 0 < e (c.ds.getD 4 0.0) := hcv.hc.hthr
    exact mul_pos this (by linarith)
  have hinv : ElRevRel (fun a b => |a - b| < e (c.ds.getD 4 0.0) * (e (c.ds.getD 0 0.0) - -e (c.ds.getD 0 0.0)))
      (NF.realX e) c (transformIdx (NF.realX e) mask).length S params B := by
    intro b t s yi xv l al hb ht' hs hf
    rw [couplingEl_spline (NF.realX e) c S params true hk1 hk2] at hf
    rw [couplingEl_spline (NF.realX e) c S params false hk1 hk2]
    have hv := sliceValidT_of_cfg hcv
      (condSlice (NF.realX e) c.mult (transformIdx (NF.realX e) mask).length S params b t s)
      (by rw [condSlice_length, mult_cubic hcv.hk])
    obtain ⟨y', h, hn⟩ := cubic_tails_real_rev_approx hcv.hk hcv.ht _ hv hcv.hc hcv.hneg hf
    exact ⟨y', [], h, hn⟩
  obtain ⟨h3, h4, h5, h6⟩ := coupling_forward_inverse_rel_real e c mask B S y params uparams uparams'
    _ (fun a => by rw [sub_self, abs_zero]; exact hpos) hinv h1 hsz
  exact ⟨h1, h3, h4, h5, h6⟩

/-! ### autoregressive -/

def CubicTailsParamsExactAR (e : Float → ℝ) (c : ElCfg) (F : Nat) (params : Array ℝ) (B : Nat) : Prop :=
  ∀ b i, b < B → i < F → SliceExact e c (cubicCfgOfT c) (arSlice (NF.realX e) c F params b i)

theorem arSliceValidT (hcv : CubicTailsCfgValid e c) (F : Nat) (params : Array ℝ) (b i : Nat) :
    SliceValid e c (cubicCfgOfT c) (arSlice (NF.realX e) c F params b i) :=
  sliceValidT_of_cfg hcv _ (by rw [arSlice_length, pw_cubic hcv.hk])

theorem arElInvertible_cubic_tails_real (hcv : CubicTailsCfgValid e c) (F : Nat) (params : Array ℝ) (B : Nat)
    (hex : CubicTailsParamsExactAR e c F params B) :
    ArElInvertible (NF.realX e) c F params B ∧ ArElInvertibleRev (NF.realX e) c F params B := by
  constructor
  · intro b i xi y l al hb hi hf
    exact (cubic_tails_real_invertible hcv.hk hcv.ht _ (arSliceValidT hcv F params b i) hcv.hc (hex b i hb hi) hcv.hneg).1 hf
  · intro b i yi x l al hb hi hf
    exact ⟨[], (cubic_tails_real_invertible hcv.hk hcv.ht _ (arSliceValidT hcv F params b i) hcv.hc (hex b i hb hi) hcv.hneg).2 hf⟩

/-- **C17**: no pass of the cubic-with-tails autoregressive transform raises: any conditioner, any real input -/
theorem ar_cubic_tails_err_none (hcv : CubicTailsCfgValid e c) (B F : Nat)
    (net : Array ℝ → Array ℝ) (x : Array ℝ) :
    (arForward (NF.realX e) c B F net x).err = none
      ∧ (x.size = B * F → (arInverse (NF.realX e) c B F net x).err = none) := by
  constructor
  · rw [arForward, arApply, elemwise_err_none]
    intro b i _ _
    rw [arEl_eq]
    exact ⟨_, (cubic_tails_el_total hcv.hk hcv.ht _ (arSliceValidT hcv F (net x) b i) hcv.hneg _).1⟩
  · intro hx
    exact ar_inverse_err_none _ c B F net x hx
      (fun z _ b i _ _ => ⟨_, (cubic_tails_el_total hcv.hk hcv.ht _ (arSliceValidT hcv F (net z) b i) hcv.hneg _).2⟩)

/-- **C02 for the executed autoregressive cubic transform with linear tails over the reals**, both orders, ANY real input
    of the right size; the exactness hypothesis is on the parameters the conditioner returns at the input (first order)
    / at the loop's result (second order) -/
theorem ar_cubic_tails_roundtrip_real (hcv : CubicTailsCfgValid e c) (B F : Nat)
    (net : Array ℝ → Array ℝ) (hnet : AutoregNet B F (2 * c.K + 2) net) (x : Array ℝ) (hx : x.size = B * F) :
    (CubicTailsParamsExactAR e c F (net x) B →
     let fwd := arForward (NF.realX e) c B F net x
     let inv := arInverse (NF.realX e) c B F net fwd.out
     fwd.err = none ∧ inv.err = none ∧ inv.out = x
      ∧ (∀ k, AgreeBelow B F k (arIter (NF.realX e) c B F net fwd.out k).out x)
      ∧ (0 < F → ∀ b, b < B → inv.ld[b]? = (fwd.ld[b]?).map (fun l => -l)))
    ∧ (CubicTailsParamsExactAR e c F (net (arInverse (NF.realX e) c B F net x).out) B →
       let inv := arInverse (NF.realX e) c B F net x
       let fwd := arForward (NF.realX e) c B F net inv.out
       inv.err = none ∧ fwd.err = none ∧ fwd.out = x
        ∧ (0 < F → ∀ b, b < B → fwd.ld[b]? = (inv.ld[b]?).map (fun l => -l))) := by
  have hnet' : AutoregNet B F (pw c) net := by rw [pw_cubic hcv.hk]; exact hnet
  constructor
  · intro hex fwd inv
    have h1 := (ar_cubic_tails_err_none hcv B F net x).1
    obtain ⟨h3, h4, _, h5⟩ := ar_inverse_forward_real e c B F net x hnet'
      (arElInvertible_cubic_tails_real hcv F (net x) B hex).1 h1 hx
    exact ⟨h1, (ar_cubic_tails_err_none hcv B F net _).2 (arApply_out_size ..), h3, h4, h5⟩
  · intro hex inv fwd
    have h1 := (ar_cubic_tails_err_none hcv B F net x).2 hx
    obtain ⟨h2, h3, h4⟩ := ar_forward_inverse_real e c B F net x hnet' hx h1
      (arElInvertible_cubic_tails_real hcv F _ B hex).2
    exact ⟨h1, h3, h2, h4⟩

/-- **C02 (autoregressive, tails) with NO exactness hypothesis (forward ∘ inverse)**: any autoregressive conditioner, ANY
    real `[B, F]` array -/
theorem ar_cubic_tails_rev_approx_real (hcv : CubicTailsCfgValid e c) (B F : Nat)
    (net : Array ℝ → Array ℝ) (hnet : AutoregNet B F (2 * c.K + 2) net) (y : Array ℝ) (hy : y.size = B * F) :
    let inv := arInverse (NF.realX e) c B F net y
    let fwd := arForward (NF.realX e) c B F net inv.out
    inv.err = none ∧ fwd.err = none
      ∧ (∀ j, j < B * F → |fwd.out.getD j 0 - y.getD j 0|
            < e (c.ds.getD 4 0.0) * (e (c.ds.getD 0 0.0) - -e (c.ds.getD 0 0.0)))
      ∧ (0 < F → ∀ b, b < B → fwd.ld[b]? = (inv.ld[b]?).map (fun l => -l)) := by
  intro inv fwd
  have hnet' : AutoregNet B F (pw c) net := by rw [pw_cubic hcv.hk]; exact hnet
  have h1 := (ar_cubic_tails_err_none hcv B F net y).2 hy
  have hinv : ArElRevRel (fun a b => |a - b| < e (c.ds.getD 4 0.0) * (e (c.ds.getD 0 0.0) - -e (c.ds.getD 0 0.0)))
      (NF.realX e) c F (net (arInverse (NF.realX e) c B F net y).out) B := by
    intro b i yi x l al hb hi hf
    obtain ⟨y', h, hn⟩ := cubic_tails_real_rev_approx hcv.hk hcv.ht _ (arSliceValidT hcv F _ b i) hcv.hc hcv.hneg hf
    exact ⟨y', [], h, hn⟩
  obtain ⟨h2, h3, h4⟩ := ar_forward_inverse_rel (NF.realX e) c B F net y _ hnet' hy h1 hinv
  refine ⟨h1, h2, fun j hj => by have := h3 j hj; rw [realX_zero] at this; exact this, ?_⟩
  intro hF b hb
  have h5 := h4 hF b hb
  obtain ⟨k, rfl⟩ : ∃ k, F = k + 1 := ⟨F - 1, by omega⟩
  have h6 : (arInverse (NF.realX e) c B (k + 1) net y).ld[b]?
      = some ((List.range (k + 1)).foldl (fun acc i => (NF.realX e).add acc
            (ldOf (NF.realX e) (arEl (NF.realX e) c (k + 1) y (net (arIter (NF.realX e) c B (k + 1) net y (k + 1 - 1)).out) true b i)))
              (NF.realX e).zero) := by
    rw [arInverse_eq_iter, arIter_succ, arPass_ld, ar_ld_getElem? (NF.realX e) c B (k + 1) _ _ true hb]
    rfl
  show (arForward (NF.realX e) c B (k + 1) net (arInverse (NF.realX e) c B (k + 1) net y).out).ld[b]?
    = ((arInverse (NF.realX e) c B (k + 1) net y).ld[b]?).map _
  rw [h5, h6, foldl_neg_real]
  rfl

section made
open NF.Made

/-- **the masked autoregressive cubic flow layer with linear tails and the MADE conditioner**: every architecture
    accepted by `build` with multiplier `2K + 2`, every weight assignment, every `B`, EVERY real `[B, F]` input: no pass
    raises; where the bins are exact at the conditioner's parameters the round trips are exact with negated log-dets
    (both orders); and WITHOUT any exactness hypothesis forward ∘ inverse negates the log-dets exactly and returns the
    input up to `quadratic_threshold · 2B` per entry. -/
theorem made_cubic_tails_roundtrip_real (hcv : CubicTailsCfgValid e c) (a : Arch) (n : Net)
    (hbuild : build a = .ok n) (hmult : a.mult = 2 * c.K + 2) (W : ℕ → ℕ → ℕ → ℝ) (bias : ℕ → ℕ → ℝ) (B : Nat)
    (ctxv : ℕ → ℕ → Fin B → ℝ) (g : ℕ → Slot → ℕ → (Fin B → ℝ) → Fin B → ℝ) :
    let net := madeNet n W bias B ctxv g
    (∀ x : Array ℝ, x.size = B * a.F → CubicTailsParamsExactAR e c a.F (net x) B →
      let fwd := arForward (NF.realX e) c B a.F net x
      let inv := arInverse (NF.realX e) c B a.F net fwd.out
      fwd.err = none ∧ inv.err = none ∧ inv.out = x
        ∧ (∀ k, AgreeBelow B a.F k (arIter (NF.realX e) c B a.F net fwd.out k).out x)
        ∧ (∀ b, b < B → inv.ld[b]? = (fwd.ld[b]?).map (fun l => -l)))
    ∧ (∀ y : Array ℝ, y.size = B * a.F →
      CubicTailsParamsExactAR e c a.F (net (arInverse (NF.realX e) c B a.F net y).out) B →
      let inv := arInverse (NF.realX e) c B a.F net y
      let fwd := arForward (NF.realX e) c B a.F net inv.out
      inv.err = none ∧ fwd.err = none ∧ fwd.out = y
        ∧ (∀ b, b < B → fwd.ld[b]? = (inv.ld[b]?).map (fun l => -l)))
    ∧ (∀ y : Array ℝ, y.size = B * a.F →
      let inv := arInverse (NF.realX e) c B a.F net y
      let fwd := arForward (NF.realX e) c B a.F net inv.out
      inv.err = none ∧ fwd.err = none
        ∧ (∀ j, j < B * a.F → |fwd.out.getD j 0 - y.getD j 0|
              < e (c.ds.getD 4 0.0) * (e (c.ds.getD 0 0.0) - -e (c.ds.getD 0 0.0)))
        ∧ (∀ b, b < B → fwd.ld[b]? = (inv.ld[b]?).map (fun l => -l))) := by
  obtain ⟨hv, hF, hm, hFa, hma⟩ := build_valid hbuild
  have hnet : AutoregNet B a.F (2 * c.K + 2) (madeNet n W bias B ctxv g) := by
    rw [← hmult, ← hma, ← hFa]; exact madeNet_autoreg n hv hm W bias B ctxv g
  intro net
  refine ⟨?_, ?_, ?_⟩
  · intro x hx hex
    obtain ⟨h1, h2, h3, h4, h5⟩ := (ar_cubic_tails_roundtrip_real hcv B a.F _ hnet x hx).1 hex
    exact ⟨h1, h2, h3, h4, h5 (by omega)⟩
  · intro y hy hex
    obtain ⟨h1, h2, h3, h4⟩ := (ar_cubic_tails_roundtrip_real hcv B a.F _ hnet y hy).2 hex
    exact ⟨h1, h2, h3, h4 (by omega)⟩
  · intro y hy
    obtain ⟨h1, h2, h3, h4⟩ := ar_cubic_tails_rev_approx_real hcv B a.F _ hnet y hy
    exact ⟨h1, h2, h3, h4 (by omega)⟩

end made

end tailsLayers

/-! ## 10b. The left junction is continuous UNCONDITIONALLY; per-element exactness for the tails element -/

section junction
open CubicInverseWhole
variable {e : Float → ℝ} {c : CCfg} {uw uh : List ℝ} {udl udr : ℝ}

/-- **`inverse(bottom) = left` with NO exactness hypothesis**: at the bottom of the box the level is the first y-knot, and
    there the stable quadratic root of the fallback branch is `0` exactly (its numerator `2·(d − t)` vanishes) -/
theorem inv_bottom (hv : CubicValid e c uw uh) (hc : InvConsts e c) :
    inv e c uw uh udl udr (e c.box.bottom) = e c.box.left := by
  have hK := K_pos hv
  have hyn : yn e c (e c.box.bottom) = 0 := by rw [yn_eq hv, sub_self, zero_div]
  have hidx : idxH e c uh 0 = 0 :=
    idxH_of_mem hv 0 hK 0 (by rw [chs_zero hv]) (by have := chs_strict hv 0 hK; rwa [chs_zero hv] at this)
  by_cases hfb : fallback (NF.realX e) c (aK e c uw uh udl udr 0) (cws e c uw 0) (cws e c uw (0+1)) (CubicWhole.hv e c uh 0) = true
  · rw [inv_eq_root hv _ le_rfl hv.hbt.le, hyn]
    have hr : rootN e c uw uh udl udr 0 = 0 := by
      unfold rootN preRoot
      rw [hidx]
      unfold out1
      rw [if_pos hfb, quadRoot_eq hc, chs_zero hv, sub_self]
      have hq : CubicRoots.qroot (bK e c uw uh udl udr 0) (dv e c uw uh udl udr 0) 0 = 0 := by
        unfold CubicRoots.qroot; simp
      rw [hq]
      have h01 := (cws_strict hv 0 hK).le
      show inBin (NF.realX e) (cws e c uw 0) (cws e c uw (0 + 1)) (0 + cws e c uw 0) = 0
      rw [zero_add (cws e c uw 0)]
      exact (inBin_id (e := e) _ _ _ le_rfl h01).trans (cws_zero hv)
    rw [hr]; ring
  · have hlr := hv.hlr.le
    have hex : ExactBin e c uw uh udl udr (idxH e c uh (nval e c uw uh udl udr (xn e c (e c.box.left)))) := by
      rw [← yn_val hv _ le_rfl hlr, (val_endpoints hv).1, hyn, hidx]
      exact Or.inl (by simpa using hfb)
    have := inv_val hv hc (e c.box.left) le_rfl hlr hex
    rw [(val_endpoints hv).1] at this
    exact this

end junction

section junctionT
open TailsWhole
variable {e : Float → ℝ} {tb minW minH eps thr : Float} {uw uh : List ℝ} {udl udr : ℝ}

/-- **no jump at the LEFT junction, no exactness hypothesis**: `inverse(−B) = −B`.  (At the right junction this needs the
    last bin to be exact — `cubic_tails_inv_junctions`: in a last bin that takes the fallback with `a < 0` the clamped
    quadratic root at the top level lies strictly inside the bin.) -/
theorem cubic_tails_inv_left_junction (hv : CubicValid e (ccfgT tb minW minH eps thr) uw uh)
    (hc : CubicInverseWhole.InvConsts e (ccfgT tb minW minH eps thr)) (hneg : e (-tb) = - e tb) :
    cubicInvT e tb minW minH eps thr uw uh udl udr (-e tb) = -e tb := by
  have hB := cubic_hB hv hneg
  rw [(cubic_inv_inside (-e tb) le_rfl (by linarith)).1]
  have := inv_bottom (udl := udl) (udr := udr) hv hc
  have hb : e (ccfgT tb minW minH eps thr).box.bottom = - e tb := hneg
  have hb' : e (ccfgT tb minW minH eps thr).box.left = - e tb := hneg
  rw [hb, hb'] at this
  exact this

end junctionT

section tailsEl
open TailsWhole
variable {e : Float → ℝ} {c : ElCfg}

/-- **C02 (element, tails), inverse ∘ forward, exactness stated per element**: if the forward element succeeds with
    `(y, l, al)` and — when `y` lies in the box — the bin `y` falls into is exact, the inverse element returns `(x, -l, al')` -/
theorem cubic_tails_real_invertible_el (hk : c.kind = "cubic") (ht : c.tails = true) (p : List ℝ)
    (hv : SliceValid e c (cubicCfgOfT c) p) (hc : CubicInverseWhole.InvConsts e (cubicCfgOfT c))
    (hneg : e (-(c.ds.getD 0 0.0)) = - e (c.ds.getD 0 0.0)) {x y l : ℝ} {al : List ℝ}
    (h : elTransform (NF.realX e) c false p x = .ok (y, l, al))
    (hex : -e (c.ds.getD 0 0.0) ≤ y → y ≤ e (c.ds.getD 0 0.0) →
      CubicInverseWhole.ExactBin e (cubicCfgOfT c) (rqW (NF.realX e) c p) (rqH (NF.realX e) c p)
        (cubicL (NF.realX e) c p) (cubicR (NF.realX e) c p) (binOf e (cubicCfgOfT c) (rqH (NF.realX e) c p) y)) :
    ∃ al', elTransform (NF.realX e) c true p y = .ok (x, -l, al') := by
  rw [elTransform_cubic_tails _ c hk ht] at h ⊢
  rw [cubicTails_unfold] at h ⊢
  by_cases hin : -e (c.ds.getD 0 0.0) ≤ x ∧ x ≤ e (c.ds.getD 0 0.0)
  · rw [if_pos hin] at h
    have h : cubicSpline (NF.realX e) (cubicCfgOfT c) (rqW (NF.realX e) c p) (rqH (NF.realX e) c p)
        (cubicL (NF.realX e) c p) (cubicR (NF.realX e) c p) false x = .ok (y, l, al) := h
    obtain ⟨hx0, hx1⟩ := fwd_ok_dom h
    have h' := h
    rw [fwd_eq hv x hx0 hx1] at h'
    simp only [Except.ok.injEq, Prod.mk.injEq] at h'
    have hm : e (-(c.ds.getD 0 0.0)) ≤ y ∧ y ≤ e (c.ds.getD 0 0.0) := by
      have := val_mapsTo (udl := cubicL (NF.realX e) c p) (udr := cubicR (NF.realX e) c p) hv ⟨hx0, hx1⟩
      rw [h'.1] at this
      exact this
    rw [hneg] at hm
    rw [if_pos hm]
    exact ⟨_, (cubicSpline_real_invertible hv hc h (hex hm.1 hm.2)).1⟩
  · rw [if_neg hin] at h
    simp only [Except.ok.injEq, Prod.mk.injEq] at h
    obtain ⟨rfl, rfl, _⟩ := h
    rw [if_neg hin]
    exact ⟨[], by simp⟩

end tailsEl

/-! ## 11. Non-vacuity: concrete configurations, readings of the doubles and parameter arrays satisfying every bundle -/

section witness
open CubicInverseWhole

/-! the two-equal-bins spline (`uw = uh = [0, 0]`, equal floors) for ANY accepted configuration: all slopes are `1`,
    the interior knot derivative is `1`, the end derivatives are `3·sigmoid(ud)`, so `a_k · w_k² = 3·sigmoid(ud) − 1` -/
section twoBins
variable {e : Float → ℝ} {cc : CCfg} (hv' : CubicValid e cc [0, 0] [0, 0])
  (hhw : ∀ k, CubicWhole.hv e cc [0, 0] k = wv e cc [0, 0] k) (hhalf : e 0.5 = 1 / 2)
include hv' hhw

theorem tb_sv (k : ℕ) (hk : k < 2) : sv e cc [0, 0] [0, 0] k = 1 := by
  rw [sv_eq hv' k hk, hhw]
  exact div_self (wv_pos hv' k hk).ne'

theorem tb_dv0 (udl udr : ℝ) : dv e cc [0, 0] [0, 0] udl udr 0 = (NF.realX e).sigmoid udl * 3 := by
  rw [dv_end_left, tb_sv hv' hhw 0 (by norm_num), mul_one]

theorem tb_dv2 (udl udr : ℝ) : dv e cc [0, 0] [0, 0] udl udr 2 = (NF.realX e).sigmoid udr * 3 := by
  have := dv_end_right (udl := udl) (udr := udr) hv'
  simp only [List.length_cons, List.length_nil] at this
  rw [this, tb_sv hv' hhw 1 (by norm_num), mul_one]

include hhalf in
theorem tb_dv1 (udl udr : ℝ) : dv e cc [0, 0] [0, 0] udl udr 1 = 1 := by
  have h0 := wv_pos hv' 0 (by simp)
  have h1 := wv_pos hv' 1 (by simp)
  have := dv_interior (udl := udl) (udr := udr) hv' 0 (by simp)
  rw [zero_add] at this
  rw [this, tb_sv hv' hhw 0 (by norm_num), tb_sv hv' hhw 1 (by norm_num), hhalf, mul_one, mul_one, min_self]
  have : (1/2 : ℝ) * (wv e cc [0, 0] 1 + wv e cc [0, 0] 0) / (wv e cc [0, 0] 0 + wv e cc [0, 0] 1) = 1/2 := by
    field_simp; ring
  rw [this, min_eq_right (by norm_num)]; norm_num

include hhalf in
theorem tb_aK (udl : ℝ) (k : ℕ) (hk : k < 2) :
    aK e cc [0, 0] [0, 0] udl udl k = ((NF.realX e).sigmoid udl * 3 - 1) / (wv e cc [0, 0] k)^2 := by
  have hk' : k = 0 ∨ k = 1 := by omega
  rcases hk' with rfl | rfl
  · unfold aK
    rw [tb_dv0 hv' hhw, zero_add, tb_dv1 hv' hhw hhalf, tb_sv hv' hhw 0 (by norm_num)]; ring
  · unfold aK
    rw [tb_dv1 hv' hhw hhalf, tb_dv2 hv' hhw, tb_sv hv' hhw 1 (by norm_num)]; ring

include hhalf in
/-- with both unnormalised end derivatives `0` (`sigmoid 0 = 1/2`, `a·w² = 1/2`) no bin takes the fallback as soon as
    `quadratic_threshold < 1/2` -/
theorem tb_allExact_zero (hthr : e cc.thr < 1 / 2) : AllExact e cc [0, 0] [0, 0] 0 0 := by
  intro k hk
  left
  have hk2 : k < 2 := by simpa using hk
  rw [Bool.eq_false_iff]
  intro hfb
  have hlt := (fallback_iff (udl := 0) (udr := 0) hv' k hk).mp hfb
  rw [hhw] at hlt
  have hw := wv_pos hv' k hk
  have hs : (NF.realX e).sigmoid 0 = 1 / 2 := by rw [NF.realX_sigmoid]; norm_num
  rw [tb_aK hv' hhw hhalf 0 k hk2, hs, abs_of_pos (by positivity)] at hlt
  have : ((1/2 : ℝ) * 3 - 1) / (wv e cc [0, 0] k)^2 * (wv e cc [0, 0] k)^3 = 1/2 * wv e cc [0, 0] k := by
    field_simp; ring
  rw [this] at hlt
  nlinarith

end twoBins

/-! ### bounded: two bins on the unit box, the reading `CubicInverseWhole.eI`, every read of the empty parameter array is 0 -/

def cC : ElCfg := { container := "cdf", kind := "cubic", K := 2, ds := #[0.0, 1.0, 0.0, 1.0, 0.0, 0.0, 1e-5, 1e-3] }

theorem cubicCfgOf_cC : cubicCfgOf cC = cNV := rfl

theorem cubicCfgValid_example : CubicCfgValid eI cC where
  hk := rfl
  ht := rfl
  hK := by decide
  hv := valid_exampleI
  hc := consts_example

theorem slice_cC (Ft S : Nat) (b t s : Nat) :
    condSlice (NF.realX eI) cC.mult Ft S #[] b t s = [0, 0, 0, 0, 0, 0] := by
  have hm : cC.mult = 6 := by decide
  rw [hm]
  simp [condSlice, List.range_succ]

theorem sliceParts_cC :
    rqW (NF.realX eI) cC [0, 0, 0, 0, 0, 0] = [0, 0] ∧ rqH (NF.realX eI) cC [0, 0, 0, 0, 0, 0] = [0, 0] ∧
    cubicL (NF.realX eI) cC [0, 0, 0, 0, 0, 0] = 0 ∧ cubicR (NF.realX eI) cC [0, 0, 0, 0, 0, 0] = 0 := by
  refine ⟨by simp [rqW, rqScale, cC], by simp [rqH, rqScale, cC], by simp [cubicL, cC], by simp [cubicR, cC]⟩

theorem allExact_example_zero : AllExact eI cNV [0, 0] [0, 0] 0 0 :=
  tb_allExact_zero valid_exampleI ex_hv ex_half (by rw [ex_thr]; norm_num)

/-- **`CubicParamsExact` is satisfiable**: every slice of the empty parameter array, any `Ft`, `S`, `B` -/
theorem cubicParamsExact_example (Ft S B : Nat) : CubicParamsExact eI cC Ft S #[] B := by
  intro b t s _ _ _
  obtain ⟨h1, h2, h3, h4⟩ := sliceParts_cC
  rw [slice_cC]
  unfold SliceValid SliceExact
  rw [h1, h2, h3, h4]
  exact ⟨valid_exampleI, allExact_example_zero⟩

/-- the bounded coupling theorem instantiated at the example: for every mask, `B`, `S` and input array filling the shape
    on which the forward pass does not raise -/
theorem coupling_cubic_example (mask : List ℝ) (B S : Nat) (x : Array ℝ) (hsz : B * mask.length * S ≤ x.size)
    (herr : (couplingApply (NF.realX eI) cC mask B S x #[] false none #[]).err = none) :
    let fwd := couplingApply (NF.realX eI) cC mask B S x #[] false none #[]
    let inv := couplingApply (NF.realX eI) cC mask B S fwd.out #[] true none #[]
    inv.out = x ∧ inv.err = none ∧ inv.condIn = fwd.condIn ∧ ∀ b, b < B → inv.ld[b]? = (fwd.ld[b]?).map (fun l => -l) :=
  coupling_cubic_roundtrip_real (e := eI) (c := cC) rfl rfl consts_example mask B S x #[] #[] #[]
    (cubicParamsExact_example _ S B) herr hsz

theorem arSlice_cC (F : Nat) (params : Array ℝ) (hp : params = #[]) (b i : Nat) :
    arSlice (NF.realX eI) cC F params b i = [0, 0, 0, 0, 0, 0] := by
  have hm : pw cC = 6 := by decide
  subst hp
  unfold arSlice
  rw [hm]
  simp [List.range_succ]

/-- **`CubicParamsExactAR` is satisfiable** -/
theorem cubicParamsExactAR_example (F B : Nat) : CubicParamsExactAR eI cC F #[] B := by
  intro b i _ _
  obtain ⟨h1, h2, h3, h4⟩ := sliceParts_cC
  rw [arSlice_cC F #[] rfl]
  unfold SliceValid SliceExact
  rw [h1, h2, h3, h4]
  exact ⟨valid_exampleI, allExact_example_zero⟩

/-- the autoregressive theorem instantiated: the conditioner that returns the empty tensor (every read is 0), every
    `B`, `F`, every input in the unit box -/
theorem ar_cubic_example (B F : Nat) (x : Array ℝ) (hx : x.size = B * F)
    (hbox : InBox (eI (cubicCfgOf cC).box.left) (eI (cubicCfgOf cC).box.right) B F x) :
    let net : Array ℝ → Array ℝ := fun _ => #[]
    let fwd := arForward (NF.realX eI) cC B F net x
    let inv := arInverse (NF.realX eI) cC B F net fwd.out
    fwd.err = none ∧ inv.err = none ∧ inv.out = x
      ∧ (∀ k, AgreeBelow B F k (arIter (NF.realX eI) cC B F net fwd.out k).out x)
      ∧ (0 < F → ∀ b, b < B → inv.ld[b]? = (fwd.ld[b]?).map (fun l => -l)) :=
  ar_cubic_roundtrip_real (e := eI) (c := cC) rfl rfl consts_example B F (fun _ => #[]) x
    (fun _ _ _ _ _ _ _ _ _ _ _ => rfl) (cubicNetValid_of_cfg cubicCfgValid_example B F _)
    (cubicParamsExactAR_example F B) hx hbox

/-! ### the exactness hypothesis is forced at the level of the dispatcher: an accepted slice on which
`forward(inverse(y)) ≠ y` (from `CubicInverseWhole.round_trip_counterexample`; the error is below the declared bound by
`cubic_real_rev_approx`) -/

theorem cubic_el_round_trip_counterexample :
    ∃ (p : List ℝ) (y x l : ℝ) (al : List ℝ), SliceValid eI cC (cubicCfgOf cC) p ∧
      elTransform (NF.realX eI) cC true p y = .ok (x, l, al) ∧
      ∀ y' l' al', elTransform (NF.realX eI) cC false p x = .ok (y', l', al') → y' ≠ y := by
  have hw : rqW (NF.realX eI) cC [0, 0, 0, 0, Real.log (2001/3999), 0] = [0, 0] := by simp [rqW, rqScale, cC]
  have hh : rqH (NF.realX eI) cC [0, 0, 0, 0, Real.log (2001/3999), 0] = [0, 0] := by simp [rqH, rqScale, cC]
  have hl : cubicL (NF.realX eI) cC [0, 0, 0, 0, Real.log (2001/3999), 0] = Real.log (2001/3999) := by simp [cubicL, cC]
  have hr : cubicR (NF.realX eI) cC [0, 0, 0, 0, Real.log (2001/3999), 0] = 0 := by simp [cubicR, cC]
  have hv : SliceValid eI cC (cubicCfgOf cC) [0, 0, 0, 0, Real.log (2001/3999), 0] := by
    unfold SliceValid; rw [hw, hh]; exact valid_exampleI
  have hw0 := wv_pos valid_exampleI 0 (by simp)
  have hc1 : chs eI cNV [0, 0] 1 = wv eI cNV [0, 0] 0 := by
    have := chs_succ valid_exampleI 0 (by simp)
    rw [zero_add, chs_zero valid_exampleI, zero_add, ex_hv] at this; exact this
  have hw1 : wv eI cNV [0, 0] 0 ≤ 1 := by rw [← hc1]; exact (chs_unit valid_exampleI 1 (by simp)).2
  have hy0 : eI cNV.box.bottom ≤ wv eI cNV [0, 0] 0 / 2 := by rw [ex_bottom]; linarith
  have hy1 : wv eI cNV [0, 0] 0 / 2 ≤ eI cNV.box.top := by rw [ex_top]; linarith
  refine ⟨_, wv eI cNV [0, 0] 0 / 2, inv eI cNV [0, 0] [0, 0] (Real.log (2001/3999)) 0 (wv eI cNV [0, 0] 0 / 2),
    invLd eI cNV [0, 0] [0, 0] (Real.log (2001/3999)) 0 (wv eI cNV [0, 0] 0 / 2),
    invAlts eI cNV [0, 0] [0, 0] (Real.log (2001/3999)) 0 (wv eI cNV [0, 0] 0 / 2), hv, ?_, ?_⟩
  · rw [elTransform_cubic _ cC rfl rfl, hw, hh, hl, hr]
    exact CubicLayers.inv_eq (udl := Real.log (2001/3999)) (udr := 0) valid_exampleI _ hy0 hy1
  · intro y' l' al' h
    rw [elTransform_cubic _ cC rfl rfl, hw, hh, hl, hr] at h
    obtain ⟨m0, m1⟩ := CubicInverseWhole.inv_mem (udl := Real.log (2001/3999)) (udr := 0) valid_exampleI _ hy0 hy1
    have h' : cubicSpline (NF.realX eI) cNV [0, 0] [0, 0] (Real.log (2001/3999)) 0 false
        (inv eI cNV [0, 0] [0, 0] (Real.log (2001/3999)) 0 (wv eI cNV [0, 0] 0 / 2)) = .ok (y', l', al') := h
    rw [fwd_eq valid_exampleI _ m0 m1] at h'
    simp only [Except.ok.injEq, Prod.mk.injEq] at h'
    rw [← h'.1]
    exact round_trip_counterexample

/-! ### tails: two bins, tail bound 1, a reading exact on every literal of both structures -/

def codeT (f : Float) : Nat :=
  if f == 0.0 then 0 else if f == 3.0 then 1 else if f == 4.0 then 2 else if f == -2.0 then 3 else if f == -0.5 then 4
  else if f == 0.8660254037844386 then 5 else if f == 0.5 then 6 else if f == 1e-3 then 7
  else if f == (-(1.0:Float)) then 9 else if f == 2.0 then 10 else 8
noncomputable def tableT : Nat → ℝ
  | 0 => 0 | 1 => 3 | 2 => 4 | 3 => -2 | 4 => -(1/2) | 5 => Real.sqrt 3 / 2 | 6 => 1/2 | 7 => 1/1000
  | 9 => -1 | 10 => 2 | _ => 1
noncomputable def eT (f : Float) : ℝ := tableT (codeT f)

private theorem t0 : codeT 0.0 = 0 := by decide +kernel
private theorem t1 : codeT 1.0 = 8 := by decide +kernel
private theorem t3 : codeT 3.0 = 1 := by decide +kernel
private theorem t4 : codeT 4.0 = 2 := by decide +kernel
private theorem tm2 : codeT (-2.0) = 3 := by decide +kernel
private theorem tmh : codeT (-0.5) = 4 := by decide +kernel
private theorem ts3 : codeT (0.5 * Float.sqrt 3.0) = 5 := by decide +kernel
private theorem th : codeT 0.5 = 6 := by decide +kernel
private theorem tthr : codeT 1e-3 = 7 := by decide +kernel
private theorem tseps : codeT 1e-6 = 8 := by decide +kernel
private theorem tc : codeT ((1:Float) - 0.0 * (2:Nat).toFloat) = 8 := by decide +kernel
private theorem tn : codeT (-(1.0:Float)) = 9 := by decide +kernel
private theorem td : codeT ((1.0:Float) - (-(1.0:Float))) = 10 := by decide +kernel
private theorem tg : ¬ ((0.0:Float) * (2:Nat).toFloat > 1.0) := by decide +kernel

def cCT : ElCfg := { container := "cdf", kind := "cubic", tails := true, K := 2, ds := #[1.0, 0.0, 0.0, 1e-5, 1e-3] }

theorem cubicCfgOfT_cCT : cubicCfgOfT cCT = TailsWhole.ccfgT 1.0 0.0 0.0 1e-5 1e-3 := rfl

theorem valid_exampleT : CubicValid eT (TailsWhole.ccfgT 1.0 0.0 0.0 1e-5 1e-3) [0, 0] [0, 0] where
  hK := by simp
  hlenh := rfl
  hgW := tg
  hgH := tg
  hmW0 := by simp [eT, TailsWhole.ccfgT, t0, tableT]
  hcW := by simp [eT, TailsWhole.ccfgT, t0, tc, tableT]
  hmWK := by simp [eT, TailsWhole.ccfgT, t0, tableT]
  hmH0 := by simp [eT, TailsWhole.ccfgT, t0, tableT]
  hcH := by simp [eT, TailsWhole.ccfgT, t0, tc, tableT]
  hmHK := by simp [eT, TailsWhole.ccfgT, t0, tableT]
  hlr := by simp [eT, TailsWhole.ccfgT, TailsWhole.tbox, t1, tn, tableT]
  hdlr := by simp [eT, TailsWhole.ccfgT, TailsWhole.tbox, t1, tn, td, tableT]; norm_num
  hbt := by simp [eT, TailsWhole.ccfgT, TailsWhole.tbox, t1, tn, tableT]
  hdbt := by simp [eT, TailsWhole.ccfgT, TailsWhole.tbox, t1, tn, td, tableT]; norm_num
  hseps := by simp [eT, TailsWhole.ccfgT, tseps, tableT]
  hhalf := by simp [eT, th, tableT]

theorem consts_exampleT : InvConsts eT (TailsWhole.ccfgT 1.0 0.0 0.0 1e-5 1e-3) where
  h3 := by simp [eT, t3, tableT]
  h4 := by simp [eT, t4, tableT]
  hm2 := by simp [eT, tm2, tableT]
  hmh := by simp [eT, tmh, tableT]
  hs3 := by simp [eT, ts3, tableT]
  hthr := by simp [eT, TailsWhole.ccfgT, tthr, tableT]

theorem eT_neg : eT (-(1.0:Float)) = - eT 1.0 := by simp [eT, tn, t1, tableT]

theorem cubicTailsCfgValid_example : CubicTailsCfgValid eT cCT where
  hk := rfl
  ht := rfl
  hK := by decide
  hv := valid_exampleT
  hc := consts_exampleT
  hneg := eT_neg

theorem allExact_exampleT : AllExact eT (TailsWhole.ccfgT 1.0 0.0 0.0 1e-5 1e-3) [0, 0] [0, 0] 0 0 :=
  tb_allExact_zero valid_exampleT (fun _ => rfl) (by simp [eT, th, tableT])
    (by simp [eT, TailsWhole.ccfgT, tthr, tableT]; norm_num)

theorem slice_cCT (Ft S : Nat) (b t s : Nat) :
    condSlice (NF.realX eT) cCT.mult Ft S #[] b t s = [0, 0, 0, 0, 0, 0] := by
  have hm : cCT.mult = 6 := by decide
  rw [hm]
  simp [condSlice, List.range_succ]

theorem sliceParts_cCT :
    rqW (NF.realX eT) cCT [0, 0, 0, 0, 0, 0] = [0, 0] ∧ rqH (NF.realX eT) cCT [0, 0, 0, 0, 0, 0] = [0, 0] ∧
    cubicL (NF.realX eT) cCT [0, 0, 0, 0, 0, 0] = 0 ∧ cubicR (NF.realX eT) cCT [0, 0, 0, 0, 0, 0] = 0 := by
  refine ⟨by simp [rqW, rqScale, cCT], by simp [rqH, rqScale, cCT], by simp [cubicL, cCT], by simp [cubicR, cCT]⟩

/-- **`CubicTailsParamsExact` is satisfiable** -/
theorem cubicTailsParamsExact_example (Ft S B : Nat) : CubicTailsParamsExact eT cCT Ft S #[] B := by
  intro b t s _ _ _
  obtain ⟨h1, h2, h3, h4⟩ := sliceParts_cCT
  rw [slice_cCT]
  unfold SliceExact
  rw [h1, h2, h3, h4]
  exact allExact_exampleT

/-- the tails coupling theorem instantiated: every mask, `B`, `S`, EVERY real array filling the shape -/
theorem coupling_cubic_tails_example (mask : List ℝ) (B S : Nat) (x : Array ℝ) (hsz : B * mask.length * S ≤ x.size) :
    let fwd := couplingApply (NF.realX eT) cCT mask B S x #[] false none #[]
    let inv := couplingApply (NF.realX eT) cCT mask B S fwd.out #[] true none #[]
    fwd.err = none ∧ inv.out = x ∧ inv.err = none ∧ inv.condIn = fwd.condIn
      ∧ ∀ b, b < B → inv.ld[b]? = (fwd.ld[b]?).map (fun l => -l) :=
  (coupling_cubic_tails_roundtrip_real cubicTailsCfgValid_example mask B S x #[] #[] #[]
    (cubicTailsParamsExact_example _ S B) hsz).1

/-- the whole-line inverse statements instantiated at the example -/
theorem cubic_tails_inv_example :
    StrictMono (cubicInvT eT 1.0 0.0 0.0 1e-5 1e-3 [0, 0] [0, 0] 0 0) ∧
    Function.Bijective (cubicInvT eT 1.0 0.0 0.0 1e-5 1e-3 [0, 0] [0, 0] 0 0) ∧
    (∀ x, cubicInvT eT 1.0 0.0 0.0 1e-5 1e-3 [0, 0] [0, 0] 0 0
      (TailsWhole.cubicValT eT 1.0 0.0 0.0 1e-5 1e-3 [0, 0] [0, 0] 0 0 x) = x) :=
  ⟨(cubic_tails_inv_whole valid_exampleT consts_exampleT allExact_exampleT eT_neg).2.2.1,
   (cubic_tails_inv_whole valid_exampleT consts_exampleT allExact_exampleT eT_neg).2.2.2.2.1,
   (cubic_tails_round_trips valid_exampleT consts_exampleT allExact_exampleT eT_neg).1⟩

end witness

end CubicLayers
