import NflowsModel.Lemmas.ARWhole
import NflowsModel.Lemmas.StageMore
import NflowsModel.Lemmas.LayerDerivInv
/-!
# Lemmas/ARInverseStage — the `F`-pass inverse loop of the autoregressive transform: exactness (C06 ⇒ C02), as a row-wise
batch stage (C12), its round-trip law and the sampling/log_prob pairing (C04), and its log-det as a Jacobian (C01)

`Lemmas/ARWhole.lean` models `AutoregressiveTransform.inverse` (autoregressive.py:43-53) as the executed loop `arInverse` /
`arIter`.  Three files listed the loop as NOT covered; this file closes them:

* §1 **C06's consequence stated outright**: `ar_inverse_exact_after_F_passes` (any scalar type), `…_real`,
  `ar_inverse_exact_any_input_real` (any `y`, not only a forward output), `made_ar_inverse_exact_after_F_passes` (every MADE), and
  SHARPNESS: `ar_one_pass_not_enough` — a 2-feature affine instance where ONE pass returns a wrong second feature and two are exact.
* §2 the loop as a `FlowRowsExec.BStage` `arInvStage`; `rowWise_arInvStage` (rows independent, accepted iff every row alone is
  accepted in every pass; induction on the passes: `arIter_rowEq`, `arPass_err_none_iff_alone`); FINDING
  `arInvStage_zero_features_ld` (`F = 0`: the loop returns no log-det, `ld_len` fails, so `0 < F` is forced).
* §3 `roundTrip_arStage` (`StageMore.RoundTripEq` between the forward AR stage and the inverse-loop stage), `_affine`, `_rq`,
  `_rqTails`; `flowSalpExec_consistent_ar`, `_affine`, `_rq`, `_rqTails` (C04, no round-trip hypothesis left).
* §4 the log-det the loop returns is `log |det|` of the Fréchet derivative of the inverse row map (one-row batch):
  `ar_inverse_logdet_is_jacobian` (generic), `ar_affine_inverse_logdet_is_jacobian`, `ar_rq_inverse_logdet_is_jacobian`.
* §5 concrete instances: a toy MADE at the `Int` semantics (`decide +kernel`), `sharpNetB` at the reals.
Not covered: §4 for the RQ-with-linear-tails family; the quadratic / cubic / linear element families in §3-§4 (only the generic
forms with the hypothesis `ArElInvertibleRev` apply); §4 for a batch of several rows with a conditioner that couples the rows.
-/
open NF NF.StructureExec NF.RowErr NF.FlowRowsExec NF.StageMore NF.ARWhole

namespace NF.ARInverseStage
variable {α : Type}

/-! ## 1. C06 ⇒ "the inverse is exact after one pass per feature" -/

/-- **C06's consequence, any scalar type.**  For a strictly autoregressive conditioner (`AutoregNet`; every MADE by
    `Properties.C06.made_is_autoreg_conditioner`) and elements that invert on the forward parameters: with `y = forward x`,
    after `F` passes of the executed loop from zeros the result `r` (i) IS `x`, (ii) satisfies `forward r = y` exactly with no
    exception, (iii) after pass `k` the first `k` features of every row are final, (iv) the last pass raises nothing and (v) for
    `F ≥ 1` the returned log-det of row `b` is the fold of the NEGATED element log-derivatives of the forward pass at `r`. -/
theorem ar_inverse_exact_after_F_passes (o : XOps α) (c : ElCfg) (B F : Nat) (net : Array α → Array α) (x : Array α)
    (hnet : AutoregNet B F (pw c) net) (hinv : ArElInvertible o c F (net x) B)
    (herr : (arForward o c B F net x).err = none) (hx : x.size = B * F) :
    let y := (arForward o c B F net x).out
    let r := arInverse o c B F net y
    r.out = x
      ∧ (arForward o c B F net r.out).out = y ∧ (arForward o c B F net r.out).err = none
      ∧ (∀ k, AgreeBelow B F k (arIter o c B F net y k).out x)
      ∧ (arApply o c B F y (net (arIter o c B F net y (F - 1)).out) true).err = none
      ∧ (0 < F → ∀ b, b < B →
          (arForward o c B F net r.out).ld[b]?
            = some ((List.range F).foldl (fun acc i => o.add acc (ldOf o (arEl o c F r.out (net r.out) false b i))) o.zero)
          ∧ r.ld[b]? = some ((List.range F).foldl
              (fun acc i => o.add acc (o.neg (ldOf o (arEl o c F r.out (net r.out) false b i)))) o.zero)) := by
  intro y r
  have h1 : r.out = x := ar_inverse_forward o c B F net x hnet hinv herr hx
  refine ⟨h1, by rw [h1], by rw [h1]; exact herr, arIter_prefix o c B F net x hnet hinv herr hx,
    ar_inverse_last_pass_ok o c B F net x hnet hinv herr hx, ?_⟩
  intro hF b hb
  rw [h1]
  exact ar_inverse_forward_ld o c B F net x hnet hinv herr hx hF hb

/-- **over the reals**: the returned log-det is minus the forward log-det at the result -/
theorem ar_inverse_exact_after_F_passes_real (e : Float → ℝ) (c : ElCfg) (B F : Nat) (net : Array ℝ → Array ℝ)
    (x : Array ℝ) (hnet : AutoregNet B F (pw c) net) (hinv : ArElInvertible (NF.realX e) c F (net x) B)
    (herr : (arForward (NF.realX e) c B F net x).err = none) (hx : x.size = B * F) :
    let y := (arForward (NF.realX e) c B F net x).out
    let r := arInverse (NF.realX e) c B F net y
    r.out = x
      ∧ (arForward (NF.realX e) c B F net r.out).out = y ∧ (arForward (NF.realX e) c B F net r.out).err = none
      ∧ (∀ k, AgreeBelow B F k (arIter (NF.realX e) c B F net y k).out x)
      ∧ (0 < F → ∀ b, b < B → r.ld[b]? = ((arForward (NF.realX e) c B F net r.out).ld[b]?).map (fun l => -l)) := by
  intro y r
  obtain ⟨h1, h2, _, h4⟩ := ar_inverse_forward_real e c B F net x hnet hinv herr hx
  have h1' : r.out = x := h1
  refine ⟨h1', by rw [h1'], by rw [h1']; exact herr, h2, ?_⟩
  intro hF b hb
  rw [h1']
  exact h4 hF b hb

/-- **any input `y`** (not assumed to be a forward output): if no pass of the loop raised and the elements invert in the
    order inverse-then-forward, the result `r` of the `F` passes satisfies `forward r = y` exactly and the returned log-det is
    minus the forward log-det at `r`. -/
theorem ar_inverse_exact_any_input_real (e : Float → ℝ) (c : ElCfg) (B F : Nat) (net : Array ℝ → Array ℝ) (y : Array ℝ)
    (hnet : AutoregNet B F (pw c) net) (hy : y.size = B * F)
    (herr : (arInverse (NF.realX e) c B F net y).err = none)
    (hrev : ArElInvertibleRev (NF.realX e) c F (net (arInverse (NF.realX e) c B F net y).out) B) :
    let r := arInverse (NF.realX e) c B F net y
    (arForward (NF.realX e) c B F net r.out).out = y ∧ (arForward (NF.realX e) c B F net r.out).err = none
      ∧ (0 < F → ∀ b, b < B → r.ld[b]? = ((arForward (NF.realX e) c B F net r.out).ld[b]?).map (fun l => -l)) := by
  intro r
  obtain ⟨h1, h2, h3⟩ := ar_forward_inverse_real e c B F net y hnet hy herr hrev
  refine ⟨h1, h2, ?_⟩
  intro hF b hb
  have h := h3 hF b hb
  have hb' : b < (arInverse (NF.realX e) c B F net y).ld.length := by
    obtain ⟨k, rfl⟩ : ∃ k, F = k + 1 := ⟨F - 1, by omega⟩
    rw [arInverse_eq_iter, arIter_succ, arPass_ld, arApply, elemwise_ld_length]
    exact hb
  show (arInverse (NF.realX e) c B F net y).ld[b]? = _
  rw [h, List.getElem?_eq_getElem hb']
  simp

/-- **C06 ⇒ exact inverse, for every MADE** (`Made.build` accepts the architecture; multiplier = parameter count of the element
    family): `Properties.C06.made_is_autoreg_conditioner` discharges `AutoregNet`, so for every weight / bias / context / activation
    / batch-norm / dropout assignment and every batch size the `F`-pass loop is exact. -/
theorem made_ar_inverse_exact_after_F_passes (e : Float → ℝ) (c : ElCfg) (a : Made.Arch) (n : Made.Net)
    (hbuild : Made.build a = .ok n) (hmult : a.mult = pw c) (W : ℕ → ℕ → ℕ → ℝ) (bias : ℕ → ℕ → ℝ) (B : Nat)
    (ctxv : ℕ → ℕ → Fin B → ℝ) (g : ℕ → Made.Slot → ℕ → (Fin B → ℝ) → Fin B → ℝ) (x : Array ℝ) (hx : x.size = B * a.F)
    (hinv : ArElInvertible (NF.realX e) c a.F (madeNet n W bias B ctxv g x) B)
    (herr : (arForward (NF.realX e) c B a.F (madeNet n W bias B ctxv g) x).err = none) :
    let net := madeNet n W bias B ctxv g
    let y := (arForward (NF.realX e) c B a.F net x).out
    let r := arInverse (NF.realX e) c B a.F net y
    r.out = x
      ∧ (arForward (NF.realX e) c B a.F net r.out).out = y ∧ (arForward (NF.realX e) c B a.F net r.out).err = none
      ∧ (∀ k, AgreeBelow B a.F k (arIter (NF.realX e) c B a.F net y k).out x)
      ∧ (∀ b, b < B → r.ld[b]? = ((arForward (NF.realX e) c B a.F net r.out).ld[b]?).map (fun l => -l)) := by
  obtain ⟨hv, hF, hm, hFa, hma⟩ := Made.build_valid hbuild
  have hnet : AutoregNet B a.F (pw c) (madeNet n W bias B ctxv g) := by
    rw [← hmult, ← hma, ← hFa]; exact madeNet_autoreg n hv hm W bias B ctxv g
  intro net y r
  obtain ⟨h1, h2, h3, h4, h5⟩ := ar_inverse_exact_after_F_passes_real e c B a.F _ x hnet hinv herr hx
  exact ⟨h1, h2, h3, h4, h5 (by omega)⟩

/-! ### sharpness: fewer than `F` passes do not suffice -/

/-- the affine autoregressive element configuration -/
def cA : ElCfg := { container := "ar", kind := "araffine" }

/-- every double read as `0` (so the `eps` added to the scale is `0 ≥ 0`) -/
def e0 : Float → ℝ := fun _ => 0

/-- a 2-feature autoregressive conditioner on one row: both raw scales are `21` (`softplus 21 = 21`), the shift of feature `0`
    is `0`, the shift of feature `1` is the value of feature `0` -/
def sharpNet : Array ℝ → Array ℝ := fun z => #[21, 0, 21, z.getD 0 0]

theorem sharpNet_autoreg : AutoregNet 1 2 2 sharpNet := by
  intro x x' i _ _ hi hag b k hb hk
  obtain rfl : b = 0 := by omega
  have hi' : i = 0 ∨ i = 1 := by omega
  have hk' : k = 0 ∨ k = 1 := by omega
  rcases hi' with rfl | rfl <;> rcases hk' with rfl | rfl
  · rfl
  · rfl
  · rfl
  · have h0 := hag 0 0 Nat.one_pos Nat.one_pos
    have hg : x.getD 0 0 = x'.getD 0 0 := getD_congr (by simpa using h0) 0
    simp [sharpNet, hg]

theorem afScale_sharp (p : List ℝ) (hp : p.getD 0 0 = 21) : afScale (NF.realX e0) cA p = 21 := by
  simp only [afScale, realX_add, realX_ofFloat, realX_softplus, realX_zero, hp, e0]
  norm_num

/-- the executed affine element, inverse direction, at the reals: `(y - shift) / scale` -/
theorem outOf_araffine_inv (e : Float → ℝ) (c : ElCfg) (hk : c.kind = "araffine") (p : List ℝ) (y : ℝ) :
    outOf (NF.realX e) (elTransform (NF.realX e) c true p y) = (y - p.getD 1 0) / afScale (NF.realX e) c p := by
  rw [elTransform_araffine _ c hk]
  simp [scaleShiftT, Except.map, outOf]

/-- the executed affine element, forward direction, at the reals: `x * scale + shift` -/
theorem outOf_araffine_fwd (e : Float → ℝ) (c : ElCfg) (hk : c.kind = "araffine") (p : List ℝ) (x : ℝ) :
    outOf (NF.realX e) (elTransform (NF.realX e) c false p x) = x * afScale (NF.realX e) c p + p.getD 1 0 := by
  rw [elTransform_araffine _ c hk]
  simp [scaleShiftT, Except.map, outOf]

/-- entry `(b, i)` of the loop state after `k + 1` passes -/
theorem arIter_succ_getElem? (o : XOps α) (c : ElCfg) (B F : Nat) (net : Array α → Array α) (y : Array α) (k : Nat)
    {b i : Nat} (hb : b < B) (hi : i < F) :
    (arIter o c B F net y (k + 1)).out[b * F + i]?
      = some (outOf o (arEl o c F y (net (arIter o c B F net y k).out) true b i)) := by
  rw [arIter_succ o c B F net y k, arPass_out, arApply, elemwise_out_getElem? o B F _ hb hi]

theorem arForward_getElem? (o : XOps α) (c : ElCfg) (B F : Nat) (net : Array α → Array α) (x : Array α)
    {b i : Nat} (hb : b < B) (hi : i < F) :
    (arForward o c B F net x).out[b * F + i]? = some (outOf o (arEl o c F x (net x) false b i)) := by
  rw [arForward, arApply, elemwise_out_getElem? o B F _ hb hi]

theorem sharp_slice (z : Array ℝ) (i : Nat) (hi : i < 2) :
    arSlice (NF.realX e0) cA 2 (sharpNet z) 0 i = if i = 0 then [21, 0] else [21, z.getD 0 0] := by
  have hi' : i = 0 ∨ i = 1 := by omega
  rcases hi' with rfl | rfl <;> simp [arSlice, pw, cA, sharpNet, List.range_succ]

/-- the forward pass of the instance sends `x = [1, 0]` to `y = [21, 1]` -/
theorem sharp_forward : (arForward (NF.realX e0) cA 1 2 sharpNet #[1, 0]).out = #[21, 1] := by
  apply Array.ext_getElem?
  intro j
  by_cases hj : j < 2
  · have hj' : j = 0 ∨ j = 1 := by omega
    rcases hj' with rfl | rfl
    · have h := arForward_getElem? (NF.realX e0) cA 1 2 sharpNet #[1, 0] (b := 0) (i := 0) Nat.one_pos (by omega)
      rw [arEl_eq, sharp_slice _ 0 (by omega), outOf_araffine_fwd e0 cA rfl, afScale_sharp _ (by simp)] at h
      simp only [Nat.zero_mul, Nat.zero_add] at h
      rw [h]
      norm_num
    · have h := arForward_getElem? (NF.realX e0) cA 1 2 sharpNet #[1, 0] (b := 0) (i := 1) Nat.one_pos (by omega)
      rw [arEl_eq, sharp_slice _ 1 (by omega), outOf_araffine_fwd e0 cA rfl, afScale_sharp _ (by simp)] at h
      simp only [Nat.zero_mul, Nat.zero_add] at h
      rw [h]
      norm_num
  · have h1 : ¬ j < (arForward (NF.realX e0) cA 1 2 sharpNet #[1, 0]).out.size := by
      rw [arForward, arApply_out_size]; omega
    rw [getElem?_none_of_not_lt h1, getElem?_none_of_not_lt (by simpa using hj)]

/-- **"one pass per feature" is sharp.**  A concrete masked-affine instance with `F = 2` features (one row, autoregressive
    conditioner `sharpNet`, `x = [1, 0]`, `y = forward x = [21, 1]`): after ONE pass of the executed loop the first feature is
    final (`1`) but the second one is `1/21`, not `0`; after the `F = 2` passes the result is `x` exactly.  So `F` passes are
    needed in general, and `arIter_prefix` (nothing is claimed about the features `≥ k` after pass `k`) cannot be improved. -/
theorem ar_one_pass_not_enough :
    AutoregNet 1 2 (pw cA) sharpNet
      ∧ (arForward (NF.realX e0) cA 1 2 sharpNet #[1, 0]).out = #[21, 1]
      ∧ (arIter (NF.realX e0) cA 1 2 sharpNet #[21, 1] 1).out[0]? = some 1
      ∧ (arIter (NF.realX e0) cA 1 2 sharpNet #[21, 1] 1).out[1]? = some (1 / 21)
      ∧ (arIter (NF.realX e0) cA 1 2 sharpNet #[21, 1] 1).out ≠ #[1, 0]
      ∧ (arInverse (NF.realX e0) cA 1 2 sharpNet #[21, 1]).out = #[1, 0] := by
  have hnet : AutoregNet 1 2 (pw cA) sharpNet := sharpNet_autoreg
  have h0 : (arIter (NF.realX e0) cA 1 2 sharpNet #[21, 1] 1).out[0]? = some 1 := by
    have h := arIter_succ_getElem? (NF.realX e0) cA 1 2 sharpNet #[21, 1] 0 (b := 0) (i := 0) Nat.one_pos (by omega)
    rw [arEl_eq, sharp_slice _ 0 (by omega), outOf_araffine_inv e0 cA rfl, afScale_sharp _ (by simp)] at h
    simp only [Nat.zero_mul, Nat.zero_add] at h
    rw [h]
    norm_num
  have h1 : (arIter (NF.realX e0) cA 1 2 sharpNet #[21, 1] 1).out[1]? = some (1 / 21) := by
    have h := arIter_succ_getElem? (NF.realX e0) cA 1 2 sharpNet #[21, 1] 0 (b := 0) (i := 1) Nat.one_pos (by omega)
    rw [arEl_eq, sharp_slice _ 1 (by omega), outOf_araffine_inv e0 cA rfl, afScale_sharp _ (by simp)] at h
    simp only [Nat.zero_mul, Nat.zero_add] at h
    rw [h]
    simp [arIter, arInit]
  refine ⟨hnet, sharp_forward, h0, h1, ?_, ?_⟩
  · intro h
    rw [h] at h1
    norm_num at h1
  · have := ar_inverse_forward (NF.realX e0) cA 1 2 sharpNet #[1, 0] hnet
      (arElInvertible_araffine_real e0 cA rfl (le_refl _) 2 _ 1).1
      (ar_affine_err_none (NF.realX e0) cA rfl 1 2 sharpNet #[1, 0]).1 rfl
    rw [sharp_forward] at this
    exact this

/-- the positive theorem on the same instance: the hypotheses of `ar_inverse_exact_after_F_passes_real` are satisfiable -/
example : (arInverse (NF.realX e0) cA 1 2 sharpNet (arForward (NF.realX e0) cA 1 2 sharpNet #[1, 0]).out).out = #[1, 0] :=
  (ar_inverse_exact_after_F_passes_real e0 cA 1 2 sharpNet #[1, 0] sharpNet_autoreg
    (arElInvertible_araffine_real e0 cA rfl (le_refl _) 2 _ 1).1
    (ar_affine_err_none (NF.realX e0) cA rfl 1 2 sharpNet #[1, 0]).1 rfl).1

/-! ## 2. The `F`-pass loop as a batch stage, and its row independence (C12) -/

section stage
variable (o : XOps α) (c : ElCfg) (F : Nat)

/-- **`AutoregressiveTransform.inverse` as a batch-level call** (autoregressive.py:43-53): the WHOLE `F`-pass loop, the
    autoregressive network `net` (batch size, current outputs `[B, F]`, context `[B, cw]` ↦ `[B, F * m]`) being re-run on the
    current outputs in every pass.  (`FlowRowsExec.arStage … true` is ONE pass only.) -/
def arInvStage (net : Nat → Array α → Array α → Array α) : BStage α :=
  fun B y ctx => ofT (arInverse o c B F (fun z => net B z ctx) y)

/-- the forward stage of `FlowRowsExec` is `ARWhole.arForward` with the network closed over the batch size and the context -/
theorem arStage_forward_eq (net : Nat → Array α → Array α → Array α) (B : Nat) (x ctx : Array α) :
    arStage o c F false net B x ctx = ofT (arForward o c B F (fun z => net B z ctx) x) := rfl

theorem arInit_rowEq {b b' : Nat} {y y' : Array α} (h : RowEq F b b' y y') :
    RowEq F b b' (arInit o y).out (arInit o y').out := by
  intro k hk
  have := h k hk
  simp only [arInit, Array.getElem?_replicate]
  by_cases h1 : b * F + k < y.size
  · have h2 : b' * F + k < y'.size := by
      by_contra h2
      rw [Array.getElem?_eq_getElem h1, getElem?_none_of_not_lt h2] at this
      cases this
    rw [if_pos h1, if_pos h2]
  · have h2 : ¬ b' * F + k < y'.size := by
      intro h2
      rw [getElem?_none_of_not_lt h1, Array.getElem?_eq_getElem h2] at this
      cases this
    rw [if_neg h1, if_neg h2]

/-- element `(b, i)` of a pass of the loop depends only on row `b` of the loop input, of the current outputs and of the context -/
theorem arElInv_rows {B B' b b' : Nat} (net : Nat → Array α → Array α → Array α) (cw : Nat)
    (hnet : NetRowWise F cw (F * arMult c) net) (inverse : Bool) (y y' z z' ctx ctx' : Array α) (hb : b < B) (hb' : b' < B')
    (hy : RowEq F b b' y y') (hz : RowEq F b b' z z') (hc : RowEq cw b b' ctx ctx') (i : Nat) (hi : i < F) :
    arEl o c F y (net B z ctx) inverse b i = arEl o c F y' (net B' z' ctx') inverse b' i := by
  have hp := hnet z z' ctx ctx' hb hb' hz hc
  unfold arEl
  simp only
  rw [getD_congr (hy i hi)]
  congr 1
  apply List.map_congr_left
  intro k hk
  apply getD_congr
  rw [idx_split, idx_split]
  exact hp _ (lt_mul_of hi (List.mem_range.1 hk))

/-- **after every number of passes the loop states of two calls agree on the rows where their inputs and contexts agree**
    (whether or not any pass raised; induction on the passes) -/
theorem arIter_rowEq {B B' b b' : Nat} (net : Nat → Array α → Array α → Array α) (cw : Nat)
    (hnet : NetRowWise F cw (F * arMult c) net) (y y' ctx ctx' : Array α) (hb : b < B) (hb' : b' < B')
    (hy : RowEq F b b' y y') (hc : RowEq cw b b' ctx ctx') (k : Nat) :
    RowEq F b b' (arIter o c B F (fun z => net B z ctx) y k).out (arIter o c B' F (fun z => net B' z ctx') y' k).out := by
  induction k with
  | zero => exact arInit_rowEq o F hy
  | succ k ih =>
    rw [arIter_succ, arIter_succ, arPass_out, arPass_out, arApply, arApply]
    exact (elemwise_rows_agree o F _ _ hb hb'
      (fun i hi => arElInv_rows o c F net cw hnet true y y' _ _ ctx ctx' hb hb' hy ih hc i hi)).1

/-- … and so do the log-dets of the last pass -/
theorem arIter_ld_rowEq {B B' b b' : Nat} (net : Nat → Array α → Array α → Array α) (cw : Nat)
    (hnet : NetRowWise F cw (F * arMult c) net) (y y' ctx ctx' : Array α) (hb : b < B) (hb' : b' < B')
    (hy : RowEq F b b' y y') (hc : RowEq cw b b' ctx ctx') (k : Nat) :
    (arIter o c B F (fun z => net B z ctx) y (k + 1)).ld[b]?
      = (arIter o c B' F (fun z => net B' z ctx') y' (k + 1)).ld[b']? := by
  rw [arIter_succ, arIter_succ, arPass_ld, arPass_ld, arApply, arApply]
  exact (elemwise_rows_agree o F _ _ hb hb'
    (fun i hi => arElInv_rows o c F net cw hnet true y y' _ _ ctx ctx' hb hb' hy
      (arIter_rowEq o c F net cw hnet y y' ctx ctx' hb hb' hy hc k) hc i hi)).2

/-- one pass is accepted on the batch iff it is accepted on every row alone -/
theorem arPass_err_none_iff_alone {B : Nat} (net : Nat → Array α → Array α → Array α) (cw : Nat)
    (hnet : NetRowWise F cw (F * arMult c) net) (y z ctx : Array α) (yr zr cr : Nat → Array α)
    (hy : ∀ b, b < B → RowEq F b 0 y (yr b)) (hz : ∀ b, b < B → RowEq F b 0 z (zr b))
    (hc : ∀ b, b < B → RowEq cw b 0 ctx (cr b)) :
    (arApply o c B F y (net B z ctx) true).err = none
      ↔ ∀ b, b < B → (arApply o c 1 F (yr b) (net 1 (zr b) (cr b)) true).err = none := by
  unfold arApply
  rw [elemwise_err_rows, List.findSome?_eq_none_iff]
  simp only [List.mem_range]
  constructor
  · intro h b hb
    rw [← h b hb]
    exact (elemwise_err_one_congr o F _ _ (fun i hi =>
      arElInv_rows o c F net cw hnet true y (yr b) z (zr b) ctx (cr b) hb Nat.one_pos (hy b hb) (hz b hb) (hc b hb) i hi)).symm
  · intro h b hb
    rw [← h b hb]
    exact elemwise_err_one_congr o F _ _ (fun i hi =>
      arElInv_rows o c F net cw hnet true y (yr b) z (zr b) ctx (cr b) hb Nat.one_pos (hy b hb) (hz b hb) (hc b hb) i hi)

/-- **the executed `F`-pass inverse loop with a row-wise network is a row-wise stage** (`F ≥ 1`): two accepted calls agree on the
    rows where their inputs and contexts agree (outputs and log-det), the batch call is accepted iff every row alone is accepted
    (in EVERY pass), one log-det per row. -/
theorem rowWise_arInvStage (hF : 0 < F) (cw : Nat) (net : Nat → Array α → Array α → Array α)
    (hnet : NetRowWise F cw (F * arMult c) net) : RowWiseStage F cw (arInvStage o c F net) where
  agree := by
    intro B B' b b' x x' ctx ctx' y y' l l' hb hb' hx hc h h'
    obtain ⟨-, rfl, rfl⟩ := ofT_eq_ok h
    obtain ⟨-, rfl, rfl⟩ := ofT_eq_ok h'
    obtain ⟨k, rfl⟩ : ∃ k, F = k + 1 := ⟨F - 1, by omega⟩
    rw [arInverse_eq_iter, arInverse_eq_iter]
    exact ⟨arIter_rowEq o c (k + 1) net cw hnet x x' ctx ctx' hb hb' hx hc (k + 1),
      arIter_ld_rowEq o c (k + 1) net cw hnet x x' ctx ctx' hb hb' hx hc k⟩
  accept := by
    intro B x ctx xr cr hx hc
    simp only [arInvStage, ofT_ok_iff, arInverse_eq_iter, arIter_err_none]
    constructor
    · intro h b hb j hj
      exact (arPass_err_none_iff_alone o c F net cw hnet x _ ctx xr
        (fun b => (arIter o c 1 F (fun z => net 1 z (cr b)) (xr b) j).out) cr hx
        (fun b hb => arIter_rowEq o c F net cw hnet x (xr b) ctx (cr b) hb Nat.one_pos (hx b hb) (hc b hb) j) hc).1
        (h j hj) b hb
    · intro h j hj
      exact (arPass_err_none_iff_alone o c F net cw hnet x _ ctx xr
        (fun b => (arIter o c 1 F (fun z => net 1 z (cr b)) (xr b) j).out) cr hx
        (fun b hb => arIter_rowEq o c F net cw hnet x (xr b) ctx (cr b) hb Nat.one_pos (hx b hb) (hc b hb) j) hc).2
        (fun b hb => h b hb j hj)
  ld_len := by
    intro B x ctx y l h
    obtain ⟨-, -, rfl⟩ := ofT_eq_ok h
    obtain ⟨k, rfl⟩ : ∃ k, F = k + 1 := ⟨F - 1, by omega⟩
    rw [arInverse_eq_iter, arIter_succ, arPass_ld, arApply]
    exact elemwise_ld_length o B (k + 1) _

/-- **FINDING (forced hypothesis `0 < F`)**: with no feature the loop body never runs; the code returns `logabsdet = None`, the
    model the empty list — not one log-det per row.  So `ld_len` (hence `RowWiseStage`) fails for `F = 0`, `B ≥ 1`. -/
theorem arInvStage_zero_features_ld (net : Nat → Array α → Array α → Array α) (B : Nat) (y ctx : Array α) :
    arInvStage o c 0 net B y ctx = .ok (Array.replicate y.size o.zero, []) := rfl

/-- which pass decides: the loop on the batch raises nothing iff no pass raises on any row run alone -/
theorem arInvStage_accepted_iff {B : Nat} (cw : Nat) (net : Nat → Array α → Array α → Array α)
    (hnet : NetRowWise F cw (F * arMult c) net) (hF : 0 < F) (x ctx : Array α) (xr cr : Nat → Array α)
    (hx : ∀ b, b < B → RowEq F b 0 x (xr b)) (hc : ∀ b, b < B → RowEq cw b 0 ctx (cr b)) :
    (∃ r, arInvStage o c F net B x ctx = .ok r) ↔ ∀ b, b < B → ∃ r, arInvStage o c F net 1 (xr b) (cr b) = .ok r :=
  (rowWise_arInvStage o c F hF cw net hnet).accept B x ctx xr cr hx hc

end stage

/-! ## 3. The round-trip law between the forward stage and the inverse-loop stage (C02), and the C04 pairing -/

section roundtrip
variable (e : Float → ℝ) (c : ElCfg) (F : Nat) (net : Nat → Array ℝ → Array ℝ → Array ℝ)

/-- **`StageMore.RoundTripEq` for the masked autoregressive transform.**  For a one-row input `z` of `F ≥ 1` entries: whenever the
    `F`-pass inverse loop is accepted with `(s, l)`, `s` has `F` entries, `l = [d]`, and the forward autoregressive stage (the
    network re-run on `s`) is accepted and returns the array `z` itself with log-det `[-d]`.  Hypotheses: the network is
    autoregressive on one row for every context, the elements invert in the order inverse-then-forward. -/
theorem roundTrip_arStage (hF : 0 < F)
    (hnet : ∀ ctx, AutoregNet 1 F (pw c) (fun z => net 1 z ctx))
    (hrev : ∀ params, ArElInvertibleRev (NF.realX e) c F params 1) :
    RoundTripEq (NF.realX e) (fun z => z.size = F) (fun s => s.size = F)
      (arStage (NF.realX e) c F false net) (arInvStage (NF.realX e) c F net) := by
  intro z ctx s l hz h
  obtain ⟨herr, rfl, rfl⟩ := ofT_eq_ok h
  have hz' : z.size = 1 * F := by rw [hz, Nat.one_mul]
  obtain ⟨hout, herr', hld⟩ := ar_forward_inverse_real e c 1 F (fun z => net 1 z ctx) z (hnet ctx) hz' herr (hrev _)
  have hlen : (arInverse (NF.realX e) c 1 F (fun z => net 1 z ctx) z).ld.length = 1 := by
    obtain ⟨k, rfl⟩ : ∃ k, F = k + 1 := ⟨F - 1, by omega⟩
    rw [arInverse_eq_iter, arIter_succ, arPass_ld, arApply]
    exact elemwise_ld_length _ 1 (k + 1) _
  obtain ⟨d, hd⟩ := list_len_one _ hlen
  obtain ⟨d', hd'⟩ := list_len_one
    (arForward (NF.realX e) c 1 F (fun z => net 1 z ctx) (arInverse (NF.realX e) c 1 F (fun z => net 1 z ctx) z).out).ld
    (by rw [arForward, arApply]; exact elemwise_ld_length _ 1 F _)
  refine ⟨?_, d, hd, ?_⟩
  · show (arInverse (NF.realX e) c 1 F (fun z => net 1 z ctx) z).out.size = F
    rw [arInverse_eq_iter, arIter_out_size _ c 1 F _ z hz' F, Nat.one_mul]
  · rw [arStage_forward_eq, ofT_of_err_none herr', hout, hd']
    have h0 := hld hF 0 Nat.one_pos
    rw [hd, hd'] at h0
    simp only [List.getElem?_cons_zero, Option.map_some, Option.some.injEq] at h0
    rw [h0]
    rfl

/-- **MAF (`MaskedAffineAutoregressiveTransform`)**: no element hypothesis (`eps` read as a non-negative real) -/
theorem roundTrip_arStage_affine (hk : c.kind = "araffine") (he : 0 ≤ e (c.ds.getD 0 0.0)) (hF : 0 < F)
    (hnet : ∀ ctx, AutoregNet 1 F 2 (fun z => net 1 z ctx)) :
    RoundTripEq (NF.realX e) (fun z => z.size = F) (fun s => s.size = F)
      (arStage (NF.realX e) c F false net) (arInvStage (NF.realX e) c F net) :=
  roundTrip_arStage e c F net hF (fun ctx => by rw [pw_araffine hk]; exact hnet ctx)
    (fun params => (arElInvertible_araffine_real e c hk he F params 1).2)

/-- **bounded rational-quadratic masked autoregressive transform**: any accepted configuration -/
theorem roundTrip_arStage_rq (hc : RQCfgValid e c) (hF : 0 < F)
    (hnet : ∀ ctx, AutoregNet 1 F (3 * c.K + 1) (fun z => net 1 z ctx)) :
    RoundTripEq (NF.realX e) (fun z => z.size = F) (fun s => s.size = F)
      (arStage (NF.realX e) c F false net) (arInvStage (NF.realX e) c F net) := by
  intro z ctx s l hz h
  obtain ⟨herr, hs, hl⟩ := ofT_eq_ok h
  -- the generic proof with the element law at the parameters the conditioner actually returns
  have hz' : z.size = 1 * F := by rw [hz, Nat.one_mul]
  have hnet' : AutoregNet 1 F (pw c) (fun z => net 1 z ctx) := by rw [pw_rq hc.hk hc.ht]; exact hnet ctx
  have hsz : (arInverse (NF.realX e) c 1 F (fun z => net 1 z ctx) z).out.size = 1 * F := by
    rw [arInverse_eq_iter]; exact arIter_out_size _ c 1 F _ z hz' F
  have hrev : ArElInvertibleRev (NF.realX e) c F
      ((fun z => net 1 z ctx) (arInverse (NF.realX e) c 1 F (fun z => net 1 z ctx) z).out) 1 :=
    arElInvertibleRev_rq_real e c hc.hk hc.ht F _ 1 (rqNetValid_of_cfg e c hc 1 F (fun z => net 1 z ctx) _ hsz)
  subst hs hl
  obtain ⟨hout, herr', hld⟩ := ar_forward_inverse_real e c 1 F (fun z => net 1 z ctx) z hnet' hz' herr hrev
  have hlen : (arInverse (NF.realX e) c 1 F (fun z => net 1 z ctx) z).ld.length = 1 := by
    obtain ⟨k, rfl⟩ : ∃ k, F = k + 1 := ⟨F - 1, by omega⟩
    rw [arInverse_eq_iter, arIter_succ, arPass_ld, arApply]
    exact elemwise_ld_length _ 1 (k + 1) _
  obtain ⟨d, hd⟩ := list_len_one _ hlen
  obtain ⟨d', hd'⟩ := list_len_one
    (arForward (NF.realX e) c 1 F (fun z => net 1 z ctx) (arInverse (NF.realX e) c 1 F (fun z => net 1 z ctx) z).out).ld
    (by rw [arForward, arApply]; exact elemwise_ld_length _ 1 F _)
  refine ⟨by show _ = F; rw [hsz, Nat.one_mul], d, hd, ?_⟩
  rw [arStage_forward_eq, ofT_of_err_none herr', hout, hd']
  have h0 := hld hF 0 Nat.one_pos
  rw [hd, hd'] at h0
  simp only [List.getElem?_cons_zero, Option.map_some, Option.some.injEq] at h0
  rw [h0]
  rfl

/-- the RQ family with linear tails, autoregressive slice layout: EVERY parameter array inverts in the order
    inverse-then-forward, no domain condition -/
theorem arElInvertibleRev_rq_tails_real (hc : RQTailsCfgValid e c) (params : Array ℝ) (B : Nat) :
    ArElInvertibleRev (NF.realX e) c F params B := by
  intro b i yi x l al _ _ hf
  have hpw : pw c = 3 * c.K - 1 := by
    rw [← mult_rq_tails hc.hk hc.ht]; simp [pw, hc.hk]
  have hv := rqTailsSliceValid_of_cfg hc (arSlice (NF.realX e) c F params b i) (by rw [arSlice_length, hpw])
  exact ⟨[], rqTails_real_invertible_rev e c hc.hk hc.ht _ hv hf⟩

/-- **masked autoregressive RQ transform with linear tails**: any accepted configuration -/
theorem roundTrip_arStage_rqTails (hc : RQTailsCfgValid e c) (hF : 0 < F)
    (hnet : ∀ ctx, AutoregNet 1 F (pw c) (fun z => net 1 z ctx)) :
    RoundTripEq (NF.realX e) (fun z => z.size = F) (fun s => s.size = F)
      (arStage (NF.realX e) c F false net) (arInvStage (NF.realX e) c F net) :=
  roundTrip_arStage e c F net hF hnet (fun params => arElInvertibleRev_rq_tails_real e c F hc params 1)

variable {rcw cw R n : Nat} {emb : Nat → Array ℝ → Array ℝ} {base : BaseD ℝ} {noise ctx : Array ℝ}

/-- **C04 over the executed masked autoregressive flow (generic element family).**  `sample_and_log_prob` runs the `F`-pass inverse
    loop on the merged noise; the value it returns for sample `[i, j]` is what the executed `log_prob` (forward autoregressive pass,
    network re-run on the sample) assigns to that sample alone under context row `i` alone.  No round-trip hypothesis: it is
    `roundTrip_arStage`; the row independence of the loop is `rowWise_arInvStage`. -/
theorem flowSalpExec_consistent_ar (hF : 0 < F)
    (hauto : ∀ ctx, AutoregNet 1 F (pw c) (fun z => net 1 z ctx))
    (hrev : ∀ params, ArElInvertibleRev (NF.realX e) c F params 1)
    (hnet : NetRowWise F cw (F * arMult c) net)
    (hbase : RowIndepBase cw base) (hemb : EmbRowWise rcw cw emb) (hsize : R * cw ≤ (emb R ctx).size)
    {s : Array ℝ} {lps : List ℝ}
    (h : flowSalpExec (NF.realX e) F cw R n emb (arInvStage (NF.realX e) c F net) base noise ctx = .ok (s, lps))
    {i j : Nat} (hi : i < R) (hj : j < n) (zr cr : Array ℝ) (hzr : zr.size = F)
    (hz : RowEq F (i * n + j) 0 noise zr) (hc : RowEq rcw i 0 ctx cr) :
    ∃ (si : Array ℝ) (lp : ℝ), RowEq F (i * n + j) 0 s si ∧ lps[i * n + j]? = some lp ∧
      flowLogProbExec (NF.realX e) F emb (arStage (NF.realX e) c F false net) base 1 si cr = .ok [lp] :=
  flowSalpExec_consistent_on (NF.realX e) (rowWise_arInvStage (NF.realX e) c F hF cw net hnet) hbase hemb hsize
    ((roundTrip_arStage e c F net hF hauto hrev).on _) (fun a b => sub_eq_add_neg a b) h hi hj zr cr hzr hz hc

/-- **C04 over the executed MAF** (`MaskedAffineAutoregressiveTransform`): nothing assumed about the elements -/
theorem flowSalpExec_consistent_ar_affine (hk : c.kind = "araffine") (he : 0 ≤ e (c.ds.getD 0 0.0)) (hF : 0 < F)
    (hauto : ∀ ctx, AutoregNet 1 F 2 (fun z => net 1 z ctx))
    (hnet : NetRowWise F cw (F * 2) net)
    (hbase : RowIndepBase cw base) (hemb : EmbRowWise rcw cw emb) (hsize : R * cw ≤ (emb R ctx).size)
    {s : Array ℝ} {lps : List ℝ}
    (h : flowSalpExec (NF.realX e) F cw R n emb (arInvStage (NF.realX e) c F net) base noise ctx = .ok (s, lps))
    {i j : Nat} (hi : i < R) (hj : j < n) (zr cr : Array ℝ) (hzr : zr.size = F)
    (hz : RowEq F (i * n + j) 0 noise zr) (hc : RowEq rcw i 0 ctx cr) :
    ∃ (si : Array ℝ) (lp : ℝ), RowEq F (i * n + j) 0 s si ∧ lps[i * n + j]? = some lp ∧
      flowLogProbExec (NF.realX e) F emb (arStage (NF.realX e) c F false net) base 1 si cr = .ok [lp] :=
  flowSalpExec_consistent_ar e c F net hF (fun ctx => by rw [pw_araffine hk]; exact hauto ctx)
    (fun params => (arElInvertible_araffine_real e c hk he F params 1).2)
    (by have : arMult c = 2 := by simp [arMult, hk]
        rw [this]; exact @hnet) hbase hemb hsize h hi hj zr cr hzr hz hc

/-- **C04 over the executed bounded rational-quadratic masked autoregressive flow** -/
theorem flowSalpExec_consistent_ar_rq (hcv : RQCfgValid e c) (hF : 0 < F)
    (hauto : ∀ ctx, AutoregNet 1 F (3 * c.K + 1) (fun z => net 1 z ctx))
    (hnet : NetRowWise F cw (F * arMult c) net)
    (hbase : RowIndepBase cw base) (hemb : EmbRowWise rcw cw emb) (hsize : R * cw ≤ (emb R ctx).size)
    {s : Array ℝ} {lps : List ℝ}
    (h : flowSalpExec (NF.realX e) F cw R n emb (arInvStage (NF.realX e) c F net) base noise ctx = .ok (s, lps))
    {i j : Nat} (hi : i < R) (hj : j < n) (zr cr : Array ℝ) (hzr : zr.size = F)
    (hz : RowEq F (i * n + j) 0 noise zr) (hc : RowEq rcw i 0 ctx cr) :
    ∃ (si : Array ℝ) (lp : ℝ), RowEq F (i * n + j) 0 s si ∧ lps[i * n + j]? = some lp ∧
      flowLogProbExec (NF.realX e) F emb (arStage (NF.realX e) c F false net) base 1 si cr = .ok [lp] :=
  flowSalpExec_consistent_on (NF.realX e) (rowWise_arInvStage (NF.realX e) c F hF cw net hnet) hbase hemb hsize
    ((roundTrip_arStage_rq e c F net hcv hF hauto).on _) (fun a b => sub_eq_add_neg a b) h hi hj zr cr hzr hz hc

/-- **C04 over the executed masked autoregressive RQ flow with linear tails** -/
theorem flowSalpExec_consistent_ar_rqTails (hcv : RQTailsCfgValid e c) (hF : 0 < F)
    (hauto : ∀ ctx, AutoregNet 1 F (pw c) (fun z => net 1 z ctx))
    (hnet : NetRowWise F cw (F * arMult c) net)
    (hbase : RowIndepBase cw base) (hemb : EmbRowWise rcw cw emb) (hsize : R * cw ≤ (emb R ctx).size)
    {s : Array ℝ} {lps : List ℝ}
    (h : flowSalpExec (NF.realX e) F cw R n emb (arInvStage (NF.realX e) c F net) base noise ctx = .ok (s, lps))
    {i j : Nat} (hi : i < R) (hj : j < n) (zr cr : Array ℝ) (hzr : zr.size = F)
    (hz : RowEq F (i * n + j) 0 noise zr) (hc : RowEq rcw i 0 ctx cr) :
    ∃ (si : Array ℝ) (lp : ℝ), RowEq F (i * n + j) 0 s si ∧ lps[i * n + j]? = some lp ∧
      flowLogProbExec (NF.realX e) F emb (arStage (NF.realX e) c F false net) base 1 si cr = .ok [lp] :=
  flowSalpExec_consistent_ar e c F net hF hauto (fun params => arElInvertibleRev_rq_tails_real e c F hcv params 1)
    hnet hbase hemb hsize h hi hj zr cr hzr hz hc

end roundtrip

/-! ## 4. The log-det the inverse loop returns is `log |det|` of the derivative of the inverse row map (C01 / C02) -/

section jacobian
variable (e : Float → ℝ) (c : ElCfg) (F : Nat) (net : Array ℝ → Array ℝ)

/-- the executed `F`-pass inverse loop on ONE row as a map `ℝ^F → ℝ^F` (a one-row batch: a conditioner that couples the rows of a
    batch — batch norm in training mode — makes the row map of a larger batch depend on the other rows' loop states) -/
noncomputable def invRowMap (v : Fin F → ℝ) : Fin F → ℝ :=
  fun i => (arInverse (NF.realX e) c 1 F net (Array.ofFn v)).out.getD i.1 0

theorem setRow_one (x : Array ℝ) (v : Fin F → ℝ) : setRow 1 F x 0 v = Array.ofFn v := by
  apply Array.ext_getElem?
  intro j
  by_cases hj : j < F
  · have h := setRow_getElem? 1 F x 0 v (b' := 0) Nat.one_pos hj
    simp only [Nat.zero_mul, Nat.zero_add, if_true] at h
    rw [h]
    simp [hj]
  · rw [getElem?_none_of_not_lt (by rw [setRow_size]; omega), getElem?_none_of_not_lt (by simpa using hj)]

theorem ofFn_getD {a : Array ℝ} (ha : a.size = F) : Array.ofFn (fun i : Fin F => a.getD i.1 0) = a := by
  apply Array.ext
  · simp [ha]
  · intro i h1 h2
    simp only [Array.getElem_ofFn]
    exact getD_of_lt h2 _

theorem arInverse_out_size_one (y : Array ℝ) (hy : y.size = F) :
    (arInverse (NF.realX e) c 1 F net y).out.size = F := by
  rw [arInverse_eq_iter, arIter_out_size _ c 1 F net y (by rw [hy, Nat.one_mul]) F, Nat.one_mul]

/-- the forward row map undoes the inverse row map wherever the loop raised nothing -/
theorem rowMap_invRowMap (hnet : AutoregNet 1 F (pw c) net)
    (hrev : ∀ params, ArElInvertibleRev (NF.realX e) c F params 1) (x : Array ℝ) (v : Fin F → ℝ)
    (hv : (arInverse (NF.realX e) c 1 F net (Array.ofFn v)).err = none) :
    rowMap e c 1 F net x 0 (invRowMap e c F net v) = v := by
  funext i
  have hsz : (Array.ofFn v).size = 1 * F := by simp
  obtain ⟨hout, -, -⟩ := ar_forward_inverse_real e c 1 F net (Array.ofFn v) hnet hsz hv (hrev _)
  have hof : Array.ofFn (invRowMap e c F net v) = (arInverse (NF.realX e) c 1 F net (Array.ofFn v)).out :=
    ofFn_getD F (arInverse_out_size_one e c F net _ (by simp))
  unfold rowMap
  rw [setRow_one, hof, hout]
  simp

/-- **C01 for the executed inverse loop (one row).**  At an input row `y` around which the loop raises nothing: the log-det the
    `F`-pass loop RETURNS is `log |det Lg|`, `Lg` the Fréchet derivative at `y` of the executed inverse row map.  It is obtained
    from C01 of the forward pass at the result `x` (`ARWhole.ar_row_logdet`: triangular Jacobian, `hdiag` the element law), the
    exact round trip (`ar_forward_inverse_real`) and the chain rule (`LayerDerivInv.logdet_eq_neg_of_roundtrip`). -/
theorem ar_inverse_logdet_is_jacobian (hF : 0 < F) (hnet : AutoregNet 1 F (pw c) net)
    (hrev : ∀ params, ArElInvertibleRev (NF.realX e) c F params 1) (y : Array ℝ) (hy : y.size = F)
    (hok : ∀ᶠ v in nhds (fun i : Fin F => y.getD i.1 0), (arInverse (NF.realX e) c 1 F net (Array.ofFn v)).err = none)
    {Lg Lf : (Fin F → ℝ) →L[ℝ] (Fin F → ℝ)}
    (hLg : HasFDerivAt (invRowMap e c F net) Lg (fun i => y.getD i.1 0))
    (hLf : HasFDerivAt (rowMap e c 1 F net (arInverse (NF.realX e) c 1 F net y).out 0) Lf
      (fun i => (arInverse (NF.realX e) c 1 F net y).out.getD (0 * F + i.1) 0))
    (hdiag : ∀ i : Fin F, HasDerivAt
      (elMap e c F (net (arInverse (NF.realX e) c 1 F net y).out) 0 i)
      (Real.exp (ldOf (NF.realX e) (arEl (NF.realX e) c F (arInverse (NF.realX e) c 1 F net y).out
        (net (arInverse (NF.realX e) c 1 F net y).out) false 0 i)))
      ((arInverse (NF.realX e) c 1 F net y).out.getD (0 * F + i.1) 0)) :
    (arInverse (NF.realX e) c 1 F net y).ld[0]?
        = some (Real.log |LinearMap.det (Lg : (Fin F → ℝ) →ₗ[ℝ] (Fin F → ℝ))|)
      ∧ Real.log |LinearMap.det (Lg : (Fin F → ℝ) →ₗ[ℝ] (Fin F → ℝ))|
        = - Real.log |LinearMap.det (Lf : (Fin F → ℝ) →ₗ[ℝ] (Fin F → ℝ))| := by
  have hyy : Array.ofFn (fun i : Fin F => y.getD i.1 0) = y := ofFn_getD F hy
  have herr0 : (arInverse (NF.realX e) c 1 F net y).err = none := by
    have := hok.self_of_nhds
    rwa [hyy] at this
  have hy' : y.size = 1 * F := by rw [hy, Nat.one_mul]
  have hxs : (arInverse (NF.realX e) c 1 F net y).out.size = 1 * F := by
    rw [arInverse_out_size_one e c F net y hy, Nat.one_mul]
  obtain ⟨-, -, hld⟩ := ar_forward_inverse_real e c 1 F net y hnet hy' herr0 (hrev _)
  have hfw := ar_row_logdet e c 1 F net (arInverse (NF.realX e) c 1 F net y).out hnet hxs Nat.one_pos hLf hdiag
  have hgy : invRowMap e c F net (fun i => y.getD i.1 0)
      = fun i : Fin F => (arInverse (NF.realX e) c 1 F net y).out.getD (0 * F + i.1) 0 := by
    funext i
    simp only [invRowMap, hyy, Nat.zero_mul, Nat.zero_add]
  have hneg := LayerDerivInv.logdet_eq_neg_of_roundtrip (rowMap e c 1 F net (arInverse (NF.realX e) c 1 F net y).out 0)
    (invRowMap e c F net) (fun i => y.getD i.1 0) hLg (by rw [hgy]; exact hLf)
    (by filter_upwards [hok] with v hv
        exact rowMap_invRowMap e c F net hnet hrev _ v hv)
  refine ⟨?_, hneg⟩
  have h0 := hld hF 0 Nat.one_pos
  rw [hfw] at h0
  have hlen : (arInverse (NF.realX e) c 1 F net y).ld.length = 1 := by
    obtain ⟨k, rfl⟩ : ∃ k, F = k + 1 := ⟨F - 1, by omega⟩
    rw [arInverse_eq_iter, arIter_succ, arPass_ld, arApply]
    exact elemwise_ld_length _ 1 (k + 1) _
  obtain ⟨d, hd⟩ := list_len_one _ hlen
  rw [hd] at h0 ⊢
  simp only [List.getElem?_cons_zero, Option.map_some, Option.some.injEq] at h0 ⊢
  rw [hneg]
  linarith

/-- **MAF**: the log-det the executed `F`-pass inverse loop returns is `log |det|` of the derivative of the inverse row map, at
    EVERY row `y` — no element hypothesis, no acceptance hypothesis (the affine loop never raises) -/
theorem ar_affine_inverse_logdet_is_jacobian (hk : c.kind = "araffine") (he : 0 ≤ e (c.ds.getD 0 0.0)) (hF : 0 < F)
    (hnet : AutoregNet 1 F 2 net) (y : Array ℝ) (hy : y.size = F)
    {Lg Lf : (Fin F → ℝ) →L[ℝ] (Fin F → ℝ)}
    (hLg : HasFDerivAt (invRowMap e c F net) Lg (fun i => y.getD i.1 0))
    (hLf : HasFDerivAt (rowMap e c 1 F net (arInverse (NF.realX e) c 1 F net y).out 0) Lf
      (fun i => (arInverse (NF.realX e) c 1 F net y).out.getD (0 * F + i.1) 0)) :
    (arInverse (NF.realX e) c 1 F net y).ld[0]?
        = some (Real.log |LinearMap.det (Lg : (Fin F → ℝ) →ₗ[ℝ] (Fin F → ℝ))|)
      ∧ Real.log |LinearMap.det (Lg : (Fin F → ℝ) →ₗ[ℝ] (Fin F → ℝ))|
        = - Real.log |LinearMap.det (Lf : (Fin F → ℝ) →ₗ[ℝ] (Fin F → ℝ))| := by
  apply ar_inverse_logdet_is_jacobian e c F net hF (by rw [pw_araffine hk]; exact hnet)
    (fun params => (arElInvertible_araffine_real e c hk he F params 1).2) y hy
    (Filter.Eventually.of_forall fun v => (ar_affine_err_none (NF.realX e) c hk 1 F net _).2 (by simp)) hLg hLf
  intro i
  rw [elMap_affine e c hk, ldOf_affine e c hk, Real.exp_log (afScale_pos e c he _)]
  have h := ((hasDerivAt_id ((arInverse (NF.realX e) c 1 F net y).out.getD (0 * F + i.1) 0)).mul_const
    (afScale (NF.realX e) c (arSlice (NF.realX e) c F (net (arInverse (NF.realX e) c 1 F net y).out) 0 i))).add_const
    ((arSlice (NF.realX e) c F (net (arInverse (NF.realX e) c 1 F net y).out) 0 i).getD 1 0)
  simpa using h

/-- for the bounded RQ family every parameter array is invertible in the order inverse-then-forward (the validity of a slice
    depends on the configuration and on the LENGTH of the slice only) -/
theorem arElInvertibleRev_rq_all (hc : RQCfgValid e c) (params : Array ℝ) :
    ArElInvertibleRev (NF.realX e) c F params 1 :=
  arElInvertibleRev_rq_real e c hc.hk hc.ht F params 1
    (rqNetValid_of_cfg e c hc 1 F (fun _ => params) (Array.replicate (1 * F) 0) (by simp))

/-- **bounded rational-quadratic masked autoregressive transform**: at a row `y` strictly inside the output box whose preimage
    `x` has every feature strictly inside a bin of its own spline, the log-det the `F`-pass loop returns is `log |det|` of the
    derivative of the inverse row map -/
theorem ar_rq_inverse_logdet_is_jacobian (hc : RQCfgValid e c) (hF : 0 < F) (hnet : AutoregNet 1 F (3 * c.K + 1) net)
    (y : Array ℝ) (hy : y.size = F)
    (hbox : ∀ i : Fin F, e (rqCfgOf c).box.bottom < y.getD i.1 0 ∧ y.getD i.1 0 < e (rqCfgOf c).box.top)
    (hbin : ∀ i : Fin F, ∃ k, k < c.K ∧
      RQWhole.xs e (rqCfgOf c) (rqW (NF.realX e) c
          (arSlice (NF.realX e) c F (net (arInverse (NF.realX e) c 1 F net y).out) 0 i)) k
        < (arInverse (NF.realX e) c 1 F net y).out.getD (0 * F + i.1) 0
      ∧ (arInverse (NF.realX e) c 1 F net y).out.getD (0 * F + i.1) 0
        < RQWhole.xs e (rqCfgOf c) (rqW (NF.realX e) c
            (arSlice (NF.realX e) c F (net (arInverse (NF.realX e) c 1 F net y).out) 0 i)) (k + 1))
    {Lg Lf : (Fin F → ℝ) →L[ℝ] (Fin F → ℝ)}
    (hLg : HasFDerivAt (invRowMap e c F net) Lg (fun i => y.getD i.1 0))
    (hLf : HasFDerivAt (rowMap e c 1 F net (arInverse (NF.realX e) c 1 F net y).out 0) Lf
      (fun i => (arInverse (NF.realX e) c 1 F net y).out.getD (0 * F + i.1) 0)) :
    (arInverse (NF.realX e) c 1 F net y).ld[0]?
        = some (Real.log |LinearMap.det (Lg : (Fin F → ℝ) →ₗ[ℝ] (Fin F → ℝ))|)
      ∧ Real.log |LinearMap.det (Lg : (Fin F → ℝ) →ₗ[ℝ] (Fin F → ℝ))|
        = - Real.log |LinearMap.det (Lf : (Fin F → ℝ) →ₗ[ℝ] (Fin F → ℝ))| := by
  have hnet' : AutoregNet 1 F (pw c) net := by rw [pw_rq hc.hk hc.ht]; exact hnet
  have hopen : ∀ᶠ v in nhds (fun i : Fin F => y.getD i.1 0), ∀ i : Fin F,
      v i ∈ Set.Ioo (e (rqCfgOf c).box.bottom) (e (rqCfgOf c).box.top) := by
    rw [Filter.eventually_all]
    intro i
    exact (continuous_apply i).continuousAt.eventually (Ioo_mem_nhds (hbox i).1 (hbox i).2)
  have hok : ∀ᶠ v in nhds (fun i : Fin F => y.getD i.1 0),
      (arInverse (NF.realX e) c 1 F net (Array.ofFn v)).err = none := by
    filter_upwards [hopen] with v hv
    apply ar_rq_inverse_err_none e c hc.hk hc.ht 1 F net _ (by simp) (rqNetValid_of_cfg e c hc 1 F net)
    intro j hj
    have hj' : j < F := by omega
    have hg : (Array.ofFn v).getD j 0 = v ⟨j, hj'⟩ := by simp [Array.getD, hj']
    rw [hg]
    exact ⟨(hv ⟨j, hj'⟩).1.le, (hv ⟨j, hj'⟩).2.le⟩
  apply ar_inverse_logdet_is_jacobian e c F net hF hnet' (arElInvertibleRev_rq_all e c F hc) y hy hok hLg hLf
  intro i
  obtain ⟨k, hk, h0, h1⟩ := hbin i
  have hxs : (arInverse (NF.realX e) c 1 F net y).out.size = 1 * F := by
    rw [arInverse_out_size_one e c F net y hy, Nat.one_mul]
  have hv := rqNetValid_of_cfg e c hc 1 F net _ hxs 0 i Nat.one_pos i.2
  have hlen : (rqW (NF.realX e) c
      (arSlice (NF.realX e) c F (net (arInverse (NF.realX e) c 1 F net y).out) 0 i)).length = c.K := by
    rw [rqW, rqScale_length, List.length_take, arSlice_length, pw_rq hc.hk hc.ht]; omega
  rw [elMap_rq e c hc.hk hc.ht, ldOf_rq e c hc.hk hc.ht]
  exact RQWhole.val_hasDerivAt hv k (by rw [hlen]; exact hk) _ h0 h1

end jacobian

/-! ## 5. Concrete instances (non-vacuity) -/

section examples
open NF.RowIndependenceMore

/-- a toy MADE on `[B, 2]` inputs with one context feature per row, at the toy `Int` semantics: the parameters of feature `0` are
    `(ctx + 1, ctx + 2)`, those of feature `1` are `(ctx + 2, 10 · x[b, 0] + ctx)` — autoregressive and row-wise -/
def toyMade : Nat → Array Int → Array Int → Array Int :=
  fun B x c => ((List.range (B * 4)).map fun t =>
    if t % 4 < 2 then c.getD (t / 4) 0 + (t % 4 : Nat) + 1
    else if t % 4 = 2 then c.getD (t / 4) 0 + 2 else 10 * x.getD (t / 4 * 2) 0 + c.getD (t / 4) 0).toArray

/-- the executed stages on a batch of two rows (`F = 2`): the forward pass; the `F`-pass inverse loop stage undoes it with the
    negated log-dets; each row run ALONE through the loop stage returns its row of the batch result (C12); ONE pass from zeros is
    not enough (entry `[1, 1]` is `5`, not `4`); and the single pass `arStage … true` (conditioner fed `y` itself) is not the inverse. -/
example :
    arStage intX cA 2 false toyMade 2 #[1, 2, 3, 4] #[10, 20] = .ok (#[24, 46, 85, 138], [25, 43]) ∧
    arInvStage intX cA 2 toyMade 2 #[24, 46, 85, 138] #[10, 20] = .ok (#[1, 2, 3, 4], [-25, -43]) ∧
    arInvStage intX cA 2 toyMade 1 #[24, 46] #[10] = .ok (#[1, 2], [-25]) ∧
    arInvStage intX cA 2 toyMade 1 #[85, 138] #[20] = .ok (#[3, 4], [-43]) ∧
    (arIter intX cA 2 2 (fun z => toyMade 2 z #[10, 20]) #[24, 46, 85, 138] 1).out = #[1, 2, 3, 5] ∧
    arStage intX cA 2 true toyMade 2 #[24, 46, 85, 138] #[10, 20] = .ok (#[1, -16, 3, -34], [-25, -43]) := by
  decide +kernel

/-- the conditioner `sharpNet` of §1 applied row by row to a batch (context ignored) -/
def sharpNetB : Nat → Array ℝ → Array ℝ → Array ℝ :=
  fun B z _ => ((List.range B).flatMap fun b => [21, 0, 21, z.getD (b * 2) 0]).toArray

theorem arMult_cA : arMult cA = 2 := by decide

theorem sharpNetB_rowWise (cw : Nat) : NetRowWise 2 cw (2 * arMult cA) sharpNetB := by
  rw [arMult_cA]
  intro B B' b b' x x' c c' hb hb' hx _ k hk
  have hg : x.getD (b * 2) 0 = x'.getD (b' * 2) 0 := getD_congr (hx 0 (by omega)) 0
  unfold sharpNetB
  rw [List.getElem?_toArray, List.getElem?_toArray,
    flatMap_range_getElem? _ (2 * 2) B b k (fun _ => rfl) hb hk,
    flatMap_range_getElem? _ (2 * 2) B' b' k (fun _ => rfl) hb' hk, hg]

theorem sharpNetB_one (ctx : Array ℝ) : (fun z => sharpNetB 1 z ctx) = sharpNet := by
  funext z
  simp [sharpNetB, sharpNet]

/-- §2 applied: the `F`-pass inverse loop of this masked affine transform is a row-wise stage, for any context width -/
example (cw : Nat) : RowWiseStage 2 cw (arInvStage (NF.realX e0) cA 2 sharpNetB) :=
  rowWise_arInvStage (NF.realX e0) cA 2 (by omega) cw sharpNetB (sharpNetB_rowWise cw)

/-- §3 applied: the round-trip law holds for it with no hypothesis left … -/
theorem sharp_roundTrip : RoundTripEq (NF.realX e0) (fun z => z.size = 2) (fun s => s.size = 2)
    (arStage (NF.realX e0) cA 2 false sharpNetB) (arInvStage (NF.realX e0) cA 2 sharpNetB) :=
  roundTrip_arStage_affine e0 cA 2 sharpNetB rfl (le_refl _) (by omega)
    (fun ctx => by rw [sharpNetB_one]; exact sharpNet_autoreg)

/-- … and is about accepted calls: on the row `[21, 1]` the loop stage is accepted, and the forward stage undoes it -/
example (ctx : Array ℝ) :
    ∃ s d, arInvStage (NF.realX e0) cA 2 sharpNetB 1 #[21, 1] ctx = .ok (s, [d]) ∧
      arStage (NF.realX e0) cA 2 false sharpNetB 1 s ctx = .ok (#[21, 1], [-d]) := by
  have herr := (ar_affine_err_none (NF.realX e0) cA rfl 1 2 (fun z => sharpNetB 1 z ctx) #[21, 1]).2 rfl
  have h : arInvStage (NF.realX e0) cA 2 sharpNetB 1 #[21, 1] ctx = .ok (_, _) := ofT_of_err_none herr
  obtain ⟨-, d, hd, hT⟩ := sharp_roundTrip #[21, 1] ctx _ _ rfl h
  exact ⟨_, d, by rw [h, hd], hT⟩

/-- §4 applied: for this transform the log-det the loop returns at ANY row `y` of two entries is `log |det|` of the derivative of
    the inverse row map (the two derivatives being given) -/
example (y : Array ℝ) (hy : y.size = 2) {Lg Lf : (Fin 2 → ℝ) →L[ℝ] (Fin 2 → ℝ)}
    (hLg : HasFDerivAt (invRowMap e0 cA 2 sharpNet) Lg (fun i => y.getD i.1 0))
    (hLf : HasFDerivAt (rowMap e0 cA 1 2 sharpNet (arInverse (NF.realX e0) cA 1 2 sharpNet y).out 0) Lf
      (fun i => (arInverse (NF.realX e0) cA 1 2 sharpNet y).out.getD (0 * 2 + i.1) 0)) :
    (arInverse (NF.realX e0) cA 1 2 sharpNet y).ld[0]?
      = some (Real.log |LinearMap.det (Lg : (Fin 2 → ℝ) →ₗ[ℝ] (Fin 2 → ℝ))|) :=
  (ar_affine_inverse_logdet_is_jacobian e0 cA 2 sharpNet rfl (le_refl _) (by omega) sharpNet_autoreg y hy hLg hLf).1

end examples

end NF.ARInverseStage
