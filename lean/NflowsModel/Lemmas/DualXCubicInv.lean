import NflowsModel.Lemmas.DualXSpline
import NflowsModel.Lemmas.WellDefinedCubic
import Mathlib.Tactic
/-!
# Lemmas/DualXCubicInv — the EXECUTED piecewise-cubic spline INVERSE run on dual numbers (C16): a FINDING

`cubicSpline (dualX (NF.realX e)) … true` is the forward-mode AD run of the cubic inverse the driver compares with
`torch.autograd`.  Its Cardano branch (Spline:375-379) computes two cube roots with
`cbrtG x = sign x · exp (log |x| / 3)` (Spline:285).  The two arguments `A₊ A₋` multiply to `−δ₁³`
(`NF.WellDefined.Cubic.cardano_cbrt_args_mul`), so one of them is `0` exactly when `δ₁ = 0`; on the accepted one-bin
configuration `valid_example1` (`K = 1`, unit box, `uw = uh = [0]`, `udl = −log 6`, `udr = log (4/3)`: the spline is
`x ↦ ((x+1)³ − 1)/7`, `a = 1/7`, `b = c = 3/7`) this happens on EVERY input `y ∈ [0,1]`
(`NF.WellDefined.Cubic.cardano_log_zero_example`).  What the dual run does there, in plain words:

* **The rule at `0`** (`cbrtG_dual_at_zero`, `cbrtG_dual_forms_log_zero`): at a dual number `(0, t)` the dual `cbrtG` forms
  `|·| ↦ (0, 0)`, `log ↦ (log 0, 0/0)` and returns `(0, 0)` — finite, because over ℝ `log 0 = 0`, `0/0 = 0`, `sign 0 = 0`.
  The real cube root is NOT differentiable at `0` (`cbrt_not_differentiableAt_zero`).  In IEEE arithmetic the same steps
  give `log 0 = −inf`, `0/0 = NaN`, `0 · inf = NaN`: this is the NaN gradient `torch.autograd` returns (remark, not a
  theorem: floats are outside these real-number statements).  Away from `0` the rule is sound (`cbrtG_dual_sound`,
  closed form `cbrtG_dual_of_ne`).
* **Whole program, tangent on the INPUT `y`** (`cubicSpline_dual_inv_exec`: for every accepted configuration the dual run
  selects the bin of the real run and evaluates `invCore` on dual numbers; on the witness
  `cubicSpline_dual_inv_witness`, `out0_dual_witness`, `cardano_q_arg_witness`): the run takes the Cardano branch, the
  second `cbrtG` is evaluated at the dual number `(0, 0)` EXACTLY, and the returned output is
  `(cbrt(1+7y) − 1, 7·cbrt(1+7y)/(3(1+7y)))`; that tangent IS the derivative of the real program
  (`inv_witness_hasDerivAt`).  So for the input gradient the defect is float-only: over ℝ the conventions `log 0 = 0`,
  `0/0 = 0` happen to give the right number (the argument `A₋` vanishes identically in `y`).
* **Whole program, tangent on the PARAMETER `udl`** (`cubicSpline_dual_inv_K1`: the dual run on the witness for ARBITRARY
  dual parameters; `cubicSpline_dual_inv_witness_param`): again the second `cbrtG` argument is `(0, 0)`
  (`cardano_dual_witness_param`), but now `δ₁` has the dual number `(0, 48/7)`: as a function of the parameter,
  `A₋ = (−δ₁/cbrt A₊)³` vanishes to THIRD order, `cbrt A₋ = −δ₁/cbrt A₊` is smooth with derivative `−(48/7)/cbrt(1+7y) ≠ 0`,
  and the rule returns `0`.  The returned output tangent `(54/7 − 18y)·cbrt(1+7y)/(3(1+7y)) + 30/7` is therefore WRONG
  **over ℝ**: `dual_param_gradient_wrong` (at `y = 0` the run returns `48/7`, the true derivative is `0` because the
  program returns `left` at `bottom` for every parameter value, `inv_witness_bottom`) and
  `dual_param_gradient_wrong_interior` (at EVERY `y ∈ (0,1)` the returned tangent is not the derivative of the real
  program's output with respect to `udl`).  Piece-level forms of the same phenomenon, without any configuration:
  `cbrtG_dual_unsound` (`cbrt ∘ (s ↦ s³)`), `cardano_dual_unsound`.

Concrete input for the harness: `K = 1`, box `[0,1]²`, `min_bin_width = min_bin_height = 0`,
`unnormalized_widths = unnormalized_heights = [0]`, `unnorm_derivatives_left = −log 6`,
`unnorm_derivatives_right = log(4/3)`, `inverse = True`, any `y ∈ [0,1]`: the gradient with respect to
`unnorm_derivatives_left` is wrong in exact arithmetic (model's dual run) and NaN in floats; the gradient with respect
to `y` is right in exact arithmetic and NaN in floats.

NOT done here: a general `cubicSpline_dual_inv` soundness headline (trigonometric branch, quadratic fallback, Cardano with
`δ₁ ≠ 0`, `inBin` away from ties); only the pieces above.
-/

open NF DualSound DualX Filter Topology

namespace DualXCubicInv
open CubicWhole CubicInverseWhole NF.WellDefined.Cubic

/-! ### the inverse program up to `invCore`, generic in the scalar type (verbatim sub-terms of `cubicSpline … true`) -/
section generic
variable {α : Type} (o : XOps α)

def Wg (c : CCfg) (uw : List α) : List α := flooredSoftmax o c.minW uw
def Hg (c : CCfg) (uh : List α) : List α := flooredSoftmax o c.minH uh
def cumwG (c : CCfg) (uw : List α) : List α := o.zero :: setLast (cumsumG o (Wg o c uw)) o.one
def cumhG (c : CCfg) (uh : List α) : List α := o.zero :: setLast (cumsumG o (Hg o c uh)) o.one
def slopesG (c : CCfg) (uw uh : List α) : List α := List.zipWith o.div (Hg o c uh) (Wg o c uw)
/-- the interior knot derivatives `ms * sgn` -/
def midG (c : CCfg) (uw uh : List α) : List α :=
  List.zipWith o.mul
    (List.zipWith o.minA (minPair o (fun a b => o.minA (o.abs a) (o.abs b)) (slopesG o c uw uh))
      (cubicSpline.ms2f o (Wg o c uw) (slopesG o c uw uh)))
    (minPair o (fun a b => o.add (o.sign a) (o.sign b)) (slopesG o c uw uh))
def derivsG (c : CCfg) (uw uh : List α) (udl udr s0 sl : α) : List α :=
  o.mul (o.mul (o.sigmoid udl) (o.ofNat 3)) s0 ::
    (midG o c uw uh ++ [o.mul (o.mul (o.sigmoid udr) (o.ofNat 3)) sl])
def aLG (c : CCfg) (uw uh dv : List α) : List α :=
  (List.range uw.length).map (fun k =>
    let l := (dv.take uw.length).getD k o.zero; let r := (dv.drop 1).getD k o.zero
    let s := (slopesG o c uw uh).getD k o.zero; let w := (Wg o c uw).getD k o.one
    o.div (o.sub (o.add l r) (o.mul o.two s)) (o.mul w w))
def bLG (c : CCfg) (uw uh dv : List α) : List α :=
  (List.range uw.length).map (fun k =>
    let l := (dv.take uw.length).getD k o.zero; let r := (dv.drop 1).getD k o.zero
    let s := (slopesG o c uw uh).getD k o.zero; let w := (Wg o c uw).getD k o.one
    o.div (o.sub (o.sub (o.mul (o.ofNat 3) s) (o.mul o.two l)) r) w)
/-- the normalised input `y' = (y − bottom)/(top − bottom)` -/
def ynG (c : CCfg) (y : α) : α :=
  o.div (o.sub y (o.ofFloat c.box.bottom)) (o.ofFloat (c.box.top - c.box.bottom))

/-- everything after the knot derivatives: search over the y-knots, seven gathers, `invCore` -/
def tailG (c : CCfg) (uw uh dv : List α) (t : α) : Except Err (α × α × List α) := do
  let idx := searchsortedG o c.seps (cumhG o c uh) t
  let ia ← getI (aLG o c uw uh dv) idx
  let ib ← getI (bLG o c uw uh dv) idx
  let ic ← getI (dv.take uw.length) idx
  let id ← getI (cumhG o c uh) idx
  let lcw ← getI (cumwG o c uw) idx
  let rcw ← getI (cumwG o c uw) (idx + 1)
  let ih ← getI (Hg o c uh) idx
  return invCore o c ia ib ic id lcw rcw ih t

/-- **the executed inverse program IS this normal form, for every scalar semantics** (definitional unfolding) -/
theorem cubicSpline_unfoldG (c : CCfg) (uw uh : List α) (udl udr y : α) :
    cubicSpline o c uw uh udl udr true y =
      (if o.lt y (o.ofFloat c.box.bottom) || o.lt (o.ofFloat c.box.top) y then throw .outsideDomain
       else if c.minW * uw.length.toFloat > 1.0 then throw .valueError
       else if c.minH * uw.length.toFloat > 1.0 then throw .valueError
       else do
        let s0 ← getI (slopesG o c uw uh) 0
        let sl ← getI (slopesG o c uw uh) (Int.ofNat uw.length - 1)
        tailG o c uw uh (derivsG o c uw uh udl udr s0 sl) (ynG o c y)) := rfl

end generic

/-! ### the list building commutes with every homomorphism of scalar semantics -/
section hom
variable {α β : Type} {o₁ : XOps α} {o₂ : XOps β} {φ : α → β}

theorem map_zipWith_hom (f : α → α → α) (g : β → β → β) (hfg : ∀ a b, φ (f a b) = g (φ a) (φ b)) :
    ∀ a b : List α, (List.zipWith f a b).map φ = List.zipWith g (a.map φ) (b.map φ)
  | [], _ => by simp
  | _ :: _, [] => by simp
  | x :: a, y :: b => by
    simp only [List.zipWith_cons_cons, List.map_cons, hfg, map_zipWith_hom f g hfg a b]

theorem minPair_hom (f : α → α → α) (g : β → β → β) (hfg : ∀ a b, φ (f a b) = g (φ a) (φ b)) :
    ∀ l : List α, (minPair o₁ f l).map φ = minPair o₂ g (l.map φ)
  | [] => rfl
  | [_] => rfl
  | a :: b :: r => by
    have := minPair_hom f g hfg (b :: r)
    simp only [List.map_cons] at this
    simp only [minPair, List.map_cons, hfg, this]

theorem getD_hom (l : List α) (k : ℕ) (d : α) : (l.map φ).getD k (φ d) = φ (l.getD k d) := by
  simp only [List.getD_eq_getElem?_getD, List.getElem?_map]
  cases l[k]? <;> rfl

variable (h : XHom o₁ o₂ φ)
include h

theorem ms2f_hom : ∀ w s : List α,
    (cubicSpline.ms2f o₁ w s).map φ = cubicSpline.ms2f o₂ (w.map φ) (s.map φ)
  | [], _ => by simp [cubicSpline.ms2f]
  | [_], _ => by simp [cubicSpline.ms2f]
  | _ :: _ :: _, [] => by simp [cubicSpline.ms2f]
  | _ :: _ :: _, [_] => by simp [cubicSpline.ms2f]
  | w0 :: w1 :: wr, s0 :: s1 :: sr => by
    have := ms2f_hom (w1 :: wr) (s1 :: sr)
    simp only [List.map_cons] at this
    simp only [cubicSpline.ms2f, List.map_cons, h.div, h.mul, h.add, h.ofFloat, this]

theorem hom_two : φ o₁.two = o₂.two := h.ofRat 2 1
theorem hom_ofNat (n : ℕ) : φ (o₁.ofNat n) = o₂.ofNat n := h.ofRat n 1

theorem hom_sign (x : α) : φ (o₁.sign x) = o₂.sign (φ x) := by
  unfold XOps.sign
  rw [h.ite_lt, h.ite_lt, h.zero, h.one, h.neg, h.one]

theorem Wg_hom (c : CCfg) (uw : List α) : (Wg o₁ c uw).map φ = Wg o₂ c (uw.map φ) := h.flooredSoftmax _ _
theorem Hg_hom (c : CCfg) (uh : List α) : (Hg o₁ c uh).map φ = Hg o₂ c (uh.map φ) := h.flooredSoftmax _ _

theorem cumwG_hom (c : CCfg) (uw : List α) : (cumwG o₁ c uw).map φ = cumwG o₂ c (uw.map φ) := by
  unfold cumwG
  rw [List.map_cons, XHom.setLast, h.cumsumG, Wg_hom h, h.zero, h.one]

theorem cumhG_hom (c : CCfg) (uh : List α) : (cumhG o₁ c uh).map φ = cumhG o₂ c (uh.map φ) := by
  unfold cumhG
  rw [List.map_cons, XHom.setLast, h.cumsumG, Hg_hom h, h.zero, h.one]

theorem slopesG_hom (c : CCfg) (uw uh : List α) :
    (slopesG o₁ c uw uh).map φ = slopesG o₂ c (uw.map φ) (uh.map φ) := by
  unfold slopesG
  rw [map_zipWith_hom _ _ h.div, Hg_hom h, Wg_hom h]

theorem midG_hom (c : CCfg) (uw uh : List α) :
    (midG o₁ c uw uh).map φ = midG o₂ c (uw.map φ) (uh.map φ) := by
  unfold midG
  rw [map_zipWith_hom _ _ h.mul, map_zipWith_hom _ _ h.minA,
    minPair_hom (o₁ := o₁) (o₂ := o₂) (fun a b => o₁.minA (o₁.abs a) (o₁.abs b)) (fun a b => o₂.minA (o₂.abs a) (o₂.abs b))
      (fun a b => by rw [h.minA, h.abs, h.abs]),
    ms2f_hom h,
    minPair_hom (o₁ := o₁) (o₂ := o₂) (fun a b => o₁.add (o₁.sign a) (o₁.sign b)) (fun a b => o₂.add (o₂.sign a) (o₂.sign b))
      (fun a b => by rw [h.add, hom_sign h, hom_sign h]),
    slopesG_hom h, Wg_hom h]

theorem derivsG_hom (c : CCfg) (uw uh : List α) (udl udr s0 sl : α) :
    (derivsG o₁ c uw uh udl udr s0 sl).map φ
      = derivsG o₂ c (uw.map φ) (uh.map φ) (φ udl) (φ udr) (φ s0) (φ sl) := by
  unfold derivsG
  simp only [List.map_cons, List.map_append, List.map_nil, h.mul, h.sigmoid, hom_ofNat h, midG_hom h]

theorem aLG_hom (c : CCfg) (uw uh dv : List α) :
    (aLG o₁ c uw uh dv).map φ = aLG o₂ c (uw.map φ) (uh.map φ) (dv.map φ) := by
  unfold aLG
  rw [List.length_map, List.map_map]
  apply List.map_congr_left
  intro k _
  simp only [Function.comp, h.div, h.sub, h.add, h.mul, hom_two h, ← slopesG_hom h, ← Wg_hom h, ← List.map_take,
    ← List.map_drop, ← h.zero, ← h.one, getD_hom]

theorem bLG_hom (c : CCfg) (uw uh dv : List α) :
    (bLG o₁ c uw uh dv).map φ = bLG o₂ c (uw.map φ) (uh.map φ) (dv.map φ) := by
  unfold bLG
  rw [List.length_map, List.map_map]
  apply List.map_congr_left
  intro k _
  simp only [Function.comp, h.div, h.sub, h.mul, hom_two h, hom_ofNat h, ← slopesG_hom h, ← Wg_hom h, ← List.map_take,
    ← List.map_drop, ← h.zero, ← h.one, getD_hom]

end hom

noncomputable section
variable (e : Float → ℝ)

/-! ## A.1–A.2 the cube root `cbrtG` on dual numbers -/

/-- `sign` on dual numbers: the sign of the value, tangent `0` -/
theorem d_sign (a : ℝ × ℝ) :
    (dualX (NF.realX e)).sign a = (if 0 < a.1 then 1 else if a.1 < 0 then -1 else 0, 0) := by
  unfold XOps.sign
  simp only [d_lt, d_zero, d_one, d_neg, decide_eq_true_eq]
  split_ifs <;> simp

/-- the real `cbrtG` is `CubicRoots.cbrt` as soon as the double `3.0` is read exactly -/
theorem cbrtG_real (h3 : e 3.0 = 3) (x : ℝ) : cbrtG (NF.realX e) x = CubicRoots.cbrt x := by
  unfold cbrtG CubicRoots.cbrt XOps.sign
  simp only [NF.realX_mul, NF.realX_exp, NF.realX_div, NF.realX_log, NF.realX_abs, NF.realX_ofFloat, h3, NF.realX_lt,
    NF.realX_zero, NF.realX_one, NF.realX_neg, decide_eq_true_eq]

/-- what the dual run forms inside `cbrtG` at value `0`: `|·|` returns `(0, 0)` and the logarithm rule divides by zero,
    `(log 0, 0 / 0)`; over ℝ both components are `0` by the totalisation conventions, in IEEE arithmetic they are
    `-inf` and `NaN` -/
theorem cbrtG_dual_forms_log_zero (t : ℝ) :
    (dualX (NF.realX e)).abs (0, t) = (0, 0) ∧
    (dualX (NF.realX e)).log ((dualX (NF.realX e)).abs (0, t)) = (Real.log 0, (0:ℝ) / 0) := by
  have h := abs_at_zero e t
  exact ⟨h, by rw [h, d_log]⟩

/-- **A.1** the dual cube root at value `0` returns `(0, 0)` whatever the tangent `t` of its argument -/
theorem cbrtG_dual_at_zero (t : ℝ) : cbrtG (dualX (NF.realX e)) (0, t) = (0, 0) := by
  unfold cbrtG
  rw [d_sign]
  simp only [d_mul, lt_irrefl, if_false, zero_mul, add_zero]

/-- `cbrt 0 = 0` -/
theorem cbrt_zero : CubicRoots.cbrt 0 = 0 := by simp [CubicRoots.cbrt]

/-- **A.1** … whereas the real cube root is NOT differentiable at `0` (`cbrt x ^ 3 = x` would give `0 = 1`) -/
theorem cbrt_not_differentiableAt_zero : ¬ DifferentiableAt ℝ CubicRoots.cbrt 0 := by
  intro h
  have hd := h.hasDerivAt
  have h3 : HasDerivAt (fun x => CubicRoots.cbrt x ^ 3) ((3:ℕ) * CubicRoots.cbrt 0 ^ (3 - 1) * deriv CubicRoots.cbrt 0) 0 :=
    hd.pow 3
  have hid : (fun x => CubicRoots.cbrt x ^ 3) = fun x => x := funext CubicRoots.cbrt_cube
  rw [hid, cbrt_zero] at h3
  have := h3.unique (hasDerivAt_id' 0)
  norm_num at this

/-- the dual cube root away from `0`, in closed form: `(cbrt x, t · cbrt x / (3 x))` -/
theorem cbrtG_dual_of_ne (h3 : e 3.0 = 3) (x t : ℝ) (hx : x ≠ 0) :
    cbrtG (dualX (NF.realX e)) (x, t) = (CubicRoots.cbrt x, t * CubicRoots.cbrt x / (3 * x)) := by
  unfold cbrtG CubicRoots.cbrt
  rw [d_sign, d_ofFloat, h3]
  simp only [d_mul, d_exp, d_div, d_log, d_abs, realX_sign]
  rcases lt_or_gt_of_ne hx with hneg | hpos
  · rw [if_neg (not_lt.mpr hneg.le), if_pos hneg, abs_of_neg hneg]
    refine Prod.ext rfl ?_
    show _ = _
    field_simp
    ring
  · rw [if_pos hpos, abs_of_pos hpos]
    refine Prod.ext rfl ?_
    show _ = _
    field_simp
    ring

variable {e}

/-- **A.2** away from `0` the dual `cbrtG` IS sound -/
theorem cbrtG_dual_sound (h3 : e 3.0 ≠ 0) {f : ℝ → ℝ} {t : ℝ} {a : ℝ × ℝ} (ha : IsDual f t a) (h0 : a.1 ≠ 0) :
    IsDual (fun s => cbrtG (NF.realX e) (f s)) t (cbrtG (dualX (NF.realX e)) a) := by
  unfold cbrtG
  refine IsDual.mul e (IsDual.sign e ha h0)
    (IsDual.exp e (IsDual.div e (IsDual.log e (IsDual.abs e ha h0) ?_) (IsDual.ofFloat e 3.0 t) ?_))
  · rw [d_abs]; exact abs_ne_zero.mpr h0
  · rw [d_ofFloat]; exact h3

/-! ## A.3 the whole executed inverse program on dual numbers -/

variable {c : CCfg} {uw uh : List ℝ}

/-- the dual normalised input: value `yn`, tangent `y'.2 / (top − bottom)` (quotient rule with a constant divisor) -/
def ynD (e : Float → ℝ) (c : CCfg) (y' : ℝ × ℝ) : ℝ × ℝ := ynG (dualX (NF.realX e)) c y'

theorem ynD_fst (y' : ℝ × ℝ) : (ynD e c y').1 = yn e c y'.1 := rfl

/-- everything after the knot derivatives, on dual numbers, parameters with zero tangent: the search (it sees only value
    components) selects the bin of the real run, all seven gathers are in range and return the zero-tangent liftings of
    the real gathered values; the result is `invCore` on dual numbers -/
theorem tailG_dual (hv' : CubicValid e c uw uh) (udl udr : ℝ) (t : ℝ × ℝ) (ht0 : 0 ≤ t.1) (ht1 : t.1 ≤ 1) :
    tailG (dualX (NF.realX e)) c (uw.map ι) (uh.map ι) ((derivs e c uw uh udl udr).map ι) t
      = .ok (invCore (dualX (NF.realX e)) c (ι (aK e c uw uh udl udr (idxH e c uh t.1)))
          (ι (bK e c uw uh udl udr (idxH e c uh t.1))) (ι (dv e c uw uh udl udr (idxH e c uh t.1)))
          (ι (chs e c uh (idxH e c uh t.1))) (ι (cws e c uw (idxH e c uh t.1))) (ι (cws e c uw (idxH e c uh t.1 + 1)))
          (ι (CubicWhole.hv e c uh (idxH e c uh t.1))) t) := by
  obtain ⟨_, hsearch⟩ := search_specH hv'
  obtain ⟨hiK, _, _, _⟩ := selH hv' t.1 ht0 ht1
  set i := idxH e c uh t.1 with hi
  have hL := lift_hom e
  have hcwlen := (cumw_facts hv').1
  have hchlen := (cumh_facts hv').1
  have hHlen := (H_facts hv').1
  have hdlen := derivs_length (udl := udl) (udr := udr) hv'
  have haLlen : (aLof e c uw uh (derivs e c uw uh udl udr)).length = uw.length := by simp [aLof]
  have hbLlen : (bLof e c uw uh (derivs e c uw uh udl udr)).length = uw.length := by simp [bLof]
  have htklen : ((derivs e c uw uh udl udr).take uw.length).length = uw.length := by
    rw [List.length_take, hdlen]; omega
  have hi1 : ((i : Int) + 1) = ((i + 1 : ℕ) : Int) := by push_cast; rfl
  have hic : ((derivs e c uw uh udl udr).take uw.length)[i]'(by omega) = dv e c uw uh udl udr i := by
    rw [RQWhole.getElem_eq_getD, getD_take _ _ _ hiK]; rfl
  have hcumh : cumhG (dualX (NF.realX e)) c (uh.map ι) = (cumh e c uh).map ι := (cumhG_hom hL c uh).symm
  have hcumw : cumwG (dualX (NF.realX e)) c (uw.map ι) = (cumw e c uw).map ι := (cumwG_hom hL c uw).symm
  have hH : Hg (dualX (NF.realX e)) c (uh.map ι) = (H e c uh).map ι := (Hg_hom hL c uh).symm
  have haL : aLG (dualX (NF.realX e)) c (uw.map ι) (uh.map ι) ((derivs e c uw uh udl udr).map ι)
      = (aLof e c uw uh (derivs e c uw uh udl udr)).map ι := (aLG_hom hL c uw uh _).symm
  have hbL : bLG (dualX (NF.realX e)) c (uw.map ι) (uh.map ι) ((derivs e c uw uh udl udr).map ι)
      = (bLof e c uw uh (derivs e c uw uh udl udr)).map ι := (bLG_hom hL c uw uh _).symm
  have hs : searchsortedG (dualX (NF.realX e)) c.seps ((cumh e c uh).map ι) t = ((i : ℕ) : Int) := by
    rw [(fst_hom e).searchsortedG, List.map_map, fst_ι, List.map_id]
    exact hsearch t.1 ht0 ht1
  unfold tailG
  simp only [hcumh, hcumw, hH, haL, hbL, hs, List.length_map, ← List.map_take]
  rw [XHom.getI_ok (φ := ι) _ _ _ (SplineTotal.getI_ok _ i (by omega : i < (aLof e c uw uh (derivs e c uw uh udl udr)).length)),
    XHom.getI_ok (φ := ι) _ _ _ (SplineTotal.getI_ok _ i (by omega : i < (bLof e c uw uh (derivs e c uw uh udl udr)).length)),
    XHom.getI_ok (φ := ι) _ _ _ (SplineTotal.getI_ok _ i (by omega : i < ((derivs e c uw uh udl udr).take uw.length).length)),
    XHom.getI_ok (φ := ι) _ _ _ (SplineTotal.getI_ok (cumh e c uh) i (by omega)),
    XHom.getI_ok (φ := ι) _ _ _ (SplineTotal.getI_ok (cumw e c uw) i (by omega)),
    hi1, XHom.getI_ok (φ := ι) _ _ _ (SplineTotal.getI_ok (cumw e c uw) (i+1) (by omega)),
    XHom.getI_ok (φ := ι) _ _ _ (SplineTotal.getI_ok (H e c uh) i (by omega))]
  simp only [bind_ok, aLof_get hv' i hiK, bLof_get hv' i hiK, hic, RQWhole.getElem_eq_getD]
  rfl

/-- **the dual run of the cubic inverse selects the bin of the real run and evaluates `invCore` on dual numbers** — for
    every `y` of the domain, ANY input tangent, parameters entering with zero tangent -/
theorem cubicSpline_dual_inv_exec (hv' : CubicValid e c uw uh) (udl udr : ℝ) (y' : ℝ × ℝ)
    (hy0 : e c.box.bottom ≤ y'.1) (hy1 : y'.1 ≤ e c.box.top) :
    cubicSpline (dualX (NF.realX e)) c (uw.map ι) (uh.map ι) (ι udl) (ι udr) true y'
      = .ok (invCore (dualX (NF.realX e)) c (ι (aK e c uw uh udl udr (idxH e c uh (yn e c y'.1))))
          (ι (bK e c uw uh udl udr (idxH e c uh (yn e c y'.1)))) (ι (dv e c uw uh udl udr (idxH e c uh (yn e c y'.1))))
          (ι (chs e c uh (idxH e c uh (yn e c y'.1)))) (ι (cws e c uw (idxH e c uh (yn e c y'.1))))
          (ι (cws e c uw (idxH e c uh (yn e c y'.1) + 1))) (ι (CubicWhole.hv e c uh (idxH e c uh (yn e c y'.1))))
          (ynD e c y')) := by
  have hK := K_pos hv'
  have hsl := slopes_length hv'
  have hL := lift_hom e
  have hg1 : ((dualX (NF.realX e)).lt y' ((dualX (NF.realX e)).ofFloat c.box.bottom)
      || (dualX (NF.realX e)).lt ((dualX (NF.realX e)).ofFloat c.box.top) y') = false := by
    simp only [d_lt, d_ofFloat, Bool.or_eq_false_iff, decide_eq_false_iff_not, not_lt]
    exact ⟨hy0, hy1⟩
  have hslo : slopesG (dualX (NF.realX e)) c (uw.map ι) (uh.map ι) = (slopes e c uw uh).map ι :=
    (slopesG_hom hL c uw uh).symm
  have h0 : getI ((slopes e c uw uh).map ι) 0 = .ok (ι (sv e c uw uh 0)) := by
    have := SplineTotal.getI_ok (slopes e c uw uh) 0 (by omega)
    rw [RQWhole.getElem_eq_getD] at this
    exact XHom.getI_ok (φ := ι) _ _ _ this
  have hl : getI ((slopes e c uw uh).map ι) (Int.ofNat uw.length - 1) = .ok (ι (sv e c uw uh (uw.length - 1))) := by
    have := SplineTotal.getI_ok (slopes e c uw uh) (uw.length - 1) (by omega)
    rw [RQWhole.getElem_eq_getD] at this
    have hc' : ((uw.length - 1 : ℕ) : Int) = Int.ofNat uw.length - 1 := by
      simp only [Int.ofNat_eq_natCast]; omega
    rw [hc'] at this
    exact XHom.getI_ok (φ := ι) _ _ _ this
  have hder : derivsG (dualX (NF.realX e)) c (uw.map ι) (uh.map ι) (ι udl) (ι udr) (ι (sv e c uw uh 0))
      (ι (sv e c uw uh (uw.length - 1))) = (derivs e c uw uh udl udr).map ι :=
    (derivsG_hom hL c uw uh udl udr _ _).symm
  obtain ⟨ht0, ht1⟩ := yn_unit hv' y'.1 hy0 hy1
  rw [cubicSpline_unfoldG]
  simp only [hg1, List.length_map, hv'.hgW, hv'.hgH, Bool.false_eq_true, if_false, hslo, h0, hl, bind_ok, hder]
  exact tailG_dual hv' udl udr (ynD e c y') ht0 ht1

/-! ### the pieces of `invCore` on dual numbers at the gathered values of the witness
`ia = 1/7`, `ib = ic = 3/7`, `id = 0`, `lcw = 0`, `rcw = 1`, `ih = 1`, input `(y, 1)` -/

local notation "D[" e "]" => dualX (NF.realX e)

local macro "pair_ring" : tactic => `(tactic| (refine Prod.ext ?_ ?_ <;> dsimp only <;> ring))

/-- comparisons of the dual run see only value components: the "almost quadratic" test is the test of the real run -/
theorem fallback_dual (c : CCfg) (ia lcw rcw ih : ℝ × ℝ) :
    fallback D[e] c ia lcw rcw ih = fallback (NF.realX e) c ia.1 lcw.1 rcw.1 ih.1 := rfl

/-- the clamp into the bin passes a dual number of the closed bin through unchanged (ties included) -/
theorem inBin_dual_id (l r : ℝ) (a : ℝ × ℝ) (h0 : l ≤ a.1) (h1 : a.1 ≤ r) : inBin D[e] (ι l) (ι r) a = a := by
  have hm : D[e].maxA a (ι l) = a := by
    unfold XOps.maxA
    simp only [d_lt, ι, not_lt.mpr h0, decide_false, Bool.false_eq_true, if_false]
  unfold inBin
  rw [hm]
  unfold XOps.minA
  simp only [d_lt, ι, not_lt.mpr h1, decide_false, Bool.false_eq_true, if_false]

/-- the final clamp to `[0,1]` and rescaling on the unit box pass a dual number of `[0,1]` through unchanged -/
theorem sc_dual_id (hrl : e (c.box.right - c.box.left) = 1) (hl : e c.box.left = 0) (a : ℝ × ℝ)
    (h0 : 0 ≤ a.1) (h1 : a.1 ≤ 1) : sc D[e] c a = a := by
  have hm : D[e].maxA a D[e].zero = a := by
    unfold XOps.maxA
    simp only [d_lt, d_zero, not_lt.mpr h0, decide_false, Bool.false_eq_true, if_false]
  unfold sc XOps.clamp
  rw [hm]
  unfold XOps.minA
  simp only [d_lt, d_one, not_lt.mpr h1, decide_false, Bool.false_eq_true, if_false, d_ofFloat, hrl, hl, d_add, d_mul]
  pair_ring

/-- Blinn's quantities of the dual run at the witness; the discriminant is negative: **the Cardano branch is taken** -/
theorem out0_dual_witness (hc : InvConsts e c) (y : ℝ) (hy : 0 ≤ y) :
    out0 D[e] (ι (1/7)) (ι (3/7)) (ι (3/7)) (ι 0) (ι 0) (ι 1) (y, 1)
      = (cardano D[e] (1, 0) (-(1 + 7*y), -7) (-(1 + 7*y)^2, -(14 * (1 + 7*y))) (ι 0), []) := by
  have hb : D[e].div (D[e].div (ι (3/7)) (ι (1/7))) (D[e].ofFloat 3.0) = (1, 0) := by
    rw [d_ofFloat, hc.h3]; simp only [d_div, ι]; pair_ring
  have hd : D[e].div (D[e].sub (ι 0) (y, 1)) (ι (1/7)) = (-(7*y), -7) := by
    simp only [d_div, d_sub, ι]; pair_ring
  have hδ1 : D[e].add (D[e].neg (D[e].mul (1, 0) (1, 0))) (1, 0) = (0, 0) := by
    simp only [d_add, d_neg, d_mul]; pair_ring
  have hδ2 : D[e].add (D[e].neg (D[e].mul (1, 0) (1, 0))) (-(7*y), -7) = (-(1 + 7*y), -7) := by
    simp only [d_add, d_neg, d_mul]; pair_ring
  have hδ3 : D[e].sub (D[e].mul (1, 0) (-(7*y), -7)) (D[e].mul (1, 0) (1, 0)) = (-(1 + 7*y), -7) := by
    simp only [d_sub, d_mul]; pair_ring
  have hdisc : D[e].sub (D[e].mul (D[e].mul (D[e].ofFloat 4.0) (0, 0)) (-(1 + 7*y), -7))
      (D[e].mul (-(1 + 7*y), -7) (-(1 + 7*y), -7)) = (-(1 + 7*y)^2, -(14 * (1 + 7*y))) := by
    rw [d_ofFloat, hc.h4]; simp only [d_sub, d_mul]; pair_ring
  have hdep1 : D[e].add (D[e].mul (D[e].mul (D[e].ofFloat (-2.0)) (1, 0)) (0, 0)) (-(1 + 7*y), -7)
      = (-(1 + 7*y), -7) := by
    rw [d_ofFloat, hc.hm2]; simp only [d_add, d_mul]; pair_ring
  have hn : -(1 + 7*y)^2 < 0 := by nlinarith
  have hn' : ¬ (0:ℝ) ≤ -(1 + 7*y)^2 := not_le.mpr hn
  unfold out0
  simp only [hb, hd, hδ1, hδ2, hδ3, hdisc, hdep1]
  simp only [XOps.ge, d_le, d_lt, d_zero, hn, hn', decide_true, decide_false, if_true, if_false, Bool.false_eq_true]

/-- **in the dual run the second `cbrtG` of the Cardano branch is evaluated at the dual number `(0, 0)`** (value `0`:
    `log |0|`; tangent `0`: the logarithm rule forms `0 / 0`) -/
theorem cardano_q_arg_witness (y : ℝ) (hy : 0 ≤ y) :
    D[e].div (D[e].sub (D[e].neg (-(1 + 7*y), -7)) (D[e].sqrt (D[e].neg (-(1 + 7*y)^2, -(14 * (1 + 7*y)))))) D[e].two
      = (0, 0) ∧
    D[e].div (D[e].add (D[e].neg (-(1 + 7*y), -7)) (D[e].sqrt (D[e].neg (-(1 + 7*y)^2, -(14 * (1 + 7*y)))))) D[e].two
      = (1 + 7*y, 7) := by
  have hpos : 0 < 1 + 7*y := by linarith
  have hsq : D[e].sqrt (D[e].neg (-(1 + 7*y)^2, -(14 * (1 + 7*y)))) = (1 + 7*y, 7) := by
    rw [d_sqrt]
    simp only [d_neg, neg_neg]
    rw [Real.sqrt_sq hpos.le]
    refine Prod.ext rfl ?_
    show 14 * (1 + 7*y) / (2 * (1 + 7*y)) = 7
    rw [div_eq_iff (by positivity)]; ring
  rw [hsq, d_two]
  constructor
  · simp only [d_div, d_sub, d_neg]; pair_ring
  · simp only [d_div, d_add, d_neg]; pair_ring

/-- the Cardano root of the dual run at the witness, in closed form -/
theorem cardano_dual_witness (hc : InvConsts e c) (y : ℝ) (hy : 0 ≤ y) :
    cardano D[e] (1, 0) (-(1 + 7*y), -7) (-(1 + 7*y)^2, -(14 * (1 + 7*y))) (ι 0)
      = (CubicRoots.cbrt (1 + 7*y) - 1, 7 * CubicRoots.cbrt (1 + 7*y) / (3 * (1 + 7*y))) := by
  have hpos : 0 < 1 + 7*y := by linarith
  obtain ⟨hq, hp⟩ := cardano_q_arg_witness (e := e) y hy
  unfold cardano
  simp only [hq, hp]
  rw [cbrtG_dual_at_zero, cbrtG_dual_of_ne e hc.h3 _ _ hpos.ne']
  simp only [d_add, d_sub, ι]
  pair_ring

/-! ### the witness configuration: one bin on the unit box, `sigmoid udl = 1/7`, `sigmoid udr = 4/7` -/

private theorem w0 : codeI 0.0 = 0 := by decide +kernel
private theorem w1 : codeI 1.0 = 8 := by decide +kernel

theorem ex_left : eI cNV.box.left = 0 := by simp [eI, cNV, w0, tableI]
theorem ex_right : eI cNV.box.right = 1 := by simp [eI, cNV, w1, tableI]

theorem witness_yn (y : ℝ) : yn eI cNV y = y := by
  rw [yn_eq valid_example1, ex_bottom, ex_top]; ring

theorem witness_idx (y : ℝ) (h0 : 0 ≤ y) (h1 : y ≤ 1) : idxH eI cNV [0] (yn eI cNV y) = 0 := by
  obtain ⟨ht0, ht1⟩ := yn_unit valid_example1 y (by rw [ex_bottom]; exact h0) (by rw [ex_top]; exact h1)
  obtain ⟨hiK, _, _, _⟩ := selH valid_example1 (yn eI cNV y) ht0 ht1
  have : idxH eI cNV [0] (yn eI cNV y) < 1 := by simpa using hiK
  omega

theorem witness_cws1 : cws eI cNV [0] 1 = 1 := by
  have hcl := cws_last valid_example1
  simpa only [List.length_cons, List.length_nil, zero_add] using hcl

/-- the real run at the witness: the clamped root is `cbrt (1 + 7 y) − 1` -/
theorem rootN_witness (y : ℝ) (h0 : 0 ≤ y) (h1 : y ≤ 1) :
    rootN eI cNV [0] [0] (-Real.log 6) (Real.log (4/3)) (yn eI cNV y) = CubicRoots.cbrt (1 + 7*y) - 1 := by
  have hfb := (cardano_log_zero_example y h0 h1).1
  have hex : ExactBin eI cNV [0] [0] (-Real.log 6) (Real.log (4/3)) (idxH eI cNV [0] (yn eI cNV y)) := Or.inl hfb
  obtain ⟨ht0, ht1⟩ := yn_unit valid_example1 y (by rw [ex_bottom]; exact h0) (by rw [ex_top]; exact h1)
  have hspec := (rootN_spec valid_example1 consts_example (yn eI cNV y) ht0 ht1 hex).1
  rw [witness_idx y h0 h1, binN_poly, ex1_aK, ex1_bK, ex1_dv0, chs_zero valid_example1, cws_zero valid_example1] at hspec
  rw [witness_yn] at hspec ⊢
  have hc3 : (rootN eI cNV [0] [0] (-Real.log 6) (Real.log (4/3)) y + 1)^3 = CubicRoots.cbrt (1 + 7*y) ^ 3 := by
    rw [CubicRoots.cbrt_cube]; linear_combination 7 * hspec
  have := CubicRoots.cube_inj hc3
  linarith

/-- the real program at the witness returns `cbrt (1 + 7 y) − 1` (the inverse of `x ↦ ((x + 1)³ − 1)/7`) -/
theorem inv_witness (y : ℝ) (h0 : 0 ≤ y) (h1 : y ≤ 1) :
    inv eI cNV [0] [0] (-Real.log 6) (Real.log (4/3)) y = CubicRoots.cbrt (1 + 7*y) - 1 := by
  rw [inv_eq_root valid_example1 y (by rw [ex_bottom]; exact h0) (by rw [ex_top]; exact h1), rootN_witness y h0 h1,
    ex_right, ex_left]
  ring

theorem cbrt_witness_bounds (y : ℝ) (h0 : 0 ≤ y) (h1 : y ≤ 1) :
    0 ≤ CubicRoots.cbrt (1 + 7*y) - 1 ∧ CubicRoots.cbrt (1 + 7*y) - 1 ≤ 1 := by
  obtain ⟨ht0, ht1⟩ := yn_unit valid_example1 y (by rw [ex_bottom]; exact h0) (by rw [ex_top]; exact h1)
  obtain ⟨_, hr0, hr1⟩ := rootN_mem (udl := -Real.log 6) (udr := Real.log (4/3)) valid_example1 _ ht0 ht1
  rw [rootN_witness y h0 h1] at hr0 hr1
  exact ⟨hr0, hr1⟩

/-- `invCore` of the dual run at the witness: no fallback, Cardano branch, clamps inactive -/
theorem invCore_dual_witness (y : ℝ) (h0 : 0 ≤ y) (h1 : y ≤ 1) :
    ∃ L : ℝ × ℝ, invCore D[eI] cNV (ι (1/7)) (ι (3/7)) (ι (3/7)) (ι 0) (ι 0) (ι 1) (ι 1) (y, 1)
      = ((CubicRoots.cbrt (1 + 7*y) - 1, 7 * CubicRoots.cbrt (1 + 7*y) / (3 * (1 + 7*y))), L, []) := by
  have hfb : fallback D[eI] cNV (ι (1/7)) (ι 0) (ι 1) (ι 1) = false := by
    rw [fallback_dual, fallback_eq]
    simp only [ι, ex_thr]
    norm_num [abs_of_pos]
  have hout1 : out1 D[eI] cNV (ι (1/7)) (ι (3/7)) (ι (3/7)) (ι 0) (ι 0) (ι 1) (ι 1) (y, 1)
      = ((CubicRoots.cbrt (1 + 7*y) - 1, 7 * CubicRoots.cbrt (1 + 7*y) / (3 * (1 + 7*y))), []) := by
    unfold out1
    rw [hfb]
    simp only [Bool.false_eq_true, if_false]
    rw [out0_dual_witness consts_example y h0, cardano_dual_witness consts_example y h0]
  obtain ⟨hb0, hb1⟩ := cbrt_witness_bounds y h0 h1
  have hrl : eI (cNV.box.right - cNV.box.left) = 1 := by rw [valid_example1.hdlr, ex_right, ex_left]; norm_num
  refine ⟨(invCore D[eI] cNV (ι (1/7)) (ι (3/7)) (ι (3/7)) (ι 0) (ι 0) (ι 1) (ι 1) (y, 1)).2.1, ?_⟩
  refine Prod.ext ?_ (Prod.ext rfl ?_)
  · show sc D[eI] cNV (inBin D[eI] (ι 0) (ι 1)
        (out1 D[eI] cNV (ι (1/7)) (ι (3/7)) (ι (3/7)) (ι 0) (ι 0) (ι 1) (ι 1) (y, 1)).1) = _
    rw [hout1, inBin_dual_id 0 1 _ hb0 hb1, sc_dual_id hrl ex_left _ hb0 hb1]
  · show ((out1 D[eI] cNV (ι (1/7)) (ι (3/7)) (ι (3/7)) (ι 0) (ι 0) (ι 1) (ι 1) (y, 1)).2.map
        (inBin D[eI] (ι 0) (ι 1))).map (sc D[eI] cNV) = _
    rw [hout1]
    rfl

/-- **A.3 the dual run of the WHOLE executed cubic inverse on the witness configuration, input tangent seeded**: for every
    `y ∈ [0,1]` it returns `.ok`; the value of the output is the output of the real run and the tangent is
    `7 cbrt(1+7y) / (3 (1+7y))` -/
theorem cubicSpline_dual_inv_witness (y : ℝ) (h0 : 0 ≤ y) (h1 : y ≤ 1) :
    ∃ L : ℝ × ℝ,
      cubicSpline D[eI] cNV [ι 0] [ι 0] (ι (-Real.log 6)) (ι (Real.log (4/3))) true (y, 1)
        = .ok ((inv eI cNV [0] [0] (-Real.log 6) (Real.log (4/3)) y,
                7 * CubicRoots.cbrt (1 + 7*y) / (3 * (1 + 7*y))), L, []) := by
  have hex := cubicSpline_dual_inv_exec valid_example1 (-Real.log 6) (Real.log (4/3)) (y, 1)
    (by rw [ex_bottom]; exact h0) (by rw [ex_top]; exact h1)
  dsimp only at hex
  obtain ⟨L, hL⟩ := invCore_dual_witness y h0 h1
  have hyD : ynD eI cNV (y, 1) = (y, 1) := by
    unfold ynD ynG
    rw [d_ofFloat, d_ofFloat, valid_example1.hdbt, ex_top, ex_bottom]
    simp only [d_div, d_sub]
    pair_ring
  refine ⟨L, ?_⟩
  show cubicSpline D[eI] cNV ([0].map ι) ([0].map ι) (ι (-Real.log 6)) (ι (Real.log (4/3))) true (y, 1) = _
  rw [hex, witness_idx y h0 h1, zero_add, ex1_aK, ex1_bK, ex1_dv0, chs_zero valid_example1, cws_zero valid_example1,
    witness_cws1, ex1_hv, hyD, hL, inv_witness y h0 h1]

/-- **A.3 … and that tangent IS the derivative of the real program** at every interior `y`: on this configuration the
    input-gradient of the dual run is correct over ℝ although the run evaluates `cbrtG` at `(0, 0)` — the defect of the
    input gradient is float-only (`log 0 = -inf`, `0/0 = NaN`, `0 · inf = NaN` in IEEE arithmetic) -/
theorem inv_witness_hasDerivAt (y : ℝ) (h0 : 0 < y) (h1 : y < 1) :
    HasDerivAt (inv eI cNV [0] [0] (-Real.log 6) (Real.log (4/3)))
      (7 * CubicRoots.cbrt (1 + 7*y) / (3 * (1 + 7*y))) y := by
  have hpos : (1 + 7*y) ≠ 0 := by linarith
  have hlin : HasDerivAt (fun s : ℝ => 1 + 7*s) 7 y := by
    simpa using ((hasDerivAt_id y).const_mul (7:ℝ)).const_add 1
  have hd : IsDual (fun s : ℝ => 1 + 7*s) y (1 + 7*y, 7) := ⟨rfl, hlin⟩
  have hs := cbrtG_dual_sound (e := eI) (by rw [consts_example.h3]; norm_num) hd hpos
  rw [cbrtG_dual_of_ne eI consts_example.h3 _ _ hpos] at hs
  have hder : HasDerivAt (fun s => CubicRoots.cbrt (1 + 7*s) - 1) (7 * CubicRoots.cbrt (1 + 7*y) / (3 * (1 + 7*y))) y := by
    have := hs.2.sub_const 1
    simpa only [cbrtG_real eI consts_example.h3] using this
  refine hder.congr_of_eventuallyEq ?_
  filter_upwards [Ioo_mem_nhds h0 h1] with z hz
  exact inv_witness z hz.1.le hz.2.le

/-! ## The rule `cbrtG (0, 0) = (0, 0)` is UNSOUND over ℝ for compositions: parameter gradients

`cbrt ∘ g` can be differentiable at a zero of `g` (when `g` vanishes to third order, e.g. `g s = s³`), and then its
derivative is not `0` in general.  This is exactly what happens in the Cardano branch with respect to a PARAMETER `θ`:
the two `cbrtG` arguments `A₊ A₋` satisfy `A₊·A₋ = −δ₁³`, so `A₋ = (−δ₁/cbrt A₊)³` vanishes to third order where
`δ₁(θ) = 0`, `cbrt A₋ = −δ₁/cbrt A₊` is smooth with derivative `−δ₁'/cbrt A₊ ≠ 0`, while the dual run evaluates `cbrtG` at
the (correct) dual number `(0, 0)` of `A₋` and returns tangent `0`. -/

/-- **the dual `cbrtG` is unsound at a third-order zero**: `(0, 0)` is the correct dual number of `s ↦ s³` at `0`,
    `s ↦ cbrtG (s³) = s` has derivative `1` there, the dual `cbrtG` returns tangent `0` -/
theorem cbrtG_dual_unsound (h3 : e 3.0 = 3) :
    IsDual (fun s : ℝ => s ^ 3) 0 (0, 0) ∧
    HasDerivAt (fun s : ℝ => cbrtG (NF.realX e) (s ^ 3)) 1 0 ∧
    cbrtG D[e] (0, 0) = (0, 0) ∧
    ¬ IsDual (fun s : ℝ => cbrtG (NF.realX e) (s ^ 3)) 0 (cbrtG D[e] (0, 0)) := by
  have hid : (fun s : ℝ => cbrtG (NF.realX e) (s ^ 3)) = fun s => s := by
    funext s
    rw [cbrtG_real e h3]
    exact CubicRoots.cube_inj (CubicRoots.cbrt_cube _)
  have hd : HasDerivAt (fun s : ℝ => cbrtG (NF.realX e) (s ^ 3)) 1 0 := by rw [hid]; exact hasDerivAt_id' 0
  refine ⟨⟨by norm_num, by simpa using hasDerivAt_pow 3 (0:ℝ)⟩, hd, cbrtG_dual_at_zero e 0, ?_⟩
  intro h
  rw [cbrtG_dual_at_zero] at h
  have := h.2.unique hd
  norm_num at this

/-- **the dual `cardano` piece is unsound where `δ₁ = 0`**: along the curve `b_ = 0`, `dep1 = s³ − 1`, `disc = −(1 + s³)²`,
    `lcw = 0` (whose correct dual numbers at `s = 0` are `(0,0)`, `(−1,0)`, `(−1,0)`, `(0,0)`) the real piece is `1 − s`
    near `0`, derivative `−1`; the dual piece returns tangent `0` -/
theorem cardano_dual_unsound (h3 : e 3.0 = 3) :
    IsDual (fun s : ℝ => s ^ 3 - 1) 0 (-1, 0) ∧ IsDual (fun s : ℝ => -(1 + s ^ 3) ^ 2) 0 (-1, 0) ∧
    HasDerivAt (fun s : ℝ => cardano (NF.realX e) 0 (s ^ 3 - 1) (-(1 + s ^ 3) ^ 2) 0) (-1) 0 ∧
    cardano D[e] (0, 0) (-1, 0) (-1, 0) (0, 0) = (1, 0) := by
  have hp3 : HasDerivAt (fun s : ℝ => s ^ 3) 0 0 := by simpa using hasDerivAt_pow 3 (0:ℝ)
  refine ⟨⟨by norm_num, by simpa using hp3.sub_const 1⟩, ⟨by norm_num, ?_⟩, ?_, ?_⟩
  · have h : HasDerivAt (fun s : ℝ => -(1 + s ^ 3) ^ 2) (-(((2:ℕ):ℝ) * (1 + (0:ℝ) ^ 3) ^ (2 - 1) * 0)) 0 :=
      ((hp3.const_add 1).pow 2).neg
    simpa using h
  · have hloc : (fun s : ℝ => 1 - s) =ᶠ[𝓝 0] fun s => cardano (NF.realX e) 0 (s ^ 3 - 1) (-(1 + s ^ 3) ^ 2) 0 := by
      filter_upwards [Ioo_mem_nhds (show (-1:ℝ) < 0 by norm_num) (show (0:ℝ) < 1 by norm_num)] with s hs
      have hs3 : 0 < 1 + s ^ 3 := by nlinarith [hs.1, hs.2, sq_nonneg s, sq_nonneg (s + 1)]
      unfold cardano
      simp only [cbrtG_real e h3, NF.realX_sqrt, NF.realX_neg, NF.realX_div, NF.realX_add, NF.realX_sub, NF.realX_two,
        neg_neg, Real.sqrt_sq hs3.le]
      have h1 : (-(s ^ 3 - 1) + (1 + s ^ 3)) / 2 = (1:ℝ) ^ 3 := by ring
      have h2 : (-(s ^ 3 - 1) - (1 + s ^ 3)) / 2 = (-s) ^ 3 := by ring
      rw [h1, h2, CubicRoots.cube_inj (CubicRoots.cbrt_cube ((1:ℝ) ^ 3)), CubicRoots.cube_inj (CubicRoots.cbrt_cube ((-s) ^ 3))]
      ring
    have : HasDerivAt (fun s : ℝ => 1 - s) (-1) 0 := by simpa using (hasDerivAt_id (0:ℝ)).const_sub 1
    exact this.congr_of_eventuallyEq hloc.symm
  · unfold cardano
    have hsq : D[e].sqrt (D[e].neg (-1, 0)) = (1, 0) := by
      rw [d_sqrt]; simp only [d_neg, neg_neg, Real.sqrt_one, neg_zero]; pair_ring
    have hq : D[e].div (D[e].sub (D[e].neg (-1, 0)) (1, 0)) (2, 0) = (0, 0) := by
      simp only [d_div, d_sub, d_neg]; pair_ring
    have hp : D[e].div (D[e].add (D[e].neg (-1, 0)) (1, 0)) (2, 0) = (1, 0) := by
      simp only [d_div, d_add, d_neg]; pair_ring
    have hc1 : CubicRoots.cbrt 1 = 1 := by
      have := CubicRoots.cube_inj (CubicRoots.cbrt_cube ((1:ℝ) ^ 3)); simpa using this
    simp only [hsq, d_two]
    simp only [hq, hp]
    rw [cbrtG_dual_at_zero, cbrtG_dual_of_ne e h3 1 0 one_ne_zero, hc1]
    simp only [d_add, d_sub]
    pair_ring

/-! ## The whole program on the witness with ARBITRARY dual parameters, then the tangent seeded on `udl` -/

theorem list_len1 (l : List ℝ) (h : l.length = 1) : l = [l.getD 0 0] := by
  match l, h with
  | [a], _ => rfl

theorem list_len2 (l : List ℝ) (h : l.length = 2) : l = [l.getD 0 0, l.getD 1 0] := by
  match l, h with
  | [a, b], _ => rfl

theorem witness_W : W eI cNV [0] = [1] := by
  rw [list_len1 _ (W_facts valid_example1).1]
  show [wv eI cNV [0] 0] = [1]
  rw [ex1_wv]

theorem witness_H : H eI cNV [0] = [1] := by
  rw [list_len1 _ (H_facts valid_example1).1]
  show [CubicWhole.hv eI cNV [0] 0] = [1]
  rw [ex1_hv]

theorem witness_slopes : slopes eI cNV [0] [0] = [1] := by
  rw [list_len1 _ (slopes_length valid_example1)]
  show [sv eI cNV [0] [0] 0] = [1]
  rw [ex1_sv]

theorem witness_cumw : cumw eI cNV [0] = [0, 1] := by
  rw [list_len2 _ (cumw_facts valid_example1).1]
  show [cws eI cNV [0] 0, cws eI cNV [0] 1] = [0, 1]
  rw [cws_zero valid_example1, witness_cws1]

theorem witness_cumh : cumh eI cNV [0] = [0, 1] := by
  rw [list_len2 _ (cumh_facts valid_example1).1]
  show [chs eI cNV [0] 0, chs eI cNV [0] 1] = [0, 1]
  have hcl := chs_last valid_example1
  simp only [List.length_cons, List.length_nil, zero_add] at hcl
  rw [chs_zero valid_example1, hcl]

theorem WD_witness : Wg D[eI] cNV [ι 0] = [ι 1] :=
  calc Wg D[eI] cNV [ι 0] = (W eI cNV [0]).map ι := (Wg_hom (lift_hom eI) cNV [0]).symm
    _ = [ι 1] := by rw [witness_W]; rfl

theorem HD_witness : Hg D[eI] cNV [ι 0] = [ι 1] :=
  calc Hg D[eI] cNV [ι 0] = (H eI cNV [0]).map ι := (Hg_hom (lift_hom eI) cNV [0]).symm
    _ = [ι 1] := by rw [witness_H]; rfl

theorem slopesD_witness : slopesG D[eI] cNV [ι 0] [ι 0] = [ι 1] :=
  calc slopesG D[eI] cNV [ι 0] [ι 0] = (slopes eI cNV [0] [0]).map ι := (slopesG_hom (lift_hom eI) cNV [0] [0]).symm
    _ = [ι 1] := by rw [witness_slopes]; rfl

theorem cumwD_witness : cumwG D[eI] cNV [ι 0] = [ι 0, ι 1] :=
  calc cumwG D[eI] cNV [ι 0] = (cumw eI cNV [0]).map ι := (cumwG_hom (lift_hom eI) cNV [0]).symm
    _ = [ι 0, ι 1] := by rw [witness_cumw]; rfl

theorem cumhD_witness : cumhG D[eI] cNV [ι 0] = [ι 0, ι 1] :=
  calc cumhG D[eI] cNV [ι 0] = (cumh eI cNV [0]).map ι := (cumhG_hom (lift_hom eI) cNV [0]).symm
    _ = [ι 0, ι 1] := by rw [witness_cumh]; rfl

/-- one bin: there is no interior knot derivative -/
theorem midD_witness : midG D[eI] cNV [ι 0] [ι 0] = [] := by
  unfold midG
  rw [slopesD_witness]
  rfl

/-- the tail of the dual program on the one-bin witness, for ARBITRARY dual end derivatives `dl dr` and input `t` -/
theorem tailG_dual_K1 (dl dr t : ℝ × ℝ) (ht0 : 0 ≤ t.1) (ht1 : t.1 ≤ 1) :
    tailG D[eI] cNV [ι 0] [ι 0] [dl, dr] t
      = .ok (invCore D[eI] cNV
          (D[eI].div (D[eI].sub (D[eI].add dl dr) (D[eI].mul D[eI].two (ι 1))) (D[eI].mul (ι 1) (ι 1)))
          (D[eI].div (D[eI].sub (D[eI].sub (D[eI].mul (D[eI].ofNat 3) (ι 1)) (D[eI].mul D[eI].two dl)) dr) (ι 1))
          dl (ι 0) (ι 0) (ι 1) (ι 1) t) := by
  have hs : searchsortedG D[eI] cNV.seps [ι 0, ι 1] t = 0 := by
    rw [(fst_hom eI).searchsortedG]
    show searchsortedG (NF.realX eI) cNV.seps [0, 1] t.1 = 0
    have h := (search_specH valid_example1).2 t.1 ht0 ht1
    rw [witness_cumh] at h
    rw [h]
    obtain ⟨hiK, _, _, _⟩ := selH valid_example1 t.1 ht0 ht1
    have : idxH eI cNV [0] t.1 < 1 := by simpa using hiK
    have h0 : idxH eI cNV [0] t.1 = 0 := by omega
    rw [h0]; rfl
  have haL : aLG D[eI] cNV [ι 0] [ι 0] [dl, dr]
      = [D[eI].div (D[eI].sub (D[eI].add dl dr) (D[eI].mul D[eI].two (ι 1))) (D[eI].mul (ι 1) (ι 1))] := by
    unfold aLG
    rw [slopesD_witness, WD_witness]
    rfl
  have hbL : bLG D[eI] cNV [ι 0] [ι 0] [dl, dr]
      = [D[eI].div (D[eI].sub (D[eI].sub (D[eI].mul (D[eI].ofNat 3) (ι 1)) (D[eI].mul D[eI].two dl)) dr) (ι 1)] := by
    unfold bLG
    rw [slopesD_witness, WD_witness]
    rfl
  unfold tailG
  simp only [cumhD_witness, cumwD_witness, HD_witness, haL, hbL, hs]
  rfl

/-- **the dual run on the one-bin witness for ARBITRARY dual parameters `udl udr` and dual input `y'`** (value of `y'` in
    the domain): `invCore` on the dual coefficients -/
theorem cubicSpline_dual_inv_K1 (udlD udrD y' : ℝ × ℝ) (hy0 : 0 ≤ y'.1) (hy1 : y'.1 ≤ 1) :
    cubicSpline D[eI] cNV [ι 0] [ι 0] udlD udrD true y'
      = .ok (invCore D[eI] cNV
          (D[eI].div (D[eI].sub (D[eI].add (D[eI].mul (D[eI].mul (D[eI].sigmoid udlD) (D[eI].ofNat 3)) (ι 1))
            (D[eI].mul (D[eI].mul (D[eI].sigmoid udrD) (D[eI].ofNat 3)) (ι 1))) (D[eI].mul D[eI].two (ι 1)))
            (D[eI].mul (ι 1) (ι 1)))
          (D[eI].div (D[eI].sub (D[eI].sub (D[eI].mul (D[eI].ofNat 3) (ι 1))
            (D[eI].mul D[eI].two (D[eI].mul (D[eI].mul (D[eI].sigmoid udlD) (D[eI].ofNat 3)) (ι 1))))
            (D[eI].mul (D[eI].mul (D[eI].sigmoid udrD) (D[eI].ofNat 3)) (ι 1))) (ι 1))
          (D[eI].mul (D[eI].mul (D[eI].sigmoid udlD) (D[eI].ofNat 3)) (ι 1)) (ι 0) (ι 0) (ι 1) (ι 1) (ynD eI cNV y')) := by
  have hg1 : (D[eI].lt y' (D[eI].ofFloat cNV.box.bottom) || D[eI].lt (D[eI].ofFloat cNV.box.top) y') = false := by
    simp only [d_lt, d_ofFloat, Bool.or_eq_false_iff, decide_eq_false_iff_not, not_lt, ex_bottom, ex_top]
    exact ⟨hy0, hy1⟩
  have hgW : ¬ (cNV.minW * ([ι (0:ℝ)] : List (ℝ × ℝ)).length.toFloat > 1.0) := valid_example1.hgW
  have hgH : ¬ (cNV.minH * ([ι (0:ℝ)] : List (ℝ × ℝ)).length.toFloat > 1.0) := valid_example1.hgH
  have hder : derivsG D[eI] cNV [ι 0] [ι 0] udlD udrD (ι 1) (ι 1)
      = [D[eI].mul (D[eI].mul (D[eI].sigmoid udlD) (D[eI].ofNat 3)) (ι 1),
         D[eI].mul (D[eI].mul (D[eI].sigmoid udrD) (D[eI].ofNat 3)) (ι 1)] := by
    unfold derivsG
    rw [midD_witness]
    rfl
  have ht : 0 ≤ (ynD eI cNV y').1 ∧ (ynD eI cNV y').1 ≤ 1 := by
    rw [ynD_fst, witness_yn]; exact ⟨hy0, hy1⟩
  rw [cubicSpline_unfoldG]
  simp only [hg1, hgW, hgH, Bool.false_eq_true, if_false, slopesD_witness]
  show tailG D[eI] cNV [ι 0] [ι 0] (derivsG D[eI] cNV [ι 0] [ι 0] udlD udrD (ι 1) (ι 1)) (ynD eI cNV y') = _
  rw [hder]
  exact tailG_dual_K1 _ _ _ ht.1 ht.2

/-! ### tangent seeded on the parameter `udl = −log 6` (`udr = log (4/3)` and the input `y` enter with tangent `0`) -/

theorem d_ofNat3 : D[e].ofNat 3 = (3, 0) := by
  unfold XOps.ofNat
  rw [d_ofRat]
  norm_num

/-- left end derivative `3·sigmoid(udl)·s₀`: value `3/7`, tangent `3·σ(1−σ) = 18/49` -/
theorem dl_witness_param :
    D[eI].mul (D[eI].mul (D[eI].sigmoid (-Real.log 6, 1)) (D[eI].ofNat 3)) (ι 1) = (3/7, 18/49) := by
  rw [d_ofNat3]
  unfold XOps.sigmoid
  simp only [d_mul, d_div, d_add, d_one, d_exp, d_neg, ι, neg_neg, Real.exp_log (show (0:ℝ) < 6 by norm_num)]
  pair_ring

theorem dr_witness_param :
    D[eI].mul (D[eI].mul (D[eI].sigmoid (ι (Real.log (4/3)))) (D[eI].ofNat 3)) (ι 1) = (12/7, 0) := by
  rw [d_ofNat3]
  unfold XOps.sigmoid
  simp only [d_mul, d_div, d_add, d_one, d_exp, d_neg, ι, Real.exp_neg, Real.exp_log (show (0:ℝ) < 4/3 by norm_num)]
  pair_ring

theorem a_witness_param :
    D[eI].div (D[eI].sub (D[eI].add (3/7, 18/49) (12/7, 0)) (D[eI].mul D[eI].two (ι 1))) (D[eI].mul (ι 1) (ι 1))
      = (1/7, 18/49) := by
  rw [d_two]; simp only [d_div, d_sub, d_add, d_mul, ι]; pair_ring

theorem b_witness_param :
    D[eI].div (D[eI].sub (D[eI].sub (D[eI].mul (D[eI].ofNat 3) (ι 1)) (D[eI].mul D[eI].two (3/7, 18/49))) (12/7, 0)) (ι 1)
      = (3/7, -36/49) := by
  rw [d_two, d_ofNat3]; simp only [d_div, d_sub, d_mul, ι]; pair_ring

/-- Blinn's quantities of the dual run, tangent on `udl`: `δ₁ = (0, 48/7)` — value `0`, NON-ZERO tangent -/
theorem out0_dual_witness_param (hc : InvConsts e c) (y : ℝ) (hy : 0 ≤ y) :
    out0 D[e] (1/7, 18/49) (3/7, -36/49) (3/7, 18/49) (ι 0) (ι 0) (ι 1) (y, 0)
      = (cardano D[e] (1, -30/7) (-(1 + 7*y), 18*y - 54/7) (-(1 + 7*y)^2, (1 + 7*y) * (36*y - 108/7)) (ι 0), []) := by
  have hb : D[e].div (D[e].div (3/7, -36/49) (1/7, 18/49)) (D[e].ofFloat 3.0) = (1, -30/7) := by
    rw [d_ofFloat, hc.h3]; simp only [d_div]; pair_ring
  have hcc : D[e].div (D[e].div (3/7, 18/49) (1/7, 18/49)) (D[e].ofFloat 3.0) = (1, -12/7) := by
    rw [d_ofFloat, hc.h3]; simp only [d_div]; pair_ring
  have hd : D[e].div (D[e].sub (ι 0) (y, 0)) (1/7, 18/49) = (-(7*y), 18*y) := by
    simp only [d_div, d_sub, ι]; pair_ring
  have hδ1 : D[e].add (D[e].neg (D[e].mul (1, -30/7) (1, -30/7))) (1, -12/7) = (0, 48/7) := by
    simp only [d_add, d_neg, d_mul]; pair_ring
  have hδ2 : D[e].add (D[e].neg (D[e].mul (1, -12/7) (1, -30/7))) (-(7*y), 18*y) = (-(1 + 7*y), 6 + 18*y) := by
    simp only [d_add, d_neg, d_mul]; pair_ring
  have hδ3 : D[e].sub (D[e].mul (1, -30/7) (-(7*y), 18*y)) (D[e].mul (1, -12/7) (1, -12/7))
      = (-(1 + 7*y), 48*y + 24/7) := by
    simp only [d_sub, d_mul]; pair_ring
  have hdisc : D[e].sub (D[e].mul (D[e].mul (D[e].ofFloat 4.0) (0, 48/7)) (-(1 + 7*y), 48*y + 24/7))
      (D[e].mul (-(1 + 7*y), 6 + 18*y) (-(1 + 7*y), 6 + 18*y)) = (-(1 + 7*y)^2, (1 + 7*y) * (36*y - 108/7)) := by
    rw [d_ofFloat, hc.h4]; simp only [d_sub, d_mul]; pair_ring
  have hdep1 : D[e].add (D[e].mul (D[e].mul (D[e].ofFloat (-2.0)) (1, -30/7)) (0, 48/7)) (-(1 + 7*y), 6 + 18*y)
      = (-(1 + 7*y), 18*y - 54/7) := by
    rw [d_ofFloat, hc.hm2]; simp only [d_add, d_mul]; pair_ring
  have hn : -(1 + 7*y)^2 < 0 := by nlinarith
  have hn' : ¬ (0:ℝ) ≤ -(1 + 7*y)^2 := not_le.mpr hn
  unfold out0
  simp only [hb, hcc, hd, hδ1, hδ2, hδ3, hdisc, hdep1]
  simp only [XOps.ge, d_le, d_lt, d_zero, hn, hn', decide_true, decide_false, if_true, if_false, Bool.false_eq_true]

/-- the second `cbrtG` argument is again the dual number `(0, 0)`; the Cardano root of the dual run, tangent on `udl` -/
theorem cardano_dual_witness_param (hc : InvConsts e c) (y : ℝ) (hy : 0 ≤ y) :
    D[e].div (D[e].sub (D[e].neg (-(1 + 7*y), 18*y - 54/7))
        (D[e].sqrt (D[e].neg (-(1 + 7*y)^2, (1 + 7*y) * (36*y - 108/7))))) D[e].two = (0, 0) ∧
    cardano D[e] (1, -30/7) (-(1 + 7*y), 18*y - 54/7) (-(1 + 7*y)^2, (1 + 7*y) * (36*y - 108/7)) (ι 0)
      = (CubicRoots.cbrt (1 + 7*y) - 1, (54/7 - 18*y) * CubicRoots.cbrt (1 + 7*y) / (3 * (1 + 7*y)) + 30/7) := by
  have hpos : 0 < 1 + 7*y := by linarith
  have hsq : D[e].sqrt (D[e].neg (-(1 + 7*y)^2, (1 + 7*y) * (36*y - 108/7))) = (1 + 7*y, 54/7 - 18*y) := by
    rw [d_sqrt]
    simp only [d_neg, neg_neg]
    rw [Real.sqrt_sq hpos.le]
    refine Prod.ext rfl ?_
    show -((1 + 7*y) * (36*y - 108/7)) / (2 * (1 + 7*y)) = 54/7 - 18*y
    rw [div_eq_iff (by positivity)]; ring
  have hq : D[e].div (D[e].sub (D[e].neg (-(1 + 7*y), 18*y - 54/7)) (1 + 7*y, 54/7 - 18*y)) D[e].two = (0, 0) := by
    rw [d_two]; simp only [d_div, d_sub, d_neg]; pair_ring
  have hp : D[e].div (D[e].add (D[e].neg (-(1 + 7*y), 18*y - 54/7)) (1 + 7*y, 54/7 - 18*y)) D[e].two
      = (1 + 7*y, 54/7 - 18*y) := by
    rw [d_two]; simp only [d_div, d_add, d_neg]; pair_ring
  refine ⟨by rw [hsq, hq], ?_⟩
  unfold cardano
  simp only [hsq]
  simp only [hq, hp]
  rw [cbrtG_dual_at_zero, cbrtG_dual_of_ne e hc.h3 _ _ hpos.ne']
  simp only [d_add, d_sub, ι]
  pair_ring

/-- `invCore` of the dual run at the witness, tangent on `udl` -/
theorem invCore_dual_witness_param (y : ℝ) (h0 : 0 ≤ y) (h1 : y ≤ 1) :
    ∃ L : ℝ × ℝ, invCore D[eI] cNV (1/7, 18/49) (3/7, -36/49) (3/7, 18/49) (ι 0) (ι 0) (ι 1) (ι 1) (y, 0)
      = ((CubicRoots.cbrt (1 + 7*y) - 1, (54/7 - 18*y) * CubicRoots.cbrt (1 + 7*y) / (3 * (1 + 7*y)) + 30/7), L, []) := by
  have hfb : fallback D[eI] cNV (1/7, 18/49) (ι 0) (ι 1) (ι 1) = false := by
    rw [fallback_dual, fallback_eq]
    simp only [ι, ex_thr]
    norm_num [abs_of_pos]
  have hout1 : out1 D[eI] cNV (1/7, 18/49) (3/7, -36/49) (3/7, 18/49) (ι 0) (ι 0) (ι 1) (ι 1) (y, 0)
      = ((CubicRoots.cbrt (1 + 7*y) - 1, (54/7 - 18*y) * CubicRoots.cbrt (1 + 7*y) / (3 * (1 + 7*y)) + 30/7), []) := by
    unfold out1
    rw [hfb]
    simp only [Bool.false_eq_true, if_false]
    rw [out0_dual_witness_param consts_example y h0, (cardano_dual_witness_param consts_example y h0).2]
  obtain ⟨hb0, hb1⟩ := cbrt_witness_bounds y h0 h1
  have hrl : eI (cNV.box.right - cNV.box.left) = 1 := by rw [valid_example1.hdlr, ex_right, ex_left]; norm_num
  refine ⟨(invCore D[eI] cNV (1/7, 18/49) (3/7, -36/49) (3/7, 18/49) (ι 0) (ι 0) (ι 1) (ι 1) (y, 0)).2.1, ?_⟩
  refine Prod.ext ?_ (Prod.ext rfl ?_)
  · show sc D[eI] cNV (inBin D[eI] (ι 0) (ι 1)
        (out1 D[eI] cNV (1/7, 18/49) (3/7, -36/49) (3/7, 18/49) (ι 0) (ι 0) (ι 1) (ι 1) (y, 0)).1) = _
    rw [hout1, inBin_dual_id 0 1 _ hb0 hb1, sc_dual_id hrl ex_left _ hb0 hb1]
  · show ((out1 D[eI] cNV (1/7, 18/49) (3/7, -36/49) (3/7, 18/49) (ι 0) (ι 0) (ι 1) (ι 1) (y, 0)).2.map
        (inBin D[eI] (ι 0) (ι 1))).map (sc D[eI] cNV) = _
    rw [hout1]
    rfl

/-- **the dual run of the WHOLE program on the witness, tangent seeded on the parameter `udl`**: for every `y ∈ [0,1]` the
    output value is the real output and the output tangent is `(54/7 − 18y)·cbrt(1+7y)/(3(1+7y)) + 30/7` -/
theorem cubicSpline_dual_inv_witness_param (y : ℝ) (h0 : 0 ≤ y) (h1 : y ≤ 1) :
    ∃ L : ℝ × ℝ,
      cubicSpline D[eI] cNV [ι 0] [ι 0] (-Real.log 6, 1) (ι (Real.log (4/3))) true (ι y)
        = .ok ((inv eI cNV [0] [0] (-Real.log 6) (Real.log (4/3)) y,
                (54/7 - 18*y) * CubicRoots.cbrt (1 + 7*y) / (3 * (1 + 7*y)) + 30/7), L, []) := by
  obtain ⟨L, hL⟩ := invCore_dual_witness_param y h0 h1
  have hyD : ynD eI cNV (ι y) = (y, 0) := by
    unfold ynD ynG
    rw [d_ofFloat, d_ofFloat, valid_example1.hdbt, ex_top, ex_bottom]
    simp only [d_div, d_sub, ι]
    pair_ring
  refine ⟨L, ?_⟩
  rw [cubicSpline_dual_inv_K1 _ _ (ι y) h0 h1, dl_witness_param, dr_witness_param, a_witness_param, b_witness_param,
    hyD, hL, inv_witness y h0 h1]

/-- at `y = bottom` the real program returns `left`, for ALL parameter values `udl udr` (fallback taken or not) -/
theorem inv_witness_bottom (udl udr : ℝ) : inv eI cNV [0] [0] udl udr 0 = 0 := by
  have hidx : idxH eI cNV [0] 0 = 0 := by
    have := witness_idx 0 le_rfl zero_le_one
    rwa [witness_yn] at this
  have hr : rootN eI cNV [0] [0] udl udr 0 = 0 := by
    by_cases hfb : fallback (NF.realX eI) cNV (aK eI cNV [0] [0] udl udr 0) (cws eI cNV [0] 0) (cws eI cNV [0] (0+1))
        (CubicWhole.hv eI cNV [0] 0) = true
    · unfold rootN preRoot
      rw [hidx]
      unfold out1
      rw [if_pos hfb, quadRoot_eq consts_example, chs_zero valid_example1, cws_zero valid_example1]
      have hq : CubicRoots.qroot (bK eI cNV [0] [0] udl udr 0) (dv eI cNV [0] [0] udl udr 0) (0 - 0) = 0 := by
        unfold CubicRoots.qroot; simp
      rw [hq, add_zero, inBin_id _ _ _ le_rfl (by rw [zero_add, witness_cws1]; norm_num)]
    · have hex : ExactBin eI cNV [0] [0] udl udr (idxH eI cNV [0] 0) := by
        rw [hidx]; exact Or.inl (by simpa using hfb)
      obtain ⟨hspec, _, _⟩ := rootN_spec valid_example1 consts_example 0 le_rfl zero_le_one hex
      obtain ⟨⟨m0, m1⟩, _, _⟩ := rootN_mem (udl := udl) (udr := udr) valid_example1 0 le_rfl zero_le_one
      rw [hidx] at hspec m0 m1
      have hinj := (bin_strictMonoOn (udl := udl) (udr := udr) valid_example1 0 (by simp)).injOn
      have hend := (bin_endpoints (udl := udl) (udr := udr) valid_example1 0 (by simp)).1
      have := hinj ⟨m0, m1⟩ ⟨le_rfl, (cws_strict valid_example1 0 (by simp)).le⟩
        (hspec.trans (by rw [hend, chs_zero valid_example1]))
      rw [this, cws_zero valid_example1]
  have hb : eI cNV.box.bottom ≤ 0 := by rw [ex_bottom]
  have ht : (0:ℝ) ≤ eI cNV.box.top := by rw [ex_top]; norm_num
  rw [inv_eq_root valid_example1 0 hb ht, witness_yn, hr, ex_right, ex_left]
  ring

/-- **FINDING (proved unsoundness over ℝ, parameter gradient)**: on the accepted one-bin configuration, `udl = −log 6`,
    `udr = log (4/3)`, input `y = 0`, tangent seeded on `udl`: the dual run of the executed cubic inverse returns the
    output `(0, 48/7)`; but the real program returns `0` at `y = 0` for EVERY `udl`, so the derivative of its output with
    respect to `udl` is `0`, not `48/7`. -/
theorem dual_param_gradient_wrong :
    (∃ L : ℝ × ℝ, cubicSpline D[eI] cNV [ι 0] [ι 0] (-Real.log 6, 1) (ι (Real.log (4/3))) true (ι 0)
        = .ok ((0, 48/7), L, [])) ∧
    HasDerivAt (fun θ : ℝ => inv eI cNV [0] [0] θ (Real.log (4/3)) 0) 0 (-Real.log 6) ∧
    ¬ HasDerivAt (fun θ : ℝ => inv eI cNV [0] [0] θ (Real.log (4/3)) 0) (48/7) (-Real.log 6) := by
  have hconst : (fun θ : ℝ => inv eI cNV [0] [0] θ (Real.log (4/3)) 0) = fun _ => 0 :=
    funext fun θ => inv_witness_bottom θ _
  have hd : HasDerivAt (fun θ : ℝ => inv eI cNV [0] [0] θ (Real.log (4/3)) 0) 0 (-Real.log 6) := by
    rw [hconst]; exact hasDerivAt_const _ _
  refine ⟨?_, hd, fun h => ?_⟩
  · obtain ⟨L, hL⟩ := cubicSpline_dual_inv_witness_param 0 le_rfl zero_le_one
    refine ⟨L, ?_⟩
    rw [hL, inv_witness_bottom]
    have hc1 : CubicRoots.cbrt (1 + 7 * 0) = 1 := by
      have := CubicRoots.cube_inj (CubicRoots.cbrt_cube ((1:ℝ) ^ 3)); simpa using this
    rw [hc1]
    norm_num
  · have := h.unique hd
    norm_num at this

/-- **FINDING, at every INTERIOR input**: for every `y ∈ (0,1)` the output tangent the dual run returns with the tangent
    seeded on `udl` (`cubicSpline_dual_inv_witness_param`) is NOT the derivative of the real program's output with respect
    to `udl`.  (Differentiate `a(θ) x³ + b(θ) x² + c(θ) x = y`, valid near `θ₀ = −log 6` where no fallback is taken: the
    returned tangent leaves the residual `144·cbrt(1+7y)/49 ≠ 0`.) -/
theorem dual_param_gradient_wrong_interior (y : ℝ) (h0 : 0 < y) (h1 : y < 1) :
    ¬ HasDerivAt (fun θ : ℝ => inv eI cNV [0] [0] θ (Real.log (4/3)) y)
        ((54/7 - 18*y) * CubicRoots.cbrt (1 + 7*y) / (3 * (1 + 7*y)) + 30/7) (-Real.log 6) := by
  intro hG
  have hGθ0 := inv_witness y h0.le h1.le
  have hu1 : 1 ≤ CubicRoots.cbrt (1 + 7*y) := by linarith [(cbrt_witness_bounds y h0.le h1.le).1]
  have hu3 : CubicRoots.cbrt (1 + 7*y) ^ 3 = 1 + 7*y := CubicRoots.cbrt_cube _
  obtain ⟨u, hu⟩ : ∃ u, u = CubicRoots.cbrt (1 + 7*y) := ⟨_, rfl⟩
  rw [← hu] at hG hGθ0 hu1 hu3
  obtain ⟨T, hT⟩ : ∃ T, T = (54/7 - 18*y) * u / (3 * (1 + 7*y)) + 30/7 := ⟨_, rfl⟩
  rw [← hT] at hG
  have hune : u ≠ 0 := by linarith
  have hTu : T * (7 * u^2) = 24 - 6 * u^3 + 30 * u^2 := by
    have h54 : 54/7 - 18*y = (72 - 18 * u^3)/7 := by linarith [hu3]
    rw [hT, ← hu3, h54]
    field_simp
    ring
  -- the sigmoid and its derivative at `θ₀`
  have hsv : D[eI].sigmoid (-Real.log 6, 1) = (1/7, 6/49) := by
    unfold XOps.sigmoid
    simp only [d_div, d_add, d_one, d_exp, d_neg, neg_neg, Real.exp_log (show (0:ℝ) < 6 by norm_num)]
    pair_ring
  have hsD := IsDual.sigmoid eI (IsDual.id (-Real.log 6))
  rw [hsv] at hsD
  have hs0 : (NF.realX eI).sigmoid (-Real.log 6) = 1/7 := sigmoid_neg_log6
  obtain ⟨G, hGd⟩ : ∃ G : ℝ → ℝ, ∀ θ, G θ = inv eI cNV [0] [0] θ (Real.log (4/3)) y := ⟨_, fun _ => rfl⟩
  obtain ⟨s, hsd⟩ : ∃ s : ℝ → ℝ, ∀ θ, s θ = (NF.realX eI).sigmoid θ := ⟨_, fun _ => rfl⟩
  have hG' : HasDerivAt G T (-Real.log 6) := by
    have : G = fun θ => inv eI cNV [0] [0] θ (Real.log (4/3)) y := funext hGd
    rw [this]; exact hG
  have hs' : HasDerivAt s (6/49) (-Real.log 6) := by
    have : s = fun θ => (NF.realX eI).sigmoid θ := funext hsd
    rw [this]; exact hsD.2
  have hev : ∀ᶠ θ in 𝓝 (-Real.log 6), (1:ℝ)/10 < s θ :=
    hs'.continuousAt.eventually (lt_mem_nhds (by rw [hsd, hs0]; norm_num))
  -- the coefficients of the bin for a general `udl = θ`
  have hdv0 : ∀ θ, dv eI cNV [0] [0] θ (Real.log (4/3)) 0 = s θ * 3 := fun θ => by
    rw [dv_end_left, ex1_sv, hsd]; ring
  have hdv1 : ∀ θ, dv eI cNV [0] [0] θ (Real.log (4/3)) 1 = 12/7 := fun θ => by
    have := dv_end_right (udl := θ) (udr := Real.log (4/3)) valid_example1
    simp only [List.length_cons, List.length_nil, zero_add, Nat.sub_self] at this
    rw [this, ex1_sv, sigmoid_log43]; norm_num
  have haK : ∀ θ, aK eI cNV [0] [0] θ (Real.log (4/3)) 0 = 3 * s θ - 2/7 := fun θ => by
    unfold aK; rw [zero_add, hdv0, hdv1, ex1_sv, ex1_wv]; ring
  have hbK : ∀ θ, bK eI cNV [0] [0] θ (Real.log (4/3)) 0 = 9/7 - 6 * s θ := fun θ => by
    unfold bK; rw [zero_add, hdv0, hdv1, ex1_sv, ex1_wv]; ring
  -- near `θ₀` the program's output solves the bin's cubic exactly
  have hP : (fun θ => (3 * s θ - 2/7) * G θ ^ 3 + (9/7 - 6 * s θ) * G θ ^ 2 + 3 * s θ * G θ) =ᶠ[𝓝 (-Real.log 6)]
      fun _ => y := by
    filter_upwards [hev] with θ hθ
    have hidx := witness_idx y h0.le h1.le
    have hfb : fallback (NF.realX eI) cNV (aK eI cNV [0] [0] θ (Real.log (4/3)) 0) (cws eI cNV [0] 0)
        (cws eI cNV [0] (0+1)) (CubicWhole.hv eI cNV [0] 0) = false := by
      rw [fallback_eq, haK, cws_zero valid_example1, zero_add, witness_cws1, ex1_hv, ex_thr, decide_eq_false_iff_not,
        not_lt, abs_of_pos (by linarith)]
      nlinarith
    have hex : ExactBin eI cNV [0] [0] θ (Real.log (4/3)) (idxH eI cNV [0] (yn eI cNV y)) := by
      rw [hidx]; exact Or.inl hfb
    have hyb : eI cNV.box.bottom ≤ y := by rw [ex_bottom]; exact h0.le
    have hyt : y ≤ eI cNV.box.top := by rw [ex_top]; exact h1.le
    obtain ⟨ht0, ht1⟩ := yn_unit valid_example1 y hyb hyt
    have hspec := (rootN_spec valid_example1 consts_example (yn eI cNV y) ht0 ht1 hex).1
    have hinv := inv_eq_root (udl := θ) (udr := Real.log (4/3)) valid_example1 y hyb hyt
    rw [ex_right, ex_left, ← hGd] at hinv
    have hr : rootN eI cNV [0] [0] θ (Real.log (4/3)) (yn eI cNV y) = G θ := by rw [hinv]; ring
    rw [hidx, binN_poly, haK, hbK, hdv0, chs_zero valid_example1, cws_zero valid_example1, hr, witness_yn] at hspec
    show (3 * s θ - 2/7) * G θ ^ 3 + (9/7 - 6 * s θ) * G θ ^ 2 + 3 * s θ * G θ = y
    linear_combination hspec
  -- differentiate
  have hG3 : HasDerivAt (fun θ => G θ ^ 3) (((3:ℕ):ℝ) * G (-Real.log 6) ^ (3 - 1) * T) (-Real.log 6) := hG'.pow 3
  have hG2 : HasDerivAt (fun θ => G θ ^ 2) (((2:ℕ):ℝ) * G (-Real.log 6) ^ (2 - 1) * T) (-Real.log 6) := hG'.pow 2
  have hA : HasDerivAt (fun θ => (3 * s θ - 2/7) * G θ ^ 3)
      (3 * (6/49) * G (-Real.log 6) ^ 3 + (3 * s (-Real.log 6) - 2/7) * (((3:ℕ):ℝ) * G (-Real.log 6) ^ (3 - 1) * T))
      (-Real.log 6) := ((hs'.const_mul 3).sub_const (2/7)).mul hG3
  have hB : HasDerivAt (fun θ => (9/7 - 6 * s θ) * G θ ^ 2)
      (-(6 * (6/49)) * G (-Real.log 6) ^ 2 + (9/7 - 6 * s (-Real.log 6)) * (((2:ℕ):ℝ) * G (-Real.log 6) ^ (2 - 1) * T))
      (-Real.log 6) := ((hs'.const_mul 6).const_sub (9/7)).mul hG2
  have hC : HasDerivAt (fun θ => 3 * s θ * G θ) (3 * (6/49) * G (-Real.log 6) + 3 * s (-Real.log 6) * T)
      (-Real.log 6) := (hs'.const_mul 3).mul hG'
  have hsum : HasDerivAt (fun θ => (3 * s θ - 2/7) * G θ ^ 3 + (9/7 - 6 * s θ) * G θ ^ 2 + 3 * s θ * G θ)
      (3 * (6/49) * G (-Real.log 6) ^ 3 + (3 * s (-Real.log 6) - 2/7) * (((3:ℕ):ℝ) * G (-Real.log 6) ^ (3 - 1) * T)
        + (-(6 * (6/49)) * G (-Real.log 6) ^ 2 + (9/7 - 6 * s (-Real.log 6)) * (((2:ℕ):ℝ) * G (-Real.log 6) ^ (2 - 1) * T))
        + (3 * (6/49) * G (-Real.log 6) + 3 * s (-Real.log 6) * T)) (-Real.log 6) := (hA.add hB).add hC
  have key := hsum.unique ((hasDerivAt_const (-Real.log 6) y).congr_of_eventuallyEq hP)
  rw [hsd, hs0, hGd, hGθ0] at key
  norm_num at key
  have : 144 * u / 49 = 0 := by linear_combination key - (3/49) * hTu
  linarith

end
end DualXCubicInv
