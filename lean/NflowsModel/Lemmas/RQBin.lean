import NflowsModel.Real.Bridge
import NflowsModel.Lemmas.RQ
import Mathlib.Analysis.Calculus.Deriv.Comp
import Mathlib.Tactic
/-!
# Lemmas/RQBin — the executed rational-quadratic bin terms (`rqFwdE`, `rqFwdLdE`) over the reals
-/
open DualSound NF

namespace RQBin

/-- **RQ bin, as executed**: the `Expr` term the driver evaluates is strictly increasing on its bin. -/
theorem rq_executed_strictMonoOn {xk w yk h d0 d1 : ℝ} (hw : 0 < w) (hh : 0 < h) (h0 : 0 < d0) (h1 : 0 < d1) :
    StrictMonoOn (fun x => evalR (Bridge.rqEnv x xk w yk h d0 d1) rqFwdE) (Set.Icc xk (xk + w)) := by
  intro a ha b hb hab
  simp only [Bridge.rqFwdE_eq]
  have hs : 0 < h / w := div_pos hh hw
  have hm := RQ.g_strictMonoOn (s := h / w) (h := h) hs h0 h1 hh
  have ha' : (a - xk) / w ∈ Set.Icc (0:ℝ) 1 :=
    ⟨div_nonneg (by linarith [ha.1]) hw.le, by rw [div_le_one hw]; linarith [ha.2]⟩
  have hb' : (b - xk) / w ∈ Set.Icc (0:ℝ) 1 :=
    ⟨div_nonneg (by linarith [hb.1]) hw.le, by rw [div_le_one hw]; linarith [hb.2]⟩
  have : (a - xk) / w < (b - xk) / w := by
    apply div_lt_div_of_pos_right _ hw; linarith
  linarith [hm ha' hb' this]

/-- **RQ bin end-points, as executed**: left knot ↦ `yk`, right knot ↦ `yk + h`. -/
theorem rq_executed_endpoints {xk w yk h d0 d1 : ℝ} (hw : 0 < w) (hh : 0 < h) :
    evalR (Bridge.rqEnv xk xk w yk h d0 d1) rqFwdE = yk ∧
    evalR (Bridge.rqEnv (xk + w) xk w yk h d0 d1) rqFwdE = yk + h := by
  constructor
  · rw [Bridge.rqFwdE_eq]; simp [RQ.g_zero]
  · rw [Bridge.rqFwdE_eq]
    have : (xk + w - xk) / w = 1 := by rw [add_sub_cancel_left]; exact div_self hw.ne'
    rw [this, RQ.g_one (div_pos hh hw)]

/-- **RQ bin, as executed.**  On its bin the derivative of the executed forward term is `exp` of the executed
    log-abs-det term — for every width, height and pair of positive knot derivatives. -/
theorem rq_executed_logdet {xk w yk h d0 d1 x : ℝ} (hw : 0 < w) (hh : 0 < h) (h0 : 0 < d0) (h1 : 0 < d1)
    (hx0 : xk ≤ x) (hx1 : x ≤ xk + w) :
    HasDerivAt (fun x => evalR (Bridge.rqEnv x xk w yk h d0 d1) rqFwdE)
      (Real.exp (evalR (Bridge.rqEnv x xk w yk h d0 d1) rqFwdLdE)) x := by
  have hs : 0 < h / w := div_pos hh hw
  set θ := (x - xk) / w with hθ
  have ht0 : 0 ≤ θ := div_nonneg (by linarith) hw.le
  have ht1 : θ ≤ 1 := by rw [hθ, div_le_one hw]; linarith
  have hden := RQ.den_pos hs h0 h1 ht0 ht1
  have hdnum := RQ.dnum_pos hs h0 h1 ht0 ht1
  have hg := RQ.g_hasDerivAt (h := h) hs hden.ne'
  have hlin : HasDerivAt (fun x : ℝ => (x - xk) / w) (1 / w) x := by
    simpa using ((hasDerivAt_id x).sub_const xk).div_const w
  have hcomp := HasDerivAt.comp x hg hlin
  have hfun : (fun x => evalR (Bridge.rqEnv x xk w yk h d0 d1) rqFwdE)
      = fun x => yk + RQ.g (h / w) d0 d1 h ((x - xk) / w) := by
    funext z; exact Bridge.rqFwdE_eq z xk w yk h d0 d1
  rw [hfun, Bridge.rqFwdLdE_eq, RQ.logdet_eq hs h0 h1 ht0 ht1, Real.exp_log (by positivity)]
  have hval : h / (h / w) * RQ.dnum (h / w) d0 d1 θ / (RQ.den (h / w) d0 d1 θ)^2 * (1 / w)
      = RQ.dnum (h / w) d0 d1 θ / (RQ.den (h / w) d0 d1 θ)^2 := by
    field_simp
  exact (hcomp.const_add yk).congr_deriv hval

end RQBin
