import Mathlib.Analysis.Calculus.Deriv.MeanValue
import Mathlib.Analysis.Calculus.Deriv.Pow
import Mathlib.Tactic



noncomputable section
namespace Cubic
/-- derivative polynomial of the cubic bin as coded (cubic.py:134-137, 254-260) in u = x - x_k ∈ [0,w]:
    3a u² + 2b u + c with a=(d0+d1-2s)/w², b=(3s-2d0-d1)/w, c=d0; here in t = u/w -/
def dpoly (s d0 d1 t : ℝ) : ℝ := 3*(d0 + d1 - 2*s)*t^2 + 2*(3*s - 2*d0 - d1)*t + d0

theorem dpoly_blend (s d0 d1 t : ℝ) (hs : s ≠ 0) :
    dpoly s d0 d1 t = s * ((1 - d0/(3*s))*(1 - d1/(3*s))*(6*t*(1-t)) + (d0/(3*s))*(1 - d1/(3*s))*(3*(1-t)^2)
      + (1 - d0/(3*s))*(d1/(3*s))*(3*t^2) + (d0/(3*s))*(d1/(3*s))*(3*(1-2*t)^2)) := by
  unfold dpoly; field_simp; ring

/-- Fritsch–Carlson region: knot derivatives in (0, 3s) make the Hermite cubic strictly increasing -/
theorem dpoly_pos {s d0 d1 t : ℝ} (hs : 0 < s) (h0 : 0 < d0) (h0' : d0 < 3*s) (h1 : 0 < d1) (h1' : d1 < 3*s)
    (ht0 : 0 ≤ t) (ht1 : t ≤ 1) : 0 < dpoly s d0 d1 t := by
  rw [dpoly_blend s d0 d1 t hs.ne']
  apply mul_pos hs
  have ha0 : 0 < d0/(3*s) := by positivity
  have hb0 : 0 < d1/(3*s) := by positivity
  have ha1 : d0/(3*s) < 1 := by rw [div_lt_one (by positivity)]; exact h0'
  have hb1 : d1/(3*s) < 1 := by rw [div_lt_one (by positivity)]; exact h1'
  set a := d0/(3*s); set b := d1/(3*s)
  have t1 : 0 ≤ (1-a)*(1-b)*(6*t*(1-t)) := by
    apply mul_nonneg (mul_nonneg (by linarith) (by linarith)); nlinarith
  have t2 : 0 ≤ a*(1-b)*(3*(1-t)^2) := by
    apply mul_nonneg (mul_nonneg ha0.le (by linarith)); positivity
  have t3 : 0 ≤ (1-a)*b*(3*t^2) := by
    apply mul_nonneg (mul_nonneg (by linarith) hb0.le); positivity
  have t4 : 0 ≤ a*b*(3*(1-2*t)^2) := by positivity
  rcases eq_or_lt_of_le ht0 with h | h
  · -- t = 0: second term positive
    subst h
    have : 0 < a*(1-b)*(3*(1-0)^2) := by
      apply mul_pos (mul_pos ha0 (by linarith)); norm_num
    linarith
  · rcases eq_or_lt_of_le ht1 with h' | h'
    · subst h'
      have : 0 < (1-a)*b*(3*(1:ℝ)^2) := by
        apply mul_pos (mul_pos (by linarith) hb0); norm_num
      linarith
    · have : 0 < (1-a)*(1-b)*(6*t*(1-t)) := by
        apply mul_pos (mul_pos (by linarith) (by linarith)); nlinarith
      linarith

/-- the code's interior knot derivative 2·min(min(s₀,s₁), ½(w₁s₀+w₀s₁)/(w₀+w₁)) lies in (0, 3·min) (cubic.py:113-131) -/
theorem knot_deriv_range {s0 s1 w0 w1 : ℝ} (hs0 : 0 < s0) (hs1 : 0 < s1) (hw0 : 0 < w0) (hw1 : 0 < w1) :
    let d := 2 * min (min s0 s1) (0.5 * (w1 * s0 + w0 * s1) / (w0 + w1))
    0 < d ∧ d < 3 * s0 ∧ d < 3 * s1 := by
  intro d
  have hm : 0 < min s0 s1 := lt_min hs0 hs1
  have hq : 0 < 0.5 * (w1 * s0 + w0 * s1) / (w0 + w1) := by positivity
  have hd : 0 < min (min s0 s1) (0.5 * (w1 * s0 + w0 * s1) / (w0 + w1)) := lt_min hm hq
  have hle : min (min s0 s1) (0.5 * (w1 * s0 + w0 * s1) / (w0 + w1)) ≤ min s0 s1 := min_le_left _ _
  have h0 : min s0 s1 ≤ s0 := min_le_left _ _
  have h1 : min s0 s1 ≤ s1 := min_le_right _ _
  refine ⟨by positivity, ?_, ?_⟩ <;> simp only [d] <;> linarith

/-- the cubic in u, its value at the right end is h = s·w (continuity across knots, cubic.py:134-137) -/
def poly (s d0 d1 w u : ℝ) : ℝ := (d0 + d1 - 2*s)/w^2 * u^3 + (3*s - 2*d0 - d1)/w * u^2 + d0 * u
theorem poly_right {s d0 d1 w : ℝ} (hw : 0 < w) : poly s d0 d1 w w = s * w := by
  unfold poly; have := hw.ne'; field_simp; ring
theorem poly_left {s d0 d1 w : ℝ} : poly s d0 d1 w 0 = 0 := by simp [poly]
theorem poly_hasDerivAt {s d0 d1 w u : ℝ} (hw : 0 < w) :
    HasDerivAt (poly s d0 d1 w) (dpoly s d0 d1 (u / w)) u := by
  have hu : HasDerivAt (fun u : ℝ => u) 1 u := hasDerivAt_id' u
  have := (((hu.pow 3).const_mul ((d0 + d1 - 2*s)/w^2)).add ((hu.pow 2).const_mul ((3*s - 2*d0 - d1)/w))).add (hu.const_mul d0)
  refine this.congr_deriv ?_
  unfold dpoly; have := hw.ne'; field_simp; ring
end Cubic


end
