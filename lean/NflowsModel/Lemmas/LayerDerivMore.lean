import NflowsModel.Lemmas.CouplingJacobian
import NflowsModel.Lemmas.StructureExecQuad
import NflowsModel.Lemmas.CubicLayers
import NflowsModel.Lemmas.LinTails
/-!
# Lemmas/LayerDerivMore — C01 inside layers for the QUADRATIC, CUBIC and LINEAR spline elements

`CouplingJacobian.coupling_row_logdet` / `ARWhole.ar_row_logdet` reduce "the returned `ld[b]` is `log |det J_b|` of the
executed row map" to the per-element law `hdiag`:

* coupling: `HasDerivAt (couplingElMap e c mask params inverse b i) (exp (couplingElLd … x_i)) x_i` for every transformed
  channel `i`, `params` = what the conditioner returned for the identity split (`couplingElMap` has BUFFER semantics: an
  element that raises leaves its input value);
* autoregressive: `HasDerivAt (elMap e c F (net x) b i) (exp (ldOf (arEl …))) x_i` (`elMap` stores 0 where the element raises).

That hypothesis was discharged for additive / affine / RQ(-tails) elements.  Here it is discharged for the executed
piecewise-quadratic, piecewise-cubic and piecewise-linear spline programs as the dispatcher `elTransform` runs them, from the
whole-program theorems of `QuadWhole`, `CubicWhole`, `LinWhole`, `TailsWhole`, `LinTails`, and the layer theorems are
instantiated.

The generic step (`ElLawAt`): if on a NEIGHBOURHOOD of `x` the element program succeeds with `(f s, g s, _)` and
`HasDerivAt f (exp (g x)) x`, then both the buffer-semantics map and the zero-on-error map obey the law at `x`.
-/
open NF DualSound

namespace NF.LayerDerivMore
open NF.StructureExec NF.CouplingJacobian NF.ARWhole

/-! ## 0. The generic step -/

/-- the element program `q` succeeds near `x` with value `f` and log-det `g`, and `f' x = exp (g x)` -/
def ElLawAt (q : ℝ → ElRes ℝ) (x : ℝ) : Prop :=
  ∃ f g : ℝ → ℝ, (∀ᶠ s in nhds x, ∃ al, q s = .ok (f s, g s, al)) ∧ HasDerivAt f (Real.exp (g x)) x

/-- buffer semantics (`applyEl`: an element that raises leaves the input) -/
theorem ElLawAt.applyEl (e : Float → ℝ) {q : ℝ → ElRes ℝ} {x : ℝ} (h : ElLawAt q x) :
    HasDerivAt (applyEl q) (Real.exp (ldOf (NF.realX e) (q x))) x := by
  obtain ⟨f, g, hev, hd⟩ := h
  obtain ⟨al, hx⟩ := hev.self_of_nhds
  have hl : ldOf (NF.realX e) (q x) = g x := by simp [ldOf, hx]
  rw [hl]
  refine hd.congr_of_eventuallyEq ?_
  filter_upwards [hev] with s hs
  obtain ⟨al', hs⟩ := hs
  simp [StructureExec.applyEl, hs]

/-- zero-on-error semantics (`outOf`, the element-wise passes) -/
theorem ElLawAt.outOf (e : Float → ℝ) {q : ℝ → ElRes ℝ} {x : ℝ} (h : ElLawAt q x) :
    HasDerivAt (fun s => outOf (NF.realX e) (q s)) (Real.exp (ldOf (NF.realX e) (q x))) x := by
  obtain ⟨f, g, hev, hd⟩ := h
  obtain ⟨al, hx⟩ := hev.self_of_nhds
  have hl : ldOf (NF.realX e) (q x) = g x := by simp [ldOf, hx]
  rw [hl]
  refine hd.congr_of_eventuallyEq ?_
  filter_upwards [hev] with s hs
  obtain ⟨al', hs⟩ := hs
  simp [NF.outOf, hs]

/-- the parameter slice of channel `i` of row `b` in the coupling layer -/
noncomputable abbrev chanSlice (e : Float → ℝ) (c : ElCfg) (mask : List ℝ) (params : Array ℝ) (b : Nat)
    (i : Fin mask.length) : List ℝ :=
  condSlice (NF.realX e) c.mult (nT e mask) 1 params b (tpos e mask i) 0

/-- position of a transformed channel in the transform list is in range -/
theorem tpos_lt (e : Float → ℝ) (mask : List ℝ) (i : Fin mask.length) (hi : isT (NF.realX e) mask i = true) :
    tpos e mask i < nT e mask :=
  (idxOf_transform (NF.realX e) mask ((mem_transformIdx_iff (NF.realX e) mask i).2 hi)).1

/-- coupling: the per-element hypothesis of `coupling_row_logdet` from `ElLawAt` of `elTransform` on the channel's slice -/
theorem couplingEl_law (e : Float → ℝ) (c : ElCfg) (hk1 : c.kind ≠ "affine") (hk2 : c.kind ≠ "additive")
    (mask : List ℝ) (params : Array ℝ) (inverse : Bool) (b : Nat) (i : Fin mask.length) (x : ℝ)
    (h : ElLawAt (elTransform (NF.realX e) c inverse (chanSlice e c mask params b i)) x) :
    HasDerivAt (couplingElMap e c mask params inverse b i)
      (Real.exp (couplingElLd e c mask params inverse b i x)) x := by
  have hq : chanEl (NF.realX e) c mask params b i inverse
      = elTransform (NF.realX e) c inverse (chanSlice e c mask params b i) := by
    funext s; exact chanEl_spline (NF.realX e) c mask params b i hk1 hk2 inverse s
  have := h.applyEl e
  unfold couplingElLd
  rw [hq]
  have hf : couplingElMap e c mask params inverse b i
      = StructureExec.applyEl (elTransform (NF.realX e) c inverse (chanSlice e c mask params b i)) := by
    funext s; unfold couplingElMap; rw [hq]
  rw [hf]
  exact this

/-- autoregressive: the per-element hypothesis of `ar_row_logdet` from `ElLawAt` of `elTransform` on the feature's slice -/
theorem arEl_law (e : Float → ℝ) (c : ElCfg) (F : Nat) (x params : Array ℝ) (b i : Nat)
    (h : ElLawAt (elTransform (NF.realX e) c false (arSlice (NF.realX e) c F params b i)) (x.getD (b * F + i) 0)) :
    HasDerivAt (elMap e c F params b i)
      (Real.exp (ldOf (NF.realX e) (arEl (NF.realX e) c F x params false b i))) (x.getD (b * F + i) 0) := by
  have := h.outOf e
  rw [arEl_eq, realX_zero]
  exact this

/-! ## 1. The bounded families: `ElLawAt` of the executed element program -/

/-- **bounded piecewise-quadratic element, forward, strictly inside a bin** (`QuadWhole.val_hasDerivAt_x`) -/
theorem quad_elLawAt (e : Float → ℝ) (c : ElCfg) (hk : c.kind = "quad") (ht : c.tails = false) (p : List ℝ)
    (hv : QuadWhole.QuadValid e (quadCfgOf c) (quadW (NF.realX e) c p) (quadH (NF.realX e) c p))
    (hbl : e (boxLog (quadCfgOf c).box) = Real.log ((e (quadCfgOf c).box.top - e (quadCfgOf c).box.bottom)
      / (e (quadCfgOf c).box.right - e (quadCfgOf c).box.left)))
    (k : ℕ) (hkK : k < (quadW (NF.realX e) c p).length) (x : ℝ)
    (h0 : QuadWhole.xk e (quadCfgOf c) (quadW (NF.realX e) c p) k < x)
    (h1 : x < QuadWhole.xk e (quadCfgOf c) (quadW (NF.realX e) c p) (k + 1)) :
    ElLawAt (elTransform (NF.realX e) c false p) x := by
  refine ⟨QuadWhole.val e (quadCfgOf c) (quadW (NF.realX e) c p) (quadH (NF.realX e) c p),
    QuadWhole.ld e (quadCfgOf c) (quadW (NF.realX e) c p) (quadH (NF.realX e) c p), ?_,
    QuadWhole.val_hasDerivAt_x hv hbl k hkK x h0 h1⟩
  obtain ⟨hx0, hxK, hstep⟩ := QuadWhole.xk_facts hv
  have hmono := ExecGlue.knots_mono (QuadWhole.xk e (quadCfgOf c) (quadW (NF.realX e) c p)) _ hstep
  have hL := hmono 0 k (Nat.zero_le _) hkK.le
  have hR := hmono (k + 1) _ hkK le_rfl
  rw [hx0] at hL
  rw [hxK] at hR
  refine Filter.eventually_of_mem (Ioo_mem_nhds h0 h1) (fun s hs => ⟨[], ?_⟩)
  obtain ⟨r, hr⟩ := QuadWhole.total hv s (by linarith [hs.1]) (by linarith [hs.2])
  rw [elTransform_quad _ c hk ht]
  unfold QuadWhole.val QuadWhole.ld
  rw [hr]
  rfl

/-- **bounded piecewise-cubic element, forward, at every point of the OPEN box** — interior knots included
    (`CubicWhole.val_hasDerivAt_all`) -/
theorem cubic_elLawAt (e : Float → ℝ) (c : ElCfg) (hk : c.kind = "cubic") (ht : c.tails = false) (p : List ℝ)
    (hv : CubicLayers.SliceValid e c (CubicLayers.cubicCfgOf c) p)
    (hbl : e (boxLog (CubicLayers.cubicCfgOf c).box)
      = Real.log ((e (CubicLayers.cubicCfgOf c).box.top - e (CubicLayers.cubicCfgOf c).box.bottom)
      / (e (CubicLayers.cubicCfgOf c).box.right - e (CubicLayers.cubicCfgOf c).box.left)))
    (x : ℝ) (h0 : e (CubicLayers.cubicCfgOf c).box.left < x) (h1 : x < e (CubicLayers.cubicCfgOf c).box.right) :
    ElLawAt (elTransform (NF.realX e) c false p) x := by
  refine ⟨CubicWhole.val e (CubicLayers.cubicCfgOf c) (rqW (NF.realX e) c p) (rqH (NF.realX e) c p)
      (CubicLayers.cubicL (NF.realX e) c p) (CubicLayers.cubicR (NF.realX e) c p),
    CubicWhole.ld e (CubicLayers.cubicCfgOf c) (rqW (NF.realX e) c p) (rqH (NF.realX e) c p)
      (CubicLayers.cubicL (NF.realX e) c p) (CubicLayers.cubicR (NF.realX e) c p), ?_,
    CubicWhole.val_hasDerivAt_all hv hbl x h0 h1⟩
  refine Filter.eventually_of_mem (Ioo_mem_nhds h0 h1) (fun s hs => ⟨[], ?_⟩)
  rw [CubicLayers.elTransform_cubic _ c hk ht]
  exact CubicLayers.fwd_eq hv s hs.1.le hs.2.le

/-- the box `elTransform` builds for the bounded linear family -/
def linBoxOf (c : ElCfg) : Box := ⟨c.ds.getD 0 0.0, c.ds.getD 1 0.0, c.ds.getD 2 0.0, c.ds.getD 3 0.0⟩

/-- **bounded piecewise-linear element, forward, strictly inside a bin** (`LinWhole.val_hasDerivAt_x`; a piecewise-linear
    map has kinks at the knots) -/
theorem lin_elLawAt (e : Float → ℝ) (c : ElCfg) (hk : c.kind = "lin") (ht : c.tails = false) (p : List ℝ)
    (hv : LinWhole.LinValid e (linBoxOf c) 1e-6 p)
    (hlogK : e (Float.log (1.0 / p.length.toFloat)) = Real.log (1 / (p.length : ℝ)))
    (hbl : e (boxLog (linBoxOf c)) = Real.log ((e (linBoxOf c).top - e (linBoxOf c).bottom)
      / (e (linBoxOf c).right - e (linBoxOf c).left)))
    (k : ℕ) (hkK : k < p.length) (x : ℝ)
    (h0 : LinWhole.xk e (linBoxOf c) p.length k < x) (h1 : x < LinWhole.xk e (linBoxOf c) p.length (k + 1)) :
    ElLawAt (elTransform (NF.realX e) c false p) x := by
  refine ⟨LinWhole.val e (linBoxOf c) 1e-6 p, LinWhole.ld e (linBoxOf c) 1e-6 p, ?_,
    LinWhole.val_hasDerivAt_x hv hlogK hbl k hkK x h0 h1⟩
  have hK0 := LinWhole.K_pos hv.hK
  have hmono := ExecGlue.knots_mono (LinWhole.kn p.length) p.length (LinWhole.kn_strict hK0)
  have hD : 0 < e (linBoxOf c).right - e (linBoxOf c).left := sub_pos.mpr hv.hlr
  have hL : 0 ≤ LinWhole.kn p.length k := by
    have := hmono 0 k (Nat.zero_le _) hkK.le; rwa [LinWhole.kn_zero] at this
  have hR : LinWhole.kn p.length (k + 1) ≤ 1 := by
    have := hmono (k + 1) p.length hkK le_rfl; rwa [LinWhole.kn_last hK0] at this
  unfold LinWhole.xk at h0 h1
  refine Filter.eventually_of_mem (Ioo_mem_nhds h0 h1) (fun s hs => ⟨[], ?_⟩)
  rw [LinTails.elTransform_lin _ c hk ht]
  have hs0 : e (linBoxOf c).left ≤ s := by nlinarith [hs.1]
  have hs1 : s ≤ e (linBoxOf c).right := by nlinarith [hs.2]
  have := LinWhole.exec_ok hv s hs0 hs1
  unfold linBoxOf at this
  rw [this]
  rfl

/-! ## 2. The bounded families inside the executed COUPLING layer (forward pass, conditioner in the loop)

Same statement as `CouplingJacobian.coupling_rq_tails_row_abs_det` / `coupling_row_logdet`: ANY conditioner `net` (it is run
on the identity split, as coupling.py does), any numeric mask, any batch size; Fréchet differentiability of the row map is
a hypothesis (the conditioner is arbitrary).  Bounded splines raise outside their box and the quadratic / linear ones have
kinks at the knots, so the position of every TRANSFORMED entry of the row is an explicit hypothesis. -/

section coupling
variable (e : Float → ℝ) (c : ElCfg) (mask : List ℝ) (B : Nat) (net : Array ℝ → Array ℝ) (x : Array ℝ)

/-- what the conditioner returned for the batch `x` -/
noncomputable abbrev cParams : Array ℝ := net (idSplit (NF.realX e) mask B x)

/-- **C01, bounded piecewise-QUADRATIC coupling layer** (`PiecewiseQuadraticCouplingTransform`, no tails), forward pass:
    if every parameter slice the conditioner returned is an accepted configuration (`QuadWhole.QuadValid`), the `boxLog`
    constant is read as the real logarithm, and every transformed entry of row `b` lies STRICTLY INSIDE a bin of its own
    spline, then the returned `ld[b]` is `log |det J_b|`, `J_b` the Fréchet derivative of the executed row map. -/
theorem coupling_quadratic_logdet_is_jacobian (hk : c.kind = "quad") (ht : c.tails = false)
    (hbl : e (boxLog (quadCfgOf c).box) = Real.log ((e (quadCfgOf c).box.top - e (quadCfgOf c).box.bottom)
      / (e (quadCfgOf c).box.right - e (quadCfgOf c).box.left)))
    (hx : x.size = B * mask.length) {b : Nat} (hb : b < B)
    (hv : QuadParamsValid e c (nT e mask) 1 (cParams e mask B net x) B)
    (hbin : ∀ i, isT (NF.realX e) mask i = true → ∃ k,
      k < (quadW (NF.realX e) c (chanSlice e c mask (cParams e mask B net x) b i)).length ∧
      QuadWhole.xk e (quadCfgOf c) (quadW (NF.realX e) c (chanSlice e c mask (cParams e mask B net x) b i)) k
        < rowOf (NF.realX e) mask.length b x i ∧
      rowOf (NF.realX e) mask.length b x i
        < QuadWhole.xk e (quadCfgOf c) (quadW (NF.realX e) c (chanSlice e c mask (cParams e mask B net x) b i)) (k + 1))
    {L : (Fin mask.length → ℝ) →L[ℝ] (Fin mask.length → ℝ)}
    (hL : HasFDerivAt (couplingRowMap e c mask B net false x b) L (rowOf (NF.realX e) mask.length b x)) :
    (couplingRun (NF.realX e) c mask B net false x).ld[b]?
      = some (Real.log |LinearMap.det (L : (Fin mask.length → ℝ) →ₗ[ℝ] (Fin mask.length → ℝ))|) := by
  have hk1 : c.kind ≠ "affine" := by rw [hk]; decide
  have hk2 : c.kind ≠ "additive" := by rw [hk]; decide
  refine coupling_row_logdet e c mask B net false x hx hb hL (fun i hi => ?_)
  obtain ⟨k, hkK, h0, h1⟩ := hbin i hi
  exact couplingEl_law e c hk1 hk2 mask _ false b i _
    (quad_elLawAt e c hk ht _ (hv b _ 0 hb (tpos_lt e mask i hi) Nat.one_pos) hbl k hkK _ h0 h1)

/-- **C01, bounded piecewise-CUBIC coupling layer** (`PiecewiseCubicCouplingTransform`, no tails), forward pass: if the
    configuration is accepted for `K` widths / `K` heights (`CubicWhole.CubicValid`, a condition on the constants only),
    `boxLog` is read as the real logarithm, and every transformed entry of row `b` lies in the OPEN box `(left, right)` —
    interior knots allowed — then the returned `ld[b]` is `log |det J_b|`. -/
theorem coupling_cubic_logdet_is_jacobian (hk : c.kind = "cubic") (ht : c.tails = false) (hK : 0 < c.K)
    (hv : CubicWhole.CubicValid e (CubicLayers.cubicCfgOf c) (List.replicate c.K 0) (List.replicate c.K 0))
    (hbl : e (boxLog (CubicLayers.cubicCfgOf c).box)
      = Real.log ((e (CubicLayers.cubicCfgOf c).box.top - e (CubicLayers.cubicCfgOf c).box.bottom)
      / (e (CubicLayers.cubicCfgOf c).box.right - e (CubicLayers.cubicCfgOf c).box.left)))
    (hx : x.size = B * mask.length) {b : Nat} (hb : b < B)
    (hbox : ∀ i, isT (NF.realX e) mask i = true →
      e (CubicLayers.cubicCfgOf c).box.left < rowOf (NF.realX e) mask.length b x i ∧
      rowOf (NF.realX e) mask.length b x i < e (CubicLayers.cubicCfgOf c).box.right)
    {L : (Fin mask.length → ℝ) →L[ℝ] (Fin mask.length → ℝ)}
    (hL : HasFDerivAt (couplingRowMap e c mask B net false x b) L (rowOf (NF.realX e) mask.length b x)) :
    (couplingRun (NF.realX e) c mask B net false x).ld[b]?
      = some (Real.log |LinearMap.det (L : (Fin mask.length → ℝ) →ₗ[ℝ] (Fin mask.length → ℝ))|) := by
  obtain ⟨hk1, hk2⟩ := CubicLayers.cubic_kind_ne hk
  refine coupling_row_logdet e c mask B net false x hx hb hL (fun i hi => ?_)
  obtain ⟨h0, h1⟩ := hbox i hi
  refine couplingEl_law e c hk1 hk2 mask _ false b i _ (cubic_elLawAt e c hk ht _ ?_ hbl _ h0 h1)
  exact CubicLayers.sliceValid_of_length hK hv _ (by rw [condSlice_length, CubicLayers.mult_cubic hk])

/-- **C01, bounded piecewise-LINEAR coupling layer** (`PiecewiseLinearCouplingTransform`, no tails), forward pass: if every
    parameter slice is accepted (`LinTails.LinParamsValid`: `LinWhole.LinValid` + the `np.log(1/K)` constant read as the
    real logarithm), `boxLog` is read as the real logarithm, and every transformed entry of row `b` lies STRICTLY INSIDE
    one of the `K` equal bins, then the returned `ld[b]` is `log |det J_b|`. -/
theorem coupling_linear_logdet_is_jacobian (hk : c.kind = "lin") (ht : c.tails = false)
    (hbl : e (boxLog (linBoxOf c)) = Real.log ((e (linBoxOf c).top - e (linBoxOf c).bottom)
      / (e (linBoxOf c).right - e (linBoxOf c).left)))
    (hx : x.size = B * mask.length) {b : Nat} (hb : b < B)
    (hv : LinTails.LinParamsValid e c (nT e mask) 1 (cParams e mask B net x) B)
    (hbin : ∀ i, isT (NF.realX e) mask i = true → ∃ k, k < c.K ∧
      LinWhole.xk e (linBoxOf c) c.K k < rowOf (NF.realX e) mask.length b x i ∧
      rowOf (NF.realX e) mask.length b x i < LinWhole.xk e (linBoxOf c) c.K (k + 1))
    {L : (Fin mask.length → ℝ) →L[ℝ] (Fin mask.length → ℝ)}
    (hL : HasFDerivAt (couplingRowMap e c mask B net false x b) L (rowOf (NF.realX e) mask.length b x)) :
    (couplingRun (NF.realX e) c mask B net false x).ld[b]?
      = some (Real.log |LinearMap.det (L : (Fin mask.length → ℝ) →ₗ[ℝ] (Fin mask.length → ℝ))|) := by
  have hk1 : c.kind ≠ "affine" := by rw [hk]; decide
  have hk2 : c.kind ≠ "additive" := by rw [hk]; decide
  have hm : c.mult = c.K := by simp [ElCfg.mult, hk]
  refine coupling_row_logdet e c mask B net false x hx hb hL (fun i hi => ?_)
  obtain ⟨k, hkK, h0, h1⟩ := hbin i hi
  obtain ⟨hv1, hv2⟩ := hv b _ 0 hb (tpos_lt e mask i hi) Nat.one_pos
  have hlen : (chanSlice e c mask (cParams e mask B net x) b i).length = c.K := by rw [condSlice_length, hm]
  refine couplingEl_law e c hk1 hk2 mask _ false b i _ (lin_elLawAt e c hk ht _ hv1 hv2 hbl k ?_ _ ?_ ?_)
  · rw [hlen]; exact hkK
  · rw [hlen]; exact h0
  · rw [hlen]; exact h1

end coupling

/-! ## 3. The bounded families inside the executed AUTOREGRESSIVE layer (forward pass)

Same statement as `ARWhole.ar_rq_row_logdet`: an autoregressive conditioner (`AutoregNet`), row `b`, Fréchet
differentiability of the row map as a hypothesis. -/

section ar
variable (e : Float → ℝ) (c : ElCfg) (B F : Nat) (net : Array ℝ → Array ℝ) (x : Array ℝ)

theorem pw_quad {c : ElCfg} (hk : c.kind = "quad") (ht : c.tails = false) : pw c = 2 * c.K + 1 := by
  simp [pw, ElCfg.mult, hk, ht]

theorem pw_lin {c : ElCfg} (hk : c.kind = "lin") : pw c = c.K := by
  simp [pw, ElCfg.mult, hk]

/-- **C01, bounded piecewise-QUADRATIC autoregressive layer** (`MaskedPiecewiseQuadraticAutoregressiveTransform`, no
    tails): every feature of row `b` strictly inside a bin of its own spline -/
theorem ar_quadratic_logdet_is_jacobian (hk : c.kind = "quad") (ht : c.tails = false)
    (hbl : e (boxLog (quadCfgOf c).box) = Real.log ((e (quadCfgOf c).box.top - e (quadCfgOf c).box.bottom)
      / (e (quadCfgOf c).box.right - e (quadCfgOf c).box.left)))
    (hnet : AutoregNet B F (2 * c.K + 1) net) (hx : x.size = B * F) {b : Nat} (hb : b < B)
    (hv : ∀ i : Fin F, QuadWhole.QuadValid e (quadCfgOf c)
      (quadW (NF.realX e) c (arSlice (NF.realX e) c F (net x) b i)) (quadH (NF.realX e) c (arSlice (NF.realX e) c F (net x) b i)))
    (hbin : ∀ i : Fin F, ∃ k, k < (quadW (NF.realX e) c (arSlice (NF.realX e) c F (net x) b i)).length ∧
      QuadWhole.xk e (quadCfgOf c) (quadW (NF.realX e) c (arSlice (NF.realX e) c F (net x) b i)) k < x.getD (b * F + i.1) 0 ∧
      x.getD (b * F + i.1) 0
        < QuadWhole.xk e (quadCfgOf c) (quadW (NF.realX e) c (arSlice (NF.realX e) c F (net x) b i)) (k + 1))
    {L : (Fin F → ℝ) →L[ℝ] (Fin F → ℝ)}
    (hL : HasFDerivAt (rowMap e c B F net x b) L (fun i => x.getD (b * F + i.1) 0)) :
    (arForward (NF.realX e) c B F net x).ld[b]?
      = some (Real.log |LinearMap.det (L : (Fin F → ℝ) →ₗ[ℝ] (Fin F → ℝ))|) := by
  apply ar_row_logdet e c B F net x (by rw [pw_quad hk ht]; exact hnet) hx hb hL
  intro i
  obtain ⟨k, hkK, h0, h1⟩ := hbin i
  exact arEl_law e c F x (net x) b i (quad_elLawAt e c hk ht _ (hv i) hbl k hkK _ h0 h1)

/-- **C01, bounded piecewise-CUBIC autoregressive layer** (`MaskedPiecewiseCubicAutoregressiveTransform`, no tails): every
    feature of row `b` in the OPEN box (interior knots allowed) -/
theorem ar_cubic_logdet_is_jacobian (hk : c.kind = "cubic") (ht : c.tails = false) (hK : 0 < c.K)
    (hv : CubicWhole.CubicValid e (CubicLayers.cubicCfgOf c) (List.replicate c.K 0) (List.replicate c.K 0))
    (hbl : e (boxLog (CubicLayers.cubicCfgOf c).box)
      = Real.log ((e (CubicLayers.cubicCfgOf c).box.top - e (CubicLayers.cubicCfgOf c).box.bottom)
      / (e (CubicLayers.cubicCfgOf c).box.right - e (CubicLayers.cubicCfgOf c).box.left)))
    (hnet : AutoregNet B F (2 * c.K + 2) net) (hx : x.size = B * F) {b : Nat} (hb : b < B)
    (hbox : ∀ i : Fin F, e (CubicLayers.cubicCfgOf c).box.left < x.getD (b * F + i.1) 0 ∧
      x.getD (b * F + i.1) 0 < e (CubicLayers.cubicCfgOf c).box.right)
    {L : (Fin F → ℝ) →L[ℝ] (Fin F → ℝ)}
    (hL : HasFDerivAt (rowMap e c B F net x b) L (fun i => x.getD (b * F + i.1) 0)) :
    (arForward (NF.realX e) c B F net x).ld[b]?
      = some (Real.log |LinearMap.det (L : (Fin F → ℝ) →ₗ[ℝ] (Fin F → ℝ))|) := by
  apply ar_row_logdet e c B F net x (by rw [CubicLayers.pw_cubic hk]; exact hnet) hx hb hL
  intro i
  obtain ⟨h0, h1⟩ := hbox i
  refine arEl_law e c F x (net x) b i (cubic_elLawAt e c hk ht _ ?_ hbl _ h0 h1)
  exact CubicLayers.sliceValid_of_length hK hv _ (by rw [arSlice_length, CubicLayers.pw_cubic hk])

/-- **C01, bounded piecewise-LINEAR autoregressive layer** (`MaskedPiecewiseLinearAutoregressiveTransform`, no tails):
    every feature of row `b` strictly inside one of the `K` equal bins -/
theorem ar_linear_logdet_is_jacobian (hk : c.kind = "lin") (ht : c.tails = false) (hK : 0 < c.K)
    (hbox : LinWhole.LinValid e (linBoxOf c) 1e-6 (List.replicate c.K 0))
    (hlogK : e (Float.log (1.0 / c.K.toFloat)) = Real.log (1 / (c.K : ℝ)))
    (hbl : e (boxLog (linBoxOf c)) = Real.log ((e (linBoxOf c).top - e (linBoxOf c).bottom)
      / (e (linBoxOf c).right - e (linBoxOf c).left)))
    (hnet : AutoregNet B F c.K net) (hx : x.size = B * F) {b : Nat} (hb : b < B)
    (hbin : ∀ i : Fin F, ∃ k, k < c.K ∧
      LinWhole.xk e (linBoxOf c) c.K k < x.getD (b * F + i.1) 0 ∧
      x.getD (b * F + i.1) 0 < LinWhole.xk e (linBoxOf c) c.K (k + 1))
    {L : (Fin F → ℝ) →L[ℝ] (Fin F → ℝ)}
    (hL : HasFDerivAt (rowMap e c B F net x b) L (fun i => x.getD (b * F + i.1) 0)) :
    (arForward (NF.realX e) c B F net x).ld[b]?
      = some (Real.log |LinearMap.det (L : (Fin F → ℝ) →ₗ[ℝ] (Fin F → ℝ))|) := by
  apply ar_row_logdet e c B F net x (by rw [pw_lin hk]; exact hnet) hx hb hL
  intro i
  obtain ⟨k, hkK, h0, h1⟩ := hbin i
  have hlen : (arSlice (NF.realX e) c F (net x) b i).length = c.K := by rw [arSlice_length, pw_lin hk]
  have hv : LinWhole.LinValid e (linBoxOf c) 1e-6 (arSlice (NF.realX e) c F (net x) b i) :=
    ⟨List.ne_nil_of_length_pos (by rw [hlen]; exact hK), hbox.hlr, hbox.hdlr, hbox.hbt, hbox.hdbt, hbox.heps⟩
  refine arEl_law e c F x (net x) b i (lin_elLawAt e c hk ht _ hv ?_ hbl k ?_ _ ?_ ?_)
  · rw [hlen]; exact hlogK
  · rw [hlen]; exact hkK
  · rw [hlen]; exact h0
  · rw [hlen]; exact h1

end ar

/-! ## 4. The families with LINEAR TAILS (`tails='linear'`): the element never raises, identity outside `[-B, B]`

The law holds in the tails (derivative `1 = exp 0`) and inside the box as for the bounded families; it FAILS in general at
the two junctions `±B` for all three families (`TailsWhole.quad_tails_not_differentiable_left`,
`LinTails.lin_tails_not_differentiable_left`; the cubic end derivatives are free parameters), and at the interior knots of
the quadratic / linear splines — so the position hypotheses below exclude exactly those points. -/

section tailsEl
open TailsWhole

/-- where the quadratic-with-tails element with widths `uw` obeys the law: in a tail or strictly inside a bin -/
def QuadTailsPos (e : Float → ℝ) (c : ElCfg) (uw : List ℝ) (x : ℝ) : Prop :=
  (x < -e (c.ds.getD 0 0.0) ∨ e (c.ds.getD 0 0.0) < x) ∨
  ∃ k, k < uw.length ∧ QuadWhole.xk e (quadCfgOfT c) uw k < x ∧ x < QuadWhole.xk e (quadCfgOfT c) uw (k + 1)

/-- **quadratic element with linear tails, forward**: in the tails and strictly inside every bin -/
theorem quad_tails_elLawAt (e : Float → ℝ) (c : ElCfg) (hk : c.kind = "quad") (ht : c.tails = true) (p : List ℝ)
    (hv : QuadWhole.QuadValidT e (quadCfgOfT c) (quadW (NF.realX e) c p) (quadH (NF.realX e) c p))
    (hneg : e (-(c.ds.getD 0 0.0)) = - e (c.ds.getD 0 0.0)) (hbl0 : e (boxLog (tbox (c.ds.getD 0 0.0))) = 0)
    (x : ℝ) (hpos : QuadTailsPos e c (quadW (NF.realX e) c p) x) :
    ElLawAt (elTransform (NF.realX e) c false p) x := by
  refine ⟨wrapVal e (c.ds.getD 0 0.0) (quadP e (c.ds.getD 1 0.0) (c.ds.getD 2 0.0) (quadW (NF.realX e) c p) (quadH (NF.realX e) c p)),
    wrapLd e (c.ds.getD 0 0.0) (quadP e (c.ds.getD 1 0.0) (c.ds.getD 2 0.0) (quadW (NF.realX e) c p) (quadH (NF.realX e) c p)),
    Filter.Eventually.of_forall (fun s => ⟨[], ?_⟩), ?_⟩
  · rw [StructureExec.elTransform_quad_tails _ c hk ht]
    have := (quad_tails_whole (tb := c.ds.getD 0 0.0) (minW := c.ds.getD 1 0.0) (minH := c.ds.getD 2 0.0) hv hneg).1 s
    unfold quadP at this
    rw [this]
    rfl
  · rcases hpos with ho | ⟨k, hkK, h0, h1⟩
    · exact wrap_hasDerivAt_outside x ho
    · exact quad_hasDerivAt_bin (tb := c.ds.getD 0 0.0) (minW := c.ds.getD 1 0.0) (minH := c.ds.getD 2 0.0)
        hv hneg hbl0 k hkK x h0 h1

/-- **cubic element with linear tails, forward**: at every real except the two junctions `±B` -/
theorem cubic_tails_elLawAt (e : Float → ℝ) (c : ElCfg) (hk : c.kind = "cubic") (ht : c.tails = true) (p : List ℝ)
    (hv : CubicLayers.SliceValid e c (CubicLayers.cubicCfgOfT c) p)
    (hneg : e (-(c.ds.getD 0 0.0)) = - e (c.ds.getD 0 0.0)) (hbl0 : e (boxLog (tbox (c.ds.getD 0 0.0))) = 0)
    (x : ℝ) (hxl : x ≠ -e (c.ds.getD 0 0.0)) (hxr : x ≠ e (c.ds.getD 0 0.0)) :
    ElLawAt (elTransform (NF.realX e) c false p) x :=
  ⟨CubicLayers.elV e c p, CubicLayers.elL e c p,
    Filter.Eventually.of_forall (fun s => ⟨[], (CubicLayers.cubic_tails_el_total hk ht p hv hneg s).1⟩),
    cubic_hasDerivAt hv hneg hbl0 x hxl hxr⟩

/-- where the linear-with-tails element with `K` bins obeys the law: in a tail or strictly inside a bin -/
def LinTailsPos (e : Float → ℝ) (c : ElCfg) (K : ℕ) (x : ℝ) : Prop :=
  (x < -e (c.ds.getD 0 0.0) ∨ e (c.ds.getD 0 0.0) < x) ∨
  ∃ k, k < K ∧ LinWhole.xk e (tbox (c.ds.getD 0 0.0)) K k < x ∧ x < LinWhole.xk e (tbox (c.ds.getD 0 0.0)) K (k + 1)

/-- **linear element with linear tails, forward**: in the tails and strictly inside every bin -/
theorem lin_tails_elLawAt (e : Float → ℝ) (c : ElCfg) (hk : c.kind = "lin") (ht : c.tails = true) (p : List ℝ)
    (hv : LinWhole.LinValid e (tbox (c.ds.getD 0 0.0)) 1e-6 p)
    (hlogK : e (Float.log (1.0 / p.length.toFloat)) = Real.log (1 / (p.length : ℝ)))
    (hneg : e (-(c.ds.getD 0 0.0)) = - e (c.ds.getD 0 0.0)) (hbl0 : e (boxLog (tbox (c.ds.getD 0 0.0))) = 0)
    (x : ℝ) (hpos : LinTailsPos e c p.length x) :
    ElLawAt (elTransform (NF.realX e) c false p) x := by
  refine ⟨wrapVal e (c.ds.getD 0 0.0) (LinTails.linP e 1e-6 p), wrapLd e (c.ds.getD 0 0.0) (LinTails.linP e 1e-6 p),
    Filter.Eventually.of_forall (fun s => ⟨[], ?_⟩), ?_⟩
  · rw [LinTails.elTransform_lin_tails _ c hk ht]
    have := (LinTails.lin_tails_whole hv hneg).1 s
    unfold LinTails.linP at this
    rw [this]
    rfl
  · rcases hpos with ho | ⟨k, hkK, h0, h1⟩
    · exact (LinTails.lin_tails_hasDerivAt_outside x ho).1
    · exact LinTails.lin_tails_hasDerivAt_bin hv hneg hlogK hbl0 k hkK x h0 h1

end tailsEl

/-! ## 5. The tails families inside the executed coupling / autoregressive layers (forward pass) -/

section tailsLayers
open TailsWhole

section coupling
variable (e : Float → ℝ) (c : ElCfg) (mask : List ℝ) (B : Nat) (net : Array ℝ → Array ℝ) (x : Array ℝ)

/-- **C01, piecewise-QUADRATIC coupling layer with linear tails**: every transformed entry of row `b` in a tail or strictly
    inside a bin of its own spline (not at a knot, not at `±B`) -/
theorem coupling_quadratic_tails_logdet_is_jacobian (hk : c.kind = "quad") (ht : c.tails = true)
    (hneg : e (-(c.ds.getD 0 0.0)) = - e (c.ds.getD 0 0.0)) (hbl0 : e (boxLog (tbox (c.ds.getD 0 0.0))) = 0)
    (hx : x.size = B * mask.length) {b : Nat} (hb : b < B)
    (hv : QuadTailsParamsValid e c (nT e mask) 1 (cParams e mask B net x) B)
    (hpos : ∀ i, isT (NF.realX e) mask i = true →
      QuadTailsPos e c (quadW (NF.realX e) c (chanSlice e c mask (cParams e mask B net x) b i))
        (rowOf (NF.realX e) mask.length b x i))
    {L : (Fin mask.length → ℝ) →L[ℝ] (Fin mask.length → ℝ)}
    (hL : HasFDerivAt (couplingRowMap e c mask B net false x b) L (rowOf (NF.realX e) mask.length b x)) :
    (couplingRun (NF.realX e) c mask B net false x).ld[b]?
      = some (Real.log |LinearMap.det (L : (Fin mask.length → ℝ) →ₗ[ℝ] (Fin mask.length → ℝ))|) := by
  have hk1 : c.kind ≠ "affine" := by rw [hk]; decide
  have hk2 : c.kind ≠ "additive" := by rw [hk]; decide
  refine coupling_row_logdet e c mask B net false x hx hb hL (fun i hi => ?_)
  exact couplingEl_law e c hk1 hk2 mask _ false b i _
    (quad_tails_elLawAt e c hk ht _ (hv b _ 0 hb (tpos_lt e mask i hi) Nat.one_pos) hneg hbl0 _ (hpos i hi))

/-- **C01, piecewise-CUBIC coupling layer with linear tails**: every transformed entry of row `b` anywhere on the line
    except the two junctions `±B` (interior knots allowed), ANY conditioner output -/
theorem coupling_cubic_tails_logdet_is_jacobian (hk : c.kind = "cubic") (ht : c.tails = true) (hK : 0 < c.K)
    (hv : CubicWhole.CubicValid e (CubicLayers.cubicCfgOfT c) (List.replicate c.K 0) (List.replicate c.K 0))
    (hneg : e (-(c.ds.getD 0 0.0)) = - e (c.ds.getD 0 0.0)) (hbl0 : e (boxLog (tbox (c.ds.getD 0 0.0))) = 0)
    (hx : x.size = B * mask.length) {b : Nat} (hb : b < B)
    (hpos : ∀ i, isT (NF.realX e) mask i = true →
      rowOf (NF.realX e) mask.length b x i ≠ -e (c.ds.getD 0 0.0) ∧ rowOf (NF.realX e) mask.length b x i ≠ e (c.ds.getD 0 0.0))
    {L : (Fin mask.length → ℝ) →L[ℝ] (Fin mask.length → ℝ)}
    (hL : HasFDerivAt (couplingRowMap e c mask B net false x b) L (rowOf (NF.realX e) mask.length b x)) :
    (couplingRun (NF.realX e) c mask B net false x).ld[b]?
      = some (Real.log |LinearMap.det (L : (Fin mask.length → ℝ) →ₗ[ℝ] (Fin mask.length → ℝ))|) := by
  obtain ⟨hk1, hk2⟩ := CubicLayers.cubic_kind_ne hk
  refine coupling_row_logdet e c mask B net false x hx hb hL (fun i hi => ?_)
  refine couplingEl_law e c hk1 hk2 mask _ false b i _
    (cubic_tails_elLawAt e c hk ht _ ?_ hneg hbl0 _ (hpos i hi).1 (hpos i hi).2)
  exact CubicLayers.sliceValid_of_length hK hv _ (by rw [condSlice_length, CubicLayers.mult_cubic hk])

/-- **C01, piecewise-LINEAR coupling layer with linear tails**: every transformed entry of row `b` in a tail or strictly
    inside one of the `K` equal bins -/
theorem coupling_linear_tails_logdet_is_jacobian (hk : c.kind = "lin") (ht : c.tails = true)
    (hneg : e (-(c.ds.getD 0 0.0)) = - e (c.ds.getD 0 0.0)) (hbl0 : e (boxLog (tbox (c.ds.getD 0 0.0))) = 0)
    (hx : x.size = B * mask.length) {b : Nat} (hb : b < B)
    (hv : LinTails.LinTailsParamsValid e c (nT e mask) 1 (cParams e mask B net x) B)
    (hpos : ∀ i, isT (NF.realX e) mask i = true → LinTailsPos e c c.K (rowOf (NF.realX e) mask.length b x i))
    {L : (Fin mask.length → ℝ) →L[ℝ] (Fin mask.length → ℝ)}
    (hL : HasFDerivAt (couplingRowMap e c mask B net false x b) L (rowOf (NF.realX e) mask.length b x)) :
    (couplingRun (NF.realX e) c mask B net false x).ld[b]?
      = some (Real.log |LinearMap.det (L : (Fin mask.length → ℝ) →ₗ[ℝ] (Fin mask.length → ℝ))|) := by
  have hk1 : c.kind ≠ "affine" := by rw [hk]; decide
  have hk2 : c.kind ≠ "additive" := by rw [hk]; decide
  have hm : c.mult = c.K := by simp [ElCfg.mult, hk]
  refine coupling_row_logdet e c mask B net false x hx hb hL (fun i hi => ?_)
  obtain ⟨hv1, hv2⟩ := hv b _ 0 hb (tpos_lt e mask i hi) Nat.one_pos
  have hlen : (chanSlice e c mask (cParams e mask B net x) b i).length = c.K := by rw [condSlice_length, hm]
  refine couplingEl_law e c hk1 hk2 mask _ false b i _ (lin_tails_elLawAt e c hk ht _ hv1 hv2 hneg hbl0 _ ?_)
  rw [hlen]; exact hpos i hi

end coupling

section ar
variable (e : Float → ℝ) (c : ElCfg) (B F : Nat) (net : Array ℝ → Array ℝ) (x : Array ℝ)

theorem pw_quad_tails {c : ElCfg} (hk : c.kind = "quad") (ht : c.tails = true) : pw c = 2 * c.K - 1 := by
  simp [pw, ElCfg.mult, hk, ht]

/-- **C01, piecewise-QUADRATIC autoregressive layer with linear tails** -/
theorem ar_quadratic_tails_logdet_is_jacobian (hk : c.kind = "quad") (ht : c.tails = true)
    (hneg : e (-(c.ds.getD 0 0.0)) = - e (c.ds.getD 0 0.0)) (hbl0 : e (boxLog (tbox (c.ds.getD 0 0.0))) = 0)
    (hnet : AutoregNet B F (2 * c.K - 1) net) (hx : x.size = B * F) {b : Nat} (hb : b < B)
    (hv : ∀ i : Fin F, QuadWhole.QuadValidT e (quadCfgOfT c)
      (quadW (NF.realX e) c (arSlice (NF.realX e) c F (net x) b i)) (quadH (NF.realX e) c (arSlice (NF.realX e) c F (net x) b i)))
    (hpos : ∀ i : Fin F, QuadTailsPos e c (quadW (NF.realX e) c (arSlice (NF.realX e) c F (net x) b i))
      (x.getD (b * F + i.1) 0))
    {L : (Fin F → ℝ) →L[ℝ] (Fin F → ℝ)}
    (hL : HasFDerivAt (rowMap e c B F net x b) L (fun i => x.getD (b * F + i.1) 0)) :
    (arForward (NF.realX e) c B F net x).ld[b]?
      = some (Real.log |LinearMap.det (L : (Fin F → ℝ) →ₗ[ℝ] (Fin F → ℝ))|) := by
  apply ar_row_logdet e c B F net x (by rw [pw_quad_tails hk ht]; exact hnet) hx hb hL
  intro i
  exact arEl_law e c F x (net x) b i (quad_tails_elLawAt e c hk ht _ (hv i) hneg hbl0 _ (hpos i))

/-- **C01, piecewise-CUBIC autoregressive layer with linear tails**: every feature of row `b` off the junctions `±B` -/
theorem ar_cubic_tails_logdet_is_jacobian (hk : c.kind = "cubic") (ht : c.tails = true) (hK : 0 < c.K)
    (hv : CubicWhole.CubicValid e (CubicLayers.cubicCfgOfT c) (List.replicate c.K 0) (List.replicate c.K 0))
    (hneg : e (-(c.ds.getD 0 0.0)) = - e (c.ds.getD 0 0.0)) (hbl0 : e (boxLog (tbox (c.ds.getD 0 0.0))) = 0)
    (hnet : AutoregNet B F (2 * c.K + 2) net) (hx : x.size = B * F) {b : Nat} (hb : b < B)
    (hpos : ∀ i : Fin F, x.getD (b * F + i.1) 0 ≠ -e (c.ds.getD 0 0.0) ∧ x.getD (b * F + i.1) 0 ≠ e (c.ds.getD 0 0.0))
    {L : (Fin F → ℝ) →L[ℝ] (Fin F → ℝ)}
    (hL : HasFDerivAt (rowMap e c B F net x b) L (fun i => x.getD (b * F + i.1) 0)) :
    (arForward (NF.realX e) c B F net x).ld[b]?
      = some (Real.log |LinearMap.det (L : (Fin F → ℝ) →ₗ[ℝ] (Fin F → ℝ))|) := by
  apply ar_row_logdet e c B F net x (by rw [CubicLayers.pw_cubic hk]; exact hnet) hx hb hL
  intro i
  refine arEl_law e c F x (net x) b i (cubic_tails_elLawAt e c hk ht _ ?_ hneg hbl0 _ (hpos i).1 (hpos i).2)
  exact CubicLayers.sliceValid_of_length hK hv _ (by rw [arSlice_length, CubicLayers.pw_cubic hk])

/-- **C01, piecewise-LINEAR autoregressive layer with linear tails** -/
theorem ar_linear_tails_logdet_is_jacobian (hk : c.kind = "lin") (ht : c.tails = true) (hK : 0 < c.K)
    (hbox : LinWhole.LinValid e (tbox (c.ds.getD 0 0.0)) 1e-6 (List.replicate c.K 0))
    (hlogK : e (Float.log (1.0 / c.K.toFloat)) = Real.log (1 / (c.K : ℝ)))
    (hneg : e (-(c.ds.getD 0 0.0)) = - e (c.ds.getD 0 0.0)) (hbl0 : e (boxLog (tbox (c.ds.getD 0 0.0))) = 0)
    (hnet : AutoregNet B F c.K net) (hx : x.size = B * F) {b : Nat} (hb : b < B)
    (hpos : ∀ i : Fin F, LinTailsPos e c c.K (x.getD (b * F + i.1) 0))
    {L : (Fin F → ℝ) →L[ℝ] (Fin F → ℝ)}
    (hL : HasFDerivAt (rowMap e c B F net x b) L (fun i => x.getD (b * F + i.1) 0)) :
    (arForward (NF.realX e) c B F net x).ld[b]?
      = some (Real.log |LinearMap.det (L : (Fin F → ℝ) →ₗ[ℝ] (Fin F → ℝ))|) := by
  apply ar_row_logdet e c B F net x (by rw [pw_lin hk]; exact hnet) hx hb hL
  intro i
  have hlen : (arSlice (NF.realX e) c F (net x) b i).length = c.K := by rw [arSlice_length, pw_lin hk]
  have hv : LinWhole.LinValid e (tbox (c.ds.getD 0 0.0)) 1e-6 (arSlice (NF.realX e) c F (net x) b i) :=
    ⟨List.ne_nil_of_length_pos (by rw [hlen]; exact hK), hbox.hlr, hbox.hdlr, hbox.hbt, hbox.hdbt, hbox.heps⟩
  refine arEl_law e c F x (net x) b i (lin_tails_elLawAt e c hk ht _ hv ?_ hneg hbl0 _ ?_)
  · rw [hlen]; exact hlogK
  · rw [hlen]; exact hpos i

end ar
end tailsLayers

/-! ## 5b. INVERSE pass, bounded linear family (the only inverse instance here; the generic `couplingEl_law` takes either
direction) -/

/-- **bounded piecewise-linear element, inverse, strictly inside an output bin** (`LinWhole.inv_hasDerivAt_y`) -/
theorem lin_inv_elLawAt (e : Float → ℝ) (c : ElCfg) (hk : c.kind = "lin") (ht : c.tails = false) (p : List ℝ)
    (hv : LinWhole.LinValid e (linBoxOf c) 1e-6 p)
    (hbl : e (boxLog (linBoxOf c)) = Real.log ((e (linBoxOf c).top - e (linBoxOf c).bottom)
      / (e (linBoxOf c).right - e (linBoxOf c).left)))
    (k : ℕ) (hkK : k < p.length) (y : ℝ)
    (h0 : LinWhole.yk e (linBoxOf c) p k < y) (h1 : y < LinWhole.yk e (linBoxOf c) p (k + 1)) :
    ElLawAt (elTransform (NF.realX e) c true p) y := by
  refine ⟨LinWhole.inv e (linBoxOf c) 1e-6 p, LinWhole.invLd e (linBoxOf c) 1e-6 p, ?_,
    LinWhole.inv_hasDerivAt_y hv hbl k hkK y h0 h1⟩
  obtain ⟨_, _, _, hy0, hyK, hys, _⟩ := LinWhole.knots_facts hv
  have hmono := ExecGlue.knots_mono (LinWhole.yk e (linBoxOf c) p) p.length hys
  have hL := hmono 0 k (Nat.zero_le _) hkK.le
  have hR := hmono (k + 1) p.length hkK le_rfl
  rw [hy0] at hL
  rw [hyK] at hR
  refine Filter.eventually_of_mem (Ioo_mem_nhds h0 h1) (fun s hs => ⟨[], ?_⟩)
  rw [LinTails.elTransform_lin _ c hk ht]
  have := LinWhole.inv_exec_ok hv s (by linarith [hs.1]) (by linarith [hs.2])
  unfold linBoxOf at this
  rw [this]
  rfl

/-- **C01, bounded piecewise-LINEAR coupling layer, INVERSE pass**: every transformed entry of row `b` strictly inside an
    OUTPUT bin (`yk k < y_i < yk (k+1)`) of its own spline; the returned `ld[b]` is `log |det|` of the Fréchet derivative of
    the executed inverse row map -/
theorem coupling_linear_inverse_logdet_is_jacobian (e : Float → ℝ) (c : ElCfg) (mask : List ℝ) (B : Nat)
    (net : Array ℝ → Array ℝ) (x : Array ℝ) (hk : c.kind = "lin") (ht : c.tails = false)
    (hbl : e (boxLog (linBoxOf c)) = Real.log ((e (linBoxOf c).top - e (linBoxOf c).bottom)
      / (e (linBoxOf c).right - e (linBoxOf c).left)))
    (hx : x.size = B * mask.length) {b : Nat} (hb : b < B)
    (hv : LinTails.LinParamsValid e c (nT e mask) 1 (cParams e mask B net x) B)
    (hbin : ∀ i, isT (NF.realX e) mask i = true → ∃ k, k < c.K ∧
      LinWhole.yk e (linBoxOf c) (chanSlice e c mask (cParams e mask B net x) b i) k < rowOf (NF.realX e) mask.length b x i ∧
      rowOf (NF.realX e) mask.length b x i < LinWhole.yk e (linBoxOf c) (chanSlice e c mask (cParams e mask B net x) b i) (k + 1))
    {L : (Fin mask.length → ℝ) →L[ℝ] (Fin mask.length → ℝ)}
    (hL : HasFDerivAt (couplingRowMap e c mask B net true x b) L (rowOf (NF.realX e) mask.length b x)) :
    (couplingRun (NF.realX e) c mask B net true x).ld[b]?
      = some (Real.log |LinearMap.det (L : (Fin mask.length → ℝ) →ₗ[ℝ] (Fin mask.length → ℝ))|) := by
  have hk1 : c.kind ≠ "affine" := by rw [hk]; decide
  have hk2 : c.kind ≠ "additive" := by rw [hk]; decide
  have hm : c.mult = c.K := by simp [ElCfg.mult, hk]
  refine coupling_row_logdet e c mask B net true x hx hb hL (fun i hi => ?_)
  obtain ⟨k, hkK, h0, h1⟩ := hbin i hi
  obtain ⟨hv1, _⟩ := hv b _ 0 hb (tpos_lt e mask i hi) Nat.one_pos
  have hlen : (chanSlice e c mask (cParams e mask B net x) b i).length = c.K := by rw [condSlice_length, hm]
  exact couplingEl_law e c hk1 hk2 mask _ true b i _
    (lin_inv_elLawAt e c hk ht _ hv1 hbl k (by rw [hlen]; exact hkK) _ h0 h1)

/-! ## 6. Non-vacuity: the hypothesis bundles are satisfiable

Unit box, the two-valued reading `eNV` (`0.0 ↦ 0`, every other double `↦ 1`) of the `*Whole` files and their
`valid_example`s.  `Float.log` is opaque to the kernel, so — exactly as `QuadWhole.boxLog_example`,
`CubicWhole.hbl_example`, `LinWhole.logs_example` — the readings of the `np.log` constants are granted as `Float`
equalities an evaluator confirms (`hlog : boxLog ⟨0,1,0,1⟩ == 0.0`, `hlogK : Float.log (1.0/1.0) == 0.0`).  What is left in
each example is a hypothesis on the DATA only: the transformed entries of the row lie in `(0, 1)` (one bin: strictly
inside the bin; cubic: two bins, the interior knot allowed) and the row map is Fréchet differentiable. -/

section witness

private theorem w00 : ((0.0:Float) == 0.0) = true := by decide +kernel
private theorem w10 : ((1.0:Float) == 0.0) = false := by decide +kernel

/-- bounded cubic coupling configuration: two bins on the unit box, the default `eps`, `thr` -/
def cCu : ElCfg := { container := "coupling", kind := "cubic", K := 2, ds := #[0.0, 1.0, 0.0, 1.0, 0.0, 0.0, 1e-5, 1e-3] }
/-- bounded linear coupling configuration: one bin on the unit box -/
def cLi : ElCfg := { container := "coupling", kind := "lin", K := 1, ds := #[0.0, 1.0, 0.0, 1.0] }

theorem cubicCfgOf_cCu : CubicLayers.cubicCfgOf cCu = CubicWhole.cNV := rfl
theorem linBoxOf_cLi : linBoxOf cLi = ⟨0.0, 1.0, 0.0, 1.0⟩ := rfl

/-- quadratic coupling: `StructureExec.cQ` (one bin), conditioner returning the empty array (every read is 0) -/
example (hlog : (boxLog QuadWhole.cNV.box == 0.0) = true) (mask : List ℝ) (B : Nat) (x : Array ℝ)
    (hx : x.size = B * mask.length) {b : Nat} (hb : b < B)
    (hin : ∀ i, isT (NF.realX QuadWhole.eNV) mask i = true →
      0 < rowOf (NF.realX QuadWhole.eNV) mask.length b x i ∧ rowOf (NF.realX QuadWhole.eNV) mask.length b x i < 1)
    {L : (Fin mask.length → ℝ) →L[ℝ] (Fin mask.length → ℝ)}
    (hL : HasFDerivAt (couplingRowMap QuadWhole.eNV cQ mask B (fun _ => #[]) false x b) L
      (rowOf (NF.realX QuadWhole.eNV) mask.length b x)) :
    (couplingRun (NF.realX QuadWhole.eNV) cQ mask B (fun _ => #[]) false x).ld[b]?
      = some (Real.log |LinearMap.det (L : (Fin mask.length → ℝ) →ₗ[ℝ] (Fin mask.length → ℝ))|) := by
  refine coupling_quadratic_logdet_is_jacobian QuadWhole.eNV cQ mask B (fun _ => #[]) x rfl rfl
    (QuadWhole.boxLog_example hlog) hx hb (quadParamsValid_example _ 1 B) (fun i hi => ?_) hL
  have hs : chanSlice QuadWhole.eNV cQ mask (cParams QuadWhole.eNV mask B (fun _ => #[]) x) b i = [0, 0, 0] := by
    have hm : cQ.mult = 3 := by decide
    unfold chanSlice cParams
    rw [hm]
    simp [condSlice, List.range_succ]
  have hw : quadW (NF.realX QuadWhole.eNV) cQ [0, 0, 0] = [0] := by simp [quadW, quadScale, cQ]
  obtain ⟨f0, fK, _⟩ := QuadWhole.xk_facts QuadWhole.valid_example
  have e0 : QuadWhole.eNV QuadWhole.cNV.box.left = 0 := by simp [QuadWhole.eNV, QuadWhole.cNV, w00]
  have e1 : QuadWhole.eNV QuadWhole.cNV.box.right = 1 := by simp [QuadWhole.eNV, QuadWhole.cNV, w10]
  rw [hs, hw]
  refine ⟨0, by simp, ?_, ?_⟩
  · rw [show quadCfgOf cQ = QuadWhole.cNV from rfl, f0, e0]; exact (hin i hi).1
  · rw [show quadCfgOf cQ = QuadWhole.cNV from rfl]
    have : QuadWhole.xk QuadWhole.eNV QuadWhole.cNV [0] (0 + 1) = 1 := by rw [← e1, ← fK]; rfl
    rw [this]; exact (hin i hi).2

/-- cubic coupling: two bins, ANY conditioner -/
example (hlog : (boxLog CubicWhole.cNV.box == 0.0) = true) (mask : List ℝ) (B : Nat) (net : Array ℝ → Array ℝ)
    (x : Array ℝ) (hx : x.size = B * mask.length) {b : Nat} (hb : b < B)
    (hin : ∀ i, isT (NF.realX CubicWhole.eNV) mask i = true →
      0 < rowOf (NF.realX CubicWhole.eNV) mask.length b x i ∧ rowOf (NF.realX CubicWhole.eNV) mask.length b x i < 1)
    {L : (Fin mask.length → ℝ) →L[ℝ] (Fin mask.length → ℝ)}
    (hL : HasFDerivAt (couplingRowMap CubicWhole.eNV cCu mask B net false x b) L
      (rowOf (NF.realX CubicWhole.eNV) mask.length b x)) :
    (couplingRun (NF.realX CubicWhole.eNV) cCu mask B net false x).ld[b]?
      = some (Real.log |LinearMap.det (L : (Fin mask.length → ℝ) →ₗ[ℝ] (Fin mask.length → ℝ))|) := by
  have e0 : CubicWhole.eNV CubicWhole.cNV.box.left = 0 := by simp [CubicWhole.eNV, CubicWhole.cNV, w00]
  have e1 : CubicWhole.eNV CubicWhole.cNV.box.right = 1 := by simp [CubicWhole.eNV, CubicWhole.cNV, w10]
  refine coupling_cubic_logdet_is_jacobian CubicWhole.eNV cCu mask B net x rfl rfl (by decide)
    CubicWhole.valid_example (CubicWhole.hbl_example hlog) hx hb (fun i hi => ?_) hL
  rw [cubicCfgOf_cCu, e0, e1]
  exact hin i hi

/-- the bundle of the linear family at `cLi`: every slice accepted, both `np.log` constants read exactly -/
theorem lin_bundle_example (h1 : (Float.log (1.0 / (1:ℕ).toFloat) == 0.0) = true)
    (h2 : (boxLog ⟨0.0, 1.0, 0.0, 1.0⟩ == 0.0) = true) (Ft S : Nat) (params : Array ℝ) (B : Nat) :
    LinTails.LinParamsValid RQWhole.eNV cLi Ft S params B ∧
    RQWhole.eNV (boxLog (linBoxOf cLi)) = Real.log ((RQWhole.eNV (linBoxOf cLi).top - RQWhole.eNV (linBoxOf cLi).bottom)
      / (RQWhole.eNV (linBoxOf cLi).right - RQWhole.eNV (linBoxOf cLi).left)) := by
  have hm : cLi.mult = 1 := by decide
  refine ⟨fun b t s _ _ _ => ?_, (LinWhole.logs_example h1 h2).2⟩
  have hlen : (condSlice (NF.realX RQWhole.eNV) cLi.mult Ft S params b t s).length = 1 := by
    rw [condSlice_length, hm]
  refine ⟨LinWhole.valid_unit_box _ (List.ne_nil_of_length_pos (by rw [hlen]; exact Nat.one_pos)), ?_⟩
  rw [hlen]
  exact (LinWhole.logs_example h1 h2).1

/-- linear coupling: one bin, ANY conditioner -/
example (h1 : (Float.log (1.0 / (1:ℕ).toFloat) == 0.0) = true) (h2 : (boxLog ⟨0.0, 1.0, 0.0, 1.0⟩ == 0.0) = true)
    (mask : List ℝ) (B : Nat) (net : Array ℝ → Array ℝ)
    (x : Array ℝ) (hx : x.size = B * mask.length) {b : Nat} (hb : b < B)
    (hin : ∀ i, isT (NF.realX RQWhole.eNV) mask i = true →
      0 < rowOf (NF.realX RQWhole.eNV) mask.length b x i ∧ rowOf (NF.realX RQWhole.eNV) mask.length b x i < 1)
    {L : (Fin mask.length → ℝ) →L[ℝ] (Fin mask.length → ℝ)}
    (hL : HasFDerivAt (couplingRowMap RQWhole.eNV cLi mask B net false x b) L
      (rowOf (NF.realX RQWhole.eNV) mask.length b x)) :
    (couplingRun (NF.realX RQWhole.eNV) cLi mask B net false x).ld[b]?
      = some (Real.log |LinearMap.det (L : (Fin mask.length → ℝ) →ₗ[ℝ] (Fin mask.length → ℝ))|) := by
  obtain ⟨hv, hbl⟩ := lin_bundle_example h1 h2 (nT RQWhole.eNV mask) 1 (cParams RQWhole.eNV mask B net x) B
  refine coupling_linear_logdet_is_jacobian RQWhole.eNV cLi mask B net x rfl rfl hbl hx hb hv (fun i hi => ?_) hL
  refine ⟨0, by decide, ?_, ?_⟩
  · have : LinWhole.xk RQWhole.eNV (linBoxOf cLi) cLi.K 0 = 0 := by
      rw [linBoxOf_cLi, show cLi.K = 1 from rfl]
      simp [LinWhole.xk, LinWhole.kn, RQWhole.eNV, w00]
    rw [this]; exact (hin i hi).1
  · have : LinWhole.xk RQWhole.eNV (linBoxOf cLi) cLi.K (0 + 1) = 1 := by
      rw [linBoxOf_cLi, show cLi.K = 1 from rfl]
      simp [LinWhole.xk, LinWhole.kn, RQWhole.eNV, w00, w10]
    rw [this]; exact (hin i hi).2

/-- quadratic autoregressive layer: one bin, conditioner returning the empty array -/
example (hlog : (boxLog QuadWhole.cNV.box == 0.0) = true) (B F : Nat) (x : Array ℝ) (hx : x.size = B * F)
    {b : Nat} (hb : b < B) (hin : ∀ i : Fin F, 0 < x.getD (b * F + i.1) 0 ∧ x.getD (b * F + i.1) 0 < 1)
    {L : (Fin F → ℝ) →L[ℝ] (Fin F → ℝ)}
    (hL : HasFDerivAt (rowMap QuadWhole.eNV cQ B F (fun _ => #[]) x b) L (fun i => x.getD (b * F + i.1) 0)) :
    (arForward (NF.realX QuadWhole.eNV) cQ B F (fun _ => #[]) x).ld[b]?
      = some (Real.log |LinearMap.det (L : (Fin F → ℝ) →ₗ[ℝ] (Fin F → ℝ))|) := by
  have hs : ∀ i : Fin F, arSlice (NF.realX QuadWhole.eNV) cQ F #[] b i = [0, 0, 0] := by
    intro i
    have hm : pw cQ = 3 := by decide
    unfold arSlice
    rw [hm]
    simp [List.range_succ]
  have hw : quadW (NF.realX QuadWhole.eNV) cQ [0, 0, 0] = [0] := by simp [quadW, quadScale, cQ]
  have hh : quadH (NF.realX QuadWhole.eNV) cQ [0, 0, 0] = [0, 0] := by simp [quadH, quadScale, cQ]
  obtain ⟨f0, fK, _⟩ := QuadWhole.xk_facts QuadWhole.valid_example
  have e0 : QuadWhole.eNV QuadWhole.cNV.box.left = 0 := by simp [QuadWhole.eNV, QuadWhole.cNV, w00]
  have e1 : QuadWhole.eNV QuadWhole.cNV.box.right = 1 := by simp [QuadWhole.eNV, QuadWhole.cNV, w10]
  refine ar_quadratic_logdet_is_jacobian QuadWhole.eNV cQ B F (fun _ => #[]) x rfl rfl
    (QuadWhole.boxLog_example hlog) (fun _ _ _ _ _ _ _ _ _ _ _ => rfl) hx hb (fun i => ?_) (fun i => ?_) hL
  · rw [hs i, hw, hh]; exact QuadWhole.valid_example
  · rw [hs i, hw]
    refine ⟨0, by simp, ?_, ?_⟩
    · rw [show quadCfgOf cQ = QuadWhole.cNV from rfl, f0, e0]; exact (hin i).1
    · rw [show quadCfgOf cQ = QuadWhole.cNV from rfl]
      have : QuadWhole.xk QuadWhole.eNV QuadWhole.cNV [0] (0 + 1) = 1 := by rw [← e1, ← fK]; rfl
      rw [this]; exact (hin i).2

/-- cubic autoregressive layer: two bins, ANY autoregressive conditioner -/
example (hlog : (boxLog CubicWhole.cNV.box == 0.0) = true) (B F : Nat) (net : Array ℝ → Array ℝ) (x : Array ℝ)
    (hnet : AutoregNet B F 6 net) (hx : x.size = B * F)
    {b : Nat} (hb : b < B) (hin : ∀ i : Fin F, 0 < x.getD (b * F + i.1) 0 ∧ x.getD (b * F + i.1) 0 < 1)
    {L : (Fin F → ℝ) →L[ℝ] (Fin F → ℝ)}
    (hL : HasFDerivAt (rowMap CubicWhole.eNV cCu B F net x b) L (fun i => x.getD (b * F + i.1) 0)) :
    (arForward (NF.realX CubicWhole.eNV) cCu B F net x).ld[b]?
      = some (Real.log |LinearMap.det (L : (Fin F → ℝ) →ₗ[ℝ] (Fin F → ℝ))|) := by
  have e0 : CubicWhole.eNV CubicWhole.cNV.box.left = 0 := by simp [CubicWhole.eNV, CubicWhole.cNV, w00]
  have e1 : CubicWhole.eNV CubicWhole.cNV.box.right = 1 := by simp [CubicWhole.eNV, CubicWhole.cNV, w10]
  refine ar_cubic_logdet_is_jacobian CubicWhole.eNV cCu B F net x rfl rfl (by decide)
    CubicWhole.valid_example (CubicWhole.hbl_example hlog) hnet hx hb (fun i => ?_) hL
  rw [cubicCfgOf_cCu, e0, e1]
  exact hin i

/-- linear autoregressive layer: one bin, ANY autoregressive conditioner -/
example (h1 : (Float.log (1.0 / (1:ℕ).toFloat) == 0.0) = true) (h2 : (boxLog ⟨0.0, 1.0, 0.0, 1.0⟩ == 0.0) = true)
    (B F : Nat) (net : Array ℝ → Array ℝ) (x : Array ℝ) (hnet : AutoregNet B F 1 net) (hx : x.size = B * F)
    {b : Nat} (hb : b < B) (hin : ∀ i : Fin F, 0 < x.getD (b * F + i.1) 0 ∧ x.getD (b * F + i.1) 0 < 1)
    {L : (Fin F → ℝ) →L[ℝ] (Fin F → ℝ)}
    (hL : HasFDerivAt (rowMap RQWhole.eNV cLi B F net x b) L (fun i => x.getD (b * F + i.1) 0)) :
    (arForward (NF.realX RQWhole.eNV) cLi B F net x).ld[b]?
      = some (Real.log |LinearMap.det (L : (Fin F → ℝ) →ₗ[ℝ] (Fin F → ℝ))|) := by
  refine ar_linear_logdet_is_jacobian RQWhole.eNV cLi B F net x rfl rfl (by decide)
    (LinWhole.valid_unit_box _ (by simp [cLi])) (LinWhole.logs_example h1 h2).1 (LinWhole.logs_example h1 h2).2
    hnet hx hb (fun i => ?_) hL
  refine ⟨0, by decide, ?_, ?_⟩
  · have : LinWhole.xk RQWhole.eNV (linBoxOf cLi) cLi.K 0 = 0 := by
      rw [linBoxOf_cLi, show cLi.K = 1 from rfl]
      simp [LinWhole.xk, LinWhole.kn, RQWhole.eNV, w00]
    rw [this]; exact (hin i).1
  · have : LinWhole.xk RQWhole.eNV (linBoxOf cLi) cLi.K (0 + 1) = 1 := by
      rw [linBoxOf_cLi, show cLi.K = 1 from rfl]
      simp [LinWhole.xk, LinWhole.kn, RQWhole.eNV, w00, w10]
    rw [this]; exact (hin i).2

/-! ### the tails families (tail bound `1.0`): the bundles at the witnesses of `StructureExecQuad` (`eTT`, `cQT`),
`CubicLayers` (`eT`, `cCT`) and `LinTails` (`eTT`, every non-empty slice); `hlog0 : boxLog ⟨-1,1,-1,1⟩ == 0.0` is the one
opaque `Float.log` fact.  Data hypotheses left: the transformed entries lie in the right tail (quadratic, linear) / off
`±1` (cubic). -/

private theorem w1h : ((1.0:Float) == 0.5) = false := by decide +kernel
private theorem w1n : ((1.0:Float) == -(1.0)) = false := by decide +kernel
private theorem w12 : ((1.0:Float) == 2.0) = false := by decide +kernel

theorem eTT_zero_of {f : Float} (h : (f == 0.0) = true) : eTT f = 0 := by unfold eTT; rw [if_pos h]
theorem eTT_one : eTT 1.0 = 1 := by simp [eTT, w10, w1h, w1n, w12]

/-- quadratic coupling with tails: two bins, conditioner returning the empty array, entries in the right tail -/
example (hlog0 : (boxLog (TailsWhole.tbox 1.0) == 0.0) = true) (mask : List ℝ) (B : Nat) (x : Array ℝ)
    (hx : x.size = B * mask.length) {b : Nat} (hb : b < B)
    (hin : ∀ i, isT (NF.realX eTT) mask i = true → 1 < rowOf (NF.realX eTT) mask.length b x i)
    {L : (Fin mask.length → ℝ) →L[ℝ] (Fin mask.length → ℝ)}
    (hL : HasFDerivAt (couplingRowMap eTT cQT mask B (fun _ => #[]) false x b) L (rowOf (NF.realX eTT) mask.length b x)) :
    (couplingRun (NF.realX eTT) cQT mask B (fun _ => #[]) false x).ld[b]?
      = some (Real.log |LinearMap.det (L : (Fin mask.length → ℝ) →ₗ[ℝ] (Fin mask.length → ℝ))|) :=
  coupling_quadratic_tails_logdet_is_jacobian eTT cQT mask B (fun _ => #[]) x rfl rfl hneg_example
    (eTT_zero_of hlog0) hx hb (quadTailsParamsValid_example _ 1 B)
    (fun i hi => Or.inl (Or.inr (by rw [show cQT.ds.getD 0 0.0 = 1.0 from rfl, eTT_one]; exact hin i hi))) hL

/-- cubic coupling with tails: two bins, ANY conditioner, entries off the junctions -/
example (hlog0 : (boxLog (TailsWhole.tbox 1.0) == 0.0) = true) (mask : List ℝ) (B : Nat) (net : Array ℝ → Array ℝ)
    (x : Array ℝ) (hx : x.size = B * mask.length) {b : Nat} (hb : b < B)
    (hin : ∀ i, isT (NF.realX CubicLayers.eT) mask i = true →
      rowOf (NF.realX CubicLayers.eT) mask.length b x i ≠ -CubicLayers.eT 1.0 ∧
      rowOf (NF.realX CubicLayers.eT) mask.length b x i ≠ CubicLayers.eT 1.0)
    {L : (Fin mask.length → ℝ) →L[ℝ] (Fin mask.length → ℝ)}
    (hL : HasFDerivAt (couplingRowMap CubicLayers.eT CubicLayers.cCT mask B net false x b) L
      (rowOf (NF.realX CubicLayers.eT) mask.length b x)) :
    (couplingRun (NF.realX CubicLayers.eT) CubicLayers.cCT mask B net false x).ld[b]?
      = some (Real.log |LinearMap.det (L : (Fin mask.length → ℝ) →ₗ[ℝ] (Fin mask.length → ℝ))|) := by
  have h0 : CubicLayers.eT (boxLog (TailsWhole.tbox 1.0)) = 0 := by
    unfold CubicLayers.eT CubicLayers.codeT; rw [if_pos hlog0]; rfl
  exact coupling_cubic_tails_logdet_is_jacobian CubicLayers.eT CubicLayers.cCT mask B net x rfl rfl (by decide)
    CubicLayers.valid_exampleT CubicLayers.eT_neg h0 hx hb hin hL

/-- linear configuration with tails: one bin, tail bound 1 -/
def cLT : ElCfg := { kind := "lin", tails := true, K := 1, ds := #[1.0] }
theorem cLT_neg : eTT (-(cLT.ds.getD 0 0.0)) = - eTT (cLT.ds.getD 0 0.0) := eTT_neg

/-- linear coupling with tails: one bin, ANY conditioner, entries in the right tail -/
example (h1 : (Float.log (1.0 / (1:ℕ).toFloat) == 0.0) = true) (hlog0 : (boxLog (TailsWhole.tbox 1.0) == 0.0) = true)
    (mask : List ℝ) (B : Nat) (net : Array ℝ → Array ℝ) (x : Array ℝ) (hx : x.size = B * mask.length) {b : Nat} (hb : b < B)
    (hin : ∀ i, isT (NF.realX eTT) mask i = true → 1 < rowOf (NF.realX eTT) mask.length b x i)
    {L : (Fin mask.length → ℝ) →L[ℝ] (Fin mask.length → ℝ)}
    (hL : HasFDerivAt (couplingRowMap eTT cLT mask B net false x b) L
      (rowOf (NF.realX eTT) mask.length b x)) :
    (couplingRun (NF.realX eTT) cLT mask B net false x).ld[b]?
      = some (Real.log |LinearMap.det (L : (Fin mask.length → ℝ) →ₗ[ℝ] (Fin mask.length → ℝ))|) := by
  refine coupling_linear_tails_logdet_is_jacobian eTT cLT mask B net x rfl rfl cLT_neg
    (eTT_zero_of hlog0) hx hb (fun b t s _ _ _ => ?_)
    (fun i hi => Or.inl (Or.inr (by
      rw [show (cLT.ds.getD 0 0.0) = 1.0 from rfl, eTT_one]
      exact hin i hi))) hL
  have hlen : (condSlice (NF.realX eTT) cLT.mult
      (nT eTT mask) 1 (cParams eTT mask B net x) b t s).length = 1 := by
    rw [condSlice_length]; decide
  refine ⟨LinTails.valid_tails_box _ (List.ne_nil_of_length_pos (by rw [hlen]; exact Nat.one_pos)), ?_⟩
  rw [hlen]
  have : eTT (Float.log (1.0 / (1:ℕ).toFloat)) = 0 := eTT_zero_of h1
  rw [this]; simp

/-- linear coupling, INVERSE pass: one bin, ANY conditioner, entries in `(0, 1)` -/
example (h1 : (Float.log (1.0 / (1:ℕ).toFloat) == 0.0) = true) (h2 : (boxLog ⟨0.0, 1.0, 0.0, 1.0⟩ == 0.0) = true)
    (mask : List ℝ) (B : Nat) (net : Array ℝ → Array ℝ)
    (x : Array ℝ) (hx : x.size = B * mask.length) {b : Nat} (hb : b < B)
    (hin : ∀ i, isT (NF.realX RQWhole.eNV) mask i = true →
      0 < rowOf (NF.realX RQWhole.eNV) mask.length b x i ∧ rowOf (NF.realX RQWhole.eNV) mask.length b x i < 1)
    {L : (Fin mask.length → ℝ) →L[ℝ] (Fin mask.length → ℝ)}
    (hL : HasFDerivAt (couplingRowMap RQWhole.eNV cLi mask B net true x b) L
      (rowOf (NF.realX RQWhole.eNV) mask.length b x)) :
    (couplingRun (NF.realX RQWhole.eNV) cLi mask B net true x).ld[b]?
      = some (Real.log |LinearMap.det (L : (Fin mask.length → ℝ) →ₗ[ℝ] (Fin mask.length → ℝ))|) := by
  obtain ⟨hv, hbl⟩ := lin_bundle_example h1 h2 (nT RQWhole.eNV mask) 1 (cParams RQWhole.eNV mask B net x) B
  refine coupling_linear_inverse_logdet_is_jacobian RQWhole.eNV cLi mask B net x rfl rfl hbl hx hb hv (fun i hi => ?_) hL
  have hv1 : LinWhole.LinValid RQWhole.eNV (linBoxOf cLi) 1e-6
      (chanSlice RQWhole.eNV cLi mask (cParams RQWhole.eNV mask B net x) b i) :=
    (hv b _ 0 hb (tpos_lt RQWhole.eNV mask i hi) Nat.one_pos).1
  have hlen : (chanSlice RQWhole.eNV cLi mask (cParams RQWhole.eNV mask B net x) b i).length = 1 := by
    rw [condSlice_length]; decide
  obtain ⟨_, _, _, hy0, hyK, _⟩ := LinWhole.knots_facts hv1
  rw [hlen] at hyK
  have e0 : RQWhole.eNV (linBoxOf cLi).bottom = 0 := by rw [linBoxOf_cLi]; simp [RQWhole.eNV, w00]
  have e1 : RQWhole.eNV (linBoxOf cLi).top = 1 := by rw [linBoxOf_cLi]; simp [RQWhole.eNV, w10]
  refine ⟨0, by decide, ?_, ?_⟩
  · rw [hy0, e0]; exact (hin i hi).1
  · rw [hyK, e1]; exact (hin i hi).2

end witness

end NF.LayerDerivMore
