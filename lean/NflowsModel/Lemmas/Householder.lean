import Mathlib.LinearAlgebra.Matrix.Determinant.Basic
import Mathlib.LinearAlgebra.Matrix.DotProduct
import Mathlib.Data.Real.Basic
import Mathlib.Tactic

namespace Householder


open Matrix
variable {n : Type} [Fintype n] [DecidableEq n]

/-- Householder reflection as the code applies it to a row vector (orthogonal.py:79-84):
    `outputs - ger(outputs @ q, (2/‖q‖²) q)` -/
noncomputable def hhApply (v x : n → ℝ) : n → ℝ := x - ((x ⬝ᵥ v) * (2 / (v ⬝ᵥ v))) • v

theorem hhApply_dot (v x : n → ℝ) (hv : v ⬝ᵥ v ≠ 0) : hhApply v x ⬝ᵥ v = - (x ⬝ᵥ v) := by
  unfold hhApply
  rw [sub_dotProduct, smul_dotProduct, smul_eq_mul]
  field_simp
  ring

theorem hhApply_involutive (v x : n → ℝ) (hv : v ⬝ᵥ v ≠ 0) : hhApply v (hhApply v x) = x := by
  have h := hhApply_dot v x hv
  have e : hhApply v (hhApply v x) = hhApply v x - ((hhApply v x ⬝ᵥ v) * (2 / (v ⬝ᵥ v))) • v := rfl
  rw [e, h]
  unfold hhApply
  funext i
  simp only [Pi.sub_apply, Pi.smul_apply, smul_eq_mul]
  ring

/-- norm preservation: the reflection is orthogonal -/
theorem hhApply_norm (v x : n → ℝ) (hv : v ⬝ᵥ v ≠ 0) : hhApply v x ⬝ᵥ hhApply v x = x ⬝ᵥ x := by
  have h := hhApply_dot v x hv
  have e : hhApply v x ⬝ᵥ hhApply v x = hhApply v x ⬝ᵥ x - ((x ⬝ᵥ v) * (2 / (v ⬝ᵥ v))) * (hhApply v x ⬝ᵥ v) := by
    conv_lhs => rw [show hhApply v x = x - ((x ⬝ᵥ v) * (2 / (v ⬝ᵥ v))) • v from rfl]
    rw [dotProduct_sub, dotProduct_smul, smul_eq_mul]
    rfl
  rw [e, h]
  unfold hhApply
  rw [sub_dotProduct, smul_dotProduct, smul_eq_mul, dotProduct_comm v x]
  field_simp
  ring

/-- a sequence applied in order, and its inverse = the reversed sequence (orthogonal.py:86-96) -/
noncomputable def hhSeq (vs : List (n → ℝ)) (x : n → ℝ) : n → ℝ := vs.foldl (fun acc v => hhApply v acc) x

theorem hhSeq_inverse (vs : List (n → ℝ)) (hv : ∀ v ∈ vs, v ⬝ᵥ v ≠ 0) (x : n → ℝ) :
    hhSeq vs.reverse (hhSeq vs x) = x := by
  induction vs generalizing x with
  | nil => simp [hhSeq]
  | cons v vs ih =>
    simp only [hhSeq, List.foldl_cons, List.reverse_cons, List.foldl_append, List.foldl_nil]
    have := ih (fun w hw => hv w (List.mem_cons_of_mem _ hw)) (hhApply v x)
    simp only [hhSeq] at this
    rw [this]
    exact hhApply_involutive v x (hv v (List.mem_cons_self))


end Householder
