import NflowsModel.Real.LinearBridge
import NflowsModel.Core.Cache
import Mathlib.Tactic
/-!
# Lemmas/CachePaths — the cached and the uncached code paths of the linear family agree IN VALUE

`Core/Cache.lean` (property C10) abstracts tensors to version tags; "the value a cache slot holds is the value the
accessor returns for the parameters of that version, and `F.linear` with the cached matrices computes what
`forward_no_cache` / `inverse_no_cache` compute" is an ASSUMPTION there (external audit, C10 finding 1; C11 finding 2).
This file proves it of the EXECUTED list programs of `Core/LinearFamily.lean`:

* the cached branches of `Linear.forward` / `Linear.inverse` (linear.py:46-51, 65-70) are written with the Core
  functions `linear` (= `F.linear(x, W, b)`), `linear0` (= `F.linear(x, W)`), `subV` — `cachedForward`, `cachedInverse`;
* `_check_forward_cache` / `_check_inverse_cache` (linear.py:53-63, 72-85) on VALUE slots — `checkCache`;
* **LU, QR, SVD over ℝ** (`lu_cache_paths`, `qr_cache_paths`, `svd_cache_paths`): for every parameter value accepted by
  the constructor shapes (`udiag`/`logDiag`/`bias` of length `n`, `eps ≥ 0`, no zero q-vector) and every batch of rows of
  length `n`: `F.linear(X, weight(), bias) = forward_no_cache(X)`, `F.linear(X - bias, weight_inverse()) = inverse_no_cache(X)`,
  the log-abs-det slot `logabsdet()` is `log|det|` of the cached weight and MINUS it is `log|det|` of the cached inverse;
* the combined routines `weight_and_logabsdet` / `weight_inverse_and_logabsdet` are not overridden by `lu.py`, `qr.py`,
  `svd.py` (base class: the pair of the separate accessors, linear.py:108-116), so for these classes "combined = separate"
  is the definition (`Accessors.combinedW`, `Accessors.combinedInv`, `checkCache_eq`);
* **NaiveLinear, any scalar semantics `o`** (hence also at `Float`/`Float32`): `torch.inverse`, `torch.lu`/`lu_solve`,
  `slogdet` enter by specification as ONE Gauss–Jordan elimination in the model; what is proved is that the model's
  cached paths read the same elimination as the uncached ones (`naive_cached_forward`, `naive_cached_inverse`,
  `naive_combined_eq`).  The arithmetic of Gauss–Jordan itself is not verified (declared gap of C11).

`OneByOneConvolution` calls `LULinear.forward` / `.inverse` on the pixel rows: `conv_cached_forward`, `conv_cached_inverse`.
`denote_current` spells out how the version-level conclusion of C10 and these value-level theorems compose.

Not covered: floating-point agreement of the two paths (they are different
programs: `x (L U)ᵀ` vs `(x Uᵀ) Lᵀ` round differently — agreement is up to rounding and is the harness's tolerance);
the log-abs-det VECTORS `ld * ones(B)` (the Core passes return outputs only; the scalar they multiply is covered).
-/
open NF.LF DualSound Matrix LinearBridge

namespace NF.CachePaths

/-! ## the cached branches, any scalar semantics -/
section model
variable {α : Type} (o : Ops α)

/-- `Linear.forward`, cached branch (linear.py:47-51): `F.linear(inputs, cache.weight, bias)` -/
def cachedForward (W : List (List α)) (b : List α) (X : List (List α)) : List (List α) := linear o W b X

/-- `Linear.inverse`, cached branch (linear.py:66-70): `F.linear(inputs - bias, cache.inverse)` -/
def cachedInverse (Winv : List (List α)) (b : List α) (X : List (List α)) : List (List α) :=
  linear0 o Winv (X.map (fun x => subV o x b))

/-- the five abstract methods of `Linear` (linear.py:118-140) plus the bias, and the two combined routines -/
structure Accessors (α : Type) where
  weight : List (List α)
  weightInverse : List (List α)
  logabsdet : α
  bias : List α
  forwardNoCache : List (List α) → List (List α)
  inverseNoCache : List (List α) → List (List α)
  /-- `weight_and_logabsdet()` -/
  combinedW : List (List α) × α := (weight, logabsdet)
  /-- `weight_inverse_and_logabsdet()` -/
  combinedInv : List (List α) × α := (weightInverse, logabsdet)

/-- `_check_forward_cache` / `_check_inverse_cache` on value slots (linear.py:53-63, 72-85): both empty → the combined
    routine; one empty → the separate accessor; returns the two slots after the check -/
def checkCache (combined : List (List α) × α) (single : List (List α)) (ld : α)
    (cM : Option (List (List α))) (cLd : Option α) : List (List α) × α :=
  match cM, cLd with
  | none, none => combined
  | none, some l => (single, l)
  | some m, none => (m, ld)
  | some m, some l => (m, l)

/-- **cache-fill invariant on values**: if every non-empty slot holds the value of its accessor (what `Core/Cache.lean`
    calls "computed from the current version") and the combined routine returns the pair of the separate accessors, the
    slots after the check are the separate accessors -/
theorem checkCache_eq (combined : List (List α) × α) (single : List (List α)) (ld : α)
    (cM : Option (List (List α))) (cLd : Option α) (hc : combined = (single, ld))
    (hM : ∀ m, cM = some m → m = single) (hL : ∀ l, cLd = some l → l = ld) :
    checkCache combined single ld cM cLd = (single, ld) := by
  cases cM with
  | none => cases cLd with
    | none => exact hc
    | some l => simp [checkCache, hL l rfl]
  | some m => cases cLd with
    | none => simp [checkCache, hM m rfl]
    | some l => simp [checkCache, hM m rfl, hL l rfl]

/-- the accessors of `LULinear` (lu.py); the combined routines are the base-class defaults (not overridden) -/
def luAcc (p : LUParams α) : Accessors α :=
  { weight := luWeight o p, weightInverse := luWeightInverse o p, logabsdet := luLogabsdet o p, bias := p.bias,
    forwardNoCache := luForward o p, inverseNoCache := luInverse o p }
/-- the accessors of `QRLinear` (qr.py) -/
def qrAcc (p : QRParams α) : Accessors α :=
  { weight := qrWeight o p, weightInverse := qrWeightInverse o p, logabsdet := qrLogabsdet o p, bias := p.bias,
    forwardNoCache := qrForward o p, inverseNoCache := qrInverse o p }
/-- the accessors of `SVDLinear` (svd.py) -/
def svdAcc (p : SVDParams α) : Accessors α :=
  { weight := svdWeight o p, weightInverse := svdWeightInverse o p, logabsdet := svdLogabsdet o p, bias := p.bias,
    forwardNoCache := svdForward o p, inverseNoCache := svdInverse o p }

/-- **value transparency of the cache for one set of accessors on a batch `X`**: whatever the slots held (empty, or the
    accessor values), the cached forward / inverse passes return the outputs of the uncached passes, and the log-abs-det
    slot they read is `logabsdet()` -/
structure ValueTransparent (A : Accessors α) (X : List (List α)) : Prop where
  combinedW_eq : A.combinedW = (A.weight, A.logabsdet)
  combinedInv_eq : A.combinedInv = (A.weightInverse, A.logabsdet)
  forward_eq : ∀ cM cLd, (∀ m, cM = some m → m = A.weight) → (∀ l, cLd = some l → l = A.logabsdet) →
    cachedForward o (checkCache A.combinedW A.weight A.logabsdet cM cLd).1 A.bias X = A.forwardNoCache X ∧
    (checkCache A.combinedW A.weight A.logabsdet cM cLd).2 = A.logabsdet
  inverse_eq : ∀ cM cLd, (∀ m, cM = some m → m = A.weightInverse) → (∀ l, cLd = some l → l = A.logabsdet) →
    cachedInverse o (checkCache A.combinedInv A.weightInverse A.logabsdet cM cLd).1 A.bias X = A.inverseNoCache X ∧
    (checkCache A.combinedInv A.weightInverse A.logabsdet cM cLd).2 = A.logabsdet

theorem valueTransparent_of (A : Accessors α) (X : List (List α))
    (hW : A.combinedW = (A.weight, A.logabsdet)) (hI : A.combinedInv = (A.weightInverse, A.logabsdet))
    (hf : cachedForward o A.weight A.bias X = A.forwardNoCache X)
    (hi : cachedInverse o A.weightInverse A.bias X = A.inverseNoCache X) : ValueTransparent o A X := by
  refine ⟨hW, hI, fun cM cLd hM hL => ?_, fun cM cLd hM hL => ?_⟩
  · rw [checkCache_eq _ _ _ cM cLd hW hM hL]; exact ⟨hf, rfl⟩
  · rw [checkCache_eq _ _ _ cM cLd hI hM hL]; exact ⟨hi, rfl⟩

/-! ### every pass acts row by row -/

/-- `F` maps a batch row by row -/
def RowWise (F : List (List α) → List (List α)) : Prop := ∃ g : List α → List α, ∀ X, F X = X.map g

theorem RowWise.congr_rows {F G : List (List α) → List (List α)} (hF : RowWise F) (hG : RowWise G)
    (X : List (List α)) (h : ∀ x ∈ X, F [x] = G [x]) : F X = G X := by
  obtain ⟨f, hf⟩ := hF
  obtain ⟨g, hg⟩ := hG
  rw [hf, hg]
  apply List.map_congr_left
  intro x hx
  have := h x hx
  rw [hf, hg] at this
  simpa using this

theorem rowWise_cachedForward (W : List (List α)) (b : List α) : RowWise (cachedForward o W b) :=
  ⟨fun x => addV o (matVec o W x) b, fun _ => rfl⟩
theorem rowWise_cachedInverse (W : List (List α)) (b : List α) : RowWise (cachedInverse o W b) :=
  ⟨fun x => matVec o W (subV o x b), fun X => by simp [cachedInverse, linear0, List.map_map, Function.comp_def]⟩
theorem rowWise_luForward (p : LUParams α) : RowWise (luForward o p) :=
  ⟨fun x => addV o (matVec o (luL o p) (matVec o (luU o p) x)) p.bias,
   fun X => by simp [luForward, linear, linear0, List.map_map, Function.comp_def]⟩
theorem rowWise_luInverse (p : LUParams α) : RowWise (luInverse o p) := ⟨_, fun _ => rfl⟩
theorem rowWise_qrForward (p : QRParams α) : RowWise (qrForward o p) :=
  ⟨fun x => addV o (hhSeq o p.qs (matVec o (qrR o p) x)) p.bias,
   fun X => by simp [qrForward, hhForward, linear0, List.map_map, Function.comp_def]⟩
theorem rowWise_qrInverse (p : QRParams α) : RowWise (qrInverse o p) :=
  ⟨fun x => solveUpper o (qrR o p) (hhSeq o p.qs.reverse (subV o x p.bias)),
   fun X => by simp [qrInverse, hhInverse, List.map_map, Function.comp_def]⟩
theorem rowWise_svdForward (p : SVDParams α) : RowWise (svdForward o p) :=
  ⟨fun x => addV o (hhSeq o p.qs1 (List.zipWith o.mul (hhSeq o p.qs2 x) (svdDiag o p))) p.bias,
   fun X => by simp [svdForward, hhForward, List.map_map, Function.comp_def]⟩
theorem rowWise_svdInverse (p : SVDParams α) : RowWise (svdInverse o p) :=
  ⟨fun x => hhSeq o p.qs2.reverse (List.zipWith o.div (hhSeq o p.qs1.reverse (subV o x p.bias)) (svdDiag o p)),
   fun X => by simp [svdInverse, hhInverse, List.map_map, Function.comp_def]⟩

end model

/-! ## over the reals: `F.linear` with a matrix and its inverse -/
section real
variable {n : ℕ}

/-- `F.linear(x, W, b)` on one row, as executed, is `W x + b` -/
theorem cachedForward_row (W : Matrix (Fin n) (Fin n) ℝ) (b : List ℝ) (hb : b.length = n) (x : Fin n → ℝ) :
    cachedForward realOps (ofMat W) b [List.ofFn x] = [List.ofFn (W *ᵥ x + vecFn n b)] := by
  unfold cachedForward linear
  simp only [List.map_cons, List.map_nil]
  rw [matVec_ofMat, addV_list _ _ hb]
  rfl

/-- `F.linear(x - b, Winv)` on one row, as executed, is `Winv (x - b)` -/
theorem cachedInverse_row (Winv : Matrix (Fin n) (Fin n) ℝ) (b : List ℝ) (hb : b.length = n) (y : Fin n → ℝ) :
    cachedInverse realOps (ofMat Winv) b [List.ofFn y] = [List.ofFn (Winv *ᵥ (y - vecFn n b))] := by
  unfold cachedInverse linear0
  simp only [List.map_cons, List.map_nil]
  rw [subV_list _ _ hb, matVec_ofMat]
  rfl

/-- an uncached inverse pass that undoes the uncached forward pass `x ↦ W x + b` of an invertible `W` is
    `y ↦ W⁻¹ (y - b)` on EVERY row (not only on the image of the forward pass: the forward pass is onto) -/
theorem inverse_of_roundtrip (W Winv : Matrix (Fin n) (Fin n) ℝ) (h2 : W * Winv = 1) (b : List ℝ)
    (fwd inv : List (List ℝ) → List (List ℝ))
    (hf : ∀ x : Fin n → ℝ, fwd [List.ofFn x] = [List.ofFn (W *ᵥ x + vecFn n b)])
    (hi : ∀ x : Fin n → ℝ, inv (fwd [List.ofFn x]) = [List.ofFn x]) (y : Fin n → ℝ) :
    inv [List.ofFn y] = [List.ofFn (Winv *ᵥ (y - vecFn n b))] := by
  have hy : W *ᵥ (Winv *ᵥ (y - vecFn n b)) + vecFn n b = y := by
    rw [Matrix.mulVec_mulVec, h2, Matrix.one_mulVec, sub_add_cancel]
  have := hi (Winv *ᵥ (y - vecFn n b))
  rwa [hf, hy] at this

/-- `log|det W⁻¹| = -log|det W|`: the sign flip of the cached inverse pass (linear.py:69) -/
theorem log_abs_det_inv (W Winv : Matrix (Fin n) (Fin n) ℝ) (h : Winv * W = 1) :
    Real.log |Winv.det| = -Real.log |W.det| := by
  have hd : Winv.det * W.det = 1 := by rw [← Matrix.det_mul, h, Matrix.det_one]
  have hW : W.det ≠ 0 := fun h0 => by rw [h0, mul_zero] at hd; exact zero_ne_one hd
  have : Winv.det = (W.det)⁻¹ := eq_inv_of_mul_eq_one_left hd
  rw [this, abs_inv, Real.log_inv]

/-- assembly, forward: accessor `weight() = ofMat W`, uncached forward pass `= W x + b` row by row ⇒ the cached forward
    pass equals the uncached one on every batch of well-shaped rows -/
theorem forward_paths_agree (b : List ℝ) (hb : b.length = n) (Wl : List (List ℝ)) (fwd : List (List ℝ) → List (List ℝ))
    (hR : RowWise fwd) (W : Matrix (Fin n) (Fin n) ℝ) (hW : Wl = ofMat W)
    (hf : ∀ x : Fin n → ℝ, fwd [List.ofFn x] = [List.ofFn (W *ᵥ x + vecFn n b)])
    (X : List (List ℝ)) (hX : ∀ x ∈ X, x.length = n) : cachedForward realOps Wl b X = fwd X := by
  apply RowWise.congr_rows (rowWise_cachedForward realOps Wl b) hR
  intro x hx
  rw [list_eq_ofFn x (hX x hx), hW, cachedForward_row W b hb, hf]

/-- assembly, inverse -/
theorem inverse_paths_agree (b : List ℝ) (hb : b.length = n) (Wil : List (List ℝ)) (fwd inv : List (List ℝ) → List (List ℝ))
    (hR : RowWise inv) (W : Matrix (Fin n) (Fin n) ℝ)
    (hWi : ∃ Winv : Matrix (Fin n) (Fin n) ℝ, Wil = ofMat Winv ∧ Winv * W = 1 ∧ W * Winv = 1)
    (hf : ∀ x : Fin n → ℝ, fwd [List.ofFn x] = [List.ofFn (W *ᵥ x + vecFn n b)])
    (hi : ∀ x : Fin n → ℝ, inv (fwd [List.ofFn x]) = [List.ofFn x])
    (X : List (List ℝ)) (hX : ∀ x ∈ X, x.length = n) : cachedInverse realOps Wil b X = inv X := by
  obtain ⟨Winv, hWil, _, h2⟩ := hWi
  apply RowWise.congr_rows (rowWise_cachedInverse realOps Wil b) hR
  intro x hx
  rw [list_eq_ofFn x (hX x hx), hWil, cachedInverse_row Winv b hb, inverse_of_roundtrip W Winv h2 b fwd inv hf hi]

end real

/-! ## LULinear -/

/-- **`F.linear(X, weight(), bias) = forward_no_cache(X)`** for `LULinear`, as executed over ℝ: the single matrix
    product with `L U` against the two triangular products (lu.py:56-68); any parameter values -/
theorem lu_cached_forward (p : LUParams ℝ) (hb : p.bias.length = p.n) (X : List (List ℝ)) (hX : ∀ x ∈ X, x.length = p.n) :
    cachedForward realOps (luWeight realOps p) p.bias X = luForward realOps p X :=
  forward_paths_agree p.bias hb _ _ (rowWise_luForward realOps p) (luW p) (luWeight_executed p) (luForward_executed p hb) X hX

/-- **`F.linear(X - bias, weight_inverse()) = inverse_no_cache(X)`** for `LULinear`, as executed over ℝ: the product with
    the matrix obtained by solving against the identity, against the two triangular solves per row (lu.py:70-93, 104-118) -/
theorem lu_cached_inverse (p : LUParams ℝ) (hlen : p.udiag.length = p.n) (heps : 0 ≤ p.eps) (hb : p.bias.length = p.n)
    (X : List (List ℝ)) (hX : ∀ x ∈ X, x.length = p.n) :
    cachedInverse realOps (luWeightInverse realOps p) p.bias X = luInverse realOps p X :=
  inverse_paths_agree p.bias hb _ (luForward realOps p) _ (rowWise_luInverse realOps p) (luW p)
    (luWeightInverse_executed p hlen heps) (luForward_executed p hb) (luInverse_executed p hlen heps hb) X hX

/-- **LULinear: the cache is transparent in value** (all slots, both passes, the log-abs-det scalar and its sign) -/
theorem lu_cache_paths (p : LUParams ℝ) (hlen : p.udiag.length = p.n) (heps : 0 ≤ p.eps) (hb : p.bias.length = p.n)
    (X : List (List ℝ)) (hX : ∀ x ∈ X, x.length = p.n) :
    ValueTransparent realOps (luAcc realOps p) X ∧
    ∃ W Winv : Matrix (Fin p.n) (Fin p.n) ℝ, luWeight realOps p = ofMat W ∧ luWeightInverse realOps p = ofMat Winv ∧
      Winv * W = 1 ∧ W * Winv = 1 ∧
      luLogabsdet realOps p = Real.log |W.det| ∧ -luLogabsdet realOps p = Real.log |Winv.det| := by
  obtain ⟨Winv, hWi, h1, h2⟩ := luWeightInverse_executed p hlen heps
  refine ⟨valueTransparent_of realOps (luAcc realOps p) X rfl rfl (lu_cached_forward p hb X hX)
    (lu_cached_inverse p hlen heps hb X hX), luW p, Winv, luWeight_executed p, hWi, h1, h2, luLogabsdet_executed p hlen heps, ?_⟩
  rw [log_abs_det_inv (luW p) Winv h1, luLogabsdet_executed p hlen heps]

/-! ## OneByOneConvolution: `LULinear` on every pixel (conv.py:17-30 calls `super().forward` / `super().inverse`) -/

theorem convRows_row_length {α : Type} (o : Ops α) (B C H W : Nat) (xs : List α) :
    ∀ x ∈ convRows o B C H W xs, x.length = C := by
  intro x hx
  simp only [convRows, List.mem_map, List.mem_range] at hx
  obtain ⟨r, _, rfl⟩ := hx
  simp

/-- the cached forward pass of the 1×1 convolution (cached `LULinear.forward` on the pixel rows) gives the outputs of the
    uncached one -/
theorem conv_cached_forward (p : LUParams ℝ) (hb : p.bias.length = p.n) (perm : List Nat) (B H W : Nat) (xs : List ℝ) :
    convUnrows realOps B p.n H W (cachedForward realOps (luWeight realOps p) p.bias
      (convRows realOps B p.n H W (permuteChannels realOps B p.n H W perm xs))) = (convForward realOps p perm B H W xs).1 := by
  unfold convForward
  simp only
  rw [lu_cached_forward p hb _ (convRows_row_length realOps B p.n H W _)]

/-- the same for the inverse pass -/
theorem conv_cached_inverse (p : LUParams ℝ) (hlen : p.udiag.length = p.n) (heps : 0 ≤ p.eps) (hb : p.bias.length = p.n)
    (perm : List Nat) (B H W : Nat) (xs : List ℝ) :
    permuteChannels realOps B p.n H W ((List.range p.n).map (fun c => perm.idxOf c))
      (convUnrows realOps B p.n H W (cachedInverse realOps (luWeightInverse realOps p) p.bias (convRows realOps B p.n H W xs)))
      = (convInverse realOps p perm B H W xs).1 := by
  unfold convInverse
  simp only
  rw [lu_cached_inverse p hlen heps hb _ (convRows_row_length realOps B p.n H W _)]

/-! ## QRLinear -/

theorem qr_cached_forward (p : QRParams ℝ) (vs : List (Fin p.n → ℝ)) (hq : p.qs = vs.map List.ofFn)
    (hl : p.logDiag.length = p.n) (hb : p.bias.length = p.n) (X : List (List ℝ)) (hX : ∀ x ∈ X, x.length = p.n) :
    cachedForward realOps (qrWeight realOps p) p.bias X = qrForward realOps p X :=
  forward_paths_agree p.bias hb _ _ (rowWise_qrForward realOps p) (qrW p vs) (qrWeight_executed p vs hq hl)
    (qrForward_executed p vs hq hl hb) X hX

theorem qr_cached_inverse (p : QRParams ℝ) (vs : List (Fin p.n → ℝ)) (hq : p.qs = vs.map List.ofFn)
    (hv : ∀ v ∈ vs, v ⬝ᵥ v ≠ 0) (hl : p.logDiag.length = p.n) (hb : p.bias.length = p.n)
    (X : List (List ℝ)) (hX : ∀ x ∈ X, x.length = p.n) :
    cachedInverse realOps (qrWeightInverse realOps p) p.bias X = qrInverse realOps p X :=
  inverse_paths_agree p.bias hb _ (qrForward realOps p) _ (rowWise_qrInverse realOps p) (qrW p vs)
    (qrWeightInverse_executed p vs hq hv hl) (qrForward_executed p vs hq hl hb) (qrInverse_executed p vs hq hv hl hb) X hX

/-- **QRLinear: the cache is transparent in value** (q-vectors `vs`, none zero) -/
theorem qr_cache_paths (p : QRParams ℝ) (vs : List (Fin p.n → ℝ)) (hq : p.qs = vs.map List.ofFn)
    (hv : ∀ v ∈ vs, v ⬝ᵥ v ≠ 0) (hl : p.logDiag.length = p.n) (hb : p.bias.length = p.n)
    (X : List (List ℝ)) (hX : ∀ x ∈ X, x.length = p.n) :
    ValueTransparent realOps (qrAcc realOps p) X ∧
    ∃ W Winv : Matrix (Fin p.n) (Fin p.n) ℝ, qrWeight realOps p = ofMat W ∧ qrWeightInverse realOps p = ofMat Winv ∧
      Winv * W = 1 ∧ W * Winv = 1 ∧
      qrLogabsdet realOps p = Real.log |W.det| ∧ -qrLogabsdet realOps p = Real.log |Winv.det| := by
  obtain ⟨Winv, hWi, h1, h2⟩ := qrWeightInverse_executed p vs hq hv hl
  refine ⟨valueTransparent_of realOps (qrAcc realOps p) X rfl rfl (qr_cached_forward p vs hq hl hb X hX)
    (qr_cached_inverse p vs hq hv hl hb X hX), qrW p vs, Winv, qrWeight_executed p vs hq hl, hWi, h1, h2,
    qrLogabsdet_executed p vs hv hl, ?_⟩
  rw [log_abs_det_inv (qrW p vs) Winv h1, qrLogabsdet_executed p vs hv hl]

/-! ## SVDLinear -/

theorem svd_cached_forward (p : SVDParams ℝ) (vs1 vs2 : List (Fin p.n → ℝ)) (h1 : p.qs1 = vs1.map List.ofFn)
    (h2 : p.qs2 = vs2.map List.ofFn) (hl : p.udiag.length = p.n) (hb : p.bias.length = p.n)
    (X : List (List ℝ)) (hX : ∀ x ∈ X, x.length = p.n) :
    cachedForward realOps (svdWeight realOps p) p.bias X = svdForward realOps p X :=
  forward_paths_agree p.bias hb _ _ (rowWise_svdForward realOps p) (svdW p vs1 vs2) (svdWeight_executed p vs1 vs2 h1 h2 hl)
    (svdForward_executed p vs1 vs2 h1 h2 hl hb) X hX

theorem svd_cached_inverse (p : SVDParams ℝ) (vs1 vs2 : List (Fin p.n → ℝ)) (h1 : p.qs1 = vs1.map List.ofFn)
    (h2 : p.qs2 = vs2.map List.ofFn) (hv1 : ∀ v ∈ vs1, v ⬝ᵥ v ≠ 0) (hv2 : ∀ v ∈ vs2, v ⬝ᵥ v ≠ 0)
    (hl : p.udiag.length = p.n) (heps : 0 ≤ p.eps) (hb : p.bias.length = p.n)
    (X : List (List ℝ)) (hX : ∀ x ∈ X, x.length = p.n) :
    cachedInverse realOps (svdWeightInverse realOps p) p.bias X = svdInverse realOps p X :=
  inverse_paths_agree p.bias hb _ (svdForward realOps p) _ (rowWise_svdInverse realOps p) (svdW p vs1 vs2)
    (svdWeightInverse_executed p vs1 vs2 h1 h2 hv1 hv2 hl heps) (svdForward_executed p vs1 vs2 h1 h2 hl hb)
    (svdInverse_executed p vs1 vs2 h1 h2 hv1 hv2 hl heps hb) X hX

/-- **SVDLinear: the cache is transparent in value** -/
theorem svd_cache_paths (p : SVDParams ℝ) (vs1 vs2 : List (Fin p.n → ℝ)) (h1 : p.qs1 = vs1.map List.ofFn)
    (h2 : p.qs2 = vs2.map List.ofFn) (hv1 : ∀ v ∈ vs1, v ⬝ᵥ v ≠ 0) (hv2 : ∀ v ∈ vs2, v ⬝ᵥ v ≠ 0)
    (hl : p.udiag.length = p.n) (heps : 0 ≤ p.eps) (hb : p.bias.length = p.n)
    (X : List (List ℝ)) (hX : ∀ x ∈ X, x.length = p.n) :
    ValueTransparent realOps (svdAcc realOps p) X ∧
    ∃ W Winv : Matrix (Fin p.n) (Fin p.n) ℝ, svdWeight realOps p = ofMat W ∧ svdWeightInverse realOps p = ofMat Winv ∧
      Winv * W = 1 ∧ W * Winv = 1 ∧
      svdLogabsdet realOps p = Real.log |W.det| ∧ -svdLogabsdet realOps p = Real.log |Winv.det| := by
  obtain ⟨Winv, hWi, hi1, hi2⟩ := svdWeightInverse_executed p vs1 vs2 h1 h2 hv1 hv2 hl heps
  refine ⟨valueTransparent_of realOps (svdAcc realOps p) X rfl rfl (svd_cached_forward p vs1 vs2 h1 h2 hl hb X hX)
    (svd_cached_inverse p vs1 vs2 h1 h2 hv1 hv2 hl heps hb X hX), svdW p vs1 vs2, Winv, svdWeight_executed p vs1 vs2 h1 h2 hl,
    hWi, hi1, hi2, svdLogabsdet_executed p vs1 vs2 hv1 hv2 hl heps, ?_⟩
  rw [log_abs_det_inv (svdW p vs1 vs2) Winv hi1, svdLogabsdet_executed p vs1 vs2 hv1 hv2 hl heps]

/-! ## NaiveLinear — by specification of `torch.inverse` / `torch.lu` / `lu_solve` / `slogdet` (one elimination), any `o` -/
section naive
variable {α : Type} (o : Ops α)

/-- the pivots of the elimination of `[W | I]` -/
def naivePivots (n : Nat) (W : List (List α)) : List α :=
  ((List.range n).foldl (fun st c => gaussStep o c st)
    ([], (W.zip (eye o n)).map (fun p => p.1 ++ p.2), [])).2.2

/-- `NaiveLinear.weight_inverse_and_logabsdet` (linear.py:217-236; the only combined routine the library overrides):
    `lu_solve(identity, lu(W))` and `sum(log|diag(lu)|)` from the SAME factorisation -/
def naiveCombinedInv (n : Nat) (W : List (List α)) : Except Err (List (List α) × α) :=
  (gaussInverse o n W).map (fun r => (r.1, sum o (r.2.map (fun p => o.log (absA o p)))))

/-- `weight()` is the parameter itself (linear.py:202-206): the cached forward pass IS the uncached one -/
theorem naive_cached_forward (W : List (List α)) (b : List α) (X : List (List α)) :
    cachedForward o W b X = naiveForward o W b X := rfl

/-- whenever `weight_inverse()` succeeds (no zero pivot), `F.linear(X - bias, weight_inverse())` is what
    `inverse_no_cache` computes from the same elimination -/
theorem naive_cached_inverse (n : Nat) (W : List (List α)) (b : List α) (X : List (List α)) (Winv : List (List α))
    (pivs : List α) (h : gaussInverse o n W = .ok (Winv, pivs)) :
    cachedInverse o Winv b X = naiveInverse o n W b X := by
  unfold gaussInverse at h
  unfold naiveInverse cachedInverse
  simp only at h ⊢
  generalize (List.range n).foldl (fun st c => gaussStep o c st)
    ([], (W.zip (eye o n)).map (fun p => p.1 ++ p.2), []) = st at h ⊢
  obtain ⟨done, rest, pv⟩ := st
  simp only at h ⊢
  split at h
  · cases h
  · cases h; rfl

/-- the combined routine returns the pair (`weight_inverse()`, `logabsdet()`): same inverse, and a log-abs-det that is
    `logabsdet()` — NOT its negative (the seeded change C10c) -/
theorem naive_combined_eq (n : Nat) (W : List (List α)) (Winv : List (List α)) (pivs : List α)
    (h : gaussInverse o n W = .ok (Winv, pivs)) :
    naiveCombinedInv o n W = .ok (Winv, naiveLogabsdet o n W) ∧ pivs = naivePivots o n W := by
  unfold naiveCombinedInv
  rw [h]
  unfold gaussInverse at h
  unfold naiveLogabsdet naivePivots
  simp only at h ⊢
  generalize (List.range n).foldl (fun st c => gaussStep o c st)
    ([], (W.zip (eye o n)).map (fun p => p.1 ++ p.2), []) = st at h ⊢
  obtain ⟨done, rest, pv⟩ := st
  simp only at h ⊢
  split at h
  · cases h
  · cases h; exact ⟨rfl, rfl⟩

end naive

/-- `NaiveLinear.forward_no_cache`, as executed over ℝ on a well-shaped row, is `W x + b` (C11 finding 1: the model term
    itself) -/
theorem naive_forward_executed {n : ℕ} (W : Matrix (Fin n) (Fin n) ℝ) (b : List ℝ) (hb : b.length = n) (x : Fin n → ℝ) :
    naiveForward realOps (ofMat W) b [List.ofFn x] = [List.ofFn (W *ᵥ x + vecFn n b)] :=
  cachedForward_row W b hb x

/-- if the elimination returns a matrix that IS a left inverse of `W` (the specification of `torch.inverse`; the
    arithmetic of the elimination is not verified here), the uncached inverse pass of `NaiveLinear` undoes the forward
    pass — and singular `W` is excluded by that hypothesis -/
theorem naive_inverse_executed {n : ℕ} (W Winv : Matrix (Fin n) (Fin n) ℝ) (b : List ℝ) (hb : b.length = n) (pivs : List ℝ)
    (h : gaussInverse realOps n (ofMat W) = .ok (ofMat Winv, pivs)) (hinv : Winv * W = 1) (x : Fin n → ℝ) :
    naiveInverse realOps n (ofMat W) b (naiveForward realOps (ofMat W) b [List.ofFn x]) = [List.ofFn x] := by
  rw [← naive_cached_inverse realOps n (ofMat W) b _ (ofMat Winv) pivs h, naive_forward_executed W b hb,
    cachedInverse_row Winv b hb, add_sub_cancel_right, Matrix.mulVec_mulVec, hinv, Matrix.one_mulVec]

/-! ## reading the observables of the C10 machine as values

`Core/Cache.lean` reports a pass as `Out.ok wv wdt lv ldt`: "outputs computed with the weight (inverse) of parameter
version `wv`, log-abs-det of version `lv`".  With `A v` the accessors at the parameter values of version `v`, the value
such an observable denotes is the cached formula with the slot of version `wv` and the LIVE bias (`self.bias` is never
cached).  C10 proves `wv = lv = current version` on every admissible history; together with `ValueTransparent` this is
"the same outputs and log-abs-dets as recomputing without the cache", in value. -/
section denote
variable {α : Type} (o : Ops α)

/-- value of a forward observable (`none` for the error observables) -/
def denoteFwd (A : Nat → Accessors α) (cur : Nat) (X : List (List α)) : Cache.Out → Option (List (List α) × α)
  | .ok wv _ lv _ => some (cachedForward o (A wv).weight (A cur).bias X, (A lv).logabsdet)
  | _ => none

/-- value of an inverse observable; the pass returns MINUS the slot (linear.py:69) -/
def denoteInv (neg : α → α) (A : Nat → Accessors α) (cur : Nat) (X : List (List α)) : Cache.Out → Option (List (List α) × α)
  | .ok wv _ lv _ => some (cachedInverse o (A wv).weightInverse (A cur).bias X, neg (A lv).logabsdet)
  | _ => none

/-- an observable that names the CURRENT version (what `Properties.C10.cache_transparent_partial` establishes, it being
    equal to the reference's `.ok ver dt ver dt`) denotes the uncached results -/
theorem denote_current (neg : α → α) (A : Nat → Accessors α) (cur : Nat) (X : List (List α))
    (hA : ValueTransparent o (A cur) X) (d d' : Cache.DT) :
    denoteFwd o A cur X (.ok cur d cur d') = some ((A cur).forwardNoCache X, (A cur).logabsdet) ∧
    denoteInv o neg A cur X (.ok cur d cur d') = some ((A cur).inverseNoCache X, neg (A cur).logabsdet) := by
  have hf := (hA.forward_eq none none (fun _ h => by cases h) (fun _ h => by cases h)).1
  have hi := (hA.inverse_eq none none (fun _ h => by cases h) (fun _ h => by cases h)).1
  simp only [checkCache, hA.combinedW_eq, hA.combinedInv_eq] at hf hi
  simp only [denoteFwd, denoteInv, hf, hi, and_self]

end denote

/-! ## non-vacuity: the theorems instantiated at concrete, non-trivial parameters -/

/-- LU with `n = 2`, a non-zero lower and upper entry, non-trivial diagonal and bias, on a batch of two rows -/
example :
    let p : LUParams ℝ := { n := 2, lower := [3], upper := [5], udiag := [0, 1], bias := [1, -1], eps := 1 / 1000 }
    cachedForward realOps (luWeight realOps p) p.bias [[1, 2], [-4, 7]] = luForward realOps p [[1, 2], [-4, 7]] ∧
    cachedInverse realOps (luWeightInverse realOps p) p.bias [[1, 2], [-4, 7]] = luInverse realOps p [[1, 2], [-4, 7]] := by
  intro p
  have hX : ∀ x ∈ ([[1, 2], [-4, 7]] : List (List ℝ)), x.length = p.n := by
    intro x hx
    simp only [List.mem_cons, List.not_mem_nil, or_false] at hx
    rcases hx with rfl | rfl <;> rfl
  exact ⟨lu_cached_forward p rfl _ hX, lu_cached_inverse p rfl (by norm_num) rfl _ hX⟩

/-- QR with two non-zero q-vectors -/
example :
    let p : QRParams ℝ :=
      { n := 2, upper := [5], logDiag := [0, 1],
        qs := [List.ofFn (![1, 2] : Fin 2 → ℝ), List.ofFn (![0, 3] : Fin 2 → ℝ)], bias := [1, -1] }
    cachedInverse realOps (qrWeightInverse realOps p) p.bias [[1, 2], [-4, 7]] = qrInverse realOps p [[1, 2], [-4, 7]] := by
  intro p
  have hX : ∀ x ∈ ([[1, 2], [-4, 7]] : List (List ℝ)), x.length = p.n := by
    intro x hx
    simp only [List.mem_cons, List.not_mem_nil, or_false] at hx
    rcases hx with rfl | rfl <;> rfl
  have hv : ∀ v ∈ ([![1, 2], ![0, 3]] : List (Fin 2 → ℝ)), v ⬝ᵥ v ≠ 0 := by
    intro v hv
    simp only [List.mem_cons, List.not_mem_nil, or_false] at hv
    rcases hv with rfl | rfl <;> (simp [dotProduct, Fin.sum_univ_two]; try norm_num)
  exact qr_cached_inverse p [![1, 2], ![0, 3]] rfl hv rfl rfl _ hX

end NF.CachePaths
