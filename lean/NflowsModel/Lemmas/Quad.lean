import Mathlib.Analysis.Calculus.Deriv.MeanValue
import Mathlib.Analysis.Calculus.Deriv.Pow
import Mathlib.Analysis.SpecialFunctions.Log.Basic
import Mathlib.Analysis.SpecialFunctions.Sqrt
import Mathlib.Tactic



noncomputable section
namespace Quad
/-- quadratic-spline bin in α ∈ [0,1] (quadratic.py:134-148): a α² + b α + c with
    a = ½(h_r - h_l) w, b = h_l w, c = left cdf -/
def cdf (hl hr w c α : ℝ) : ℝ := 0.5 * (hr - hl) * w * α^2 + hl * w * α + c
/-- what the code takes the log of: α (h_r - h_l) + h_l  (derivative w.r.t. the *normalised input*) -/
def pdf (hl hr α : ℝ) : ℝ := α * (hr - hl) + hl

theorem pdf_pos {hl hr α : ℝ} (h0 : 0 < hl) (h1 : 0 < hr) (a0 : 0 ≤ α) (a1 : α ≤ 1) : 0 < pdf hl hr α := by
  unfold pdf
  rcases le_total hl hr with h | h
  · have : 0 ≤ α * (hr - hl) := mul_nonneg a0 (sub_nonneg.2 h)
    linarith
  · have : 0 ≤ (1 - α) * (hl - hr) := mul_nonneg (sub_nonneg.2 a1) (sub_nonneg.2 h)
    nlinarith

/-- in the normalised input x̃ = x_k + w α the derivative is the pdf -/
theorem cdf_hasDerivAt {hl hr w c xk x : ℝ} (hw : 0 < w) :
    HasDerivAt (fun x => cdf hl hr w c ((x - xk) / w)) (pdf hl hr ((x - xk)/w)) x := by
  have hα : HasDerivAt (fun x : ℝ => (x - xk) / w) (1 / w) x := by
    simpa using ((hasDerivAt_id' x).sub_const xk).div_const w
  have := (((hα.pow 2).const_mul (0.5 * (hr - hl) * w)).add (hα.const_mul (hl * w))).add_const c
  refine this.congr_deriv ?_
  unfold pdf; have := hw.ne'; simp only [Nat.cast_ofNat, Nat.add_one_sub_one, pow_one]; field_simp; ring

theorem cdf_right {hl hr w c : ℝ} : cdf hl hr w c 1 = c + 0.5 * (hl + hr) * w := by unfold cdf; ring
theorem cdf_left {hl hr w c : ℝ} : cdf hl hr w c 0 = c := by unfold cdf; ring

/-- F1: with a non-square box the code's log-det (log pdf, no box term) is NOT the log-derivative of the
    map x ↦ bottom + (top-bottom)·cdf((x-left)/(right-left)): concrete witness left=0,right=1,bottom=0,top=2,
    one bin with h_l = h_r = 1: true derivative 2, code's exp(logabsdet) = 1. -/
theorem boxscale_counterexample :
    ∃ (hl hr : ℝ), HasDerivAt (fun x : ℝ => 0 + (2 - 0) * cdf hl hr 1 0 ((x - 0) / 1)) 2 (1/2)
      ∧ Real.exp (Real.log (pdf hl hr (1/2))) ≠ 2 := by
  refine ⟨1, 1, ?_, ?_⟩
  · have h := (cdf_hasDerivAt (hl := 1) (hr := 1) (w := 1) (c := 0) (xk := 0) (x := 1/2) one_pos).const_mul (2 - 0 : ℝ)
    have h' := h.const_add 0
    refine h'.congr_deriv ?_
    unfold pdf; norm_num
  · unfold pdf; norm_num

/-- F2: inverse as coded (quadratic.py:138-139) divides by 2a; with equal heights a = 0 and, in Lean's
    totalised division, the returned α is 0 for every input (in IEEE arithmetic it is NaN) -/
def invAlpha (hl hr w c y : ℝ) : ℝ :=
  let a := 0.5 * (hr - hl) * w; let b := hl * w; let c' := c - y
  (-b + Real.sqrt (b^2 - 4 * a * c')) / (2 * a)
theorem inverse_counterexample : invAlpha 1 1 1 0 (1/2) = 0 ∧ cdf 1 1 1 0 (invAlpha 1 1 1 0 (1/2)) ≠ 1/2 := by
  have h : invAlpha 1 1 1 0 (1/2) = 0 := by unfold invAlpha; norm_num
  refine ⟨h, ?_⟩
  rw [h]; unfold cdf; norm_num
end Quad


end
